/-
C56 — Inter-process queues are FIFO without lost items or wakeups.

Model: `SquidModel.Ipc.Queue` (OneToOneUniQueue::push/pop and QueueReader::block/unblock/raiseSignal/clearSignal of
src/ipc/Queue.h as sequences of single memory operations; one producer pushing any values at any time, Full included; one
consumer running squid's pop-until-empty / wait / clearSignal loop; the notification channel as a counter; C `unsigned int`
indices). All theorems quantify over every reachable state, i.e. every finite interleaving, any capacity > 0, any number of
pushes, any earlier traffic (`base`), any slot contents.

Full statement (FIFO): "the consumer receives exactly the pushed items, in order, with no duplicates". It is FALSE of the code
when the capacity does not divide 2^32 (`fifo_counterexample`: the slot position `theIn % theCapacity` jumps when the
unsigned index wraps); it is proved with `s.cap ∣ W` as an explicit hypothesis (`…_partial`), and `tree_capacities_ok`
shows the hypothesis for every capacity used in the tree. The wake-up theorems need no such hypothesis.
-/
import SquidModel.Ipc.QueueRun
import SquidModel.Ipc.QueueLive
import SquidModel.Ipc.QueueHist

namespace SquidModel.C56
open SquidModel.Ipc.Queue

/-! ### FIFO, no loss, no duplicates -/

/-- At every moment the delivered values are exactly the first values pushed, position by position. -/
theorem fifo_no_dup_no_loss_partial {s : St} (hr : Reachable s) (hd : s.cap ∣ W) :
    s.recv = s.pushed.take s.recv.length :=
  ((inv_reachable hr).fifo hd).symm

/-- ... in particular what was received is a prefix of what was pushed. -/
theorem received_is_prefix_partial {s : St} (hr : Reachable s) (hd : s.cap ∣ W) : s.recv <+: s.pushed := by
  rw [fifo_no_dup_no_loss_partial hr hd]
  exact List.take_prefix _ _

/-- When nothing can move any more (producer between calls, consumer waiting, no notification in flight) every pushed item
has been delivered: none is lost, none is stuck in the queue. (The counting part needs no hypothesis on the capacity.) -/
theorem all_delivered_at_rest {s : St} (hr : Reachable s) (hp : s.p = .rest) (hc : s.c = .idle) (hn : s.notif = 0) :
    s.recv.length = s.pushed.length ∧ s.size = 0 := by
  have inv := inv_reachable hr
  have h1 := inv.sizeEq
  have h2 := inv.sig
  have h3 := inv.wake hc
  rw [hp, hc] at h1 h2
  rw [hp] at h3
  simp only [PPC.incI, CPC.decI, PPC.notI, CPC.clrI, PPC.raising, hn] at h1 h2 h3
  have hs : s.size = 0 := by
    cases hz : s.size with
    | zero => rfl
    | succ n =>
      have := h3 (by omega)
      cases hsig : s.signal <;> simp [hsig] at this h2
  omega

theorem all_delivered_at_rest_partial {s : St} (hr : Reachable s) (hd : s.cap ∣ W) (hp : s.p = .rest) (hc : s.c = .idle)
    (hn : s.notif = 0) : s.recv = s.pushed := by
  have h := (all_delivered_at_rest hr hp hc hn).1
  have := fifo_no_dup_no_loss_partial hr hd
  rw [h, List.take_length] at this
  exact this

/-! ### No lost wake-up -/

/-- A waiting consumer is never left alone with items: if something has been pushed and not delivered, a notification is
in flight, or the producer is still inside the push() (or the notification send that follows it) that will provide one. -/
theorem never_asleep_with_items {s : St} (hr : Reachable s) (hc : s.c = .idle) (hi : s.recv.length < s.pushed.length) :
    0 < s.notif ∨ s.p = .inc ∨ s.p = .blk ∨ s.p = .xchg ∨ s.p = .notify := by
  have inv := inv_reachable hr
  have h1 := inv.sizeEq
  have h2 := inv.sig
  have h3 := inv.wake hc
  rw [hc] at h1 h2
  simp only [CPC.decI, CPC.clrI] at h1 h2
  cases hp : s.p <;> simp only [hp, PPC.incI, PPC.notI, PPC.raising] at h1 h2 h3 <;> simp
  all_goals
    have := h3 (by omega)
    cases hsig : s.signal <;> simp [hsig] at this h2
    omega

/-- ... and that producer, running alone to the end of its call, does put a notification in flight. -/
theorem producer_alone_delivers_wakeup {s : St} (hr : Reachable s) (hc : s.c = .idle) (hi : s.recv.length < s.pushed.length) :
    0 < (finishPush s).notif := by
  have hf := finishPush_frame s
  have h := never_asleep_with_items (reachable_finishPush hr) (by rw [hf.1, hc]) (by rw [hf.2.1]; omega)
  simpa [finishPush_rest s] using h

/-- A consumer waiting on an empty queue: either a notification is already pending, or the flags are such
(`popBlocked ∧ ¬popSignal`) that the next push() — whatever its value — returns true and its notification is sent. -/
theorem idle_on_empty_next_push_notifies {s : St} (hr : Reachable s) (hc : s.c = .idle) (hp : s.p = .rest)
    (he : s.recv.length = s.pushed.length) :
    0 < s.notif ∨ (s.blocked = true ∧ s.signal = false ∧
      ∀ v, (finishPush (callPush s v)).notif = 1 ∧ (finishPush (callPush s v)).pushed = s.pushed ++ [v] ∧
           (stepP (stepP (stepP (stepP (stepP (callPush s v)))))).p = .notify) := by
  have inv := inv_reachable hr
  have h1 := inv.sizeEq
  have h2 := inv.sig
  have h4 := inv.blk
  have h5 := inv.capPos
  rw [hc, hp] at h1 h2
  rw [hc] at h4
  simp only [CPC.decI, CPC.clrI, PPC.incI, PPC.notI, CPC.blockedPc] at h1 h2 h4
  have hb := h4 trivial
  have hz : s.size = 0 := by omega
  cases hsig : s.signal with
  | true => left; simp [hsig] at h2; omega
  | false =>
    right
    simp [hsig] at h2
    have hn : s.notif = 0 := by omega
    refine ⟨hb, rfl, fun v => ?_⟩
    obtain ⟨cap, base, size, blocked, signal, buf, tin, tout, notif, pushed, recv, p, c⟩ := s
    simp only at hz hb hsig hn h5
    subst hz hb hsig hn
    have hcap : ¬ (0 = cap) := by omega
    simp [finishPush, callPush, stepP, hcap]

/-- A pending notification can always be taken by the waiting consumer (it then clears the signal and pops again). -/
theorem notification_wakes_consumer {s : St} (hc : s.c = .idle) (hn : 0 < s.notif) :
    (stepC s).c = .clr1 ∧ (stepC (stepC (stepC s))).c = .e1 ∧ (stepC s).notif = s.notif - 1 := by
  obtain ⟨cap, base, size, blocked, signal, buf, tin, tout, notif, pushed, recv, p, c⟩ := s
  simp only at hc hn
  subst hc
  simp [stepC, hn]

/-- Progress of the consumer: with the producer between calls, the consumer scheduled alone takes every pending notification,
delivers every pushed item and goes to sleep on the empty queue, within `cmeasure s` of its own steps. -/
theorem consumer_alone_delivers_everything {s : St} (hr : Reachable s) (hp : s.p = .rest) :
    ∃ n, n ≤ cmeasure s ∧ (runC n s).c = .idle ∧ (runC n s).notif = 0 ∧ (runC n s).size = 0 ∧
      (runC n s).recv.length = s.pushed.length ∧ (s.cap ∣ W → (runC n s).recv = s.pushed) := by
  obtain ⟨n, hn, hc, h0⟩ := consumer_alone_falls_asleep s
  have hf := runC_frame n s
  have hr' := reachable_runC n hr
  have hd := all_delivered_at_rest hr' (by rw [hf.1, hp]) hc h0
  refine ⟨n, hn, hc, h0, hd.2, by rw [hd.1, hf.2.1], fun hdvd => ?_⟩
  have := all_delivered_at_rest_partial hr' (by rw [hf.2.2]; exact hdvd) (by rw [hf.1, hp]) hc h0
  rw [this, hf.2.1]

/-- The signal flag makes notifications unique: never more than one is about to be sent or in flight. -/
theorem at_most_one_notification {s : St} (hr : Reachable s) : s.notif + s.p.notI + s.c.clrI ≤ 1 := by
  have h := (inv_reachable hr).sig
  cases hsig : s.signal <;> simp [hsig] at h <;> omega

/-! ### Memory safety of the lock-free accesses -/

/-- Data-race freedom of the slot array: whenever the producer is about to write a slot and the consumer is about to read
one (both non-atomic `memcpy`s), they are different slots. -/
theorem slots_disjoint_partial {s : St} (hr : Reachable s) (hd : s.cap ∣ W) (v : Nat) (hp : s.p = .write v) (hc : s.c = .read) :
    s.tin % s.cap ≠ s.tout % s.cap := by
  have inv := inv_reachable hr
  have h1 := inv.sizeEq
  have h2 := inv.room
  have h3 := inv.avail
  rw [hp, hc] at h1
  rw [hp] at h2
  rw [hc] at h3
  simp only [PPC.incI, CPC.decI, PPC.preInc, CPC.taking] at h1 h2 h3
  have := h2 trivial
  have := h3 trivial
  rw [inv.tinEq, inv.toutEq, wrap_slot _ _ hd, wrap_slot _ _ hd]
  exact Ne.symm (mod_ne_of_lt _ _ _ (by omega) (by omega))

/-- `theSize` never exceeds the capacity and `--theSize` never underflows. -/
theorem size_in_range {s : St} (hr : Reachable s) : s.size ≤ s.cap ∧ (s.c = .dec → 0 < s.size) := by
  have inv := inv_reachable hr
  exact ⟨inv.bound, fun h => inv.avail (by rw [h]; rfl)⟩

/-- the slot window never holds more than `cap` undelivered items -/
theorem window_bounded {s : St} (hr : Reachable s) : s.recv.length ≤ s.pushed.length ∧ s.pushed.length - s.recv.length ≤ s.cap + 1 := by
  have inv := inv_reachable hr
  have h1 := inv.sizeEq
  have h2 := inv.bound
  have : s.p.incI ≤ 1 := by cases s.p <;> simp [PPC.incI]
  exact ⟨inv.le, by omega⟩

/-! ### The capacity hypothesis -/

/-- every capacity squid creates its queues with (translate/queue_cfg.py) satisfies the hypothesis of the `_partial` theorems -/
theorem tree_capacities_ok : ∀ c ∈ SquidModel.Gen.QueueCfg.treeCapacities, 0 < c ∧ c ∣ W := by decide

/-- FIFO fails when the capacity does not divide 2^32: capacity 3, indices one push before the wrap (as after 2^32 - 2 earlier
push/pop pairs), producer pushes 1, 2, 3, then the consumer pops three times: it receives 1, 3, 3. -/
def wrapWitness : St :=
  run (St.init 3 (W - 2) [0, 0, 0])
    [.call 1, .p, .p, .p, .p, .call 2, .p, .p, .p, .call 3, .p, .p, .p,
     .c, .c, .c, .c, .c, .c, .c, .c, .c, .c, .c, .c, .c, .c]

theorem fifo_counterexample :
    Reachable wrapWitness ∧ ¬ (wrapWitness.cap ∣ W) ∧ wrapWitness.pushed = [1, 2, 3] ∧ wrapWitness.recv = [1, 3, 3] ∧
    ¬ (wrapWitness.recv <+: wrapWitness.pushed) := by
  refine ⟨reachable_run (Reachable.init 3 (W - 2) [0, 0, 0] (by decide) rfl) _, by decide, by decide, by decide, by decide⟩

/-- The same failure without the ghost `base`: a FRESH queue of capacity 3 (indices 0, `base = 0`) that has carried any
2^32 - 2 items one at a time reaches a state from which three pushes and three pops deliver 1, 3, 3. -/
theorem fifo_counterexample_from_fresh_queue (h : List Nat) (hl : h.length = W - 2) :
    ∃ s, Reachable s ∧ s.base = 0 ∧ s.cap = 3 ∧ s.pushed = h ++ [1, 2, 3] ∧ s.recv = h ++ [1, 3, 3] ∧ ¬ (s.recv <+: s.pushed) := by
  obtain ⟨buf, hb, hr⟩ := reachable_loopHead 3 (by decide) h
  match buf, hb with
  | [a, b, c], _ =>
    have hw := wrap_breaks_fifo_after h hl a b c
    simp only at hw
    refine ⟨_, reachable_run hr _, hw.1, hw.2.1, hw.2.2.1, hw.2.2.2, ?_⟩
    rw [hw.2.2.1, hw.2.2.2]
    intro hp
    have := (List.prefix_append_right_inj h).mp hp
    revert this
    decide

/-! ### Non-vacuity -/

/-- a consumer asleep while an item is in the queue and the producer is about to send the notification: the hypotheses of
`never_asleep_with_items` are satisfiable and its conclusion is met by `p = notify` -/
example : ∃ s, Reachable s ∧ s.c = .idle ∧ s.recv.length < s.pushed.length ∧ s.p = .notify ∧ s.notif = 0 :=
  ⟨run (St.init 2 0 [0, 0]) [.c, .c, .c, .c, .c, .call 5, .p, .p, .p, .p, .p],
   reachable_run (Reachable.init 2 0 [0, 0] (by decide) rfl) _, by decide, by decide, by decide, by decide⟩

/-- producer writing a slot while the consumer reads one is reachable (so `slots_disjoint_partial` is about something) -/
example : ∃ s v, Reachable s ∧ s.cap ∣ W ∧ s.p = .write v ∧ s.c = .read :=
  ⟨run (St.init 2 0 [0, 0]) [.call 5, .p, .p, .p, .p, .c, .c, .c, .c, .call 6, .p], 6,
   reachable_run (Reachable.init 2 0 [0, 0] (by decide) rfl) _, by decide, by decide, by decide⟩

/-- a quiescent state with everything delivered, over the index wrap with a power-of-two capacity -/
example : ∃ s, Reachable s ∧ s.cap ∣ W ∧ s.p = .rest ∧ s.c = .idle ∧ s.notif = 0 ∧ s.recv = [1, 2, 3] ∧ s.tin = 1 :=
  ⟨run (St.init 4 (W - 2) [0, 0, 0, 0])
     [.call 1, .p, .p, .p, .p, .call 2, .p, .p, .p, .call 3, .p, .p, .p,
      .c, .c, .c, .c, .c, .c, .c, .c, .c, .c, .c, .c, .c, .c, .c, .c, .c],
   reachable_run (Reachable.init 4 (W - 2) [0, 0, 0, 0] (by decide) rfl) _, by decide, by decide, by decide, by decide, by decide, by decide⟩

end SquidModel.C56
