/-
C40 — FTP address replies and listings are parsed safely and strictly.

Property theorems only. Models: `SquidModel.Ftp.Addr` (Ftp::ParseIpPort, Ftp::ParseProtoIpPort of src/ftp/Parsing.cc),
`SquidModel.Ftp.Listing` (ftpListParseParts of src/clients/FtpGateway.cc), libc number scanning in `SquidModel.Ftp.CNum`;
lemmas in `AddrLemmas` / `ListingLemmas`. Every statement is for all byte strings, no length bound.

"As written" = the unbounded integer the lexer of strtol / sscanf("%d") reads (`lexInt`, `lexFields`), before any C
narrowing (`cInt` = saturate to long, keep the low 32 bits).  Text-to-address conversion (getaddrinfo) is the parameter
`ipParse`; hypotheses about it are stated where used.
-/
import SquidModel.Ftp.QuadLemmas
import SquidModel.Ftp.EpsvLemmas
import SquidModel.Ftp.ListingNameLemmas

namespace SquidModel.C40
open SquidModel.Ftp SquidModel.Gen.FtpParsing

/-! ## PORT / PASV: Ftp::ParseIpPort

The model is parametrised by the source variant (`PasvFlags`): `legacy` = the pinned code (`%d` into `int`, host fields not
range-checked), `fixed` = the code with notes/fixes/C40-pasv-component-range.diff (`%ld` into `long`, host fields checked).
`parseIpPort` is the variant the translator finds in the staged source. Theorems quantified over `fl` hold for whichever
variant is in the tree; `legacy_*` / `fixed_*` theorems are about the named variant. -/

/-- the staged source is one of the two known variants -/
theorem current_pasv_variant : PasvFlags.current = PasvFlags.legacy ∨ PasvFlags.current = PasvFlags.fixed := by decide

/-- `ipParse` never turns a formatted quad "%d.%d.%d.%d" of `int`s into an address unless the four numbers are octets, and
then it is that address (what getaddrinfo(AI_NUMERICHOST) does with canonical dotted quads). -/
def QuadSound (ipParse : Bytes → Option Nat) : Prop :=
  ∀ (a b c d : Int), FitsInt a → FitsInt b → FitsInt c → FitsInt d → ∀ ip : Nat, ipParse (fmtQuad a b c d) = some ip →
    0 ≤ a ∧ a ≤ 255 ∧ 0 ≤ b ∧ b ≤ 255 ∧ 0 ≤ c ∧ c ≤ 255 ∧ 0 ≤ d ∧ d ≤ 255 ∧ ip = v4 a.toNat b.toNat c.toNat d.toNat

/-- the assumption is satisfiable: the driver's dotted-quad conversion has it -/
theorem strictQuad_quadSound : QuadSound strictQuad := by
  intro a b c d fa fb fc fd ip h
  rw [strictQuad_fmtQuad a b c d fa fb fc fd] at h
  split at h
  · rename_i hr
    simp only [Option.some.injEq] at h
    obtain ⟨⟨a1, a2⟩, ⟨b1, b2⟩, ⟨c1, c2⟩, ⟨d1, d2⟩⟩ := hr
    exact ⟨a1, a2, b1, b2, c1, c2, d1, d2, h.symm⟩
  · exact absurd h (by simp)

/-- Holds for every string and every source variant: an accepted PORT/PASV string has six comma-separated numeric fields;
the two port fields, converted to the C type, are octets; the port is `p1*256+p2` of the converted values, lies in 1..65535
(1024..65535 under ftp_sanitycheck); the address is the forced one, or the conversion of the four converted host fields and
not 0.0.0.0/::. -/
theorem pasv_accept_fields {fl : PasvFlags} {ipParse : Bytes → Option Nat} {sanity : Bool} {force : Option Bytes} {addr0 : Nat}
    {buf : Bytes} {ip port : Nat} (h : parseIpPortCore fl ipParse sanity force addr0 buf = .ok ip port) :
    ∃ h1 h2 h3 h4 p1 p2 : Int, lexFields 6 buf = some [h1, h2, h3, h4, p1, p2] ∧
      0 ≤ narrow fl.long p1 ∧ narrow fl.long p1 ≤ 255 ∧ 0 ≤ narrow fl.long p2 ∧ narrow fl.long p2 ≤ 255 ∧
      (port : Int) = narrow fl.long p1 * 256 + narrow fl.long p2 ∧ 1 ≤ port ∧ port ≤ 65535 ∧
      (sanity = true → 1024 ≤ port) ∧
      (force = none → ip = assignIp ipParse addr0 (fmtQuad (narrow fl.long h1) (narrow fl.long h2) (narrow fl.long h3) (narrow fl.long h4)) ∧
        isAny ip = false) ∧
      (∀ f, force = some f → ip = assignIp ipParse addr0 f) := by
  obtain ⟨h1, h2, h3, h4, p1, p2, a, b, c, d, e, f, g, i, j, k, l, _⟩ := parseIpPort_ok_inv h
  exact ⟨h1, h2, h3, h4, p1, p2, a, b, c, d, e, f, g, i, j, k, l⟩

/-- the port of an accepted PORT/PASV string is never 0 and never above 65535, whatever the input and the variant -/
theorem pasv_port_in_range {fl : PasvFlags} {ipParse : Bytes → Option Nat} {sanity : Bool} {force : Option Bytes} {addr0 : Nat}
    {buf : Bytes} {ip port : Nat} (h : parseIpPortCore fl ipParse sanity force addr0 buf = .ok ip port) :
    1 ≤ port ∧ port ≤ 65535 ∧ (sanity = true → 1024 ≤ port) := by
  obtain ⟨_, _, _, _, _, _, _, _, _, _, _, _, h1, h2, h3, _⟩ := parseIpPort_ok_inv h
  exact ⟨h1, h2, h3⟩

/- FULL STATEMENT (false of the pinned code, see the `legacy_*_counterexample`s; true of the fixed variant, see
   `fixed_pasv_address_only_if_in_range`):
   parseIpPort ipParse sanity force 0 buf = .ok ip port → the six fields *as written* are octets, ip is that quad (≠ 0.0.0.0) or
   the forced address, port = p1*256+p2 ∈ 1..65535.
   Proved for every variant with the excluded region as hypotheses: every field as written fits an `int` (no 32-bit wrap),
   and no forced IP (the pinned code does not examine the host fields at all when an IP is forced). -/
theorem pasv_address_only_if_in_range_partial {fl : PasvFlags} {ipParse : Bytes → Option Nat} (hq : QuadSound ipParse) {sanity : Bool}
    {buf : Bytes} {ip port : Nat} (h : parseIpPortCore fl ipParse sanity none 0 buf = .ok ip port) :
    ∃ h1 h2 h3 h4 p1 p2 : Int, lexFields 6 buf = some [h1, h2, h3, h4, p1, p2] ∧
      (FitsInt h1 → FitsInt h2 → FitsInt h3 → FitsInt h4 → FitsInt p1 → FitsInt p2 →
        0 ≤ h1 ∧ h1 ≤ 255 ∧ 0 ≤ h2 ∧ h2 ≤ 255 ∧ 0 ≤ h3 ∧ h3 ≤ 255 ∧ 0 ≤ h4 ∧ h4 ≤ 255 ∧
        0 ≤ p1 ∧ p1 ≤ 255 ∧ 0 ≤ p2 ∧ p2 ≤ 255 ∧
        ip = v4 h1.toNat h2.toNat h3.toNat h4.toNat ∧ isAny ip = false ∧
        (port : Int) = p1 * 256 + p2 ∧ 1 ≤ port ∧ port ≤ 65535 ∧ (sanity = true → 1024 ≤ port)) := by
  obtain ⟨h1, h2, h3, h4, p1, p2, hw, c1, c2, c3, c4, hp, hp1, hp2, hs, hf, _⟩ := parseIpPort_ok_inv h
  refine ⟨h1, h2, h3, h4, p1, p2, hw, ?_⟩
  intro f1 f2 f3 f4 f5 f6
  rw [narrow_of_fits _ f5] at c1 c2 hp
  rw [narrow_of_fits _ f6] at c3 c4 hp
  obtain ⟨hip, hany⟩ := hf rfl
  rw [narrow_of_fits _ f1, narrow_of_fits _ f2, narrow_of_fits _ f3, narrow_of_fits _ f4] at hip
  -- the conversion succeeded, otherwise the address would still be the unspecified one
  cases hc : ipParse (fmtQuad h1 h2 h3 h4) with
  | none =>
    simp only [assignIp, hc, Option.getD_none] at hip
    subst hip
    exact absurd hany (by decide)
  | some a =>
    simp only [assignIp, hc, Option.getD_some] at hip
    subst hip
    obtain ⟨q1, q2, q3, q4, q5, q6, q7, q8, q9⟩ := hq h1 h2 h3 h4 f1 f2 f3 f4 ip hc
    exact ⟨q1, q2, q3, q4, q5, q6, q7, q8, c1, c2, c3, c4, q9, hany, hp, hp1, hp2, hs⟩

/-- a `long` conversion that lands in 0..255 is the number as written -/
theorem long_octet {v : Int} (h0 : 0 ≤ narrow true v) (h1 : narrow true v ≤ 255) : narrow true v = v ∧ 0 ≤ v ∧ v ≤ 255 := by
  have e : narrow true v = clampLong v := by simp [narrow]
  rw [e] at h0 h1 ⊢
  have := clampLong_inner (v := v) (by omega) (by omega)
  rw [this] at h0 h1
  exact ⟨this, h0, h1⟩

/-- FULL STATEMENT, for the fixed variant (notes/fixes/C40-pasv-component-range.diff): an accepted string has six fields
that *as written* are octets — with or without a forced IP —, the port is p1*256+p2 of the fields as written and lies in
1..65535 (≥ 1024 under ftp_sanitycheck), and without a forced IP the address is exactly that non-zero quad. -/
theorem fixed_pasv_address_only_if_in_range {ipParse : Bytes → Option Nat} (hq : QuadSound ipParse) {sanity : Bool}
    {force : Option Bytes} {buf : Bytes} {ip port : Nat}
    (h : parseIpPortCore PasvFlags.fixed ipParse sanity force 0 buf = .ok ip port) :
    ∃ h1 h2 h3 h4 p1 p2 : Int, lexFields 6 buf = some [h1, h2, h3, h4, p1, p2] ∧
      0 ≤ h1 ∧ h1 ≤ 255 ∧ 0 ≤ h2 ∧ h2 ≤ 255 ∧ 0 ≤ h3 ∧ h3 ≤ 255 ∧ 0 ≤ h4 ∧ h4 ≤ 255 ∧
      0 ≤ p1 ∧ p1 ≤ 255 ∧ 0 ≤ p2 ∧ p2 ≤ 255 ∧
      (port : Int) = p1 * 256 + p2 ∧ 1 ≤ port ∧ port ≤ 65535 ∧ (sanity = true → 1024 ≤ port) ∧
      (force = none → ip = v4 h1.toNat h2.toNat h3.toNat h4.toNat ∧ isAny ip = false) ∧
      (∀ f, force = some f → ip = assignIp ipParse 0 f) := by
  obtain ⟨h1, h2, h3, h4, p1, p2, hw, c1, c2, c3, c4, hp, hp1, hp2, hs, hf, hforce, hhost⟩ := parseIpPort_ok_inv h
  obtain ⟨⟨a1, a2⟩, ⟨b1, b2⟩, ⟨g1, g2⟩, ⟨d1, d2⟩⟩ := hhost rfl
  simp only [PasvFlags.fixed] at c1 c2 c3 c4 hp hf a1 a2 b1 b2 g1 g2 d1 d2
  obtain ⟨e1, x1, x2⟩ := long_octet a1 a2
  obtain ⟨e2, x3, x4⟩ := long_octet b1 b2
  obtain ⟨e3, x5, x6⟩ := long_octet g1 g2
  obtain ⟨e4, x7, x8⟩ := long_octet d1 d2
  obtain ⟨e5, y1, y2⟩ := long_octet c1 c2
  obtain ⟨e6, y3, y4⟩ := long_octet c3 c4
  rw [e5, e6] at hp
  rw [e1, e2, e3, e4] at hf
  refine ⟨h1, h2, h3, h4, p1, p2, hw, x1, x2, x3, x4, x5, x6, x7, x8, y1, y2, y3, y4, hp, hp1, hp2, hs, ?_, hforce⟩
  intro hn
  obtain ⟨hip, hany⟩ := hf hn
  have f1 : FitsInt h1 := by unfold FitsInt; omega
  have f2 : FitsInt h2 := by unfold FitsInt; omega
  have f3 : FitsInt h3 := by unfold FitsInt; omega
  have f4 : FitsInt h4 := by unfold FitsInt; omega
  cases hc : ipParse (fmtQuad h1 h2 h3 h4) with
  | none =>
    simp only [assignIp, hc, Option.getD_none] at hip
    subst hip
    exact absurd hany (by decide)
  | some a =>
    simp only [assignIp, hc, Option.getD_some] at hip
    subst hip
    obtain ⟨_, _, _, _, _, _, _, _, q9⟩ := hq h1 h2 h3 h4 f1 f2 f3 f4 ip hc
    exact ⟨q9, hany⟩

/-- COUNTEREXAMPLE, pinned code (32-bit wrap of `%d`): "4294967297,2,3,4,5,6" yields 1.2.3.4:1286 although the first field
is 2^32+1; the fixed variant rejects it. -/
theorem legacy_pasv_wrap_counterexample :
    parseIpPortCore PasvFlags.legacy strictQuad false none 0 [52, 50, 57, 52, 57, 54, 55, 50, 57, 55, 44, 50, 44, 51, 44, 52, 44, 53, 44, 54] = .ok (v4 1 2 3 4) 1286 := by decide +kernel
theorem fixed_pasv_wrap_rejected :
    parseIpPortCore PasvFlags.fixed strictQuad false none 0 [52, 50, 57, 52, 57, 54, 55, 50, 57, 55, 44, 50, 44, 51, 44, 52, 44, 53, 44, 54] = .reject := by decide +kernel

/-- COUNTEREXAMPLE, pinned code (wrap in a port field): "1,2,3,4,4294967301,6" yields port 5*256+6. -/
theorem legacy_pasv_port_wrap_counterexample :
    parseIpPortCore PasvFlags.legacy strictQuad false none 0 [49, 44, 50, 44, 51, 44, 52, 44, 52, 50, 57, 52, 57, 54, 55, 51, 48, 49, 44, 54] = .ok (v4 1 2 3 4) 1286 := by decide +kernel
theorem fixed_pasv_port_wrap_rejected :
    parseIpPortCore PasvFlags.fixed strictQuad false none 0 [49, 44, 50, 44, 51, 44, 52, 44, 52, 50, 57, 52, 57, 54, 55, 51, 48, 49, 44, 54] = .reject := by decide +kernel

/-- COUNTEREXAMPLE, pinned code (forced IP, the default `ftp_sanitycheck on` situation of the PASV reply): the host fields
are not examined at all — "999,999,999,999,4,0" yields the forced address; the fixed variant rejects it. -/
theorem legacy_pasv_forced_ip_counterexample (ipParse : Bytes → Option Nat) (f : Bytes) :
    parseIpPortCore PasvFlags.legacy ipParse true (some f) 0 [57, 57, 57, 44, 57, 57, 57, 44, 57, 57, 57, 44, 57, 57, 57, 44, 52, 44, 48] = .ok (assignIp ipParse 0 f) 1024 := by
  have : scan6 false [57, 57, 57, 44, 57, 57, 57, 44, 57, 57, 57, 44, 57, 57, 57, 44, 52, 44, 48] = some [999, 999, 999, 999, 4, 0] := by decide +kernel
  simp [parseIpPortCore, PasvFlags.legacy, this, pasvAddr, pasvPort, pasvOctetMax, pasvSanityMinPort]
theorem fixed_pasv_forced_ip_rejected (ipParse : Bytes → Option Nat) (f : Bytes) :
    parseIpPortCore PasvFlags.fixed ipParse true (some f) 0 [57, 57, 57, 44, 57, 57, 57, 44, 57, 57, 57, 44, 57, 57, 57, 44, 52, 44, 48] = .reject := by
  have : scan6 true [57, 57, 57, 44, 57, 57, 57, 44, 57, 57, 57, 44, 57, 57, 57, 44, 52, 44, 48] = some [999, 999, 999, 999, 4, 0] := by decide +kernel
  simp [parseIpPortCore, PasvFlags.fixed, this, pasvOctetMax]

/-- COUNTEREXAMPLES (lax syntax, both variants; outside the range theorems' claim: the values are in range, the spelling is
not RFC 959): trailing text, white space and signs are accepted. -/
theorem pasv_trailing_garbage_counterexample :
    parseIpPortCore PasvFlags.legacy strictQuad false none 0 [49, 44, 50, 44, 51, 44, 52, 44, 53, 44, 54, 106, 117, 110, 107] = .ok (v4 1 2 3 4) 1286 ∧
    parseIpPortCore PasvFlags.fixed strictQuad false none 0 [49, 44, 50, 44, 51, 44, 52, 44, 53, 44, 54, 106, 117, 110, 107] = .ok (v4 1 2 3 4) 1286 := by decide +kernel
theorem pasv_space_sign_counterexample :
    parseIpPortCore PasvFlags.legacy strictQuad false none 0 [32, 43, 49, 44, 32, 50, 44, 51, 44, 52, 44, 53, 44, 54] = .ok (v4 1 2 3 4) 1286 ∧
    parseIpPortCore PasvFlags.fixed strictQuad false none 0 [32, 43, 49, 44, 32, 50, 44, 51, 44, 52, 44, 53, 44, 54] = .ok (v4 1 2 3 4) 1286 := by decide +kernel

/-- LATENT, pinned code: when `addr` already holds an address, a string whose host fields do not convert is accepted with
that stale address ("256,2,3,4,4,0" with addr = 9.9.9.9). Every caller passes a default-constructed address (`addr0 = 0`). -/
theorem legacy_pasv_stale_address_counterexample :
    parseIpPortCore PasvFlags.legacy strictQuad false none (v4 9 9 9 9) [50, 53, 54, 44, 50, 44, 51, 44, 52, 44, 52, 44, 48] = .ok (v4 9 9 9 9) 1024 := by decide +kernel

/-- Strictly written strings are accepted with exactly their values by either variant: six digit strings with octet values,
a non-zero host, a port ≥ 1 (≥ 1024 under ftp_sanitycheck), followed by anything that does not start with a digit. -/
theorem pasv_accepts_strict (fl : PasvFlags) (ipParse : Bytes → Option Nat) (sanity : Bool) (d1 d2 d3 d4 d5 d6 tail : Bytes)
    (i1 : IsDec d1) (i2 : IsDec d2) (i3 : IsDec d3) (i4 : IsDec d4) (i5 : IsDec d5) (i6 : IsDec d6)
    (v1 : decNat d1 ≤ 255) (v2 : decNat d2 ≤ 255) (v3 : decNat d3 ≤ 255) (v4' : decNat d4 ≤ 255)
    (v5 : decNat d5 ≤ 255) (v6 : decNat d6 ≤ 255) (ht : NoDigitAhead tail)
    (hq : ipParse (fmtQuad (decNat d1) (decNat d2) (decNat d3) (decNat d4)) =
          some (v4 (decNat d1) (decNat d2) (decNat d3) (decNat d4)))
    (hnz : decNat d1 + decNat d2 + decNat d3 + decNat d4 ≠ 0)
    (hport : 1 ≤ decNat d5 * 256 + decNat d6) (hsan : sanity = true → 1024 ≤ decNat d5 * 256 + decNat d6) :
    parseIpPortCore fl ipParse sanity none 0
      (d1 ++ 44 :: (d2 ++ 44 :: (d3 ++ 44 :: (d4 ++ 44 :: (d5 ++ 44 :: (d6 ++ tail)))))) =
      .ok (v4 (decNat d1) (decNat d2) (decNat d3) (decNat d4)) (decNat d5 * 256 + decNat d6) := by
  have nd : ∀ r : Bytes, NoDigitAhead (44 :: r) := by
    intro r c r' h
    simp only [List.cons.injEq] at h
    rw [← h.1]; decide
  have hl : lexFields 6 (d1 ++ 44 :: (d2 ++ 44 :: (d3 ++ 44 :: (d4 ++ 44 :: (d5 ++ 44 :: (d6 ++ tail)))))) =
      some [(decNat d1 : Int), decNat d2, decNat d3, decNat d4, decNat d5, decNat d6] := by
    simp only [lexFields, lexInt_dec i1 _ (nd _), lexInt_dec i2 _ (nd _), lexInt_dec i3 _ (nd _), lexInt_dec i4 _ (nd _),
      lexInt_dec i5 _ (nd _), lexInt_dec i6 _ ht, Option.map_some]
  have fits : ∀ n : Nat, n ≤ 255 → narrow fl.long (n : Int) = (n : Int) := by
    intro n hn; apply narrow_of_fits; unfold FitsInt; omega
  have hany : isAny (v4 (decNat d1) (decNat d2) (decNat d3) (decNat d4)) = false := by
    simp only [isAny, v4, Bool.or_eq_false_iff, beq_eq_false_iff_ne, ne_eq]
    omega
  simp only [parseIpPortCore, scan6, hl, Option.map_some, List.map_cons, List.map_nil, fits _ v1, fits _ v2, fits _ v3,
    fits _ v4', fits _ v5, fits _ v6, pasvAddr, assignIp, hq, Option.getD_some, hany, pasvPort, pasvOctetMax,
    pasvSanityMinPort]
  have g1 : ¬ ((decNat d5 : Int) < 0 ∨ (decNat d6 : Int) < 0 ∨ (decNat d5 : Int) > 255 ∨ (decNat d6 : Int) > 255) := by omega
  have g0 : ¬ (fl.hostChecked = true ∧ ((decNat d1 : Int) < 0 ∨ (decNat d2 : Int) < 0 ∨ (decNat d3 : Int) < 0 ∨ (decNat d4 : Int) < 0 ∨
      (decNat d1 : Int) > 255 ∨ (decNat d2 : Int) > 255 ∨ (decNat d3 : Int) > 255 ∨ (decNat d4 : Int) > 255)) := by
    intro ⟨_, hh⟩; omega
  have g2 : ¬ ((decNat d5 : Int) * 256 + (decNat d6 : Int) ≤ 0) := by omega
  have g3 : ¬ (sanity = true ∧ (decNat d5 : Int) * 256 + (decNat d6 : Int) < 1024) := by
    intro ⟨hs, hlt⟩
    have := hsan hs
    omega
  have g4 : ((decNat d5 : Int) * 256 + (decNat d6 : Int)).toNat % 65536 = decNat d5 * 256 + decNat d6 := by
    have : ((decNat d5 : Int) * 256 + (decNat d6 : Int)).toNat = decNat d5 * 256 + decNat d6 := by omega
    rw [this]; apply Nat.mod_eq_of_lt; omega
  simp only [g0, g1, g2, g3, g4, ↓reduceIte, Bool.false_eq_true]

/-! ## EPRT: Ftp::ParseProtoIpPort

Variants (`EprtFlags`): `legacy` = the pinned code (`const int proto/port = strtol(...)`, only `port < 0` rejected), `fixed` = the
code with notes/fixes/C40-eprt-number-range.diff (`const long`, `port <= 0 || port > 65535` rejected). -/

theorem current_eprt_variant : EprtFlags.current = EprtFlags.legacy ∨ EprtFlags.current = EprtFlags.fixed := by decide

/-- Holds for every string and every variant: an accepted EPRT string decomposes (the way the C code walks it) into a
protocol number, an address text shorter than MAX_IPSTRLEN and a port field; the protocol number converted to the C type is
1 or 2 and agrees with the family of the address; the address is not unspecified; the yielded port is the converted port
value modulo 65536, which respects the variant's bounds. -/
theorem eprt_accept_fields {fl : EprtFlags} {ipParse : Bytes → Option Nat} {sanity : Bool} {addr0 : Nat} {buf : Bytes} {ip port : Nat}
    (h : parseProtoIpPortCore fl ipParse sanity addr0 buf = .ok ip port) :
    ∃ pw ipTxt po, eprtAsWritten buf = some (pw, ipTxt, po) ∧ (narrow fl.long pw = 1 ∨ narrow fl.long pw = 2) ∧
      ipTxt.length < maxIpStrLen ∧ ip = assignIp ipParse addr0 ipTxt ∧ isAny ip = false ∧
      ((narrow fl.long pw = 2) ↔ isV4 ip = false) ∧ fl.portMin ≤ eprtPortC fl.long po ∧
      (0 ≤ fl.portMax → eprtPortC fl.long po ≤ fl.portMax) ∧ (sanity = true → 1024 ≤ eprtPortC fl.long po) ∧
      port = (eprtPortC fl.long po).toNat % 65536 :=
  parseProtoIpPort_ok_inv h

/- FULL STATEMENT (false of the pinned code, see the `legacy_*_counterexample`s; true of the fixed variant, see
   `fixed_eprt_address_only_if_in_range`):
   parseProtoIpPort ipParse sanity 0 buf = .ok ip port → protocol as written ∈ {1,2}, the address text converts to ip (not
   unspecified, family = protocol), the port as written is in 1..65535 and is the yielded port.
   Proved for every variant whose port lower bound is 0 or 1, with the excluded region as hypotheses: the protocol number as
   written fits an `int`, and the port field as written is a number in 1..65535 (the pinned code rejects only negative `int`
   ports and never looks at the upper end). -/
theorem eprt_address_only_if_in_range_partial {fl : EprtFlags} {ipParse : Bytes → Option Nat} {sanity : Bool} {buf : Bytes} {ip port : Nat}
    (h : parseProtoIpPortCore fl ipParse sanity 0 buf = .ok ip port) :
    ∃ pw ipTxt po, eprtAsWritten buf = some (pw, ipTxt, po) ∧
      ipParse ipTxt = some ip ∧ isAny ip = false ∧ ipTxt.length < maxIpStrLen ∧
      (FitsInt pw → (pw = 1 ∨ pw = 2) ∧ ((pw = 2) ↔ isV4 ip = false)) ∧
      (∀ pv, po = some pv → 1 ≤ pv → pv ≤ 65535 → (port : Int) = pv ∧ (sanity = true → 1024 ≤ port)) := by
  obtain ⟨pw, ipTxt, po, hw, hproto, hlen, hip, hany, hfam, _, _, hsan, hport⟩ := parseProtoIpPort_ok_inv h
  refine ⟨pw, ipTxt, po, hw, ?_, hany, hlen, ?_, ?_⟩
  · cases hc : ipParse ipTxt with
    | none =>
      simp only [assignIp, hc, Option.getD_none] at hip
      subst hip
      exact absurd hany (by decide)
    | some a =>
      simp only [assignIp, hc, Option.getD_some] at hip
      rw [hip]
  · intro hf
    rw [narrow_of_fits _ hf] at hproto hfam
    exact ⟨hproto, hfam⟩
  · intro pv hpo h1 h2
    subst hpo
    have hf : FitsInt pv := by unfold FitsInt; omega
    simp only [eprtPortC, narrow_of_fits _ hf] at hport hsan
    have hm : pv.toNat % 65536 = pv.toNat := by apply Nat.mod_eq_of_lt; omega
    rw [hm] at hport
    refine ⟨by omega, ?_⟩
    intro hs
    have := hsan hs
    omega

/-- FULL STATEMENT, for the fixed variant (notes/fixes/C40-eprt-number-range.diff): an accepted EPRT string has a protocol
number that *as written* is 1 or 2 and matches the address family, an address text that converts to the yielded,
not unspecified address, and a port field that *as written* is a number in 1..65535 (≥ 1024 under ftp_sanitycheck) and is
the yielded port. -/
theorem fixed_eprt_address_only_if_in_range {ipParse : Bytes → Option Nat} {sanity : Bool} {buf : Bytes} {ip port : Nat}
    (h : parseProtoIpPortCore EprtFlags.fixed ipParse sanity 0 buf = .ok ip port) :
    ∃ pw ipTxt pv, eprtAsWritten buf = some (pw, ipTxt, some pv) ∧ (pw = 1 ∨ pw = 2) ∧ ((pw = 2) ↔ isV4 ip = false) ∧
      ipParse ipTxt = some ip ∧ isAny ip = false ∧ ipTxt.length < maxIpStrLen ∧
      1 ≤ pv ∧ pv ≤ 65535 ∧ (port : Int) = pv ∧ (sanity = true → 1024 ≤ port) := by
  obtain ⟨pw, ipTxt, po, hw, hproto, hlen, hip, hany, hfam, hmin, hmax, hsan, hport⟩ := parseProtoIpPort_ok_inv h
  simp only [EprtFlags.fixed] at hproto hfam hmin hmax hsan hport
  have hmax' := hmax (by decide)
  have epw : narrow true pw = pw := by
    have e : narrow true pw = clampLong pw := by simp [narrow]
    rw [e] at hproto ⊢
    exact clampLong_inner (by rcases hproto with h | h <;> omega) (by rcases hproto with h | h <;> omega)
  rw [epw] at hproto hfam
  cases po with
  | none =>
    simp only [eprtPortC] at hmin
    exact absurd hmin (by decide)
  | some pv =>
    simp only [eprtPortC] at hmin hmax' hsan hport
    have epv : narrow true pv = pv := by
      have e : narrow true pv = clampLong pv := by simp [narrow]
      rw [e] at hmin hmax' ⊢
      exact clampLong_inner (by omega) (by omega)
    rw [epv] at hmin hmax' hsan hport
    have hm : pv.toNat % 65536 = pv.toNat := by apply Nat.mod_eq_of_lt; omega
    rw [hm] at hport
    refine ⟨pw, ipTxt, pv, hw, hproto, hfam, ?_, hany, hlen, hmin, hmax', by omega, ?_⟩
    · cases hc : ipParse ipTxt with
      | none =>
        simp only [assignIp, hc, Option.getD_none] at hip
        subst hip
        exact absurd hany (by decide)
      | some a =>
        simp only [assignIp, hc, Option.getD_some] at hip
        rw [hip]
    · intro hs
      have := hsan hs
      omega

/-- COUNTEREXAMPLES, pinned code (port range): "|1|1.2.3.4|70000|" yields port 4464, "|1|1.2.3.4|65536|" and "|1|1.2.3.4|0|"
and an empty port field yield port 0, and under ftp_sanitycheck "|1|1.2.3.4|4294968320|" yields port 1024; the fixed variant
rejects all of them. -/
theorem legacy_eprt_port_70000_counterexample :
    parseProtoIpPortCore EprtFlags.legacy strictQuad false 0 [124, 49, 124, 49, 46, 50, 46, 51, 46, 52, 124, 55, 48, 48, 48, 48, 124] = .ok (v4 1 2 3 4) 4464 := by decide +kernel
theorem legacy_eprt_port_65536_counterexample :
    parseProtoIpPortCore EprtFlags.legacy strictQuad false 0 [124, 49, 124, 49, 46, 50, 46, 51, 46, 52, 124, 54, 53, 53, 51, 54, 124] = .ok (v4 1 2 3 4) 0 := by decide +kernel
theorem legacy_eprt_port_zero_counterexample :
    parseProtoIpPortCore EprtFlags.legacy strictQuad false 0 [124, 49, 124, 49, 46, 50, 46, 51, 46, 52, 124, 48, 124] = .ok (v4 1 2 3 4) 0 := by decide +kernel
theorem legacy_eprt_port_empty_counterexample :
    parseProtoIpPortCore EprtFlags.legacy strictQuad false 0 [124, 49, 124, 49, 46, 50, 46, 51, 46, 52, 124, 124] = .ok (v4 1 2 3 4) 0 := by decide +kernel
theorem legacy_eprt_port_wrap_sanity_counterexample :
    parseProtoIpPortCore EprtFlags.legacy strictQuad true 0 [124, 49, 124, 49, 46, 50, 46, 51, 46, 52, 124, 52, 50, 57, 52, 57, 54, 56, 51, 50, 48, 124] = .ok (v4 1 2 3 4) 1024 := by decide +kernel
/-- COUNTEREXAMPLE, pinned code (protocol number wrap): "|4294967297|1.2.3.4|5000|" is taken as protocol 1. -/
theorem legacy_eprt_proto_wrap_counterexample :
    parseProtoIpPortCore EprtFlags.legacy strictQuad false 0 [124, 52, 50, 57, 52, 57, 54, 55, 50, 57, 55, 124, 49, 46, 50, 46, 51, 46, 52, 124, 53, 48, 48, 48, 124] = .ok (v4 1 2 3 4) 5000 := by decide +kernel
theorem fixed_eprt_witnesses_rejected :
    parseProtoIpPortCore EprtFlags.fixed strictQuad false 0 [124, 49, 124, 49, 46, 50, 46, 51, 46, 52, 124, 55, 48, 48, 48, 48, 124] = .reject ∧
    parseProtoIpPortCore EprtFlags.fixed strictQuad false 0 [124, 49, 124, 49, 46, 50, 46, 51, 46, 52, 124, 54, 53, 53, 51, 54, 124] = .reject ∧
    parseProtoIpPortCore EprtFlags.fixed strictQuad false 0 [124, 49, 124, 49, 46, 50, 46, 51, 46, 52, 124, 48, 124] = .reject ∧
    parseProtoIpPortCore EprtFlags.fixed strictQuad false 0 [124, 49, 124, 49, 46, 50, 46, 51, 46, 52, 124, 124] = .reject ∧
    parseProtoIpPortCore EprtFlags.fixed strictQuad true 0 [124, 49, 124, 49, 46, 50, 46, 51, 46, 52, 124, 52, 50, 57, 52, 57, 54, 56, 51, 50, 48, 124] = .reject ∧
    parseProtoIpPortCore EprtFlags.fixed strictQuad false 0 [124, 52, 50, 57, 52, 57, 54, 55, 50, 57, 55, 124, 49, 46, 50, 46, 51, 46, 52, 124, 53, 48, 48, 48, 124] = .reject := by decide +kernel
/-- COUNTEREXAMPLES (lax syntax, both variants): the final delimiter is compared with '|' instead of the string's delimiter,
and text after it is ignored. -/
theorem eprt_mixed_delimiter_counterexample :
    parseProtoIpPortCore EprtFlags.legacy strictQuad false 0 [35, 49, 35, 49, 46, 50, 46, 51, 46, 52, 35, 53, 48, 48, 48, 124] = .ok (v4 1 2 3 4) 5000 ∧
    parseProtoIpPortCore EprtFlags.fixed strictQuad false 0 [35, 49, 35, 49, 46, 50, 46, 51, 46, 52, 35, 53, 48, 48, 48, 124] = .ok (v4 1 2 3 4) 5000 := by decide +kernel
theorem eprt_trailing_garbage_counterexample :
    parseProtoIpPortCore EprtFlags.legacy strictQuad false 0 [124, 49, 124, 49, 46, 50, 46, 51, 46, 52, 124, 53, 48, 48, 48, 124, 106, 117, 110, 107] = .ok (v4 1 2 3 4) 5000 ∧
    parseProtoIpPortCore EprtFlags.fixed strictQuad false 0 [124, 49, 124, 49, 46, 50, 46, 51, 46, 52, 124, 53, 48, 48, 48, 124, 106, 117, 110, 107] = .ok (v4 1 2 3 4) 5000 := by decide +kernel

/-- Strictly written EPRT strings with the '|' delimiter are accepted with exactly their values by either variant. -/
theorem eprt_accepts_strict (fl : EprtFlags) (hfl : fl = EprtFlags.legacy ∨ fl = EprtFlags.fixed)
    (ipParse : Bytes → Option Nat) (sanity : Bool) (proto : UInt8) (ipTxt pd : Bytes) (ip : Nat)
    (hproto : proto = 49 ∨ proto = 50) (hnb : ∀ c ∈ ipTxt, c ≠ 124) (hlen : ipTxt.length < maxIpStrLen)
    (hip : ipParse ipTxt = some ip) (hany : isAny ip = false) (hfam : (proto = 50) ↔ isV4 ip = false)
    (ipd : IsDec pd) (hp1 : 1 ≤ decNat pd) (hp2 : decNat pd ≤ 65535) (hsan : sanity = true → 1024 ≤ decNat pd) :
    parseProtoIpPortCore fl ipParse sanity 0 (124 :: proto :: 124 :: (ipTxt ++ 124 :: (pd ++ [124]))) = .ok ip (decNat pd) := by
  have nd : ∀ r : Bytes, NoDigitAhead (124 :: r) := by
    intro r c r' h
    simp only [List.cons.injEq] at h
    rw [← h.1]; decide
  have hpd : IsDec [proto] := by
    refine ⟨by simp, ?_⟩
    intro c hc
    simp only [List.mem_singleton] at hc
    subst hc
    rcases hproto with h | h <;> subst h <;> decide
  have hl1 : lexInt (proto :: 124 :: (ipTxt ++ 124 :: (pd ++ [124]))) = some ((decNat [proto] : Int), 124 :: (ipTxt ++ 124 :: (pd ++ [124]))) :=
    lexInt_dec hpd _ (nd _)
  have hl2 : lexInt (pd ++ [124]) = some ((decNat pd : Int), [124]) := lexInt_dec ipd _ (nd _)
  have hs1 : strtolC fl.long (proto :: 124 :: (ipTxt ++ 124 :: (pd ++ [124]))) = (narrow fl.long (decNat [proto] : Int), 124 :: (ipTxt ++ 124 :: (pd ++ [124]))) := by
    simp only [strtolC, hl1]
  have hs2 : strtolC fl.long (pd ++ [124]) = (narrow fl.long (decNat pd : Int), [124]) := by
    simp only [strtolC, hl2]
  have hpp : narrow fl.long (decNat pd : Int) = (decNat pd : Int) := by
    apply narrow_of_fits; unfold FitsInt; omega
  have hsplit := splitAtByte_append (d := 124) ipTxt hnb (pd ++ [124])
  have hlen' : ¬ ipTxt.length ≥ maxIpStrLen := by omega
  have hsn : ¬ (sanity = true ∧ (decNat pd : Int) < 1024) := by
    intro ⟨hs, hlt⟩
    have := hsan hs
    omega
  have hbounds : ¬ ((decNat pd : Int) < fl.portMin ∨ (0 ≤ fl.portMax ∧ (decNat pd : Int) > fl.portMax)) := by
    rcases hfl with h | h <;> subst h <;> simp only [EprtFlags.legacy, EprtFlags.fixed] <;> omega
  rcases hproto with h | h
  · subst h
    have hv : narrow fl.long (decNat [49] : Int) = 1 := by
      have : (decNat [49] : Int) = 1 := by decide
      rw [this]; exact narrow_of_fits _ (by unfold FitsInt; omega)
    have hf4 : isV4 ip = true := by
      cases hx : isV4 ip with
      | true => rfl
      | false => exact absurd (hfam.mpr hx) (by decide)
    simp [parseProtoIpPortCore, hs1, hv, eprtAddr, hsplit, hlen', eprtPort, assignIp, hip, hany, hf4, hs2, hpp, hsn, hbounds,
      eprtSanityMinPort]
    omega
  · subst h
    have hv : narrow fl.long (decNat [50] : Int) = 2 := by
      have : (decNat [50] : Int) = 2 := by decide
      rw [this]; exact narrow_of_fits _ (by unfold FitsInt; omega)
    have hf4 : isV4 ip = false := hfam.mp rfl
    simp [parseProtoIpPortCore, hs1, hv, eprtAddr, hsplit, hlen', eprtPort, assignIp, hip, hany, hf4, hs2, hpp, hsn, hbounds,
      eprtSanityMinPort]
    omega

/-! ## EPSV reply: the port extraction of Ftp::Client::handleEpsvReply

(The address of an EPSV reply is the control connection's peer; only the port is taken from the string.)
Variants: pinned code = `%hu` into `unsigned short`, four conversions suffice, `0 == port`; fixed
(notes/fixes/C40-epsv-port-range.diff) = `%ld` into `long`, five conversions required, `port <= 0 || port > 65535`. -/

/-- Holds for every reply and either variant: a yielded port is in 1..65535 (≥ 1024 under ftp_sanitycheck). -/
theorem epsv_port_in_range {fixed sanity : Bool} {reply : Bytes} {p : Nat}
    (h : parseEpsvCore fixed sanity reply = .ok p ∨ parseEpsvCore fixed sanity reply = .indeterminate p) :
    1 ≤ p ∧ p ≤ 65535 ∧ (sanity = true → 1024 ≤ p) := by
  obtain ⟨d, r, v, r2, _, _, hc, _, _⟩ := parseEpsv_inv h
  obtain ⟨h0, hp, hs, hf⟩ := epsvPortCheck_inv hc
  cases fixed with
  | true =>
    obtain ⟨a, b⟩ := hf rfl
    refine ⟨by omega, by omega, ?_⟩
    intro hs1; have := hs hs1; omega
  | false =>
    simp only [epsvConv, Bool.false_eq_true, ↓reduceIte] at h0 hp hs
    have := huConv_lt v
    refine ⟨by omega, by omega, ?_⟩
    intro hs1; have := hs hs1; omega

/- FULL STATEMENT (false of the pinned code, see the counterexamples; true of the fixed variant):
   parseEpsv sanity reply = .ok p → the reply contains "(<d><d><d>N<d>" with N as written in 1..65535 and p = N.
   Proved for either variant with the excluded region as hypothesis: the port as written is in 1..65535. -/
theorem epsv_port_only_if_in_range_partial {fixed sanity : Bool} {reply : Bytes} {p : Nat}
    (h : parseEpsvCore fixed sanity reply = .ok p) :
    ∃ d r v rest, reply.dropWhile (· != 40) = 40 :: d :: d :: d :: r ∧ lexInt r = some (v, d :: rest) ∧
      (1 ≤ v → v ≤ 65535 → (p : Int) = v ∧ (sanity = true → 1024 ≤ p)) := by
  obtain ⟨d, r, v, r2, hd, hl, hc, hok, _⟩ := parseEpsv_inv (Or.inl h)
  obtain ⟨rest, hr⟩ := hok h
  subst hr
  refine ⟨d, r, v, rest, hd, hl, ?_⟩
  intro h1 h2
  obtain ⟨_, hp, hs, _⟩ := epsvPortCheck_inv hc
  have hv : epsvConv fixed v = v := by
    unfold epsvConv
    cases fixed with
    | true => simp only [↓reduceIte]; exact clampLong_of_fits (by unfold FitsInt; omega)
    | false => simp only [Bool.false_eq_true, ↓reduceIte]; exact huConv_of_small (by omega) h2
  rw [hv] at hp hs
  refine ⟨by omega, ?_⟩
  intro hs1; have := hs hs1; omega

/-- FULL STATEMENT for the fixed variant: the port as written is in 1..65535 and is the yielded port; the reply is never
accepted on four conversions. -/
theorem fixed_epsv_port_only_if_in_range {sanity : Bool} {reply : Bytes} {p : Nat}
    (h : parseEpsvCore true sanity reply = .ok p ∨ parseEpsvCore true sanity reply = .indeterminate p) :
    parseEpsvCore true sanity reply = .ok p ∧
    ∃ d r v rest, reply.dropWhile (· != 40) = 40 :: d :: d :: d :: r ∧ lexInt r = some (v, d :: rest) ∧
      1 ≤ v ∧ v ≤ 65535 ∧ (p : Int) = v ∧ (sanity = true → 1024 ≤ p) := by
  obtain ⟨d, r, v, r2, hd, hl, hc, hok, hind⟩ := parseEpsv_inv h
  have hk : parseEpsvCore true sanity reply = .ok p := by
    rcases h with h | h
    · exact h
    · exact absurd (hind h).2 (by decide)
  obtain ⟨rest, hr⟩ := hok hk
  subst hr
  obtain ⟨_, hp, hs, hf⟩ := epsvPortCheck_inv hc
  obtain ⟨a, b⟩ := hf rfl
  simp only [epsvConv, ↓reduceIte] at hp hs a b
  have e := clampLong_inner (v := v) (by omega) (by omega)
  rw [e] at hp hs a b
  refine ⟨hk, d, r, v, rest, hd, hl, a, b, by omega, ?_⟩
  intro hs1; have := hs hs1; omega

/-- COUNTEREXAMPLES, pinned code: "(|||70000|)" yields port 4464, "(|||-1|)" yields port 65535, and "(|||5000" (no closing
delimiter: `h4` is compared uninitialised) is accepted or not depending on a stale stack byte; the fixed variant rejects all
three. -/
theorem legacy_epsv_port_70000_counterexample : parseEpsvCore false false [50, 50, 57, 32, 69, 110, 116, 101, 114, 105, 110, 103, 32, 69, 120, 116, 101, 110, 100, 101, 100, 32, 80, 97, 115, 115, 105, 118, 101, 32, 77, 111, 100, 101, 32, 40, 124, 124, 124, 55, 48, 48, 48, 48, 124, 41] = .ok 4464 := by decide +kernel
theorem legacy_epsv_port_negative_counterexample : parseEpsvCore false true [50, 50, 57, 32, 111, 107, 32, 40, 124, 124, 124, 45, 49, 124, 41] = .ok 65535 := by decide +kernel
theorem legacy_epsv_uninitialised_delimiter : parseEpsvCore false false [50, 50, 57, 32, 40, 124, 124, 124, 53, 48, 48, 48] = .indeterminate 5000 := by decide +kernel
theorem fixed_epsv_witnesses_rejected :
    parseEpsvCore true false [50, 50, 57, 32, 69, 110, 116, 101, 114, 105, 110, 103, 32, 69, 120, 116, 101, 110, 100, 101, 100, 32, 80, 97, 115, 115, 105, 118, 101, 32, 77, 111, 100, 101, 32, 40, 124, 124, 124, 55, 48, 48, 48, 48, 124, 41] = .reject ∧ parseEpsvCore true true [50, 50, 57, 32, 111, 107, 32, 40, 124, 124, 124, 45, 49, 124, 41] = .reject ∧
    parseEpsvCore true false [50, 50, 57, 32, 40, 124, 124, 124, 53, 48, 48, 48] = .reject := by decide +kernel

/-- Strictly written replies are accepted with their port by either variant: text without '(' , then "(dddNd" with a
non-digit delimiter byte and N a digit string with value 1..65535 (≥ 1024 under ftp_sanitycheck). -/
theorem epsv_accepts_strict (fixed sanity : Bool) (pre pd tail : Bytes) (d : UInt8)
    (hpre : ∀ c ∈ pre, c ≠ 40) (hd : isDigit d = false) (ipd : IsDec pd) (hp1 : 1 ≤ decNat pd) (hp2 : decNat pd ≤ 65535)
    (hsan : sanity = true → 1024 ≤ decNat pd) :
    parseEpsvCore fixed sanity (pre ++ 40 :: d :: d :: d :: (pd ++ d :: tail)) = .ok (decNat pd) := by
  have nd : NoDigitAhead (d :: tail) := by
    intro c r' h
    simp only [List.cons.injEq] at h
    rw [← h.1]; exact hd
  have hl := lexInt_dec ipd (d :: tail) nd
  have hdw := dropWhile_paren pre (d :: d :: d :: (pd ++ d :: tail)) hpre
  have hconv : (if fixed = true then clampLong (decNat pd : Int) else (huConv (decNat pd : Int) : Int)) = (decNat pd : Int) := by
    cases fixed with
    | true => simp only [↓reduceIte]; exact clampLong_of_fits (by unfold FitsInt; omega)
    | false => simp only [Bool.false_eq_true, ↓reduceIte]; exact huConv_of_small (by omega) (by omega)
  have hchk : epsvPortCheck fixed sanity (decNat pd : Int) = some (decNat pd) := by
    unfold epsvPortCheck
    have a : ¬ (fixed = true ∧ ((decNat pd : Int) ≤ 0 ∨ (decNat pd : Int) > 65535)) := by
      intro ⟨_, hh⟩; omega
    have b : ¬ ((decNat pd : Int) = 0) := by omega
    have c : ¬ (sanity = true ∧ (decNat pd : Int) < eprtSanityMinPort) := by
      intro ⟨hs, hlt⟩
      have := hsan hs
      simp only [eprtSanityMinPort] at hlt
      omega
    simp only [a, b, c, ↓reduceIte, Int.toNat_natCast]
  simp only [parseEpsvCore, hdw, hl, hconv, hchk, bne_self_eq_false, Bool.or_self, Bool.false_eq_true, ↓reduceIte]

/-! ## Directory listings: ftpListParseParts -/

/-- No listing line of any content makes ftpListParseParts index `tokens[]` outside `[0, n_tokens)` or form a pointer
beyond the terminator of the line: the model's checked accesses never fail. -/
theorem listing_no_oob (triedNlst skipWs : Bool) (buf : Bytes) : listParseParts triedNlst skipWs buf ≠ .oob :=
  listParseParts_ne_oob triedNlst skipWs buf

/-- the strtok loop never writes beyond `tokens[MAX_TOKENS]` -/
theorem listing_token_array_bound (buf : Bytes) : (tokenize buf).length ≤ maxTokens :=
  tokenize_length_le buf

/-- every token (offset + length) lies inside the line, and no token is empty (so `*tokens[0].token` is a byte of the line) -/
theorem listing_tokens_within_line (buf : Bytes) :
    ∀ tk ∈ tokenize buf, tk.pos + tk.tok.length ≤ buf.length ∧ tk.tok ≠ [] :=
  tokenize_bounds buf

/-- whatever becomes `p->date` fits the 128-byte `tbuf` including its terminator -/
theorem listing_date_fits_tbuf {triedNlst skipWs : Bool} {buf : Bytes} {p : Parts}
    (h : listParseParts triedNlst skipWs buf = .parts p) : ∀ d, p.date = some d → d.length < tbufSize :=
  listParseParts_date_fits h

/-- what is returned as `name` and `link` is always a contiguous piece of the received line -/
theorem listing_name_within_line {triedNlst skipWs : Bool} {buf : Bytes} {p : Parts}
    (h : listParseParts triedNlst skipWs buf = .parts p) :
    (∀ x, p.name = some x → x <:+: buf) ∧ (∀ y, p.link = some y → y <:+: buf) :=
  listParseParts_name_in_line h

/-! ## Non-vacuity -/

/-- hypotheses of the strict-acceptance theorems are satisfiable, recognisers are not vacuous -/
example : IsDec [49, 50] := ⟨by simp, by decide⟩
example : decNat [50, 53, 53] = 255 := by decide
example : FitsInt 2147483647 ∧ ¬ FitsInt 2147483648 := by unfold FitsInt; omega
example : strictQuad (fmtQuad 1 2 3 4) = some (v4 1 2 3 4) := by decide +kernel
example : strictQuad (fmtQuad 256 2 3 4) = none := by decide +kernel
example : strictQuad (fmtQuad (-1) 2 3 4) = none := by decide +kernel
example : parseIpPort strictQuad true none 0 [49, 44, 50, 44, 51, 44, 52, 44, 53, 44, 54] = .ok (v4 1 2 3 4) 1286 := by decide +kernel
example : parseIpPort strictQuad true none 0 [49, 44, 50, 44, 51, 44, 52, 44, 51, 44, 50, 53, 53] = .reject := by decide +kernel            -- port 1023 under sanitycheck
example : parseIpPort strictQuad false none 0 [48, 44, 48, 44, 48, 44, 48, 44, 53, 44, 54] = .reject := by decide +kernel      -- 0.0.0.0
example : parseIpPort strictQuad false none 0 [49, 44, 50, 44, 51, 44, 52, 44, 50, 53, 54, 44, 48] = .reject := by decide +kernel          -- p1 = 256
example : parseProtoIpPort strictQuad true 0 [124, 49, 124, 49, 46, 50, 46, 51, 46, 52, 124, 53, 48, 48, 48, 124] = .ok (v4 1 2 3 4) 5000 := by decide +kernel
example : parseProtoIpPort strictQuad false 0 [124, 49, 124, 49, 46, 50, 46, 51, 46, 52, 124, 45, 49, 124] = .reject := by decide +kernel          -- port -1
example : parseProtoIpPort strictQuad false 0 [124, 51, 124, 49, 46, 50, 46, 51, 46, 52, 124, 53, 48, 48, 48, 124] = .reject := by decide +kernel           -- protocol 3
example : parseProtoIpPort strictQuad false 0 [124, 50, 124, 49, 46, 50, 46, 51, 46, 52, 124, 53, 48, 48, 48, 124] = .reject := by decide +kernel          -- protocol 2 with an IPv4 address
example : eprtAsWritten [124, 49, 124, 49, 46, 50, 46, 51, 46, 52, 124, 55, 48, 48, 48, 48, 124] = some (1, [49, 46, 50, 46, 51, 46, 52], some 70000) := by decide +kernel
/-- a Unix listing line: "-rw-r--r-- 1 root other 531 Jan 29 03:26 README" -/
example : listParseParts false false [45, 114, 119, 45, 114, 45, 45, 114, 45, 45, 32, 49, 32, 114, 111, 111, 116, 32, 111, 116, 104, 101, 114, 32, 53, 51, 49, 32, 74, 97, 110, 32, 50, 57, 32, 48, 51, 58, 50, 54, 32, 82, 69, 65, 68, 77, 69] =
    .parts { type := 45, size := 531, date := some [74, 97, 110, 32, 50, 57, 32, 48, 51, 58, 50, 54], name := some [82, 69, 65, 68, 77, 69], link := none } := by decide +kernel
/-- a symbolic link: name and target are split at " -> " -/
example : listParseParts false false [108, 114, 119, 120, 114, 119, 120, 114, 119, 120, 32, 49, 32, 114, 111, 111, 116, 32, 111, 116, 104, 101, 114, 32, 55, 32, 74, 97, 110, 32, 50, 53, 32, 48, 48, 58, 49, 55, 32, 98, 105, 110, 32, 45, 62, 32, 117, 115, 114, 47, 98, 105, 110] =
    .parts { type := 108, size := 7, date := some [74, 97, 110, 32, 50, 53, 32, 48, 48, 58, 49, 55], name := some [98, 105, 110], link := some [117, 115, 114, 47, 98, 105, 110] } := by decide +kernel
/-- a DOS line and an EPLF line -/
example : listParseParts false false [48, 52, 45, 48, 53, 45, 55, 48, 32, 32, 48, 57, 58, 51, 51, 80, 77, 32, 32, 60, 68, 73, 82, 62, 32, 32, 102, 111, 111, 32, 98, 97, 114] =
    .parts { type := 100, size := 0, date := some [48, 52, 45, 48, 53, 45, 55, 48, 32, 48, 57, 58, 51, 51, 80, 77], name := some [102, 111, 111], link := none } := by decide +kernel
example : listParseParts false false [43, 105, 56, 51, 56, 56, 54, 50, 49, 46, 50, 57, 54, 48, 57, 44, 109, 56, 50, 52, 50, 53, 53, 57, 48, 50, 44, 47, 44, 9, 116, 109, 112] =
    .parts { type := 100, size := 0, date := none, name := some [116, 109, 112], link := none } := by decide +kernel
example : listParseParts false false [116, 111, 116, 97, 108, 32, 49, 50] = .null := by decide +kernel
example : parseEpsvCore false true [50, 50, 57, 32, 69, 110, 116, 101, 114, 105, 110, 103, 32, 69, 120, 116, 101, 110, 100, 101, 100, 32, 80, 97, 115, 115, 105, 118, 101, 32, 77, 111, 100, 101, 32, 40, 124, 124, 124, 54, 52, 52, 54, 124, 41] = .ok 6446 := by decide +kernel
example : parseEpsvCore true true [50, 50, 57, 32, 69, 110, 116, 101, 114, 105, 110, 103, 32, 69, 120, 116, 101, 110, 100, 101, 100, 32, 80, 97, 115, 115, 105, 118, 101, 32, 77, 111, 100, 101, 32, 40, 124, 124, 124, 54, 52, 52, 54, 124, 41] = .ok 6446 := by decide +kernel
example : parseEpsvCore false true [50, 50, 57, 32, 40, 124, 124, 124, 49, 48, 50, 51, 124, 41] = .reject := by decide +kernel   -- port 1023 under sanitycheck

end SquidModel.C40
