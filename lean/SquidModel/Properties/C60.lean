/-
C60 — ICAP adaptation delivers exactly the virgin or the adapted message (ModXact decision model; partial: the end-to-end
behaviour of the binary is tied to this model by scenario correspondence, see props/C60.py).
-/
import SquidModel.Icap.Outcome

namespace SquidModel.C60
open SquidModel SquidModel.Icap

/-- once the job is gone no event changes anything -/
theorem stopped_is_final (s : St) (es : List Ev) (h : s.stopped = true) : run s es = s := by
  induction es generalizing s with
  | nil => rfl
  | cons e es ih =>
    have : step s e = s := by simp [step, h]
    simp [run, List.foldl, this]
    exact ih s h

end SquidModel.C60
