/-
C60 — ICAP adaptation delivers exactly the virgin or the adapted message.

Model: SquidModel/Icap/ModXact.lean (every method of src/adaptation/icap/ModXact.cc / Xaction.cc that decides what is put
into the adapted pipe and which head is forwarded) + SquidModel/Icap/Outcome.lean (Launcher/Iterator/initiator side).
All theorems quantify over the configuration, the virgin body and EVERY event history (`run (init cfg v) es`): arbitrary
interleavings of virgin data, writes, ICAP reply fragments, errors, timeouts, consumer progress.

partial: the end-to-end behaviour of the binary is tied to this model by scenario correspondence (props/C60.py).
The statement's last sentence is false of the code: see the `_counterexample` theorems and the `_partial` theorem.
-/
import SquidModel.Icap.InvStep
import SquidModel.Icap.Outcome

namespace SquidModel.C60
open SquidModel SquidModel.Icap SquidModel.Gen

/-- **output_is_virgin_or_adapted_or_error.** Whatever the ICAP server and everybody else do, the bytes handed to the consumer of
the adaptation result are: nothing when no head was forwarded; after the clone of the virgin head a prefix of the virgin body;
after the adapted head a prefix of the adapted body the ICAP server sent — followed, only when the server asked for it with
`use-original-body=pos`, by a contiguous piece of the virgin body starting at `pos`. -/
theorem output_is_virgin_or_adapted_or_error (cfg : Cfg) (v : Bytes) (es : List Ev) :
    let s := run (init cfg v) es
    (s.head = .none → s.out = []) ∧
    (s.head = .virginClone → ∃ n, n ≤ s.put ∧ s.out = s.v.take n) ∧
    (s.head = .adapted → s.uob = none → ∃ rest, s.out ++ rest = s.recv) ∧
    (s.head = .adapted → ∀ pos, s.uob = some pos → ∃ n, pos + n ≤ s.put ∧ s.out = s.recv ++ (s.v.drop pos).take n) := by
  have m := (inv_reachable cfg v es).main
  generalize run (init cfg v) es = s at m ⊢
  dsimp only
  refine ⟨fun h => (m.nopipe (m.hnone h).1).1, fun h => ⟨_, (m.clone h).2.1, (m.clone h).1⟩, fun h hu => ⟨_, (m.plain h hu).1⟩, fun h pos hu => ?_⟩
  have c := m.partEcho h pos hu
  exact ⟨s.vSending.start - pos, by omega, c.2.2.2.1⟩

/-- **never_mixed.** The sender only echoes virgin bytes under the virgin head clone or after `use-original-body`; and a forwarded
adapted head without `use-original-body` is never followed by a virgin byte: everything delivered plus everything still pending is
exactly what the ICAP server sent. -/
theorem never_mixed (cfg : Cfg) (v : Bytes) (es : List Ev) :
    let s := run (init cfg v) es
    (s.sending = .virgin → s.head = .virginClone ∨ (s.head = .adapted ∧ s.uob.isSome = true)) ∧
    (s.head = .adapted → s.uob = none → s.out ++ s.pending = s.recv) ∧
    (s.head = .virginClone → s.uob = none) := by
  have m := (inv_reachable cfg v es).main
  generalize run (init cfg v) es = s at m ⊢
  dsimp only
  exact ⟨m.sendV, fun h hu => (m.plain h hu).1, fun h => (m.clone h).2.2⟩

/-- **complete_means_intact.** An adapted pipe that ended *nicely* (the consumer sees a complete body) carries the whole virgin body
(virgin head), the whole adapted body up to its last-chunk (adapted head), or the whole adapted body followed by the whole virgin
suffix from `pos` on (use-original-body). -/
theorem complete_means_intact (cfg : Cfg) (v : Bytes) (es : List Ev) :
    let s := run (init cfg v) es
    s.outSt = .endedOk →
      (s.head = .virginClone → s.out = s.v) ∧
      (s.head = .adapted → s.uob = none → s.out = s.recv ∧ s.lastSeen.isSome = true) ∧
      (s.head = .adapted → ∀ pos, s.uob = some pos → s.out = s.recv ++ s.v.drop pos) := by
  have m := (inv_reachable cfg v es).main
  generalize run (init cfg v) es = s at m ⊢
  dsimp only
  intro he
  have e := m.ended he
  refine ⟨fun h => ?_, fun h hu => ?_, fun h pos hu => ?_⟩
  · rw [(m.clone h).1, e.clone h]; exact List.take_length
  · have p := e.plain h hu
    have q := (m.plain h hu).1
    rw [p.1, List.append_nil] at q
    exact ⟨q, p.2⟩
  · have c := m.partEcho h pos hu
    have hs := e.part h (by rw [hu]; rfl)
    rw [c.2.2.2.1, hs]
    congr 1
    rw [List.take_of_length_le]
    rw [List.length_drop]
    exact Nat.le_refl _

/-- **a head comes first.** Body bytes are only ever handed over after a head was. -/
theorem no_body_without_head (cfg : Cfg) (v : Bytes) (es : List Ev) :
    let s := run (init cfg v) es
    s.out ≠ [] → s.head ≠ .none := by
  have m := (inv_reachable cfg v es).main
  generalize run (init cfg v) es = s at m ⊢
  dsimp only
  intro ho hh
  exact ho (m.nopipe (m.hnone hh).1).1

/-- **echo_needs_intact_prefix.** What echoMore() copies out of the virgin pipe buffer is the virgin body at the echo offset — provided
the bytes before that offset are the only ones that were consumed (`virginConsumed <= offset`, the check in virginContentSize()). -/
theorem echo_needs_intact_prefix (cfg : Cfg) (v : Bytes) (es : List Ev) (n : Nat) :
    let s := run (init cfg v) es
    s.consumed ≤ s.vSending.start → s.vSending.start + n ≤ s.put →
      (s.buf.drop (s.vSending.start - s.consumed)).take n = (s.v.drop s.vSending.start).take n := by
  have m := (inv_reachable cfg v es).main
  generalize run (init cfg v) es = s at m ⊢
  dsimp only
  intro hc hs
  rw [m.buf_eq, List.drop_take, List.drop_drop, List.take_take]
  have e1 : s.consumed + (s.vSending.start - s.consumed) = s.vSending.start := by omega
  have e2 : min n (s.put - s.consumed - (s.vSending.start - s.consumed)) = n := by omega
  rw [e1, e2]

/-- ... and echoMore() refuses (throws, copies nothing) when bytes at or after the echo offset were already consumed. -/
theorem echo_refuses_consumed_prefix (s : St) (ht : s.thrown = false) (h : s.vSending.start < s.consumed) :
    (echoMore s).thrown = true ∧ (echoMore s).out = s.out := by
  have h2 : (decide (s.consumed ≤ s.vSending.start) && decide (s.vSending.start ≤ s.put)) = false := by
    simp only [Bool.and_eq_false_iff, decide_eq_false_iff_not]; left; omega
  by_cases h1 : (s.sending == .virgin && s.outSt == .isOpen && s.vSending.st == .active) = true
  · simp [echoMore, seq, must, Icap.cond, skip, throwNow, h1, h2, ht]
  · simp [echoMore, seq, must, Icap.cond, throwNow, h1]

/-- **bypass_flag_means_nothing_used.** While `canStartBypass` is set, no virgin byte was released, no head was forwarded, nothing
was put into the adapted pipe: the virgin message is intact and unused. -/
theorem bypass_flag_means_nothing_used (cfg : Cfg) (v : Bytes) (es : List Ev) :
    let s := run (init cfg v) es
    s.canStartBypass = true → s.consumed = 0 ∧ s.answer ≠ .forward ∧ s.out = [] ∧ s.head ≠ .virginClone ∧ s.buf = s.v.take s.put := by
  have m := (inv_reachable cfg v es).main
  generalize run (init cfg v) es = s at m ⊢
  dsimp only
  intro hb
  have b := m.byp hb
  refine ⟨b.1, b.2.1, b.2.2.1, b.2.2.2, ?_⟩
  rw [m.buf_eq, b.1]; simp

/-- **bypass_before_adapted_use_yields_virgin_partial.** Full statement (false, see the counterexamples below): "with bypass enabled,
an ICAP failure before any adapted content was used yields the virgin message". Proved part: whenever an exception is bypassed
(bypassFailure() runs to its end, which it can only do while `canStartBypass` held, i.e. with the virgin message intact and unused),
the job goes on with the clone of the virgin head installed and the sender echoing or done, all invariants hold again, so by
`output_is_virgin_or_adapted_or_error`/`complete_means_intact` the consumer gets the virgin body and nothing else. The excluded
region is the explicit hypothesis `(bypassFailure _).thrown = false`. -/
theorem bypass_before_adapted_use_yields_virgin_partial (s : St) (m : Main s)
    (hok : (bypassFailure { s with thrown := false }).thrown = false) :
    let t := bypassFailure { s with thrown := false }
    Main t ∧ Aux t ∧ t.head = .virginClone ∧ (t.sending = .virgin ∨ t.sending = .done) ∧ t.parsing = .done ∧
    (∃ n, t.out = t.v.take n) ∧ (t.outSt = .endedOk → t.out = t.v) := by
  intro t
  have m0 : Main { s with thrown := false } := main_setFlags s m false s.crashed s.stopped
  have b := triM_bypassFailure _ m0 trivial
  have q := (b.2 hok).2
  have hh : t.head = .virginClone := q.2.2
  refine ⟨b.1, (b.2 hok).1, hh, q.1, q.2.1, ⟨_, (b.1.clone hh).1⟩, fun he => ?_⟩
  rw [(b.1.clone hh).1, (b.1.ended he).clone hh]; exact List.take_length

/-- every reachable state satisfies the invariants the theorems above rest on -/
theorem reachable_invariant (cfg : Cfg) (v : Bytes) (es : List Ev) : Inv (run (init cfg v) es) := inv_reachable cfg v es

/-- once the job is gone no event changes anything -/
theorem stopped_is_final (s : St) (es : List Ev) (h : s.stopped = true) : run s es = s := by
  induction es generalizing s with
  | nil => rfl
  | cons e es ih =>
    have : step s e = s := by simp [step, h]
    simp [run, List.foldl, this]
    exact ih s h

/-! ### counterexamples: regions where the real code answers a bypassable failure with an error (or dies)

A small pipe capacity (8 bytes) keeps the witnesses short; the e2e witnesses with the real 64 KB capacity are in corpus/C60. -/

def small : Cfg := { respmod := true, bypass := true, hasBody := true, sizeKnown := true, maxCapacity := 8, backupLimit := 8, reserve := 1 }
def upTo : List Ev := [.produce 3, .prodEnd, .connected, .wrote, .wrote]

/-- bypass=1, nothing adapted was used, virgin body (3 bytes) fully buffered; the ICAP server answers with status 500.
handleUnknownScode() calls stopBackup() before throwing, prepEchoing() then cannot plan the echo: the recipient gets an error. -/
theorem bypass_lost_after_error_status_counterexample :
    IcapConsts.replanAfterStopBackup = false →
    let s := run (init small [1, 2, 3]) (upTo ++ [.rdIcap 500 false false false])
    s.bypassed = true ∧ s.consumed = 0 ∧ outcome s = .error := by decide +kernel

/-- the same failure when no backup had been planned (body of unknown length, no preview): the bypass works -/
def wNoBackup : St := run (init { small with sizeKnown := false } [1, 2, 3]) (upTo ++ [.rdIcap 500 false false false, .space 3])
example : outcome wNoBackup = .virgin ∧ wNoBackup.out = [1, 2, 3] := by decide +kernel

/-- bypass=1, preview, body of unknown length: after 100 Continue (no 204 outside the preview possible) the server closes.
handle100Continue() called stopBackup(); the virgin body is still completely buffered, yet the recipient gets an error. -/
theorem bypass_lost_after_100_continue_counterexample :
    IcapConsts.replanAfterStopBackup = false →
    let s := run (init { small with sizeKnown := false, previewWanted := some 1 } [1, 2, 3])
      [.produce 3, .connected, .wrote, .wrote, .rdIcap 100 false false false, .wrote, .prodEnd, .wrote, .rdEof]
    s.bypassed = true ∧ s.consumed = 0 ∧ outcome s = .error := by decide +kernel

/-- bypass=1: the ICAP 200 status line and header arrived, the adapted HTTP head did not: the connection closes. The half-built adapted
head (Must(!adapted.header)) and the stopped backup make the bypass fail. -/
theorem bypass_lost_after_200_status_counterexample :
    IcapConsts.dropPartialAdaptedHead = false →
    let s := run (init small [1, 2, 3]) (upTo ++ [.rdIcap 200 true true false, .rdEof])
    s.bypassed = true ∧ s.consumed = 0 ∧ s.out = [] ∧ outcome s = .error := by decide +kernel

/-- RESPMOD, bypass=1: a read error (RST) ends the job through mustStop(), not through an exception; Client::handleAdaptationAborted()
ignores `bypassable`: error. The same history in REQMOD is bypassed by ClientHttpRequest::handleAdaptationFailure(). -/
theorem respmod_read_error_not_bypassed_counterexample :
    IcapConsts.readErrorThrows = false →
    outcome (run (init small [1, 2, 3]) (upTo ++ [.rdError])) = .error ∧
    outcome (run (init { small with respmod := false } [1, 2, 3]) (upTo ++ [.rdError])) = .virgin := by decide +kernel

/-- a 204 nobody offered to honour, after virgin bytes were released (12-byte body, 8-byte pipe) and while the body is still being written:
the echo is planned at offset 0 < virginConsumed, echoMore() throws, swanSong() -> stopWriting() -> virginConsume() throws again,
outside any try block: the process dies. -/
theorem unsolicited_204_crash_counterexample :
    IcapConsts.planChecksConsumed = false →
    let s := run (init { small with bypass := false, sizeKnown := false } [1, 2, 3, 4, 5, 6, 7, 8, 9, 10, 11, 12])
      [.produce 12, .connected, .wrote, .wrote, .rdIcap 204 false false false]
    s.consumed = 7 ∧ outcome s = .crash := by decide +kernel

/-- a 206 with a body but without an encapsulated HTTP head: makeAdaptedBodyPipe() dereferences the nil adapted.header -/
theorem headless_206_crash_counterexample :
    IcapConsts.validates206 = false →
    outcome (run (init { small with bypass := false, allow206 := true, previewWanted := some 1 } [1, 2, 3])
      (upTo ++ [.rdIcap 206 false true false])) = .crash := by decide +kernel

/-! ### non-vacuity: the good outcomes are reachable -/

/-- 204 inside the preview: the whole virgin body is echoed -/
def w204 : St := run (init { small with bypass := false, previewWanted := some 1 } [1, 2, 3]) (upTo ++ [.rdIcap 204 false false false, .space 3])
example : outcome w204 = .virgin ∧ w204.out = [1, 2, 3] ∧ w204.outSt = .endedOk := by decide +kernel

/-- 200 with an adapted body -/
def w200 : St := run (init { small with bypass := false } [1, 2, 3]) (upTo ++ [.rdIcap 200 true true false, .rdHttpHead, .rdBody [9, 9], .rdLast none])
example : outcome w200 = .adapted ∧ w200.out = [9, 9] ∧ w200.outSt = .endedOk := by decide +kernel

/-- 200 cut inside the body: adapted head, visibly truncated body -/
def wCut : St := run (init { small with bypass := false } [1, 2, 3]) (upTo ++ [.rdIcap 200 true true false, .rdHttpHead, .rdBody [9], .rdEof])
example : outcome wCut = .adaptedTruncated ∧ wCut.out = [9] := by decide +kernel

/-- bypass of a connection closed without a reply -/
def wBypass : St := run (init small [1, 2, 3]) (upTo ++ [.rdEof, .space 3])
example : wBypass.bypassed = true ∧ outcome wBypass = .virgin ∧ wBypass.out = [1, 2, 3] := by decide +kernel

/-- 206 with use-original-body=1: adapted prefix, then the virgin body from offset 1 -/
def w206 : St := run (init { small with bypass := false, allow206 := true, previewWanted := some 1 } [1, 2, 3])
  (upTo ++ [.rdIcap 206 true true false, .rdHttpHead, .rdBody [9], .rdLast (some 1), .space 5])
example : outcome w206 = .adapted ∧ w206.out = [9, 2, 3] := by decide +kernel

/-- the hypothesis of `bypass_before_adapted_use_yields_virgin_partial` is satisfiable -/
example : (bypassFailure { run (init small [1, 2, 3]) upTo with thrown := false }).thrown = false := by decide +kernel

end SquidModel.C60
