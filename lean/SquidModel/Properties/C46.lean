/-
C46 — Proxy authentication gates forwarding and never mixes identities (Basic scheme, decision logic; partial: the
end-to-end behaviour of the binary is tied to this model by scripted-schedule correspondence, see props/C46.py).

Vocabulary: a history is a list of events (request arrivals with whatever Proxy-Authorization header they carry, helper answers
for any outstanding lookup in any order with any verdict, clock steps, cache clean-ups); `run cfg St.init es` gives the final state
and everything Squid did, in order: `challenge r log` (407, logged as `log`), `forward r u t` (AUTH_AUTHENTICATED as user u at
time t), `submit id u p r` (helper asked about u,p on behalf of r), `queued r`, `verdict id u p ok t` (the answer to lookup id,
which had asked about u,p).

FULL STATEMENT of the second half of the property, which is FALSE of the code (DESIGN §8 #18):
  theorem forwarded_only_after_own_credentials_verified (cfg) (es) : Sound cfg (run cfg St.init es).2
i.e. every `forward r u t` is preceded by an OK verdict for exactly r's own (user, password), at most ttl seconds old.
Proved instead: `race_counterexample` (the three-request history), `forwarded_only_after_own_credentials_verified_partial`
(hypothesis `CalmRun`: no arrival replaces the password of a cached record while that record is Pending) and
`fixed_forwarded_only_after_own_credentials_verified` (full strength for the repaired variant of decode, notes/fixes/).
-/
import SquidModel.Auth.BasicSound

namespace SquidModel.C46
open SquidModel SquidModel.Auth

/-- A request that carries no user name + password (no header, foreign scheme, undecodable text, missing or empty password)
is answered 407 at once, whatever the state; nothing else happens and nothing changes. -/
theorem no_credentials_challenged_at_once (cfg : Cfg) (s : St) (r : Req) (h : ∀ u p, r.creds ≠ .basic u p) :
    ∃ lg, (arrive cfg s r).2 = [Out.challenge r lg] ∧ (arrive cfg s r).1.lookups = s.lookups ∧ (arrive cfg s r).1.nrec = s.nrec := by
  unfold arrive
  split
  · exact ⟨none, rfl, rfl, rfl⟩
  · exact ⟨none, rfl, rfl, rfl⟩
  · exact ⟨none, rfl, rfl, rfl⟩
  · next u _ => exact ⟨some u, rfl, rfl, rfl⟩
  · next u p e => exact absurd e (h u p)

/-- In every history, with any interleaving and any helper verdicts: a request is authorised only under the user name of its own
Proxy-Authorization header. -/
theorem forwarded_under_own_name (cfg : Cfg) (es : List Event) (r : Req) (u : Name) (t : Nat)
    (h : Out.forward r u t ∈ (run cfg St.init es).2) : ∃ p, r.creds = .basic u p :=
  (run_invW cfg es invW_init).2 _ h

/-- Hence a request without user name + password is never forwarded, in any history. -/
theorem unauthenticated_never_forwarded (cfg : Cfg) (es : List Event) (r : Req) (h : ∀ u p, r.creds ≠ .basic u p) (u : Name) (t : Nat) :
    Out.forward r u t ∉ (run cfg St.init es).2 := by
  intro hm
  obtain ⟨p, hp⟩ := forwarded_under_own_name cfg es r u t hm
  exact h u p hp

/-- In every history a 407 is logged under the request's own user name or under no name at all. -/
theorem logged_under_own_name (cfg : Cfg) (es : List Event) (r : Req) (u : Name)
    (h : Out.challenge r (some u) ∈ (run cfg St.init es).2) : r.creds = .broken u ∨ ∃ p, r.creds = .basic u p :=
  (run_invW cfg es invW_init).2 _ h

theorem logged_without_name_only_without_user (cfg : Cfg) (es : List Event) (r : Req)
    (h : Out.challenge r none ∈ (run cfg St.init es).2) : r.creds = .none ∨ r.creds = .noScheme ∨ r.creds = .noUser :=
  (run_invW cfg es invW_init).2 _ h

/-- The helper is asked on behalf of a request only about that request's own user name. -/
theorem helper_asked_under_own_name (cfg : Cfg) (es : List Event) (id : Nat) (u : Name) (p : Pw) (r : Req)
    (h : Out.submit id u p r ∈ (run cfg St.init es).2) : ∃ p', r.creds = .basic u p' :=
  (run_invW cfg es invW_init).2 _ h

/-- Nobody is left behind: once the helper has answered every lookup no request waits in any queue. -/
theorem no_request_stranded (cfg : Cfg) (es : List Event) (h : (run cfg St.init es).1.lookups = []) (i : Nat)
    (hi : i < (run cfg St.init es).1.nrec) : ((run cfg St.init es).1.recs i).queue = [] := by
  have hW := (run_invW cfg es invW_init).1
  apply Classical.byContradiction
  intro hne
  obtain ⟨l, hl, _⟩ := hW.q_lk i hi hne
  rw [h] at hl
  cases hl

/-- With a positive credentialsttl a helper answer decides the asking request and every queued one at once (forward or 407);
none of them goes back to the helper, so the resumption loop of HandleReply never sees its queue grow. -/
theorem reply_decides_all_waiters (cfg : Cfg) (httl : 0 < cfg.ttl) (s : St) (id : Nat) (ok : Bool) (o : Out)
    (h : o ∈ (reply cfg s id ok).2) : (∀ i u p r, o ≠ .submit i u p r) ∧ (∀ r, o ≠ .queued r) := by
  unfold reply at h
  split at h
  · cases h
  · next l _ =>
    have hs : (((settle s l ok).recs l.ri).cred = .ok ∧ ((settle s l ok).recs l.ri).expire = (settle s l ok).now) ∨
        ((settle s l ok).recs l.ri).cred = .failed := by
      unfold settle; cases ok <;> simp
    rw [resumeAll_decided cfg httl l.ri _ _ hs] at h
    rcases List.mem_cons.mp h with h | h
    · subst h; exact ⟨fun _ _ _ _ e => Out.noConfusion e, fun _ e => Out.noConfusion e⟩
    · obtain ⟨r, _, hr⟩ := List.mem_map.mp h
      subst hr
      split
      · exact ⟨fun _ _ _ _ e => Out.noConfusion e, fun _ e => Out.noConfusion e⟩
      · exact ⟨fun _ _ _ _ e => Out.noConfusion e, fun _ e => Out.noConfusion e⟩

/-! ### credentials the helper did not accept -/

/-- PARTIAL (see the header for the full statement and why it is false): along a history in which no arrival replaces the
password of a cached record while that record's helper lookup is in flight, every authorised request is preceded by an OK
answer of the helper for exactly its own user name and password, and that answer is younger than credentialsttl. -/
theorem forwarded_only_after_own_credentials_verified_partial (cfg : Cfg) (es : List Event) (hc : CalmRun cfg St.init es) :
    Sound cfg (run cfg St.init es).2 :=
  (run_invS cfg es invW_init invS_init hc).2

/-- The invariant behind it (DESIGN: `ok_means_current_password_verified`), PARTIAL under the same hypothesis: after such a history
every record in state Ok has been verified by the helper for exactly the password it stores, at the time its expiretime says. -/
theorem ok_means_current_password_verified_partial (cfg : Cfg) (es : List Event) (hc : CalmRun cfg St.init es) (i : Nat)
    (hi : i < (run cfg St.init es).1.nrec) (hok : ((run cfg St.init es).1.recs i).cred = .ok) :
    Verified (run cfg St.init es).2 ((run cfg St.init es).1.recs i).user ((run cfg St.init es).1.recs i).passwd
      ((run cfg St.init es).1.recs i).expire := by
  have := (run_invS cfg es invW_init invS_init hc).1.ok_ver i hi hok
  simpa using this

/-- FULL STRENGTH for the repaired variant of `Auth::Basic::Config::decode` (a request whose password differs from a Pending
cached record gets a record of its own): every history, any interleaving, any verdicts. -/
theorem fixed_forwarded_only_after_own_credentials_verified (cfg : Cfg) (hf : cfg.fresh = true) (es : List Event) :
    Sound cfg (run cfg St.init es).2 :=
  forwarded_only_after_own_credentials_verified_partial cfg es (calmRun_of_fresh cfg hf es _)

/-- The tree the model was generated from is one of the two variants; when it is the repaired one the full statement holds
for the shipped configuration. -/
theorem current_tree_sound_when_repaired (h : Gen.AuthBasic.freshRecordWhenPending = true) (es : List Event) :
    Sound Cfg.default (run Cfg.default St.init es).2 :=
  fixed_forwarded_only_after_own_credentials_verified Cfg.default h es

/-- "Requests with credentials the helper rejected are never forwarded", for a helper whose verdict is a function `valid` of the
line it is asked about (PARTIAL: same hypothesis; full strength when `cfg.fresh`). -/
theorem rejected_credentials_never_forwarded_partial (cfg : Cfg) (es : List Event) (hc : CalmRun cfg St.init es)
    (valid : Name → Pw → Bool)
    (honest : ∀ id u p ok t, Out.verdict id u p ok t ∈ (run cfg St.init es).2 → ok = valid u p)
    (r : Req) (u : Name) (t : Nat) (h : Out.forward r u t ∈ (run cfg St.init es).2) :
    ∃ p, r.creds = .basic u p ∧ valid u p = true := by
  obtain ⟨pre, post, e⟩ := List.append_of_mem h
  obtain ⟨p, t0, hcr, ⟨id, hv⟩, _⟩ := forwarded_only_after_own_credentials_verified_partial cfg es hc pre r u t post (by simpa using e)
  refine ⟨p, hcr, ?_⟩
  have := honest id u p true t0 (by rw [e]; exact List.mem_append_left _ (by simpa using hv))
  exact this.symm

/-! ### the counterexample (DESIGN §8 #18), confirmed end to end by corpus/C46/race.txt -/

def legacy : Cfg := { ttl := 7200, authTtl := 3600, caseSensitive := false, fresh := false }
def repaired : Cfg := { legacy with fresh := true }

/-- user "u", passwords "good" and "bad" -/
def uName : Name := [117]
def good : Pw := [103, 111, 111, 100]
def bad : Pw := [98, 97, 100]
def reqA : Req := ⟨1, .basic uName good⟩
def reqB : Req := ⟨2, .basic uName bad⟩
def reqC : Req := ⟨3, .basic uName bad⟩

/-- A=(u,good) asks the helper; B=(u,bad) replaces the cached password and asks too; the helper says OK to A's question;
C=(u,bad) arrives -/
def raceHistory : List Event := [.arrive reqA, .arrive reqB, .reply 1 true, .arrive reqC]

theorem race_outputs : (run legacy St.init raceHistory).2 =
    [.decoded reqA 0, .submit 1 uName good reqA, .decoded reqB 2, .submit 2 uName bad reqB,
     .verdict 1 uName good true 0, .forward reqA uName 0, .decoded reqC 1, .forward reqC uName 0] := by decide

/-- C is authorised as u although the only OK the helper ever gave was for (u, good): the full statement is false of the code. -/
theorem race_counterexample : ¬ Sound legacy (run legacy St.init raceHistory).2 := by
  rw [race_outputs]
  intro h
  obtain ⟨p, t0, hc, ⟨id, hv⟩, _⟩ := h [.decoded reqA 0, .submit 1 uName good reqA, .decoded reqB 2, .submit 2 uName bad reqB,
     .verdict 1 uName good true 0, .forward reqA uName 0, .decoded reqC 1] reqC uName 0 [] rfl
  have hp : p = bad := by
    have : Creds.basic uName bad = Creds.basic uName p := hc
    injection this with _ h2; exact h2.symm
  subst hp
  simp only [List.nil_append, List.mem_cons, List.mem_nil_iff, or_false] at hv
  rcases hv with h | h | h | h | h | h | h
  all_goals first
    | exact Out.noConfusion h
    | (injection h with _ _ h3 _ _; exact absurd h3 (by decide))

/-- the invariant itself is false without the hypothesis: after the race history the record is Ok with password "bad", which
the helper never accepted -/
theorem ok_means_current_password_verified_counterexample :
    ((run legacy St.init raceHistory).1.recs 0).cred = .ok ∧ ((run legacy St.init raceHistory).1.recs 0).passwd = bad ∧
    ∀ id t, Out.verdict id uName bad true t ∉ (run legacy St.init raceHistory).2 := by
  refine ⟨by decide, by decide, ?_⟩
  intro id t h
  rw [race_outputs] at h
  simp only [List.mem_cons, List.mem_nil_iff, or_false] at h
  rcases h with h | h | h | h | h | h | h | h
  all_goals first
    | exact Out.noConfusion h
    | (injection h with _ _ h3 _ _; exact absurd h3 (by decide))

/-- the queued variant: C=(u,bad) queues behind B's lookup and is released, authorised, by the OK for A -/
theorem race_counterexample_queued :
    Out.forward reqC uName 0 ∈ (run legacy St.init [.arrive reqA, .arrive reqB, .arrive reqC, .reply 1 true]).2 := by decide

/-- the same history through the repaired variant: C is not authorised; it asks the helper itself -/
theorem race_repaired : (run repaired St.init raceHistory).2 =
    [.decoded reqA 0, .submit 1 uName good reqA, .decoded reqB 3, .submit 2 uName bad reqB,
     .verdict 1 uName good true 0, .forward reqA uName 0, .decoded reqC 1, .queued reqC] := by decide

/-- Availability side of the same sharing (not part of the property, recorded): a request with *valid* credentials can be
answered 407 because it was queued on a record whose password another request replaced. -/
theorem valid_credentials_may_be_challenged :
    Out.challenge ⟨4, .basic uName good⟩ (some uName) ∈
      (run legacy St.init [.arrive reqB, .arrive ⟨2, .basic uName good⟩, .arrive ⟨4, .basic uName good⟩, .reply 1 false]).2 := by decide

/-! ### non-vacuity -/

-- a calm history in which requests are forwarded: the hypothesis of the partial theorem is satisfiable and `Sound` talks about something
example : calmRunB legacy St.init [.arrive reqA, .arrive ⟨5, .basic uName good⟩, .reply 1 true, .arrive ⟨6, .basic uName good⟩, .arrive reqB, .reply 2 false] = true := by decide
example : (run legacy St.init [.arrive reqA, .arrive ⟨5, .basic uName good⟩, .reply 1 true, .arrive ⟨6, .basic uName good⟩, .arrive reqB, .reply 2 false]).2 =
    [.decoded reqA 0, .submit 1 uName good reqA, .decoded ⟨5, .basic uName good⟩ 1, .queued ⟨5, .basic uName good⟩,
     .verdict 1 uName good true 0, .forward reqA uName 0, .forward ⟨5, .basic uName good⟩ uName 0,
     .decoded ⟨6, .basic uName good⟩ 1, .forward ⟨6, .basic uName good⟩ uName 0,
     .decoded reqB 2, .submit 2 uName bad reqB, .verdict 2 uName bad false 0, .challenge reqB (some uName)] := by decide
-- the race history is not calm
example : calmRunB legacy St.init raceHistory = false := by decide
-- credentials expire: after ttl seconds the cached OK is not used, the helper is asked again
example : (run { legacy with ttl := 6 } St.init [.arrive reqA, .reply 1 true, .tick 8, .arrive ⟨7, .basic uName good⟩]).2 =
    [.decoded reqA 0, .submit 1 uName good reqA, .verdict 1 uName good true 0, .forward reqA uName 0,
     .decoded ⟨7, .basic uName good⟩ 1, .submit 2 uName good ⟨7, .basic uName good⟩] := by decide
-- garbage collection: an expired record leaves the cache, the next request creates a new one
example : (run { legacy with authTtl := 4 } St.init [.arrive reqA, .reply 1 true, .tick 5, .gc, .arrive ⟨7, .basic uName good⟩]).2 =
    [.decoded reqA 0, .submit 1 uName good reqA, .verdict 1 uName good true 0, .forward reqA uName 0,
     .decoded ⟨7, .basic uName good⟩ 0, .submit 2 uName good ⟨7, .basic uName good⟩] := by decide
-- header classification: "Basic dTpnb29k" is (u, good); "Basic dQ==" has no password; "Bearer x" is no configured scheme
example : classify false (some [66,97,115,105,99,32,100,84,112,110,98,50,57,107]) = .basic uName good := by decide
example : classify false (some [66,97,115,105,99,32,100,81,61,61]) = .broken uName := by decide
example : classify false (some [66,101,97,114,101,114,32,120]) = .noScheme := by decide
example : classify false none = .none := by decide

end SquidModel.C46
