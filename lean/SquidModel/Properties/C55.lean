/-
C55 — Shared store index exposes only complete, stable entries.

Model: `SquidModel.Ipc.StoreMap` (Ipc::StoreMap at the granularity of single atomic operations, on top of the specification of
Ipc::ReadWriteLock proved in C54; any number of sessions; any interleaving; either resolution of the lock's freedom to fail).
All theorems quantify over every reachable configuration, i.e. every finite interleaving of every number of sessions calling
openForWritingAt / setKey / append-slice / startAppending / closeForWriting / abortWriting / openForReadingAt / read-chain /
closeForReading / closeForReadingAndFreeIdle / freeEntry / freeEntryByKey in any order their contracts allow.
-/
import SquidModel.Ipc.StoreMapFoot
import SquidModel.Ipc.StoreMapRun
import SquidModel.Ipc.StoreMapExecSound
import SquidModel.Properties.C54

namespace SquidModel.C55
open SquidModel.Ipc.StoreMap
set_option linter.unusedVariables false

/-- the session holds entry `g` for writing, between a successful openForWritingAt and its closeForWriting/abortWriting -/
def isWriterOf (g : Nat) : PC → Bool
  | .holdW f _ _ => f == g
  | _ => false

/-- the session holds entry `g` for reading, between a successful openForReadingAt and its closeForReading* -/
def isReaderOf (g : Nat) : PC → Bool
  | .holdR f => f == g
  | _ => false

/-- No two sessions hold the exclusive lock of the same anchor, in whatever mode and wherever they are inside StoreMap methods. -/
theorem exclusive_sessions_unique {sh : Sh} {ts : List PC} (hr : Reachable (sh, ts)) (g i j : Nat)
    (hi : i < ts.length) (hj : j < ts.length) (hij : i ≠ j) (xi : PC.holdsX g ts[i] = true) (xj : PC.holdsX g ts[j] = true) : False :=
  xx_false (ainv_reachable hr g) i j hi hj hij xi xj

/-- **No two writers hold the same entry.** -/
theorem single_writer {sh : Sh} {ts : List PC} (hr : Reachable (sh, ts)) (g i j : Nat)
    (hi : i < ts.length) (hj : j < ts.length) (hij : i ≠ j) (wi : isWriterOf g ts[i] = true) (wj : isWriterOf g ts[j] = true) : False := by
  refine exclusive_sessions_unique hr g i j hi hj hij ?_ ?_
  · revert wi; cases ts[i] <;> simp [isWriterOf, PC.holdsX, PC.xE, PC.xA, PC.xD]
    rename_i f app last; intro h; cases app <;> simp [h]
  · revert wj; cases ts[j] <;> simp [isWriterOf, PC.holdsX, PC.xE, PC.xA, PC.xD]
    rename_i f app last; intro h; cases app <;> simp [h]

/-- A session that holds the lock of `g` strictly exclusively (a writer before startAppending, anybody inside freeChain/rewind, ...)
excludes every shared holder of `g`: readers, freeEntryByKey under its shared lock. -/
theorem strict_exclusive_excludes_readers {sh : Sh} {ts : List PC} (hr : Reachable (sh, ts)) (g i j : Nat)
    (hi : i < ts.length) (hj : j < ts.length) (xi : PC.xE g ts[i] = true) (rj : PC.holdsS g ts[j] = true) : False :=
  xs_false (ainv_reachable hr g) i j hi hj xi rj

/-- **A reader opens an entry only when it is complete or being appended, and only under the requested key.**
When openForReadingAt(f, k) is about to return success (its last check passes), the anchor holds key `k ≠ 0` and the entry is
complete (its writer called closeForWriting) or its writer is in append mode (`A`), or was in append mode when the reader got
its lock and is now giving up in abortWriting (`D`: the reader will see `writerHalted`). -/
theorem reader_opens_complete_or_appending_with_key {sh : Sh} {ts : List PC} (hr : Reachable (sh, ts)) (i : Nat) (hi : i < ts.length)
    (f k : Nat) (hp : ts[i] = .orW f k) (ch : Bool) (hs : (act sh (.orW f k) ch).2.1 = .holdR f) :
    (sh.a f).key = k ∧ k ≠ 0 ∧ ((sh.a f).complete = true ∨ (sh.a f).writer = .A ∨ (sh.a f).writer = .D) := by
  obtain ⟨rd, xe, xa, xd, ex, _, _, aw, _, _, _⟩ := ainv_reachable hr f
  simp only at rd xe xa xd ex aw
  have hk : k ≠ 0 := by
    have := keyOK_reachable hr ts[i] (List.getElem_mem hi)
    rw [hp] at this; simpa [PC.keyOK] using this
  have hpos : 0 < cnt (PC.holdsS f) ts := cnt_pos_of_mem _ ts i hi (by rw [hp]; simp [PC.holdsS])
  simp only [act] at hs
  have hw : (sh.a f).wtbf = false := by
    cases h : (sh.a f).wtbf <;> simp [h] at hs ⊢
  have hkey : (sh.a f).key = k := by
    by_cases h : (sh.a f).key = k
    · exact h
    · simp [hw, h] at hs
  refine ⟨hkey, hk, ?_⟩
  cases hc : (sh.a f).complete
  · right
    have hact := aw (by rw [hkey]; exact hk) hw hc
    obtain ⟨p, hpm, hpa⟩ := List.countP_pos_iff.mp hact
    have hx := activeW_holdsX f p hpa
    have hE : (sh.a f).writer ≠ .E := by intro e; have := ex e; omega
    simp only [PC.holdsX, Bool.or_eq_true] at hx
    have c1 := fun (h : PC.xE f p = true) => List.countP_pos_iff.mpr ⟨p, hpm, h⟩
    have c2 := fun (h : PC.xA f p = true) => List.countP_pos_iff.mpr ⟨p, hpm, h⟩
    have c3 := fun (h : PC.xD f p = true) => List.countP_pos_iff.mpr ⟨p, hpm, h⟩
    unfold cnt at xe xa xd
    cases hwr : (sh.a f).writer <;> simp_all <;> omega
  · left; rfl

/-- **The slots of an entry are not freed or reused while a reader holds it** (1: transitions). While some session holds entry `f`
shared (a reader from the moment openForReadingAt got its lock until closeForReading*), every step of every session leaves the key
alone, keeps every slice of the chain in the chain (the chain only grows at its end, by an appending writer), keeps their owner and
content, and changes a `next` pointer only where it was the end of the chain. -/
theorem held_entry_stable {c c' : Cfg} (hr : Reachable c) (st : Step c c') (f j : Nat) (hj : j < c.2.length)
    (hsj : PC.holdsS f c.2[j] = true) :
    (c'.1.a f).key = (c.1.a f).key ∧ (c.1.a f).chain <+: (c'.1.a f).chain ∧
    ∀ s ∈ (c.1.a f).chain, (c'.1.s s).owner = (c.1.s s).owner ∧ (c'.1.s s).size = (c.1.s s).size ∧
      ((c'.1.s s).next = (c.1.s s).next ∨ (c.1.s s).next < 0) :=
  stable_step hr st f j hj hsj

/-- (2: who frees) A session that is clearing/freeing slice `cur` inside freeChainAt(f) frees a slice of its own entry `f`, and no
session holds `f` shared at that moment: no reader, nobody between lockShared and unlockShared. -/
theorem free_only_unshared_own_slices {sh : Sh} {ts : List PC} (hr : Reachable (sh, ts)) (i : Nat) (hi : i < ts.length)
    (f cur : Nat) (nx sp : Int) (r : Ret) (hp : ts[i] = .fcClrS f cur nx sp r ∨ ts[i] = .fcClrN f cur nx sp r) :
    cur ∈ (sh.a f).chain ∧ (sh.s cur).owner = .anchor f ∧ ∀ j (hj : j < ts.length), PC.holdsS f ts[j] = false := by
  obtain ⟨hA, hs⟩ := inv_reachable hr
  have ht := hs.thr i hi
  simp only [] at ht
  have hx : PC.xE f ts[i] = true := by rcases hp with h | h <;> rw [h] <;> simp [PC.xE]
  have hm : cur ∈ (sh.a f).chain := by
    rcases hp with h | h <;> rw [h] at ht <;> simp only [TOK] at ht <;> obtain ⟨_, rest, hr', _⟩ := ht <;> rw [hr'] <;> simp
  refine ⟨hm, hs.chain_own f cur hm, ?_⟩
  intro j hj
  cases hsj : PC.holdsS f ts[j] with
  | false => rfl
  | true => exact absurd (xs_false (hA f) i j hi hj hx hsj) id

/-- (3: what readers touch) A reader walking the chain of `f` only ever looks at slices of `f`'s chain; such a slice belongs to
entry `f`, is not in the free pool, and belongs to no other entry. -/
theorem reader_walks_own_slices {sh : Sh} {ts : List PC} (hr : Reachable (sh, ts)) (j : Nat) (hj : j < ts.length)
    (f cur : Nat) (acc : List Nat) (hp : ts[j] = .rdSize f cur acc ∨ ts[j] = .rdNext f cur acc) :
    cur ∈ (sh.a f).chain ∧ (sh.s cur).owner = .anchor f ∧ cur ∉ sh.pool ∧ ∀ g, g ≠ f → cur ∉ (sh.a g).chain := by
  obtain ⟨_, hs⟩ := inv_reachable hr
  have ht := hs.thr j hj
  simp only [] at ht
  have hm : cur ∈ (sh.a f).chain := by rcases hp with h | h <;> rw [h] at ht <;> simp only [TOK] at ht <;> exact ht.2
  have ho := hs.chain_own f cur hm
  simp only [] at ho
  refine ⟨hm, ho, ?_, ?_⟩
  · intro hpm; have := hs.pool_free cur hpm; simp only [] at this; rw [ho] at this; simp at this
  · intro g hg hgm; have := hs.chain_own g cur hgm; simp only [] at this; rw [ho] at this
    simp only [Owner.anchor.injEq] at this; exact hg this.symm

/-- (4: what is handed out) The free pool never contains a slice twice, and a slice in it belongs to no entry: a writer that takes
a slice from the pool (`AS`) cannot get a slice of an entry somebody reads, nor one another writer holds privately. -/
theorem pool_slices_unused {sh : Sh} {ts : List PC} (hr : Reachable (sh, ts)) :
    sh.pool.Nodup ∧ ∀ s ∈ sh.pool, (sh.s s).owner = .free ∧ ∀ g, s ∉ (sh.a g).chain := by
  obtain ⟨_, hs⟩ := inv_reachable hr
  refine ⟨hs.pool_nodup, fun s hsm => ⟨hs.pool_free s hsm, fun g hg => ?_⟩⟩
  have h1 := hs.chain_own g s hg
  have h2 := hs.pool_free s hsm
  simp only [] at h1 h2
  rw [h2] at h1; simp at h1

/-- (5) The `start`/`next` pointers of a live anchor spell out exactly its chain, without repetition: freeChainAt() and readers that
follow the pointers visit the slices of this entry and nothing else. -/
theorem pointers_spell_chain {sh : Sh} {ts : List PC} (hr : Reachable (sh, ts)) (g : Nat) (hl : (sh.a g).live = true) :
    ChainFrom sh.slices (sh.a g).start (sh.a g).chain ∧ (sh.a g).chain.Nodup :=
  ⟨(sinv_reachable hr).live_chain g hl, (sinv_reachable hr).chain_nodup g⟩

/-- ... and a reader always finds its anchor live: from its successful lockShared on a keyed entry on. -/
theorem reader_anchor_live {sh : Sh} {ts : List PC} (hr : Reachable (sh, ts)) (j : Nat) (hj : j < ts.length) (f : Nat)
    (hp : isReaderOf f ts[j] = true) : (sh.a f).live = true := by
  have ht := (sinv_reachable hr).thr j hj
  simp only [] at ht
  revert hp ht
  cases ts[j] <;> simp [isReaderOf, TOK]
  intro h1 h2; rw [← h1]; exact h2

/-- **A deleted entry is not opened afterwards.** `delDone` records that a delete request (freeEntry(f), or freeEntryByKey(k) that
found key `k` at `f`) issued in the current period of the anchor (since its last rewind()) has returned; a reader that is about to
get the entry has seen `waitingToBeFreed == false`.
The statement without the hypothesis `lost = false` is FALSE of the code as it stands (`deleted_not_opened_after_counterexample`):
`StoreMapAnchor::setKey()` assigns `waitingToBeFreed = markedForDeletion(key)` after copying the key, which erases a mark set by a
concurrent freeEntry/freeEntryByKey. The excluded region is the explicit hypothesis `lost = false`: no setKey() has overwritten a set
`waitingToBeFreed` of this anchor in the current period. (`deleted_not_opened_after` below: for a setKey() that never clears the flag
the hypothesis is a theorem.) -/
theorem deleted_not_opened_after_partial {sh : Sh} {ts : List PC} (hr : Reachable (sh, ts)) (i : Nat) (hi : i < ts.length)
    (f k : Nat) (hp : ts[i] = .orW f k) (ch : Bool) (hs : (act sh (.orW f k) ch).2.1 = .holdR f)
    (hl : (sh.a f).lost = false) : (sh.a f).delDone = false := by
  obtain ⟨_, _, _, _, _, _, _, _, dd, _, _⟩ := ainv_reachable hr f
  simp only at dd
  simp only [act] at hs
  have hw : (sh.a f).wtbf = false := by
    cases h : (sh.a f).wtbf <;> simp [h] at hs ⊢
  cases hd : (sh.a f).delDone
  · rfl
  · rcases dd hd with h | h <;> simp_all

/-- Full statement, for the shape of setKey() recorded by the translator (Gen/StoreMapCfg.lean, from executing the staged code): when
setKey() only ever sets `waitingToBeFreed` (the candidate repair notes/fixes/C55-setkey-clears-mark.diff), a deleted entry is never
opened afterwards. -/
theorem deleted_not_opened_after (hfix : SquidModel.Gen.StoreMapCfg.setKeyOnlySets = true) {sh : Sh} {ts : List PC}
    (hr : Reachable (sh, ts)) (i : Nat) (hi : i < ts.length) (f k : Nat) (hp : ts[i] = .orW f k) (ch : Bool)
    (hs : (act sh (.orW f k) ch).2.1 = .holdR f) : (sh.a f).delDone = false :=
  deleted_not_opened_after_partial hr i hi f k hp ch hs ((ainv_reachable hr f).lf hfix)

/-- what `delDone` means, 1: freeEntry(f) that could not lock the entry marks it and returns: the request is recorded -/
theorem freeEntry_records_delete (sh : Sh) (f : Nat) (ch : Bool) :
    ((act sh (.feCas f (sh.a f).gen) ch).1.a f).delDone = true ∧ ((act sh (.feCas f (sh.a f).gen) ch).1.a f).wtbf = true := by
  simp [act, Sh.a, Sh.setA]

/-- what `delDone` means, 2: freeEntryByKey(k) that found key `k` but could lock the entry neither way marks it and returns -/
theorem freeEntryByKey_records_delete (sh : Sh) (f : Nat) (ch : Bool) :
    ((act sh (.fkMark f (sh.a f).gen) ch).1.a f).delDone = true ∧ ((act sh (.fkMark f (sh.a f).gen) ch).1.a f).wtbf = true := by
  simp [act, Sh.a, Sh.setA]

/-- the schedule of the counterexample: session 0 writes entry 0 under key 2, session 1 deletes entry 0 between the two halves of
setKey(), session 2 then opens the entry for reading -/
def cexCmds : List Cmd :=
  [.call 0 (.OW 0 true), .act 0 true, .act 0 true, .act 0 true, .act 0 true, .act 0 true, .act 0 true,   -- openForWritingAt(0)
   .call 0 (.SK 2 false),                         -- setKey: key copied
   .call 1 (.FE 0), .act 1 true, .act 1 true,     -- freeEntry(0): lockExclusive fails, CAS marks the entry, returns true
   .act 0 true,                                   -- setKey: waitingToBeFreed = false
   .call 0 .CW, .act 0 true,                      -- closeForWriting
   .call 2 (.OR 0 2), .act 2 true, .act 2 true]   -- openForReadingAt(0, key 2) succeeds

def cexCfg : Cfg := run (Sh.init 2, List.replicate 3 PC.idle) cexCmds

/-- The protocol with a setKey() that assigns the flag opens an entry whose deletion was requested, and acknowledged, before the reader
even called. (Stated under the hypothesis that the staged code has this shape, so that the theorem survives the repair.) -/
theorem deleted_not_opened_after_counterexample (hbug : SquidModel.Gen.StoreMapCfg.setKeyOnlySets = false) :
    Reachable cexCfg ∧ cexCfg.2 = [.idle, .idle, .holdR 0] ∧ (cexCfg.1.a 0).delDone = true ∧ (cexCfg.1.a 0).lost = true ∧
    (cexCfg.1.a 0).key = 2 ∧ (cexCfg.1.a 0).complete = true := by
  first
  | exact ⟨run_reachable (Reachable.init 2 3) cexCmds, by decide, by decide, by decide, by decide, by decide⟩
  | exact absurd hbug (by decide)

/-- The runs of the executable model whose traces are compared with the real code (mode A of the harness) are executions of `Step`:
every configuration they visit is `Reachable`, so all theorems above apply to them. -/
theorem validated_runs_are_reachable (n : Nat) (opsPer : List (List (String × Op))) (schedule : List Nat) (fuel : Nat) :
    Reachable (cfgOf (drain fuel (schedule.foldl stepSys (initSys n opsPer)))) :=
  scenario_reachable n opsPer schedule fuel

/-! ### The lock layer
The abstract lock of the StoreMap model lets an acquiring method succeed only under a guard on the holders *at rest*. These guards are
the C54 theorems about the atomic-level model of Ipc::ReadWriteLock (`SquidModel.Ipc.RwLock`), restated here in the form the layering
uses them (a session inside a lock method holds nothing; it becomes a holder with the method's last atomic operation). -/

/-- the abstract writer mode a session at rest in the C54 lock model stands for -/
def modeOf : SquidModel.Ipc.RwLock.PC → Option WMode
  | .holdE => some .E
  | .holdA => some .A
  | .holdD => some .D
  | _ => none

/-- guard of `Anchor.lockExclusive`, of a successful `unlockSharedAndSwitch` and of `stopAppending → true` (`writer = none ∧ readers = 0`
resp. `readers = 0`): a strictly exclusive holder is alone among the sessions at rest -/
theorem lockspec_exclusive_alone {s : SquidModel.Ipc.RwLock.Sh} {ts : List SquidModel.Ipc.RwLock.PC}
    (hr : SquidModel.Ipc.RwLock.Reachable (s, ts)) (i j : Nat) (hi : i < ts.length) (hj : j < ts.length) (hij : i ≠ j)
    (h : ts[i] = .holdE) : SquidModel.C54.isExclHolder ts[j] = false ∧ SquidModel.C54.isSharedHolder ts[j] = false := by
  constructor
  · cases hx : SquidModel.C54.isExclHolder ts[j] with
    | false => rfl
    | true => exact absurd (SquidModel.C54.exclusive_holders_unique hr i j hi hj hij (by rw [h]; rfl) hx) id
  · cases hx : SquidModel.C54.isSharedHolder ts[j] with
    | false => rfl
    | true => exact absurd (SquidModel.C54.exclusive_excludes_shared hr i j hi hj h hx) id

/-- guard of `Anchor.lockShared` (`writer ≠ E`): a shared holder never coexists with a strictly exclusive one -/
theorem lockspec_shared_not_with_strict {s : SquidModel.Ipc.RwLock.Sh} {ts : List SquidModel.Ipc.RwLock.PC}
    (hr : SquidModel.Ipc.RwLock.Reachable (s, ts)) (i j : Nat) (hi : i < ts.length) (hj : j < ts.length)
    (h : SquidModel.C54.isSharedHolder ts[i] = true) : ts[j] ≠ .holdE := by
  intro e
  exact SquidModel.C54.exclusive_excludes_shared hr j i hj hi e h

/-- the writer slot of the abstract lock is single: two sessions at rest are never exclusive holders (of any mode) together -/
theorem lockspec_single_writer_slot {s : SquidModel.Ipc.RwLock.Sh} {ts : List SquidModel.Ipc.RwLock.PC}
    (hr : SquidModel.Ipc.RwLock.Reachable (s, ts)) (i j : Nat) (hi : i < ts.length) (hj : j < ts.length) (hij : i ≠ j)
    (h1 : (modeOf ts[i]).isSome) (h2 : (modeOf ts[j]).isSome) : False := by
  refine SquidModel.C54.exclusive_holders_unique hr i j hi hj hij ?_ ?_
  · revert h1; cases ts[i] <;> simp [modeOf, SquidModel.C54.isExclHolder]
  · revert h2; cases ts[j] <;> simp [modeOf, SquidModel.C54.isExclHolder]

-- Non-vacuity: the hypotheses of the theorems are met by reachable configurations.
/-- a writer holding entry 0 exclusively is reachable -/
example : ∃ c, Reachable c ∧ c.2 = [.holdW 0 false (-1), .idle] :=
  ⟨run (Sh.init 2, List.replicate 2 PC.idle)
      [.call 0 (.OW 0 true), .act 0 true, .act 0 true, .act 0 true, .act 0 true, .act 0 true, .act 0 true],
   run_reachable (Reachable.init 2 2) _, by decide⟩

/-- a reader about to pass the last check of openForReadingAt is reachable, and the check passes -/
example : ∃ c : Cfg, Reachable c ∧ c.2[1]? = some (.orW 0 2) ∧ (act c.1 (.orW 0 2) true).2.1 = .holdR 0 :=
  ⟨run (Sh.init 2, List.replicate 2 PC.idle)
      [.call 0 (.OW 0 true), .act 0 true, .act 0 true, .act 0 true, .act 0 true, .act 0 true, .act 0 true,
       .call 0 (.SK 2 false), .act 0 true, .call 0 .CW, .act 0 true, .call 1 (.OR 0 2), .act 1 true],
   run_reachable (Reachable.init 2 2) _, by decide, by decide⟩

/-- a reader in the middle of its walk and an appending writer extending the same entry are reachable together
(so `held_entry_stable` and `reader_walks_own_slices` speak about something) -/
example : ∃ c : Cfg, Reachable c ∧ c.2 = [.asLink 0 true 0 1, .rdNext 0 0 [11]] ∧ PC.holdsS 0 (.rdNext 0 0 [11]) = true :=
  ⟨run (Sh.init 2, List.replicate 2 PC.idle)
      [.call 0 (.OW 0 true), .act 0 true, .act 0 true, .act 0 true, .act 0 true, .act 0 true, .act 0 true,
       .call 0 (.SK 2 false), .act 0 true, .call 0 (.AS 11), .act 0 true, .act 0 true, .act 0 true, .act 0 true,
       .call 0 .SA, .act 0 true, .call 1 (.OR 0 2), .act 1 true, .act 1 true, .call 1 .RD, .act 1 true, .act 1 true,
       .call 0 (.AS 12), .act 0 true, .act 0 true, .act 0 true],
   run_reachable (Reachable.init 2 2) _, by decide, by decide⟩

/-- a session freeing a slice is reachable -/
example : ∃ c : Cfg, Reachable c ∧ c.2 = [.idle, .fcClrN 0 0 (-1) (-1) (.done true)] :=
  ⟨run (Sh.init 2, List.replicate 2 PC.idle)
      [.call 0 (.OW 0 true), .act 0 true, .act 0 true, .act 0 true, .act 0 true, .act 0 true, .act 0 true,
       .call 0 (.SK 2 false), .act 0 true, .call 0 (.AS 11), .act 0 true, .act 0 true, .act 0 true, .act 0 true,
       .call 0 .CW, .act 0 true, .call 1 (.FE 0), .act 1 true, .act 1 true, .act 1 true, .act 1 true, .act 1 true, .act 1 true],
   run_reachable (Reachable.init 2 2) _, by decide⟩

end SquidModel.C55
