/-
C14 — Conditional requests are answered according to their validators (decision logic and history state machine;
partial: the behaviour of the running binary is tied to this model by scenario correspondence, see props/C14.py).
-/
import SquidModel.Cache.CondLemmas
import SquidModel.Cache.CondUpdateLemmas
import SquidModel.Cache.CondHistory

namespace SquidModel.C14
open SquidModel.Cache.Cond

/-! ## A hit: `processConditional` -/

/-- If-Match failures get 412: whenever the cached reply is a 200 and no If-Match item names its entity-tag
(strong comparison), the answer is 412 — whatever the other conditional headers say. -/
theorem if_match_failure_gets_412 (e : EntryView) (r : Req) (f : List Bytes)
    (hs : e.status = 200) (him : r.im = some f) (hno : hasIfMatchEtag e f = false) :
    hitAnswer e r = .preconditionFailed := by
  have hc : r.conditional = true := by simp [Req.conditional, him]
  simp [hitAnswer, hc, processConditional, hs, him, hno]

/-- 304 only when the validators match (every request, well-formed or not): a hit is answered 304 only if
* If-Match, when present, named the stored entity-tag, and
* either If-None-Match is present and `hasOneOfEtags` accepted it (then If-Modified-Since played no role),
  or If-None-Match is absent, If-Modified-Since is a valid date and the entry's modification time is not later. -/
theorem not_modified_only_if (e : EntryView) (r : Req) (h : hitAnswer e r = .notModified) :
    e.status = 200 ∧
    (∀ f, r.im = some f → hasIfMatchEtag e f = true) ∧
    ((∃ f, r.inm = some f ∧ hasIfNoneMatchEtag e r f = true ∧ r.method.gets304 = true) ∨
     (r.inm = none ∧ ∃ t, r.ims = some t ∧ 0 ≤ e.modTime ∧ e.modTime ≤ t)) := by
  unfold hitAnswer at h
  split at h
  case isFalse => cases h
  unfold processConditional at h
  split at h
  case isTrue => cases h
  rename_i hst
  have hst' : e.status = 200 := by simpa using hst
  have key : processConditional.afterIfMatch e r = .notModified →
      ((∃ f, r.inm = some f ∧ hasIfNoneMatchEtag e r f = true ∧ r.method.gets304 = true) ∨
       (r.inm = none ∧ ∃ t, r.ims = some t ∧ 0 ≤ e.modTime ∧ e.modTime ≤ t)) := by
    intro h
    unfold processConditional.afterIfMatch at h
    split at h
    · rename_i f hf
      split at h
      · rename_i hm
        split at h
        · rename_i hg; exact Or.inl ⟨f, hf, hm, hg⟩
        · cases h
      · cases h
    · rename_i hn
      split at h
      · rename_i t ht
        split at h
        · cases h
        · rename_i hms
          refine Or.inr ⟨hn, t, ht, ?_⟩
          simp only [modifiedSince, Bool.or_eq_true, decide_eq_true_eq, not_or, Int.not_lt] at hms
          exact hms
      · cases h
  split at h
  · rename_i f hf
    split at h
    · cases h
    · rename_i hm
      refine ⟨hst', ?_, key h⟩
      intro f' hf'
      rw [hf] at hf'
      injection hf' with hf'
      subst hf'
      simpa using hm
  · rename_i hn
    exact ⟨hst', (by intro f hf; rw [hn] at hf; cases hf), key h⟩

/-- … and then the validator is literally in the request: a 304 to a request with If-None-Match means that header (its
field values trimmed and joined) contains a lone `*` item or the quoted string of the stored entity-tag. -/
theorem not_modified_names_the_entity_tag (e : EntryView) (r : Req) (f : List Bytes)
    (h : hitAnswer e r = .notModified) (hf : r.inm = some f) :
    IsInfix [star] (listOf f) ∨ ∃ rep, e.etag.bind etagParseInit = some rep ∧ IsInfix rep.str (listOf f) := by
  obtain ⟨_, _, h3⟩ := not_modified_only_if e r h
  rcases h3 with ⟨f', hf', hm, _⟩ | ⟨hn, _⟩
  · rw [hf] at hf'
    injection hf' with hf'
    subst hf'
    exact hasOneOfEtags_literal _ _ _ hm
  · rw [hf] at hn; cases hn

/-- the full response otherwise: when If-Match (if any) holds and neither validator matches, the hit is served in full -/
theorem full_response_otherwise (e : EntryView) (r : Req)
    (hs : e.status = 200)
    (him : ∀ f, r.im = some f → hasIfMatchEtag e f = true)
    (hinm : ∀ f, r.inm = some f → hasIfNoneMatchEtag e r f = false)
    (hims : r.inm = none → ∀ t, r.ims = some t → modifiedSince e t = true) :
    hitAnswer e r = .hit := by
  unfold hitAnswer
  split
  case isFalse => rfl
  have key : processConditional.afterIfMatch e r = .hit := by
    unfold processConditional.afterIfMatch
    split
    · rename_i f hf; simp [hinm f hf]
    · rename_i hn
      split
      · rename_i t ht; simp [hims hn t ht]
      · rfl
  unfold processConditional
  simp only [hs, ne_eq, not_true_eq_false, if_false]
  split
  · rename_i f hf; simp [him f hf, key]
  · exact key

/-! ## What a 304 from the origin does to the stored reply: `HttpHeader::update` -/

/-- later hits carry the updated headers: every header the 304 names (and `skipUpdateHeader` does not exempt) has,
after the update, exactly the 304's values, in the 304's order -/
theorem updated_headers_are_the_304s (old fresh : List Field) (id : String)
    (hskip : skipUpdate id = false) (hin : hasId fresh id = true) :
    valuesOf (update old fresh) id = valuesOf fresh id := by
  unfold update
  rw [valuesOf_append, valuesOf_filter_of_hasId (by rw [hasId_updating hskip]; exact hin), valuesOf_updating hskip]
  rfl

/-- headers the 304 does not name keep their stored values -/
theorem unnamed_headers_unchanged (old fresh : List Field) (id : String) (hnot : hasId fresh id = false) :
    valuesOf (update old fresh) id = valuesOf old id := by
  have h1 : hasId (updating fresh) id = false := by
    simp only [hasId, updating, List.any_filter, List.any_eq_false] at hnot ⊢
    intro f hf
    have := hnot f hf
    simp [this]
  unfold update
  rw [valuesOf_append, valuesOf_filter_of_not_hasId h1, valuesOf_eq_nil_of_not_hasId h1]
  simp

/-- exempt headers (Vary) keep their stored values whatever the 304 says -/
theorem exempt_headers_unchanged (old fresh : List Field) (id : String) (hskip : skipUpdate id = true) :
    valuesOf (update old fresh) id = valuesOf old id := by
  have h1 := hasId_updating_of_skip (fresh := fresh) hskip
  unfold update
  rw [valuesOf_append, valuesOf_filter_of_not_hasId h1, valuesOf_eq_nil_of_not_hasId h1]
  simp

/-- the stored body bytes are never touched by a 304 -/
theorem stored_body_unchanged (s : Stored) (fresh : List Field) : (s.on304 fresh).body = s.body := by
  unfold Stored.on304
  split <;> rfl

/-- …and the body a later hit *delivers* is unchanged provided the 304 carries no Content-Length (full statement, without
the hypothesis, is false of the real code: see `served_body_changed_counterexample`). -/
theorem served_body_unchanged_partial (s : Stored) (fresh : List Field)
    (hno : hasId fresh "CONTENT_LENGTH" = false) : (s.on304 fresh).servedBody = s.servedBody := by
  unfold Stored.on304
  split
  · simp only [Stored.servedBody, Stored.contentLength, unnamed_headers_unchanged _ _ _ hno]
  · rfl

/-- A 304 that carries `Content-Length: 0` (many servers send it) rewrites the stored Content-Length, and later hits deliver
an empty body although five bytes are stored — unless `skipUpdateHeader` exempts Content-Length. -/
theorem served_body_changed_counterexample :
    skipUpdate "CONTENT_LENGTH" = false →
    let s : Stored := ⟨[⟨"ETAG", [34, 97, 34]⟩, ⟨"CONTENT_LENGTH", [53]⟩], [66, 79, 68, 89, 49]⟩
    let fresh : List Field := [⟨"ETAG", [34, 97, 34]⟩, ⟨"CONTENT_LENGTH", [48]⟩]
    s.servedBody = [66, 79, 68, 89, 49] ∧ (s.on304 fresh).servedBody = [] ∧ (s.on304 fresh).body = s.body := by
  decide

-- non-vacuity
example : hitAnswer ⟨200, some [34, 97, 34], some 5, 9⟩ ⟨.get, some [[34, 97, 34]], none, none, false⟩ = .notModified := by decide
example : hitAnswer ⟨200, some [34, 97, 34], some 5, 9⟩ ⟨.get, some [[87, 47, 34, 97, 34]], none, none, false⟩ = .notModified := by decide
example : hitAnswer ⟨200, some [34, 97, 34], some 5, 9⟩ ⟨.get, some [[34, 98, 34]], none, some 7, false⟩ = .hit := by decide
example : hitAnswer ⟨200, some [34, 97, 34], some 5, 9⟩ ⟨.get, none, some [[87, 47, 34, 97, 34]], none, false⟩ = .preconditionFailed := by decide
example : hitAnswer ⟨200, some [34, 97, 34], some 5, 9⟩ ⟨.get, none, none, some 5, false⟩ = .notModified := by decide
example : hitAnswer ⟨200, some [34, 97, 34], some 5, 9⟩ ⟨.get, none, none, some 4, false⟩ = .hit := by decide
example : skipUpdate "VARY" = true ∧ skipUpdate "ETAG" = false := by decide

end SquidModel.C14
