/-
C14 — Conditional requests are answered according to their validators (decision logic and history state machine;
partial: the behaviour of the running binary is tied to this model by scenario correspondence, see props/C14.py).
-/
import SquidModel.Cache.CondLemmas
import SquidModel.Cache.CondUpdateLemmas
import SquidModel.Cache.CondHistoryLemmas

namespace SquidModel.C14
open SquidModel.Cache.Cond

/-! ## A hit: `processConditional` -/

/-- If-Match failures get 412: whenever the cached reply is a 200 and no If-Match item names its entity-tag
(strong comparison), the answer is 412 — whatever the other conditional headers say. -/
theorem if_match_failure_gets_412 (e : EntryView) (r : Req) (f : List Bytes)
    (hs : e.status = 200) (him : r.im = some f) (hno : hasIfMatchEtag e f = false) :
    hitAnswer e r = .preconditionFailed := by
  have hc : r.conditional = true := by simp [Req.conditional, him]
  simp [hitAnswer, hc, processConditional, hs, him, hno]

/-- 304 only when the validators match (every request, well-formed or not): a hit is answered 304 only if
* If-Match, when present, named the stored entity-tag, and
* either If-None-Match is present and `hasOneOfEtags` accepted it (then If-Modified-Since played no role),
  or If-None-Match is absent, If-Modified-Since is a valid date and the entry's modification time is not later. -/
theorem not_modified_only_if (e : EntryView) (r : Req) (h : hitAnswer e r = .notModified) :
    e.status = 200 ∧
    (∀ f, r.im = some f → hasIfMatchEtag e f = true) ∧
    ((∃ f, r.inm = some f ∧ hasIfNoneMatchEtag e r f = true ∧ r.method.gets304 = true) ∨
     (r.inm = none ∧ ∃ t, r.ims = some t ∧ 0 ≤ e.modTime ∧ e.modTime ≤ t)) := by
  unfold hitAnswer at h
  split at h
  case isFalse => cases h
  unfold processConditional at h
  split at h
  case isTrue => cases h
  rename_i hst
  have hst' : e.status = 200 := by simpa using hst
  have key : processConditional.afterIfMatch e r = .notModified →
      ((∃ f, r.inm = some f ∧ hasIfNoneMatchEtag e r f = true ∧ r.method.gets304 = true) ∨
       (r.inm = none ∧ ∃ t, r.ims = some t ∧ 0 ≤ e.modTime ∧ e.modTime ≤ t)) := by
    intro h
    unfold processConditional.afterIfMatch at h
    split at h
    · rename_i f hf
      split at h
      · rename_i hm
        split at h
        · rename_i hg; exact Or.inl ⟨f, hf, hm, hg⟩
        · cases h
      · cases h
    · rename_i hn
      split at h
      · rename_i t ht
        split at h
        · cases h
        · rename_i hms
          refine Or.inr ⟨hn, t, ht, ?_⟩
          simp only [modifiedSince, Bool.or_eq_true, decide_eq_true_eq, not_or, Int.not_lt] at hms
          exact hms
      · cases h
  split at h
  · rename_i f hf
    split at h
    · cases h
    · rename_i hm
      refine ⟨hst', ?_, key h⟩
      intro f' hf'
      rw [hf] at hf'
      injection hf' with hf'
      subst hf'
      simpa using hm
  · rename_i hn
    exact ⟨hst', (by intro f hf; rw [hn] at hf; cases hf), key h⟩

/-- … and then the validator is literally in the request: a 304 to a request with If-None-Match means that header (its
field values trimmed and joined) contains a lone `*` item or the quoted string of the stored entity-tag. -/
theorem not_modified_names_the_entity_tag (e : EntryView) (r : Req) (f : List Bytes)
    (h : hitAnswer e r = .notModified) (hf : r.inm = some f) :
    IsInfix [star] (listOf f) ∨ ∃ rep, e.etag.bind etagParseInit = some rep ∧ IsInfix rep.str (listOf f) := by
  obtain ⟨_, _, h3⟩ := not_modified_only_if e r h
  rcases h3 with ⟨f', hf', hm, _⟩ | ⟨hn, _⟩
  · rw [hf] at hf'
    injection hf' with hf'
    subst hf'
    exact hasOneOfEtags_literal _ _ _ hm
  · rw [hf] at hn; cases hn

/-- the full response otherwise: when If-Match (if any) holds and neither validator matches, the hit is served in full -/
theorem full_response_otherwise (e : EntryView) (r : Req)
    (hs : e.status = 200)
    (him : ∀ f, r.im = some f → hasIfMatchEtag e f = true)
    (hinm : ∀ f, r.inm = some f → hasIfNoneMatchEtag e r f = false)
    (hims : r.inm = none → ∀ t, r.ims = some t → modifiedSince e t = true) :
    hitAnswer e r = .hit := by
  unfold hitAnswer
  split
  case isFalse => rfl
  have key : processConditional.afterIfMatch e r = .hit := by
    unfold processConditional.afterIfMatch
    split
    · rename_i f hf; simp [hinm f hf]
    · rename_i hn
      split
      · rename_i t ht; simp [hims hn t ht]
      · rfl
  unfold processConditional
  simp only [hs, ne_eq, not_true_eq_false, if_false]
  split
  · rename_i f hf; simp [him f hf, key]
  · exact key

/-- answer_eq_rfc9110_reference: for every well-formed request (If-None-Match / If-Match fields inside the RFC 9110 list
grammar with backslash-free entity-tags, any number of field lines, any optional whitespace around the commas; GET or HEAD,
no Range) and every cached 200 whose ETag is absent or a well-formed entity-tag, the answer to a hit is exactly RFC 9110
13.2.2 evaluated against the cached response: 412 iff If-Match fails (strong comparison), else 304 iff If-None-Match is
present and matches (weak comparison, `*`), else — only when If-None-Match is absent — 304 iff If-Modified-Since is a
valid date not earlier than Last-Modified (or the time the response was received), else the full response. -/
theorem hit_answer_eq_reference (e : EntryView) (r : Req) (hs : e.status = 200) (het : EtagOk e.etag)
    (hr : ReqOk r) (hmod : 0 ≤ e.modTime) :
    hitAnswer e r = verdictAnswer (Ref.eval r.inm r.im r.ims e.etag (some e.modTime)) :=
  hitAnswer_eq_reference e r hs het hr hmod

/-- the list comparison behind it: `hasOneOfEtags` over `getList` (fields trimmed, joined with ", ", split by
`strListGetItem`) equals the RFC 9110 element-wise comparison, for any number of well-formed field lines -/
theorem has_one_of_etags_eq_reference (fs : List Bytes) (ess : List (List El)) (etag : Option Bytes) (w : Bool)
    (hf : FieldsRender fs ess) (he : EtagOk etag) :
    hasOneOfEtags etag (listOf fs) w = Ref.fieldMatches fs etag w :=
  hasOneOfEtags_eq_reference fs ess etag w hf he

/-! ## Histories: miss / hit / revalidation over any number of requests and origin version changes -/

/-- history_sound_partial. Start from an empty cache (or any coherent entry). For every list of well-formed requests, every
choice of the origin's current version at each step, fresh or stale replies, and any interleaving of misses, hits and
revalidations: every answer is justified —
* a 200 carries the body of one version under that version's own ETag and the full Content-Length, and the request's
  If-Match (if any) names it;
* a 304 made by Squid means RFC 9110 13.2.2 says "not modified" for the client's request against the cached response;
* a relayed 304 means the same against the origin's current version, or against the (coherently) updated cached response;
* a 412 means If-Match fails against the cached response (hit) or against the origin's current version (forwarded);
and the cache stays coherent —
provided that at every step (`CleanRun`) (1) a 304 that revalidates the stale entry carries the stored entity-tag, (2) a
request with If-Match does not meet a failed revalidation. The origin's 304 may carry any Content-Length: since /repo commit
c3c036b `skipUpdateHeader` exempts it (the exemption is read from the source every run; `content_length_pre_fix` below is the
old failure, conditional on the old table). The full statement (without the two exclusions) is false of the real code: see
the two counterexamples below. -/
theorem history_sound_partial (vers : List Ver) (hv : VersOk vers) (steps : List Step) (i : Nat) (s : Option Entry)
    (hok : ∀ st ∈ steps, StepOk st) (hs : StateOk vers s) (hc : CleanRun vers i steps s) :
    JustifiedRun vers i steps s ∧ StateOk vers (finalState vers i steps s) :=
  run_ok hv steps i s hok hs hc

/-- one step of it, for reference: the answer is justified and coherence is preserved -/
theorem step_sound_partial (vers : List Ver) (hv : VersOk vers) (i : Nat) (st : Step) (hok : StepOk st)
    (s : Option Entry) (hs : StateOk vers s) (hc : StepClean vers st s) :
    Justified vers st s (step vers i st s).2.1 ∧ StateOk vers (step vers i st s).1 :=
  step_ok hv i hok hs hc

/-- Excluded region (1), reproduced on the real binary (finding C14-304-foreign-validator): the cache holds version 0
(`"a"`), now stale; the origin has moved to version 1 (`"b"`); the client asks `If-None-Match: "b"`. The origin's 304
(for `"b"`) is merged into the stale entry: the client gets 200 with the body of version 0 under ETag `"b"` and
version 1's Last-Modified, and so does every later hit. -/
theorem foreign_validator_counterexample :
    let vers : List Ver := [⟨some [34, 97, 34], some 1000⟩, ⟨some [34, 98, 34], some 2000⟩]
    let steps : List Step := [
      ⟨.get, none, none, .none, 0, .ref, false⟩,
      ⟨.get, some [[34, 98, 34]], none, .none, 1, .ref, true⟩,
      ⟨.get, none, none, .none, 1, .ref, true⟩]
    (run vers 0 steps none).map (·.1) =
      [.full ⟨some [34, 97, 34], some 1000, false, 0, 0, none⟩ false,
       .full ⟨some [34, 98, 34], some 2000, true, 0, 1, none⟩ false,
       .full ⟨some [34, 98, 34], some 2000, true, 0, 1, none⟩ false] := by
  decide +kernel

/-- About the table before /repo c3c036b only (finding C14-304-content-length, fixed): if `skipUpdateHeader` does not exempt
Content-Length, a revalidation answered `304` + `Content-Length: 0` leaves an entry whose stored Content-Length is 0: that
answer and every later hit deliver no body. With the current table the hypothesis is false. -/
theorem content_length_pre_fix :
    skipsUpdate "CONTENT_LENGTH" = false →
    let vers : List Ver := [⟨some [34, 97, 34], some 1000⟩]
    let steps : List Step := [
      ⟨.get, none, none, .none, 0, .ref, false⟩,
      ⟨.get, none, none, .none, 0, .cl 0, true⟩,
      ⟨.get, none, none, .none, 0, .ref, true⟩]
    (run vers 0 steps none).map (·.1) =
      [.full ⟨some [34, 97, 34], some 1000, false, 0, 0, none⟩ false,
       .full ⟨some [34, 97, 34], some 1000, true, 0, 1, some 0⟩ false,
       .full ⟨some [34, 97, 34], some 1000, true, 0, 1, some 0⟩ false] := by
  decide +kernel

/-- With the current table the same history is harmless: the stored Content-Length survives the 304 (regression form of the
fixed finding; the corpus witness must pass). -/
theorem content_length_304_ignored :
    let vers : List Ver := [⟨some [34, 97, 34], some 1000⟩]
    let steps : List Step := [
      ⟨.get, none, none, .none, 0, .ref, false⟩,
      ⟨.get, none, none, .none, 0, .cl 0, true⟩,
      ⟨.get, none, none, .none, 0, .ref, true⟩]
    (run vers 0 steps none).map (·.1) =
      [.full ⟨some [34, 97, 34], some 1000, false, 0, 0, none⟩ false,
       .full ⟨some [34, 97, 34], some 1000, true, 0, 1, none⟩ false,
       .full ⟨some [34, 97, 34], some 1000, true, 0, 1, none⟩ false] := by
  decide +kernel

/-- Excluded region (2) (finding C14-ifmatch-stale-if-error): stale `"a"`, request `If-Match: "b"`, the origin answers 500:
the old entry is sent as 200 although If-Match fails for it. -/
theorem if_match_stale_if_error_counterexample :
    let vers : List Ver := [⟨some [34, 97, 34], some 1000⟩]
    let steps : List Step := [
      ⟨.get, none, none, .none, 0, .ref, false⟩,
      ⟨.get, none, some [[34, 98, 34]], .none, 0, .err, false⟩]
    (run vers 0 steps none).map (·.1) =
      [.full ⟨some [34, 97, 34], some 1000, false, 0, 0, none⟩ false,
       .full ⟨some [34, 97, 34], some 1000, false, 0, 0, none⟩ false] ∧
    Ref.fieldMatches [[34, 98, 34]] (some [34, 97, 34]) false = false := by
  decide +kernel

/-- Not excluded, but worth recording (allowed by the property: "304 only when…"): after a successful revalidation the old
entry is sent without looking at the client's If-None-Match, so a matching validator still gets the full 200. -/
theorem missed_304_after_revalidation :
    let vers : List Ver := [⟨some [34, 97, 34], some 1000⟩]
    let steps : List Step := [
      ⟨.get, none, none, .none, 0, .ref, false⟩,
      ⟨.get, some [[34, 97, 34]], none, .none, 0, .ref, true⟩,
      ⟨.get, some [[34, 97, 34]], none, .none, 0, .ref, true⟩]
    (run vers 0 steps none).map (·.1) =
      [.full ⟨some [34, 97, 34], some 1000, false, 0, 0, none⟩ false,
       .full ⟨some [34, 97, 34], some 1000, true, 0, 1, none⟩ false,
       .made304 none (some 1000)] := by
  decide +kernel

/-! ## What a 304 from the origin does to the stored reply: `HttpHeader::update` -/

/-- later hits carry the updated headers: every header the 304 names (and `skipUpdateHeader` does not exempt) has,
after the update, exactly the 304's values, in the 304's order -/
theorem updated_headers_are_the_304s (old fresh : List Field) (id : String)
    (hskip : skipUpdate id = false) (hin : hasId fresh id = true) :
    valuesOf (update old fresh) id = valuesOf fresh id := by
  unfold update
  rw [valuesOf_append, valuesOf_filter_of_hasId (by rw [hasId_updating hskip]; exact hin), valuesOf_updating hskip]
  rfl

/-- headers the 304 does not name keep their stored values -/
theorem unnamed_headers_unchanged (old fresh : List Field) (id : String) (hnot : hasId fresh id = false) :
    valuesOf (update old fresh) id = valuesOf old id := by
  have h1 : hasId (updating fresh) id = false := by
    simp only [hasId, updating, List.any_filter, List.any_eq_false] at hnot ⊢
    intro f hf
    have := hnot f hf
    simp [this]
  unfold update
  rw [valuesOf_append, valuesOf_filter_of_not_hasId h1, valuesOf_eq_nil_of_not_hasId h1]
  simp

/-- exempt headers (Vary) keep their stored values whatever the 304 says -/
theorem exempt_headers_unchanged (old fresh : List Field) (id : String) (hskip : skipUpdate id = true) :
    valuesOf (update old fresh) id = valuesOf old id := by
  have h1 := hasId_updating_of_skip (fresh := fresh) hskip
  unfold update
  rw [valuesOf_append, valuesOf_filter_of_not_hasId h1, valuesOf_eq_nil_of_not_hasId h1]
  simp

/-- the stored body bytes are never touched by a 304 -/
theorem stored_body_unchanged (s : Stored) (fresh : List Field) : (s.on304 fresh).body = s.body := by
  unfold Stored.on304
  split <;> rfl

/-- …and the body a later hit *delivers* is unchanged, whatever the 304 carries (after_304_headers_updated_body_same): the
stored Content-Length is exempt from the update (`skipUpdateHeader`, /repo c3c036b; read from the source every run). -/
theorem served_body_unchanged (s : Stored) (fresh : List Field) : (s.on304 fresh).servedBody = s.servedBody := by
  have hskip : skipUpdate "CONTENT_LENGTH" = true := by decide
  unfold Stored.on304
  split
  · simp only [Stored.servedBody, Stored.contentLength, exempt_headers_unchanged _ _ _ hskip]
  · rfl

/-- About the table before /repo c3c036b only: if Content-Length is not exempt, a 304 carrying `Content-Length: 0` (many
servers send it) rewrites the stored Content-Length and later hits deliver an empty body although five bytes are stored. -/
theorem served_body_changed_pre_fix :
    skipUpdate "CONTENT_LENGTH" = false →
    let s : Stored := ⟨[⟨"ETAG", [34, 97, 34]⟩, ⟨"CONTENT_LENGTH", [53]⟩], [66, 79, 68, 89, 49]⟩
    let fresh : List Field := [⟨"ETAG", [34, 97, 34]⟩, ⟨"CONTENT_LENGTH", [48]⟩]
    s.servedBody = [66, 79, 68, 89, 49] ∧ (s.on304 fresh).servedBody = [] ∧ (s.on304 fresh).body = s.body := by
  decide

-- non-vacuity
example : hitAnswer ⟨200, some [34, 97, 34], some 5, 9⟩ ⟨.get, some [[34, 97, 34]], none, none, false⟩ = .notModified := by decide
example : hitAnswer ⟨200, some [34, 97, 34], some 5, 9⟩ ⟨.get, some [[87, 47, 34, 97, 34]], none, none, false⟩ = .notModified := by decide
example : hitAnswer ⟨200, some [34, 97, 34], some 5, 9⟩ ⟨.get, some [[34, 98, 34]], none, some 7, false⟩ = .hit := by decide
example : hitAnswer ⟨200, some [34, 97, 34], some 5, 9⟩ ⟨.get, none, some [[87, 47, 34, 97, 34]], none, false⟩ = .preconditionFailed := by decide
example : hitAnswer ⟨200, some [34, 97, 34], some 5, 9⟩ ⟨.get, none, none, some 5, false⟩ = .notModified := by decide
example : hitAnswer ⟨200, some [34, 97, 34], some 5, 9⟩ ⟨.get, none, none, some 4, false⟩ = .hit := by decide
example : skipUpdate "VARY" = true ∧ skipUpdate "CONTENT_LENGTH" = true ∧ skipUpdate "ETAG" = false := by decide
-- the hypotheses of the reference theorems are satisfiable: `"a", W/"b" , *` is a well-formed list with three elements
example : Renders ([34, 97, 34] ++ ([] ++ comma :: ([32] ++ ([87, 47, 34, 98, 34] ++ ([32] ++ comma :: ([] ++ [star]))))))
    [.tag false [97], .tag true [98], .star] :=
  Renders.cons (.tag false [97]) [] [32] _ _ (by show ([97] : Bytes).all okc = true; decide) rfl (by decide)
    (Renders.cons (.tag true [98]) [32] [] _ _ (by show ([98] : Bytes).all okc = true; decide) (by decide) rfl
      (Renders.one .star trivial))
example : EtagOk (some [34, 97, 34]) := EtagOk.tag false [97] (by decide)
-- and the splitter really differs from the RFC outside them: a backslash before the closing quote swallows the next tag
example : items [34, 97, 92, 34, 44, 32, 34, 98, 34] = [[34, 97, 92, 34, 44, 32, 34, 98, 34]] := by decide
example : Ref.elements [[34, 97, 92, 34, 44, 32, 34, 98, 34]] = [[34, 97, 92, 34], [34, 98, 34]] := by decide
-- a clean history exists (miss, hit with a matching validator, revalidation with the same version)
example : CleanRun [⟨some [34, 97, 34], some 1000⟩] 0
    [⟨.get, none, none, .none, 0, .ref, false⟩, ⟨.get, none, none, .time 1000, 0, .ref, true⟩] none := by
  refine ⟨⟨(by intro e k cl h; cases h), (by intro e h; cases h)⟩,
    ⟨?_, (by intro e _ _ h; cases h)⟩, trivial⟩
  intro e k cl hs _ hr
  have hs' : e = ⟨some [34, 97, 34], some 1000, false, 0, 0, none⟩ := by
    have : (step [⟨some [34, 97, 34], some 1000⟩] 0 ⟨.get, none, none, .none, 0, .ref, false⟩ none).1
        = some ⟨some [34, 97, 34], some 1000, false, 0, 0, none⟩ := by decide +kernel
    rw [this] at hs; injection hs with hs; exact hs.symm
  subst hs'
  have : originReply [⟨some [34, 97, 34], some 1000⟩] ⟨.get, none, none, .time 1000, 0, .ref, true⟩
      (revalFwd ⟨some [34, 97, 34], some 1000, false, 0, 0, none⟩ ⟨.get, none, none, .time 1000, 0, .ref, true⟩) = .notMod 0 none := by
    decide +kernel
  rw [this] at hr; injection hr with hk _; subst hk; rfl

end SquidModel.C14
