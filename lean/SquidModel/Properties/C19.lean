/-
C19 — SMP workers share cache entries consistently (partial: the theorems are about the model of the shared `Ipc::StoreMap`
protocol as MemStore and Rock use it across workers, `SquidModel/Cache/Smp.lean`, with every StoreMap call atomic (C54/C55 are
about that); the rebuilt multi-worker binary is tied to the model by scenario correspondence, see props/C19.py).

Full statement: "With several workers sharing a memory cache and rock cache_dirs, an object cached through one worker is served
by any worker with identical bytes.  No worker serves an entry that another worker is still writing as if it were complete, or
one that has been invalidated."

Proved for every interleaving of any number of workers' writers and readers, invalidations and evictions (`run h O init as`),
any hash `h` (so also for colliding keys) and any origin `O`:
  * `reader_copies_only_its_version`, `complete_only_after_writer_closed`, `same_bytes_through_any_worker`
  * `no_reuse_while_read`
  * `invalidated_not_served`
Missing for the full statement: the atomicity of the StoreMap calls (C54/C55), the copying between slices/pages and the local
`StoreEntry` (C10/C53/C56/C57), Transients and the CollapsedForwarding queue (sampled end to end), DiskIO.
-/
import SquidModel.Cache.SmpInv

namespace SquidModel.C19
open SquidModel.Cache.Smp

/-- Identical bytes: whatever a reader (a transaction of any worker) has copied from the shared cache is a prefix of the one
origin response that the entry's writer was storing when the reader opened the entry. -/
theorem reader_copies_only_its_version (h : Key → Nat) (O : Key → Ver → List Nat) (as : List Action) (r : Nat) (rd : Reader)
    (hr : (run h O State.init as).readers r = some rd) : rd.got = (O rd.key rd.ver).take rd.got.length :=
  ((inv_run h (inv_init O) as).rdr r rd hr).pre

/-- Not served as complete while being written: a reader is told "complete" (`STORE_OK` and everything copied) only when it holds
the whole response - which the model's writer can only have declared by `closeForWriting` after storing all of it; a writer that
gives up (`abortWriting`) leaves its readers with `some false`. -/
theorem complete_only_after_writer_closed (h : Key → Nat) (O : Key → Ver → List Nat) (as : List Action) (r : Nat) (rd : Reader)
    (hr : (run h O State.init as).readers r = some rd) (hd : rd.done = some true) : rd.got = O rd.key rd.ver :=
  ((inv_run h (inv_init O) as).rdr r rd hr).done hd

/-- Any worker, identical bytes: two readers, whichever workers they belong to, that were served the same version of the same
key completely, hold the same bytes. -/
theorem same_bytes_through_any_worker (h : Key → Nat) (O : Key → Ver → List Nat) (as : List Action) (r1 r2 : Nat) (a b : Reader)
    (h1 : (run h O State.init as).readers r1 = some a) (h2 : (run h O State.init as).readers r2 = some b)
    (hk : a.key = b.key) (hv : a.ver = b.ver) (d1 : a.done = some true) (d2 : b.done = some true) : a.got = b.got := by
  rw [complete_only_after_writer_closed h O as r1 a h1 d1, complete_only_after_writer_closed h O as r2 b h2 d2, hk, hv]

/-- No reuse while read: as long as a reader is attached, the slot still holds the incarnation (key, version, generation) it
opened, and what it copied is a prefix of what is stored there. -/
theorem no_reuse_while_read (h : Key → Nat) (O : Key → Ver → List Nat) (as : List Action) (r : Nat) (rd : Reader)
    (hr : (run h O State.init as).readers r = some rd) (ha : rd.attached = true) :
    ((run h O State.init as).anchors rd.slot).gen = rd.gen ∧ ((run h O State.init as).anchors rd.slot).key = some rd.key ∧
    ((run h O State.init as).anchors rd.slot).ver = rd.ver ∧
    rd.got = ((run h O State.init as).anchors rd.slot).data.take rd.got.length := by
  obtain ⟨g1, g2, g3, _, g5⟩ := ((inv_run h (inv_init O) as).rdr r rd hr).att ha
  exact ⟨g1, g2, g3, g5⟩

/-- Invalidated entries are not served: in the history of any run, no reader opens an incarnation of a slot after that
incarnation was invalidated (PURGE / `evictIfFound` from any worker, replacement by a newer response, an aborted writer, eviction).
The log is newest first: `newer ++ opened :: older`. -/
theorem invalidated_not_served (h : Key → Nat) (O : Key → Ver → List Nat) (as : List Action) (newer older : List Event) (r i g : Nat)
    (hl : (run h O State.init as).log = newer ++ Event.opened r i g :: older) : Event.invalidated i g ∉ older := by
  have hok := (inv_run h (inv_init O) as).ok
  rw [hl] at hok
  clear hl
  induction newer with
  | nil => exact hok.1
  | cons e rest ih =>
    cases e with
    | opened _ _ _ => exact ih hok.2
    | invalidated _ _ => exact ih hok

-- non-vacuity -----------------------------------------------------------------------------------------------------------------

/-- two keys that share a slot, one that does not -/
def hash3 : Key → Nat := fun k => k % 2
/-- bodies: version v of key k is [k, v, v] -/
def bodies : Key → Ver → List Nat := fun k v => [k, v, v]

/-- worker 1 writes key 0 (version 5) with appending; worker 2 opens it while it is being written, copies, and is told "complete"
only after worker 1 closed; worker 3 purges; worker 2's next open fails (no new reader); worker 1 rewrites version 6 -/
def history : List Action :=
  [.openW 1 0 5, .startApp 1 0, .append 1 0 2, .openR 2 0, .read 0 9, .read 0 9, .append 1 0 9, .closeW 1 0, .read 0 9, .read 0 9,
   .freeKey 0, .openR 2 0, .closeR 0, .openW 1 0 6, .append 1 0 9, .closeW 1 0, .openR 3 0, .read 1 9, .read 1 9]

example : ((run hash3 bodies State.init history).readers 0).map (fun rd => (rd.worker, rd.ver, rd.got, rd.done)) =
    some (2, 5, [0, 5, 5], some true) := by decide
example : ((run hash3 bodies State.init history).readers 1).map (fun rd => (rd.worker, rd.ver, rd.got, rd.done)) =
    some (3, 6, [0, 6, 6], some true) := by decide
example : (run hash3 bodies State.init history).nextR = 2 := by decide
example : (run hash3 bodies State.init history).log =
    [.opened 1 0 2, .invalidated 0 1, .opened 0 0 1] := by decide
-- an aborted writer: its reader is told "cut short"
example : ((run hash3 bodies State.init [.openW 1 0 5, .startApp 1 0, .append 1 0 2, .openR 2 0, .read 0 9, .abortW 1 0, .read 0 9]).readers 0).map
    (fun rd => (rd.got, rd.done)) = some ([0, 5], some false) := by decide
-- colliding keys 0 and 2 (same slot): writing key 2 replaces the unlocked entry of key 0, readers of key 0 no longer find it
example : (run hash3 bodies State.init [.openW 1 0 5, .append 1 0 9, .closeW 1 0, .openW 2 2 1, .openR 3 0]).nextR = 0 := by decide

end SquidModel.C19
