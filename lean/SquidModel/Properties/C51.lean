/-
C51 — Bounded LRU/TTL map (ClpMap) behaves like its specification.  (first version: arithmetic facts only)
-/
import SquidModel.ClpMap.Arith

namespace SquidModel.C51
open SquidModel.ClpMap SquidModel.Gen.ClpMapConsts

/-- `MemoryCountedFor` (a chain of four overflow-checked `uint64_t` additions) is the exact sum when it fits and nothing otherwise. -/
theorem memory_counted_exact (klen vsz : Nat) (hk : klen ≤ u64Max) (hv : vsz ≤ u64Max) :
    memoryCountedFor klen vsz = if exactSize klen vsz ≤ u64Max then some (exactSize klen vsz) else none :=
  memoryCountedFor_eq hk hv

end SquidModel.C51
