/-
C51 — Bounded LRU/TTL map (`ClpMap`, src/base/ClpMap.h) behaves like its specification.

"For any sequence of adds, gets, deletes, capacity changes and clock advances, the map returns exactly the values a
reference LRU/TTL/capacity model returns. Its accounted memory never exceeds the capacity, and only
least-recently-used entries are purged to make room."

Model: `SquidModel.ClpMap.Model` (node list with identities + iterator index + `uint64_t` counters, asserts / dangling
iterators / a non-terminating trim loop as explicit faults).  Reference: `SquidModel.ClpMap.Spec` (`Ref`: a recency-ordered
entry list with unbounded arithmetic; `Stamped`: the same with ghost last-use stamps).  Lemmas: Arith, ListLemmas, Inv,
Refine, History, Lru.  All statements are for every history (no length bound) and every argument in the range of its
C++ type; the clock is assumed to be a non-negative `time_t` (see `negative_clock_never_expires` for what happens otherwise).
-/
import SquidModel.ClpMap.History
import SquidModel.ClpMap.LruMin

namespace SquidModel.C51
open SquidModel.ClpMap SquidModel.Gen.ClpMapConsts

/-- **The map returns exactly what the reference LRU/TTL/capacity map returns.**  From either constructor, for every
history of valid calls, the model returns normally from every call (no assert fires, no iterator dangles, no
`uint64_t` operation wraps, `trim()` terminates) and the sequence of observations (call result, `memoryUsed()`,
`memLimit()`, `entries()`, full traversal) is the reference map's. -/
theorem run_refines (capacity : Nat) (ttl : Option Int) (now : Int) (ops : List Op)
    (hcap : capacity ≤ u64Max) (httl : ∀ d, ttl = some d → 0 ≤ d) (hclock : ClockOk now) (hops : ∀ op ∈ ops, op.Valid) :
    ∃ s, init capacity ttl now = .ok s ∧ run s now ops = .ok (Ref.run (Ref.init capacity ttl) now ops) := by
  obtain ⟨s, hs, hR⟩ := init_rel now hcap httl
  exact ⟨s, hs, (run_sim ops hR hclock hops).1⟩

/-- No fault is reachable: whatever the history, the run does not end in an assertion failure, a dangling iterator or
a diverging trim loop. -/
theorem never_faults (capacity : Nat) (ttl : Option Int) (now : Int) (ops : List Op)
    (hcap : capacity ≤ u64Max) (httl : ∀ d, ttl = some d → 0 ≤ d) (hclock : ClockOk now) (hops : ∀ op ∈ ops, op.Valid)
    (s : State) (hs : init capacity ttl now = .ok s) (f : Fault) : run s now ops ≠ .error f := by
  obtain ⟨s', hs', hr⟩ := run_refines capacity ttl now ops hcap httl hclock hops
  rw [hs] at hs'; cases hs'
  rw [hr]; intro h; cases h

/-- **Accounted memory never exceeds the capacity** (and is exactly the sum of the accounted entry sizes, each of
them positive; `entries()` is the traversal length; there is one entry per key), after every call of every history. -/
theorem mem_le_limit (capacity : Nat) (ttl : Option Int) (now : Int) (ops : List Op)
    (hcap : capacity ≤ u64Max) (httl : ∀ d, ttl = some d → 0 ≤ d) (hclock : ClockOk now) (hops : ∀ op ∈ ops, op.Valid)
    (s : State) (hs : init capacity ttl now = .ok s) (obs : List Obs) (hrun : run s now ops = .ok obs) :
    ∀ o ∈ obs, o.used ≤ o.limit ∧ o.used = total o.items ∧ (o.items.map (·.key)).Nodup ∧ o.count = o.items.length ∧
      ∀ e ∈ o.items, 0 < e.memCounted := by
  obtain ⟨s', hs', hR⟩ := init_rel now hcap httl
  rw [hs] at hs'; cases hs'
  obtain ⟨h1, h2⟩ := run_sim ops hR hclock hops
  rw [hrun] at h1; cases h1
  intro o ho
  have := h2 o ho
  exact ⟨this.le, this.sum, this.keys, this.count, this.pos⟩

/-- **Only least-recently-used entries are purged to make room** (model level): on any state satisfying the invariant,
`trim(wantSpace)` returns normally, keeps a prefix of the recency-ordered entry list (so the victims are exactly a
suffix = the least recently used entries), frees enough room, and purges no more than necessary: the most recently used
victim would not have fit next to the survivors. -/
theorem trim_purges_lru_suffix (s : State) (hi : Inv s) (now : Int) (want : Nat) (hw : want ≤ s.memLimit) :
    ∃ s' victims, trim s now want = .ok s' ∧ Inv s' ∧ ents s = ents s' ++ victims ∧
      s'.memUsed + want ≤ s'.memLimit ∧ s'.memLimit = s.memLimit ∧
      (∀ v t, victims = v :: t → s'.memLimit < s'.memUsed + v.memCounted + want) := by
  obtain ⟨s', ht, hinv, hents, hfr⟩ := trim_spec hi now hw
  obtain ⟨t, hpre⟩ := fitPrefix_prefix (ents s) (s.memLimit - want)
  refine ⟨s', t, ht, hinv, by rw [hents]; exact hpre, ?_, hfr.1, ?_⟩
  · have := fitPrefix_total_le (ents s) (s.memLimit - want)
    rw [← hents, ← hinv.used] at this
    rw [hfr.1]; omega
  · intro v t' hv
    subst hv
    have := fitPrefix_maximal (ents s) (s.memLimit - want) v t' hpre
    rw [← hents, ← hinv.used] at this
    rw [hfr.1]; omega

/-- The ghost last-use stamps are faithful: erasing them from the instrumented reference gives the reference. -/
theorem stamps_erase (capacity : Nat) (ttl : Option Int) (now : Int) (ops : List Op) :
    (Stamped.after (Stamped.init capacity ttl) now ops).1.erase = (Ref.after (Ref.init capacity ttl) now ops).1 :=
  (Stamped.erase_after ops (Stamped.init capacity ttl) now).1

/-- In every reachable state the traversal order is the recency order: stamps strictly decrease along the list. -/
theorem traversal_is_recency_order (capacity : Nat) (ttl : Option Int) (now : Int) (ops : List Op) :
    (Stamped.after (Stamped.init capacity ttl) now ops).1.items.Pairwise (fun a b => b.stamp < a.stamp) :=
  (Stamped.sinv_after ops now (Stamped.sinv_init capacity ttl)).sorted

/-- **Only least-recently-used entries are purged to make room** (with last-use stamps): when an `add` is accepted in a
reachable state, the entries it purges (besides the one stored under the same key, which it replaces) were all used
less recently than every entry it keeps, and the most recently used victim would not have fit. -/
theorem add_purges_least_recent (capacity : Nat) (ttl0 : Option Int) (now0 : Int) (ops : List Op)
    (now : Int) (k klen : Nat) (v : Int) (vsz : Nat) (ttl : Int) :
    let s := (Stamped.after (Stamped.init capacity ttl0) now0 ops).1
    (s.add now k klen v vsz ttl).2 = true →
    ∃ kept victims, (s.add now k klen v vsz ttl).1.items =
        { e := ⟨k, v, expiryOf now ttl, exactSize klen vsz⟩, stamp := s.tick } :: kept ∧
      Stamped.sremove s.items k = kept ++ victims ∧
      (∀ a ∈ kept, ∀ b ∈ victims, b.stamp < a.stamp) ∧
      (∀ w t, victims = w :: t → s.limit < exactSize klen vsz + total (kept.map (·.e)) + w.e.memCounted) := by
  intro s hacc
  have hs : Stamped.SInv s := Stamped.sinv_after ops now0 (Stamped.sinv_init capacity ttl0)
  unfold Stamped.add at hacc ⊢
  simp only at hacc ⊢
  by_cases h : ttl < 0 ∨ exactSize klen vsz > u64Max ∨ exactSize klen vsz > s.limit
  · simp [h] at hacc
  · simp only [h, if_false]
    obtain ⟨t, ht⟩ := Stamped.sfit_prefix (Stamped.sremove s.items k) (s.limit - exactSize klen vsz)
    have hsorted : (Stamped.sremove s.items k).Pairwise (fun a b => b.stamp < a.stamp) :=
      List.Pairwise.sublist (Stamped.sremove_sublist _ _) hs.sorted
    refine ⟨_, t, rfl, ht, Stamped.sfit_victims_older hsorted _ ht, ?_⟩
    intro w t' hw
    subst hw
    have := Stamped.sfit_maximal _ _ w t' ht
    omega

/-- The same for a capacity reduction: `setMemLimit` purges the least recently used entries only, and as few as possible. -/
theorem setLimit_purges_least_recent (capacity : Nat) (ttl0 : Option Int) (now0 : Int) (ops : List Op) (n : Nat) :
    let s := (Stamped.after (Stamped.init capacity ttl0) now0 ops).1
    ∃ victims, s.items = (s.setLimit n).items ++ victims ∧
      (∀ a ∈ (s.setLimit n).items, ∀ b ∈ victims, b.stamp < a.stamp) ∧
      (∀ w t, victims = w :: t → n < total ((s.setLimit n).items.map (·.e)) + w.e.memCounted) := by
  intro s
  have hs : Stamped.SInv s := Stamped.sinv_after ops now0 (Stamped.sinv_init capacity ttl0)
  obtain ⟨t, ht⟩ := Stamped.sfit_prefix s.items n
  refine ⟨t, ht, Stamped.sfit_victims_older hs.sorted _ ht, ?_⟩
  intro w t' hw
  subst hw
  exact Stamped.sfit_maximal _ _ w t' ht

/-- The reference purge *is* the textbook LRU loop: in every reachable state, "while the entries do not fit, drop the
one with the smallest last-use stamp" (the minimum found by stamp, not by position) gives exactly the entries the
reference keeps (`sfit`), for any amount of room. -/
theorem purge_is_lru_loop (capacity : Nat) (ttl0 : Option Int) (now0 : Int) (ops : List Op) (room : Nat) :
    let s := (Stamped.after (Stamped.init capacity ttl0) now0 ops).1
    Stamped.evictLoop s.items.length s.items room = Stamped.sfit s.items room := by
  intro s
  exact Stamped.evictLoop_eq_sfit _ _ _ (Stamped.sinv_after ops now0 (Stamped.sinv_init capacity ttl0)).sorted (Nat.le_refl _)

/-- Reference-level meaning of a hit: an accepted `add` is returned by `get` under the same key until its TTL has passed … -/
theorem get_after_add (r : Ref) (now now' : Int) (k klen : Nat) (v : Int) (vsz : Nat) (ttl : Int)
    (hacc : (r.add now k klen v vsz ttl).2 = true) (hfresh : now' ≤ expiryOf now ttl) :
    ((r.add now k klen v vsz ttl).1.get now' k).2 = some v := by
  unfold Ref.add at hacc ⊢
  simp only at hacc ⊢
  by_cases h : ttl < 0 ∨ exactSize klen vsz > u64Max ∨ exactSize klen vsz > r.limit
  · simp [h] at hacc
  · simp only [h, if_false]
    unfold Ref.get
    simp only [lookup_cons, if_true]
    have : ¬ expiryOf now ttl < now' := by omega
    simp only [this, if_false]

/-- … and is hidden (and dropped) afterwards. -/
theorem get_after_expiry (r : Ref) (now now' : Int) (k klen : Nat) (v : Int) (vsz : Nat) (ttl : Int)
    (hacc : (r.add now k klen v vsz ttl).2 = true) (hstale : expiryOf now ttl < now') :
    ((r.add now k klen v vsz ttl).1.get now' k).2 = none ∧
    lookup ((r.add now k klen v vsz ttl).1.get now' k).1.items k = none := by
  unfold Ref.add at hacc ⊢
  simp only at hacc ⊢
  by_cases h : ttl < 0 ∨ exactSize klen vsz > u64Max ∨ exactSize klen vsz > r.limit
  · simp [h] at hacc
  · simp only [h, if_false]
    unfold Ref.get
    simp only [lookup_cons, if_true, hstale]
    exact ⟨trivial, lookup_remove_self _ _⟩

/-- A refused `add` (negative TTL, or a size that cannot be accounted or does not fit the capacity) still discards the
value stored under the key: a stale value never outlives an attempt to replace it. -/
theorem rejected_add_discards (r : Ref) (now now' : Int) (k klen : Nat) (v : Int) (vsz : Nat) (ttl : Int)
    (hrej : (r.add now k klen v vsz ttl).2 = false) : ((r.add now k klen v vsz ttl).1.get now' k).2 = none := by
  unfold Ref.add at hrej ⊢
  simp only at hrej ⊢
  by_cases h : ttl < 0 ∨ exactSize klen vsz > u64Max ∨ exactSize klen vsz > r.limit
  · simp only [h, if_true]
    unfold Ref.get
    simp only [lookup_remove_self]
  · simp [h] at hrej

/-- `MemoryCountedFor` (a chain of four overflow-checked `uint64_t` additions) is the exact sum
key length + sizeof(Entry) + value size + sizeof(index item) when that fits 64 bits, and nothing otherwise. -/
theorem memory_counted_exact (klen vsz : Nat) (hk : klen ≤ u64Max) (hv : vsz ≤ u64Max) :
    memoryCountedFor klen vsz = if exactSize klen vsz ≤ u64Max then some (exactSize klen vsz) else none :=
  memoryCountedFor_eq hk hv

/-- The constants the translator observed behaviourally agree with the ones it read off the types: one entry with an
empty key and a zero-sized value is accounted as `sizeof(Entry) + sizeof(IndexItem)`, and a map built without a default
TTL uses the largest `Ttl`. -/
theorem accounting_constants_consistent : overheadObserved = entrySize + indexSize ∧ defaultTtl = ttlMax := by decide

/-- The saturation of the expiry instant at `time_t` max is invisible: for every clock value a `time_t` can hold, the
entry is stale exactly when the exact (unbounded) instant `now + ttl` has passed. -/
theorem expiry_saturation_invisible (now ttl t : Int) (hn : ClockOk now) (ht : 0 ≤ ttl) (ht' : t ≤ timeMax) :
    expiresFor now ttl < t ↔ now + ttl < t :=
  expired_iff_exact hn.1 hn.2 ht ht'

/-- Outside the assumed domain: with a negative clock `NaturalSum` refuses to add and the entry gets the maximal expiry
instant, i.e. it never expires whatever its TTL. -/
theorem negative_clock_never_expires (now ttl t : Int) (hn : now < 0) (ht : t ≤ timeMax) :
    ¬ (expiresFor now ttl < t) := by
  rw [expiresFor_negative_clock hn]; omega

/-! ### non-vacuity -/

/-- what a caller sees of a run, as a decidable value -/
def results (capacity : Nat) (ttl : Option Int) (now : Int) (ops : List Op) : Option (List (Res × Nat × List Nat)) :=
  match init capacity ttl now with
  | .error _ => none
  | .ok s =>
    match run s now ops with
    | .error _ => none
    | .ok os => some (os.map fun o => (o.res, o.used, o.items.map (·.key)))

/-- three entries of 80 bytes in a 160-byte map: the third add purges the least recently used one, which is key 2
because key 1 was read in between; after the TTL has passed key 1 is gone as well. -/
example : results 160 none 5
    [.add 1 0 11 8 10, .add 2 0 22 8 10, .get 1, .add 3 0 33 8 1, .get 2, .get 1, .setClock 7, .get 3, .setLimit 0] =
    some [(.added true, 80, [1]), (.added true, 160, [2, 1]), (.got (some 11), 160, [1, 2]), (.added true, 160, [3, 1]),
          (.got none, 160, [3, 1]), (.got (some 11), 160, [1, 3]), (.none, 160, [1, 3]), (.got none, 80, [1]),
          (.none, 0, [])] := by decide

/-- the hypotheses of `run_refines` are satisfiable (and the reference run of that history is the one above) -/
example : (160 : Nat) ≤ u64Max ∧ ClockOk 5 ∧ ∀ op ∈ [Op.add 1 0 11 8 10, .get 1, .setClock 7, .setLimit 0], op.Valid := by
  refine ⟨by decide, ⟨by decide, by decide⟩, ?_⟩
  intro op h
  simp only [List.mem_cons, List.mem_nil_iff, or_false] at h
  rcases h with rfl | rfl | rfl | rfl
  · exact ⟨by decide, by decide⟩
  · trivial
  · exact ⟨by decide, by decide⟩
  · show (0 : Nat) ≤ u64Max; decide

/-- sizes at the 64-bit boundary: the largest accountable entry is accepted by a map of maximal capacity, one more byte is not -/
example : results u64Max none 0 [.add 1 (u64Max - 72) 1 0 5, .add 2 (u64Max - 71) 2 0 5, .add 3 u64Max 3 u64Max 5] =
    some [(.added true, u64Max, [1]), (.added false, u64Max, [1]), (.added false, u64Max, [1])] := by decide

/-- a fault is a possible outcome of the model (the theorems are not vacuous): a state whose index points at a node that
is gone makes `get` report the dangling iterator -/
example : get { entries := [], index := [(1, 7)], nextId := 8, memLimit := 100, memUsed := 0, defaultTtl := 0 } 0 1 =
    .error .dangling := rfl

/-- and a negative clock does make an entry immortal in the model -/
example : results 1000 none (-5) [.add 1 0 11 0 1, .setClock 1000, .get 1] =
    some [(.added true, 72, [1]), (.none, 72, [1]), (.got (some 11), 72, [1])] := by decide

end SquidModel.C51
