/-
C62 — Header size limits are enforced before forwarding (partial: the decision logic; the binary is tied to it end to end).
`L` is request_header_max_size, `F` the request-line size, `M` the header-block size; arrival sequences are the buffer sizes
seen by successive parse attempts (any segmentation; the connection buffer is bounded by
client_request_buffer_max_size, not by this limit, so a single read may deliver more than `L` bytes).
-/
import SquidModel.Limits.Head

namespace SquidModel.C62
open SquidModel.Limits

/-- A request head of `F + M ≥ L` bytes is never accepted, however it is segmented. -/
theorem oversized_never_accepted (L F M : Nat) (h : F + M ≥ L) (ns : List Nat) :
    firstVerdict L F M ns ≠ .accept := by
  induction ns with
  | nil => simp [firstVerdict]
  | cons n rest ih =>
    unfold firstVerdict
    have : parseAt L F M n ≠ .accept := by
      unfold parseAt; repeat' split
      all_goals (first | simp | omega)
    cases hp : parseAt L F M n <;> simp_all

/-- Once at least `limit` bytes of an oversized head (or all of it) have been buffered, it has been rejected with 414 or 431:
the arrival sequence ends with a buffer size `last` with `min (F + M) L ≤ last`. -/
theorem oversized_rejected (L F M : Nat) (h : F + M ≥ L) (ns : List Nat) (last : Nat)
    (hl : min (F + M) L ≤ last) : (firstVerdict L F M (ns ++ [last])).isReject = true := by
  have hlast : L ≤ last := by omega
  induction ns with
  | nil =>
    simp only [List.nil_append, firstVerdict]
    unfold parseAt
    by_cases h1 : last < F
    · simp [h1, hlast, Verdict.isReject]
    · by_cases h2 : last ≥ F + M
      · simp [h1, h2, h, Verdict.isReject]
      · have : (last - F) + F ≥ L := by omega
        simp [h1, h2, this, Verdict.isReject]
  | cons n rest ih =>
    simp only [List.cons_append, firstVerdict]
    cases hp : parseAt L F M n with
    | needMore => simpa using ih
    | accept =>
      exfalso
      unfold parseAt at hp
      repeat' split at hp
      all_goals (first | cases hp | omega)
    | uriTooLong => rfl
    | headerTooLarge => rfl

/-- Acceptance means the head is under the limit, for every segmentation. -/
theorem accepted_is_under_limit (L F M : Nat) (ns : List Nat) (h : firstVerdict L F M ns = .accept) : F + M < L := by
  by_cases hlt : F + M < L
  · exact hlt
  · exact absurd h (oversized_never_accepted L F M (by omega) ns)

/-- A head under the limit is accepted as soon as it has arrived completely, whatever the earlier partial arrivals. -/
theorem undersized_accepted (L F M : Nat) (h : F + M < L) (ns : List Nat) (hn : ∀ n ∈ ns, n < F + M) :
    firstVerdict L F M (ns ++ [F + M]) = .accept := by
  induction ns with
  | nil =>
    have h1 : ¬ (F + M < F) := by omega
    have h2 : ¬ (F + M ≥ L) := by omega
    simp [firstVerdict, parseAt, h1, h2]
  | cons n rest ih =>
    have hn' := hn n (by simp)
    simp only [List.cons_append, firstVerdict]
    have : parseAt L F M n = .needMore := by
      unfold parseAt; repeat' split
      all_goals (first | rfl | omega)
    rw [this]
    exact ih (fun m hm => hn m (by simp [hm]))

/-- A reply head of `H ≥ R` bytes is not relayed. -/
theorem oversized_reply_not_relayed (R H : Nat) (h : H ≥ R) : replyRelayed R H = false := by
  simp [replyRelayed]; omega

-- non-vacuity
example : firstVerdict 100 20 90 [10, 50, 100] = .headerTooLarge := by decide
example : firstVerdict 100 120 10 [10, 50, 100] = .uriTooLong := by decide
example : firstVerdict 100 20 70 [10, 50, 90] = .accept := by decide

end SquidModel.C62
