/-
C61 — Cache manager enforces access rules and passwords (partial: decision logic; the binary is tied to it end to end).
All theorems are for every password list, every action table, every action name and every supplied password.
-/
import SquidModel.Mgr.Auth

namespace SquidModel.C61
open SquidModel.Mgr

/-- Report content is produced only when http_access allowed the client for the manager ACL, the action exists, and
either the action is public (no entry and not password-protected by default, or `none`), or the supplied password is
non-empty and equals the configured one. -/
theorem report_only_if_allowed_and_password_ok (acc : Bool) (known : List Action) (pws : List PwEntry) (action supplied : Bytes)
    (h : decideMgr acc known pws action supplied = .report) :
    acc = true ∧ ∃ a ∈ known, a.name = action ∧
      ((passwdGet pws action = none ∧ a.pwReq = false) ∨ passwdGet pws action = some noneTok ∨
       (∃ p, passwdGet pws action = some p ∧ p ≠ disableTok ∧ p ≠ noneTok ∧ supplied ≠ [] ∧ supplied = p)) := by
  unfold decideMgr at h
  cases acc with
  | false => simp at h
  | true =>
    refine ⟨rfl, ?_⟩
    simp only [Bool.not_true, Bool.false_eq_true, ↓reduceIte] at h
    split at h
    · cases h
    · rename_i a ha
      have hmem := List.mem_of_find?_eq_some ha
      have hname : a.name = action := by
        have := List.find?_some ha
        simpa using this
      refine ⟨a, hmem, hname, ?_⟩
      unfold protection checkPasswordRefuses at h
      cases hp : passwdGet pws action with
      | none =>
        simp only [hp] at h
        cases hq : a.pwReq with
        | false => left; exact ⟨rfl, rfl⟩
        | true => simp [hq] at h
      | some p =>
        simp only [hp] at h
        by_cases hd : p = disableTok
        · simp [hd] at h
        · by_cases hn : p = noneTok
          · right; left; rw [hn]
          · right; right
            simp only [hd, hn, ↓reduceIte] at h
            by_cases he : supplied.isEmpty
            · simp [he] at h
            · simp only [he, Bool.false_eq_true, ↓reduceIte] at h
              refine ⟨p, rfl, hd, hn, ?_, ?_⟩
              · intro hs; simp [hs] at he
              · by_cases heq : supplied = p
                · exact heq
                · simp [heq] at h

/-- An action disabled by configuration (`cachemgr_passwd disable <action>|all`, first matching entry) is never performed. -/
theorem disabled_never_performed (acc : Bool) (known : List Action) (pws : List PwEntry) (action supplied : Bytes)
    (hd : passwdGet pws action = some disableTok) : decideMgr acc known pws action supplied ≠ .report := by
  intro h
  obtain ⟨_, a, _, _, hc⟩ := report_only_if_allowed_and_password_ok acc known pws action supplied h
  rcases hc with ⟨hn, _⟩ | hn | ⟨p, hp, hpd, _⟩
  · rw [hd] at hn; cases hn
  · rw [hd] at hn; injection hn with hn; exact absurd hn (by decide)
  · rw [hd] at hp; injection hp with hp; exact hpd hp.symm

/-- Actions that require a password by default (shutdown, reconfigure, rotate, offline_toggle, config) are never performed
unless the configuration names a password for them. -/
theorem pwreq_without_entry_never_performed (acc : Bool) (known : List Action) (pws : List PwEntry) (action supplied : Bytes)
    (hreq : ∀ a ∈ known, a.name = action → a.pwReq = true) (hn : passwdGet pws action = none) :
    decideMgr acc known pws action supplied ≠ .report := by
  intro h
  obtain ⟨_, a, ha, hname, hc⟩ := report_only_if_allowed_and_password_ok acc known pws action supplied h
  have := hreq a ha hname
  rcases hc with ⟨_, hf⟩ | hs | ⟨p, hp, _⟩
  · rw [this] at hf; cases hf
  · rw [hn] at hs; cases hs
  · rw [hn] at hp; cases hp

/-- A request the manager ACL denies never gets report content. -/
theorem denied_never_reports (known : List Action) (pws : List PwEntry) (action supplied : Bytes) :
    decideMgr false known pws action supplied = .denied403 := by
  simp [decideMgr]

/-- `PasswdGet` is first-match: an earlier entry naming the action (or `all`) shadows later ones. -/
theorem passwd_first_match (e : PwEntry) (rest : List PwEntry) (action : Bytes)
    (h : action ∈ e.actions ∨ allTok ∈ e.actions) : passwdGet (e :: rest) action = some e.passwd := by
  unfold passwdGet
  have : (e.actions.any fun w => w == action || w == allTok) = true := by
    rcases h with h | h
    · exact List.any_eq_true.mpr ⟨action, h, by simp⟩
    · exact List.any_eq_true.mpr ⟨allTok, h, by simp⟩
  simp [this]

-- non-vacuity: "info" public, "config" needs the password "s3", "shutdown" disabled
example : decideMgr true [⟨[105,110,102,111], false⟩] [] [105,110,102,111] [] = .report := by decide
example : decideMgr true [⟨[99], true⟩] [⟨[115,51], [[99]]⟩] [99] [115,51] = .report := by decide
example : decideMgr true [⟨[99], true⟩] [⟨[115,51], [[99]]⟩] [99] [115] = .unauthorized401 := by decide
example : decideMgr true [⟨[99], true⟩] [⟨disableTok, [allTok]⟩, ⟨[115,51], [[99]]⟩] [99] [115,51] = .notFound404 := by decide

end SquidModel.C61
