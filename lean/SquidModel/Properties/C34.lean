/-
C34 — Each transaction yields exactly one well-delimited log record (partial: the quoting functions and the assembly of one
record; that squid calls the logger exactly once per finished transaction is covered by the end-to-end scenarios only).

Model: `SquidModel.Log.Quote` (log_quoted_string, Format::QuoteMimeBlob, rfc1738_do_escape, strwordquote, the quoting switch
at the end of Format::assemble, Log::Format::SquidCustom). All statements are for every byte string, no length bound.

Limits of the statement, by construction of `Format::assemble`:
  * `%'code` (LOG_QUOTE_RAW) copies the value as it is — raw is "no quoting" by definition (`raw_quoting_counterexample`);
  * a %code whose `case` does not set `quote = 1` is not quoted under the default style (`if (quote || fmt->quote != LOG_QUOTE_NONE)`).
    Until /repo commit a3f7a36 that included the client-chosen user name (%un, %ul, %ue): `prefix_unquoted_field_counterexample`.
    The user name codes ask for quoting now (`user_name_asks_quote`, regenerated from the source on every run) and
    `user_name_field_well_delimited` holds at full strength; the remaining non-asking codes carry numbers, addresses and
    squid-generated tokens (list in Gen/LogQuoting.lean).
`record_is_one_line` carries the hypothesis that every %code is either quoted (explicitly, or by default because the field
asked for it) or holds a value without LF; the separator theorems are per quoting style.
-/
import SquidModel.Log.Lemmas

namespace SquidModel.C34
open SquidModel.Log SquidModel.Gen.LogQuoting

/-! ### reversibility of the four named quotings -/

theorem quoted_string_reversible (s : Bytes) : unQuotedString (quotedString s) = s :=
  decode_flatMap false true quotedByte quoted_shape s

theorem mime_blob_reversible (s : Bytes) : unMimeBlob (mimeBlob s) = s :=
  decode_flatMap true true mimeByte mime_shape s

theorem url_quoting_reversible (s : Bytes) : unUrl (urlQuote s) = s :=
  decode_flatMap true false (rfc1738Byte flagsEscape) url_shape s

theorem shell_quoting_reversible (s : Bytes) : unWord (wordQuote s) = s := by
  unfold wordQuote
  split
  · simp only [unWord, List.dropLast_concat]
    exact decode_flatMap false true wordByte word_shape s
  · have hd : ∀ r, s.flatMap wordByte ≠ 34 :: r := by
      intro r hr
      cases s with
      | nil => simp at hr
      | cons b t =>
        have hb := word_head b
        have hsh := word_shape b
        simp only [List.flatMap_cons] at hr
        generalize wordByte b = e at hb hsh hr
        cases e with
        | nil => simp [shapeOk] at hsh
        | cons x xs =>
          simp only [List.cons_append, List.cons.injEq] at hr
          simp [hr.1] at hb
    unfold unWord
    split
    · rename_i r heq; exact absurd heq (hd r)
    · exact decode_flatMap false true wordByte word_shape s

/-- consequence: all four are injective -/
theorem quotings_injective (s t : Bytes) :
    (quotedString s = quotedString t → s = t) ∧ (mimeBlob s = mimeBlob t → s = t) ∧
    (urlQuote s = urlQuote t → s = t) ∧ (wordQuote s = wordQuote t → s = t) := by
  refine ⟨fun h => ?_, fun h => ?_, fun h => ?_, fun h => ?_⟩
  · rw [← quoted_string_reversible s, ← quoted_string_reversible t, h]
  · rw [← mime_blob_reversible s, ← mime_blob_reversible t, h]
  · rw [← url_quoting_reversible s, ← url_quoting_reversible t, h]
  · rw [← shell_quoting_reversible s, ← shell_quoting_reversible t, h]

/-- the default quoting (`rfc1738_escape_unescaped`, `%` left alone) is *not* reversible: `%20` and a space collide -/
theorem default_quoting_not_injective : defaultQuote [37, 50, 48] = defaultQuote [32] := by decide

/-! ### no raw line breaks -/

theorem wordQuote_contains (d : UInt8) (hd : d ≠ 34) (s : Bytes) (h : (s.flatMap wordByte).contains d = false) :
    (wordQuote s).contains d = false := by
  unfold wordQuote
  split
  · simp only [List.contains_eq_mem, List.mem_cons, List.mem_append, List.mem_singleton, decide_eq_false_iff_not] at h ⊢
    rintro (h1 | h2 | h3)
    · exact hd h1
    · exact h h2
    · rcases h3 with h3 | h3
      · exact hd h3
      · cases h3
  · exact h

/-- Whatever the value, a quoted field (any style but raw) contains neither LF nor CR. -/
theorem no_raw_CR_LF (needs : Bool) (q : Quoting) (v : Bytes) (hq : q ≠ .raw) (hn : needs = true ∨ q ≠ .none) :
    (field needs q (some v)).contains 10 = false ∧ (field needs q (some v)).contains 13 = false := by
  unfold field
  simp only
  split
  · decide
  · have hcond : (needs || q != .none) = true := by
      rcases hn with h | h
      · simp [h]
      · simp [h]
    simp only [hcond, if_true]
    cases q with
    | none => exact ⟨avoids_flatMap _ _ default_avoids 10 (by simp) v, avoids_flatMap _ _ default_avoids 13 (by simp) v⟩
    | quotes => exact ⟨avoids_flatMap _ _ quoted_avoids 10 (by simp) v, avoids_flatMap _ _ quoted_avoids 13 (by simp) v⟩
    | mimeblob => exact ⟨avoids_flatMap _ _ mime_avoids 10 (by simp) v, avoids_flatMap _ _ mime_avoids 13 (by simp) v⟩
    | url => exact ⟨avoids_flatMap _ _ url_avoids 10 (by simp) v, avoids_flatMap _ _ url_avoids 13 (by simp) v⟩
    | shell =>
      exact ⟨wordQuote_contains 10 (by decide) v (avoids_flatMap _ _ word_avoids 10 (by simp) v),
             wordQuote_contains 13 (by decide) v (avoids_flatMap _ _ word_avoids 13 (by simp) v)⟩
    | raw => exact absurd rfl hq

/-- a %code as it appears in a format, judged for line safety: quoted in some non-raw style, or holding no LF anyway -/
def tokSafe : Tok → Prop
  | .text b => b.contains 10 = false
  | .code needs q out => (q ≠ .raw ∧ (needs = true ∨ q ≠ .none)) ∨ (out.getD []).contains 10 = false

theorem field_no_lf (needs : Bool) (q : Quoting) (out : Option Bytes) (h : tokSafe (.code needs q out)) :
    (field needs q out).contains 10 = false := by
  cases out with
  | none => simp [field]
  | some v =>
    rcases h with ⟨hq, hn⟩ | hv
    · exact (no_raw_CR_LF needs q v hq hn).1
    · simp only [Option.getD_some] at hv
      unfold field
      simp only
      split
      · decide
      · split
        · cases q with
          | none => exact avoids_flatMap _ _ default_avoids 10 (by simp) v
          | quotes => exact avoids_flatMap _ _ quoted_avoids 10 (by simp) v
          | mimeblob => exact avoids_flatMap _ _ mime_avoids 10 (by simp) v
          | url => exact avoids_flatMap _ _ url_avoids 10 (by simp) v
          | shell => exact wordQuote_contains 10 (by decide) v (avoids_flatMap _ _ word_avoids 10 (by simp) v)
          | raw => exact hv
        · exact hv

/-- One record is one line: if the literal text of the format has no LF and every %code is line-safe, the record written for a
transaction contains exactly one LF, its last byte. -/
theorem record_is_one_line (fmt : List Tok) (h : ∀ t ∈ fmt, tokSafe t) :
    (record fmt).count 10 = 1 ∧ (record fmt).getLast? = some 10 := by
  have hno : (assemble fmt).contains 10 = false := by
    unfold assemble
    induction fmt with
    | nil => simp
    | cons t ts ih =>
      simp only [List.flatMap_cons, List.contains_eq_mem, List.mem_append, decide_eq_false_iff_not, not_or]
      constructor
      · have ht := h t (List.mem_cons_self ..)
        cases t with
        | text b => simpa [tokSafe] using ht
        | code n q o => simpa using field_no_lf n q o ht
      · simpa using ih (fun t' ht' => h t' (List.mem_cons_of_mem _ ht'))
  constructor
  · simp only [record, List.count_append]
    have : (assemble fmt).count 10 = 0 := by
      rw [List.count_eq_zero]
      simpa using hno
    simp [this]
  · simp [record]

/-! ### no field separator / well-delimited fields, per style -/

/-- default and URL quoting: no space (nor TAB, nor double quote) survives: the field is one blank-delimited word -/
theorem no_raw_separator_default_url (v : Bytes) :
    (defaultQuote v).contains 32 = false ∧ (urlQuote v).contains 32 = false ∧
    (defaultQuote v).contains 9 = false ∧ (urlQuote v).contains 9 = false :=
  ⟨avoids_flatMap _ _ default_avoids 32 (by simp) v, avoids_flatMap _ _ url_avoids 32 (by simp) v,
   avoids_flatMap _ _ default_avoids 9 (by simp) v, avoids_flatMap _ _ url_avoids 9 (by simp) v⟩

/-- mime-blob quoting is delimited by the brackets the format puts around it: no `[`, `]` inside -/
theorem mime_blob_bracket_delimited (v : Bytes) : (mimeBlob v).contains 93 = false ∧ (mimeBlob v).contains 91 = false :=
  ⟨avoids_flatMap _ _ mime_avoids 93 (by simp) v, avoids_flatMap _ _ mime_avoids 91 (by simp) v⟩

/-- quoted-string quoting is delimited by the double quotes the format puts around it: a reader that stops at the first
unescaped `"` reads exactly the quoted value, whatever follows -/
theorem quoted_string_quote_delimited (v rest : Bytes) : scanQuoted (quotedString v ++ 34 :: rest) = (quotedString v, rest) :=
  scanQuoted_flatMap quotedByte quoted_scan rest v

/-- shell quoting: a word with a space is wrapped in quotes and read back by the same reader; a word without a space contains none -/
theorem shell_word_delimited (v rest : Bytes) :
    (v.contains 32 = true → ∃ body, wordQuote v = 34 :: (body ++ [34]) ∧ scanQuoted (body ++ 34 :: rest) = (body, rest)) ∧
    (v.contains 32 = false → (wordQuote v).contains 32 = false) := by
  constructor
  · intro h
    exact ⟨v.flatMap wordByte, by rw [wordQuote, if_pos h], scanQuoted_flatMap wordByte word_scan rest v⟩
  · intro h
    simp only [wordQuote, h, Bool.false_eq_true, if_false]
    induction v with
    | nil => simp
    | cons b t ih =>
      simp only [List.contains_cons, Bool.or_eq_false_iff] at h
      simp only [List.flatMap_cons, List.contains_eq_mem, List.mem_append, decide_eq_false_iff_not, not_or]
      constructor
      · have := word_space b
        have hb : (b == 32) = false := by
          have h1 := h.1
          cases hbb : b == 32
          · rfl
          · have : b = 32 := by simpa using hbb
            subst this
            simp at h1
        rw [hb] at this
        simpa using this
      · simpa using ih h.2

/-! ### where the full statement fails (by construction of Format::assemble) -/

/-- `%'code`: raw quoting copies a line break -/
theorem raw_quoting_counterexample : field true .raw (some [97, 10, 98]) = [97, 10, 98] := by decide

/-- Pre-fix counterexample (labelled; tree before a3f7a36, where the `case` of %un did not set `quote`): a %code that does not ask
for quoting is copied unquoted under the default style: the user name `a b` yielded two fields. Still true of `field false`. -/
theorem prefix_unquoted_field_counterexample : field false .none (some [97, 32, 98]) = [97, 32, 98] := by decide

/-! ### the user name codes in the tree as it is -/

/-- regenerated from `case LFT_USER_NAME` of Format::assemble: the field asks for quoting -/
theorem user_name_asks_quote : userNameAsksQuote = true := rfl

/-- Whatever the user name and whatever style but raw: the %un field contains no line break, and under the default / URL style no blank. -/
theorem user_name_field_well_delimited (q : Quoting) (u : Bytes) (hq : q ≠ .raw) :
    (field userNameAsksQuote q (some u)).contains 10 = false ∧ (field userNameAsksQuote q (some u)).contains 13 = false ∧
    (q = .none ∨ q = .url → (field userNameAsksQuote q (some u)).contains 32 = false) := by
  have h := no_raw_CR_LF userNameAsksQuote q u hq (Or.inl user_name_asks_quote)
  refine ⟨h.1, h.2, ?_⟩
  intro hq'
  rw [user_name_asks_quote]
  unfold field
  simp only
  split
  · decide
  · rcases hq' with rfl | rfl
    · exact (no_raw_separator_default_url u).1
    · exact (no_raw_separator_default_url u).2.1

/-! ### non-vacuity -/

example : quotedString [97, 34, 10, 92, 9] = [97, 92, 34, 92, 110, 92, 92, 92, 116] := by decide
example : mimeBlob [97, 32, 91, 13, 92, 37] = [97, 32, 37, 53, 98, 92, 114, 92, 92, 37, 50, 53] := by decide
example : urlQuote [97, 32, 37, 60] = [97, 37, 50, 48, 37, 50, 53, 37, 51, 67] := by decide
example : wordQuote [97, 32, 34] = [34, 97, 32, 92, 34, 34] := by decide
example : wordQuote [97, 9, 98] = [97, 9, 98] := by decide
example : record [.text [61], .code true .quotes (some [10]), .code false .none none] = [61, 92, 110, 45, 10] := by decide
example : tokSafe (.code false .none (some [97, 32, 98])) := Or.inr (by decide)
example : ¬ tokSafe (.code false .none (some [10])) := by
  intro h
  rcases h with ⟨_, h | h⟩ | h
  · cases h
  · exact h rfl
  · revert h; decide

end SquidModel.C34
