/-
C02 — Request bodies reach the origin byte-exactly with valid framing.

Full statement (property text): for every client request body, sent with Content-Length or chunked and split arbitrarily across
packets, the origin receives exactly the same body octets in one validly framed message; if Squid stops relaying the body early,
the upstream message is visibly incomplete (the connection closes before the declared length or the last-chunk).

What is proved here is about the relay model `SquidModel.Relay.Request` (ConnStateData::handleRequestBodyData → BodyPipe →
HttpStateData::getMoreRequestBody / the end notifications; see that file for the correspondence), for EVERY history: client reads
of any sizes, space notifications, the client going away, the start of forwarding, delivery of the pipe's notifications and upstream
writes, in any order. No bound on sizes or lengths. For identity (Content-Length) bodies the statements are about the client's
octets themselves. For chunked bodies they are about the octets the decoder model (the C24 model of TeChunkedParser::parse(), called
with the pipe's free space as payload capacity) hands over: `produced` is the concatenation of its outputs, and the production ends
successfully only when a parse() call returned true. `chunked_request_body_is_exact` connects this calling pattern (one bounded
call per event, possibly with no space at all, new octets arriving while the decoder waits for space) to the reference run of the
C24 theorems and to the grammar: for every valid chunked encoding the produced octets are exactly the encoded body.
Partial: the model cannot exhibit Comm scheduling, timeouts, adaptation, the body size policy, or retries.
-/
import SquidModel.Relay.RequestGrammar
import SquidModel.Relay.RequestChunked

namespace SquidModel.C02
open SquidModel SquidModel.Relay.Request SquidModel.Chunked.Grammar

/-- the state after the history `evs` of a request whose client framing is `cfr` -/
abbrev after (cfr : CFr) (relaxed : Bool) (pipeMax : Nat) (evs : List Ev) : Sys := run (Sys.init cfr relaxed pipeMax) evs

theorem inv_after (cfr : CFr) (relaxed : Bool) (pipeMax : Nat) (evs : List Ev) : Inv (after cfr relaxed pipeMax evs) :=
  inv_run (inv_init cfr relaxed pipeMax) evs

theorem cfr_after (cfr : CFr) (relaxed : Bool) (pipeMax : Nat) (evs : List Ev) : (after cfr relaxed pipeMax evs).cfr = cfr :=
  (run_static _ evs).1

/-- **The pipe is a FIFO without loss or duplication**: at every point, what was written upstream followed by what the pipe still
holds is exactly what was produced into the pipe, in order; thePutSize counts it. -/
theorem pipe_is_fifo (cfr : CFr) (relaxed : Bool) (pipeMax : Nat) (evs : List Ev) :
    (after cfr relaxed pipeMax evs).produced = (after cfr relaxed pipeMax evs).upBody ++ (after cfr relaxed pipeMax evs).buf ∧
    (after cfr relaxed pipeMax evs).put = (after cfr relaxed pipeMax evs).produced.length :=
  ⟨(inv_after cfr relaxed pipeMax evs).fifo, (inv_after cfr relaxed pipeMax evs).put_len⟩

/-- **Identity bodies: what is produced is a prefix of the client's octets, clipped at Content-Length** — whatever the client's
segmentation and however little space the pipe offered at each read. Hence the octets written upstream are a prefix of the first
n client octets. -/
theorem identity_body_is_client_prefix (n : Nat) (relaxed : Bool) (pipeMax : Nat) (evs : List Ev) :
    (after (.cl n) relaxed pipeMax evs).produced = (after (.cl n) relaxed pipeMax evs).clientAll.take (after (.cl n) relaxed pipeMax evs).put ∧
    (after (.cl n) relaxed pipeMax evs).put ≤ n ∧
    (after (.cl n) relaxed pipeMax evs).upBody <+: (after (.cl n) relaxed pipeMax evs).clientAll.take n :=
  cl_facts (inv_after _ relaxed pipeMax evs) n (cfr_after _ relaxed pipeMax evs)

/-- the upstream body is always a prefix of what was produced (for chunked bodies: of the decoder's output so far) -/
theorem upstream_body_is_prefix (cfr : CFr) (relaxed : Bool) (pipeMax : Nat) (evs : List Ev) :
    (after cfr relaxed pipeMax evs).upBody <+: (after cfr relaxed pipeMax evs).produced :=
  up_prefix (inv_after cfr relaxed pipeMax evs)

/-- **The last-chunk is written only after the whole body**: production ended successfully (Content-Length reached, or the
chunked decoder returned "done"), the pipe is empty, so everything produced has been written. -/
theorem last_chunk_only_after_whole_body (cfr : CFr) (relaxed : Bool) (pipeMax : Nat) (evs : List Ev)
    (hl : (after cfr relaxed pipeMax evs).sentLast = true) :
    (after cfr relaxed pipeMax evs).endedOk = true ∧ (after cfr relaxed pipeMax evs).endedBad = false ∧
    (after cfr relaxed pipeMax evs).buf = [] ∧ (after cfr relaxed pipeMax evs).upBody = (after cfr relaxed pipeMax evs).produced ∧
    (after cfr relaxed pipeMax evs).upChunked = true :=
  last_facts (inv_after cfr relaxed pipeMax evs) hl

/-- **Complete ⇒ whole and equal (identity body).** If the upstream message of a Content-Length request is complete (n body
octets were written), the client has sent at least n octets and the origin got exactly the first n of them. -/
theorem upstream_complete_implies_whole_and_equal_cl (n : Nat) (relaxed : Bool) (pipeMax : Nat) (evs : List Ev)
    (hc : (after (.cl n) relaxed pipeMax evs).upComplete = true) :
    n ≤ (after (.cl n) relaxed pipeMax evs).clientAll.length ∧
    (after (.cl n) relaxed pipeMax evs).upBody = (after (.cl n) relaxed pipeMax evs).clientAll.take n :=
  complete_cl (inv_after _ relaxed pipeMax evs) n (cfr_after _ relaxed pipeMax evs) hc

/-- **Complete ⇒ whole and equal (chunked body).** If the upstream message of a chunked request is complete — re-chunked with
the last-chunk, or sent with the Content-Length computed after the whole body had been parsed — then the decoder had returned
"done" (production ended successfully, not aborted) and the origin got exactly the decoder's whole output. -/
theorem upstream_complete_implies_whole_and_equal_chunked (relaxed : Bool) (pipeMax : Nat) (evs : List Ev)
    (hc : (after .chunked relaxed pipeMax evs).upComplete = true) :
    (after .chunked relaxed pipeMax evs).endedOk = true ∧ (after .chunked relaxed pipeMax evs).endedBad = false ∧
    (after .chunked relaxed pipeMax evs).upBody = (after .chunked relaxed pipeMax evs).produced :=
  complete_chunked (inv_after _ relaxed pipeMax evs) (cfr_after _ relaxed pipeMax evs) hc

/-- **An early stop is visible.** When the transaction was aborted upstream (the body producer was aborted: the client went away or
sent malformed chunk framing), the upstream message is incomplete by its own framing: no last-chunk was written, respectively fewer
than Content-Length octets (and by `upstream_body_is_prefix` nothing was written that was not produced). `Content-Length: 0`
requests have no body pipe in the code and are outside the model. -/
theorem early_stop_is_visible (cfr : CFr) (relaxed : Bool) (pipeMax : Nat) (evs : List Ev)
    (hpos : ∀ n, cfr = .cl n → 0 < n)
    (ha : (after cfr relaxed pipeMax evs).aborted = true) :
    (after cfr relaxed pipeMax evs).upComplete = false :=
  aborted_incomplete (inv_after cfr relaxed pipeMax evs) (fun n hn => hpos n (by rw [← cfr_after cfr relaxed pipeMax evs]; exact hn)) ha

/-- the abort itself happens only after an aborted production (client gone before the end of the body, or malformed chunks) -/
theorem abort_only_after_aborted_production (cfr : CFr) (relaxed : Bool) (pipeMax : Nat) (evs : List Ev)
    (ha : (after cfr relaxed pipeMax evs).aborted = true) :
    (after cfr relaxed pipeMax evs).endedBad = true ∧ (after cfr relaxed pipeMax evs).endedOk = false := by
  have h := inv_after cfr relaxed pipeMax evs
  have hb := h.abort_ok ha
  refine ⟨hb, ?_⟩
  cases ho : (after cfr relaxed pipeMax evs).endedOk
  · rfl
  · have := (h.ok_bad ho).1; rw [hb] at this; simp at this

/-- **A whole body is relayed whole**: once the sender has finished (sendComplete()), the upstream message is complete by its own
framing and carries everything that was produced. -/
theorem finished_sender_sent_everything (cfr : CFr) (relaxed : Bool) (pipeMax : Nat) (evs : List Ev)
    (hd : (after cfr relaxed pipeMax evs).done = true) :
    (after cfr relaxed pipeMax evs).upComplete = true ∧
    (after cfr relaxed pipeMax evs).upBody = (after cfr relaxed pipeMax evs).produced ∧
    (after cfr relaxed pipeMax evs).endedOk = true :=
  done_facts (inv_after cfr relaxed pipeMax evs) hd

/-- **Squid's chunked upstream output is in the grammar**: a completed re-chunked request body (`%x CRLF data CRLF` per write,
then `0 CRLF CRLF`) is a chunked encoding — in the sense of the C24 grammar, strict BWS — of exactly the octets written; no
write is empty. (The size bound holds for every write because a write carries at most the pipe's capacity.) -/
theorem chunked_upstream_wire_is_in_grammar (cfr : CFr) (relaxed : Bool) (pipeMax : Nat) (evs : List Ev)
    (hl : (after cfr relaxed pipeMax evs).sentLast = true)
    (hsz : ∀ p ∈ (after cfr relaxed pipeMax evs).pieces, p.length < 2 ^ 63) :
    Encodes false (after cfr relaxed pipeMax evs).upBody (after cfr relaxed pipeMax evs).upWire := by
  have h := inv_after cfr relaxed pipeMax evs
  have hne := pieces_nonempty_run (s := Sys.init cfr relaxed pipeMax) (by simp [Sys.init]) evs
  exact upWire_encodes _ (h.last_ok hl).2.2 hl (fun p hp => ⟨hne p hp, hsz p hp⟩)

/-- **Chunked requests are decoded exactly.** Whatever valid chunked encoding `enc` of `body` the client sends (any chunk sizes,
hex case, extensions, trailers), in whatever segmentation, followed by whatever, with whatever space the pipe offers at each
parse() call (the consumer may be arbitrarily slow): if the production ended successfully, the octets put into the pipe are exactly
`body`. Hypothesis: the tree's decoder has no parse checkpoint between chunk extensions (the generated flag; true of the tree, see
C24 `no_commit_between_extensions`). -/
theorem chunked_request_body_is_exact (hx : Gen.ChunkedSets.extCommit = false) (relaxed : Bool) (pipeMax : Nat) (evs : List Ev)
    (body enc extra : Bytes) (henc : Encodes relaxed body enc)
    (hall : (after .chunked relaxed pipeMax evs).clientAll = enc ++ extra)
    (ho : (after .chunked relaxed pipeMax evs).endedOk = true) :
    (after .chunked relaxed pipeMax evs).produced = body := by
  rcases chunked_production_is_reference hx relaxed pipeMax evs ho with ⟨p, rest, a, b⟩ | ⟨p, rest, a, b, c⟩
  · exact absurd b (reference_exact relaxed body enc extra p rest henc (by rw [← a]; exact hall)).1
  · rw [← c]
    exact (reference_exact relaxed body enc extra p rest henc (by rw [← a]; exact hall)).2 b

/-- … and so a complete upstream message of a chunked request carries exactly the body the client encoded -/
theorem chunked_request_complete_is_exact (hx : Gen.ChunkedSets.extCommit = false) (relaxed : Bool) (pipeMax : Nat) (evs : List Ev)
    (body enc extra : Bytes) (henc : Encodes relaxed body enc)
    (hall : (after .chunked relaxed pipeMax evs).clientAll = enc ++ extra)
    (hc : (after .chunked relaxed pipeMax evs).upComplete = true) :
    (after .chunked relaxed pipeMax evs).upBody = body := by
  obtain ⟨hok, _, hub⟩ := upstream_complete_implies_whole_and_equal_chunked relaxed pipeMax evs hc
  rw [hub]
  exact chunked_request_body_is_exact hx relaxed pipeMax evs body enc extra henc hall hok

/-! ## non-vacuity -/

/-- Content-Length 5, the client writes `ab`, `cde` + one octet too many; forwarding starts after the first read: the origin gets
`abcde`, the sender finishes, the extra octet stays in the client-side buffer -/
example :
    let s := run (Sys.init (.cl 5) true 65536) [.client [97, 98], .start, .send, .client [99, 100, 101, 102], .send, .notify]
    s.upBody = [97, 98, 99, 100, 101] ∧ s.upComplete = true ∧ s.done = true ∧ s.inBuf = [102] ∧ s.upWire = [97, 98, 99, 100, 101] := by decide
/-- the client goes away after `ab`: the upstream message is aborted with 2 of 5 octets -/
example :
    let s := run (Sys.init (.cl 5) true 65536) [.client [97, 98], .start, .send, .clientGone, .notify]
    s.upBody = [97, 98] ∧ s.aborted = true ∧ s.upComplete = false := by decide
/-- a pipe of capacity 3: the 5 octets pass in pieces as the consumer makes room -/
example :
    let s := run (Sys.init (.cl 5) true 3) [.client [97, 98, 99, 100, 101], .start, .send, .space, .send, .notify]
    s.pieces = [[97, 98, 99], [100, 101]] ∧ s.done = true := by decide
/-- a chunked request `2 CRLF ab CRLF 0 CRLF CRLF` split inside the first chunk: re-chunked upstream, last-chunk after the end -/
example :
    let s := run (Sys.init .chunked true 65536) [.client [50, 13, 10, 97], .start, .send, .client [98, 13, 10, 48, 13, 10, 13, 10], .send, .notify]
    s.upBody = [97, 98] ∧ s.upChunked = true ∧ s.sentLast = true ∧ s.done = true ∧
    s.upWire = [49, 13, 10, 97, 13, 10, 49, 13, 10, 98, 13, 10, 48, 13, 10, 13, 10] := by decide
/-- the same request arriving in one read before forwarding starts: sent with the computed Content-Length -/
example :
    let s := run (Sys.init .chunked true 65536) [.client [50, 13, 10, 97, 98, 13, 10, 48, 13, 10, 13, 10], .start, .send, .notify]
    s.upBody = [97, 98] ∧ s.upChunked = false ∧ s.size = some 2 ∧ s.upComplete = true ∧ s.done = true := by decide
/-- malformed chunk framing (`2 CRLF ab X`): the producer is aborted, no last-chunk -/
example :
    let s := run (Sys.init .chunked true 65536) [.client [50, 13, 10, 97], .start, .send, .client [98, 88, 89], .send, .notify]
    s.aborted = true ∧ s.sentLast = false ∧ s.upBody = [97] := by decide

end SquidModel.C02
