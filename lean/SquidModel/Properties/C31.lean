/-
C31 — Percent-encoding round-trips.

"Decoding the percent-encoding of any byte string gives back that byte string, and the encoded form contains only
unreserved or explicitly ignored characters plus well-formed %XX triplets. Legacy URL escaping followed by unescaping
returns the original for any NUL-free string, and unescaping never writes past the input."

Property theorems only. Models: `SquidModel.Pct.Uri` (`AnyP::Uri::Encode/Decode` over the tokenizer model `Pct.Tok`),
`SquidModel.Pct.Rfc1738` (`rfc1738_do_escape` with its static buffer, `rfc1738_unescape` with its two indices).
Lemmas: `Pct.UriLemmas`, `Pct.Rfc1738Lemmas`. Regenerated data: `Gen.CharSets` (RFC3986_UNRESERVED), `Gen.UriSets`
(PathChars, UserInfoChars), `Gen.Rfc1738` (the two static tables, flag values, signedness of `char`).
All statements are for every byte string: no length bound.

Scope of the statement, made explicit as hypotheses and delimited by proved counterexamples:
* `Encode(x, ignore)` round-trips when `'%' ∉ ignore` (or `x` has no `%`); `PathChars()`/`UserInfoChars()` contain `%`
  on purpose (already-encoded input is kept), see `decode_encode_counterexample_pct_ignored`;
* `rfc1738_do_escape` round-trips for flag sets that escape `%` (UNSAFE without NOPERCENT: `rfc1738_escape`,
  `rfc1738_escape_part`), see `unescape_escape_counterexample_nopercent` / `_no_unsafe`.
-/
import SquidModel.Pct.UriLemmas
import SquidModel.Pct.Rfc1738Lemmas
import SquidModel.Gen.CharSets
import SquidModel.Gen.UriSets
import SquidModel.Base.Finite

namespace SquidModel.C31
open SquidModel.Pct SquidModel.Pct.Rfc1738 SquidModel.Gen.Rfc1738

/-! ## RFC 3986 coding: `AnyP::Uri::Encode` / `AnyP::Uri::Decode` -/

/-- The tokenizer loop of `Encode` (fast path, `goodSection` prefixes, one triplet per loop iteration) computes the
byte-wise encoding: ignored octets are copied, every other octet becomes its `%XX` triplet. -/
theorem encode_is_bytewise (ig : CharSet) (s : Bytes) : encode ig s = encodeSpec ig s :=
  encode_eq_spec ig s

/-- The tokenizer loop of `Decode` is the strict decoder: `%` + two hex digits → that octet, any other `%` → `nullopt`,
everything else copied. -/
theorem decode_is_strict (s : Bytes) : decode s = decodeSpec s :=
  decode_eq_spec s

/-- Decoding the percent-encoding of any byte string gives back that byte string, whenever `%` itself is not left raw:
the ignore set lacks `%`, or the string has no `%`.
Full statement (false for ignore sets containing `%`, see `decode_encode_counterexample_pct_ignored`):
  `∀ ig s, decode (encode ig s) = some s`. -/
theorem decode_encode_partial (ig : CharSet) (s : Bytes) (h : ig.mem 37 = false ∨ 37 ∉ s) :
    decode (encode ig s) = some s := by
  rw [decode_eq_spec, encode_eq_spec]
  exact decodeSpec_encodeSpec ig s h

/-- … in particular for the set `ErrorState::Dump` uses (regenerated `CharacterSet::RFC3986_UNRESERVED()`). -/
theorem decode_encode_unreserved (s : Bytes) :
    decode (encode Gen.CharSets.RFC3986_UNRESERVED s) = some s :=
  decode_encode_partial _ s (Or.inl (by decide))

/-- `DecodeOrDupe` undoes `Encode` under the same condition. -/
theorem decodeOrDupe_encode (ig : CharSet) (s : Bytes) (h : ig.mem 37 = false ∨ 37 ∉ s) :
    decodeOrDupe (encode ig s) = s := by
  simp [decodeOrDupe, decode_encode_partial ig s h]

/-- The encoded form contains only explicitly ignored octets and well-formed upper-case `%XX` triplets (any ignore set). -/
theorem encode_alphabet (ig : CharSet) (s : Bytes) : encodedForm ig (encode ig s) = true := by
  rw [encode_eq_spec]; exact encodedForm_encodeSpec ig s

/-- Encoding is injective when `%` is not ignored. -/
theorem encode_injective (ig : CharSet) (h : ig.mem 37 = false) (s t : Bytes) (e : encode ig s = encode ig t) : s = t := by
  have hs := decode_encode_partial ig s (Or.inl h)
  have ht := decode_encode_partial ig t (Or.inl h)
  rw [e, ht] at hs
  exact (Option.some.inj hs).symm

/-- A string made of ignored octets only is returned unchanged (what the fast path relies on). -/
theorem encode_fixes_members (ig : CharSet) (s : Bytes) (h : ∀ b ∈ s, ig.mem b = true) : encode ig s = s := by
  rw [encode_eq_spec]; exact encodeSpec_members ig s h

/-- The output fits the `buf.length() * 3` octets `Encode` reserves. -/
theorem encode_length_le (ig : CharSet) (s : Bytes) : (encode ig s).length ≤ 3 * s.length := by
  rw [encode_eq_spec]; exact encodeSpec_length_le ig s

/-- `Decode` accepts exactly the well-formed inputs: it returns `nullopt` iff some `%` is not followed by two hex digits. -/
theorem decode_accepts_iff_wellformed (s : Bytes) : (decode s).isSome = pctWellFormed s := by
  rw [decode_eq_spec]; exact decodeSpec_isSome s

/-- Decoding never lengthens. -/
theorem decode_length_le (s d : Bytes) (h : decode s = some d) : d.length ≤ s.length := by
  rw [decode_eq_spec] at h; exact decodeSpec_length_le s d h

/-- Whatever `Encode` produces with an ignore set lacking `%` is accepted by `Decode`. -/
theorem encode_wellformed (ig : CharSet) (s : Bytes) (h : ig.mem 37 = false) : pctWellFormed (encode ig s) = true := by
  rw [← decode_accepts_iff_wellformed, decode_encode_partial ig s (Or.inl h)]; rfl

/-- What holds instead when `%` and the hex digits are ignored (the reason `PathChars()` contains `%`): encoding is
idempotent, already-encoded text is not encoded twice. -/
theorem encode_idempotent_pct_ignored (ig : CharSet) (hp : ig.mem 37 = true)
    (hh : ∀ n : Fin 16, ig.mem (hexUpper n.val) = true) (s : Bytes) : encode ig (encode ig s) = encode ig s := by
  rw [encode_eq_spec, encode_eq_spec]; exact encodeSpec_idempotent ig hp hh s

theorem encode_path_idempotent (s : Bytes) : encode Gen.UriSets.PATH (encode Gen.UriSets.PATH s) = encode Gen.UriSets.PATH s :=
  encode_idempotent_pct_ignored _ (by decide) (by decide) s

/-- Outside the statement: with `%` in the ignore set (the regenerated `PathChars()`, used by `Uri::absolutePath()`),
`"%41"` is kept as it is and decodes to `"A"`. -/
theorem decode_encode_counterexample_pct_ignored :
    Gen.UriSets.PATH.mem 37 = true ∧
    encode Gen.UriSets.PATH [37, 52, 49] = [37, 52, 49] ∧
    decode (encode Gen.UriSets.PATH [37, 52, 49]) = some [65] := by decide

/-- … and a lone `%` is kept raw, so the result is not even decodable. -/
theorem decode_encode_counterexample_pct_ignored_reject :
    decode (encode Gen.UriSets.USERINFO [37]) = none := by decide

/-! ## legacy coding: `rfc1738_do_escape` / `rfc1738_unescape` -/

/-- `rfc1738_do_escape` never stores outside its static buffer: for every previous state of the buffer that satisfies the
size invariant (`bufsize = 3n + 1`, what every allocation establishes), every flag set and every NUL-free string, all stores of
the copying loop (including the `snprintf` ones and the final terminator) are inside the buffer (the model returns `some`),
the invariant is kept, and the C string left in the buffer is the byte-wise escaping `escape flags url`. -/
theorem escape_fits_buffer (old : Option (List UInt8)) (flags : Nat) (url : Bytes) (hinv : BufInv old)
    (hs : ∀ x ∈ url, x ≠ 0) :
    ∃ buf', escapeCall old flags url = some buf' ∧ BufInv (some buf') ∧ cstr buf' = escape flags url :=
  escapeCall_spec old flags url hinv hs

/-- the first call (`buf == NULL`) satisfies the invariant -/
theorem escape_first_call_inv : BufInv none := by intro b h; cases h

/-- `rfc1738_unescape` never writes (or reads) outside the string it is given: run on a memory that holds the NUL-free
string `s`, its terminator and arbitrary further octets `tl`, every load and store of the loop is inside that memory
(the model returns `some`); the result is the C string `unescape s`, not longer than `s`; the memory keeps its size;
everything behind the result's terminator is untouched, in particular `tl`, the memory behind the input's terminator. -/
theorem unescape_in_place_safe (s tl : Bytes) (hs : ∀ x ∈ s, x ≠ 0) :
    ∃ m', unescapeInPlace (s ++ 0 :: tl) = some (m', (unescape s).length) ∧
      (unescape s).length ≤ s.length ∧
      m'.length = (s ++ 0 :: tl).length ∧
      cstr m' = unescape s ∧
      m'.drop ((unescape s).length + 1) = (s ++ 0 :: tl).drop ((unescape s).length + 1) ∧
      m'.drop (s.length + 1) = tl :=
  unescapeInPlace_full s tl hs

/-- `rfc1738_unescape` never creates a NUL inside the string (`%00` is left as it is), so the result cannot be cut short
by a decoded terminator. -/
theorem unescape_never_yields_nul (s : Bytes) (hs : ∀ x ∈ s, x ≠ 0) : ∀ x ∈ unescape s, x ≠ 0 :=
  unescape_no_nul s hs

/-- Legacy URL escaping followed by unescaping returns the original for any NUL-free string — on the list level, for
every flag set that escapes `%` (UNSAFE set, NOPERCENT clear).
Full statement (false for the other flag sets, see `unescape_escape_counterexample_nopercent` / `_no_unsafe`):
  `∀ flags s, (∀ x ∈ s, x ≠ 0) → unescape (escape flags s) = s`. -/
theorem unescape_escape_list_partial (flags : Nat) (hu : flag flags UNSAFE = true) (hp : flag flags NOPERCENT = false)
    (s : Bytes) (hs : ∀ x ∈ s, x ≠ 0) : unescape (escape flags s) = s :=
  Rfc1738.unescape_escape_list hu hp s hs

/-- The same round trip through the code-level models: `rfc1738_do_escape` into its static buffer (any earlier state),
the returned C string copied into a buffer of its own and handed to `rfc1738_unescape`: no access outside either
buffer, and the string left behind is the original. -/
theorem unescape_escape_partial (old : Option (List UInt8)) (hinv : BufInv old) (flags : Nat)
    (hu : flag flags UNSAFE = true) (hp : flag flags NOPERCENT = false) (s : Bytes) (hs : ∀ x ∈ s, x ≠ 0) :
    ∃ buf' m' n, escapeCall old flags s = some buf' ∧
      unescapeInPlace (cstr buf' ++ [0]) = some (m', n) ∧ cstr m' = s := by
  obtain ⟨buf', hrun, _, hc⟩ := escapeCall_spec old flags s hinv hs
  obtain ⟨m', hun, _, _, hcs, _, _⟩ := unescapeInPlace_full (escape flags s) [] (escape_no_nul flags s hs)
  refine ⟨buf', m', (unescape (escape flags s)).length, hrun, ?_, ?_⟩
  · rw [hc]; exact hun
  · rw [hcs]; exact Rfc1738.unescape_escape_list hu hp s hs

/-- the two public escapers inside the statement -/
theorem unescape_escape_default (s : Bytes) (hs : ∀ x ∈ s, x ≠ 0) : unescape (escape (UNSAFE ||| CTRLS) s) = s :=
  Rfc1738.unescape_escape_list (by decide) (by decide) s hs

theorem unescape_escape_part (s : Bytes) (hs : ∀ x ∈ s, x ≠ 0) : unescape (escape ALL s) = s :=
  Rfc1738.unescape_escape_list (by decide) (by decide) s hs

/-- Outside the statement: `rfc1738_escape_unescaped` (NOPERCENT) leaves `"%41"` alone, and unescaping gives `"A"`. -/
theorem unescape_escape_counterexample_nopercent :
    escape UNESCAPED [37, 52, 49] = [37, 52, 49] ∧ unescape (escape UNESCAPED [37, 52, 49]) = [65] := by decide

/-- Outside the statement: without UNSAFE the `%` is not escaped either (e.g. `rfc1738_do_escape(buf, 0)`,
RESERVED|CTRLS). -/
theorem unescape_escape_counterexample_no_unsafe :
    unescape (escape 0 [37, 52, 49]) = [65] ∧ unescape (escape (RESERVED ||| CTRLS) [37, 52, 49]) = [65] := by decide

/-- The NOPERCENT variants are idempotent instead (their purpose: do not double-escape). -/
theorem escape_nopercent_idempotent (flags : Nat) (hp : flag flags NOPERCENT = true) (s : Bytes) :
    escape flags (escape flags s) = escape flags s :=
  escape_idempotent_list hp s

/-- The escaped form never exceeds three octets per input octet (the `strlen(url) * 3 + 1` allocation). -/
theorem escape_length_le (flags : Nat) (s : Bytes) : (escape flags s).length ≤ 3 * s.length :=
  Rfc1738.escape_length_le flags s

/-- the raw octets `rfc1738_escape_part` (RFC1738_ESCAPE_ALL) may leave: letters, digits and `! $ ( ) * + , - . _` -/
def urlSafe : CharSet := CharSet.ofBytes
  ((List.range 26).map (fun i => UInt8.ofNat (65 + i)) ++ (List.range 26).map (fun i => UInt8.ofNat (97 + i)) ++
   (List.range 10).map (fun i => UInt8.ofNat (48 + i)) ++ [33, 36, 40, 41, 42, 43, 44, 45, 46, 95])

theorem doEscape_all_safe : ∀ b : UInt8, (doEscape ALL b || urlSafe.mem b) = true :=
  forall_octet _ (by decide +kernel)

/-- With the regenerated tables, the fully escaped form (`rfc1738_escape_part`) consists of `urlSafe` octets and
well-formed upper-case `%XX` triplets only: no space, control or 8-bit octet, no `%`, quote, angle bracket, and none
of the reserved `; / ? : @ = &` is left raw. -/
theorem escape_part_alphabet (s : Bytes) : encodedForm urlSafe (escape ALL s) = true := by
  apply encodedForm_escape
  intro b hb
  have := doEscape_all_safe b
  simpa [hb] using this

/-- raw octets the default escaper (`rfc1738_escape` = UNSAFE|CTRLS) may leave: `urlSafe` and the reserved characters -/
def urlSafeOrReserved : CharSet := urlSafe + CharSet.ofBytes reservedChars

theorem doEscape_default_safe : ∀ b : UInt8, (doEscape (UNSAFE ||| CTRLS) b || urlSafeOrReserved.mem b) = true :=
  forall_octet _ (by decide +kernel)

theorem escape_default_alphabet (s : Bytes) : encodedForm urlSafeOrReserved (escape (UNSAFE ||| CTRLS) s) = true := by
  apply encodedForm_escape
  intro b hb
  have := doEscape_default_safe b
  simpa [hb] using this

/-! ## non-vacuity -/

/-- hypotheses are satisfiable and the functions do something -/
example : encode Gen.CharSets.RFC3986_UNRESERVED [97, 32, 37, 255, 0] = [97, 37,50,48, 37,50,53, 37,70,70, 37,48,48] := by decide
example : decode [97, 37,50,48, 37,50,53, 37,102,70, 37,48,48] = some [97, 32, 37, 255, 0] := by decide
example : decode [37, 52] = none ∧ decode [37, 37] = none ∧ decode [37, 71, 48] = none := by decide
example : Gen.CharSets.RFC3986_UNRESERVED.mem 37 = false ∧ Gen.CharSets.RFC3986_UNRESERVED.mem 126 = true := by decide
/-- the recognisers reject what they should -/
example : encodedForm Gen.CharSets.RFC3986_UNRESERVED [37, 52] = false := by decide
example : encodedForm Gen.CharSets.RFC3986_UNRESERVED [37, 102, 102] = false := by decide   -- lower-case triplet
example : encodedForm Gen.CharSets.RFC3986_UNRESERVED [32] = false := by decide
example : pctWellFormed [37, 52, 49, 37] = false ∧ pctWellFormed [37, 52, 49] = true := by decide
example : encodedForm urlSafe [59] = false ∧ encodedForm urlSafe [37, 50, 53] = true := by decide
/-- the flag hypotheses of the round trip hold for the public escapers -/
example : flag ALL UNSAFE = true ∧ flag ALL NOPERCENT = false ∧ flag UNESCAPED NOPERCENT = true := by decide
/-- escape and in-place unescape on a concrete string: `a b%"` with a byte of foreign memory (0xEE) behind it -/
example : escapeCall none ALL [97, 32, 98, 37, 34] =
    some [97, 37,50,48, 98, 37,50,53, 37,50,50, 0, 0, 0, 0, 0] := by decide
example : unescapeInPlace [37,50,48, 37,37, 37,48,48, 37,52, 0, 0xEE] =
    some ([32, 37, 37,48,48, 37,52, 0, 37, 52, 0, 0xEE], 7) := by decide
/-- `%00`: left alone by `rfc1738_unescape`, decoded to a NUL octet by `Uri::Decode` -/
example : unescape [119, 37, 48, 48, 114] = [119, 37, 48, 48, 114] ∧ decode [119, 37, 48, 48, 114] = some [119, 0, 114] := by decide
/-- a buffer without terminator is an out-of-bounds read in the model, not a silent default -/
example : unescapeInPlace [97, 98] = none := by decide
/-- a static buffer whose size broke the `3n + 1` invariant would overflow: the invariant is needed -/
example : escapeCall (some [1, 1, 1]) ALL [32] = none := by decide
/-- signedness of `char`: with UNSAFE alone, octets ≥ 0x80 are escaped because `*src <= ' '` holds for negative chars -/
example : escape UNSAFE [0x80] = [37, 56, 48] := by decide

end SquidModel.C31
