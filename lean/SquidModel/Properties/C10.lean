/-
C10 — Cache hits reproduce one complete stored response.

partial: the statement is about the running binary (memory cache, shared memory cache, ufs/aufs/diskd files, rock slots).  Proved
here for the model all these stores share (SquidModel/Cache/Store.lean): responses are chains of slots, a slot belongs to one entry,
readers hold a lock from the hit until they are done, slots return to the free pool only when nobody holds the entry.  The model is
tied to the rebuilt squid by scenario correspondence and a direct byte-for-byte oracle (props/C10.py).  What maps mem_node pages, shm
pages, rock slots and ufs files onto "slots", and `StoreEntry::lock` / the StoreMap read lock onto "the reader list", is trusted
(the lock-free layers underneath are C53-C56).
-/
import SquidModel.Cache.StoreLemmas

namespace SquidModel.C10
open SquidModel.Cache.Store

/-- Every state reachable by ANY interleaving of writers (begin, append, finish, abort), readers (hit, copy, close), the
replacement policy (evict) and PURGE satisfies the invariant. -/
theorem reachable_inv (g : Geometry) (as : List Action) : Inv g (run g State.init as) :=
  run_inv g as (inv_init g)

/-- A hit never mixes two responses: whatever a reader has copied so far is exactly chunk 0, 1, …, idx−1 — in this order, each once —
of the ONE entry it attached to, for any schedule, also while that entry is being written, replaced by a newer response, purged, or
while the cache evicts other entries to make room. -/
theorem reader_copies_only_its_version (g : Geometry) (as : List Action) (r : Nat) (rd : Reader)
    (h : (run g State.init as).readers r = some rd) :
    rd.got = (List.range rd.idx).map (fun i => (rd.eid, i)) :=
  ((reachable_inv g as).rdGot r rd h).1

/-- The lock: as long as a reader is attached, its entry is alive, is still the response the reader attached to (same key, same
origin version), and every slot of its chain still holds that entry's chunk — nothing was freed or overwritten under the reader. -/
theorem no_free_while_read (g : Geometry) (as : List Action) (r : Nat) (rd : Reader)
    (h : (run g State.init as).readers r = some rd) (hat : rd.attached = true) :
    ∃ ent, (run g State.init as).entries rd.eid = some ent ∧ ent.key = rd.key ∧ ent.ver = rd.ver ∧
      ∀ i (hi : i < ent.chain.length), (run g State.init as).slots (ent.chain[i]) = some (rd.eid, i) := by
  obtain ⟨ent, a, _, c, d, _⟩ := (reachable_inv g as).rdAtt r rd h hat
  exact ⟨ent, a, c, d, (reachable_inv g as).slotOwn _ _ a⟩

/-- In bytes: what a reader has been given is always a prefix of the one origin response it attached to. -/
theorem delivered_is_prefix_of_one_version (g : Geometry) (c : Chunking) (as : List Action) (r : Nat) (rd : Reader)
    (h : (run g State.init as).readers r = some rd) :
    ∃ rest, content g c rd.key rd.ver = delivered c rd ++ rest := by
  have hi := reachable_inv g as
  refine ⟨(((List.range (g.nchunks rd.key rd.ver - rd.idx)).map (· + rd.idx)).map (c rd.key rd.ver)).flatten, ?_⟩
  rw [delivered_eq hi c h, content, range_split rd.idx _ (hi.rdGot r rd h).2, List.map_append, List.flatten_append]

/-- A reader that is told "complete" has received exactly the whole response — status line, headers and body bytes of one origin
version, nothing missing, nothing added. -/
theorem hit_eq_some_complete_version (g : Geometry) (c : Chunking) (as : List Action) (r : Nat) (rd : Reader)
    (h : (run g State.init as).readers r = some rd) (hd : rd.done = some true) :
    delivered c rd = content g c rd.key rd.ver := by
  have hi := reachable_inv g as
  rw [delivered_eq hi c h, content, hi.rdDone r rd h hd]

/-- A truncated response is never served as complete: an entry whose writer gave up is never marked complete, and a reader attached
to it is never told "complete". -/
theorem truncated_never_complete (g : Geometry) (as : List Action) :
    (∀ e ent, (run g State.init as).entries e = some ent → ent.aborted = true → ent.complete = false) ∧
    (∀ r rd ent, (run g State.init as).readers r = some rd → rd.attached = true →
       (run g State.init as).entries rd.eid = some ent → ent.aborted = true → rd.done ≠ some true) := by
  have hi := reachable_inv g as
  constructor
  · intro e ent he ha
    cases hc : ent.complete with
    | false => rfl
    | true => have := (hi.compl e ent he hc).2.1; rw [this] at ha; cases ha
  · intro r rd ent hrd hat he ha hd
    obtain ⟨ent', a, _, _, _, _, f⟩ := hi.rdAtt r rd hrd hat
    rw [he] at a; injection a with a; subst a
    have := (hi.compl _ ent he (f hd)).2.1
    rw [this] at ha; cases ha

/-! ### non-vacuity: the interesting schedules exist in the model -/

def g2 : Geometry := { nchunks := fun _ v => if v = 1 then 2 else 1 }

/-- version 1 (2 chunks) is stored; a reader copies its first chunk; version 2 replaces it and REUSES nothing of it; the reader
goes on and completes with both chunks of version 1 although the key now serves version 2 to a second reader -/
def replaceWhileReading : List Action :=
  [.beginWrite 5 1, .append 0 10, .append 0 11, .finish 0, .openRead 5, .read 0,
   .beginWrite 5 2, .append 1 12, .finish 1, .openRead 5, .read 0, .read 0, .read 1, .read 1, .evict 0]

example : ((run g2 State.init replaceWhileReading).readers 0).map (fun rd => (rd.got, rd.done)) = some ([(0, 0), (0, 1)], some true) := by decide
example : ((run g2 State.init replaceWhileReading).readers 1).map (fun rd => (rd.got, rd.done)) = some ([(1, 0)], some true) := by decide
/-- the evict of the replaced entry was refused while reader 0 held it: its slots are intact -/
example : (run g2 State.init replaceWhileReading).slots 10 = some (0, 0) := by decide
/-- once the reader lets go, the replaced entry's slots are free again -/
example : (run g2 State.init (replaceWhileReading ++ [.closeRead 0])).slots 10 = none := by decide
/-- a truncated transfer: the reader gets the first chunk and then "cut short" -/
example : ((run g2 State.init [.beginWrite 5 1, .append 0 10, .openRead 5, .read 0, .abort 0, .read 0]).readers 0).map (fun rd => (rd.got, rd.done))
    = some ([(0, 0)], some false) := by decide

end SquidModel.C10
