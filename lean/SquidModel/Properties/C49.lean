/-
C49 — In-memory object data (`mem_hdr`, src/stmem.cc + src/mem_node.cc + include/splay.h) returns exactly what was written.

"For any sequence of non-overlapping writes at arbitrary offsets (including sparse ones) and releases of data below an
offset, a read of any range returns exactly the written bytes up to the first missing byte. Contiguity queries agree
with the written ranges. Releasing data never removes bytes at or after the release offset."

Model: `SquidModel.MemHdr.Splay` (the top-down splay tree, shape by shape) and `SquidModel.MemHdr.Model` (`mem_hdr`,
`mem_node`; asserts as faults, `fatal_dump` as an outcome).  The object is viewed as the sparse byte array
`m.byte : offset → byte option` (`MemHdr.byte`); `AbsStep` says what each call does to that array.
Lemma files: SplayLemmas, SplayOps, Nodes, Inv, Write, Read, Free, History.  No statement has a size bound.
Two preconditions of the real code are outcomes, not exclusions: a write over present bytes and a read whose first
byte is absent end in `fatal_dump()` (`Res.fatal`); `copy()` on an object without any node asserts and is therefore not
called by the harness (`Res.empty`).
-/
import SquidModel.MemHdr.History

namespace SquidModel.C49
open SquidModel.MemHdr SquidModel.Gen.MemHdrConsts

/-- **Every history refines the sparse byte array.**  From a fresh `mem_hdr`, any sequence of write / copy /
hasContigousContentRange / freeDataUpto / getBlockContainingLocation / NodeGet / memNodeWriteComplete / freeContent calls
runs without a fault (no assert of stmem.cc or mem_node.cc fires, in particular `endOffset() == inmem_hi` after every
call; no loop diverges; the splay fuel suffices), every state reached is well-formed (nodes in offset order, disjoint, 1 to
SM_PAGE_SIZE bytes each, `elements` exact), and each result is the one `AbsStep` prescribes for the byte array. -/
theorem run_refines_byte_array (ops : List Op) (hv : ∀ op ∈ ops, op.Valid) :
    ∃ obs, run MemHdr.init ops = .ok obs ∧ (∀ o ∈ obs, Inv o.2) ∧ AbsRun (fun _ => none) ops obs := by
  obtain ⟨obs, h1, h2, h3⟩ := run_refines ops MemHdr.init inv_init hv
  exact ⟨obs, h1, h2, h3⟩

/-- No fault is reachable. -/
theorem never_faults (ops : List Op) (hv : ∀ op ∈ ops, op.Valid) (f : Fault) : run MemHdr.init ops ≠ .error f := by
  obtain ⟨obs, h1, _, _⟩ := run_refines ops MemHdr.init inv_init hv
  rw [h1]; intro h; cases h

/-- **A write adds exactly its bytes, or is refused.**  On a well-formed object `write(off, src)` is refused
(`fatal_dump`, result `none`) exactly when some byte of `[off, off + len)` is already present, and then no byte changes;
otherwise it returns true, the bytes of the range are `src`, and every other offset keeps what it had. -/
theorem write_adds_exactly (m : MemHdr) (hi : Inv m) (off : Nat) (src : List UInt8) :
    ∃ m' res, m.write off src = .ok (m', res) ∧ Inv m' ∧
      (res = none ↔ ∃ p, off ≤ p ∧ p < off + src.length ∧ m.byte p ≠ none) ∧
      (res = none → ∀ p, m'.byte p = m.byte p) ∧
      (res ≠ none → res = some true ∧ ∀ p, m'.byte p = if off ≤ p ∧ p < off + src.length then src[p - off]? else m.byte p) :=
  write_spec hi off src

/-- **A read returns exactly the written bytes up to the first missing byte.**  On a well-formed, non-empty object
`copy(off, len)` with `len > 0` changes no byte; it ends in `fatal_dump` exactly when the byte at `off` is absent, and
otherwise deposits `readPrefix m.byte off len` … -/
theorem read_returns_prefix (m : MemHdr) (hi : Inv m) (off len : Nat) (hlen : 0 < len) (hne : m.nodes.elements ≠ 0) :
    ∃ m', m.copy off len = .ok (m', if m.byte off = none then none else some (readPrefix m.byte off len)) ∧ Inv m' ∧
      m'.byte = m.byte := by
  obtain ⟨m', h1, h2, h3, _⟩ := copy_spec hi off hlen hne
  exact ⟨m', h1, h2, byte_congr h3⟩

/-- … where `readPrefix f off len` is: at most `len` bytes, the `i`-th being the byte present at `off + i`, and fewer than
`len` only because the next byte is missing. -/
theorem prefix_meaning (f : Nat → Option UInt8) (off len : Nat) :
    (readPrefix f off len).length ≤ len ∧
    (∀ i, i < (readPrefix f off len).length → f (off + i) = (readPrefix f off len)[i]?) ∧
    ((readPrefix f off len).length < len → f (off + (readPrefix f off len).length) = none) :=
  readPrefix_spec f len off

/-- **Contiguity queries agree with the written ranges**: `hasContigousContentRange(s, e)` is true exactly when every
offset of `[s, e)` holds a byte (so an empty or inverted range is contiguous); it changes no byte. -/
theorem contiguity_agrees (m : MemHdr) (hi : Inv m) (s e : Nat) :
    ∃ m' b, m.hasContigousContentRange s e = .ok (m', b) ∧ Inv m' ∧ m'.byte = m.byte ∧
      (b = true ↔ ∀ p, s ≤ p → p < e → m.byte p ≠ none) := by
  obtain ⟨m', b, h1, h2, h3, _, h5⟩ := contig_spec hi s e
  exact ⟨m', b, h1, h2, byte_congr h3, h5⟩

/-- **Releasing data never removes bytes at or after the release offset** — nor does it change or create a byte, or
empty a non-empty object; the value returned is `lowestOffset()` of the result. -/
theorem free_keeps_at_or_after (m : MemHdr) (hi : Inv m) (target : Nat) :
    ∃ m', m.freeDataUpto target = .ok (m', m'.lowestOffset) ∧ Inv m' ∧
      (∀ p, target ≤ p → m'.byte p = m.byte p) ∧
      (∀ p b, m'.byte p = some b → m.byte p = some b) ∧
      ((∃ p, m.byte p ≠ none) → ∃ p, m'.byte p ≠ none) := by
  obtain ⟨m', h1, h2, h3, h4, h5, _⟩ := free_spec hi target
  refine ⟨m', h1, h2, h3, h4, ?_⟩
  rintro ⟨p, hp⟩
  have hne : nodesOf m ≠ [] := fun h => hp ((nodes_nil_iff hi).mp h p)
  have hne' := h5 hne
  exact ⟨_, ((lowestOffset_spec h2).2 hne').1⟩

/-- `endOffset()` never trips `assert(result == inmem_hi)`, and it is one past the highest present byte; `lowestOffset()`
is the lowest present offset (both 0 for an empty object). -/
theorem offsets_are_exact (m : MemHdr) (hi : Inv m) :
    m.endOffset = .ok m.hi ∧ (∀ p, m.hi ≤ p → m.byte p = none) ∧
    ((∃ p, m.byte p ≠ none) → m.byte (m.hi - 1) ≠ none ∧ m.byte m.lowestOffset ≠ none ∧ ∀ p, p < m.lowestOffset → m.byte p = none) ∧
    ((∀ p, m.byte p = none) → m.hi = 0 ∧ m.lowestOffset = 0) := by
  obtain ⟨h1, h2, h3⟩ := endOffset_spec hi
  obtain ⟨l1, l2⟩ := lowestOffset_spec hi
  refine ⟨h1, h2, ?_, ?_⟩
  · rintro ⟨p, hp⟩
    have hne : nodesOf m ≠ [] := fun h => hp ((nodes_nil_iff hi).mp h p)
    exact ⟨(h3 hne).1, (l2 hne).1, (l2 hne).2⟩
  · intro hall
    have hnil := (nodes_nil_iff hi).mpr hall
    exact ⟨by rw [hi.hi, hnil]; rfl, l1 hnil⟩

/-- **The splay tree is an ordered container**: splaying (for any comparison function) never changes the left-to-right
sequence of the stored values … -/
theorem splay_keeps_order {α : Type} (cmp : α → Int) (t : Tree α) : (Tree.splay cmp t).1.inorder = t.inorder :=
  Tree.inorder_splay cmp t

/-- … and when the comparison is monotone along that sequence (as `NodeCompare` is along well-formed nodes),
`Splay::find` finds an element comparing equal whenever there is one (it is then the root), and reports "not found" only
when no element compares equal. -/
theorem splay_find_correct {α : Type} (cmp : α → Int) (s : Splay α) (hm : Tree.Mono cmp s.toList) :
    (s.find cmp).1.toList = s.toList ∧ (s.find cmp).1.elements = s.elements ∧
    (((s.find cmp).2 = none ∧ ∀ x ∈ s.toList, cmp x ≠ 0) ∨
     (∃ l v r, (s.find cmp).1.head = .node l v r ∧ (s.find cmp).2 = some v ∧ cmp v = 0 ∧ v ∈ s.toList)) :=
  Splay.find_spec cmp s hm

/-- `NodeCompare` against any target range is monotone along a well-formed node list. -/
theorem nodeCompare_monotone (l : List MNode) (hs : Sorted l) (hz : Sized l) (ts te : Nat) :
    Tree.Mono (nodeCompare ts te) l :=
  mono_nodeCompare hs hz ts te

/-! ### non-vacuity -/

/-- the results of a run, as a decidable value -/
def results (ops : List Op) : Option (List Res) :=
  match run MemHdr.init ops with
  | .error _ => none
  | .ok obs => some (obs.map (·.1))

/-- the scenario of test-suite/mem_hdr_test.cc and more: sparse writes, a read across two nodes that stops at the hole,
a read starting in a hole, an overlapping write, contiguity, releasing -/
example : results [.write 100 [65], .write 10 [66, 67], .write 12 [68], .read 10 50, .read 13 1, .write 11 [0],
      .contig 10 13, .contig 10 14, .contig 5 5, .free 50, .read 10 1, .read 100 4, .free 1000, .block 100] =
    some [.wrote, .wrote, .wrote, .bytes [66, 67, 68], .fatal, .fatal, .flag true, .flag false, .flag true,
          .lowest 100, .fatal, .bytes [65], .lowest 100, .block (some (100, 1))] := by decide

/-- the hypotheses of the history theorem are satisfiable, and `Inv` holds of a non-trivial state -/
example : ∀ op ∈ [Op.write 0 [1, 2, 3], .read 1 5, .free 2], op.Valid := by
  intro op h
  simp only [List.mem_cons, List.mem_nil_iff, or_false] at h
  rcases h with rfl | rfl | rfl
  · trivial
  · show 0 < 5; decide
  · trivial

/-- a fault is a possible outcome of the model (the theorems are not vacuous): a state whose `inmem_hi` is wrong trips
the assert of `endOffset()` -/
example : ({ nodes := { head := .node .nil ⟨0, [7], false⟩ .nil, elements := 1 }, hi := 5 } : MemHdr).endOffset =
    .error .assertEndOffset := rfl

/-- the splay rotations do happen: looking up the smallest of three nodes inserted in increasing order brings it to the root -/
example : (Tree.splay (nodeCompare 0 1) (.node (.node (.node .nil ⟨0, [1], false⟩ .nil) ⟨10, [2], false⟩ .nil) ⟨20, [3], false⟩ .nil)).1 =
    .node .nil ⟨0, [1], false⟩ (.node .nil ⟨10, [2], false⟩ (.node .nil ⟨20, [3], false⟩ .nil)) := by decide

end SquidModel.C49
