/-
C32 — HTML quoting neutralises markup and is reversible.

Property theorems only; the model is `SquidModel.Html.Quote`, helper lemmas are in
`SquidModel.Html.Lemmas`, the escape table is regenerated from the running code.
All statements are for every byte string (no length bound).
-/
import SquidModel.Html.Lemmas

namespace SquidModel.C32
open SquidModel.Html

/-- The quoted form contains no raw `<`, `>`, `"`, `'`, and every `&` opens an entity
reference that the decoder understands. -/
theorem quote_no_raw_meta (s : Bytes) : wellQuoted (quote s) = true :=
  wellQuotedAux_quote s _ (Nat.le_refl _)

/-- Decoding the entity references of the quoted form returns the original string. -/
theorem unquote_quote (s : Bytes) : unquote (quote s) = s :=
  unquoteAux_quote s _ (Nat.le_refl _)

/-- Quoting is injective (a consequence of reversibility). -/
theorem quote_injective (s t : Bytes) (h : quote s = quote t) : s = t := by
  rw [← unquote_quote s, ← unquote_quote t, h]

/-- The output fits the `6 * strlen + 1` buffer `html_quote` allocates. -/
theorem quote_fits_buffer (s : Bytes) : (quote s).length + 1 ≤ 6 * s.length + 1 := by
  have := quote_length_le s; omega

/-- The recogniser is not vacuous: it rejects raw markup. -/
example : wellQuoted [60, 98, 62] = false := by decide
example : wellQuoted [38, 120] = false := by decide
/-- and a concrete non-trivial instance: `<a href="x">&'` -/
example : quote [60, 97, 34, 38, 39] = [38,108,116,59, 97, 38,113,117,111,116,59, 38,97,109,112,59, 38,97,112,111,115,59] := by decide

end SquidModel.C32
