/-
Model of the splay tree of include/splay.h (`SplayNode<V>::splay / insert / remove / start / finish`,
`Splay<V>::find / insert / remove / size / visit`), shape by shape.

The top-down splay of the C++ keeps two growing trees hanging off a dummy node `N` (`l` / `r` point at the node whose
right / left link will receive the next piece).  Here the two trees are lists of frames, innermost frame first:
a left frame `(a, v)` stands for the node `v` with left subtree `a` whose right link is still open, a right frame
`(v, b)` for the node `v` with right subtree `b` whose left link is still open.  `fillL` / `fillR` close the links.

The comparison `compare(dataToFind, candidate)` is a function `cmp : α → Int` of the candidate.
The `for (;;)` loop runs on fuel; running out of fuel assembles the tree as a `break` would (with the sizes the
invariant gives, the fuel `size t` is never exhausted: `Tree.splayLoop_fuel` in SplayLemmas.lean).
-/
namespace SquidModel.MemHdr

inductive Tree (α : Type) where
  | nil : Tree α
  | node (l : Tree α) (v : α) (r : Tree α) : Tree α
deriving Repr, DecidableEq

namespace Tree
variable {α : Type}

def size : Tree α → Nat
  | nil => 0
  | node l _ r => size l + 1 + size r

/-- left-to-right visit (`Splay::visit`) -/
def inorder : Tree α → List α
  | nil => []
  | node l v r => inorder l ++ v :: inorder r

/-- `SplayNode::start()`: the leftmost value -/
def start : Tree α → Option α
  | nil => none
  | node nil v _ => some v
  | node (node ll lv lr) _ _ => start (node ll lv lr)

/-- `SplayNode::finish()`: the rightmost value -/
def finish : Tree α → Option α
  | nil => none
  | node _ v nil => some v
  | node _ _ (node rl rv rr) => finish (node rl rv rr)

/-- leftmost node == rightmost node (pointer equality of `start()` and `finish()`): the tree is one node -/
def isSingle : Tree α → Bool
  | node nil _ nil => true
  | _ => false

/-- close the open right links of the left frames (innermost first) around `h` -/
def fillL : List (Tree α × α) → Tree α → Tree α
  | [], h => h
  | (a, v) :: rest, h => fillL rest (node a v h)

/-- close the open left links of the right frames (innermost first) around `h` -/
def fillR : List (α × Tree α) → Tree α → Tree α
  | [], h => h
  | (v, b) :: rest, h => fillR rest (node h v b)

/-- the assembly after the loop: `l->right = top->left; r->left = top->right; top->left = N.right; top->right = N.left` -/
def assemble (tl : Tree α) (tv : α) (tr : Tree α) (L : List (Tree α × α)) (R : List (α × Tree α)) : Tree α :=
  node (fillL L tl) tv (fillR R tr)

/-- the loop of `SplayNode::splay()` on the current `top = node tl tv tr`; returns the new root and `splayLastResult` -/
def splayLoop (cmp : α → Int) : Nat → Tree α → α → Tree α → List (Tree α × α) → List (α × Tree α) → Tree α × Int
  | 0, tl, tv, tr, L, R => (assemble tl tv tr L R, cmp tv)
  | fuel + 1, tl, tv, tr, L, R =>
    let c := cmp tv
    if c < 0 then
      match tl with
      | nil => (assemble tl tv tr L R, c)
      | node ll lv lr =>
        let c2 := cmp lv
        if c2 < 0 then
          -- rotate right: y = top->left; top->left = y->right; y->right = top; top = y
          match ll with
          | nil => (assemble nil lv (node lr tv tr) L R, c2)
          | node lll llv llr =>
            -- link right: r->left = top; r = top; top = top->left
            splayLoop cmp fuel lll llv llr L ((lv, node lr tv tr) :: R)
        else
          -- link right without rotation
          splayLoop cmp fuel ll lv lr L ((tv, tr) :: R)
    else if c > 0 then
      match tr with
      | nil => (assemble tl tv tr L R, c)
      | node rl rv rr =>
        let c2 := cmp rv
        if c2 > 0 then
          -- rotate left: y = top->right; top->right = y->left; y->left = top; top = y
          match rr with
          | nil => (assemble (node tl tv rl) rv nil L R, c2)
          | node rrl rrv rrr =>
            -- link left: l->right = top; l = top; top = top->right
            splayLoop cmp fuel rrl rrv rrr ((node tl tv rl, rv) :: L) R
        else
          -- link left without rotation
          splayLoop cmp fuel rl rv rr ((tl, tv) :: L) R
    else (assemble tl tv tr L R, c)

/-- `SplayNode::splay(dataToFind, compare)` on a non-empty tree; `nil` stays `nil` (the C++ never calls it on nil) -/
def splay (cmp : α → Int) : Tree α → Tree α × Int
  | nil => (nil, 0)
  | node l v r => splayLoop cmp (size (node l v r)) l v r [] []

/-- `SplayNode::insert(data, compare)` on a non-empty tree -/
def insertNode (cmp : α → Int) (x : α) (t : Tree α) : Tree α :=
  match splay cmp t with
  | (nil, _) => node nil x nil
  | (node l v r, c) =>
    if c < 0 then node l x (node nil v r)
    else if c > 0 then node (node l v nil) x r
    else node l v r   -- duplicate entry: the new node is deleted

/-- `SplayNode::remove(data, compare)` on a non-empty tree -/
def removeNode (cmp : α → Int) (t : Tree α) : Tree α :=
  match splay cmp t with
  | (nil, _) => nil
  | (node l v r, c) =>
    if c = 0 then
      match l with
      | nil => r
      | node ll lv lr =>
        match splay cmp (node ll lv lr) with
        | (nil, _) => nil
        | (node nl nv _, _) => node nl nv r   -- `newTop->right = result->right`
    else node l v r

end Tree

/-- `Splay<V>`: `head` and the `elements` counter -/
structure Splay (α : Type) where
  head : Tree α
  elements : Nat
deriving Repr

namespace Splay
variable {α : Type}

def empty : Splay α := { head := .nil, elements := 0 }

/-- `Splay::find(value, compare)`: splays, then reports the root when the last comparison was 0 -/
def find (cmp : α → Int) (s : Splay α) : Splay α × Option α :=
  match s.head with
  | .nil => (s, none)
  | .node l v r =>
    match Tree.splay cmp (.node l v r) with
    | (.node l' v' r', c) => ({ s with head := .node l' v' r' }, if c ≠ 0 then none else some v')
    | (.nil, _) => ({ s with head := .nil }, none)

/-- `Splay::insert(value, compare)` -/
def insert (cmp : α → Int) (x : α) (s : Splay α) : Splay α :=
  match find cmp s with
  | (s', some _) => s'   -- do not insert duplicates
  | (s', none) =>
    match s'.head with
    | .nil => { head := .node .nil x .nil, elements := s'.elements + 1 }
    | .node l v r => { head := Tree.insertNode cmp x (.node l v r), elements := s'.elements + 1 }

/-- `Splay::remove(value, compare)` -/
def remove (cmp : α → Int) (s : Splay α) : Splay α :=
  match find cmp s with
  | (s', none) => s'
  | (s', some _) => { head := Tree.removeNode cmp s'.head, elements := s'.elements - 1 }

def start (s : Splay α) : Option α := s.head.start
def finish (s : Splay α) : Option α := s.head.finish

end Splay
end SquidModel.MemHdr
