/-
Facts about the splay tree model that hold for every element type and comparison:
* splaying never changes the left-to-right order of the elements (`inorder_splay`);
* when the comparison is consistent with the tree order (`Ok`, implied by `Mono` of the in-order list), the fuel
  `size t` suffices, `splayLastResult` is the comparison with the new root, and a non-zero result means that no element
  compares equal: everything left of the root compares greater-than-target-is-above (`0 < cmp`), everything right of
  it `cmp < 0`;
* `insertNode` puts the new element between those two groups, `removeNode` drops the root that compared equal.
-/
import SquidModel.MemHdr.Splay

namespace SquidModel.MemHdr
namespace Tree
variable {α : Type}

/-- the elements of the left frames, left to right -/
def inL : List (Tree α × α) → List α
  | [] => []
  | (a, v) :: rest => inL rest ++ (inorder a ++ [v])

/-- the elements of the right frames, left to right -/
def inR : List (α × Tree α) → List α
  | [] => []
  | (v, b) :: rest => (v :: inorder b) ++ inR rest

theorem inorder_fillL : ∀ (L : List (Tree α × α)) (h : Tree α), inorder (fillL L h) = inL L ++ inorder h
  | [], h => by simp [fillL, inL]
  | (a, v) :: rest, h => by
    simp only [fillL, inL, inorder_fillL rest, inorder, List.append_assoc, List.cons_append, List.nil_append]

theorem inorder_fillR : ∀ (R : List (α × Tree α)) (h : Tree α), inorder (fillR R h) = inorder h ++ inR R
  | [], h => by simp [fillR, inR]
  | (v, b) :: rest, h => by
    simp only [fillR, inR, inorder_fillR rest, inorder, List.append_assoc, List.cons_append]

theorem inorder_assemble (tl : Tree α) (tv : α) (tr : Tree α) (L : List (Tree α × α)) (R : List (α × Tree α)) :
    inorder (assemble tl tv tr L R) = inL L ++ inorder (node tl tv tr) ++ inR R := by
  simp only [assemble, inorder, inorder_fillL, inorder_fillR, List.append_assoc, List.cons_append]

/-- the loop keeps the left-to-right order of everything it holds -/
theorem inorder_splayLoop (cmp : α → Int) : ∀ (fuel : Nat) (tl : Tree α) (tv : α) (tr : Tree α)
    (L : List (Tree α × α)) (R : List (α × Tree α)),
    inorder (splayLoop cmp fuel tl tv tr L R).1 = inL L ++ inorder (node tl tv tr) ++ inR R
  | 0, tl, tv, tr, L, R => by simp only [splayLoop, inorder_assemble]
  | fuel + 1, tl, tv, tr, L, R => by
    unfold splayLoop
    simp only
    split
    · -- cmp tv < 0
      split
      · exact inorder_assemble ..
      · rename_i ll lv lr
        split
        · split
          · rw [inorder_assemble]; simp only [inorder, List.append_assoc, List.cons_append, List.nil_append]
          · rename_i lll llv llr
            rw [inorder_splayLoop cmp fuel]
            simp only [inorder, inR, List.append_assoc, List.cons_append, List.nil_append]
        · rw [inorder_splayLoop cmp fuel]
          simp only [inorder, inR, List.append_assoc, List.cons_append, List.nil_append]
    · split
      · split
        · exact inorder_assemble ..
        · rename_i rl rv rr
          split
          · split
            · rw [inorder_assemble]; simp only [inorder, List.append_assoc, List.cons_append, List.nil_append, List.append_nil]
            · rename_i rrl rrv rrr
              rw [inorder_splayLoop cmp fuel]
              simp only [inorder, inL, List.append_assoc, List.cons_append, List.nil_append]
          · rw [inorder_splayLoop cmp fuel]
            simp only [inorder, inL, List.append_assoc, List.cons_append, List.nil_append]
      · exact inorder_assemble ..

/-- **splaying keeps the in-order sequence** -/
theorem inorder_splay (cmp : α → Int) (t : Tree α) : inorder (splay cmp t).1 = inorder t := by
  cases t with
  | nil => rfl
  | node l v r =>
    unfold splay
    rw [inorder_splayLoop]
    simp [inL, inR]

theorem size_eq_length : ∀ t : Tree α, size t = (inorder t).length
  | nil => rfl
  | node l v r => by simp only [size, inorder, List.length_append, List.length_cons, size_eq_length l, size_eq_length r]; omega

theorem inorder_eq_nil {t : Tree α} (h : inorder t = []) : t = nil := by
  cases t with
  | nil => rfl
  | node l v r => simp [inorder] at h

/-- the comparison is consistent with the tree: a node above the target has only such nodes to its right, a node
below the target only such nodes to its left -/
def Ok (cmp : α → Int) : Tree α → Prop
  | nil => True
  | node l v r => Ok cmp l ∧ Ok cmp r ∧ (cmp v < 0 → ∀ x ∈ inorder r, cmp x < 0) ∧ (0 < cmp v → ∀ x ∈ inorder l, 0 < cmp x)

/-- along the list the comparison result goes from positive over zero to negative -/
def Mono (cmp : α → Int) (l : List α) : Prop :=
  l.Pairwise (fun a b => (cmp a < 0 → cmp b < 0) ∧ (0 < cmp b → 0 < cmp a))

theorem ok_of_mono (cmp : α → Int) : ∀ t : Tree α, Mono cmp (inorder t) → Ok cmp t
  | nil, _ => trivial
  | node l v r, h => by
    unfold Mono at h
    simp only [inorder] at h
    rw [List.pairwise_append] at h
    obtain ⟨hl, hvr, hlr⟩ := h
    rw [List.pairwise_cons] at hvr
    refine ⟨ok_of_mono cmp l hl, ok_of_mono cmp r hvr.2, ?_, ?_⟩
    · intro hv x hx; exact (hvr.1 x hx).1 hv
    · intro hv x hx; exact (hlr x hx v (List.mem_cons_self ..)).2 hv

/-- what the loop achieves when the comparison is consistent -/
theorem splayLoop_spec (cmp : α → Int) : ∀ (fuel : Nat) (tl : Tree α) (tv : α) (tr : Tree α)
    (L : List (Tree α × α)) (R : List (α × Tree α)),
    Ok cmp (node tl tv tr) → (∀ x ∈ inL L, 0 < cmp x) → (∀ x ∈ inR R, cmp x < 0) → size (node tl tv tr) ≤ fuel →
    ∃ l v r, (splayLoop cmp fuel tl tv tr L R).1 = node l v r ∧ (splayLoop cmp fuel tl tv tr L R).2 = cmp v ∧
      (cmp v ≠ 0 → (∀ x ∈ inorder l, 0 < cmp x) ∧ (∀ x ∈ inorder r, cmp x < 0))
  | 0, tl, tv, tr, L, R, _, _, _, hf => by simp only [size] at hf; omega
  | fuel + 1, tl, tv, tr, L, R, hok, hL, hR, hf => by
    obtain ⟨hokl, hokr, hneg, hpos⟩ := hok
    unfold splayLoop
    simp only
    split
    · -- cmp tv < 0
      rename_i hc
      split
      · -- top->left == nullptr
        refine ⟨_, tv, _, rfl, rfl, fun _ => ⟨?_, ?_⟩⟩
        · intro x hx; rw [inorder_fillL] at hx; simp only [inorder, List.append_nil] at hx; exact hL x hx
        · intro x hx; rw [inorder_fillR] at hx
          rcases List.mem_append.mp hx with h | h
          · exact hneg hc x h
          · exact hR x h
      · rename_i ll lv lr
        obtain ⟨hokll, hoklr, hlneg, hlpos⟩ := hokl
        split
        · rename_i hc2
          split
          · -- rotated, new top has no left child
            refine ⟨_, lv, _, rfl, rfl, fun _ => ⟨?_, ?_⟩⟩
            · intro x hx; rw [inorder_fillL] at hx; simp only [inorder, List.append_nil] at hx; exact hL x hx
            · intro x hx; rw [inorder_fillR] at hx
              simp only [inorder, List.mem_append, List.mem_cons] at hx
              rcases hx with (h | h | h) | h
              · exact hlneg hc2 x h
              · rw [h]; exact hc
              · exact hneg hc x h
              · exact hR x h
          · rename_i lll llv llr
            refine splayLoop_spec cmp fuel lll llv llr L _ hokll hL ?_ ?_
            · intro x hx
              simp only [inR, inorder, List.mem_append, List.mem_cons] at hx
              rcases hx with (h | h | h | h) | h
              · rw [h]; exact hc2
              · exact hlneg hc2 x h
              · rw [h]; exact hc
              · exact hneg hc x h
              · exact hR x h
            · simp only [size] at hf ⊢; omega
        · refine splayLoop_spec cmp fuel ll lv lr L _ ⟨hokll, hoklr, hlneg, hlpos⟩ hL ?_ ?_
          · intro x hx
            simp only [inR, List.mem_append, List.mem_cons] at hx
            rcases hx with (h | h) | h
            · rw [h]; exact hc
            · exact hneg hc x h
            · exact hR x h
          · simp only [size] at hf ⊢; omega
    · rename_i hc
      split
      · -- 0 < cmp tv
        rename_i hc'
        split
        · refine ⟨_, tv, _, rfl, rfl, fun _ => ⟨?_, ?_⟩⟩
          · intro x hx; rw [inorder_fillL] at hx
            rcases List.mem_append.mp hx with h | h
            · exact hL x h
            · exact hpos hc' x h
          · intro x hx; rw [inorder_fillR] at hx; simp only [inorder, List.nil_append] at hx; exact hR x hx
        · rename_i rl rv rr
          obtain ⟨hokrl, hokrr, hrneg, hrpos⟩ := hokr
          split
          · rename_i hc2
            split
            · refine ⟨_, rv, _, rfl, rfl, fun _ => ⟨?_, ?_⟩⟩
              · intro x hx; rw [inorder_fillL] at hx
                simp only [inorder, List.mem_append, List.mem_cons] at hx
                rcases hx with h | (h | h | h)
                · exact hL x h
                · exact hpos hc' x h
                · rw [h]; exact hc'
                · exact hrpos hc2 x h
              · intro x hx; rw [inorder_fillR] at hx; simp only [inorder, List.nil_append] at hx; exact hR x hx
            · rename_i rrl rrv rrr
              refine splayLoop_spec cmp fuel rrl rrv rrr _ R hokrr ?_ hR ?_
              · intro x hx
                simp only [inL, inorder, List.mem_append, List.mem_cons, List.mem_nil_iff, or_false] at hx
                rcases hx with h | ((h | h | h) | h)
                · exact hL x h
                · exact hpos hc' x h
                · rw [h]; exact hc'
                · exact hrpos hc2 x h
                · rw [h]; exact hc2
              · simp only [size] at hf ⊢; omega
          · refine splayLoop_spec cmp fuel rl rv rr _ R ⟨hokrl, hokrr, hrneg, hrpos⟩ ?_ hR ?_
            · intro x hx
              simp only [inL, List.mem_append, List.mem_cons, List.mem_nil_iff, or_false] at hx
              rcases hx with h | (h | h)
              · exact hL x h
              · exact hpos hc' x h
              · rw [h]; exact hc'
            · simp only [size] at hf ⊢; omega
      · -- cmp tv = 0
        refine ⟨_, tv, _, rfl, rfl, fun h => ?_⟩
        omega

/-- **what `splay()` achieves**: the result is a node, `splayLastResult` is the comparison with it, and when that is not
zero every element to its left compares positive and every element to its right negative (so none compares equal) -/
theorem splay_spec (cmp : α → Int) (l : Tree α) (v : α) (r : Tree α) (hok : Ok cmp (node l v r)) :
    ∃ l' v' r', splay cmp (node l v r) = (node l' v' r', cmp v') ∧
      (cmp v' ≠ 0 → (∀ x ∈ inorder l', 0 < cmp x) ∧ (∀ x ∈ inorder r', cmp x < 0)) := by
  obtain ⟨l', v', r', h1, h2, h3⟩ := splayLoop_spec cmp (size (node l v r)) l v r [] [] hok
    (fun _ h => by cases h) (fun _ h => by cases h) (Nat.le_refl _)
  refine ⟨l', v', r', ?_, h3⟩
  unfold splay
  rw [← h1, ← h2]

/-- a root that compares equal stays where it is -/
theorem splay_root_zero (cmp : α → Int) (l : Tree α) (v : α) (r : Tree α) (h : cmp v = 0) :
    splay cmp (node l v r) = (node l v r, 0) := by
  have hs : size (node l v r) = (size l + size r) + 1 := by simp only [size]; omega
  show splayLoop cmp (size (node l v r)) l v r [] [] = _
  rw [hs]
  unfold splayLoop
  simp only [h, Int.lt_irrefl, if_false, gt_iff_lt]
  rfl

end Tree
end SquidModel.MemHdr
