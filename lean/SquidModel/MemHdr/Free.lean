/-
`mem_hdr::freeDataUpto`, `freeContent` and the `write_pending` flag on well-formed objects.
-/
import SquidModel.MemHdr.Read

namespace SquidModel.MemHdr
open SquidModel.Gen.MemHdrConsts Tree

theorem byteAt_drop_prefix : ∀ (D L : List MNode) {p : Nat}, (∀ d ∈ D, ¬ d.has p) → byteAt (D ++ L) p = byteAt L p
  | [], _, _, _ => rfl
  | d :: D', L, p, h => by
    show byteAt (d :: (D' ++ L)) p = _
    rw [byteAt, if_neg (h d (List.mem_cons_self ..))]
    exact byteAt_drop_prefix D' L (fun x hx => h x (List.mem_cons_of_mem _ hx))

theorem not_single_of_two {t : Tree MNode} {s : MNode} (h : t.isSingle = false) (hl : t.inorder = [s]) : False := by
  cases t with
  | nil => simp [inorder] at hl
  | node l v r =>
    have h1 : l.inorder = [] := by
      simp only [inorder] at hl
      cases hll : l.inorder with
      | nil => rfl
      | cons a t => rw [hll] at hl; simp at hl
    have h2 : r.inorder = [] := by
      simp only [inorder, h1, List.nil_append, List.cons.injEq] at hl
      exact hl.2
    rw [inorder_eq_nil h1, inorder_eq_nil h2] at h
    simp [isSingle] at h

/-- the loop of `freeDataUpto`: it drops a prefix of the node list, each dropped node ending at or before the target -/
theorem freeLoop_spec : ∀ (fuel : Nat) (m : MemHdr) (target : Nat), Inv m → (nodesOf m).length < fuel →
    ∃ m' dropped, MemHdr.freeLoop fuel m target = .ok m' ∧ Inv m' ∧ nodesOf m = dropped ++ nodesOf m' ∧
      (∀ d ∈ dropped, d.end ≤ target) ∧ (nodesOf m ≠ [] → nodesOf m' ≠ [])
  | 0, _, _, _, hf => by omega
  | fuel + 1, m, target, hi, hf => by
    unfold MemHdr.freeLoop
    have hstart := Splay.start_toList m.nodes
    have hfin := Splay.finish_toList m.nodes
    cases hl : nodesOf m with
    | nil =>
      have h1 : m.nodes.start = none := by rw [hstart]; unfold nodesOf at hl; rw [hl]; rfl
      rw [h1]
      exact ⟨m, [], rfl, hi, by rw [hl]; rfl, (fun _ h => by cases h), (fun h => absurd rfl h)⟩
    | cons s rest =>
      have h1 : m.nodes.start = some s := by rw [hstart]; unfold nodesOf at hl; rw [hl]; rfl
      have h2 : ∃ f, m.nodes.finish = some f := by
        rw [hfin]; unfold nodesOf at hl; rw [hl]
        cases hg : (s :: rest).getLast? with
        | none => simp at hg
        | some f => exact ⟨f, rfl⟩
      obtain ⟨f, h2⟩ := h2
      rw [h1, h2]
      simp only
      have keep : ∃ m' dropped, (Except.ok m : Except Fault MemHdr) = .ok m' ∧ Inv m' ∧ s :: rest = dropped ++ nodesOf m' ∧
          (∀ d ∈ dropped, d.end ≤ target) ∧ (s :: rest ≠ [] → nodesOf m' ≠ []) :=
        ⟨m, [], rfl, hi, by rw [hl]; rfl, (fun _ h => by cases h), (fun _ => by rw [hl]; simp)⟩
      by_cases hsingle : m.nodes.head.isSingle = true
      · simp only [hsingle, if_true]; exact keep
      · simp only [hsingle, Bool.false_eq_true, if_false]
        by_cases hend : s.end > target
        · simp only [hend, if_true]; exact keep
        · simp only [hend, if_false]
          unfold MemHdr.unlink
          by_cases hp : s.pending = true
          · simp only [hp, if_true]; exact keep
          · simp only [hp, Bool.false_eq_true, if_false]
            -- the first node goes
            have hrest : rest ≠ [] := by
              intro hr
              have : m.nodes.head.isSingle = false := by cases h : m.nodes.head.isSingle <;> simp_all
              exact not_single_of_two this (by unfold nodesOf Splay.toList at hl; rw [hl, hr])
            have hs_mem : s ∈ nodesOf m := by rw [hl]; exact List.mem_cons_self ..
            have hs_size := (hi.sized s hs_mem).1
            have hsorted := hi.sorted
            rw [hl] at hsorted
            obtain ⟨hsB, hsrest⟩ := sorted_cons.mp hsorted
            have hrem := Splay.remove_spec (nodeCompare s.offset s.end) m.nodes
              (mono_nodeCompare hi.sorted hi.sized s.offset s.end) (A := []) (B := rest) (z := s)
              (by unfold nodesOf at hl; rw [hl]; rfl)
              (by rw [nodeCompare_zero]; unfold MNode.end; omega)
              (fun _ h => by cases h)
              (by
                intro b hb
                rw [nodeCompare_neg]
                have h1 := hsB b hb
                have h2 := (hi.sized b (by rw [hl]; exact List.mem_cons_of_mem _ hb)).1
                unfold MNode.end at *; omega)
            obtain ⟨hrl, hre⟩ := hrem
            simp only [List.nil_append] at hrl
            have hinv1 : Inv { m with nodes := m.nodes.remove (nodeCompare s.offset s.end) } := by
              refine ⟨?_, ?_, ?_, ?_⟩
              · show Sorted (Splay.remove _ m.nodes).toList; rw [hrl]; exact hsrest
              · show Sized (Splay.remove _ m.nodes).toList; rw [hrl]
                intro n hn; exact hi.sized n (by rw [hl]; exact List.mem_cons_of_mem _ hn)
              · show (Splay.remove _ m.nodes).elements = (Splay.remove _ m.nodes).toList.length
                rw [hre, hrl, hi.count, hl]; simp
              · show m.hi = lastEnd (Splay.remove _ m.nodes).toList
                rw [hrl, hi.hi, hl]
                have := lastEnd_append_ne [s] hrest
                simpa using this
            have hl1 : nodesOf { m with nodes := m.nodes.remove (nodeCompare s.offset s.end) } = rest := hrl
            obtain ⟨m2, dropped, hfl, hinv2, hlist2, hdrop2, hne2⟩ := freeLoop_spec fuel _ target hinv1
              (by rw [hl1]; rw [hl] at hf; simp at hf; omega)
            refine ⟨m2, s :: dropped, hfl, hinv2, ?_, ?_, ?_⟩
            · rw [hl1] at hlist2; rw [hlist2]; rfl
            · intro d hd
              rcases List.mem_cons.mp hd with rfl | hd'
              · omega
              · exact hdrop2 d hd'
            · intro _; exact hne2 (by rw [hl1]; exact hrest)

/-- **`freeDataUpto()`**: never faults; no byte at or after the target offset is removed, no byte changes or appears, the
object does not become empty, and the returned value is `lowestOffset()` -/
theorem free_spec {m : MemHdr} (hi : Inv m) (target : Nat) :
    ∃ m', m.freeDataUpto target = .ok (m', m'.lowestOffset) ∧ Inv m' ∧
      (∀ p, target ≤ p → m'.byte p = m.byte p) ∧
      (∀ p b, m'.byte p = some b → m.byte p = some b) ∧
      (nodesOf m ≠ [] → nodesOf m' ≠ []) ∧ m'.hi = m.hi := by
  obtain ⟨m', dropped, hfl, hinv', hlist, hdrop, hne⟩ := freeLoop_spec (m.nodes.elements + 1) m target hi (by rw [hi.count]; omega)
  unfold MemHdr.freeDataUpto
  rw [hfl]
  refine ⟨m', rfl, hinv', ?_, ?_, hne, ?_⟩
  · intro p hp
    unfold MemHdr.byte
    rw [hlist, byteAt_drop_prefix]
    intro d hd hhas
    have := hdrop d hd
    unfold MNode.has at hhas; omega
  · intro p b hb
    unfold MemHdr.byte at hb ⊢
    obtain ⟨n, hn, hhas⟩ := byteAt_some_has hb
    rw [byteAt_mem hinv'.sorted hn hhas] at hb
    rw [byteAt_mem hi.sorted (by rw [hlist]; exact List.mem_append_right _ hn) hhas]
    exact hb
  · rw [hinv'.hi, hi.hi, hlist]
    by_cases hm : nodesOf m' = []
    · -- nothing was there to begin with
      have : nodesOf m = [] := Classical.byContradiction fun h => hne h hm
      rw [hlist, hm, List.append_nil] at this
      rw [hm, this]; rfl
    · rw [lastEnd_append_ne dropped hm]

/-- `lowestOffset()` is the least offset that holds a byte (0 for an empty object) -/
theorem lowestOffset_spec {m : MemHdr} (hi : Inv m) :
    (nodesOf m = [] → m.lowestOffset = 0) ∧
    (nodesOf m ≠ [] → m.byte m.lowestOffset ≠ none ∧ ∀ p, p < m.lowestOffset → m.byte p = none) := by
  unfold MemHdr.lowestOffset
  rw [Splay.start_toList]
  constructor
  · intro h; unfold nodesOf at h; rw [h]; rfl
  · intro h
    cases hl : nodesOf m with
    | nil => exact absurd hl h
    | cons s rest =>
      have : m.nodes.toList.head? = some s := by unfold nodesOf at hl; rw [hl]; rfl
      rw [this]; simp only
      have hs_mem : s ∈ nodesOf m := by rw [hl]; exact List.mem_cons_self ..
      have hsz := (hi.sized s hs_mem).1
      refine ⟨byteAt_has hi.sorted hs_mem (by unfold MNode.has MNode.end; omega), ?_⟩
      intro p hp
      apply byteAt_none
      intro n hn hhas
      rw [hl] at hn
      have hsorted := hi.sorted
      rw [hl] at hsorted
      obtain ⟨hsB, _⟩ := sorted_cons.mp hsorted
      rcases List.mem_cons.mp hn with rfl | hn'
      · unfold MNode.has at hhas; omega
      · have := hsB n hn'
        unfold MNode.has MNode.end at *; omega

/-- `endOffset()` never trips its assert and is one past the highest present byte (0 for an empty object) -/
theorem endOffset_spec {m : MemHdr} (hi : Inv m) :
    m.endOffset = .ok m.hi ∧ (∀ p, m.hi ≤ p → m.byte p = none) ∧ (nodesOf m ≠ [] → m.byte (m.hi - 1) ≠ none ∧ 0 < m.hi) := by
  have hfin := Splay.finish_toList m.nodes
  refine ⟨?_, ?_, ?_⟩
  · have hres : (match m.nodes.finish with | some n => n.end | none => 0) = m.hi := by
      rw [hfin, hi.hi]; rfl
    show (if (match m.nodes.finish with | some n => n.end | none => 0) = m.hi
          then Except.ok (match m.nodes.finish with | some n => n.end | none => 0) else Except.error Fault.assertEndOffset) = _
    rw [hres, if_pos rfl]
  · intro p hp
    apply byteAt_none
    intro n hn hhas
    -- every node ends at or before the last node's end
    have : n.end ≤ lastEnd (nodesOf m) := by
      have hne : nodesOf m ≠ [] := List.ne_nil_of_mem hn
      obtain ⟨b, hb, hbe⟩ := lastEnd_mem hne
      rw [hbe]
      unfold lastEnd at hbe
      cases hg : (nodesOf m).getLast? with
      | none => exact absurd (List.getLast?_eq_none_iff.mp hg) hne
      | some z =>
        rw [hg] at hbe; simp only at hbe
        -- z is the last element: everything else precedes it
        obtain ⟨init, hinit⟩ : ∃ init, nodesOf m = init ++ [z] := by
          have := List.getLast?_eq_some_iff.mp hg
          obtain ⟨ys, hys⟩ := this
          exact ⟨ys, hys⟩
        have hsorted := hi.sorted
        rw [hinit] at hsorted hn
        obtain ⟨_, _, hiz⟩ := sorted_append.mp hsorted
        rcases List.mem_append.mp hn with h | h
        · have h1 := hiz n h z (by simp)
          have h2 := (hi.sized z (by rw [hinit]; simp)).1
          rw [← hbe]; unfold MNode.end at *; omega
        · simp only [List.mem_singleton] at h; rw [h, ← hbe]; exact Nat.le_refl _
    rw [hi.hi] at hp
    unfold MNode.has at hhas; omega
  · intro hne
    obtain ⟨b, hb, hbe⟩ := lastEnd_mem hne
    have hsz := (hi.sized b hb).1
    rw [hi.hi, hbe]
    refine ⟨byteAt_has hi.sorted hb (by unfold MNode.has MNode.end; omega), by unfold MNode.end; omega⟩

/-! ### the `write_pending` flag -/

/-- set the flag of the `k`-th element -/
def setPendingList (v : Bool) : List MNode → Nat → List MNode
  | [], _ => []
  | n :: r, 0 => { n with pending := v } :: r
  | n :: r, k + 1 => n :: setPendingList v r k

theorem setPendingList_append (v : Bool) : ∀ (A B : List MNode) (k : Nat),
    setPendingList v (A ++ B) k = if k < A.length then setPendingList v A k ++ B else A ++ setPendingList v B (k - A.length)
  | [], B, k => by simp
  | a :: A', B, 0 => by simp [setPendingList]
  | a :: A', B, k + 1 => by
    simp only [List.cons_append, setPendingList, List.length_cons, Nat.add_lt_add_iff_right]
    rw [setPendingList_append v A' B k]
    split
    · rfl
    · simp

theorem inorder_setPendingTree (v : Bool) : ∀ (t : Tree MNode) (k : Nat),
    (MemHdr.setPendingTree v t k).inorder = setPendingList v t.inorder k
  | .nil, _ => rfl
  | .node l n r, k => by
    unfold MemHdr.setPendingTree
    simp only [inorder]
    rw [setPendingList_append, size_eq_length]
    by_cases h1 : k < l.inorder.length
    · simp only [h1, if_true, inorder, inorder_setPendingTree v l k]
    · simp only [h1, if_false]
      by_cases h2 : k = l.inorder.length
      · simp only [h2, if_true, inorder, Nat.sub_self, setPendingList]
      · simp only [h2, if_false, inorder, inorder_setPendingTree v r]
        obtain ⟨j, hj⟩ : ∃ j, k - l.inorder.length = j + 1 := ⟨k - l.inorder.length - 1, by omega⟩
        rw [hj]; simp only [setPendingList, Nat.add_sub_cancel]

/-- the flag does not matter for offsets and bytes -/
theorem setPendingList_same (v : Bool) : ∀ (l : List MNode) (k : Nat),
    (setPendingList v l k).map (fun n => (n.offset, n.data)) = l.map (fun n => (n.offset, n.data))
  | [], _ => rfl
  | n :: r, 0 => rfl
  | n :: r, k + 1 => by simp only [setPendingList, List.map_cons, setPendingList_same v r k]

end SquidModel.MemHdr
