/-
Model of `mem_hdr` (src/stmem.cc) and `mem_node` (src/mem_node.cc) on top of the splay tree model, function by function.

A `mem_node` is its `nodeBuffer.offset`, the `nodeBuffer.length` bytes of `data` in use, and `write_pending`.  The nodes
live in the splay tree by pointer, so mutating a node is replacing the value at its position; every node `write`, `copy`,
`hasContigousContentRange` work on has just been brought to the root by `Splay::find` / `Splay::insert`, so the
mutation is on the root value.  `assert`s are explicit `Fault` outcomes, `fatal_dump()` is the outcome `fatal`
(the tree keeps the shape the preceding `find` gave it), loops run on fuel.
Offsets are natural numbers (`int64_t` offsets are asserted non-negative; overflow near 2^63 is out of scope).
-/
import SquidModel.MemHdr.Splay
import SquidModel.Gen.MemHdrConsts
import SquidModel.Base.Bytes

namespace SquidModel.MemHdr
open SquidModel.Gen.MemHdrConsts

/-- `mem_node` -/
structure MNode where
  offset : Nat
  data : List UInt8
  pending : Bool
deriving Repr, DecidableEq

namespace MNode
/-- `mem_node::mem_node(offset)`: an empty node -/
def new (off : Nat) : MNode := { offset := off, data := [], pending := false }
/-- `mem_node::end()` -/
def «end» (n : MNode) : Nat := n.offset + n.data.length
/-- `mem_node::space()` -/
def space (n : MNode) : Nat := pageSize - n.data.length
/-- `mem_node::canAccept(location)` -/
def canAccept (n : MNode) (loc : Nat) : Bool := loc == n.end && n.space > 0
end MNode

/-- `mem_hdr::NodeCompare(left, right)` with `left` given as the range `[ts, te)`:
0 when the ranges intersect in at least one byte, otherwise the order of the start offsets -/
def nodeCompare (ts te : Nat) (n : MNode) : Int :=
  if max ts n.offset < min te n.end then 0
  else if ts < n.offset then -1 else 1

structure MemHdr where
  nodes : Splay MNode
  hi : Nat            -- inmem_hi
deriving Repr

inductive Fault where
  | assertWriteLocation   -- assert(location == offset + length) in writeAvailable
  | assertCanAccept       -- assert(aNode->canAccept(location)) in writeAvailable
  | assertWrote           -- assert(wrote) in write
  | assertCopyRange       -- assert(target.range().end > target.range().start) in copy
  | assertCopyEmpty       -- nodes.size() == 0 in copy: assert(0)
  | assertCopyNode        -- the asserts of copyAvailable
  | assertEndOffset       -- assert(result == inmem_hi) in endOffset
  | noRoot                -- a pointer returned by find/insert does not designate the root (cannot happen in splay.h)
  | diverged              -- a loop ran out of fuel
deriving Repr, DecidableEq

namespace MemHdr

def init : MemHdr := { nodes := Splay.empty, hi := 0 }

/-- `lowestOffset()` -/
def lowestOffset (m : MemHdr) : Nat :=
  match m.nodes.start with
  | some n => n.offset
  | none => 0

/-- `endOffset()`, with its `assert(result == inmem_hi)` -/
def endOffset (m : MemHdr) : Except Fault Nat :=
  let result := match m.nodes.finish with
    | some n => n.end
    | none => 0
  if result = m.hi then .ok result else .error .assertEndOffset

/-- `getBlockContainingLocation(location)`: find with a one-byte target -/
def getBlock (m : MemHdr) (loc : Nat) : MemHdr × Option MNode :=
  let (s, r) := m.nodes.find (nodeCompare loc (loc + 1))
  ({ m with nodes := s }, r)

/-- `unionNotEmpty(candidate)` -/
def unionNotEmpty (m : MemHdr) (off len : Nat) : MemHdr × Bool :=
  let (s, r) := m.nodes.find (nodeCompare off (off + len))
  ({ m with nodes := s }, r.isSome)

/-- `appendNode(aNode)` -/
def appendNode (m : MemHdr) (n : MNode) : MemHdr :=
  { m with nodes := m.nodes.insert (nodeCompare n.offset n.end) n }

/-- `nodeToRecieve(offset)`; the node returned is the root of the tree afterwards -/
def nodeToRecieve (m : MemHdr) (off : Nat) : MemHdr :=
  if m.nodes.elements = 0 then
    appendNode m (MNode.new off)
  else
    let (m1, candidate) :=
      if off > 0 then getBlock m (off - 1) else (m, none)
    match candidate with
    | some c => if c.canAccept off then m1 else appendNode m1 (MNode.new off)
    | none => appendNode m1 (MNode.new off)

/-- `writeAvailable(aNode, location, amount, source)` on the root node; returns the number of bytes deposited -/
def writeAvailable (m : MemHdr) (loc : Nat) (src : List UInt8) : Except Fault (MemHdr × Nat) :=
  match m.nodes.head with
  | .nil => .error .noRoot
  | .node l n r =>
    if loc ≠ n.offset + n.data.length then .error .assertWriteLocation
    else if !n.canAccept loc then .error .assertCanAccept
    else
      let copyLen := min src.length n.space
      let hi := if m.hi ≤ loc then loc + copyLen else m.hi
      let n' := { n with data := n.data ++ src.take copyLen }
      .ok ({ nodes := { m.nodes with head := .node l n' r }, hi := hi }, copyLen)

/-- the `while (len && ...)` loop of `write()` -/
def writeLoop : Nat → MemHdr → Nat → List UInt8 → Except Fault MemHdr
  | 0, m, _, src => if src.isEmpty then .ok m else .error .diverged
  | fuel + 1, m, cur, src =>
    if src.isEmpty then .ok m
    else
      match writeAvailable (nodeToRecieve m cur) cur src with
      | .error f => .error f
      | .ok (m', wrote) =>
        if wrote = 0 then .error .assertWrote
        else writeLoop fuel m' (cur + wrote) (src.drop wrote)

/-- `write(writeBuffer)`: `none` = `fatal_dump()` ("Attempt to overwrite already in-memory data") -/
def write (m : MemHdr) (off : Nat) (src : List UInt8) : Except Fault (MemHdr × Option Bool) :=
  let (m1, overlap) := unionNotEmpty m off src.length
  if overlap then .ok (m1, none)
  else
    match writeLoop (src.length + 1) m1 off src with
    | .error f => .error f
    | .ok m2 => .ok (m2, some true)

/-- `copyAvailable(aNode, location, amount, target)`: the bytes copied -/
def copyAvailable (n : MNode) (loc amount : Nat) : Except Fault (List UInt8) :=
  if n.offset > loc then .ok []
  else if ¬ (n.end > loc) then .error .assertCopyNode
  else
    let copyOffset := loc - n.offset
    let copyLen := min amount (n.data.length - copyOffset)
    .ok ((n.data.drop copyOffset).take copyLen)

/-- the `while (p && bytes_to_go > 0)` loop of `copy()`; `acc` is what has been deposited in the target so far -/
def copyLoop : Nat → MemHdr → Option MNode → Nat → Nat → List UInt8 → Except Fault (MemHdr × List UInt8)
  | 0, m, p, _, togo, acc => if p.isNone ∨ togo = 0 then .ok (m, acc) else .error .diverged
  | fuel + 1, m, p, loc, togo, acc =>
    match p with
    | none => .ok (m, acc)
    | some n =>
      if togo = 0 then .ok (m, acc)
      else
        match copyAvailable n loc togo with
        | .error f => .error f
        | .ok bytes =>
          if bytes.length = 0 then .ok (m, acc)   -- hit a sparse patch
          else
            let (m', p') := getBlock m (loc + bytes.length)
            copyLoop fuel m' p' (loc + bytes.length) (togo - bytes.length) (acc ++ bytes)

/-- `copy(target)`: `none` = `fatal_dump()` ("attempted to read data from memory that is not present") -/
def copy (m : MemHdr) (off len : Nat) : Except Fault (MemHdr × Option (List UInt8)) :=
  if ¬ (off + len > off) then .error .assertCopyRange
  else if m.nodes.elements = 0 then .error .assertCopyEmpty
  else
    let (m1, p) := getBlock m off
    match p with
    | none => .ok (m1, none)
    | some n =>
      match copyLoop (len + 1) m1 (some n) off len [] with
      | .error f => .error f
      | .ok (m2, bytes) => .ok (m2, some bytes)

/-- the loop of `hasContigousContentRange(range)` -/
def contigLoop : Nat → MemHdr → Nat → Nat → Nat → Except Fault (MemHdr × Bool)
  | 0, _, _, _, _ => .error .diverged
  | fuel + 1, m, cur, rs, re =>
    match getBlock m cur with
    | (m', none) => .ok (m', decide (¬ (re > rs)))   -- `return !range.size()`
    | (m', some n) => if n.end ≥ re then .ok (m', true) else contigLoop fuel m' n.end rs re

def hasContigousContentRange (m : MemHdr) (rs re : Nat) : Except Fault (MemHdr × Bool) :=
  contigLoop (m.nodes.elements + 2) m rs rs re

/-- `unlink(aNode)` for the node `n` of the tree -/
def unlink (m : MemHdr) (n : MNode) : MemHdr × Bool :=
  if n.pending then (m, false)
  else ({ m with nodes := m.nodes.remove (nodeCompare n.offset n.end) }, true)

/-- the loop of `freeDataUpto(target_offset)` -/
def freeLoop : Nat → MemHdr → Nat → Except Fault MemHdr
  | 0, _, _ => .error .diverged
  | fuel + 1, m, target =>
    match m.nodes.start, m.nodes.finish with
    | some s, some _ =>
      if m.nodes.head.isSingle then .ok m         -- theStart == nodes.finish(): keep the last one
      else if s.end > target then .ok m
      else
        match unlink m s with
        | (m', true) => freeLoop fuel m' target
        | (m', false) => .ok m'
    | _, _ => .ok m

def freeDataUpto (m : MemHdr) (target : Nat) : Except Fault (MemHdr × Nat) :=
  match freeLoop (m.nodes.elements + 1) m target with
  | .error f => .error f
  | .ok m' => .ok (m', m'.lowestOffset)

/-- `freeContent()` -/
def freeContent (_ : MemHdr) : MemHdr := init

/-- set `write_pending` of the `k`-th node in offset order (`NodeGet` / `memNodeWriteComplete` of the harness) -/
def setPendingTree (v : Bool) : Tree MNode → Nat → Tree MNode
  | .nil, _ => .nil
  | .node l n r, k =>
    if k < l.size then .node (setPendingTree v l k) n r
    else if k = l.size then .node l { n with pending := v } r
    else .node l n (setPendingTree v r (k - l.size - 1))

end MemHdr

/-! ### histories -/

inductive Op where
  | write (off : Nat) (data : List UInt8)
  | read (off len : Nat)
  | contig (s e : Nat)
  | free (target : Nat)
  | block (loc : Nat)
  | nodeGet (k : Nat)         -- `NodeGet()` on the k-th node in offset order (sets write_pending)
  | writeComplete (k : Nat)   -- `memNodeWriteComplete()` on the k-th node (clears write_pending)
  | freeContent
deriving Repr, DecidableEq

/-- outcome of flipping `write_pending` through the harness -/
inductive PendRes where
  | done | refused | noSuchNode
deriving Repr, DecidableEq

inductive Res where
  | wrote                       -- write() returned true
  | fatal                       -- fatal_dump()
  | bytes (b : List UInt8)      -- copy() deposited these bytes
  | empty                       -- copy() is not called on an object without nodes (the real code asserts there)
  | flag (b : Bool)
  | lowest (n : Nat)
  | block (r : Option (Nat × Nat))
  | pend (r : PendRes)
  | unit
deriving Repr, DecidableEq

def nth? : List MNode → Nat → Option MNode
  | [], _ => none
  | a :: _, 0 => some a
  | _ :: r, k + 1 => nth? r k

/-- one call of the harness -/
def step (m : MemHdr) : Op → Except Fault (MemHdr × Res)
  | .write off data =>
    match m.write off data with
    | .error f => .error f
    | .ok (m', none) => .ok (m', .fatal)
    | .ok (m', some _) => .ok (m', .wrote)
  | .read off len =>
    if m.nodes.elements = 0 then .ok (m, .empty)
    else
      match m.copy off len with
      | .error f => .error f
      | .ok (m', none) => .ok (m', .fatal)
      | .ok (m', some b) => .ok (m', .bytes b)
  | .contig s e =>
    match m.hasContigousContentRange s e with
    | .error f => .error f
    | .ok (m', b) => .ok (m', .flag b)
  | .free target =>
    match m.freeDataUpto target with
    | .error f => .error f
    | .ok (m', lo) => .ok (m', .lowest lo)
  | .block loc =>
    match m.getBlock loc with
    | (m', none) => .ok (m', .block none)
    | (m', some n) => .ok (m', .block (some (n.offset, n.data.length)))
  | .nodeGet k =>
    match nth? m.nodes.head.inorder k with
    | none => .ok (m, .pend .noSuchNode)
    | some n =>
      if n.pending then .ok (m, .pend .refused)
      else .ok ({ m with nodes := { m.nodes with head := MemHdr.setPendingTree true m.nodes.head k } }, .pend .done)
  | .writeComplete k =>
    match nth? m.nodes.head.inorder k with
    | none => .ok (m, .pend .noSuchNode)
    | some n =>
      if !n.pending then .ok (m, .pend .refused)
      else .ok ({ m with nodes := { m.nodes with head := MemHdr.setPendingTree false m.nodes.head k } }, .pend .done)
  | .freeContent => .ok (m.freeContent, .unit)

/-- run a history: the result of every call with the state after it; after every call the harness also calls
`endOffset()` (which carries the `inmem_hi` assert) -/
def run : MemHdr → List Op → Except Fault (List (Res × MemHdr))
  | _, [] => .ok []
  | m, op :: rest =>
    match step m op with
    | .error f => .error f
    | .ok (m', res) =>
      match m'.endOffset with
      | .error f => .error f
      | .ok _ =>
        match run m' rest with
        | .error f => .error f
        | .ok os => .ok ((res, m') :: os)

end SquidModel.MemHdr
