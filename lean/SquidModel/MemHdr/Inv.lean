/-
The invariant of the `mem_hdr` model and the lookup / node-selection helpers on states that satisfy it.
-/
import SquidModel.MemHdr.Nodes

namespace SquidModel.MemHdr
open SquidModel.Gen.MemHdrConsts Tree

/-- the nodes in offset order (`getNodes().visit`) -/
def nodesOf (m : MemHdr) : List MNode := m.nodes.toList

/-- the byte the object holds at offset `p` -/
def MemHdr.byte (m : MemHdr) (p : Nat) : Option UInt8 := byteAt (nodesOf m) p

structure Inv (m : MemHdr) : Prop where
  sorted : Sorted (nodesOf m)
  sized : Sized (nodesOf m)
  /-- the `elements` counter of the splay tree is exact -/
  count : m.nodes.elements = (nodesOf m).length
  /-- `inmem_hi` is the end of the last node: the assert of `endOffset()` holds -/
  hi : m.hi = lastEnd (nodesOf m)

/-- no node intersects `[a, b)` -/
def Free (l : List MNode) (a b : Nat) : Prop := ∀ n ∈ l, ¬ (max a n.offset < min b n.end)

theorem inv_init : Inv MemHdr.init :=
  ⟨List.Pairwise.nil, (fun _ h => by cases h), rfl, rfl⟩

/-- `Splay::find` with `NodeCompare` against the range `[ts, te)` -/
theorem find_range {m : MemHdr} (hi : Inv m) (ts te : Nat) :
    (m.nodes.find (nodeCompare ts te)).1.toList = nodesOf m ∧
    (m.nodes.find (nodeCompare ts te)).1.elements = m.nodes.elements ∧
    (((m.nodes.find (nodeCompare ts te)).2 = none ∧ Free (nodesOf m) ts te) ∨
     (∃ l v r, (m.nodes.find (nodeCompare ts te)).1.head = .node l v r ∧ (m.nodes.find (nodeCompare ts te)).2 = some v ∧
        max ts v.offset < min te v.end ∧ v ∈ nodesOf m)) := by
  obtain ⟨h1, h2, h3⟩ := Splay.find_spec (nodeCompare ts te) m.nodes (mono_nodeCompare hi.sorted hi.sized ts te)
  refine ⟨h1, h2, ?_⟩
  rcases h3 with ⟨hn, hz⟩ | ⟨l, v, r, hh, hs, hz, hv⟩
  · left
    refine ⟨hn, fun n hn' hc => hz n hn' (nodeCompare_zero.mpr hc)⟩
  · right
    exact ⟨l, v, r, hh, hs, nodeCompare_zero.mp hz, hv⟩

/-- a state that differs only by the shape of the tree -/
theorem inv_reshape {m : MemHdr} (hi : Inv m) {s : Splay MNode} (h1 : s.toList = nodesOf m) (h2 : s.elements = m.nodes.elements) :
    Inv { m with nodes := s } := by
  refine ⟨?_, ?_, ?_, ?_⟩
  · show Sorted s.toList; rw [h1]; exact hi.sorted
  · show Sized s.toList; rw [h1]; exact hi.sized
  · show s.elements = s.toList.length; rw [h1, h2]; exact hi.count
  · show m.hi = lastEnd s.toList; rw [h1]; exact hi.hi

theorem getBlock_spec {m : MemHdr} (hi : Inv m) (loc : Nat) :
    Inv (m.getBlock loc).1 ∧ nodesOf (m.getBlock loc).1 = nodesOf m ∧ (m.getBlock loc).1.hi = m.hi ∧
    (((m.getBlock loc).2 = none ∧ ∀ n ∈ nodesOf m, ¬ n.has loc) ∨
     (∃ l v r, (m.getBlock loc).1.nodes.head = .node l v r ∧ (m.getBlock loc).2 = some v ∧ v.has loc ∧ v ∈ nodesOf m)) := by
  obtain ⟨h1, h2, h3⟩ := find_range hi loc (loc + 1)
  unfold MemHdr.getBlock
  simp only
  refine ⟨inv_reshape hi h1 h2, h1, (by first | rfl | trivial), ?_⟩
  rcases h3 with ⟨hn, hf⟩ | ⟨l, v, r, hh, hs, hz, hv⟩
  · left
    refine ⟨hn, fun n hn' hc => hf n hn' ?_⟩
    unfold MNode.has at hc; omega
  · right
    refine ⟨l, v, r, hh, hs, ?_, hv⟩
    unfold MNode.has; omega

theorem getBlock_none_byte {m : MemHdr} (hi : Inv m) {loc : Nat} (h : (m.getBlock loc).2 = none) : m.byte loc = none := by
  obtain ⟨_, _, _, h4⟩ := getBlock_spec hi loc
  rcases h4 with ⟨_, hf⟩ | ⟨_, v, _, _, hs, _, _⟩
  · exact byteAt_none hf
  · rw [h] at hs; cases hs

theorem unionNotEmpty_spec {m : MemHdr} (hi : Inv m) (off len : Nat) :
    Inv (m.unionNotEmpty off len).1 ∧ nodesOf (m.unionNotEmpty off len).1 = nodesOf m ∧
    (m.unionNotEmpty off len).1.hi = m.hi ∧
    ((m.unionNotEmpty off len).2 = false ↔ Free (nodesOf m) off (off + len)) := by
  obtain ⟨h1, h2, h3⟩ := find_range hi off (off + len)
  unfold MemHdr.unionNotEmpty
  simp only
  refine ⟨inv_reshape hi h1 h2, h1, (by first | rfl | trivial), ?_⟩
  rcases h3 with ⟨hn, hf⟩ | ⟨l, v, r, hh, hs, hz, hv⟩
  · rw [hn]; simp only [Option.isSome_none, true_iff]; exact hf
  · rw [hs]; simp only [Option.isSome_some, Bool.true_eq_false, false_iff]
    intro hfree; exact hfree v hv hz

theorem lastEnd_append_ne (A : List MNode) {B : List MNode} (h : B ≠ []) : lastEnd (A ++ B) = lastEnd B := by
  cases B with
  | nil => exact absurd rfl h
  | cons b t =>
    rw [lastEnd_append_cons]
    by_cases ht : t = []
    · subst ht; simp [lastEnd]
    · rw [if_neg ht]; unfold lastEnd; rw [List.getLast?_cons_of_ne_nil ht]

theorem lastEnd_le {A : List MNode} {c : Nat} (h : ∀ a ∈ A, a.end ≤ c) : lastEnd A ≤ c := by
  unfold lastEnd
  cases hl : A.getLast? with
  | none => exact Nat.zero_le _
  | some n => exact h n (List.mem_of_getLast? hl)

theorem lastEnd_mem {B : List MNode} (h : B ≠ []) : ∃ b ∈ B, lastEnd B = b.end := by
  unfold lastEnd
  cases hl : B.getLast? with
  | none => exact absurd (List.getLast?_eq_none_iff.mp hl) h
  | some n => exact ⟨n, List.mem_of_getLast? hl, rfl⟩

/-- what `nodeToRecieve(cur)` leaves behind when `[cur, cur + len)` is free: the node that will take the bytes is the root,
it ends at `cur` and has room; everything left of it ends at or before its start, everything right of it starts at or
after `cur + len` -/
theorem nodeToRecieve_spec {m : MemHdr} (hi : Inv m) {cur len : Nat} (hlen : 0 < len) (hfree : Free (nodesOf m) cur (cur + len)) :
    ∃ l x r, (m.nodeToRecieve cur).nodes.head = .node l x r ∧
      x.end = cur ∧ x.data.length < pageSize ∧
      (∀ a ∈ l.inorder, a.end ≤ x.offset) ∧ (∀ b ∈ r.inorder, cur + len ≤ b.offset) ∧
      Sorted l.inorder ∧ Sorted r.inorder ∧ Sized l.inorder ∧ Sized r.inorder ∧
      (m.nodeToRecieve cur).nodes.elements = (l.inorder ++ x :: r.inorder).length ∧
      (m.nodeToRecieve cur).hi = m.hi ∧
      (r.inorder = [] → m.hi ≤ cur) ∧ (r.inorder ≠ [] → m.hi = lastEnd r.inorder) ∧
      (∀ p, byteAt (l.inorder ++ x :: r.inorder) p = m.byte p) ∧ (x.data = [] ∨ x ∈ nodesOf m) := by
  -- facts shared by the branches
  have right_far : ∀ {x : MNode} {B : List MNode}, x.end = cur → (∀ b ∈ B, b ∈ nodesOf m) → (∀ b ∈ B, cur ≤ b.offset) →
      ∀ b ∈ B, cur + len ≤ b.offset := by
    intro x B _ hB hge b hb
    have hnf := hfree b (hB b hb)
    have hbs := (hi.sized b (hB b hb)).1
    have := hge b hb
    unfold MNode.end at hnf; omega
  -- appending a fresh node
  have fresh : ∀ (m1 : MemHdr), Inv m1 → nodesOf m1 = nodesOf m → m1.hi = m.hi →
      ∃ l x r, (m1.appendNode (MNode.new cur)).nodes.head = .node l x r ∧
        x.end = cur ∧ x.data.length < pageSize ∧
        (∀ a ∈ l.inorder, a.end ≤ x.offset) ∧ (∀ b ∈ r.inorder, cur + len ≤ b.offset) ∧
        Sorted l.inorder ∧ Sorted r.inorder ∧ Sized l.inorder ∧ Sized r.inorder ∧
        (m1.appendNode (MNode.new cur)).nodes.elements = (l.inorder ++ x :: r.inorder).length ∧
        (m1.appendNode (MNode.new cur)).hi = m.hi ∧
        (r.inorder = [] → m.hi ≤ cur) ∧ (r.inorder ≠ [] → m.hi = lastEnd r.inorder) ∧
        (∀ p, byteAt (l.inorder ++ x :: r.inorder) p = m.byte p) ∧ (x.data = [] ∨ x ∈ nodesOf m) := by
    intro m1 hi1 hl1 hh1
    have hmono := mono_nodeCompare hi1.sorted hi1.sized cur cur
    have hnz : ∀ y ∈ m1.nodes.toList, nodeCompare cur cur y ≠ 0 := by
      intro y _ hc
      rw [nodeCompare_zero] at hc; omega
    obtain ⟨A, B, l, r, hAB, hhead, hlist, hel, hA, hB⟩ :=
      Splay.insert_spec (nodeCompare cur cur) (MNode.new cur) m1.nodes hmono hnz
    have hAB' : nodesOf m = A ++ B := by rw [← hl1]; exact hAB
    have hlr : l.inorder ++ MNode.new cur :: r.inorder = A ++ MNode.new cur :: B := by
      have : (Splay.insert (nodeCompare cur cur) (MNode.new cur) m1.nodes).toList =
          l.inorder ++ MNode.new cur :: r.inorder := by unfold Splay.toList; rw [hhead]; rfl
      rw [← this, hlist]
    -- the new node compares equal to nothing in A or B, so the decomposition is the tree's
    have hx0 : ∀ n : MNode, n ∈ A ∨ n ∈ B → n ≠ MNode.new cur := by
      intro n hn he
      have hmem : n ∈ nodesOf m := by rw [hAB']; exact List.mem_append.mpr hn
      have := (hi.sized n hmem).1
      rw [he] at this; simp [MNode.new] at this
    have hAl : l.inorder = A ∧ r.inorder = B := by
      -- positions: use the uniqueness of the fresh node in the list
      have key : ∀ (A l1 : List MNode) (B r1 : List MNode) (z : MNode), l1 ++ z :: r1 = A ++ z :: B →
          (∀ a ∈ A, a ≠ z) → (∀ b ∈ B, b ≠ z) → l1 = A ∧ r1 = B := by
        intro A
        induction A with
        | nil =>
          intro l1 B r1 z h _ hB
          cases l1 with
          | nil => simp only [List.nil_append, List.cons.injEq, true_and] at h; exact ⟨rfl, h⟩
          | cons y t =>
            simp only [List.nil_append, List.cons_append, List.cons.injEq] at h
            exact absurd rfl (hB z (by rw [← h.2]; simp))
        | cons a A' ih =>
          intro l1 B r1 z h hA hB
          cases l1 with
          | nil =>
            simp only [List.nil_append, List.cons_append, List.cons.injEq] at h
            exact absurd h.1.symm (hA a (List.mem_cons_self ..))
          | cons y t =>
            simp only [List.cons_append, List.cons.injEq] at h
            obtain ⟨e1, e2⟩ := ih t B r1 z h.2 (fun x hx => hA x (List.mem_cons_of_mem _ hx)) hB
            exact ⟨by rw [h.1, e1], e2⟩
      exact key A _ B _ _ hlr (fun a ha => hx0 a (Or.inl ha)) (fun b hb => hx0 b (Or.inr hb))
    obtain ⟨eA, eB⟩ := hAl
    have hsAB : Sorted (A ++ B) := by rw [← hAB']; exact hi.sorted
    obtain ⟨hsA, hsB, _⟩ := sorted_append.mp hsAB
    have hzA : Sized A := fun n hn => hi.sized n (by rw [hAB']; exact List.mem_append_left _ hn)
    have hzB : Sized B := fun n hn => hi.sized n (by rw [hAB']; exact List.mem_append_right _ hn)
    have hAend : ∀ a ∈ A, a.end ≤ cur := by
      intro a ha
      have hpos := nodeCompare_pos.mp (hA a ha)
      have hnf := hfree a (by rw [hAB']; exact List.mem_append_left _ ha)
      have := (hzA a ha).1
      unfold MNode.end at hnf ⊢; omega
    have hBfar : ∀ b ∈ B, cur + len ≤ b.offset := by
      refine right_far (x := MNode.new cur) (by simp [MNode.end, MNode.new])
        (fun b hb => by rw [hAB']; exact List.mem_append_right _ hb) ?_
      intro b hb
      have := nodeCompare_neg.mp (hB b hb); omega
    refine ⟨l, _, r, hhead, by simp [MNode.end, MNode.new], by simp [MNode.new, pageSize_pos], ?_, ?_, ?_, ?_, ?_, ?_, ?_, hh1, ?_, ?_, ?_, Or.inl (by simp [MNode.new])⟩
    · rw [eA]; exact hAend
    · rw [eB]; exact hBfar
    · rw [eA]; exact hsA
    · rw [eB]; exact hsB
    · rw [eA]; exact hzA
    · rw [eB]; exact hzB
    · show (Splay.insert (nodeCompare cur cur) (MNode.new cur) m1.nodes).elements = _
      rw [hel, hi1.count, hl1, hAB', eA, eB]; simp; omega
    · intro hr
      rw [eB] at hr
      rw [hi.hi, hAB', hr, List.append_nil]
      exact lastEnd_le hAend
    · intro hr
      rw [eB] at hr ⊢
      rw [hi.hi, hAB', lastEnd_append_ne A hr]
    · intro p
      rw [eA, eB, byteAt_skip A _ B (by unfold MNode.has MNode.end; simp [MNode.new])]
      unfold MemHdr.byte; rw [hAB']
  unfold MemHdr.nodeToRecieve
  by_cases hzero : m.nodes.elements = 0
  · simp only [hzero, if_true]
    exact fresh m hi rfl rfl
  · simp only [hzero, if_false]
    by_cases hcur : cur > 0
    · simp only [hcur, if_true]
      obtain ⟨hinv1, hl1, hh1, hres⟩ := getBlock_spec hi (cur - 1)
      rcases hres with ⟨hn, _⟩ | ⟨l, v, r, hhead, hs, hhas, hv⟩
      · rw [hn]; simp only
        exact fresh _ hinv1 hl1 hh1
      · rw [hs]; simp only
        by_cases hacc : v.canAccept cur = true
        · simp only [hacc, if_true]
          unfold MNode.canAccept at hacc
          simp only [Bool.and_eq_true, beq_iff_eq, decide_eq_true_eq] at hacc
          have hlist : nodesOf m = l.inorder ++ v :: r.inorder := by
            rw [← hl1]; unfold nodesOf Splay.toList; rw [hhead]; rfl
          have hsorted := hi.sorted
          rw [hlist] at hsorted
          obtain ⟨hsA, hsvB, hAB⟩ := sorted_append.mp hsorted
          obtain ⟨hvB, hsB⟩ := sorted_cons.mp hsvB
          have hzA : Sized l.inorder := fun n hn => hi.sized n (by rw [hlist]; exact List.mem_append_left _ hn)
          have hzB : Sized r.inorder := fun n hn => hi.sized n (by rw [hlist]; simp [hn])
          refine ⟨l, v, r, hhead, hacc.1.symm, ?_, ?_, ?_, hsA, hsB, hzA, hzB, ?_, hh1, ?_, ?_, ?_, Or.inr hv⟩
          · unfold MNode.space at hacc; omega
          · intro a ha
            have := hAB a ha v (List.mem_cons_self ..)
            unfold MNode.end at this ⊢; omega
          · refine right_far hacc.1.symm (fun b hb => by rw [hlist]; simp [hb]) ?_
            intro b hb
            have := hvB b hb; rw [← hacc.1] at this; exact this
          · show (m.getBlock (cur - 1)).1.nodes.elements = _
            rw [hinv1.count, hl1, hlist]
          · intro hr
            rw [hi.hi, hlist, lastEnd_append_cons, if_pos hr, hacc.1]; exact Nat.le_refl _
          · intro hr
            rw [hi.hi, hlist, lastEnd_append_cons, if_neg hr]
          · intro p; unfold MemHdr.byte; rw [hlist]
        · simp only [hacc, Bool.false_eq_true, if_false]
          exact fresh _ hinv1 hl1 hh1
    · simp only [hcur, if_false]
      exact fresh m hi rfl rfl

end SquidModel.MemHdr
