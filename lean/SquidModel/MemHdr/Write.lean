/-
`mem_hdr::write`: on a well-formed object a write either is refused (it would overwrite a present byte) and changes
nothing but the tree shape, or adds exactly its bytes.
-/
import SquidModel.MemHdr.Inv

namespace SquidModel.MemHdr
open SquidModel.Gen.MemHdrConsts Tree

/-- one round of the `while` loop of `write()`: `nodeToRecieve` followed by `writeAvailable` -/
theorem write_step {m : MemHdr} (hi : Inv m) {cur : Nat} {src : List UInt8} (hsrc : src ≠ [])
    (hfree : Free (nodesOf m) cur (cur + src.length)) :
    ∃ m' k, MemHdr.writeAvailable (m.nodeToRecieve cur) cur src = .ok (m', k) ∧ 0 < k ∧ k ≤ src.length ∧ Inv m' ∧
      Free (nodesOf m') (cur + k) (cur + src.length) ∧
      ∀ p, m'.byte p = if cur ≤ p ∧ p < cur + k then src[p - cur]? else m.byte p := by
  have hlen : 0 < src.length := List.length_pos_iff.mpr hsrc
  obtain ⟨l, x, r, hhead, hxend, hxroom, hA, hB, hsA, hsB, hzA, hzB, hel, hhi, hhi1, hhi2, hbytes, hxm⟩ :=
    nodeToRecieve_spec hi hlen hfree
  -- the shape of writeAvailable on that root
  have hk1 : 0 < min src.length (pageSize - x.data.length) := by omega
  have hk2 : min src.length (pageSize - x.data.length) ≤ src.length := Nat.min_le_left _ _
  have hk3 : x.data.length + min src.length (pageSize - x.data.length) ≤ pageSize := by omega
  refine ⟨{ nodes := { (m.nodeToRecieve cur).nodes with
                        head := .node l { x with data := x.data ++ src.take (min src.length (pageSize - x.data.length)) } r },
            hi := if (m.nodeToRecieve cur).hi ≤ cur then cur + min src.length (pageSize - x.data.length)
                  else (m.nodeToRecieve cur).hi },
    min src.length (pageSize - x.data.length), ?_, hk1, hk2, ?_, ?_, ?_⟩
  · unfold MemHdr.writeAvailable
    rw [hhead]
    simp only
    have e1 : ¬ cur ≠ x.offset + x.data.length := by unfold MNode.end at hxend; omega
    have e2 : (!x.canAccept cur) = false := by
      unfold MNode.canAccept MNode.space
      simp [hxend]; omega
    simp only [e1, if_false, e2, Bool.false_eq_true, MNode.space]
  · -- the invariant
    have hx'end : ({ x with data := x.data ++ src.take (min src.length (pageSize - x.data.length)) } : MNode).end =
        cur + min src.length (pageSize - x.data.length) := by
      unfold MNode.end at hxend ⊢
      simp only [List.length_append, List.length_take]
      omega
    refine ⟨?_, ?_, ?_, ?_⟩
    · show Sorted (l.inorder ++ _ :: r.inorder)
      rw [sorted_append]
      refine ⟨hsA, sorted_cons.mpr ⟨?_, hsB⟩, ?_⟩
      · intro b hb; rw [hx'end]; have := hB b hb; omega
      · intro a ha b hb
        rcases List.mem_cons.mp hb with rfl | hb'
        · exact hA a ha
        · have h1 := hA a ha; have h2 := hB b hb'
          unfold MNode.end at hxend; omega
    · show Sized (l.inorder ++ _ :: r.inorder)
      intro n hn
      rcases List.mem_append.mp hn with h | h
      · exact hzA n h
      · rcases List.mem_cons.mp h with rfl | h'
        · simp only [List.length_append, List.length_take]; omega
        · exact hzB n h'
    · show (m.nodeToRecieve cur).nodes.elements = (l.inorder ++ _ :: r.inorder).length
      rw [hel]; simp
    · show (if (m.nodeToRecieve cur).hi ≤ cur then cur + min src.length (pageSize - x.data.length) else (m.nodeToRecieve cur).hi) =
        lastEnd (l.inorder ++ _ :: r.inorder)
      rw [lastEnd_append_cons, hhi]
      by_cases hr : r.inorder = []
      · rw [if_pos hr, if_pos (hhi1 hr), hx'end]
      · rw [if_neg hr]
        obtain ⟨b, hb, hbe⟩ := lastEnd_mem hr
        have h1 := hB b hb
        have h2 := (hzB b hb).1
        have : ¬ m.hi ≤ cur := by rw [hhi2 hr, hbe]; unfold MNode.end; omega
        rw [if_neg this, hhi2 hr]
  · -- the rest of the range stays free
    show Free (l.inorder ++ _ :: r.inorder) _ _
    intro n hn
    rcases List.mem_append.mp hn with h | h
    · have := hA n h; unfold MNode.end at hxend this ⊢; omega
    · rcases List.mem_cons.mp h with rfl | h'
      · unfold MNode.end at hxend ⊢
        simp only [List.length_append, List.length_take]; omega
      · have := hB n h'; omega
  · -- the bytes
    intro p
    show byteAt (l.inorder ++ _ :: r.inorder) p = _
    have hsorted' : Sorted (l.inorder ++ ({ x with data := x.data ++ src.take (min src.length (pageSize - x.data.length)) } : MNode) :: r.inorder) := by
      rw [sorted_append]
      refine ⟨hsA, sorted_cons.mpr ⟨?_, hsB⟩, ?_⟩
      · intro b hb
        have := hB b hb
        unfold MNode.end at hxend ⊢
        simp only [List.length_append, List.length_take]; omega
      · intro a ha b hb
        rcases List.mem_cons.mp hb with rfl | hb'
        · exact hA a ha
        · have h1 := hA a ha; have h2 := hB b hb'
          unfold MNode.end at hxend; omega
    by_cases hp : x.offset ≤ p ∧ p < cur + min src.length (pageSize - x.data.length)
    · -- p is in the extended node
      have hhas : ({ x with data := x.data ++ src.take (min src.length (pageSize - x.data.length)) } : MNode).has p := by
        unfold MNode.has MNode.end at *
        simp only [List.length_append, List.length_take]; omega
      rw [byteAt_mem hsorted' (by simp) hhas]
      simp only
      rw [List.getElem?_append]
      by_cases hold : p < cur
      · -- an old byte of the node
        have h1 : p - x.offset < x.data.length := by unfold MNode.end at hxend; omega
        have h2 : ¬ (cur ≤ p ∧ p < cur + min src.length (pageSize - x.data.length)) := by omega
        rw [if_pos h1, if_neg h2, ← hbytes p]
        have hxhas : x.has p := by unfold MNode.has MNode.end at *; omega
        -- x is in the old list at the same place
        have hsorted0 : Sorted (l.inorder ++ x :: r.inorder) := by
          rw [sorted_append]
          refine ⟨hsA, sorted_cons.mpr ⟨?_, hsB⟩, ?_⟩
          · intro b hb; have := hB b hb; omega
          · intro a ha b hb
            rcases List.mem_cons.mp hb with rfl | hb'
            · exact hA a ha
            · have h1 := hA a ha; have h2 := hB b hb'
              unfold MNode.end at hxend; omega
        rw [byteAt_mem hsorted0 (by simp) hxhas]
      · have h1 : ¬ p - x.offset < x.data.length := by unfold MNode.end at hxend; omega
        have h2 : cur ≤ p ∧ p < cur + min src.length (pageSize - x.data.length) := by omega
        rw [if_neg h1, if_pos h2, List.getElem?_take]
        have h3 : p - x.offset - x.data.length < min src.length (pageSize - x.data.length) := by
          unfold MNode.end at hxend; omega
        rw [if_pos h3]
        congr 1
        unfold MNode.end at hxend; omega
    · have hnot : ¬ ({ x with data := x.data ++ src.take (min src.length (pageSize - x.data.length)) } : MNode).has p := by
        unfold MNode.has MNode.end at *
        simp only [List.length_append, List.length_take]; omega
      rw [byteAt_skip _ _ _ hnot]
      have hnotx : ¬ x.has p := by unfold MNode.has MNode.end at *; omega
      have h2 : ¬ (cur ≤ p ∧ p < cur + min src.length (pageSize - x.data.length)) := by
        unfold MNode.end at hxend; omega
      rw [if_neg h2, ← hbytes p, byteAt_skip _ _ _ hnotx]

/-- the `while` loop of `write()` deposits the source bytes from `cur` on -/
theorem writeLoop_spec : ∀ (fuel : Nat) (m : MemHdr) (cur : Nat) (src : List UInt8), Inv m → src.length < fuel →
    Free (nodesOf m) cur (cur + src.length) →
    ∃ m', MemHdr.writeLoop fuel m cur src = .ok m' ∧ Inv m' ∧
      ∀ p, m'.byte p = if cur ≤ p ∧ p < cur + src.length then src[p - cur]? else m.byte p
  | 0, _, _, _, _, hf, _ => by omega
  | fuel + 1, m, cur, src, hi, hf, hfree => by
    unfold MemHdr.writeLoop
    by_cases hsrc : src = []
    · subst hsrc
      refine ⟨m, by simp, hi, ?_⟩
      intro p
      have : ¬ (cur ≤ p ∧ p < cur + ([] : List UInt8).length) := by simp
      rw [if_neg this]
    · have he : src.isEmpty = false := by cases src <;> simp_all
      simp only [he, Bool.false_eq_true, if_false]
      obtain ⟨m1, k, hw, hk1, hk2, hinv1, hfree1, hb1⟩ := write_step hi hsrc hfree
      rw [hw]; simp only
      have hk0 : ¬ k = 0 := by omega
      simp only [hk0, if_false]
      have hlen : (src.drop k).length = src.length - k := List.length_drop
      have hfree1' : Free (nodesOf m1) (cur + k) (cur + k + (src.drop k).length) := by
        rw [hlen]; have : cur + k + (src.length - k) = cur + src.length := by omega
        rw [this]; exact hfree1
      obtain ⟨m2, hl, hinv2, hb2⟩ := writeLoop_spec fuel m1 (cur + k) (src.drop k) hinv1 (by rw [hlen]; omega) hfree1'
      refine ⟨m2, hl, hinv2, ?_⟩
      intro p
      rw [hb2 p, hb1 p, hlen]
      by_cases h1 : cur + k ≤ p ∧ p < cur + k + (src.length - k)
      · have h2 : cur ≤ p ∧ p < cur + src.length := by omega
        rw [if_pos h1, if_pos h2, List.getElem?_drop]
        congr 1; omega
      · rw [if_neg h1]
        by_cases h3 : cur ≤ p ∧ p < cur + k
        · have h2 : cur ≤ p ∧ p < cur + src.length := by omega
          rw [if_pos h3, if_pos h2]
        · have h2 : ¬ (cur ≤ p ∧ p < cur + src.length) := by omega
          rw [if_neg h3, if_neg h2]

/-- a byte of `[a, b)` is present exactly when some node intersects the range -/
theorem free_iff_absent {l : List MNode} (hs : Sorted l) (hz : Sized l) (a b : Nat) :
    Free l a b ↔ ∀ p, a ≤ p → p < b → byteAt l p = none := by
  constructor
  · intro hf p h1 h2
    apply byteAt_none
    intro n hn hhas
    have := hf n hn
    unfold MNode.has at hhas; omega
  · intro h n hn hint
    -- the first byte of the intersection is present
    have hhas : n.has (max a n.offset) := by unfold MNode.has; omega
    have := h (max a n.offset) (by omega) (by omega)
    exact byteAt_has hs hn hhas this

/-- **`write()`**: never faults; it is refused (`fatal_dump`) exactly when a byte of the range is already present, and
then no byte changes; otherwise exactly the written bytes are added -/
theorem write_spec {m : MemHdr} (hi : Inv m) (off : Nat) (src : List UInt8) :
    ∃ m' res, m.write off src = .ok (m', res) ∧ Inv m' ∧
      (res = none ↔ ∃ p, off ≤ p ∧ p < off + src.length ∧ m.byte p ≠ none) ∧
      (res = none → ∀ p, m'.byte p = m.byte p) ∧
      (res ≠ none → res = some true ∧ ∀ p, m'.byte p = if off ≤ p ∧ p < off + src.length then src[p - off]? else m.byte p) := by
  obtain ⟨hinv1, hl1, _, hov⟩ := unionNotEmpty_spec hi off src.length
  have hfa := free_iff_absent hi.sorted hi.sized off (off + src.length)
  unfold MemHdr.write
  cases hu : m.unionNotEmpty off src.length with
  | mk m1 overlap =>
    rw [hu] at hinv1 hl1 hov
    simp only at hinv1 hl1 hov ⊢
    cases overlap with
    | true =>
      simp only [if_true]
      have hnf : ¬ Free (nodesOf m) off (off + src.length) := fun h => by have := hov.mpr h; cases this
      refine ⟨m1, none, rfl, hinv1, ?_, ?_, fun h => absurd rfl h⟩
      · simp only [true_iff]
        rw [hfa] at hnf
        refine Classical.byContradiction fun hne => hnf ?_
        intro p h1 h2
        refine Classical.byContradiction fun hp => hne ⟨p, h1, h2, hp⟩
      · intro _ p; unfold MemHdr.byte; rw [hl1]
    | false =>
      simp only [Bool.false_eq_true, if_false]
      have hfree : Free (nodesOf m1) off (off + src.length) := by rw [hl1]; exact hov.mp rfl
      obtain ⟨m2, hw, hinv2, hb⟩ := writeLoop_spec (src.length + 1) m1 off src hinv1 (by omega) hfree
      rw [hw]
      refine ⟨m2, some true, rfl, hinv2, ?_, (fun h => by cases h), (fun _ => ⟨rfl, ?_⟩)⟩
      · simp only [false_iff, reduceCtorEq]
        rintro ⟨p, h1, h2, h3⟩
        have := (hfa.mp (hov.mp rfl)) p h1 h2
        exact h3 this
      · intro p
        rw [hb p]; unfold MemHdr.byte; rw [hl1]

end SquidModel.MemHdr
