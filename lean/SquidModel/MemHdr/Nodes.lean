/-
The node list of a `mem_hdr` (the splay tree read left to right): what it means for it to be well-formed, which byte
it holds at each offset, and how `mem_hdr::NodeCompare` behaves along it.
-/
import SquidModel.MemHdr.Model
import SquidModel.MemHdr.SplayOps

namespace SquidModel.MemHdr
open SquidModel.Gen.MemHdrConsts

/-- nodes are in offset order and do not overlap -/
def Sorted (l : List MNode) : Prop := l.Pairwise (fun a b => a.end ≤ b.offset)

/-- every node holds between 1 and SM_PAGE_SIZE bytes -/
def Sized (l : List MNode) : Prop := ∀ n ∈ l, 0 < n.data.length ∧ n.data.length ≤ pageSize

/-- the node holds offset `p` -/
def MNode.has (n : MNode) (p : Nat) : Prop := n.offset ≤ p ∧ p < n.end

instance (n : MNode) (p : Nat) : Decidable (n.has p) := by unfold MNode.has; exact inferInstance

/-- the byte stored at offset `p`, if any -/
def byteAt : List MNode → Nat → Option UInt8
  | [], _ => none
  | n :: r, p => if n.has p then n.data[p - n.offset]? else byteAt r p

/-- the end of the last node (0 for no nodes): what `endOffset()` computes -/
def lastEnd (l : List MNode) : Nat :=
  match l.getLast? with
  | some n => n.end
  | none => 0

theorem pageSize_pos : 0 < pageSize := by decide

theorem pairwise_mem_cases {α : Type} {R : α → α → Prop} : ∀ {l : List α} {a b : α}, l.Pairwise R → a ∈ l → b ∈ l →
    a = b ∨ R a b ∨ R b a
  | [], _, _, _, ha, _ => by cases ha
  | x :: l, a, b, h, ha, hb => by
    rw [List.pairwise_cons] at h
    rcases List.mem_cons.mp ha with rfl | ha'
    · rcases List.mem_cons.mp hb with rfl | hb'
      · exact Or.inl rfl
      · exact Or.inr (Or.inl (h.1 b hb'))
    · rcases List.mem_cons.mp hb with rfl | hb'
      · exact Or.inr (Or.inr (h.1 a ha'))
      · exact pairwise_mem_cases h.2 ha' hb'

theorem byteAt_none {l : List MNode} {p : Nat} (h : ∀ n ∈ l, ¬ n.has p) : byteAt l p = none := by
  induction l with
  | nil => rfl
  | cons a r ih =>
    unfold byteAt
    rw [if_neg (h a (List.mem_cons_self ..))]
    exact ih (fun n hn => h n (List.mem_cons_of_mem _ hn))

/-- in a well-formed list the node that holds `p` determines the byte -/
theorem byteAt_mem : ∀ {l : List MNode} {n : MNode} {p : Nat}, Sorted l → n ∈ l → n.has p →
    byteAt l p = n.data[p - n.offset]?
  | [], _, _, _, h, _ => by cases h
  | a :: r, n, p, hs, hm, hp => by
    unfold byteAt
    unfold Sorted at hs
    rw [List.pairwise_cons] at hs
    rcases List.mem_cons.mp hm with rfl | hm'
    · rw [if_pos hp]
    · have : ¬ a.has p := by
        have := hs.1 n hm'
        unfold MNode.has at hp ⊢; omega
      rw [if_neg this]
      exact byteAt_mem hs.2 hm' hp

theorem byteAt_some_has : ∀ {l : List MNode} {p : Nat} {b : UInt8}, byteAt l p = some b → ∃ n ∈ l, n.has p
  | [], _, _, h => by simp [byteAt] at h
  | a :: r, p, b, h => by
    unfold byteAt at h
    by_cases hp : a.has p
    · exact ⟨a, List.mem_cons_self .., hp⟩
    · rw [if_neg hp] at h
      obtain ⟨n, hn, hnp⟩ := byteAt_some_has h
      exact ⟨n, List.mem_cons_of_mem _ hn, hnp⟩

theorem byteAt_has {l : List MNode} {n : MNode} {p : Nat} (hs : Sorted l) (hm : n ∈ l) (hp : n.has p) :
    byteAt l p ≠ none := by
  rw [byteAt_mem hs hm hp]
  unfold MNode.has MNode.end at hp
  have : p - n.offset < n.data.length := by omega
  simp [this]

/-- a node that does not hold `p` does not matter for the byte at `p` -/
theorem byteAt_skip (A : List MNode) (x : MNode) (B : List MNode) {p : Nat} (h : ¬ x.has p) :
    byteAt (A ++ x :: B) p = byteAt (A ++ B) p := by
  induction A with
  | nil =>
    show byteAt (x :: B) p = byteAt B p
    rw [byteAt, if_neg h]
  | cons a r ih =>
    show byteAt (a :: (r ++ x :: B)) p = byteAt (a :: (r ++ B)) p
    rw [byteAt, byteAt, ih]

/-! ### `NodeCompare` along a well-formed list -/

theorem nodeCompare_zero {ts te : Nat} {n : MNode} : nodeCompare ts te n = 0 ↔ max ts n.offset < min te n.end := by
  unfold nodeCompare
  by_cases h : max ts n.offset < min te n.end
  · simp [h]
  · simp only [h, if_false]
    by_cases h2 : ts < n.offset <;> simp [h2, h]

theorem nodeCompare_pos {ts te : Nat} {n : MNode} :
    0 < nodeCompare ts te n ↔ ¬ (max ts n.offset < min te n.end) ∧ n.offset ≤ ts := by
  unfold nodeCompare
  by_cases h : max ts n.offset < min te n.end
  · simp [h]
  · simp only [h, if_false]
    by_cases h2 : ts < n.offset
    · simp [h2]
    · simp [h2]; omega

theorem nodeCompare_neg {ts te : Nat} {n : MNode} :
    nodeCompare ts te n < 0 ↔ ¬ (max ts n.offset < min te n.end) ∧ ts < n.offset := by
  unfold nodeCompare
  by_cases h : max ts n.offset < min te n.end
  · simp [h]
  · simp only [h, if_false]
    by_cases h2 : ts < n.offset
    · simp [h2]
    · simp [h2]

/-- along a well-formed list the comparison with any target range goes from "after" over "intersects" to "before" -/
theorem mono_nodeCompare {l : List MNode} (hs : Sorted l) (hz : Sized l) (ts te : Nat) :
    Tree.Mono (nodeCompare ts te) l := by
  unfold Tree.Mono
  unfold Sorted at hs
  refine List.Pairwise.imp_of_mem ?_ hs
  intro a b ha hb hab
  have ha' := (hz a ha).1
  have hb' := (hz b hb).1
  constructor
  · intro h
    rw [nodeCompare_neg] at h ⊢
    unfold MNode.end at *
    omega
  · intro h
    rw [nodeCompare_pos] at h ⊢
    unfold MNode.end at *
    omega

theorem sorted_append {A B : List MNode} : Sorted (A ++ B) ↔ Sorted A ∧ Sorted B ∧ ∀ a ∈ A, ∀ b ∈ B, a.end ≤ b.offset := by
  unfold Sorted; exact List.pairwise_append

theorem sorted_cons {a : MNode} {B : List MNode} : Sorted (a :: B) ↔ (∀ b ∈ B, a.end ≤ b.offset) ∧ Sorted B := by
  unfold Sorted; exact List.pairwise_cons

theorem lastEnd_append_cons (A : List MNode) (x : MNode) (B : List MNode) :
    lastEnd (A ++ x :: B) = if B = [] then x.end else lastEnd B := by
  unfold lastEnd
  by_cases h : B = []
  · subst h
    simp
  · rw [if_neg h, Tree.getLast?_append_cons_ne A x h]

theorem lastEnd_nil : lastEnd [] = 0 := rfl

/-! ### what a reader is entitled to: the present bytes from `off` up to the first missing one, at most `len` -/

def readPrefix (f : Nat → Option UInt8) : Nat → Nat → List UInt8
  | _, 0 => []
  | off, len + 1 =>
    match f off with
    | none => []
    | some b => b :: readPrefix f (off + 1) len

theorem readPrefix_append (f : Nat → Option UInt8) : ∀ (bytes : List UInt8) (off len : Nat),
    bytes.length ≤ len → (∀ i, i < bytes.length → f (off + i) = bytes[i]?) →
    readPrefix f off len = bytes ++ readPrefix f (off + bytes.length) (len - bytes.length)
  | [], off, len, _, _ => by simp
  | b :: rest, off, 0, h, _ => by simp at h
  | b :: rest, off, len + 1, h, hf => by
    have h0 := hf 0 (by simp)
    simp only [Nat.add_zero, List.getElem?_cons_zero] at h0
    have hstep : readPrefix f off (len + 1) = b :: readPrefix f (off + 1) len := by
      simp only [readPrefix, h0]
    rw [hstep]
    simp only [List.cons_append, List.length_cons]
    have hlen : rest.length ≤ len := by simp only [List.length_cons] at h; omega
    rw [readPrefix_append f rest (off + 1) len hlen]
    · have e1 : off + 1 + rest.length = off + (rest.length + 1) := by omega
      have e2 : len - rest.length = len + 1 - (rest.length + 1) := by omega
      rw [e1, e2]
    · intro i hi
      have := hf (i + 1) (by simp; omega)
      simp only [List.getElem?_cons_succ] at this
      rw [← this]; congr 1; omega

theorem readPrefix_none (f : Nat → Option UInt8) {off : Nat} (len : Nat) (h : f off = none) : readPrefix f off len = [] := by
  cases len with
  | zero => rfl
  | succ n => unfold readPrefix; rw [h]

theorem readPrefix_zero (f : Nat → Option UInt8) (off : Nat) : readPrefix f off 0 = [] := rfl

/-- what `readPrefix` means: at most `len` bytes, each the byte present at its offset, stopping only at a missing byte -/
theorem readPrefix_spec (f : Nat → Option UInt8) : ∀ (len off : Nat),
    (readPrefix f off len).length ≤ len ∧
    (∀ i, i < (readPrefix f off len).length → f (off + i) = (readPrefix f off len)[i]?) ∧
    ((readPrefix f off len).length < len → f (off + (readPrefix f off len).length) = none)
  | 0, off => by simp [readPrefix]
  | len + 1, off => by
    cases hf : f off with
    | none =>
      have : readPrefix f off (len + 1) = [] := by simp only [readPrefix, hf]
      rw [this]; simp [hf]
    | some b =>
      have hstep : readPrefix f off (len + 1) = b :: readPrefix f (off + 1) len := by simp only [readPrefix, hf]
      obtain ⟨h1, h2, h3⟩ := readPrefix_spec f len (off + 1)
      rw [hstep]
      refine ⟨by simp only [List.length_cons]; omega, ?_, ?_⟩
      · intro i hi
        cases i with
        | zero => simp [hf]
        | succ j =>
          simp only [List.length_cons] at hi
          have := h2 j (by omega)
          simp only [List.getElem?_cons_succ]
          rw [← this]; congr 1; omega
      · intro hlt
        simp only [List.length_cons] at hlt ⊢
        have := h3 (by omega)
        rw [← this]; congr 1; omega

/-- every offset of `[s, s + n)` holds a byte -/
def allPresent (f : Nat → Option UInt8) : Nat → Nat → Bool
  | _, 0 => true
  | s, n + 1 => (f s).isSome && allPresent f (s + 1) n

theorem allPresent_iff (f : Nat → Option UInt8) : ∀ (s n : Nat),
    allPresent f s n = true ↔ ∀ p, s ≤ p → p < s + n → f p ≠ none
  | s, 0 => by simp [allPresent]; intro p h1 h2; omega
  | s, n + 1 => by
    unfold allPresent
    rw [Bool.and_eq_true, allPresent_iff f (s + 1) n]
    constructor
    · rintro ⟨h1, h2⟩ p hp1 hp2
      by_cases hps : p = s
      · subst hps; intro h; rw [h] at h1; simp at h1
      · exact h2 p (by omega) (by omega)
    · intro h
      refine ⟨?_, fun p hp1 hp2 => h p (by omega) (by omega)⟩
      have := h s (Nat.le_refl _) (by omega)
      cases hf : f s with
      | none => exact absurd hf this
      | some b => rfl

end SquidModel.MemHdr
