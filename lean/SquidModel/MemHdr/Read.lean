/-
`mem_hdr::copy` and `mem_hdr::hasContigousContentRange` on well-formed objects.
-/
import SquidModel.MemHdr.Inv

namespace SquidModel.MemHdr
open SquidModel.Gen.MemHdrConsts Tree

theorem byte_congr {m m' : MemHdr} (h : nodesOf m' = nodesOf m) : m'.byte = m.byte := by
  funext p; unfold MemHdr.byte; rw [h]

/-- what `getBlockContainingLocation` returns, as needed by the loops -/
def Located (m : MemHdr) (p : Option MNode) (loc : Nat) : Prop :=
  match p with
  | none => m.byte loc = none
  | some n => n ∈ nodesOf m ∧ n.has loc

theorem getBlock_located {m : MemHdr} (hi : Inv m) (loc : Nat) :
    Located m (m.getBlock loc).2 loc := by
  obtain ⟨_, _, _, h4⟩ := getBlock_spec hi loc
  rcases h4 with ⟨hn, hf⟩ | ⟨_, v, _, _, hs, hh, hv⟩
  · rw [hn]; exact byteAt_none hf
  · rw [hs]; exact ⟨hv, hh⟩

theorem copyLoop_spec : ∀ (fuel : Nat) (m : MemHdr) (p : Option MNode) (loc togo : Nat) (acc : List UInt8),
    Inv m → togo < fuel → Located m p loc →
    ∃ m', MemHdr.copyLoop fuel m p loc togo acc = .ok (m', acc ++ readPrefix m.byte loc togo) ∧ Inv m' ∧
      nodesOf m' = nodesOf m
  | 0, _, _, _, _, _, _, hf, _ => by omega
  | fuel + 1, m, p, loc, togo, acc, hi, hf, hloc => by
    unfold MemHdr.copyLoop
    cases p with
    | none =>
      simp only
      unfold Located at hloc; simp only at hloc
      rw [readPrefix_none _ _ hloc, List.append_nil]
      exact ⟨m, rfl, hi, rfl⟩
    | some n =>
      simp only
      unfold Located at hloc; simp only at hloc
      obtain ⟨hn, hhas⟩ := hloc
      by_cases ht : togo = 0
      · subst ht
        simp only [if_true, readPrefix_zero, List.append_nil]
        exact ⟨m, rfl, hi, rfl⟩
      · simp only [ht, if_false]
        have hoff : n.offset ≤ loc := hhas.1
        have hend : loc < n.end := hhas.2
        have hca : MemHdr.copyAvailable n loc togo =
            .ok ((n.data.drop (loc - n.offset)).take (min togo (n.data.length - (loc - n.offset)))) := by
          unfold MemHdr.copyAvailable
          have e1 : ¬ n.offset > loc := by omega
          have e2 : ¬ ¬ (n.end > loc) := by omega
          simp only [e1, if_false, e2]
        rw [hca]; simp only
        have hklen : ((n.data.drop (loc - n.offset)).take (min togo (n.data.length - (loc - n.offset)))).length =
            min togo (n.data.length - (loc - n.offset)) := by
          rw [List.length_take, List.length_drop]; omega
        have hkpos : 0 < min togo (n.data.length - (loc - n.offset)) := by unfold MNode.end at hend; omega
        rw [hklen]
        have hk0 : ¬ min togo (n.data.length - (loc - n.offset)) = 0 := by omega
        simp only [hk0, if_false]
        obtain ⟨hinv1, hl1, _, _⟩ := getBlock_spec hi (loc + min togo (n.data.length - (loc - n.offset)))
        have hloc1 := getBlock_located hi (loc + min togo (n.data.length - (loc - n.offset)))
        cases hg : m.getBlock (loc + min togo (n.data.length - (loc - n.offset))) with
        | mk m1 p1 =>
          rw [hg] at hinv1 hl1 hloc1
          simp only at hinv1 hl1 hloc1 ⊢
          have hloc1' : Located m1 p1 (loc + min togo (n.data.length - (loc - n.offset))) := by
            unfold Located at hloc1 ⊢
            cases p1 with
            | none => simp only at hloc1 ⊢; rw [byte_congr hl1]; exact hloc1
            | some v => simp only at hloc1 ⊢; rw [hl1]; exact hloc1
          obtain ⟨m2, hl, hinv2, hl2⟩ := copyLoop_spec fuel m1 p1 _ (togo - min togo (n.data.length - (loc - n.offset)))
            (acc ++ (n.data.drop (loc - n.offset)).take (min togo (n.data.length - (loc - n.offset)))) hinv1 (by omega) hloc1'
          refine ⟨m2, ?_, hinv2, by rw [hl2, hl1]⟩
          rw [hl, byte_congr hl1, List.append_assoc]
          congr 2
          have hrp := readPrefix_append m.byte
            ((n.data.drop (loc - n.offset)).take (min togo (n.data.length - (loc - n.offset)))) loc togo
            (by rw [hklen]; exact Nat.min_le_left _ _) ?_
          · rw [hrp, hklen]
          · intro i hi'
            rw [hklen] at hi'
            have hhas' : n.has (loc + i) := by unfold MNode.has MNode.end at *; omega
            unfold MemHdr.byte
            rw [byteAt_mem hi.sorted hn hhas', List.getElem?_take, if_pos hi', List.getElem?_drop]
            congr 1; omega

/-- **`copy()`**: never faults on a non-empty object and a non-empty target; it is refused (`fatal_dump`) exactly when the
first byte is absent; otherwise it returns exactly the present bytes up to the first missing one -/
theorem copy_spec {m : MemHdr} (hi : Inv m) (off : Nat) {len : Nat} (hlen : 0 < len) (hne : m.nodes.elements ≠ 0) :
    ∃ m', m.copy off len = .ok (m', if m.byte off = none then none else some (readPrefix m.byte off len)) ∧ Inv m' ∧
      nodesOf m' = nodesOf m ∧ m'.hi = m.hi := by
  unfold MemHdr.copy
  have e1 : ¬ ¬ (off + len > off) := by omega
  simp only [e1, if_false, hne]
  obtain ⟨hinv1, hl1, hh1, _⟩ := getBlock_spec hi off
  have hloc1 := getBlock_located hi off
  cases hg : m.getBlock off with
  | mk m1 p1 =>
    rw [hg] at hinv1 hl1 hloc1 hh1
    simp only at hinv1 hl1 hloc1 hh1 ⊢
    cases p1 with
    | none =>
      unfold Located at hloc1; simp only at hloc1 ⊢
      rw [if_pos hloc1]
      exact ⟨m1, rfl, hinv1, hl1, hh1⟩
    | some n =>
      unfold Located at hloc1; simp only at hloc1 ⊢
      have hpres : m.byte off ≠ none := byteAt_has hi.sorted hloc1.1 hloc1.2
      rw [if_neg hpres]
      have hloc1' : Located m1 (some n) off := by
        unfold Located; simp only; rw [hl1]; exact hloc1
      obtain ⟨m2, hl, hinv2, hl2⟩ := copyLoop_spec (len + 1) m1 (some n) off len [] hinv1 (by omega) hloc1'
      rw [hl]; simp only [List.nil_append]
      refine ⟨m2, by rw [byte_congr hl1], hinv2, by rw [hl2, hl1], ?_⟩
      -- copyLoop only reshapes the tree
      have : m2.hi = lastEnd (nodesOf m2) := hinv2.hi
      rw [this, hl2, hl1, ← hi.hi]

theorem countP_lt_of_witness {α : Type} (p q : α → Bool) : ∀ {l : List α} {a : α}, (∀ x ∈ l, q x = true → p x = true) →
    a ∈ l → p a = true → q a = false → l.countP q < l.countP p
  | [], _, _, h, _, _ => by cases h
  | x :: l, a, hsub, ha, hpa, hqa => by
    have hmono : l.countP q ≤ l.countP p := by
      apply List.countP_mono_left
      intro y hy hqy; exact hsub y (List.mem_cons_of_mem _ hy) hqy
    rcases List.mem_cons.mp ha with rfl | ha'
    · rw [List.countP_cons, List.countP_cons, hpa, hqa]; simp; omega
    · have ih := countP_lt_of_witness p q (fun y hy => hsub y (List.mem_cons_of_mem _ hy)) ha' hpa hqa
      rw [List.countP_cons, List.countP_cons]
      by_cases hqx : q x = true
      · rw [hsub x (List.mem_cons_self ..) hqx, hqx]; simp; omega
      · have : q x = false := by cases h : q x <;> simp_all
        rw [this]; simp; split <;> omega

theorem contigLoop_spec : ∀ (fuel : Nat) (m : MemHdr) (cur rs re : Nat), Inv m →
    (nodesOf m).countP (fun n => decide (cur < n.end)) < fuel → rs ≤ cur → (cur = rs ∨ cur < re) →
    (∀ p, rs ≤ p → p < cur → m.byte p ≠ none) →
    ∃ m' b, MemHdr.contigLoop fuel m cur rs re = .ok (m', b) ∧ Inv m' ∧ nodesOf m' = nodesOf m ∧ m'.hi = m.hi ∧
      (b = true ↔ ∀ p, rs ≤ p → p < re → m.byte p ≠ none)
  | 0, _, _, _, _, _, hf, _, _, _ => by omega
  | fuel + 1, m, cur, rs, re, hi, hf, hle, hcase, hpre => by
    unfold MemHdr.contigLoop
    obtain ⟨hinv1, hl1, hh1, _⟩ := getBlock_spec hi cur
    have hloc1 := getBlock_located hi cur
    cases hg : m.getBlock cur with
    | mk m1 p1 =>
      rw [hg] at hinv1 hl1 hloc1 hh1
      simp only at hinv1 hl1 hloc1 hh1 ⊢
      cases p1 with
      | none =>
        unfold Located at hloc1; simp only at hloc1 ⊢
        refine ⟨m1, _, rfl, hinv1, hl1, hh1, ?_⟩
        simp only [decide_eq_true_eq]
        constructor
        · intro h p h1 h2; omega
        · intro h hgt
          rcases hcase with hc | hc
          · exact h rs (Nat.le_refl _) hgt (hc ▸ hloc1)
          · exact h cur hle hc hloc1
      | some n =>
        unfold Located at hloc1; simp only at hloc1 ⊢
        obtain ⟨hn, hhas⟩ := hloc1
        have hcover : ∀ p, rs ≤ p → p < n.end → m.byte p ≠ none := by
          intro p h1 h2
          by_cases hp : p < cur
          · exact hpre p h1 hp
          · exact byteAt_has hi.sorted hn (by unfold MNode.has at hhas ⊢; omega)
        by_cases hge : n.end ≥ re
        · simp only [hge, if_true]
          refine ⟨m1, true, rfl, hinv1, hl1, hh1, ?_⟩
          simp only [true_iff]
          intro p h1 h2; exact hcover p h1 (by omega)
        · simp only [hge, if_false]
          have hmeasure : (nodesOf m1).countP (fun x => decide (n.end < x.end)) < fuel := by
            rw [hl1]
            have := countP_lt_of_witness (fun x : MNode => decide (cur < x.end)) (fun x => decide (n.end < x.end))
              (l := nodesOf m) (a := n)
              (by intro x _ hx; simp only [decide_eq_true_eq] at hx ⊢; unfold MNode.has at hhas; omega)
              hn (by simp only [decide_eq_true_eq]; exact hhas.2) (by simp)
            omega
          obtain ⟨m2, b, hl, hinv2, hl2, hh2, hb⟩ := contigLoop_spec fuel m1 n.end rs re hinv1 hmeasure
            (by unfold MNode.has at hhas; omega) (Or.inr (by omega))
            (by intro p h1 h2; rw [byte_congr hl1]; exact hcover p h1 h2)
          refine ⟨m2, b, hl, hinv2, by rw [hl2, hl1], by rw [hh2, hh1], ?_⟩
          rw [hb, byte_congr hl1]

/-- **`hasContigousContentRange()`**: never faults; true exactly when every byte of the range is present -/
theorem contig_spec {m : MemHdr} (hi : Inv m) (rs re : Nat) :
    ∃ m' b, m.hasContigousContentRange rs re = .ok (m', b) ∧ Inv m' ∧ nodesOf m' = nodesOf m ∧ m'.hi = m.hi ∧
      (b = true ↔ ∀ p, rs ≤ p → p < re → m.byte p ≠ none) := by
  unfold MemHdr.hasContigousContentRange
  refine contigLoop_spec _ m rs rs re hi ?_ (Nat.le_refl _) (Or.inl rfl) (fun p h1 h2 => by omega)
  have := List.countP_le_length (p := fun n : MNode => decide (rs < n.end)) (l := nodesOf m)
  rw [hi.count]; omega

end SquidModel.MemHdr
