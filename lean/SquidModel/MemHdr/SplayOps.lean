/-
`Splay::find / insert / remove / start / finish` as operations on the in-order list, for a comparison that is
monotone along that list.
-/
import SquidModel.MemHdr.SplayLemmas

namespace SquidModel.MemHdr
open Tree

namespace Tree
variable {α : Type}

theorem mono_append_left {cmp : α → Int} {A B : List α} (h : Mono cmp (A ++ B)) : Mono cmp A :=
  (List.pairwise_append.mp h).1

theorem mono_append_right {cmp : α → Int} {A B : List α} (h : Mono cmp (A ++ B)) : Mono cmp B :=
  (List.pairwise_append.mp h).2.1

theorem start_eq_head? : ∀ t : Tree α, start t = (inorder t).head?
  | nil => rfl
  | node nil v r => by simp [start, inorder]
  | node (node ll lv lr) v r => by
    rw [start, start_eq_head? (node ll lv lr)]
    simp only [inorder, List.append_assoc]
    cases h : inorder ll with
    | nil => simp
    | cons a t => simp

theorem getLast?_append_cons_ne : ∀ (A : List α) (v : α) {B : List α}, B ≠ [] → (A ++ v :: B).getLast? = B.getLast?
  | [], v, B, h => by
    cases B with
    | nil => exact absurd rfl h
    | cons b t => simp [List.getLast?_cons_cons]
  | a :: A', v, B, h => by
    have ih := getLast?_append_cons_ne A' v h
    cases hA : A' ++ v :: B with
    | nil => simp at hA
    | cons y t =>
      rw [List.cons_append, hA, List.getLast?_cons_cons, ← hA, ih]

theorem finish_eq_getLast? : ∀ t : Tree α, finish t = (inorder t).getLast?
  | nil => rfl
  | node l v nil => by simp [finish, inorder]
  | node l v (node rl rv rr) => by
    rw [finish, finish_eq_getLast? (node rl rv rr)]
    have hne : inorder (node rl rv rr) ≠ [] := by simp [inorder]
    show (inorder (node rl rv rr)).getLast? = (inorder l ++ v :: inorder (node rl rv rr)).getLast?
    rw [getLast?_append_cons_ne l.inorder v hne]

theorem isSingle_iff (t : Tree α) : isSingle t = true ↔ ∃ v, t = node nil v nil := by
  cases t with
  | nil => simp [isSingle]
  | node l v r =>
    cases l <;> cases r <;> simp [isSingle]

/-- where the unique element that compares equal sits -/
theorem split_unique {cmp : α → Int} {z : α} (hz : cmp z = 0) : ∀ {A l1 : List α} {B r1 : List α},
    l1 ++ z :: r1 = A ++ z :: B → (∀ a ∈ A, cmp a ≠ 0) → (∀ b ∈ B, cmp b ≠ 0) → l1 = A ∧ r1 = B
  | [], [], B, r1, h, _, _ => by simp only [List.nil_append, List.cons.injEq, true_and] at h; exact ⟨rfl, h⟩
  | [], y :: l1', B, r1, h, _, hB => by
    simp only [List.nil_append, List.cons_append, List.cons.injEq] at h
    have : z ∈ B := by rw [← h.2]; simp
    exact absurd hz (hB z this)
  | a :: A', [], B, r1, h, hA, _ => by
    simp only [List.nil_append, List.cons_append, List.cons.injEq] at h
    exact absurd (h.1 ▸ hz) (hA a (List.mem_cons_self ..))
  | a :: A', y :: l1', B, r1, h, hA, hB => by
    simp only [List.cons_append, List.cons.injEq] at h
    obtain ⟨e1, e2⟩ := split_unique hz h.2 (fun x hx => hA x (List.mem_cons_of_mem _ hx)) hB
    exact ⟨by rw [h.1, e1], e2⟩

end Tree

namespace Splay
variable {α : Type}

/-- the elements in order (`visit`) -/
def toList (s : Splay α) : List α := s.head.inorder

theorem find_nil (cmp : α → Int) {s : Splay α} (hh : s.head = .nil) : s.find cmp = (s, none) := by
  unfold find; rw [hh]

theorem find_node (cmp : α → Int) {s : Splay α} {l r l' r' : Tree α} {v v' : α} {c : Int} (hh : s.head = .node l v r)
    (hs : splay cmp (.node l v r) = (.node l' v' r', c)) :
    s.find cmp = ({ s with head := .node l' v' r' }, if c ≠ 0 then none else some v') := by
  unfold find; rw [hh]; simp only; rw [hs]

theorem find_spec (cmp : α → Int) (s : Splay α) (hm : Mono cmp s.toList) :
    (s.find cmp).1.toList = s.toList ∧ (s.find cmp).1.elements = s.elements ∧
    (((s.find cmp).2 = none ∧ ∀ x ∈ s.toList, cmp x ≠ 0) ∨
     (∃ l v r, (s.find cmp).1.head = .node l v r ∧ (s.find cmp).2 = some v ∧ cmp v = 0 ∧ v ∈ s.toList)) := by
  cases hh : s.head with
  | nil =>
    rw [find_nil cmp hh]
    refine ⟨rfl, rfl, Or.inl ⟨rfl, ?_⟩⟩
    intro x hx; unfold toList at hx; rw [hh] at hx; simp [inorder] at hx
  | node l v r =>
    have hm' : Mono cmp (inorder (node l v r)) := by unfold toList at hm; rw [hh] at hm; exact hm
    obtain ⟨l', v', r', hs, hnz⟩ := splay_spec cmp l v r (ok_of_mono cmp _ hm')
    have hin := inorder_splay cmp (node l v r)
    rw [hs] at hin
    simp only at hin
    rw [find_node cmp hh hs]
    have htl : s.toList = inorder l' ++ v' :: inorder r' := by unfold toList; rw [hh, ← hin]; rfl
    refine ⟨?_, rfl, ?_⟩
    · show inorder (node l' v' r') = s.toList
      rw [htl]; rfl
    · by_cases hc : cmp v' = 0
      · right
        refine ⟨l', v', r', rfl, by simp [hc], hc, ?_⟩
        rw [htl]; simp
      · left
        refine ⟨by simp [hc], ?_⟩
        obtain ⟨h1, h2⟩ := hnz hc
        intro x hx
        rw [htl] at hx
        simp only [List.mem_append, List.mem_cons] at hx
        rcases hx with h | h | h
        · have := h1 x h; omega
        · rw [h]; exact hc
        · have := h2 x h; omega

/-- inserting an element that compares equal to nothing: it lands between the elements above and below it and
becomes the root -/
theorem insert_spec (cmp : α → Int) (x : α) (s : Splay α) (hm : Mono cmp s.toList) (hnz : ∀ y ∈ s.toList, cmp y ≠ 0) :
    ∃ A B l r, s.toList = A ++ B ∧ (s.insert cmp x).head = .node l x r ∧ (s.insert cmp x).toList = A ++ x :: B ∧
      (s.insert cmp x).elements = s.elements + 1 ∧ (∀ a ∈ A, 0 < cmp a) ∧ (∀ b ∈ B, cmp b < 0) := by
  obtain ⟨hl, he, hres⟩ := find_spec cmp s hm
  have hnone : (s.find cmp).2 = none := by
    rcases hres with h | ⟨_, v, _, _, _, hz, hv⟩
    · exact h.1
    · exact absurd hz (hnz v hv)
  unfold insert
  cases hf : s.find cmp with
  | mk s' r =>
    rw [hf] at hl he hnone
    simp only at hl he hnone
    subst hnone
    simp only
    cases hh : s'.head with
    | nil =>
      refine ⟨[], [], .nil, .nil, ?_, rfl, ?_, by simp only [he], (fun _ h => by cases h), (fun _ h => by cases h)⟩
      · rw [← hl]; unfold toList; rw [hh]; rfl
      · unfold toList; rfl
    | node l v r =>
      simp only
      have hm' : Mono cmp (inorder (node l v r)) := by
        have : s'.toList = inorder (node l v r) := by unfold toList; rw [hh]
        rw [← this, hl]; exact hm
      obtain ⟨l', v', r', hs, hsign⟩ := splay_spec cmp l v r (ok_of_mono cmp _ hm')
      have hin := inorder_splay cmp (node l v r)
      rw [hs] at hin
      simp only at hin
      have htot : s.toList = inorder l' ++ v' :: inorder r' := by
        rw [← hl]; unfold toList; rw [hh, ← hin]; rfl
      have hv' : cmp v' ≠ 0 := hnz v' (by rw [htot]; simp)
      obtain ⟨h1, h2⟩ := hsign hv'
      unfold insertNode
      rw [hs]
      simp only
      by_cases hc : cmp v' < 0
      · simp only [hc, if_true]
        refine ⟨inorder l', v' :: inorder r', l', _, htot, rfl, ?_, by simp only [he], h1, ?_⟩
        · unfold toList; simp [inorder]
        · intro b hb
          rcases List.mem_cons.mp hb with rfl | hb'
          · exact hc
          · exact h2 b hb'
      · have hc' : 0 < cmp v' := by omega
        simp only [hc, hc', if_false, if_true, gt_iff_lt]
        refine ⟨inorder l' ++ [v'], inorder r', _, r', by rw [htot]; simp, rfl, ?_, by simp only [he], ?_, h2⟩
        · unfold toList; simp [inorder]
        · intro a ha
          rcases List.mem_append.mp ha with h | h
          · exact h1 a h
          · simp only [List.mem_singleton] at h; rw [h]; exact hc'

/-- removing the one element that compares equal -/
theorem remove_spec (cmp : α → Int) (s : Splay α) (hm : Mono cmp s.toList) {A B : List α} {z : α}
    (hs : s.toList = A ++ z :: B) (hz : cmp z = 0) (hA : ∀ a ∈ A, 0 < cmp a) (hB : ∀ b ∈ B, cmp b < 0) :
    (s.remove cmp).toList = A ++ B ∧ (s.remove cmp).elements = s.elements - 1 := by
  obtain ⟨hl, he, hres⟩ := find_spec cmp s hm
  have hA' : ∀ a ∈ A, cmp a ≠ 0 := fun a ha => by have := hA a ha; omega
  have hB' : ∀ b ∈ B, cmp b ≠ 0 := fun b hb => by have := hB b hb; omega
  rcases hres with ⟨_, hno⟩ | ⟨l, v, r, hh, hsome, hv0, hvm⟩
  · exact absurd hz (hno z (by rw [hs]; simp))
  · have hvz : v = z := by
      rw [hs] at hvm
      simp only [List.mem_append, List.mem_cons] at hvm
      rcases hvm with h | h | h
      · exact absurd hv0 (hA' v h)
      · exact h
      · exact absurd hv0 (hB' v h)
    subst hvz
    unfold remove
    cases hf : s.find cmp with
    | mk s' res =>
      rw [hf] at hl he hh hsome
      simp only at hl he hh hsome
      subst hsome
      simp only
      have hsplit : inorder l ++ v :: inorder r = A ++ v :: B := by
        rw [← hs, ← hl]; unfold toList; rw [hh]; rfl
      obtain ⟨eA, eB⟩ := split_unique hz hsplit hA' hB'
      refine ⟨?_, by simp only [he]⟩
      unfold toList
      simp only
      rw [hh]
      unfold removeNode
      rw [splay_root_zero cmp l v r hz]
      simp only [if_true]
      cases hl' : l with
      | nil =>
        simp only
        rw [hl'] at eA
        simp only [inorder] at eA
        rw [← eA, ← eB]; rfl
      | node ll lv lr =>
        simp only
        have hmA : Mono cmp (inorder (node ll lv lr)) := by
          rw [← hl', eA]; rw [hs] at hm; exact mono_append_left hm
        obtain ⟨nl, nv, nr, hsp, hsign⟩ := splay_spec cmp ll lv lr (ok_of_mono cmp _ hmA)
        have hin := inorder_splay cmp (node ll lv lr)
        rw [hsp] at hin
        simp only at hin
        rw [hsp]
        simp only
        have hAin : inorder nl ++ nv :: inorder nr = A := by
          have : inorder (node nl nv nr) = A := by rw [hin, ← hl', eA]
          exact this
        have hnv : cmp nv ≠ 0 := hA' nv (by rw [← hAin]; simp)
        obtain ⟨_, h2⟩ := hsign hnv
        have hnr : inorder nr = [] := by
          cases hnr : inorder nr with
          | nil => rfl
          | cons y t =>
            have hy : y ∈ inorder nr := by rw [hnr]; exact List.mem_cons_self ..
            have h3 := h2 y hy
            have h4 := hA y (by rw [← hAin]; simp [hy])
            omega
        rw [hnr] at hAin
        simp only [inorder]
        rw [← hAin, ← eB]
        simp

theorem start_toList (s : Splay α) : s.start = s.toList.head? := start_eq_head? _
theorem finish_toList (s : Splay α) : s.finish = s.toList.getLast? := finish_eq_getLast? _

end Splay
end SquidModel.MemHdr
