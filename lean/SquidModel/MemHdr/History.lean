/-
Histories of `mem_hdr` calls: every call on a well-formed object returns normally, keeps it well-formed, and acts on the
byte map `m.byte : offset → byte option` as the sparse byte array `AbsStep` describes.
-/
import SquidModel.MemHdr.Write
import SquidModel.MemHdr.Free

namespace SquidModel.MemHdr
open SquidModel.Gen.MemHdrConsts Tree

/-- arguments the harness passes (a read asks for at least one byte: the real code asserts that) -/
def Op.Valid : Op → Prop
  | .read _ len => 0 < len
  | _ => True

/-- **the sparse byte array** every call is measured against: `f` is the map before the call, `f'` after it -/
def AbsStep (f : Nat → Option UInt8) (op : Op) (res : Res) (f' : Nat → Option UInt8) : Prop :=
  match op with
  | .write off src =>
    ((∃ p, off ≤ p ∧ p < off + src.length ∧ f p ≠ none) → res = .fatal ∧ f' = f) ∧
    ((∀ p, off ≤ p → p < off + src.length → f p = none) →
      res = .wrote ∧ ∀ p, f' p = if off ≤ p ∧ p < off + src.length then src[p - off]? else f p)
  | .read off len =>
    f' = f ∧ ((∀ p, f p = none) → res = .empty) ∧
    ((∃ p, f p ≠ none) → (f off = none → res = .fatal) ∧ (f off ≠ none → res = .bytes (readPrefix f off len)))
  | .contig s e =>
    f' = f ∧ ∃ b, res = .flag b ∧ (b = true ↔ ∀ p, s ≤ p → p < e → f p ≠ none)
  | .free target =>
    (∀ p, target ≤ p → f' p = f p) ∧ (∀ p b, f' p = some b → f p = some b) ∧
    ((∃ p, f p ≠ none) → ∃ p, f' p ≠ none) ∧
    ∃ lo, res = .lowest lo ∧ (∀ p, p < lo → f' p = none) ∧ ((∃ p, f' p ≠ none) → f' lo ≠ none) ∧ ((∀ p, f' p = none) → lo = 0)
  | .block loc =>
    f' = f ∧ ((f loc = none → res = .block none) ∧
      (f loc ≠ none → ∃ a n, res = .block (some (a, n)) ∧ a ≤ loc ∧ loc < a + n ∧ ∀ p, a ≤ p → p < a + n → f p ≠ none))
  | .nodeGet _ => f' = f
  | .writeComplete _ => f' = f
  | .freeContent => ∀ p, f' p = none

theorem nodes_nil_iff {m : MemHdr} (hi : Inv m) : nodesOf m = [] ↔ ∀ p, m.byte p = none := by
  constructor
  · intro h p; unfold MemHdr.byte; rw [h]; rfl
  · intro h
    cases hl : nodesOf m with
    | nil => rfl
    | cons s rest =>
      have hs : s ∈ nodesOf m := by rw [hl]; exact List.mem_cons_self ..
      have hsz := (hi.sized s hs).1
      exact absurd (h s.offset) (byteAt_has hi.sorted hs (by unfold MNode.has MNode.end; omega))

/-! flipping `write_pending` changes neither offsets nor data -/

def core (n : MNode) : Nat × List UInt8 := (n.offset, n.data)

theorem byteAt_congr : ∀ {l l' : List MNode}, l.map core = l'.map core → byteAt l = byteAt l'
  | [], [], _ => rfl
  | [], _ :: _, h => by simp at h
  | _ :: _, [], h => by simp at h
  | a :: r, a' :: r', h => by
    simp only [List.map_cons, List.cons.injEq] at h
    obtain ⟨h1, h2⟩ := h
    have ho : a.offset = a'.offset := congrArg Prod.fst h1
    have hd : a.data = a'.data := congrArg Prod.snd h1
    funext p
    have hiff : a.has p ↔ a'.has p := by unfold MNode.has MNode.end; rw [ho, hd]
    rw [byteAt, byteAt, byteAt_congr h2]
    by_cases h : a.has p
    · rw [if_pos h, if_pos (hiff.mp h), ho, hd]
    · rw [if_neg h, if_neg (mt hiff.mpr h)]

theorem sorted_congr {l l' : List MNode} (h : l.map core = l'.map core) (hs : Sorted l) : Sorted l' := by
  have key : ∀ l : List MNode, Sorted l ↔ (l.map core).Pairwise (fun a b => a.1 + a.2.length ≤ b.1) := by
    intro l; unfold Sorted; rw [List.pairwise_map]; rfl
  rw [key] at hs ⊢; rw [← h]; exact hs

theorem sized_congr {l l' : List MNode} (h : l.map core = l'.map core) (hs : Sized l) : Sized l' := by
  have key : ∀ l : List MNode, Sized l ↔ ∀ c ∈ l.map core, 0 < c.2.length ∧ c.2.length ≤ pageSize := by
    intro l; unfold Sized; simp [core]
  rw [key] at hs ⊢; rw [← h]; exact hs

theorem lastEnd_congr {l l' : List MNode} (h : l.map core = l'.map core) : lastEnd l = lastEnd l' := by
  have key : ∀ l : List MNode, lastEnd l = match (l.map core).getLast? with | some c => c.1 + c.2.length | none => 0 := by
    intro l; unfold lastEnd; rw [List.getLast?_map]
    cases l.getLast? <;> rfl
  rw [key, key, h]

theorem inv_setPending {m : MemHdr} (hi : Inv m) (v : Bool) (k : Nat) :
    Inv { m with nodes := { m.nodes with head := MemHdr.setPendingTree v m.nodes.head k } } ∧
    MemHdr.byte { m with nodes := { m.nodes with head := MemHdr.setPendingTree v m.nodes.head k } } = m.byte := by
  have hl : nodesOf { m with nodes := { m.nodes with head := MemHdr.setPendingTree v m.nodes.head k } } =
      setPendingList v (nodesOf m) k := inorder_setPendingTree v m.nodes.head k
  have hc : (nodesOf m).map core = (setPendingList v (nodesOf m) k).map core := (setPendingList_same v _ k).symm
  refine ⟨⟨?_, ?_, ?_, ?_⟩, ?_⟩
  · rw [hl]; exact sorted_congr hc hi.sorted
  · rw [hl]; exact sized_congr hc hi.sized
  · rw [hl]
    show m.nodes.elements = _
    have : (setPendingList v (nodesOf m) k).length = (nodesOf m).length := by
      have := congrArg List.length hc; simp at this; exact this.symm
    rw [this]; exact hi.count
  · rw [hl, ← lastEnd_congr hc]; exact hi.hi
  · funext p; unfold MemHdr.byte; rw [hl, ← byteAt_congr hc]

/-- **every call refines the sparse byte array** -/
theorem step_refines {m : MemHdr} (hi : Inv m) {op : Op} (hv : op.Valid) :
    ∃ m' res, step m op = .ok (m', res) ∧ Inv m' ∧ AbsStep m.byte op res m'.byte := by
  cases op with
  | write off src =>
    obtain ⟨m', res, hw, hinv, h1, h2, h3⟩ := write_spec hi off src
    cases res with
    | none =>
      refine ⟨m', .fatal, by simp only [step]; rw [hw], hinv, ?_, ?_⟩
      · intro _; exact ⟨rfl, funext (h2 rfl)⟩
      · intro hall
        obtain ⟨p, hp1, hp2, hp3⟩ := h1.mp rfl
        exact absurd (hall p hp1 hp2) hp3
    | some b =>
      obtain ⟨_, hb⟩ := h3 (by simp)
      refine ⟨m', .wrote, by simp only [step]; rw [hw], hinv, ?_, ?_⟩
      · intro hex
        have := h1.mpr hex
        cases this
      · intro _; exact ⟨rfl, hb⟩
  | read off len =>
    unfold Op.Valid at hv
    by_cases hz : m.nodes.elements = 0
    · refine ⟨m, .empty, by simp only [step, hz, if_true], hi, rfl, fun _ => rfl, ?_⟩
      rintro ⟨p, hp⟩
      have : nodesOf m = [] := List.eq_nil_of_length_eq_zero (by rw [← hi.count]; exact hz)
      exact absurd ((nodes_nil_iff hi).mp this p) hp
    · obtain ⟨m', hc, hinv, hl, _⟩ := copy_spec hi off hv hz
      have hne : ¬ ∀ p, m.byte p = none := by
        intro hall
        have := (nodes_nil_iff hi).mpr hall
        rw [hi.count, this] at hz; exact hz rfl
      by_cases hb : m.byte off = none
      · rw [if_pos hb] at hc
        refine ⟨m', .fatal, by simp only [step, hz, if_false]; rw [hc], hinv, byte_congr hl, fun h => absurd h hne, ?_⟩
        intro _; exact ⟨fun _ => rfl, fun h => absurd hb h⟩
      · rw [if_neg hb] at hc
        refine ⟨m', .bytes (readPrefix m.byte off len), by simp only [step, hz, if_false]; rw [hc], hinv,
          byte_congr hl, fun h => absurd h hne, ?_⟩
        intro _; exact ⟨fun h => absurd h hb, fun _ => rfl⟩
  | contig s e =>
    obtain ⟨m', b, hc, hinv, hl, _, hb⟩ := contig_spec hi s e
    exact ⟨m', .flag b, by simp only [step]; rw [hc], hinv, byte_congr hl, b, rfl, hb⟩
  | free target =>
    obtain ⟨m', hf, hinv, h1, h2, h3, _⟩ := free_spec hi target
    obtain ⟨hlo1, hlo2⟩ := lowestOffset_spec hinv
    refine ⟨m', .lowest m'.lowestOffset, by simp only [step]; rw [hf], hinv, h1, h2, ?_, m'.lowestOffset, rfl, ?_, ?_, ?_⟩
    · rintro ⟨p, hp⟩
      have hne : nodesOf m ≠ [] := fun h => hp ((nodes_nil_iff hi).mp h p)
      have hne' := h3 hne
      exact ⟨_, (hlo2 hne').1⟩
    · intro p hp
      by_cases hne : nodesOf m' = []
      · exact (nodes_nil_iff hinv).mp hne p
      · exact (hlo2 hne).2 p hp
    · rintro ⟨p, hp⟩
      have hne : nodesOf m' ≠ [] := fun h => hp ((nodes_nil_iff hinv).mp h p)
      exact (hlo2 hne).1
    · intro hall; exact hlo1 ((nodes_nil_iff hinv).mpr hall)
  | block loc =>
    obtain ⟨hinv, hl, _, hres⟩ := getBlock_spec hi loc
    cases hg : m.getBlock loc with
    | mk m1 p1 =>
      rw [hg] at hinv hl hres
      simp only at hinv hl hres
      rcases hres with ⟨hn, hf⟩ | ⟨l, v, r, _, hs, hhas, hv'⟩
      · subst hn
        refine ⟨m1, .block none, by simp only [step]; rw [hg], hinv, byte_congr hl, fun _ => rfl, ?_⟩
        intro hne; exact absurd (byteAt_none hf) hne
      · subst hs
        refine ⟨m1, .block (some (v.offset, v.data.length)), by simp only [step]; rw [hg], hinv, byte_congr hl, ?_, ?_⟩
        · intro hnone; exact absurd hnone (byteAt_has hi.sorted hv' hhas)
        · intro _
          refine ⟨v.offset, v.data.length, rfl, hhas.1, hhas.2, ?_⟩
          intro p h1 h2
          exact byteAt_has hi.sorted hv' ⟨h1, h2⟩
  | nodeGet k =>
    simp only [step]
    cases nth? m.nodes.head.inorder k with
    | none => exact ⟨m, _, rfl, hi, rfl⟩
    | some n =>
      simp only
      by_cases hp : n.pending = true
      · simp only [hp, if_true]; exact ⟨m, _, rfl, hi, rfl⟩
      · simp only [hp, Bool.false_eq_true, if_false]
        obtain ⟨hinv, hb⟩ := inv_setPending hi true k
        exact ⟨_, _, rfl, hinv, hb⟩
  | writeComplete k =>
    simp only [step]
    cases nth? m.nodes.head.inorder k with
    | none => exact ⟨m, _, rfl, hi, rfl⟩
    | some n =>
      simp only
      by_cases hp : n.pending = true
      · simp only [hp, Bool.not_true, Bool.false_eq_true, if_false]
        obtain ⟨hinv, hb⟩ := inv_setPending hi false k
        exact ⟨_, _, rfl, hinv, hb⟩
      · have : n.pending = false := by cases h : n.pending <;> simp_all
        simp only [this, Bool.not_false, if_true]; exact ⟨m, _, rfl, hi, rfl⟩
  | freeContent =>
    exact ⟨MemHdr.init, .unit, rfl, inv_init, fun _ => rfl⟩

/-- the sparse-array view of a whole run -/
def AbsRun : (Nat → Option UInt8) → List Op → List (Res × MemHdr) → Prop
  | _, [], [] => True
  | f, op :: ops, (res, m') :: rest => AbsStep f op res m'.byte ∧ AbsRun m'.byte ops rest
  | _, _, _ => False

/-- **histories**: from any well-formed object (in particular the fresh one) every history of valid calls runs without a
fault — no assert of stmem.cc / mem_node.cc fires, `endOffset() == inmem_hi` holds after every call, no loop diverges —,
every state reached is well-formed, and the results are those of the sparse byte array -/
theorem run_refines : ∀ (ops : List Op) (m : MemHdr), Inv m → (∀ op ∈ ops, op.Valid) →
    ∃ obs, run m ops = .ok obs ∧ (∀ o ∈ obs, Inv o.2) ∧ AbsRun m.byte ops obs
  | [], _, _, _ => ⟨[], rfl, (fun _ h => by cases h), trivial⟩
  | op :: rest, m, hi, hv => by
    obtain ⟨m', res, hs, hinv, habs⟩ := step_refines hi (hv op (List.mem_cons_self ..))
    obtain ⟨obs, hr, hall, hrun⟩ := run_refines rest m' hinv (fun o ho => hv o (List.mem_cons_of_mem _ ho))
    refine ⟨(res, m') :: obs, ?_, ?_, ⟨habs, hrun⟩⟩
    · unfold run
      rw [hs]; simp only
      rw [(endOffset_spec hinv).1]; simp only
      rw [hr]
    · intro o ho
      rcases List.mem_cons.mp ho with rfl | ho'
      · exact hinv
      · exact hall o ho'

end SquidModel.MemHdr
