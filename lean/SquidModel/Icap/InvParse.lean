/-
The parsing side (decideOnParsingBody, parseBody, the ICAP status handlers, parseHeaders) keeps the invariants.
-/
import SquidModel.Icap.InvSend

namespace SquidModel.Icap
open SquidModel

variable {w : Bool}

theorem auxG_weaken {s : St} (a : AuxG false s) : AuxG true s :=
  ⟨fun h => ⟨(a.body h).1, (a.body h).2.1, fun h' => by cases h'⟩, a.icapH, a.httpH⟩

theorem auxG_false_of_true {s : St} (a : AuxG true s) (h : s.parsing ≠ .body) : AuxG false s :=
  ⟨fun h' => absurd h' h, a.icapH, a.httpH⟩

/-- leave the use-original-body window: parsing has moved on -/
theorem Tri.window {P Q : St → Prop} {f : Op} (h : Tri true P f Q) (hq : ∀ s, Q s → s.parsing ≠ .body) : Tri false P f Q :=
  fun s m a p => ⟨(h s m (auxG_weaken a) p).1, fun t =>
    ⟨auxG_false_of_true ((h s m (auxG_weaken a) p).2 t).1 (hq _ ((h s m (auxG_weaken a) p).2 t).2), ((h s m (auxG_weaken a) p).2 t).2⟩⟩

theorem tri_setParsing (p : Parsing) (hp : p = .icapTrailer ∨ p = .done) (P : St → Prop) :
    Tri w P (fun s => { s with parsing := p }) (fun s => s.parsing = p) := by
  apply Tri.atomic
  intro s m a _
  refine ⟨m.setParsing p, ?_, rfl⟩
  constructor <;> (intro (h : p = _); rcases hp with hp | hp <;> (rw [hp] at h; cases h))

theorem tri_stopParsing (c : Bool) (P : St → Prop) : Tri w P (stopParsing c) (fun s => s.parsing = .done) := by
  unfold stopParsing
  apply Tri.cond'
  · exact Tri.skip'.weaken (fun _ h => h) (fun s h => eq_of_beq h.2)
  · apply Tri.seq' (Q := fun _ => True)
    · exact (Tri.must' _).weaken (fun _ h => h) (fun _ _ => trivial)
    · exact tri_setParsing .done (Or.inr rfl) _

theorem tri_setParsingAfterBody (P : St → Prop) : Tri w P setParsingAfterBody (fun s => s.parsing ≠ .body) := by
  unfold setParsingAfterBody
  apply Tri.cond'
  · exact (tri_setParsing .icapTrailer (Or.inl rfl) _).weaken (fun _ h => h) (fun s h => by rw [h]; decide)
  · exact (tri_stopParsing true _).weaken (fun _ h => h) (fun s h => by rw [h]; decide)

def PartPre (pos : Nat) (s : St) : Prop := s.parsing = .body ∧ s.uob = none ∧ s.pending = [] ∧ s.lastSeen = some (some pos)

theorem tri_prepPartial (pos : Nat) : Tri true (PartPre pos) (prepPartialBodyEchoing pos) (fun s => s.parsing = .body) := by
  unfold prepPartialBodyEchoing
  apply Tri.seq' (Q := fun s => s.parsing = .body)
  · apply Tri.seq' (Q := fun s => s.parsing = .body)
    · apply Tri.seq' (Q := fun s => PartPre pos s ∧ s.vSending.st = .active ∧ pos ≤ s.put)
      · apply Tri.seq' (Q := fun s => PartPre pos s ∧ s.vSending.st = .active ∧ pos ≤ s.put)
        · apply Tri.seq' (Q := fun s => PartPre pos s ∧ s.vSending.st = .active)
          · refine (Tri.must' _).weaken (fun _ h => h) (fun s h => ⟨h.1, ?_⟩)
            have h2 := h.2
            simp only [Bool.and_eq_true, beq_iff_eq] at h2
            exact h2.1
          · refine (Tri.must' _).weaken (fun _ h => h) (fun s h => ⟨h.1.1, h.1.2, ?_⟩)
            have h2 := h.2
            simp only [decide_eq_true_eq] at h2
            exact h2
        · exact (Tri.must' _).weaken (fun _ h => h) (fun _ h => h.1)
      · apply Tri.atomic
        intro s m a ⟨⟨hpb, hu, hp, hl⟩, hact, hle⟩
        have b := a.body hpb
        have ho : s.outSt = .isOpen := by
          have h1 := b.2.1
          have h2 : ¬(s.outSt = .endedOk ∨ s.outSt = .aborted) := fun h => by
            have := m.pipeEnded h; rw [hact] at this; cases this
          cases hs : s.outSt with
          | noPipe => exact absurd hs h1
          | isOpen => rfl
          | endedOk => exact absurd (Or.inl hs) h2
          | aborted => exact absurd (Or.inr hs) h2
        refine ⟨m.startPart pos _ b.1 hu hp hl hle ho, ?_, hpb⟩
        constructor
        · intro _; exact ⟨b.1, b.2.1, fun h => by cases h⟩
        · intro (h : s.parsing = .icapHeader); rw [hpb] at h; cases h
        · intro (h : s.parsing = .httpHeader); rw [hpb] at h; cases h
    · exact Tri.ctl keeps_checkConsuming fr_checkConsuming (fun p _ _ _ _ => p = .body)
  · exact (tri_echoMore (fun p _ _ => p = .body)).weaken (fun _ h => h) (fun _ h => h.2)

theorem tri_moveBody : Tri false (fun s => s.parsing = .body) moveBody (fun s => s.parsing = .body) := by
  apply Tri.atomic
  intro s m a hpb
  have b := a.body hpb
  refine ⟨?_, AuxG.of_sameAux (s := s) ⟨rfl, rfl, rfl, rfl, rfl⟩ a, hpb⟩
  unfold moveBody
  dsimp only
  apply Main.moveBody m _ _ _ _ b.1 (b.2.2 rfl) b.2.1
  · unfold St.fitSize
    by_cases ho : s.outSt = .endedOk
    · right; rw [ho]; simp
    · left; exact ho
  · intro hb2
    split at hb2
    · cases hb2
    · rename_i hu
      refine ⟨hb2, ?_⟩
      have hu' : ¬ ((s.out ++ List.take s.fitSize s.pending).length - s.outTaken > 0) := by simpa using hu
      have := m.taken_le
      rw [List.length_append] at hu'
      have : (List.take s.fitSize s.pending).length = 0 := by omega
      exact List.length_eq_zero_iff.mp this

theorem tri_afterBodyMoved : Tri false (fun s => s.parsing = .body ∧ s.pending.isEmpty = true)
    (fun s => match s.lastSeen with
      | some u =>
        ((match s.readyForUob, u with
          | true, some pos => prepPartialBodyEchoing pos
          | _, _ => stopSending true) ;; setParsingAfterBody) s
      | none => must (fun s => !s.commEof) s) (fun _ => True) := by
  intro s m a ⟨hpb, hpe⟩
  have hp0 : s.pending = [] := List.isEmpty_iff.mp hpe
  have b := a.body hpb
  have stopCase : Tri false (fun t => t = s) (stopSending true ;; setParsingAfterBody) (fun _ => True) → s.lastSeen.isSome = true →
      Main ((stopSending true ;; setParsingAfterBody) s) ∧ (((stopSending true ;; setParsingAfterBody) s).thrown = false →
        AuxG false ((stopSending true ;; setParsingAfterBody) s) ∧ True) := fun h _ => h s m a rfl
  have stopTri : s.lastSeen.isSome = true → Tri false (fun t => t = s) (stopSending true ;; setParsingAfterBody) (fun _ => True) := by
    intro hl
    apply Tri.seq' (Q := fun _ => True)
    · refine ((tri_stopSending true (fun _ _ _ => True)).weaken (fun _ h => h) (fun _ _ => trivial)).pre_inv ?_
      intro t _ _ ht
      subst ht
      refine ⟨⟨fun _ _ => ?_, by rw [hpb]; decide⟩, trivial⟩
      constructor
      · intro (h : t.head = .virginClone); rw [b.1] at h; cases h
      · intro _ _; exact ⟨hp0, hl⟩
      · intro _ (h : t.uob.isSome = true); rw [b.2.2 rfl] at h; cases h
    · exact (tri_setParsingAfterBody _).weaken (fun _ h => h) (fun _ _ => trivial)
  dsimp only
  split
  · rename_i u hl
    have hsome : s.lastSeen.isSome = true := by rw [hl]; rfl
    split
    · rename_i _ _ _ pos hready
      have t := (Tri.seq' (tri_prepPartial pos) (tri_setParsingAfterBody (w := true) _)).window (fun _ h => h)
      have r := t s m a ⟨hpb, b.2.2 rfl, hp0, by rw [hl]⟩
      exact ⟨r.1, fun h => ⟨(r.2 h).1, trivial⟩⟩
    · exact stopCase (stopTri hsome) hsome
  · exact (Tri.must' (w := false) (P := fun _ => True) _).weaken (fun _ h => h) (fun _ _ => trivial) s m a trivial

theorem tri_parseBody : Tri false (fun _ => True) parseBody (fun _ => True) := by
  unfold parseBody
  apply Tri.seq' (Q := fun s => s.parsing = .body)
  · apply Tri.seq' (Q := fun s => s.parsing = .body)
    · refine (Tri.must' _).weaken (fun _ h => h) (fun s h => ?_)
      have h2 := h.2
      simp only [Bool.and_eq_true, beq_iff_eq] at h2
      exact h2.1
    · exact tri_moveBody
  · apply Tri.cond'
    · exact tri_afterBodyMoved
    · exact (Tri.must' _).weaken (fun _ h => h) (fun _ _ => trivial)

/-- an operation that always throws only has to keep `Main` -/
theorem Tri.thrower {P Q : St → Prop} {f : Op} (ht : ∀ s, (f s).thrown = true) (hm : ∀ s, Main s → Main (f s)) : Tri w P f Q :=
  fun s m _ _ => ⟨hm s m, fun h => by rw [ht s] at h; cases h⟩

theorem main_bodyThrown (s : St) (m : Main s) (c : Bool) : Main { s with parsing := .body, thrown := true, crashed := c } :=
  ⟨m.put_le, m.cons_le, m.buf_eq, m.prod_end, m.nopipe, m.hnone, m.clone, m.plain, m.partEcho,
   fun he => ⟨(m.ended he).clone, (m.ended he).plain, (m.ended he).part⟩, m.byp, m.sendV, m.taken_le, m.pipeEnded⟩

theorem tri_decideOnParsingBody : Tri false (fun s => s.parsing = .httpHeader) decideOnParsingBody (fun _ => True) := by
  unfold decideOnParsingBody
  apply Tri.cond'
  · apply Tri.cond'
    · exact Tri.thrower (fun _ => rfl) (fun s m => main_bodyThrown s m true)
    · apply Tri.cond'
      · apply Tri.seq' (Q := fun _ => True)
        · apply Tri.atomic
          intro s m a ⟨⟨⟨hp, _⟩, hh⟩, ho⟩
          have h3 := a.httpH hp
          have ho' : s.outSt = .noPipe := eq_of_beq ho
          have hh' : s.head = .adapted := by
            cases hd : s.head with
            | none => rw [hd] at hh; simp at hh
            | virginClone => exact absurd hd h3.2.1
            | adapted => rfl
          refine ⟨m.openAdaptedPipe hh' ho' .body, ?_, trivial⟩
          constructor
          · intro _
            refine ⟨hh', ?_, fun _ => (m.nopipe ho').2.1⟩
            intro (h : OutSt.isOpen = OutSt.noPipe); cases h
          · intro h; cases h
          · intro h; cases h
        · exact (Tri.must' _).weaken (fun _ h => h) (fun _ _ => trivial)
      · exact Tri.thrower (fun _ => rfl) (fun s m => by
          have := main_bodyThrown s m s.crashed
          exact this)
  · apply Tri.seq' (Q := fun s => s.outSt = .noPipe ∧ s.parsing ≠ .httpHeader)
    · apply Tri.cond'
      · apply Tri.atomic
        intro s m a ⟨⟨hp, _⟩, _⟩
        refine ⟨m.setParsing _, ?_, (a.httpH hp).2.2, by intro h; cases h⟩
        constructor <;> (intro h; cases h)
      · unfold stopParsing
        apply Tri.cond'
        · intro s m a ⟨⟨⟨hp, _⟩, _⟩, hd⟩
          have hd' : s.parsing = .done := eq_of_beq hd
          rw [hd'] at hp; cases hp
        · apply Tri.seq' (Q := fun s => s.parsing = .httpHeader)
          · exact (Tri.must' _).weaken (fun _ h => h) (fun _ h => h.1.1.1.1)
          · apply Tri.atomic
            intro s m a hp
            refine ⟨m.setParsing _, ?_, (a.httpH hp).2.2, by intro h; cases h⟩
            constructor <;> (intro h; cases h)
    · refine ((tri_stopSending true (fun _ _ _ => True)).weaken (fun _ h => h) (fun _ _ => trivial)).pre_inv ?_
      intro s _ _ ⟨ho, hp⟩
      refine ⟨⟨fun _ (h : s.outSt = .isOpen) => ?_, hp⟩, trivial⟩
      rw [ho] at h; cases h

theorem tri_startSending_any : Tri w (fun _ => True) startSending (fun _ => True) :=
  (tri_startSending (fun _ _ _ => True) (fun _ => True) (fun h => h)).weaken (fun _ _ => ⟨trivial, trivial⟩) (fun _ _ => trivial)

theorem tri_parseHttpHeadComplete : Tri false (fun s => s.parsing = .httpHeader) parseHttpHeadComplete (fun _ => True) := by
  unfold parseHttpHeadComplete headersDone
  exact Tri.seq' tri_decideOnParsingBody tri_startSending_any

def IcapQ (s : St) : Prop := s.parsing = .icapHeader

theorem tri_handle100Continue : Tri false IcapQ handle100Continue (fun _ => True) := by
  unfold handle100Continue
  apply Tri.seq' (Q := fun _ => True)
  · apply Tri.seq' (Q := IcapQ)
    · apply Tri.seq' (Q := IcapQ)
      · apply Tri.seq' (Q := IcapQ)
        · exact (Tri.must' _).weaken (fun _ h => h) (fun _ h => h.1)
        · exact (Tri.must' _).weaken (fun _ h => h) (fun _ h => h.1)
      · exact Tri.when' ((Tri.ctl keeps_stopBackup fr_stopBackup (fun p _ _ _ _ => p = .icapHeader)).weaken (fun _ h => h.1) (fun _ h => h))
    · apply Tri.atomic
      intro s m a (hp : s.parsing = .icapHeader)
      refine ⟨?_, AuxG.of_sameAux (s := s) ⟨hp.symm, rfl, rfl, rfl, rfl⟩ a, trivial⟩
      exact ⟨m.put_le, m.cons_le, m.buf_eq, m.prod_end, m.nopipe, m.hnone, m.clone, m.plain, m.partEcho,
        fun he => ⟨(m.ended he).clone, (m.ended he).plain, (m.ended he).part⟩, m.byp, m.sendV, m.taken_le, m.pipeEnded⟩
  · exact Tri.frame keeps_writeMore (fun _ h => h)

theorem tri_toHttpHeader (r : St → Bool) : Tri false (fun s => IcapQ s ∧ s.sending = .undecided)
    (fun s => { s with parsing := .httpHeader, sending := .adapted, readyForUob := r s }) (fun _ => True) := by
  apply Tri.atomic
  intro s m a ⟨hp, _⟩
  have h := a.icapH hp
  refine ⟨m.sendingAdapted _ _, ?_, trivial⟩
  constructor
  · intro h'; cases h'
  · intro h'; cases h'
  · intro _; exact ⟨rfl, h.1, h.2⟩

theorem tri_handle200Ok : Tri false (fun s => IcapQ s ∧ s.sending = .undecided) handle200Ok (fun _ => True) := by
  unfold handle200Ok
  apply Tri.seq' (Q := fun _ => True)
  · apply Tri.seq' (Q := fun _ => True)
    · exact tri_toHttpHeader _
    · exact Tri.frame keeps_stopBackup (fun _ h => h)
  · exact Tri.frame keeps_checkConsuming (fun _ h => h)

theorem tri_handle206 : Tri false (fun s => IcapQ s ∧ s.sending = .undecided) handle206PartialContent (fun _ => True) := by
  unfold handle206PartialContent
  apply Tri.seq' (Q := fun _ => True)
  · apply Tri.seq' (Q := fun s => IcapQ s ∧ s.sending = .undecided)
    · apply Tri.cond'
      · exact (Tri.must' _).weaken (fun _ h => h) (fun _ h => h.1.1)
      · exact (Tri.must' _).weaken (fun _ h => h) (fun _ h => h.1.1)
    · exact tri_toHttpHeader _
  · exact Tri.frame keeps_checkConsuming (fun _ h => h)

theorem tri_handle204 : Tri false (fun _ => True) handle204NoContent (fun _ => True) := by
  unfold handle204NoContent
  exact Tri.seq' (tri_stopParsing true _) (tri_prepEchoing.weaken (fun _ h => h) (fun _ _ => trivial))

theorem tri_handleUnknownScode : Tri false (fun _ => True) handleUnknownScode (fun _ => True) := by
  unfold handleUnknownScode
  apply Tri.seq' (Q := fun _ => True)
  · apply Tri.seq' (Q := fun _ => True)
    · exact (tri_stopParsing false _).weaken (fun _ h => h) (fun _ _ => trivial)
    · exact Tri.frame keeps_stopBackup (fun _ h => h)
  · exact Tri.throw'

theorem tri_parseIcapHead (status : Nat) (hdr body trailer : Bool) : Tri false IcapQ (parseIcapHead status hdr body trailer) (fun _ => True) := by
  unfold parseIcapHead
  apply Tri.seq' (Q := fun _ => True)
  · apply Tri.seq' (Q := fun s => IcapQ s ∧ s.sending = .undecided)
    · apply Tri.seq' (Q := fun s => IcapQ s ∧ s.sending = .undecided)
      · exact (Tri.must' _).weaken (fun _ h => h) (fun s h => ⟨h.1, eq_of_beq h.2⟩)
      · exact Tri.frame (by same_upd) (fun _ h => h)
    · split
      · exact tri_handle100Continue.weaken (fun _ h => h.1) (fun _ h => h)
      · exact Tri.cond' (tri_handle200Ok.weaken (fun _ h => h.1) (fun _ h => h)) Tri.throw'
      · exact Tri.cond' (tri_handle200Ok.weaken (fun _ h => h.1) (fun _ h => h)) Tri.throw'
      · exact tri_handle204.weaken (fun _ _ => trivial) (fun _ h => h)
      · exact Tri.cond' Tri.throw' (tri_handle206.weaken (fun _ h => h.1) (fun _ h => h))
      · exact tri_handleUnknownScode.weaken (fun _ _ => trivial) (fun _ h => h)
  · exact Tri.when' ((Tri.frame (keeps_stopWriting true) (P := fun _ => True) (fun _ h => h)).weaken (fun _ _ => trivial) (fun _ h => h))

theorem tri_allocAdapted : Tri false (fun s => s.parsing = .httpHeader) allocAdapted (fun _ => True) := by
  apply Tri.atomic
  intro s m a hp
  unfold allocAdapted
  split
  · rename_i hh
    have hh' : s.head = .none := eq_of_beq hh
    have h := a.httpH hp
    refine ⟨m.allocAdapted hh', ?_, trivial⟩
    constructor
    · intro (h' : s.parsing = .body); rw [hp] at h'; cases h'
    · intro (h' : s.parsing = .icapHeader); rw [hp] at h'; cases h'
    · intro _
      refine ⟨h.1, ?_, h.2.2⟩
      intro (h' : Head.adapted = Head.virginClone); cases h'
  · exact ⟨m, a, trivial⟩

theorem tri_parseHeadersIcap (status : Nat) (hdr body trailer : Bool) :
    Tri false IcapQ (parseHeadersIcap status hdr body trailer) (fun _ => True) := by
  unfold parseHeadersIcap headersDone
  apply Tri.seq' (Q := fun _ => True)
  · exact tri_parseIcapHead _ _ _ _
  · apply Tri.cond'
    · apply Tri.cond'
      · exact tri_allocAdapted.weaken (fun s h => eq_of_beq h.1.2) (fun _ h => h)
      · exact tri_parseHttpHeadComplete.weaken (fun s h => eq_of_beq h.1.2) (fun _ h => h)
    · exact (Tri.when' (P := fun _ => True) (tri_startSending_any.weaken (fun _ _ => trivial) (fun _ h => h))).weaken (fun _ _ => trivial) (fun _ h => h)

end SquidModel.Icap
