/-
`Main`/`Aux` under the primitive state changes the ModXact operations are made of.
-/
import SquidModel.Icap.Inv

namespace SquidModel.Icap
open SquidModel

theorem take_drop_shift (v : Bytes) (c p n : Nat) (h : c + n ≤ p) :
    ((v.drop c).take (p - c)).drop n = (v.drop (c + n)).take (p - (c + n)) := by
  rw [List.drop_take, List.drop_drop]
  congr 1
  omega

/-- virginConsume(): n more bytes leave the virgin pipe -/
theorem Main.consume {s : St} (m : Main s) (n : Nat) (hn : s.consumed + n ≤ s.put) :
    Main { s with buf := s.buf.drop n, consumed := s.consumed + n, isRepeatable := false, canStartBypass := false, protectGroupBypass := false } := by
  constructor
  · exact m.put_le
  · exact hn
  · show s.buf.drop n = (s.v.drop (s.consumed + n)).take (s.put - (s.consumed + n))
    rw [m.buf_eq]; exact take_drop_shift _ _ _ _ hn
  · exact m.prod_end
  · exact m.nopipe
  · exact m.hnone
  · exact m.clone
  · exact m.plain
  · exact m.partEcho
  · intro he; exact ⟨(m.ended he).clone, (m.ended he).plain, (m.ended he).part⟩
  · intro h; cases h
  · exact m.sendV
  · exact m.taken_le
  · exact m.pipeEnded

/-- the producer appends k bytes -/
theorem Main.produce {s : St} (m : Main s) (k : Nat) (hk : s.put + k ≤ s.v.length) :
    Main { s with buf := s.buf ++ (s.v.drop s.put).take k, put := s.put + k } := by
  have hc := m.cons_le
  constructor
  · exact hk
  · show s.consumed ≤ s.put + k; omega
  · show s.buf ++ (s.v.drop s.put).take k = (s.v.drop s.consumed).take (s.put + k - s.consumed)
    rw [m.buf_eq]
    have e1 : s.put + k - s.consumed = (s.put - s.consumed) + k := by omega
    rw [e1, List.take_add, List.drop_drop]
    congr 2
    congr 1
    omega
  · intro hp
    have := m.prod_end hp
    show s.put + k = s.v.length
    omega
  · exact m.nopipe
  · exact m.hnone
  · intro h; have c := m.clone h; exact ⟨c.1, by show s.vSending.start ≤ s.put + k; omega, c.2.2⟩
  · exact m.plain
  · intro h pos hp
    have c := m.partEcho h pos hp
    exact ⟨c.1, c.2.1, by show s.vSending.start ≤ s.put + k; omega, c.2.2.2⟩
  · intro he; exact ⟨(m.ended he).clone, (m.ended he).plain, (m.ended he).part⟩
  · exact m.byp
  · exact m.sendV
  · exact m.taken_le
  · exact m.pipeEnded

theorem Main.prodEnd {s : St} (m : Main s) (h : s.put = s.v.length) : Main { s with prodEnded := true } := by
  constructor
  · exact m.put_le
  · exact m.cons_le
  · exact m.buf_eq
  · intro _; exact h
  · exact m.nopipe
  · exact m.hnone
  · exact m.clone
  · exact m.plain
  · exact m.partEcho
  · intro he; exact ⟨(m.ended he).clone, (m.ended he).plain, (m.ended he).part⟩
  · exact m.byp
  · exact m.sendV
  · exact m.taken_le
  · exact m.pipeEnded

/-- echoMore(): `size` bytes are copied from the virgin pipe buffer into the adapted pipe -/
theorem Main.echo {s : St} (m : Main s) (size : Nat) (hv : s.sending = .virgin) (hc : s.consumed ≤ s.vSending.start)
    (hs : s.vSending.start + size ≤ s.put) (ho : s.outSt ≠ .noPipe) :
    Main { s with out := s.out ++ (s.buf.drop (s.vSending.start - s.consumed)).take size,
                  vSending := { s.vSending with start := s.vSending.start + size },
                  isRepeatable := false, canStartBypass := false, protectGroupBypass := false } := by
  have hp := m.put_le
  -- the bytes read from the buffer are the virgin bytes at [start, start+size)
  have hdata : (s.buf.drop (s.vSending.start - s.consumed)).take size = (s.v.drop s.vSending.start).take size := by
    rw [m.buf_eq, List.drop_take, List.drop_drop, List.take_take]
    have e1 : s.consumed + (s.vSending.start - s.consumed) = s.vSending.start := by omega
    have e2 : min size (s.put - s.consumed - (s.vSending.start - s.consumed)) = size := by omega
    rw [e1, e2]
  constructor
  · exact m.put_le
  · exact m.cons_le
  · exact m.buf_eq
  · exact m.prod_end
  · intro h; exact absurd h ho
  · intro h
    rcases m.sendV hv with h1 | h1
    · rw [h1] at h; cases h
    · rw [h1.1] at h; cases h
  · intro h
    have c := m.clone h
    refine ⟨?_, hs, c.2.2⟩
    show s.out ++ _ = s.v.take (s.vSending.start + size)
    rw [hdata, c.1, List.take_add]
  · intro h hu
    rcases m.sendV hv with h1 | h1
    · rw [h1] at h; cases h
    · rw [hu] at h1; cases h1.2
  · intro h pos hu
    have c := m.partEcho h pos hu
    refine ⟨c.1, by show pos ≤ s.vSending.start + size; omega, hs, ?_, c.2.2.2.2⟩
    show s.out ++ _ = s.recv ++ (s.v.drop pos).take (s.vSending.start + size - pos)
    rw [hdata, c.2.2.2.1, List.append_assoc]
    congr 1
    have e : s.vSending.start + size - pos = (s.vSending.start - pos) + size := by omega
    rw [e, List.take_add, List.drop_drop]
    congr 2
    congr 1
    omega
  · intro he
    have e := m.ended he
    refine ⟨fun h => ?_, e.plain, fun h hu => ?_⟩
    · have := e.clone h; have := (m.clone h).2.1; show s.vSending.start + size = s.v.length; omega
    · have := e.part h hu
      obtain ⟨pos, hpos⟩ := Option.isSome_iff_exists.mp hu
      have := (m.partEcho h pos hpos).2.2.1
      show s.vSending.start + size = s.v.length; omega
  · intro h; cases h
  · exact m.sendV
  · show s.outTaken ≤ (s.out ++ _).length
    rw [List.length_append]; have := m.taken_le; omega
  · exact m.pipeEnded

/-- stopSending(): the adapted pipe ends (nicely only when `EndOk`), sending is over -/
theorem Main.endPipe {s : St} (m : Main s) (o : OutSt) (ho : s.outSt ≠ .noPipe) (hok : o = .endedOk → EndOk s) (hn : o ≠ .noPipe) :
    Main { s with vSending := { s.vSending with st := .disabled }, outSt := o, sending := .done } := by
  constructor
  · exact m.put_le
  · exact m.cons_le
  · exact m.buf_eq
  · exact m.prod_end
  · intro h; exact absurd h hn
  · intro h; exact absurd (m.hnone h).1 ho
  · exact m.clone
  · exact m.plain
  · exact m.partEcho
  · intro he; have e := hok he; exact ⟨e.clone, e.plain, e.part⟩
  · exact m.byp
  · intro h; cases h
  · exact m.taken_le
  · intro _; rfl

theorem Main.sendingDone {s : St} (m : Main s) : Main { s with sending := .done } := by
  constructor
  · exact m.put_le
  · exact m.cons_le
  · exact m.buf_eq
  · exact m.prod_end
  · exact m.nopipe
  · exact m.hnone
  · exact m.clone
  · exact m.plain
  · exact m.partEcho
  · intro he; exact ⟨(m.ended he).clone, (m.ended he).plain, (m.ended he).part⟩
  · exact m.byp
  · intro h; cases h
  · exact m.taken_le
  · exact m.pipeEnded

theorem Main.sendingAdapted {s : St} (m : Main s) (p : Parsing) (r : Bool) : Main { s with parsing := p, sending := .adapted, readyForUob := r } := by
  constructor
  · exact m.put_le
  · exact m.cons_le
  · exact m.buf_eq
  · exact m.prod_end
  · exact m.nopipe
  · exact m.hnone
  · exact m.clone
  · exact m.plain
  · exact m.partEcho
  · intro he; exact ⟨(m.ended he).clone, (m.ended he).plain, (m.ended he).part⟩
  · exact m.byp
  · intro h; cases h
  · exact m.taken_le
  · exact m.pipeEnded

/-- parseBody(): n pending adapted bytes enter the adapted pipe (and the bypass flags go off with the first byte) -/
theorem Main.moveBody {s : St} (m : Main s) (n : Nat) (b1 b2 b3 : Bool) (hh : s.head = .adapted) (hu : s.uob = none) (ho : s.outSt ≠ .noPipe)
    (he : s.outSt ≠ .endedOk ∨ n = 0) (hb : b2 = true → s.canStartBypass = true ∧ s.pending.take n = []) :
    Main { s with out := s.out ++ s.pending.take n, pending := s.pending.drop n, isRepeatable := b1, canStartBypass := b2, protectGroupBypass := b3 } := by
  constructor
  · exact m.put_le
  · exact m.cons_le
  · exact m.buf_eq
  · exact m.prod_end
  · intro h; exact absurd h ho
  · intro h; rw [hh] at h; cases h
  · intro h; rw [hh] at h; cases h
  · intro _ _
    have c := m.plain hh hu
    refine ⟨?_, c.2⟩
    show s.out ++ s.pending.take n ++ s.pending.drop n = s.recv
    rw [List.append_assoc, List.take_append_drop]; exact c.1
  · intro _ pos hp; rw [hu] at hp; cases hp
  · intro hend
    have e := m.ended hend
    rcases he with he | he
    · exact absurd hend he
    · subst he
      have p := e.plain hh hu
      constructor
      · intro (h : s.head = .virginClone); rw [hh] at h; cases h
      · intro _ _; exact ⟨p.1, p.2⟩
      · intro _ (h : s.uob.isSome = true); rw [hu] at h; cases h
  · intro h
    have hb' := hb h
    have b := m.byp hb'.1
    refine ⟨b.1, b.2.1, ?_, b.2.2.2⟩
    show s.out ++ s.pending.take n = []
    rw [hb'.2, b.2.2.1]; rfl
  · exact m.sendV
  · show s.outTaken ≤ (s.out ++ _).length
    rw [List.length_append]; have := m.taken_le; omega
  · exact m.pipeEnded

theorem Main.setAnswer {s : St} (m : Main s) (x : Answer) (h1 : s.head = .none → x ≠ .forward) (h2 : x = .forward → s.canStartBypass = false) :
    Main { s with answer := x } := by
  constructor
  · exact m.put_le
  · exact m.cons_le
  · exact m.buf_eq
  · exact m.prod_end
  · exact m.nopipe
  · intro h; exact ⟨(m.hnone h).1, (m.hnone h).2.1, h1 h⟩
  · exact m.clone
  · exact m.plain
  · exact m.partEcho
  · intro he; exact ⟨(m.ended he).clone, (m.ended he).plain, (m.ended he).part⟩
  · intro (h : s.canStartBypass = true)
    have b := m.byp h
    refine ⟨b.1, ?_, b.2.2⟩
    intro (hx : x = .forward); rw [h2 hx] at h; cases h
  · exact m.sendV
  · exact m.taken_le
  · exact m.pipeEnded

theorem Main.allocClone {s : St} (m : Main s) (hh : s.head = .none) (hb : s.canStartBypass = false) : Main { s with head := .virginClone } := by
  have hn := m.hnone hh
  have np := m.nopipe hn.1
  constructor
  · exact m.put_le
  · exact m.cons_le
  · exact m.buf_eq
  · exact m.prod_end
  · exact m.nopipe
  · intro h; cases h
  · intro _
    refine ⟨?_, ?_, np.2.1⟩
    · show s.out = s.v.take s.vSending.start
      rw [np.1, hn.2.1]; rfl
    · show s.vSending.start ≤ s.put
      rw [hn.2.1]; exact Nat.zero_le _
  · intro h; cases h
  · intro h; cases h
  · intro (he : s.outSt = .endedOk); rw [hn.1] at he; cases he
  · intro (h : s.canStartBypass = true); rw [hb] at h; cases h
  · intro _; exact Or.inl rfl
  · exact m.taken_le
  · exact m.pipeEnded

theorem Main.openEchoPipe {s : St} (m : Main s) (hh : s.head = .virginClone) (z : Option Nat) :
    Main { s with sending := .virgin, outSt := .isOpen, outSize := z } := by
  constructor
  · exact m.put_le
  · exact m.cons_le
  · exact m.buf_eq
  · exact m.prod_end
  · intro h; cases h
  · intro (h : s.head = .none); rw [hh] at h; cases h
  · exact m.clone
  · exact m.plain
  · exact m.partEcho
  · intro h; cases h
  · exact m.byp
  · intro _; exact Or.inl hh
  · exact m.taken_le
  · intro h; rcases h with h | h <;> cases h

theorem Main.allocAdapted {s : St} (m : Main s) (hh : s.head = .none) : Main { s with head := .adapted } := by
  have hn := m.hnone hh
  have np := m.nopipe hn.1
  constructor
  · exact m.put_le
  · exact m.cons_le
  · exact m.buf_eq
  · exact m.prod_end
  · exact m.nopipe
  · intro h; cases h
  · intro h; cases h
  · intro _ _
    refine ⟨?_, hn.2.1⟩
    show s.out ++ s.pending = s.recv
    rw [np.1, np.2.2.1, np.2.2.2]; rfl
  · intro _ pos (hp : s.uob = some pos); rw [np.2.1] at hp; cases hp
  · intro (he : s.outSt = .endedOk); rw [hn.1] at he; cases he
  · intro h; have b := m.byp h; exact ⟨b.1, b.2.1, b.2.2.1, by intro h; cases h⟩
  · intro (h : s.sending = .virgin)
    rcases m.sendV h with h1 | h1
    · rw [hh] at h1; cases h1
    · rw [hh] at h1; cases h1.1
  · exact m.taken_le
  · exact m.pipeEnded

theorem Main.dropHead {s : St} (m : Main s) (hh : s.head = .adapted) (ho : s.outSt = .noPipe) (ha : s.answer = .none) :
    Main { s with head := .none, sending := .undecided } := by
  have np := m.nopipe ho
  constructor
  · exact m.put_le
  · exact m.cons_le
  · exact m.buf_eq
  · exact m.prod_end
  · exact m.nopipe
  · intro _; exact ⟨ho, (m.plain hh np.2.1).2, by rw [ha]; intro h; cases h⟩
  · intro h; cases h
  · intro h; cases h
  · intro h; cases h
  · intro (he : s.outSt = .endedOk); rw [ho] at he; cases he
  · intro h; have b := m.byp h; exact ⟨b.1, b.2.1, b.2.2.1, by intro h; cases h⟩
  · intro h; cases h
  · exact m.taken_le
  · exact m.pipeEnded

/-- prepPartialBodyEchoing(pos): the adapted prefix is complete, the virgin suffix starts at pos -/
theorem Main.startPart {s : St} (m : Main s) (pos : Nat) (z : Option Nat) (hh : s.head = .adapted) (hu : s.uob = none) (hp : s.pending = [])
    (hl : s.lastSeen = some (some pos)) (hle : pos ≤ s.put) (ho : s.outSt = .isOpen) :
    Main { s with vSending := { s.vSending with start := s.vSending.start + pos }, sending := .virgin, uob := some pos, outSize := z } := by
  have pl := m.plain hh hu
  constructor
  · exact m.put_le
  · exact m.cons_le
  · exact m.buf_eq
  · exact m.prod_end
  · intro (h : s.outSt = .noPipe); rw [ho] at h; cases h
  · intro (h : s.head = .none); rw [hh] at h; cases h
  · intro (h : s.head = .virginClone); rw [hh] at h; cases h
  · intro _ h; cases h
  · intro _ p (hq : some pos = some p)
    have e : pos = p := by injection hq
    subst e
    refine ⟨hp, ?_, ?_, ?_, hl⟩
    · show pos ≤ s.vSending.start + pos; omega
    · show s.vSending.start + pos ≤ s.put; rw [pl.2]; omega
    · show s.out = s.recv ++ (s.v.drop pos).take (s.vSending.start + pos - pos)
      have : s.vSending.start + pos - pos = 0 := by rw [pl.2]; omega
      rw [this, List.take_zero, List.append_nil, ← pl.1, hp, List.append_nil]
  · intro (he : s.outSt = .endedOk); rw [ho] at he; cases he
  · exact m.byp
  · intro _; exact Or.inr ⟨hh, rfl⟩
  · exact m.taken_le
  · exact m.pipeEnded

theorem Main.recvBody {s : St} (m : Main s) (bs : Bytes) (hh : s.head = .adapted) (hu : s.uob = none) (ho : s.outSt ≠ .noPipe) (hl : s.lastSeen = none) :
    Main { s with recv := s.recv ++ bs, pending := s.pending ++ bs } := by
  constructor
  · exact m.put_le
  · exact m.cons_le
  · exact m.buf_eq
  · exact m.prod_end
  · intro h; exact absurd h ho
  · intro (h : s.head = .none); rw [hh] at h; cases h
  · intro (h : s.head = .virginClone); rw [hh] at h; cases h
  · intro _ _
    have pl := m.plain hh hu
    refine ⟨?_, pl.2⟩
    show s.out ++ (s.pending ++ bs) = s.recv ++ bs
    rw [← List.append_assoc, pl.1]
  · intro _ pos (hp : s.uob = some pos); rw [hu] at hp; cases hp
  · intro he
    have e := (m.ended he).plain hh hu
    rw [hl] at e; cases e.2
  · exact m.byp
  · exact m.sendV
  · exact m.taken_le
  · exact m.pipeEnded

theorem Main.recvLast {s : St} (m : Main s) (u : Option Nat) (hu : s.uob = none) : Main { s with lastSeen := some u } := by
  constructor
  · exact m.put_le
  · exact m.cons_le
  · exact m.buf_eq
  · exact m.prod_end
  · exact m.nopipe
  · exact m.hnone
  · exact m.clone
  · exact m.plain
  · intro _ pos (hp : s.uob = some pos); rw [hu] at hp; cases hp
  · intro he
    have e := m.ended he
    exact ⟨e.clone, fun h1 h2 => ⟨(e.plain h1 h2).1, rfl⟩, e.part⟩
  · exact m.byp
  · exact m.sendV
  · exact m.taken_le
  · exact m.pipeEnded

theorem Main.takeOut {s : St} (m : Main s) (n : Nat) : Main { s with outTaken := min s.out.length (s.outTaken + n) } := by
  constructor
  · exact m.put_le
  · exact m.cons_le
  · exact m.buf_eq
  · exact m.prod_end
  · exact m.nopipe
  · exact m.hnone
  · exact m.clone
  · exact m.plain
  · exact m.partEcho
  · intro he; exact ⟨(m.ended he).clone, (m.ended he).plain, (m.ended he).part⟩
  · exact m.byp
  · exact m.sendV
  · show min s.out.length (s.outTaken + n) ≤ s.out.length; omega
  · exact m.pipeEnded

theorem Main.setParsing {s : St} (m : Main s) (p : Parsing) : Main { s with parsing := p } := by
  constructor
  · exact m.put_le
  · exact m.cons_le
  · exact m.buf_eq
  · exact m.prod_end
  · exact m.nopipe
  · exact m.hnone
  · exact m.clone
  · exact m.plain
  · exact m.partEcho
  · intro he; exact ⟨(m.ended he).clone, (m.ended he).plain, (m.ended he).part⟩
  · exact m.byp
  · exact m.sendV
  · exact m.taken_le
  · exact m.pipeEnded

theorem Main.openAdaptedPipe {s : St} (m : Main s) (hh : s.head = .adapted) (ho : s.outSt = .noPipe) (p : Parsing) :
    Main { s with outSt := .isOpen, parsing := p } := by
  have np := m.nopipe ho
  constructor
  · exact m.put_le
  · exact m.cons_le
  · exact m.buf_eq
  · exact m.prod_end
  · intro h; cases h
  · intro (h : s.head = .none); rw [hh] at h; cases h
  · exact m.clone
  · exact m.plain
  · exact m.partEcho
  · intro h; cases h
  · exact m.byp
  · exact m.sendV
  · exact m.taken_le
  · intro h; rcases h with h | h <;> cases h

end SquidModel.Icap
