/-
Model of one ICAP MOD transaction (src/adaptation/icap/ModXact.cc, Xaction.cc) as an event-driven state machine,
function by function. Every C++ method is an `Op` (state transformer); `Must(...)`/`throw` set the flag `thrown`, which
makes the rest of the current handler a no-op (the C++ state changes made before the throw persist, as in the C++);
`dispatch` then plays `ModXact::callException` (bypass or abort) exactly once per event.

The virgin body pipe is modelled with its real content (`buf` = the bytes between `consumed` and `put`), the adapted
pipe with everything that was ever put into it (`out`) plus how it ended. Ghost fields (`v`, `recv`) only record what the
producer will deliver and what the ICAP server sent; no decision reads them.
-/
import SquidModel.Base.Bytes
import SquidModel.Gen.IcapConsts

namespace SquidModel.Icap
open SquidModel SquidModel.Gen

inductive Writing | init | connect | headers | preview | paused | prime | almostDone | reallyDone
  deriving DecidableEq, Repr

def Writing.rank : Writing → Nat
  | .init => 0 | .connect => 1 | .headers => 2 | .preview => 3 | .paused => 4 | .prime => 5 | .almostDone => 6 | .reallyDone => 7

inductive Parsing | icapHeader | httpHeader | body | icapTrailer | done
  deriving DecidableEq, Repr

inductive Sending | undecided | virgin | adapted | done
  deriving DecidableEq, Repr

inductive ActSt | undecided | active | disabled
  deriving DecidableEq, Repr

/-- VirginBodyAct -/
structure Act where
  st : ActSt := .undecided
  start : Nat := 0
  deriving DecidableEq, Repr

inductive PvSt | disabled | writing | done | ieof
  deriving DecidableEq, Repr

/-- Preview -/
structure Preview where
  st : PvSt := .disabled
  written : Nat := 0
  ad : Nat := 0
  deriving DecidableEq, Repr

/-- which head `adapted.header` holds -/
inductive Head | none | virginClone | adapted
  deriving DecidableEq, Repr

/-- what the initiator was told -/
inductive Answer | none | forward | aborted
  deriving DecidableEq, Repr

/-- life of the adapted body pipe -/
inductive OutSt | noPipe | isOpen | endedOk | aborted
  deriving DecidableEq, Repr

structure Cfg where
  respmod : Bool := true
  bypass : Bool := false
  previewWanted : Option Nat := none   -- icap_preview_enable and ServiceRep::wantsPreview()
  allow206 : Bool := false             -- icap_206_enable and ServiceRep::allows206()
  hasBody : Bool := false              -- estimateVirginBody(): a body pipe exists
  sizeKnown : Bool := false
  reusedPconn : Bool := false          -- this attempt runs on an idle persistent connection
  repeatable : Bool := false           -- theLaunches < icap_retry_limit
  maxCapacity : Nat := IcapConsts.maxCapacity       -- BodyPipe::MaxCapacity
  backupLimit : Nat := IcapConsts.backupLimit       -- TheBackupLimit
  reserve : Nat := IcapConsts.terminatorReserve     -- MemBuf keeps room for a terminator
  deriving DecidableEq, Repr

structure St where
  cfg : Cfg
  v : Bytes                            -- ghost: the whole virgin body
  -- virgin body pipe
  put : Nat := 0
  consumed : Nat := 0                  -- virginConsumed
  buf : Bytes := []
  prodEnded : Bool := false
  consuming : Bool := false            -- virgin.body_pipe != nullptr
  -- transaction flags
  canStartBypass : Bool := false
  protectGroupBypass : Bool := true
  isRetriable : Bool := true
  isRepeatable : Bool := true
  writing : Writing := .init
  parsing : Parsing := .icapHeader
  sending : Sending := .undecided
  readyForUob : Bool := false
  allowedPostview204 : Bool := false
  allowedPostview206 : Bool := false
  allowedPreview206 : Bool := false
  preview : Preview := {}
  vWriting : Act := {}
  vSending : Act := {}
  writerBusy : Bool := false
  ignoreLastWrite : Bool := false
  commEof : Bool := false
  haveConn : Bool := false
  readerOn : Bool := false
  bytesRead : Bool := false
  trailerExpected : Bool := false
  gotBody : Bool := false
  -- adapted side
  head : Head := .none
  answer : Answer := .none
  outSt : OutSt := .noPipe
  out : Bytes := []
  outTaken : Nat := 0
  outSize : Option Nat := none
  recv : Bytes := []                   -- ghost: adapted body bytes received from the ICAP server
  pending : Bytes := []                -- received, not yet accepted by the adapted pipe
  lastSeen : Option (Option Nat) := none   -- last-chunk received (with its use-original-body value)
  uob : Option Nat := none             -- prepPartialBodyEchoing(pos) happened
  bypassed : Bool := false             -- bypassFailure() ran
  thrown : Bool := false
  stopped : Bool := false
  crashed : Bool := false              -- the process died (exception out of swanSong, null dereference)
  deriving Repr

abbrev Op := St → St

def skip : Op := id
def seq (f g : Op) : Op := fun s => let t := f s; if t.thrown then t else g t
infixl:60 " ;; " => seq
def cond (c : St → Bool) (t e : Op) : Op := fun s => if c s then t s else e s
def whenOp (c : St → Bool) (t : Op) : Op := cond c t skip
def throwNow : Op := fun s => { s with thrown := true }
def must (c : St → Bool) : Op := cond c skip throwNow

/-! ### BodyPipe / MemBuf arithmetic -/

def St.have (s : St) : Nat := s.put - s.consumed
/-- MemBuf::potentialSpaceSize() of the virgin pipe -/
def St.potentialSpace (s : St) : Nat :=
  if s.have + s.cfg.reserve < s.cfg.maxCapacity then s.cfg.maxCapacity - (s.have + s.cfg.reserve) else 0
def St.total (s : St) : Nat := s.v.length
/-- BodyPipe::mayNeedMoreData() of the virgin pipe -/
def St.mayNeedMore (s : St) : Bool := !s.cfg.sizeKnown || s.put < s.total
/-- BodyPipe::expectMoreAfter(offset) of the virgin pipe -/
def St.expectMoreAfter (s : St) (off : Nat) : Bool := off < s.put || (!s.prodEnded && s.mayNeedMore)
/-- space left in the adapted pipe -/
def St.outSpace (s : St) : Nat :=
  let held := s.out.length - s.outTaken
  if held + s.cfg.reserve < s.cfg.maxCapacity then s.cfg.maxCapacity - (held + s.cfg.reserve) else 0

/-! ### flags -/

def disableRetries : Op := fun s => { s with isRetriable := false }
def disableRepeats : Op := fun s => { s with isRepeatable := false }
/-- ModXact::disableBypass(reason, includingGroupBypass) -/
def disableBypass (group : Bool) : Op := fun s =>
  { s with canStartBypass := false, protectGroupBypass := if group then false else s.protectGroupBypass }

/-- State::doneConsumingVirgin() -/
def St.doneConsumingVirgin (s : St) : Bool :=
  decide (s.writing.rank ≥ Writing.almostDone.rank) && ((s.sending == .adapted && !s.readyForUob) || s.sending == .done)

/-- ModXact::checkConsuming() -/
def checkConsuming : Op := fun s =>
  if !s.consuming || !s.doneConsumingVirgin then s else { s with consuming := false }

/-- ModXact::virginConsume() -/
def virginConsume : Op := fun s =>
  if !s.consuming then s
  else if s.isRetriable then s
  else if (s.isRepeatable || s.canStartBypass || s.protectGroupBypass) && s.potentialSpace > 0 then s
  else
    let e := s.put
    let o1 := if s.vWriting.st == .active then min s.vWriting.start e else e
    let o2 := if s.vSending.st == .active then min s.vSending.start o1 else o1
    if s.consumed ≤ o2 then
      let size := o2 - s.consumed
      if size > 0 then
        { s with buf := s.buf.drop size, consumed := s.consumed + size, isRepeatable := false, canStartBypass := false, protectGroupBypass := false }
      else s
    else { s with thrown := true }

/-- ModXact::stopWriting(nicely) -/
def stopWriting (nicely : Bool) : Op := fun s =>
  if s.writing == .reallyDone then s
  else if s.writerBusy && nicely then checkConsuming { s with writing := .almostDone }
  else
    let s1 := if s.writerBusy then { s with ignoreLastWrite := true } else s
    let s2 := if s1.vWriting.st == .active then virginConsume { s1 with vWriting := { s1.vWriting with st := .disabled } } else s1
    if s2.thrown then s2 else checkConsuming { s2 with writing := .reallyDone }

/-- ModXact::stopBackup() -/
def stopBackup : Op := fun s =>
  if s.vSending.st != .active then s
  else virginConsume { s with vSending := { s.vSending with st := .disabled } }

/-- ModXact::stopSending(nicely): ends the adapted pipe nicely only when nothing is owed -/
def stopSending (nicely : Bool) : Op := fun s =>
  if s.sending == .done then s
  else if s.sending != .undecided then
    let s1 := if s.outSt == .isOpen then
        let leftDebts := match s.outSize with | some n => decide (s.out.length < n) | none => false
        { s with vSending := { s.vSending with st := .disabled }, outSt := if nicely && !leftDebts then .endedOk else .aborted }
      else s
    checkConsuming { s1 with sending := .done }
  else if s.outSt != .noPipe then { s with thrown := true }
  else checkConsuming { s with sending := .done }

/-- ModXact::stopParsing(checkUnparsedData) -/
def stopParsing (check : Bool) : Op := fun s =>
  if s.parsing == .done then s
  else if check && !s.pending.isEmpty then { s with thrown := true }
  else { s with parsing := .done }

/-! ### writing the request -/

/-- virginBodyEndReached(act) -/
def St.endReached (s : St) (a : Act) : Bool := a.st != .active || !s.expectMoreAfter a.start

/-- Preview::wrote(size, wroteEof) -/
def pvWrote (size : Nat) (eof : Bool) : Op := fun s =>
  if s.preview.st == .disabled then { s with thrown := true }
  else
    let w := s.preview.written + size
    if w > s.preview.ad then { s with preview := { s.preview with written := w }, thrown := true }
    else { s with preview := { s.preview with written := w, st := if eof then .ieof else if w ≥ s.preview.ad then .done else s.preview.st } }

def St.pvDone (s : St) : Bool := s.preview.st == .done || s.preview.st == .ieof
def St.pvDebt (s : St) : Nat := if s.pvDone then 0 else s.preview.ad - s.preview.written

/-- ModXact::writeSomeBody(label, size) -/
def writeSomeBody (size : Nat) : Op := fun s =>
  if s.writerBusy || !decide (s.writing.rank < Writing.almostDone.rank) || !s.consuming || s.vWriting.st != .active then { s with thrown := true }
  else if !(decide (s.consumed ≤ s.vWriting.start) && decide (s.vWriting.start ≤ s.put)) then { s with thrown := true }
  else
    let writable := s.put - s.vWriting.start
    let chunk := min writable size
    let s1 := if chunk > 0 then virginConsume { s with vWriting := { s.vWriting with start := s.vWriting.start + chunk } } else s
    if s1.thrown then s1 else
    let wroteEof := s1.endReached s1.vWriting
    let s2 := if s1.writing == .preview then pvWrote chunk wroteEof s1 else s1
    if s2.thrown then s2 else
    let last := wroteEof || (s2.writing == .preview && s2.pvDone)
    if chunk > 0 || last then { s2 with writerBusy := true } else s2

/-- ModXact::decideWritingAfterPreview() -/
def decideWritingAfterPreview : Op := fun s =>
  if s.preview.st == .ieof then stopWriting true s
  else if s.parsing == .icapHeader then { s with writing := .paused }
  else stopWriting true s

/-- ModXact::writePreviewBody() -/
def writePreviewBody : Op :=
  must (fun s => s.writing == .preview && s.consuming) ;;
  (fun s => writeSomeBody (min s.pvDebt s.have) s) ;;
  whenOp (fun s => s.pvDone) decideWritingAfterPreview

/-- ModXact::writePrimeBody() -/
def writePrimeBody : Op :=
  must (fun s => s.writing == .prime && s.vWriting.st == .active) ;;
  (fun s => writeSomeBody s.have s) ;;
  whenOp (fun s => s.endReached s.vWriting) (stopWriting true)

/-- ModXact::writeMore() -/
def writeMore : Op := fun s =>
  if s.writerBusy then s
  else match s.writing with
    | .almostDone => stopWriting false s
    | .preview => writePreviewBody s
    | .prime => writePrimeBody s
    | _ => s

/-! ### sending -/

/-- ModXact::echoMore() -/
def echoMore : Op := fun s =>
  if s.sending != .virgin || s.outSt != .isOpen || s.vSending.st != .active then { s with thrown := true }
  else if !(decide (s.consumed ≤ s.vSending.start) && decide (s.vSending.start ≤ s.put)) then { s with thrown := true }   -- virginContentSize()
  else
    let sizeMax := s.put - s.vSending.start
    let owed := match s.outSize with | some n => n - s.out.length | none => sizeMax
    let size := min (min sizeMax owed) s.outSpace
    let s1 := if sizeMax > 0 then
        let data := (s.buf.drop (s.vSending.start - s.consumed)).take size
        virginConsume { s with out := s.out ++ data, vSending := { s.vSending with start := s.vSending.start + size },
                                isRepeatable := false, canStartBypass := false, protectGroupBypass := false }
      else s
    if s1.thrown then s1
    else if s1.endReached s1.vSending then stopSending true s1 else s1

/-- ModXact::startSending() -/
def startSending : Op := fun s =>
  let s1 := { s with isRepeatable := false, canStartBypass := false, protectGroupBypass := false,
                     answer := if s.answer == .none then .forward else s.answer }
  if s1.sending == .virgin then echoMore s1
  else if s1.head == .none then { s1 with answer := if s.answer == .none then .aborted else s.answer, thrown := true }
       -- Forward(nullptr): Iterator::handleAdaptedHeader() Must(aMsg) fails, the initiator sees an abort; updateSources(): Must(adapted.header)
  else s1

/-- VirginBodyAct::plan() -/
def planSending : Op := fun s =>
  if s.vSending.st == .disabled || s.vSending.start != 0 then { s with thrown := true }
  else { s with vSending := { s.vSending with st := .active } }

/-- ModXact::prepEchoing() -/
def prepEchoing : Op := fun s =>
  let s0 := { s with isRepeatable := false, canStartBypass := false, protectGroupBypass := false }
  if s0.head != .none then { s0 with thrown := true }           -- Must(!adapted.header)
  else
    let s1 := { s0 with head := .virginClone }
    if s1.cfg.hasBody then
      let s2 := if s1.vSending.st != .active then
          (if IcapConsts.planChecksConsumed && s1.consumed != 0 then { s1 with thrown := true }
           else if IcapConsts.replanAfterStopBackup && s1.vSending.st == .disabled && s1.consumed == 0
           then planSending { s1 with vSending := {} } else planSending s1)
        else s1
      if s2.thrown then s2 else
      let s3 := checkConsuming { s2 with sending := .virgin }
      if s3.outSt != .noPipe then { s3 with thrown := true }    -- makeAdaptedBodyPipe(): Must(!adapted.body_pipe)
      else { s3 with outSt := .isOpen, outSize := if s3.cfg.sizeKnown then some s3.total else none }
    else stopSending true s1

/-- ModXact::prepPartialBodyEchoing(pos) -/
def prepPartialBodyEchoing (pos : Nat) : Op := fun s =>
  if s.vSending.st != .active || !s.cfg.hasBody then { s with thrown := true }
  else if !(decide (pos ≤ s.put)) then { s with thrown := true }
  else
    let s1 := checkConsuming { s with vSending := { s.vSending with start := s.vSending.start + pos }, sending := .virgin, uob := some pos }
    let s2 : St := if s1.cfg.sizeKnown then
        (match s1.outSize with
         | some n => if n == s1.out.length + (s1.total - pos) then s1 else { s1 with thrown := true }
         | none => { s1 with outSize := some (s1.out.length + (s1.total - pos)) })
      else s1
    if s2.thrown then s2 else echoMore s2

/-! ### parsing the reply -/

/-- ModXact::decideOnParsingBody() -/
def decideOnParsingBody : Op := fun s =>
  if s.gotBody then
    if s.head == .none then { s with parsing := .body, thrown := true, crashed := true }   -- makeAdaptedBodyPipe() dereferences adapted.header
    else if s.outSt != .noPipe then { s with parsing := .body, thrown := true }             -- Must(!adapted.body_pipe)
    else if s.sending != .adapted then { s with parsing := .body, outSt := .isOpen, thrown := true }
    else { s with parsing := .body, outSt := .isOpen }
  else
    let s1 := if s.trailerExpected then { s with parsing := .icapTrailer } else stopParsing true s
    if s1.thrown then s1 else stopSending true s1

/-- ModXact::parseBody(): the chunked parser hands over what fits into the adapted pipe -/
def parseBody : Op := fun s =>
  if s.parsing != .body || s.outSt == .noPipe then { s with thrown := true }
  else
    let n := min s.pending.length (if s.outSt == .isOpen then s.outSpace else 0)
    let s1 := { s with out := s.out ++ s.pending.take n, pending := s.pending.drop n }
    let s2 := if s1.out.length - s1.outTaken > 0 then { s1 with isRepeatable := false, canStartBypass := false, protectGroupBypass := false } else s1
    if s2.pending.isEmpty then
      match s2.lastSeen with
      | some u =>
        let s3 := match s2.readyForUob, u with
          | true, some pos => prepPartialBodyEchoing pos s2
          | _, _ => stopSending true s2
        if s3.thrown then s3
        else if s3.trailerExpected then { s3 with parsing := .icapTrailer } else stopParsing true s3
      | none => if s2.commEof then { s2 with thrown := true } else s2      -- needsMoreData: Must(mayReadMore())
    else if s2.sending == .done || s2.out.length - s2.outTaken == 0 then { s2 with thrown := true }   -- needsMoreSpace
    else s2

/-- the tail of ModXact::parseHeaders(): all headers parsed -/
def headersDone : Op := startSending

/-- ModXact::parseHttpHead() reached with a complete head -/
def parseHttpHeadComplete : Op := decideOnParsingBody ;; headersDone

/-- ModXact::handle100Continue() -/
def handle100Continue : Op :=
  must (fun s => s.writing == .paused) ;;
  must (fun s => s.preview.st == .done) ;;
  whenOp (fun s => !s.allowedPostview204 && !s.allowedPostview206) stopBackup ;;
  (fun s => { s with parsing := .icapHeader, writing := .prime }) ;;
  writeMore

/-- ModXact::handle200Ok() -/
def handle200Ok : Op :=
  (fun s => { s with parsing := .httpHeader, sending := .adapted }) ;; stopBackup ;; checkConsuming

/-- ModXact::handle204NoContent() -/
def handle204NoContent : Op := stopParsing true ;; prepEchoing

/-- ModXact::handle206PartialContent() -/
def handle206PartialContent : Op :=
  cond (fun s => s.writing == .paused)
    (must (fun s => s.preview.st != .disabled && s.allowedPreview206))
    (must (fun s => decide (s.writing.rank > Writing.paused.rank) && s.allowedPostview206)) ;;
  (fun s => { s with parsing := .httpHeader, sending := .adapted, readyForUob := true }) ;; checkConsuming

/-- ModXact::handleUnknownScode() -/
def handleUnknownScode : Op := stopParsing false ;; stopBackup ;; throwNow

/-- ModXact::parseIcapHead() for a complete ICAP head: status, Encapsulated has an acceptable HTTP head / a body, Trailer announced -/
def parseIcapHead (status : Nat) (hdr body trailer : Bool) : Op :=
  must (fun s => s.sending == .undecided) ;;
  (fun s => { s with trailerExpected := trailer, gotBody := body }) ;;
  (match status with
   | 100 => handle100Continue
   | 200 | 201 => cond (fun _ => hdr) handle200Ok throwNow
   | 204 => handle204NoContent
   | 206 => cond (fun _ => IcapConsts.validates206 && !hdr) throwNow handle206PartialContent
   | _ => handleUnknownScode) ;;
  whenOp (fun s => s.writing == .paused) (stopWriting true)

/-- ModXact::parseHeaders() on a complete ICAP head; the HTTP head parse is attempted at once (maybeAllocateHttpMsg) -/
def parseHeadersIcap (status : Nat) (hdr body trailer : Bool) : Op :=
  parseIcapHead status hdr body trailer ;;
  cond (fun s => s.parsing == .httpHeader)
    (cond (fun _ => hdr) (fun s => if s.head == .none then { s with head := .adapted } else s) parseHttpHeadComplete)
    (whenOp (fun s => s.parsing != .icapHeader) headersDone)

/-! ### exceptions and the end of the job -/

/-- ModXact::swanSong() + Xaction::swanSong(): tellQueryAborted when no answer was sent -/
def swanSong : Op := fun s =>
  let s1 := stopWriting false { s with thrown := false }
  -- an exception leaving swanSong() is not caught by the job call wrapper (callEnd() runs outside its try block): FATAL
  if s1.thrown then { s1 with thrown := false, stopped := true, crashed := true } else
  let s2 := stopSending false s1
  if s2.thrown then { s2 with thrown := false, stopped := true, crashed := true } else
  { s2 with stopped := true, haveConn := false, readerOn := false, writerBusy := false,
            answer := if s2.answer == .none then .aborted else s2.answer }

/-- ModXact::bypassFailure() -/
def bypassFailure : Op :=
  (fun s => { s with canStartBypass := false, bypassed := true }) ;;
  must (fun s => !s.isRetriable) ;;
  whenOp (fun s => IcapConsts.dropPartialAdaptedHead && s.head == .adapted && s.answer == .none && s.outSt == .noPipe)
    (fun s => { s with head := .none, sending := .undecided }) ;;
  prepEchoing ;; startSending ;; stopParsing false ;; stopWriting true ;;
  (fun s => { s with readerOn := false })

/-- ModXact::callException() -/
def callException : Op := fun s =>
  let s0 := { s with thrown := false }
  if !s0.canStartBypass || s0.isRetriable then swanSong s0
  else
    let s1 := bypassFailure s0
    if s1.thrown then swanSong s1 else s1

/-- ModXact::doneAll() -/
def St.doneAll (s : St) : Bool :=
  s.sending == .done && (s.commEof || s.parsing == .done) && s.writing == .reallyDone && !s.readerOn && !s.writerBusy

/-- after every handler: exception handling, then callEnd()/done() -/
def finish : Op := fun s =>
  if s.crashed then { s with stopped := true, thrown := false } else
  let s1 := if s.thrown then callException s else s
  if s1.stopped then s1 else if s1.doneAll then swanSong s1 else s1

/-- ModXact::readMore() -/
def readMore : Op := fun s =>
  if s.readerOn || s.commEof || s.parsing == .done || !s.haveConn then s else { s with readerOn := true }

/-! ### events -/

inductive Ev
  | connected
  | wrote
  | produce (n : Nat)
  | prodEnd
  | rdIcap (status : Nat) (hdr body trailer : Bool)
  | rdHttpHead
  | rdBody (bs : Bytes)
  | rdLast (uob : Option Nat)
  | rdTrailer
  | rdEof
  | rdError
  | rdBad
  | space (n : Nat)
  | consumerAbort
  | timeout
  | closed
  | initiatorAbort
  deriving Repr

/-- ModXact::makeAllowHeader() + the preview part of makeRequestHeaders() -/
def makeAllowHeader : Op := fun s =>
  let canBackupAll := !s.cfg.hasBody || (s.cfg.sizeKnown && decide (s.total < s.cfg.backupLimit))
  let allow204in := s.preview.st != .disabled
  let allow204out := canBackupAll
  let any206 := s.cfg.allow206 && s.cfg.hasBody
  let allow206in := any206 && s.preview.st != .disabled
  let allow206out := any206 && canBackupAll
  let s1 := { s with allowedPostview204 := allow204out, allowedPreview206 := allow206in, allowedPostview206 := allow206out }
  if (allow204in || allow204out || allow206in || allow206out) && s.cfg.hasBody then planSending s1 else s1

/-- Xaction::useIcapConnection() -> ModXact::startShoveling() -/
def startShoveling : Op :=
  must (fun s => s.writing == .connect) ;;
  (fun s => { s with haveConn := true, readerOn := true }) ;;
  whenOp (fun s => s.preview.st != .disabled && !s.cfg.hasBody) (pvWrote 0 true) ;;   -- finishNullOrEmptyBodyPreview()
  makeAllowHeader ;;
  (fun s => { s with writing := .headers, writerBusy := true })

/-- ModXact::handleCommWroteHeaders() -/
def handleCommWroteHeaders : Op := fun s =>
  if s.preview.st != .disabled then
    (if s.pvDone then (decideWritingAfterPreview ;; writeMore) s else writeMore { s with writing := .preview })
  else if s.cfg.hasBody then writeMore { s with writing := .prime }
  else stopWriting true s

/-- Xaction::noteCommWrote() -/
def noteCommWrote : Op := fun s =>
  let s1 := { s with writerBusy := false }
  if s1.ignoreLastWrite then { s1 with ignoreLastWrite := false }
  else if s1.writing == .headers then handleCommWroteHeaders s1 else writeMore s1

/-- the producer of the virgin body appends up to n bytes; ModXact::noteMoreBodyDataAvailable() -/
def produce (n : Nat) : Op := fun s =>
  let k := min (min n (s.total - s.put)) s.potentialSpace
  let s1 := { s with buf := s.buf ++ (s.v.drop s.put).take k, put := s.put + k }
  if !s1.consuming || k == 0 then s1
  else (writeMore ;; whenOp (fun s => s.sending == .virgin) echoMore) s1

/-- ModXact::noteBodyProductionEnded() -/
def prodEnd : Op := fun s =>
  if s.put != s.total || s.prodEnded then s
  else
    let s1 := { s with prodEnded := true }
    if !s1.consuming then s1 else (writeMore ;; whenOp (fun s => s.sending == .virgin) echoMore) s1

/-- Xaction::noteCommRead() with data, then ModXact::handleCommRead(): parseMore(); readMore() -/
def noteRead (parse : Op) : Op := fun s =>
  (parse ;; readMore) { s with readerOn := false, bytesRead := true, isRetriable := false }

def parseMoreBody : Op := whenOp (fun s => s.parsing == .body) parseBody

/-- the handler an event runs (the event is ignored when it cannot occur in this state) -/
def handler : Ev → Op
  | .connected => fun s => if s.writing == .connect && !s.haveConn then startShoveling s else s
  | .wrote => fun s => if s.writerBusy && s.haveConn then noteCommWrote s else s
  | .produce n => fun s => if s.prodEnded then s else produce n s
  | .prodEnd => prodEnd
  | .rdIcap st h b t => fun s => if s.readerOn && s.parsing == .icapHeader then noteRead (parseHeadersIcap st h b t ;; parseMoreBody) s else s
  | .rdHttpHead => fun s => if s.readerOn && s.parsing == .httpHeader && s.head == .adapted then noteRead (parseHttpHeadComplete ;; parseMoreBody) s else s
  | .rdBody bs => fun s => if s.readerOn && s.parsing == .body && s.lastSeen.isNone then
      noteRead parseBody { s with recv := s.recv ++ bs, pending := s.pending ++ bs } else s
  | .rdLast u => fun s => if s.readerOn && s.parsing == .body && s.lastSeen.isNone then noteRead parseBody { s with lastSeen := some u } else s
  | .rdTrailer => fun s => if s.readerOn && s.parsing == .icapTrailer then noteRead (stopParsing true) s else s
  | .rdEof => fun s =>
      if !s.readerOn then s
      else
        let s1 := { s with readerOn := false, commEof := true }
        if !s1.bytesRead && s1.isRetriable then swanSong s1          -- pconn race: mustStop
        else if s1.parsing == .body && s1.lastSeen.isSome then parseBody s1
        else { s1 with thrown := true }                               -- a head/body/trailer cut short: Must(parsed || !error), Must(mayReadMore())
  | .rdError => fun s => if !s.readerOn then s else
      if IcapConsts.readErrorThrows then { s with readerOn := false, thrown := true } else swanSong { s with readerOn := false }
  | .rdBad => fun s => if !s.readerOn || s.parsing == .done then s else { s with readerOn := false, bytesRead := true, isRetriable := false, thrown := true }
  | .space n => fun s =>
      if s.outSt != .isOpen then s
      else
        let s1 := { s with outTaken := min s.out.length (s.outTaken + n) }
        if s1.sending == .virgin then echoMore s1
        else if s1.sending == .adapted then parseMoreBody s1
        else if s1.sending == .undecided then s1 else { s1 with thrown := true }
  | .consumerAbort => fun s => if s.outSt != .isOpen then s else swanSong s
  | .timeout => fun s => if !s.haveConn || (!s.readerOn && !s.writerBusy) then s else { s with haveConn := false, readerOn := false, thrown := true }
  | .closed => fun s => if !s.haveConn then s else swanSong { s with haveConn := false }
  | .initiatorAbort => fun s => if s.answer != .none then s else swanSong { s with answer := .aborted }

/-- one event: ignored once the job is gone -/
def step (s : St) (e : Ev) : St := if s.stopped then s else finish (handler e s)


def run (s : St) (es : List Ev) : St := es.foldl step s

/-- ModXact::start() up to openConnection(): estimateVirginBody, canStartBypass, decideOnPreview, decideOnRetries -/
def init (cfg : Cfg) (v : Bytes) : St :=
  let s0 : St := { cfg := cfg, v := v }
  let s1 : St := if cfg.hasBody then { s0 with vWriting := { st := .active, start := 0 }, consuming := true } else s0
  let s2 : St := { s1 with canStartBypass := cfg.bypass, isRepeatable := cfg.repeatable, writing := .connect }
  let s3 : St := match cfg.previewWanted with
    | some wanted =>
      let ad0 := min wanted cfg.backupLimit
      let ad := if !cfg.hasBody then 0 else if cfg.sizeKnown then min ad0 v.length else ad0
      { s2 with preview := { st := .writing, written := 0, ad := ad } }
    | none => s2
  let canBackupAll := !cfg.hasBody || (cfg.sizeKnown && decide (v.length < cfg.backupLimit))
  let s4 : St := if s3.preview.st != .disabled || canBackupAll then s3 else { s3 with isRetriable := false }
  if cfg.reusedPconn then s4 else { s4 with isRetriable := false }

end SquidModel.Icap
