/-
Model of one ICAP MOD transaction (src/adaptation/icap/ModXact.cc, Xaction.cc) as an event-driven state machine,
function by function. Every C++ method is an `Op` (state transformer); `Must(...)`/`throw` set the flag `thrown`, which
makes the rest of the current handler a no-op (the C++ state changes made before the throw persist, as in the C++);
`dispatch` then plays `ModXact::callException` (bypass or abort) exactly once per event.

The virgin body pipe is modelled with its real content (`buf` = the bytes between `consumed` and `put`), the adapted
pipe with everything that was ever put into it (`out`) plus how it ended. Ghost fields (`v`, `recv`) only record what the
producer will deliver and what the ICAP server sent; no decision reads them.
-/
import SquidModel.Base.Bytes
import SquidModel.Gen.IcapConsts

namespace SquidModel.Icap
open SquidModel SquidModel.Gen

inductive Writing | init | connect | headers | preview | paused | prime | almostDone | reallyDone
  deriving DecidableEq, Repr

def Writing.rank : Writing → Nat
  | .init => 0 | .connect => 1 | .headers => 2 | .preview => 3 | .paused => 4 | .prime => 5 | .almostDone => 6 | .reallyDone => 7

inductive Parsing | icapHeader | httpHeader | body | icapTrailer | done
  deriving DecidableEq, Repr

inductive Sending | undecided | virgin | adapted | done
  deriving DecidableEq, Repr

inductive ActSt | undecided | active | disabled
  deriving DecidableEq, Repr

/-- VirginBodyAct -/
structure Act where
  st : ActSt := .undecided
  start : Nat := 0
  deriving DecidableEq, Repr

inductive PvSt | disabled | writing | done | ieof
  deriving DecidableEq, Repr

/-- Preview -/
structure Preview where
  st : PvSt := .disabled
  written : Nat := 0
  ad : Nat := 0
  deriving DecidableEq, Repr

/-- which head `adapted.header` holds -/
inductive Head | none | virginClone | adapted
  deriving DecidableEq, Repr

/-- what the initiator was told -/
inductive Answer | none | forward | aborted
  deriving DecidableEq, Repr

/-- life of the adapted body pipe -/
inductive OutSt | noPipe | isOpen | endedOk | aborted
  deriving DecidableEq, Repr

structure Cfg where
  respmod : Bool := true
  bypass : Bool := false
  previewWanted : Option Nat := none   -- icap_preview_enable and ServiceRep::wantsPreview()
  allow206 : Bool := false             -- icap_206_enable and ServiceRep::allows206()
  hasBody : Bool := false              -- estimateVirginBody(): a body pipe exists
  sizeKnown : Bool := false
  reusedPconn : Bool := false          -- this attempt runs on an idle persistent connection
  repeatable : Bool := false           -- theLaunches < icap_retry_limit
  maxCapacity : Nat := IcapConsts.maxCapacity       -- BodyPipe::MaxCapacity
  backupLimit : Nat := IcapConsts.backupLimit       -- TheBackupLimit
  reserve : Nat := IcapConsts.terminatorReserve     -- MemBuf keeps room for a terminator
  deriving DecidableEq, Repr

structure St where
  cfg : Cfg
  v : Bytes                            -- ghost: the whole virgin body
  -- virgin body pipe
  put : Nat := 0
  consumed : Nat := 0                  -- virginConsumed
  buf : Bytes := []
  prodEnded : Bool := false
  consuming : Bool := false            -- virgin.body_pipe != nullptr
  -- transaction flags
  canStartBypass : Bool := false
  protectGroupBypass : Bool := true
  isRetriable : Bool := true
  isRepeatable : Bool := true
  writing : Writing := .init
  parsing : Parsing := .icapHeader
  sending : Sending := .undecided
  readyForUob : Bool := false
  allowedPostview204 : Bool := false
  allowedPostview206 : Bool := false
  allowedPreview206 : Bool := false
  preview : Preview := {}
  vWriting : Act := {}
  vSending : Act := {}
  writerBusy : Bool := false
  ignoreLastWrite : Bool := false
  commEof : Bool := false
  haveConn : Bool := false
  readerOn : Bool := false
  bytesRead : Bool := false
  trailerExpected : Bool := false
  gotBody : Bool := false
  -- adapted side
  head : Head := .none
  answer : Answer := .none
  outSt : OutSt := .noPipe
  out : Bytes := []
  outTaken : Nat := 0
  outSize : Option Nat := none
  recv : Bytes := []                   -- ghost: adapted body bytes received from the ICAP server
  pending : Bytes := []                -- received, not yet accepted by the adapted pipe
  lastSeen : Option (Option Nat) := none   -- last-chunk received (with its use-original-body value)
  uob : Option Nat := none             -- prepPartialBodyEchoing(pos) happened
  bypassed : Bool := false             -- bypassFailure() ran
  thrown : Bool := false
  stopped : Bool := false
  crashed : Bool := false              -- the process died (exception out of swanSong, null dereference)
  deriving Repr

abbrev Op := St → St

def skip : Op := id
def seq (f g : Op) : Op := fun s => let t := f s; if t.thrown then t else g t
infixl:60 " ;; " => seq
def cond (c : St → Bool) (t e : Op) : Op := fun s => if c s then t s else e s
def whenOp (c : St → Bool) (t : Op) : Op := cond c t skip
def throwNow : Op := fun s => { s with thrown := true }
def must (c : St → Bool) : Op := cond c skip throwNow

/-! ### BodyPipe / MemBuf arithmetic -/

def St.have (s : St) : Nat := s.put - s.consumed
/-- MemBuf::potentialSpaceSize() of the virgin pipe -/
def St.potentialSpace (s : St) : Nat :=
  if s.have + s.cfg.reserve < s.cfg.maxCapacity then s.cfg.maxCapacity - (s.have + s.cfg.reserve) else 0
def St.total (s : St) : Nat := s.v.length
/-- BodyPipe::mayNeedMoreData() of the virgin pipe -/
def St.mayNeedMore (s : St) : Bool := !s.cfg.sizeKnown || s.put < s.total
/-- BodyPipe::expectMoreAfter(offset) of the virgin pipe -/
def St.expectMoreAfter (s : St) (off : Nat) : Bool := off < s.put || (!s.prodEnded && s.mayNeedMore)
/-- space left in the adapted pipe -/
def St.outSpace (s : St) : Nat :=
  let held := s.out.length - s.outTaken
  if held + s.cfg.reserve < s.cfg.maxCapacity then s.cfg.maxCapacity - (held + s.cfg.reserve) else 0

/-! ### flags -/

def disableRetries : Op := fun s => { s with isRetriable := false }
def disableRepeats : Op := fun s => { s with isRepeatable := false }
/-- disableRepeats(reason); disableBypass(reason, true) -/
def noBypassNoRepeat : Op := fun s => { s with isRepeatable := false, canStartBypass := false, protectGroupBypass := false }

/-- State::doneConsumingVirgin() -/
def St.doneConsumingVirgin (s : St) : Bool :=
  decide (s.writing.rank ≥ Writing.almostDone.rank) && ((s.sending == .adapted && !s.readyForUob) || s.sending == .done)

/-- ModXact::checkConsuming() -/
def checkConsuming : Op := fun s =>
  if !s.consuming || !s.doneConsumingVirgin then s else { s with consuming := false }

/-- the offset up to which virginConsume() may release buffered virgin bytes -/
def St.consumeLimit (s : St) : Nat :=
  let o1 := if s.vWriting.st == .active then min s.vWriting.start s.put else s.put
  if s.vSending.st == .active then min s.vSending.start o1 else o1

/-- ModXact::virginConsume() -/
def virginConsume : Op := fun s =>
  if !s.consuming then s
  else if s.isRetriable then s
  else if (s.isRepeatable || s.canStartBypass || s.protectGroupBypass) && s.potentialSpace > 0 then s
  else if s.consumed ≤ s.consumeLimit then
    let size := s.consumeLimit - s.consumed
    if size > 0 then
      { s with buf := s.buf.drop size, consumed := s.consumed + size, isRepeatable := false, canStartBypass := false, protectGroupBypass := false }
    else s
  else { s with thrown := true }      -- Must(virginConsumed <= offset && offset <= end)

/-- ModXact::stopWriting(nicely) -/
def stopWriting (nicely : Bool) : Op :=
  cond (fun s => s.writing == .reallyDone) skip <|
  cond (fun s => s.writerBusy && nicely) ((fun s => { s with writing := .almostDone }) ;; checkConsuming) <|
  whenOp (fun s => s.writerBusy) (fun s => { s with ignoreLastWrite := true }) ;;
  whenOp (fun s => s.vWriting.st == .active) ((fun s => { s with vWriting := { s.vWriting with st := .disabled } }) ;; virginConsume) ;;
  (fun s => { s with writing := .reallyDone }) ;;
  checkConsuming

/-- ModXact::stopBackup() -/
def stopBackup : Op :=
  whenOp (fun s => s.vSending.st == .active) ((fun s => { s with vSending := { s.vSending with st := .disabled } }) ;; virginConsume)

/-- whether the adapted pipe still owes bytes (BodyPipe::needsMoreData()) -/
def St.leftDebts (s : St) : Bool := match s.outSize with | some n => decide (s.out.length < n) | none => false

/-- stopProducingFor(adapted.body_pipe, nicely && !leftDebts) and the end of sending -/
def endPipe (nicely : Bool) : Op := fun s =>
  { s with vSending := { s.vSending with st := .disabled }, outSt := if nicely && !s.leftDebts then .endedOk else .aborted, sending := .done }

/-- ModXact::stopSending(nicely) -/
def stopSending (nicely : Bool) : Op :=
  cond (fun s => s.sending == .done) skip <|
  cond (fun s => s.sending != .undecided)
    (cond (fun s => s.outSt == .isOpen) (endPipe nicely) (fun s => { s with sending := .done }) ;; checkConsuming)
    (must (fun s => s.outSt == .noPipe) ;; (fun s => { s with sending := .done }) ;; checkConsuming)

/-- ModXact::stopParsing(checkUnparsedData) -/
def stopParsing (check : Bool) : Op :=
  cond (fun s => s.parsing == .done) skip <|
  must (fun s => !(check && !s.pending.isEmpty)) ;; (fun s => { s with parsing := .done })

/-! ### writing the request -/

/-- virginBodyEndReached(act) -/
def St.endReached (s : St) (a : Act) : Bool := a.st != .active || !s.expectMoreAfter a.start

/-- Preview::wrote(size, wroteEof) -/
def pvWrote (size : Nat) (eof : Bool) : Op := fun s =>
  if s.preview.st == .disabled then { s with thrown := true }
  else
    let w := s.preview.written + size
    if w > s.preview.ad then { s with preview := { s.preview with written := w }, thrown := true }
    else { s with preview := { s.preview with written := w, st := if eof then .ieof else if w ≥ s.preview.ad then .done else s.preview.st } }

def St.pvDone (s : St) : Bool := s.preview.st == .done || s.preview.st == .ieof
def St.pvDebt (s : St) : Nat := if s.pvDone then 0 else s.preview.ad - s.preview.written

/-- the bookkeeping of writeSomeBody() after the chunk was taken: preview accounting, last-chunk, scheduleWrite -/
def wroteChunk (chunk : Nat) : Op :=
  whenOp (fun s => s.writing == .preview) (fun s => pvWrote chunk (s.endReached s.vWriting) s) ;;
  whenOp (fun s => decide (chunk > 0) || s.endReached s.vWriting || (s.writing == .preview && s.pvDone)) (fun s => { s with writerBusy := true })

/-- ModXact::writeSomeBody(label, size) -/
def writeSomeBody (size : St → Nat) : Op :=
  must (fun s => !s.writerBusy && decide (s.writing.rank < Writing.almostDone.rank) && s.consuming && s.vWriting.st == .active) ;;
  must (fun s => decide (s.consumed ≤ s.vWriting.start) && decide (s.vWriting.start ≤ s.put)) ;;     -- virginContentSize()
  fun s =>
    let chunk := min (s.put - s.vWriting.start) (size s)
    ((whenOp (fun _ => chunk > 0) ((fun s => { s with vWriting := { s.vWriting with start := s.vWriting.start + chunk } }) ;; virginConsume)) ;;
     wroteChunk chunk) s

/-- ModXact::decideWritingAfterPreview() -/
def decideWritingAfterPreview : Op :=
  cond (fun s => s.preview.st == .ieof) (stopWriting true) <|
  cond (fun s => s.parsing == .icapHeader) (fun s => { s with writing := .paused }) (stopWriting true)

/-- ModXact::writePreviewBody() -/
def writePreviewBody : Op :=
  must (fun s => s.writing == .preview && s.consuming) ;;
  writeSomeBody (fun s => min s.pvDebt s.have) ;;
  whenOp (fun s => s.pvDone) decideWritingAfterPreview

/-- ModXact::writePrimeBody() -/
def writePrimeBody : Op :=
  must (fun s => s.writing == .prime && s.vWriting.st == .active) ;;
  writeSomeBody (fun s => s.have) ;;
  whenOp (fun s => s.endReached s.vWriting) (stopWriting true)

/-- ModXact::writeMore() -/
def writeMore : Op :=
  cond (fun s => s.writerBusy) skip <|
  cond (fun s => s.writing == .almostDone) (stopWriting false) <|
  cond (fun s => s.writing == .preview) writePreviewBody <|
  cond (fun s => s.writing == .prime) writePrimeBody skip

/-! ### sending -/

/-- how many bytes echoMore() hands to the adapted pipe (BodyPipe::putMoreData()) -/
def St.echoSize (s : St) : Nat :=
  let sizeMax := s.put - s.vSending.start
  let owed := match s.outSize with | some n => n - s.out.length | none => sizeMax
  min (min sizeMax owed) s.outSpace

/-- the copy in echoMore(): bytes of the virgin pipe buffer go into the adapted pipe -/
def echoCopy : Op := fun s =>
  { s with out := s.out ++ (s.buf.drop (s.vSending.start - s.consumed)).take s.echoSize,
           vSending := { s.vSending with start := s.vSending.start + s.echoSize },
           isRepeatable := false, canStartBypass := false, protectGroupBypass := false }

/-- ModXact::echoMore() -/
def echoMore : Op :=
  must (fun s => s.sending == .virgin && s.outSt == .isOpen && s.vSending.st == .active) ;;
  must (fun s => decide (s.consumed ≤ s.vSending.start) && decide (s.vSending.start ≤ s.put)) ;;   -- virginContentSize()
  whenOp (fun s => s.put - s.vSending.start > 0) (echoCopy ;; virginConsume) ;;
  whenOp (fun s => s.endReached s.vSending) (stopSending true)

/-- sendAnswer(Answer::Forward(adapted.header)); a nil header makes Iterator::handleAdaptedHeader() fail: the initiator sees an abort -/
def sendAnswer : Op := fun s =>
  if s.answer != .none then s
  else if s.head == .none then { s with answer := .aborted } else { s with answer := .forward }

/-- ModXact::startSending() -/
def startSending : Op :=
  noBypassNoRepeat ;; sendAnswer ;;
  cond (fun s => s.sending == .virgin) echoMore (must (fun s => s.head != .none))     -- updateSources(): Must(adapted.header)

/-- VirginBodyAct::plan() -/
def planSending : Op :=
  must (fun s => s.vSending.st != .disabled && s.vSending.start == 0) ;;
  fun s => { s with vSending := { s.vSending with st := .active } }

/-- adapted.setHeader(clone of the virgin head) -/
def allocClone : Op := fun s => { s with head := .virginClone }

/-- makeAdaptedBodyPipe() for the echo, with the virgin body size when known -/
def openEchoPipe : Op := fun s =>
  { s with sending := .virgin, outSt := .isOpen, outSize := if s.cfg.sizeKnown then some s.total else none }

/-- ModXact::prepEchoing() -/
def prepEchoing : Op :=
  noBypassNoRepeat ;;
  -- (source variants with the check) Must(!virgin.header->body_pipe || virginBodySending.active() || !virginConsumed)
  must (fun s => !(IcapConsts.planChecksConsumed && s.cfg.hasBody && s.vSending.st != .active && s.consumed != 0)) ;;
  must (fun s => s.head == .none) ;;            -- Must(!adapted.header)
  allocClone ;;
  cond (fun s => s.cfg.hasBody)
    (whenOp (fun s => s.vSending.st != .active)
       (whenOp (fun s => IcapConsts.replanAfterStopBackup && s.vSending.st == .disabled && s.consumed == 0)
          (fun s => { s with vSending := { s.vSending with st := .undecided } }) ;;     -- nothing was echoed yet: its offset is still 0
        planSending) ;;
     must (fun s => s.outSt == .noPipe) ;;       -- makeAdaptedBodyPipe(): Must(!adapted.body_pipe)
     openEchoPipe ;; checkConsuming)
    (stopSending true)

/-- the state change of prepPartialBodyEchoing(pos) -/
def startPartEcho (pos : Nat) : Op := fun s =>
  { s with vSending := { s.vSending with start := s.vSending.start + pos }, sending := .virgin, uob := some pos,
           outSize := if s.cfg.sizeKnown then some (s.out.length + (s.total - pos)) else s.outSize }

/-- ModXact::prepPartialBodyEchoing(pos) -/
def prepPartialBodyEchoing (pos : Nat) : Op :=
  must (fun s => s.vSending.st == .active && s.cfg.hasBody) ;;
  must (fun s => decide (pos ≤ s.put)) ;;
  must (fun s => !s.cfg.sizeKnown || (match s.outSize with | some n => n == s.out.length + (s.total - pos) | none => true)) ;;   -- expectProductionEndAfter()
  startPartEcho pos ;; checkConsuming ;; echoMore

/-! ### parsing the reply -/

/-- makeAdaptedBodyPipe() for the adapted body, with state.parsing = psBody set just before -/
def openAdaptedPipe : Op := fun s => { s with outSt := .isOpen, parsing := .body }

/-- ModXact::decideOnParsingBody() -/
def decideOnParsingBody : Op :=
  cond (fun s => s.gotBody)
    -- state.parsing = psBody; makeAdaptedBodyPipe(): Must(!adapted.body_pipe), then adapted.header is dereferenced; Must(sending == adapted)
    (cond (fun s => s.head == .none) (fun s => { s with parsing := .body, thrown := true, crashed := true })
       (cond (fun s => s.outSt == .noPipe) (openAdaptedPipe ;; must (fun s => s.sending == .adapted))
          (fun s => { s with parsing := .body, thrown := true })))
    (cond (fun s => s.trailerExpected) (fun s => { s with parsing := .icapTrailer }) (stopParsing true) ;; stopSending true)

/-- how many pending bytes fit into the adapted pipe now -/
def St.fitSize (s : St) : Nat := min s.pending.length (if s.outSt == .isOpen then s.outSpace else 0)

/-- the chunked parser hands over what fits; the first adapted byte ends bypass and repeats -/
def moveBody : Op := fun s =>
  let n := s.fitSize
  let used := decide ((s.out ++ s.pending.take n).length - s.outTaken > 0)
  { s with out := s.out ++ s.pending.take n, pending := s.pending.drop n,
           isRepeatable := if used then false else s.isRepeatable, canStartBypass := if used then false else s.canStartBypass,
           protectGroupBypass := if used then false else s.protectGroupBypass }

def setParsingAfterBody : Op := cond (fun s => s.trailerExpected) (fun s => { s with parsing := .icapTrailer }) (stopParsing true)

/-- ModXact::parseBody() -/
def parseBody : Op :=
  must (fun s => s.parsing == .body && s.outSt != .noPipe) ;;
  moveBody ;;
  cond (fun s => s.pending.isEmpty)
    (fun s => match s.lastSeen with
      | some u =>
        ((match s.readyForUob, u with
          | true, some pos => prepPartialBodyEchoing pos
          | _, _ => stopSending true) ;; setParsingAfterBody) s
      | none => must (fun s => !s.commEof) s)                                       -- needsMoreData: Must(mayReadMore())
    (must (fun s => s.sending != .done && s.out.length - s.outTaken != 0))           -- needsMoreSpace

/-- the tail of ModXact::parseHeaders(): all headers parsed -/
def headersDone : Op := startSending

/-- ModXact::parseHttpHead() reached with a complete head -/
def parseHttpHeadComplete : Op := decideOnParsingBody ;; headersDone

/-- ModXact::handle100Continue() -/
def handle100Continue : Op :=
  must (fun s => s.writing == .paused) ;;
  must (fun s => s.preview.st == .done) ;;
  whenOp (fun s => !s.allowedPostview204 && !s.allowedPostview206) stopBackup ;;
  (fun s => { s with parsing := .icapHeader, writing := .prime }) ;;
  writeMore

/-- ModXact::handle200Ok() -/
def handle200Ok : Op :=
  (fun s => { s with parsing := .httpHeader, sending := .adapted, readyForUob := s.readyForUob }) ;; stopBackup ;; checkConsuming

/-- ModXact::handle204NoContent() -/
def handle204NoContent : Op := stopParsing true ;; prepEchoing

/-- ModXact::handle206PartialContent() -/
def handle206PartialContent : Op :=
  cond (fun s => s.writing == .paused)
    (must (fun s => s.preview.st != .disabled && s.allowedPreview206))
    (must (fun s => decide (s.writing.rank > Writing.paused.rank) && s.allowedPostview206)) ;;
  (fun s => { s with parsing := .httpHeader, sending := .adapted, readyForUob := true }) ;; checkConsuming

/-- ModXact::handleUnknownScode() -/
def handleUnknownScode : Op := stopParsing false ;; stopBackup ;; throwNow

/-- ModXact::parseIcapHead() for a complete ICAP head: status, Encapsulated has an acceptable HTTP head / a body, Trailer announced -/
def parseIcapHead (status : Nat) (hdr body trailer : Bool) : Op :=
  must (fun s => s.sending == .undecided) ;;
  (fun s => { s with trailerExpected := trailer, gotBody := body }) ;;
  (match status with
   | 100 => handle100Continue
   | 200 | 201 => cond (fun _ => hdr) handle200Ok throwNow
   | 204 => handle204NoContent
   | 206 => cond (fun _ => IcapConsts.validates206 && !hdr) throwNow handle206PartialContent
   | _ => handleUnknownScode) ;;
  whenOp (fun s => s.writing == .paused) (stopWriting true)

/-- maybeAllocateHttpMsg() -/
def allocAdapted : Op := fun s => if s.head == .none then { s with head := .adapted } else s

/-- ModXact::parseHeaders() on a complete ICAP head; the HTTP head parse is attempted at once (maybeAllocateHttpMsg) -/
def parseHeadersIcap (status : Nat) (hdr body trailer : Bool) : Op :=
  parseIcapHead status hdr body trailer ;;
  cond (fun s => s.parsing == .httpHeader)
    (cond (fun _ => hdr) allocAdapted parseHttpHeadComplete)
    (whenOp (fun s => s.parsing != .icapHeader) headersDone)

/-! ### exceptions and the end of the job -/

/-- Xaction::swanSong(): tellQueryAborted() when no answer was sent; the connection and the job are gone -/
def tellAbortedAndStop : Op := fun s =>
  { s with stopped := true, haveConn := false, readerOn := false, writerBusy := false,
           answer := if s.answer == .none then .aborted else s.answer }

/-- an exception leaving swanSong() is not caught by the job call wrapper (callEnd() runs outside its try block): FATAL -/
def crashStop : Op := fun s => { s with thrown := false, stopped := true, crashed := true }

/-- ModXact::swanSong() + Xaction::swanSong() -/
def swanSong : Op := fun s =>
  let s1 := stopWriting false { s with thrown := false }
  if s1.thrown then crashStop s1 else
  let s2 := stopSending false s1
  if s2.thrown then crashStop s2 else tellAbortedAndStop s2

/-- a half-received adapted head is dropped (only in source variants that do so) -/
def dropHead : Op := fun s => { s with head := .none, sending := .undecided }

/-- ModXact::bypassFailure() -/
def bypassFailure : Op :=
  (fun s => { s with canStartBypass := false, bypassed := true }) ;;
  must (fun s => !s.isRetriable) ;;
  -- the C++ calls stopParsing(false) after startSending(); neither prepEchoing() nor startSending() reads state.parsing,
  -- so doing it first is the same computation (and lets the parsing-indexed invariants hold throughout)
  stopParsing false ;;
  whenOp (fun s => IcapConsts.dropPartialAdaptedHead && s.head == .adapted && s.answer == .none && s.outSt == .noPipe && s.sending == .adapted) dropHead ;;
  prepEchoing ;; startSending ;; stopWriting true ;;
  (fun s => { s with readerOn := false })

/-- ModXact::callException() -/
def callException : Op := fun s =>
  let s0 := { s with thrown := false }
  if !s0.canStartBypass || s0.isRetriable then swanSong s0
  else
    let s1 := bypassFailure s0
    if s1.thrown then swanSong s1 else s1

/-- ModXact::doneAll() -/
def St.doneAll (s : St) : Bool :=
  s.sending == .done && (s.commEof || s.parsing == .done) && s.writing == .reallyDone && !s.readerOn && !s.writerBusy

/-- after every handler: exception handling, then callEnd()/done() -/
def finish : Op := fun s =>
  if s.crashed then { s with stopped := true, thrown := false } else
  let s1 := if s.thrown then callException s else s
  if s1.stopped then s1 else if s1.doneAll then swanSong s1 else s1

/-- ModXact::readMore() -/
def readMore : Op := fun s =>
  if s.readerOn || s.commEof || s.parsing == .done || !s.haveConn then s else { s with readerOn := true }

/-! ### events -/

inductive Ev
  | connected
  | wrote
  | produce (n : Nat)
  | prodEnd
  | rdIcap (status : Nat) (hdr body trailer : Bool)
  | rdHttpHead
  | rdBody (bs : Bytes)
  | rdLast (uob : Option Nat)
  | rdTrailer
  | rdEof
  | rdError
  | rdBad
  | space (n : Nat)
  | consumerAbort
  | timeout
  | closed
  | initiatorAbort
  deriving Repr

/-- ModXact::makeAllowHeader(): which 204/206 replies we promise to honour; plan the backup of the virgin body -/
def makeAllowHeader : Op :=
  (fun s =>
    let canBackupAll := !s.cfg.hasBody || (s.cfg.sizeKnown && decide (s.total < s.cfg.backupLimit))
    let any206 := s.cfg.allow206 && s.cfg.hasBody
    { s with allowedPostview204 := canBackupAll, allowedPreview206 := any206 && s.preview.st != .disabled, allowedPostview206 := any206 && canBackupAll }) ;;
  whenOp (fun s => (s.preview.st != .disabled || s.allowedPostview204 || s.allowedPreview206 || s.allowedPostview206) && s.cfg.hasBody) planSending

/-- Xaction::useIcapConnection() -> ModXact::startShoveling() -/
def startShoveling : Op :=
  must (fun s => s.writing == .connect) ;;
  (fun s => { s with haveConn := true, readerOn := true }) ;;
  whenOp (fun s => s.preview.st != .disabled && !s.cfg.hasBody) (pvWrote 0 true) ;;   -- finishNullOrEmptyBodyPreview()
  makeAllowHeader ;;
  (fun s => { s with writing := .headers, writerBusy := true })

/-- ModXact::handleCommWroteHeaders() -/
def handleCommWroteHeaders : Op :=
  cond (fun s => s.preview.st != .disabled)
    (cond (fun s => s.pvDone) (decideWritingAfterPreview ;; writeMore) ((fun s => { s with writing := .preview }) ;; writeMore))
    (cond (fun s => s.cfg.hasBody) ((fun s => { s with writing := .prime }) ;; writeMore) (stopWriting true))

/-- Xaction::noteCommWrote() -/
def noteCommWrote : Op :=
  (fun s => { s with writerBusy := false }) ;;
  cond (fun s => s.ignoreLastWrite) (fun s => { s with ignoreLastWrite := false })
    (cond (fun s => s.writing == .headers) handleCommWroteHeaders writeMore)

/-- how many of n offered bytes the virgin pipe takes (BodyPipe::putMoreData()) -/
def St.produceSize (s : St) (n : Nat) : Nat := min (min n (s.total - s.put)) s.potentialSpace

def produceCore (k : Nat) : Op := fun s => { s with buf := s.buf ++ (s.v.drop s.put).take k, put := s.put + k }

/-- ModXact::noteMoreBodyDataAvailable() / noteBodyProductionEnded() -/
def noteVirginNews : Op := writeMore ;; whenOp (fun s => s.sending == .virgin) echoMore

/-- the producer of the virgin body appends up to n bytes -/
def produce (n : Nat) : Op := fun s =>
  (produceCore (s.produceSize n) ;; whenOp (fun t => t.consuming && s.produceSize n != 0) noteVirginNews) s

/-- the producer is done (at the end of the body) -/
def prodEnd : Op :=
  whenOp (fun s => s.put == s.total && !s.prodEnded) ((fun s => { s with prodEnded := true }) ;; whenOp (fun s => s.consuming) noteVirginNews)

/-- Xaction::noteCommRead() with data, then ModXact::handleCommRead(): parseMore(); readMore() -/
def noteRead (parse : Op) : Op :=
  (fun s => { s with readerOn := false, bytesRead := true, isRetriable := false }) ;; parse ;; readMore

def parseMoreBody : Op := whenOp (fun s => s.parsing == .body) parseBody

def recvBody (bs : Bytes) : Op := fun s => { s with recv := s.recv ++ bs, pending := s.pending ++ bs }
def recvLast (u : Option Nat) : Op := fun s => { s with lastSeen := some u }
def takeOut (n : Nat) : Op := fun s => { s with outTaken := min s.out.length (s.outTaken + n) }

/-- the handler an event runs (the event is ignored when it cannot occur in this state) -/
def handler : Ev → Op
  | .connected => whenOp (fun s => s.writing == .connect && !s.haveConn) startShoveling
  | .wrote => whenOp (fun s => s.writerBusy && s.haveConn) noteCommWrote
  | .produce n => whenOp (fun s => !s.prodEnded) (produce n)
  | .prodEnd => prodEnd
  | .rdIcap st h b t => whenOp (fun s => s.readerOn && s.parsing == .icapHeader) (noteRead (parseHeadersIcap st h b t ;; parseMoreBody))
  | .rdHttpHead => whenOp (fun s => s.readerOn && s.parsing == .httpHeader && s.head == .adapted) (noteRead (parseHttpHeadComplete ;; parseMoreBody))
  | .rdBody bs => whenOp (fun s => s.readerOn && s.parsing == .body && s.lastSeen.isNone) (recvBody bs ;; noteRead parseBody)
  | .rdLast u => whenOp (fun s => s.readerOn && s.parsing == .body && s.lastSeen.isNone) (recvLast u ;; noteRead parseBody)
  | .rdTrailer => whenOp (fun s => s.readerOn && s.parsing == .icapTrailer) (noteRead (stopParsing true))
  | .rdEof => whenOp (fun s => s.readerOn)
      ((fun s => { s with readerOn := false, commEof := true }) ;;
       cond (fun s => !s.bytesRead && s.isRetriable) swanSong                      -- pconn race: mustStop
         (cond (fun s => s.parsing == .body && s.lastSeen.isSome) parseBody
            throwNow))                                                             -- a head/body/trailer cut short: Must(parsed || !error), Must(mayReadMore())
  | .rdError => whenOp (fun s => s.readerOn)
      ((fun s => { s with readerOn := false }) ;; cond (fun _ => IcapConsts.readErrorThrows) throwNow swanSong)
  | .rdBad => whenOp (fun s => s.readerOn && s.parsing != .done)
      ((fun s => { s with readerOn := false, bytesRead := true, isRetriable := false }) ;; throwNow)
  | .space n => whenOp (fun s => s.outSt == .isOpen)
      (takeOut n ;;
       cond (fun s => s.sending == .virgin) echoMore
         (cond (fun s => s.sending == .adapted) parseMoreBody (must (fun s => s.sending == .undecided))))
  | .consumerAbort => whenOp (fun s => s.outSt == .isOpen) swanSong
  | .timeout => whenOp (fun s => s.haveConn && (s.readerOn || s.writerBusy)) ((fun s => { s with haveConn := false, readerOn := false }) ;; throwNow)
  | .closed => whenOp (fun s => s.haveConn) ((fun s => { s with haveConn := false }) ;; swanSong)
  | .initiatorAbort => whenOp (fun s => s.answer == .none) ((fun s => { s with answer := .aborted }) ;; swanSong)

/-- one event: ignored once the job is gone -/
def step (s : St) (e : Ev) : St := if s.stopped then s else finish (handler e s)


def run (s : St) (es : List Ev) : St := es.foldl step s

/-- estimateVirginBody(): plan the writing of the body, sign up as its consumer -/
def initBody : Op := fun s => if s.cfg.hasBody then { s with vWriting := { st := .active, start := 0 }, consuming := true } else s

/-- canStartBypass = service().cfg().bypass; the Launcher's repeat budget; startWriting() -/
def initFlags : Op := fun s => { s with canStartBypass := s.cfg.bypass, isRepeatable := s.cfg.repeatable, writing := .connect }

/-- ModXact::decideOnPreview() -/
def initPreview : Op := fun s =>
  match s.cfg.previewWanted with
  | some wanted =>
    let ad0 := min wanted s.cfg.backupLimit
    let ad := if !s.cfg.hasBody then 0 else if s.cfg.sizeKnown then min ad0 s.v.length else ad0
    { s with preview := { st := .writing, written := 0, ad := ad } }
  | none => s

/-- ModXact::decideOnRetries() and Xaction::openConnection(): only a reused persistent connection keeps the attempt retriable -/
def initRetries : Op := fun s =>
  let canBackupAll := !s.cfg.hasBody || (s.cfg.sizeKnown && decide (s.v.length < s.cfg.backupLimit))
  if (s.preview.st != .disabled || canBackupAll) && s.cfg.reusedPconn then s else { s with isRetriable := false }

/-- ModXact::start() up to openConnection(): estimateVirginBody, canStartBypass, decideOnPreview, decideOnRetries -/
def init (cfg : Cfg) (v : Bytes) : St := initRetries (initPreview (initFlags (initBody { cfg := cfg, v := v })))

end SquidModel.Icap
