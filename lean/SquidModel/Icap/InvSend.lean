/-
The sending side (stopSending, echoMore, startSending, prepEchoing, prepPartialBodyEchoing) keeps the invariants.
-/
import SquidModel.Icap.InvOps

namespace SquidModel.Icap
open SquidModel

variable {w : Bool}

/-- what stopSending(nicely) needs: a nicely ended pipe carries a complete message; we are not in the middle of the HTTP head -/
def StopPre (nicely : Bool) (s : St) : Prop := (nicely = true → s.outSt = .isOpen → EndOk s) ∧ s.parsing ≠ .httpHeader

abbrev Ctl3 := Parsing → Head → Option Nat → Prop

theorem tri_endPipe (n : Bool) (P : Ctl3) :
    Tri w (fun s => (StopPre n s ∧ P s.parsing s.head s.uob) ∧ s.outSt = .isOpen) (endPipe n)
        (fun s => s.ctl (fun p sd h _ u => sd = .done ∧ P p h u)) := by
  apply Tri.atomic
  intro s m a ⟨⟨⟨hend, hp⟩, hP⟩, ho⟩
  have ho' : s.outSt ≠ .noPipe := by rw [ho]; decide
  have hn : (if (n && !s.leftDebts) = true then OutSt.endedOk else OutSt.aborted) ≠ .noPipe := by split <;> decide
  refine ⟨?_, ?_, ?_⟩
  · refine Main.endPipe m _ ho' ?_ hn
    intro he
    apply hend _ ho
    cases n
    · simp at he
    · rfl
  · constructor
    · intro (h : s.parsing = .body); have b := a.body h; exact ⟨b.1, hn, b.2.2⟩
    · intro (h : s.parsing = .icapHeader); have := (a.icapH h).2; rw [ho] at this; cases this
    · intro (h : s.parsing = .httpHeader); exact absurd h hp
  · exact ⟨rfl, hP⟩

theorem tri_sendingDone (P : Ctl3) :
    Tri w (fun s => s.parsing ≠ .httpHeader ∧ P s.parsing s.head s.uob) (fun s => { s with sending := .done })
        (fun s => s.ctl (fun p sd h _ u => sd = .done ∧ P p h u)) := by
  apply Tri.atomic
  intro s m a ⟨hp, hP⟩
  refine ⟨m.sendingDone, ?_, ⟨rfl, hP⟩⟩
  constructor
  · exact a.body
  · exact a.icapH
  · intro (h : s.parsing = .httpHeader); exact absurd h hp

theorem tri_stopSending (n : Bool) (P : Ctl3) :
    Tri w (fun s => StopPre n s ∧ P s.parsing s.head s.uob) (stopSending n) (fun s => s.ctl (fun p sd h _ u => sd = .done ∧ P p h u)) := by
  unfold stopSending
  apply Tri.cond'
  · exact Tri.skip'.weaken (fun _ h => h) (fun s h => ⟨eq_of_beq h.2, h.1.2⟩)
  · apply Tri.cond'
    · apply Tri.seq' (Q := fun s => s.ctl (fun p sd h _ u => sd = .done ∧ P p h u))
      · apply Tri.cond'
        · exact (tri_endPipe n P).weaken (fun s h => ⟨h.1.1.1, eq_of_beq h.2⟩) (fun _ h => h)
        · exact (tri_sendingDone P).weaken (fun s h => ⟨h.1.1.1.1.2, h.1.1.1.2⟩) (fun _ h => h)
      · exact Tri.ctl keeps_checkConsuming fr_checkConsuming _
    · apply Tri.seq' (Q := fun s => s.ctl (fun p sd h _ u => sd = .done ∧ P p h u))
      · apply Tri.seq' (Q := fun s => s.parsing ≠ .httpHeader ∧ P s.parsing s.head s.uob)
        · exact (Tri.must' _).weaken (fun _ h => h) (fun s h => ⟨h.1.1.1.1.2, h.1.1.1.2⟩)
        · exact tri_sendingDone P
      · exact Tri.ctl keeps_checkConsuming fr_checkConsuming _

theorem main_seq {f g : Op} (s : St) (hf : Main (f s)) (hg : Main (f s) → Main (g (f s))) : Main ((f ;; g) s) := by
  show Main (seq f g s)
  unfold seq; dsimp only; split
  · exact hf
  · exact hg hf

/-- the final stopSending(false) of swanSong() only needs the `Main` part -/
theorem main_stopSending_false (s : St) (m : Main s) : Main (stopSending false s) := by
  unfold stopSending
  unfold Icap.cond
  split
  · exact m
  · split
    · apply main_seq
      · split
        · rename_i ho
          have ho' : s.outSt = .isOpen := eq_of_beq ho
          refine Main.endPipe m _ (by rw [ho']; decide) ?_ ?_
          · intro h; simp at h
          · simp
        · exact m.sendingDone
      · exact fun h => keeps_checkConsuming.1 _ h
    · apply main_seq
      · apply main_seq
        · exact (keeps_must _).1 s m
        · exact fun h => Main.sendingDone h
      · exact fun h => keeps_checkConsuming.1 _ h

theorem virginConsume_vSending (s : St) : (virginConsume s).vSending = s.vSending := by
  unfold virginConsume
  split; · rfl
  split; · rfl
  split; · rfl
  split
  · dsimp only; split <;> rfl
  · rfl

/-- echoMore() reached the end of the virgin body: the echoed message is complete -/
theorem endOk_of_echo_end {s : St} (m : Main s) (hv : s.sending = .virgin) (ha : s.vSending.st = .active)
    (he : s.endReached s.vSending = true) : EndOk s := by
  have hstart : s.vSending.start = s.v.length → True := fun _ => trivial
  unfold St.endReached St.expectMoreAfter St.mayNeedMore St.total at he
  simp only [ha, bne_self_eq_false, Bool.false_or, Bool.not_eq_true', Bool.or_eq_false_iff, decide_eq_false_iff_not,
    Bool.and_eq_false_imp, Bool.not_eq_eq_eq_not, Bool.not_true, Bool.not_false] at he
  obtain ⟨h1, h2⟩ := he
  have hput : s.put = s.v.length := by
    by_cases hp : s.prodEnded = true
    · exact m.prod_end hp
    · have hp' : s.prodEnded = false := by simpa using hp
      have := (h2 hp').2; have := m.put_le; omega
  rcases m.sendV hv with hc | hc
  · constructor
    · intro _; have := (m.clone hc).2.1; omega
    · intro (h : s.head = .adapted); rw [hc] at h; cases h
    · intro (h : s.head = .adapted); rw [hc] at h; cases h
  · obtain ⟨pos, hpos⟩ := Option.isSome_iff_exists.mp hc.2
    constructor
    · intro (h : s.head = .virginClone); rw [hc.1] at h; cases h
    · intro _ (hu : s.uob = none); rw [hu] at hpos; cases hpos
    · intro _ _; have := (m.partEcho hc.1 pos hpos).2.2.1; omega

def EchoQ (P : Ctl3) (s : St) : Prop := s.sending = .virgin ∧ s.outSt = .isOpen ∧ s.vSending.st = .active ∧ P s.parsing s.head s.uob

theorem echoSize_le (s : St) : s.echoSize ≤ s.put - s.vSending.start := by
  unfold St.echoSize; dsimp only; omega

theorem tri_echoCopy (P : Ctl3) :
    Tri w (fun s => EchoQ P s ∧ s.consumed ≤ s.vSending.start ∧ s.vSending.start ≤ s.put) echoCopy (EchoQ P) := by
  apply Tri.atomic
  intro s m a ⟨⟨hv, ho, ha, hP⟩, hc, hs⟩
  refine ⟨?_, AuxG.of_sameAux (s := s) ⟨rfl, rfl, rfl, rfl, rfl⟩ a, ⟨hv, ho, ha, hP⟩⟩
  have := echoSize_le s
  exact Main.echo m s.echoSize hv hc (by omega) (by rw [ho]; decide)

theorem tri_virginConsume_echoQ (P : Ctl3) : Tri w (EchoQ P) virginConsume (EchoQ P) := by
  apply Tri.frame keeps_virginConsume
  intro s ⟨hv, ho, ha, hP⟩
  have f := fr_virginConsume s
  refine ⟨by rw [f.sending]; exact hv, by rw [f.outSt]; exact ho, by rw [virginConsume_vSending]; exact ha, ?_⟩
  rw [f.parsing, f.head, f.uob]; exact hP

theorem tri_echoMore (P : Ctl3) :
    Tri w (fun s => P s.parsing s.head s.uob) echoMore (fun s => s.ctl (fun p sd h _ u => (sd = .virgin ∨ sd = .done) ∧ P p h u)) := by
  unfold echoMore
  apply Tri.seq' (Q := EchoQ P)
  · apply Tri.seq' (Q := fun s => EchoQ P s ∧ s.consumed ≤ s.vSending.start ∧ s.vSending.start ≤ s.put)
    · apply Tri.seq' (Q := EchoQ P)
      · refine (Tri.must' _).weaken (fun _ h => h) (fun s h => ?_)
        have h2 := h.2
        simp only [Bool.and_eq_true, beq_iff_eq] at h2
        exact ⟨h2.1.1, h2.1.2, h2.2, h.1⟩
      · refine (Tri.must' _).weaken (fun _ h => h) (fun s h => ?_)
        have h2 := h.2
        simp only [Bool.and_eq_true, decide_eq_true_eq] at h2
        exact ⟨h.1, h2.1, h2.2⟩
    · apply Tri.cond'
      · apply Tri.seq' (Q := EchoQ P)
        · exact (tri_echoCopy P).weaken (fun _ h => h.1) (fun _ h => h)
        · exact tri_virginConsume_echoQ P
      · exact Tri.skip'.weaken (fun _ h => h) (fun _ h => h.1.1)
  · apply Tri.cond'
    · refine ((tri_stopSending true P).weaken (fun _ h => h) (fun s h => ?_)).pre_inv ?_
      · exact ⟨Or.inr h.1, h.2⟩
      · intro s m a ⟨⟨hv, ho, ha, hP⟩, he⟩
        refine ⟨⟨fun _ _ => endOk_of_echo_end m hv ha he, ?_⟩, hP⟩
        intro hp; have := (a.httpH hp).1; rw [hv] at this; cases this
    · exact Tri.skip'.weaken (fun _ h => h) (fun s h => ⟨Or.inl h.1.1, h.1.2.2.2⟩)

theorem aux_of_done {s : St} (h : s.parsing = .done) : AuxG w s := by
  constructor
  · intro h'; rw [h] at h'; cases h'
  · intro h'; rw [h] at h'; cases h'
  · intro h'; rw [h] at h'; cases h'

theorem tri_noBypass (P : Ctl) : Tri w (fun s => s.ctl P) noBypassNoRepeat (fun s => s.canStartBypass = false ∧ s.ctl P) := by
  apply Tri.atomic
  intro s m a p
  exact ⟨keeps_noBypassNoRepeat.1 s m, AuxG.of_sameAux (s := s) ⟨rfl, rfl, rfl, rfl, rfl⟩ a, rfl, p⟩

theorem tri_sendAnswer (P : Ctl) : Tri w (fun s => s.canStartBypass = false ∧ s.ctl P) sendAnswer (fun s => s.ctl P) := by
  apply Tri.atomic
  intro s m a ⟨hb, p⟩
  unfold sendAnswer
  split
  · exact ⟨m, a, p⟩
  · split
    · exact ⟨m.setAnswer _ (fun _ h => by cases h) (fun _ => hb), AuxG.of_sameAux (s := s) ⟨rfl, rfl, rfl, rfl, rfl⟩ a, p⟩
    · rename_i hh
      refine ⟨m.setAnswer _ (fun h => ?_) (fun _ => hb), AuxG.of_sameAux (s := s) ⟨rfl, rfl, rfl, rfl, rfl⟩ a, p⟩
      rw [h] at hh; simp at hh

/-- startSending(): whatever is known about parsing/head/uob stays; a virgin sender may finish -/
theorem tri_startSending (P : Ctl3) (S : Sending → Prop) (hS : S .virgin → S .done) :
    Tri w (fun s => s.ctl (fun p sd h _ u => S sd ∧ P p h u)) startSending (fun s => s.ctl (fun p sd h _ u => S sd ∧ P p h u)) := by
  unfold startSending
  apply Tri.seq' (Q := fun s => s.ctl (fun p sd h _ u => S sd ∧ P p h u))
  · apply Tri.seq' (Q := fun s => s.canStartBypass = false ∧ s.ctl (fun p sd h _ u => S sd ∧ P p h u))
    · exact tri_noBypass _
    · exact tri_sendAnswer _
  · apply Tri.cond'
    · refine (tri_echoMore (fun p h u => S .virgin ∧ P p h u)).weaken (fun s h => ?_) (fun s h => ?_)
      · have hv : s.sending = .virgin := eq_of_beq h.2
        have h1 := h.1
        unfold St.ctl at h1
        rw [hv] at h1
        exact ⟨h1.1, h1.2⟩
      · unfold St.ctl at h ⊢
        rcases h.1 with hv | hd
        · rw [hv]; exact ⟨h.2.1, h.2.2⟩
        · rw [hd]; exact ⟨hS h.2.1, h.2.2⟩
    · exact (Tri.must' _).weaken (fun _ h => h) (fun _ h => h.1.1)

/-- VirginBodyAct::plan(): the act was not disabled, so the adapted pipe (if any) has not ended -/
theorem tri_planSending (P : Ctl) : Tri w (fun s => s.ctl P) planSending (fun s => s.ctl P) := by
  unfold planSending
  apply Tri.seq' (Q := fun s => s.ctl P ∧ s.vSending.st ≠ .disabled)
  · refine (Tri.must' _).weaken (fun _ h => h) (fun s h => ⟨h.1, ?_⟩)
    have h2 := h.2
    simp only [Bool.and_eq_true, bne_iff_ne, ne_eq] at h2
    exact h2.1
  · apply Tri.atomic
    intro s m a ⟨p, hd⟩
    refine ⟨?_, AuxG.of_sameAux (s := s) ⟨rfl, rfl, rfl, rfl, rfl⟩ a, p⟩
    exact ⟨m.put_le, m.cons_le, m.buf_eq, m.prod_end, m.nopipe, m.hnone, m.clone, m.plain, m.partEcho,
      fun he => ⟨(m.ended he).clone, (m.ended he).plain, (m.ended he).part⟩, m.byp, m.sendV, m.taken_le,
      fun h => absurd (m.pipeEnded h) hd⟩

theorem Main.reviveSending {s : St} (m : Main s) (ho : s.outSt = .noPipe) : Main { s with vSending := { s.vSending with st := .undecided } } :=
  ⟨m.put_le, m.cons_le, m.buf_eq, m.prod_end, m.nopipe, m.hnone, m.clone, m.plain, m.partEcho,
   fun he => ⟨(m.ended he).clone, (m.ended he).plain, (m.ended he).part⟩, m.byp, m.sendV, m.taken_le,
   fun h => by rcases h with h | h <;> (rw [ho] at h; cases h)⟩

def CloneQ (s : St) : Prop := s.ctl (fun p _ h o _ => p = .done ∧ h = .virginClone ∧ o = .noPipe)

/-- prepEchoing() with parsing already stopped: the virgin head clone is installed, sending is virgin or done -/
theorem tri_prepEchoing :
    Tri w (fun s => s.parsing = .done) prepEchoing (fun s => s.ctl (fun p sd h _ _ => p = .done ∧ h = .virginClone ∧ (sd = .virgin ∨ sd = .done))) := by
  unfold prepEchoing
  apply Tri.seq' (Q := CloneQ)
  · apply Tri.seq' (Q := fun s => s.canStartBypass = false ∧ s.ctl (fun p _ h _ _ => p = .done ∧ h = .none))
    · apply Tri.seq' (Q := fun s => s.canStartBypass = false ∧ s.ctl (fun p _ _ _ _ => p = .done))
      · apply Tri.seq' (Q := fun s => s.canStartBypass = false ∧ s.ctl (fun p _ _ _ _ => p = .done))
        · exact (tri_noBypass (fun p _ _ _ _ => p = .done)).weaken (fun _ h => h) (fun _ h => h)
        · exact (Tri.must' _).weaken (fun _ h => h) (fun _ h => h.1)
      · refine (Tri.must' _).weaken (fun _ h => h) (fun s h => ⟨h.1.1, h.1.2, eq_of_beq h.2⟩)
    · apply Tri.atomic
      intro s m _ ⟨hb, hp, hh⟩
      have hp' : s.parsing = .done := hp
      exact ⟨m.allocClone hh hb, aux_of_done hp', hp', rfl, (m.hnone hh).1⟩
  · apply Tri.cond'
    · apply Tri.seq' (Q := fun s => s.ctl (fun p sd h _ _ => p = .done ∧ h = .virginClone ∧ (sd = .virgin ∨ sd = .done)))
      · apply Tri.seq' (Q := CloneQ)
        · apply Tri.seq' (Q := CloneQ)
          · apply Tri.cond'
            · apply Tri.seq' (Q := CloneQ)
              · apply Tri.cond'
                · apply Tri.atomic
                  intro s m _ ⟨⟨⟨⟨hp, hh, ho⟩, _⟩, _⟩, _⟩
                  have hp' : s.parsing = .done := hp
                  exact ⟨m.reviveSending ho, aux_of_done hp', hp', hh, ho⟩
                · exact Tri.skip'.weaken (fun _ h => h.1.1.1) (fun _ h => h)
              · exact tri_planSending _
            · exact Tri.skip'.weaken (fun _ h => h.1.1) (fun _ h => h)
          · exact (Tri.must' _).weaken (fun _ h => h) (fun _ h => h.1)
        · apply Tri.atomic
          intro s m _ ⟨hp, hh, _⟩
          have hp' : s.parsing = .done := hp
          exact ⟨m.openEchoPipe hh _, aux_of_done hp', hp', hh, Or.inl rfl⟩
      · exact Tri.ctl keeps_checkConsuming fr_checkConsuming _
    · refine ((tri_stopSending true (fun p h _ => p = .done ∧ h = .virginClone)).weaken (fun _ h => h) (fun s h => ?_)).pre_inv ?_
      · exact ⟨h.2.1, h.2.2, Or.inr h.1⟩
      · intro s _ _ ⟨⟨hp, hh, ho⟩, _⟩
        have hp' : s.parsing = .done := hp
        have ho' : s.outSt = .noPipe := ho
        refine ⟨⟨fun _ h => ?_, by rw [hp']; decide⟩, hp', hh⟩
        rw [ho'] at h; cases h

end SquidModel.Icap
