/-
What the initiator side makes of a finished ICAP MOD transaction:
Launcher::noteXactAbort -> Iterator::handleAdaptationError -> ClientHttpRequest::handleAdaptationFailure (REQMOD) /
Client::handleAdaptationAborted (RESPMOD), and the delivery of a forwarded head with its body pipe.
-/
import SquidModel.Icap.ModXact

namespace SquidModel.Icap

/-- the message the consumer of the adaptation result ends up with -/
inductive Outcome
  | virgin            -- the virgin message, complete
  | adapted           -- the adapted message, complete
  | error             -- an error instead of a message
  | virginTruncated   -- virgin head, then a body that is visibly cut short (an error for the recipient)
  | adaptedTruncated  -- adapted head, then a body that is visibly cut short
  | retry             -- the Launcher starts another attempt (persistent connection race)
  | pending           -- the transaction is still running
  | crash             -- the proxy process died
  deriving DecidableEq, Repr

/-- Iterator::handleAdaptationError(): `useVirgin = canIgnore && !adapted && srcIntact` (single service, no replacement) -/
def useVirgin (s : St) : Bool := s.cfg.bypass && (!s.cfg.hasBody || s.consumed == 0)

def outcome (s : St) : Outcome :=
  if s.crashed then .crash else
  match s.answer with
  | .forward =>
    (match s.head, s.outSt with
     | .virginClone, .noPipe => .virgin
     | .virginClone, .endedOk => .virgin
     | .virginClone, .aborted => .virginTruncated
     | .adapted, .noPipe => .adapted
     | .adapted, .endedOk => .adapted
     | .adapted, .aborted => .adaptedTruncated
     | _, _ => .pending)
  | .aborted =>
    if s.isRetriable then .retry
    -- ClientHttpRequest::handleAdaptationFailure(bypassable) goes on with the virgin request;
    -- Client::handleAdaptationAborted(bypassable) ignores `bypassable` ("TODO: bypass if possible")
    else if !s.cfg.respmod && useVirgin s then .virgin
    else .error
  | .none => .pending

def Outcome.name : Outcome → String
  | .virgin => "V" | .adapted => "A" | .error => "E" | .virginTruncated => "VT" | .adaptedTruncated => "AT"
  | .retry => "RETRY" | .pending => "PENDING" | .crash => "CRASH"

end SquidModel.Icap
