/-
Hoare-style rules for the ModXact operations: `Tri w P f Q` says that `f`, started in a state satisfying the invariants and `P`,
keeps `Main` at every exit and establishes `Aux` and `Q` at its non-throwing exits.
-/
import SquidModel.Icap.InvPrim

namespace SquidModel.Icap
open SquidModel

def Tri (w : Bool) (P : St → Prop) (f : Op) (Q : St → Prop) : Prop :=
  ∀ s, Main s → AuxG w s → P s → Main (f s) ∧ ((f s).thrown = false → AuxG w (f s) ∧ Q (f s))

variable {w : Bool}

theorem Tri.seq' {P Q R : St → Prop} {f g : Op} (h1 : Tri w P f Q) (h2 : Tri w Q g R) : Tri w P (f ;; g) R := by
  intro s m a p
  have k := h1 s m a p
  show Main (seq f g s) ∧ _
  unfold seq
  by_cases ht : (f s).thrown = true
  · simp only [ht, if_true]; exact ⟨k.1, fun h => by cases h⟩
  · have ht' : (f s).thrown = false := by simpa using ht
    simp only [ht', Bool.false_eq_true, if_false]
    exact h2 _ k.1 (k.2 ht').1 (k.2 ht').2

theorem Tri.cond' {P Q : St → Prop} {c : St → Bool} {t e : Op}
    (ht : Tri w (fun s => P s ∧ c s = true) t Q) (he : Tri w (fun s => P s ∧ c s = false) e Q) : Tri w P (cond c t e) Q := by
  intro s m a p
  unfold Icap.cond
  by_cases h : c s = true
  · simp only [h, if_true]; exact ht s m a ⟨p, h⟩
  · have h' : c s = false := by simpa using h
    simp only [h']; exact he s m a ⟨p, h'⟩

theorem Tri.skip' {P : St → Prop} : Tri w P skip P := fun _ m a p => ⟨m, fun _ => ⟨a, p⟩⟩

theorem Tri.weaken {P P' Q Q' : St → Prop} {f : Op} (h : Tri w P f Q) (hp : ∀ s, P' s → P s) (hq : ∀ s, Q s → Q' s) : Tri w P' f Q' :=
  fun s m a p => ⟨(h s m a (hp s p)).1, fun t => ⟨((h s m a (hp s p)).2 t).1, hq _ ((h s m a (hp s p)).2 t).2⟩⟩

/-- the precondition may be derived with the help of the invariants -/
theorem Tri.pre_inv {P P' Q : St → Prop} {f : Op} (h : Tri w P f Q) (hp : ∀ s, Main s → AuxG w s → P' s → P s) : Tri w P' f Q :=
  fun s m a p => h s m a (hp s m a p)

theorem Tri.when' {P : St → Prop} {c : St → Bool} {t : Op} (ht : Tri w (fun s => P s ∧ c s = true) t P) : Tri w P (whenOp c t) P :=
  Tri.cond' ht (Tri.skip'.weaken (fun _ h => h.1) (fun _ h => h))

theorem Tri.throw' {P Q : St → Prop} : Tri w P throwNow Q :=
  fun s m _ _ => ⟨m.of_same (same_setThrown s) (fun h => h), fun h => by cases h⟩

theorem Tri.must' {P : St → Prop} (c : St → Bool) : Tri w P (must c) (fun s => P s ∧ c s = true) :=
  Tri.cond' (Tri.skip'.weaken (fun _ h => h) (fun _ h => h)) Tri.throw'

/-- a `Keeps` operation that does not disturb `P` -/
theorem Tri.frame {P : St → Prop} {f : Op} (hk : Keeps f) (hf : ∀ s, P s → P (f s)) : Tri w P f P :=
  fun s m a p => ⟨hk.1 s m, fun t => ⟨hk.2 w s m a t, hf s p⟩⟩



/-- raw updates of fields the invariants do not read -/
syntax "same_upd" : tactic
macro_rules
  | `(tactic| same_upd) => `(tactic| exact keeps_of_same (fun _ => ⟨rfl, rfl, rfl, rfl, rfl, rfl, rfl, rfl, rfl, rfl, rfl, rfl, rfl, rfl, rfl, rfl, rfl, rfl⟩) (fun _ h => h))

/-! ### the basic operations -/

theorem consumeLimit_le (s : St) : s.consumeLimit ≤ s.put := by
  unfold St.consumeLimit
  dsimp only
  split <;> split <;> omega

theorem keeps_virginConsume : Keeps virginConsume := by
  constructor
  · intro s m
    unfold virginConsume
    split; · exact m
    split; · exact m
    split; · exact m
    split
    · dsimp only
      split
      · refine m.consume _ ?_
        have := consumeLimit_le s
        omega
      · exact m
    · exact m.of_same (same_setThrown s) (fun h => h)
  · intro w s _ a
    unfold virginConsume
    split; · exact fun _ => a
    split; · exact fun _ => a
    split; · exact fun _ => a
    split
    · dsimp only
      split
      · intro _; exact AuxG.of_sameAux (s := s) ⟨rfl, rfl, rfl, rfl, rfl⟩ a
      · exact fun _ => a
    · intro h; cases h

theorem keeps_noBypassNoRepeat : Keeps noBypassNoRepeat := by
  apply keeps_of_same
  · intro s; exact ⟨rfl, rfl, rfl, rfl, rfl, rfl, rfl, rfl, rfl, rfl, rfl, rfl, rfl, rfl, rfl, rfl, rfl, rfl⟩
  · intro s h; cases h

theorem Tri.atomic {P Q : St → Prop} {f : Op} (h : ∀ s, Main s → AuxG w s → P s → Main (f s) ∧ AuxG w (f s) ∧ Q (f s)) : Tri w P f Q :=
  fun s m a p => ⟨(h s m a p).1, fun _ => (h s m a p).2⟩

syntax "keeps_base" : tactic
macro_rules | `(tactic| keeps_base) => `(tactic| same_upd)
macro_rules | `(tactic| keeps_base) => `(tactic| with_reducible apply keeps_seq)
macro_rules | `(tactic| keeps_base) => `(tactic| with_reducible apply keeps_cond)
macro_rules | `(tactic| keeps_base) => `(tactic| with_reducible apply keeps_whenOp)
macro_rules | `(tactic| keeps_base) => `(tactic| with_reducible exact keeps_skip)
macro_rules | `(tactic| keeps_base) => `(tactic| with_reducible exact keeps_must _)
macro_rules | `(tactic| keeps_base) => `(tactic| with_reducible exact keeps_throwNow)
macro_rules | `(tactic| keeps_base) => `(tactic| exact keeps_checkConsuming)
macro_rules | `(tactic| keeps_base) => `(tactic| exact keeps_virginConsume)
macro_rules | `(tactic| keeps_base) => `(tactic| exact keeps_noBypassNoRepeat)
macro "keeps" : tactic => `(tactic| repeat' keeps_base)

theorem frame_checkConsuming {P : St → Prop} (hP : ∀ s, P s → P { s with consuming := false }) : ∀ s, P s → P (checkConsuming s) := by
  intro s h; unfold checkConsuming; split
  · exact h
  · exact hP s h

theorem keeps_stopWriting (n : Bool) : Keeps (stopWriting n) := by
  unfold stopWriting; keeps
macro_rules | `(tactic| keeps_base) => `(tactic| exact keeps_stopWriting _)

theorem Main.disableSending {s : St} (m : Main s) : Main { s with vSending := { s.vSending with st := .disabled } } :=
  ⟨m.put_le, m.cons_le, m.buf_eq, m.prod_end, m.nopipe, m.hnone, m.clone, m.plain, m.partEcho,
   fun he => ⟨(m.ended he).clone, (m.ended he).plain, (m.ended he).part⟩, m.byp, m.sendV, m.taken_le, fun _ => rfl⟩

theorem keeps_disableSending : Keeps (fun s => { s with vSending := { s.vSending with st := .disabled } }) :=
  ⟨fun _ m => m.disableSending, fun _ s _ a _ => AuxG.of_sameAux (s := s) ⟨rfl, rfl, rfl, rfl, rfl⟩ a⟩

theorem keeps_stopBackup : Keeps stopBackup := by
  unfold stopBackup
  with_reducible apply keeps_whenOp
  with_reducible apply keeps_seq
  · exact keeps_disableSending
  · exact keeps_virginConsume
macro_rules | `(tactic| keeps_base) => `(tactic| exact keeps_stopBackup)

theorem keeps_pvWrote (n : Nat) (e : Bool) : Keeps (pvWrote n e) := by
  apply keeps_of_same
  · intro s; unfold pvWrote; split
    · exact same_setThrown s
    · dsimp only; split <;> exact ⟨rfl, rfl, rfl, rfl, rfl, rfl, rfl, rfl, rfl, rfl, rfl, rfl, rfl, rfl, rfl, rfl, rfl, rfl⟩
  · intro s; unfold pvWrote; split
    · exact fun h => h
    · dsimp only; split <;> exact fun h => h
macro_rules | `(tactic| keeps_base) => `(tactic| exact keeps_pvWrote _ _)

theorem keeps_wroteChunk (c : Nat) : Keeps (wroteChunk c) := by
  unfold wroteChunk
  have k : Keeps (fun s => pvWrote c (s.endReached s.vWriting) s) :=
    ⟨fun s m => (keeps_pvWrote _ _).1 s m, fun w s m a => (keeps_pvWrote _ _).2 w s m a⟩
  with_reducible apply keeps_seq
  · with_reducible apply keeps_whenOp; exact k
  · keeps
macro_rules | `(tactic| keeps_base) => `(tactic| exact keeps_wroteChunk _)

theorem keeps_writeSomeBody (size : St → Nat) : Keeps (writeSomeBody size) := by
  unfold writeSomeBody
  with_reducible apply keeps_seq; with_reducible apply keeps_seq
  · keeps
  · keeps
  · have k : ∀ s : St, Keeps (whenOp (fun _ => min (s.put - s.vWriting.start) (size s) > 0)
        ((fun s' : St => { s' with vWriting := { s'.vWriting with start := s'.vWriting.start + min (s.put - s.vWriting.start) (size s) } }) ;; virginConsume) ;;
        wroteChunk (min (s.put - s.vWriting.start) (size s))) := by intro s; keeps
    exact ⟨fun s m => (k s).1 s m, fun w s m a => (k s).2 w s m a⟩
macro_rules | `(tactic| keeps_base) => `(tactic| exact keeps_writeSomeBody _)

theorem keeps_decideWritingAfterPreview : Keeps decideWritingAfterPreview := by
  unfold decideWritingAfterPreview; keeps
macro_rules | `(tactic| keeps_base) => `(tactic| exact keeps_decideWritingAfterPreview)

theorem keeps_writePreviewBody : Keeps writePreviewBody := by
  unfold writePreviewBody; keeps
macro_rules | `(tactic| keeps_base) => `(tactic| exact keeps_writePreviewBody)

theorem keeps_writePrimeBody : Keeps writePrimeBody := by
  unfold writePrimeBody; keeps
macro_rules | `(tactic| keeps_base) => `(tactic| exact keeps_writePrimeBody)

theorem keeps_writeMore : Keeps writeMore := by
  unfold writeMore; keeps
macro_rules | `(tactic| keeps_base) => `(tactic| exact keeps_writeMore)

/-! ### frames: operations that leave the control fields (parsing, sending, head, outSt, uob) alone -/

def Fr (f : Op) : Prop := ∀ s, SameAux s (f s)

theorem SameAux.rfl' (s : St) : SameAux s s := ⟨rfl, rfl, rfl, rfl, rfl⟩
theorem SameAux.trans {s t u : St} (a : SameAux s t) (b : SameAux t u) : SameAux s u :=
  ⟨b.parsing.trans a.parsing, b.head.trans a.head, b.outSt.trans a.outSt, b.sending.trans a.sending, b.uob.trans a.uob⟩

theorem fr_seq {f g : Op} (hf : Fr f) (hg : Fr g) : Fr (f ;; g) := by
  intro s; show SameAux s (seq f g s); unfold seq; dsimp only; split
  · exact hf s
  · exact (hf s).trans (hg _)
theorem fr_cond {c : St → Bool} {t e : Op} (ht : Fr t) (he : Fr e) : Fr (cond c t e) := by
  intro s; unfold Icap.cond; split
  · exact ht s
  · exact he s
theorem fr_skip : Fr skip := fun s => SameAux.rfl' s
theorem fr_whenOp {c : St → Bool} {t : Op} (ht : Fr t) : Fr (whenOp c t) := fr_cond ht fr_skip
theorem fr_throwNow : Fr throwNow := fun _ => ⟨rfl, rfl, rfl, rfl, rfl⟩
theorem fr_must (c : St → Bool) : Fr (must c) := fr_cond fr_skip fr_throwNow
theorem fr_checkConsuming : Fr checkConsuming := by
  intro s; unfold checkConsuming; split
  · exact SameAux.rfl' s
  · exact ⟨rfl, rfl, rfl, rfl, rfl⟩
theorem fr_virginConsume : Fr virginConsume := by
  intro s; unfold virginConsume
  split; · exact SameAux.rfl' s
  split; · exact SameAux.rfl' s
  split; · exact SameAux.rfl' s
  split
  · dsimp only; split
    · exact ⟨rfl, rfl, rfl, rfl, rfl⟩
    · exact SameAux.rfl' s
  · exact ⟨rfl, rfl, rfl, rfl, rfl⟩
theorem fr_pvWrote (n : Nat) (e : Bool) : Fr (pvWrote n e) := by
  intro s; unfold pvWrote; split
  · exact ⟨rfl, rfl, rfl, rfl, rfl⟩
  · dsimp only; split <;> exact ⟨rfl, rfl, rfl, rfl, rfl⟩

syntax "fr_base" : tactic
macro_rules | `(tactic| fr_base) => `(tactic| exact (fun _ => ⟨rfl, rfl, rfl, rfl, rfl⟩))
macro_rules | `(tactic| fr_base) => `(tactic| with_reducible apply fr_seq)
macro_rules | `(tactic| fr_base) => `(tactic| with_reducible apply fr_cond)
macro_rules | `(tactic| fr_base) => `(tactic| with_reducible apply fr_whenOp)
macro_rules | `(tactic| fr_base) => `(tactic| with_reducible exact fr_skip)
macro_rules | `(tactic| fr_base) => `(tactic| with_reducible exact fr_must _)
macro_rules | `(tactic| fr_base) => `(tactic| with_reducible exact fr_throwNow)
macro_rules | `(tactic| fr_base) => `(tactic| exact fr_checkConsuming)
macro_rules | `(tactic| fr_base) => `(tactic| exact fr_virginConsume)
macro_rules | `(tactic| fr_base) => `(tactic| exact fr_pvWrote _ _)
macro "frames" : tactic => `(tactic| repeat' fr_base)

theorem fr_noBypassNoRepeat : Fr noBypassNoRepeat := fun _ => ⟨rfl, rfl, rfl, rfl, rfl⟩
macro_rules | `(tactic| fr_base) => `(tactic| exact fr_noBypassNoRepeat)
theorem fr_stopWriting (n : Bool) : Fr (stopWriting n) := by unfold stopWriting; frames
macro_rules | `(tactic| fr_base) => `(tactic| exact fr_stopWriting _)
theorem fr_stopBackup : Fr stopBackup := by unfold stopBackup; frames
macro_rules | `(tactic| fr_base) => `(tactic| exact fr_stopBackup)
theorem fr_wroteChunk (c : Nat) : Fr (wroteChunk c) := by
  unfold wroteChunk
  have k : Fr (fun s => pvWrote c (s.endReached s.vWriting) s) := fun s => fr_pvWrote _ _ s
  with_reducible apply fr_seq
  · with_reducible apply fr_whenOp; exact k
  · frames
macro_rules | `(tactic| fr_base) => `(tactic| exact fr_wroteChunk _)
theorem fr_writeSomeBody (size : St → Nat) : Fr (writeSomeBody size) := by
  unfold writeSomeBody
  with_reducible apply fr_seq; with_reducible apply fr_seq
  · frames
  · frames
  · intro s
    dsimp only
    have k : Fr (whenOp (fun _ => min (s.put - s.vWriting.start) (size s) > 0)
        ((fun s' : St => { s' with vWriting := { s'.vWriting with start := s'.vWriting.start + min (s.put - s.vWriting.start) (size s) } }) ;; virginConsume) ;;
        wroteChunk (min (s.put - s.vWriting.start) (size s))) := by frames
    exact k s
macro_rules | `(tactic| fr_base) => `(tactic| exact fr_writeSomeBody _)
theorem fr_decideWritingAfterPreview : Fr decideWritingAfterPreview := by unfold decideWritingAfterPreview; frames
macro_rules | `(tactic| fr_base) => `(tactic| exact fr_decideWritingAfterPreview)
theorem fr_writePreviewBody : Fr writePreviewBody := by unfold writePreviewBody; frames
macro_rules | `(tactic| fr_base) => `(tactic| exact fr_writePreviewBody)
theorem fr_writePrimeBody : Fr writePrimeBody := by unfold writePrimeBody; frames
macro_rules | `(tactic| fr_base) => `(tactic| exact fr_writePrimeBody)
theorem fr_writeMore : Fr writeMore := by unfold writeMore; frames
macro_rules | `(tactic| fr_base) => `(tactic| exact fr_writeMore)

/-- a fact about the control fields -/
abbrev Ctl := Parsing → Sending → Head → OutSt → Option Nat → Prop
def St.ctl (s : St) (P : Ctl) : Prop := P s.parsing s.sending s.head s.outSt s.uob

theorem SameAux.ctl {s t : St} (h : SameAux s t) (P : Ctl) (p : s.ctl P) : t.ctl P := by
  unfold St.ctl at *; rw [h.parsing, h.sending, h.head, h.outSt, h.uob]; exact p

/-- a `Keeps` operation that is a frame for the control fields carries any fact about them -/
theorem Tri.ctl {f : Op} (hk : Keeps f) (hf : Fr f) (P : Ctl) : Tri w (fun s => s.ctl P) f (fun s => s.ctl P) :=
  Tri.frame hk (fun s p => (hf s).ctl P p)

end SquidModel.Icap
