/-
Invariants of the ICAP MOD transaction model, proved for every operation of ModXact.lean.

`Main` holds at every program point (also right after a `Must` failed); `Aux` holds between handlers and on the
non-throwing paths inside a handler (a throw is followed by the end of the job or by `bypassFailure`, which re-establishes it).
-/
import SquidModel.Icap.ModXact

namespace SquidModel.Icap
open SquidModel

/-- what must be true of the virgin side when the adapted pipe is ended *nicely* -/
structure EndOk (s : St) : Prop where
  clone : s.head = .virginClone → s.vSending.start = s.v.length
  plain : s.head = .adapted → s.uob = none → s.pending = [] ∧ s.lastSeen.isSome = true
  part : s.head = .adapted → s.uob.isSome = true → s.vSending.start = s.v.length

structure Main (s : St) : Prop where
  put_le : s.put ≤ s.v.length
  cons_le : s.consumed ≤ s.put
  buf_eq : s.buf = (s.v.drop s.consumed).take (s.put - s.consumed)
  prod_end : s.prodEnded = true → s.put = s.v.length
  nopipe : s.outSt = .noPipe → s.out = [] ∧ s.uob = none ∧ s.pending = [] ∧ s.recv = []
  hnone : s.head = .none → s.outSt = .noPipe ∧ s.vSending.start = 0 ∧ s.answer ≠ .forward
  clone : s.head = .virginClone → s.out = s.v.take s.vSending.start ∧ s.vSending.start ≤ s.put ∧ s.uob = none
  plain : s.head = .adapted → s.uob = none → s.out ++ s.pending = s.recv ∧ s.vSending.start = 0
  partEcho : s.head = .adapted → ∀ pos, s.uob = some pos →
      s.pending = [] ∧ pos ≤ s.vSending.start ∧ s.vSending.start ≤ s.put ∧
      s.out = s.recv ++ (s.v.drop pos).take (s.vSending.start - pos) ∧ s.lastSeen = some (some pos)
  ended : s.outSt = .endedOk → EndOk s
  byp : s.canStartBypass = true → s.consumed = 0 ∧ s.answer ≠ .forward ∧ s.out = [] ∧ s.head ≠ .virginClone
  sendV : s.sending = .virgin → s.head = .virginClone ∨ (s.head = .adapted ∧ s.uob.isSome = true)
  taken_le : s.outTaken ≤ s.out.length
  pipeEnded : (s.outSt = .endedOk ∨ s.outSt = .aborted) → s.vSending.st = .disabled

/-- `w` = inside the window between prepPartialBodyEchoing() and the end of parseBody(), where use-original-body is already recorded -/
structure AuxG (w : Bool) (s : St) : Prop where
  body : s.parsing = .body → s.head = .adapted ∧ s.outSt ≠ .noPipe ∧ (w = false → s.uob = none)
  icapH : s.parsing = .icapHeader → s.head ≠ .virginClone ∧ s.outSt = .noPipe
  httpH : s.parsing = .httpHeader → s.sending = .adapted ∧ s.head ≠ .virginClone ∧ s.outSt = .noPipe

abbrev Aux := AuxG false

/-- the fields `Main`, `Aux` and `EndOk` read -/
structure SameCore (s t : St) : Prop where
  v : t.v = s.v
  put : t.put = s.put
  consumed : t.consumed = s.consumed
  buf : t.buf = s.buf
  prodEnded : t.prodEnded = s.prodEnded
  outSt : t.outSt = s.outSt
  out : t.out = s.out
  uob : t.uob = s.uob
  pending : t.pending = s.pending
  recv : t.recv = s.recv
  head : t.head = s.head
  start : t.vSending.start = s.vSending.start
  answer : t.answer = s.answer
  lastSeen : t.lastSeen = s.lastSeen
  sending : t.sending = s.sending
  parsing : t.parsing = s.parsing
  outTaken : t.outTaken = s.outTaken
  vst : t.vSending.st = s.vSending.st

theorem Main.of_same {s t : St} (h : SameCore s t) (hb : t.canStartBypass = true → s.canStartBypass = true) (m : Main s) : Main t := by
  obtain ⟨h1, h2, h3, h4, h5, h6, h7, h8, h9, h10, h11, h12, h13, h14, h15, h16, h17, h18⟩ := h
  constructor
  · rw [h1, h2]; exact m.put_le
  · rw [h2, h3]; exact m.cons_le
  · rw [h1, h2, h3, h4]; exact m.buf_eq
  · rw [h1, h2, h5]; exact m.prod_end
  · rw [h6, h7, h8, h9, h10]; exact m.nopipe
  · rw [h11, h6, h12, h13]; exact m.hnone
  · rw [h11, h7, h1, h12, h2, h8]; exact m.clone
  · rw [h11, h8, h7, h9, h10, h12]; exact m.plain
  · rw [h11, h8, h9, h12, h2, h7, h10, h1, h14]; exact m.partEcho
  · rw [h6]; intro he
    have e := m.ended he
    exact ⟨by rw [h11, h12, h1]; exact e.clone, by rw [h11, h8, h9, h14]; exact e.plain, by rw [h11, h8, h12, h1]; exact e.part⟩
  · intro hc; rw [h3, h13, h7, h11]; exact m.byp (hb hc)
  · rw [h15, h11, h8]; exact m.sendV
  · rw [h17, h7]; exact m.taken_le
  · rw [h6, h18]; exact m.pipeEnded

/-- the fields `Aux` reads -/
structure SameAux (s t : St) : Prop where
  parsing : t.parsing = s.parsing
  head : t.head = s.head
  outSt : t.outSt = s.outSt
  sending : t.sending = s.sending
  uob : t.uob = s.uob

theorem AuxG.of_sameAux {w : Bool} {s t : St} (h : SameAux s t) (a : AuxG w s) : AuxG w t := by
  obtain ⟨h16, h11, h6, h15, h8⟩ := h
  constructor
  · rw [h16, h11, h6, h8]; exact a.body
  · rw [h16, h11, h6]; exact a.icapH
  · rw [h16, h15, h11, h6]; exact a.httpH

theorem SameCore.aux {s t : St} (h : SameCore s t) : SameAux s t := ⟨h.parsing, h.head, h.outSt, h.sending, h.uob⟩

theorem AuxG.of_same {w : Bool} {s t : St} (h : SameCore s t) (a : AuxG w s) : AuxG w t := a.of_sameAux h.aux

theorem SameCore.rfl' (s : St) : SameCore s s := ⟨rfl, rfl, rfl, rfl, rfl, rfl, rfl, rfl, rfl, rfl, rfl, rfl, rfl, rfl, rfl, rfl, rfl, rfl⟩

theorem SameCore.trans {s t u : St} (a : SameCore s t) (b : SameCore t u) : SameCore s u :=
  ⟨b.v.trans a.v, b.put.trans a.put, b.consumed.trans a.consumed, b.buf.trans a.buf, b.prodEnded.trans a.prodEnded, b.outSt.trans a.outSt,
   b.out.trans a.out, b.uob.trans a.uob, b.pending.trans a.pending, b.recv.trans a.recv, b.head.trans a.head, b.start.trans a.start,
   b.answer.trans a.answer, b.lastSeen.trans a.lastSeen, b.sending.trans a.sending, b.parsing.trans a.parsing, b.outTaken.trans a.outTaken, b.vst.trans a.vst⟩

/-- `f` keeps `Main` at every exit (whatever else holds) and `Aux` at its non-throwing exits -/
def Keeps (f : Op) : Prop := (∀ s, Main s → Main (f s)) ∧ (∀ w s, Main s → AuxG w s → (f s).thrown = false → AuxG w (f s))

theorem keeps_seq {f g : Op} (hf : Keeps f) (hg : Keeps g) : Keeps (f ;; g) := by
  constructor
  · intro s m
    show Main (seq f g s)
    unfold seq; dsimp only; split
    · exact hf.1 s m
    · exact hg.1 _ (hf.1 s m)
  · intro w s m a
    show (seq f g s).thrown = false → AuxG w (seq f g s)
    unfold seq; dsimp only
    by_cases ht : (f s).thrown = true
    · simp only [ht, if_true]; intro h; cases h
    · have ht' : (f s).thrown = false := by simpa using ht
      simp only [ht', Bool.false_eq_true, if_false]
      exact hg.2 w _ (hf.1 s m) (hf.2 w s m a ht')

theorem keeps_cond {c : St → Bool} {t e : Op} (ht : Keeps t) (he : Keeps e) : Keeps (cond c t e) := by
  constructor
  · intro s m; unfold Icap.cond; split
    · exact ht.1 s m
    · exact he.1 s m
  · intro w s m a; unfold Icap.cond; split
    · exact ht.2 w s m a
    · exact he.2 w s m a

theorem keeps_skip : Keeps skip := ⟨fun _ m => m, fun _ _ _ a _ => a⟩

theorem keeps_whenOp {c : St → Bool} {t : Op} (ht : Keeps t) : Keeps (whenOp c t) := keeps_cond ht keeps_skip

/-- an operation that leaves the fields read by the invariants alone -/
theorem keeps_of_same {f : Op} (h : ∀ s, SameCore s (f s)) (hb : ∀ s, (f s).canStartBypass = true → s.canStartBypass = true) : Keeps f :=
  ⟨fun s m => m.of_same (h s) (hb s), fun _ s _ a _ => a.of_same (h s)⟩

theorem same_setThrown (s : St) : SameCore s { s with thrown := true } := ⟨rfl, rfl, rfl, rfl, rfl, rfl, rfl, rfl, rfl, rfl, rfl, rfl, rfl, rfl, rfl, rfl, rfl, rfl⟩

theorem keeps_throwNow : Keeps throwNow := keeps_of_same same_setThrown (fun _ h => h)

theorem keeps_must (c : St → Bool) : Keeps (must c) := keeps_cond keeps_skip keeps_throwNow

theorem keeps_checkConsuming : Keeps checkConsuming := by
  apply keeps_of_same
  · intro s; unfold checkConsuming; split
    · exact SameCore.rfl' s
    · exact ⟨rfl, rfl, rfl, rfl, rfl, rfl, rfl, rfl, rfl, rfl, rfl, rfl, rfl, rfl, rfl, rfl, rfl, rfl⟩
  · intro s; unfold checkConsuming; split <;> exact fun h => h

end SquidModel.Icap
