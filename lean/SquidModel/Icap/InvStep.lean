/-
Every event keeps the invariants: swanSong, bypassFailure/callException, finish, the handlers, `step`, `run`, `init`.
-/
import SquidModel.Icap.InvParse

namespace SquidModel.Icap
open SquidModel

/-- the invariant between events -/
structure Inv (s : St) : Prop where
  main : Main s
  calm : s.thrown = false
  aux : s.stopped = false → Aux s

theorem main_setFlags (s : St) (m : Main s) (t c st : Bool) : Main { s with thrown := t, crashed := c, stopped := st } :=
  ⟨m.put_le, m.cons_le, m.buf_eq, m.prod_end, m.nopipe, m.hnone, m.clone, m.plain, m.partEcho,
   fun he => ⟨(m.ended he).clone, (m.ended he).plain, (m.ended he).part⟩, m.byp, m.sendV, m.taken_le, m.pipeEnded⟩

theorem main_tellAborted (s : St) (m : Main s) : Main (tellAbortedAndStop s) := by
  unfold tellAbortedAndStop
  have m3 : Main { s with answer := if s.answer == .none then .aborted else s.answer } := by
    apply Main.setAnswer m
    · intro hh; split
      · intro h; cases h
      · exact (m.hnone hh).2.2
    · intro hx
      split at hx
      · cases hx
      · by_cases hb : s.canStartBypass = true
        · exact absurd hx (m.byp hb).2.1
        · simpa using hb
  exact Main.of_same (s := { s with answer := if s.answer == .none then .aborted else s.answer })
    ⟨rfl, rfl, rfl, rfl, rfl, rfl, rfl, rfl, rfl, rfl, rfl, rfl, rfl, rfl, rfl, rfl, rfl, rfl⟩ (fun h => h) m3

theorem swanSong_spec (s : St) (m : Main s) : Main (swanSong s) ∧ (swanSong s).thrown = false ∧ (swanSong s).stopped = true := by
  unfold swanSong
  have m0 : Main { s with thrown := false } := main_setFlags s m false s.crashed s.stopped
  have m1 := (keeps_stopWriting false).1 _ m0
  dsimp only
  generalize stopWriting false { s with thrown := false } = s1 at m1 ⊢
  split
  · exact ⟨main_setFlags _ m1 false true true, rfl, rfl⟩
  · have m2 := main_stopSending_false _ m1
    generalize stopSending false s1 = s2 at m2 ⊢
    split
    · exact ⟨main_setFlags _ m2 false true true, rfl, rfl⟩
    · rename_i h2
      refine ⟨main_tellAborted _ m2, ?_, rfl⟩
      show s2.thrown = false
      simpa using h2

/-- like `Tri false`, but without needing `Aux` at the start (an exception may have left it broken) -/
def TriM (P : St → Prop) (f : Op) (Q : St → Prop) : Prop :=
  ∀ s, Main s → P s → Main (f s) ∧ ((f s).thrown = false → AuxG false (f s) ∧ Q (f s))

theorem triM_seq {P Q R : St → Prop} {f g : Op} (h1 : TriM P f Q) (h2 : Tri false Q g R) : TriM P (f ;; g) R := by
  intro s m p
  have k := h1 s m p
  show Main (seq f g s) ∧ _
  unfold seq
  by_cases ht : (f s).thrown = true
  · simp only [ht, if_true]; exact ⟨k.1, fun h => by cases h⟩
  · have ht' : (f s).thrown = false := by simpa using ht
    simp only [ht', Bool.false_eq_true, if_false]
    exact h2 _ k.1 (k.2 ht').1 (k.2 ht').2

theorem main_stopParsing (c : Bool) (s : St) (m : Main s) : Main (stopParsing c s) := by
  unfold stopParsing Icap.cond
  split
  · exact m
  · apply main_seq
    · exact (keeps_must _).1 s m
    · exact fun h => Main.setParsing h .done

theorem seq_thrown_false {f g : Op} {s : St} (h : ((f ;; g) s).thrown = false) : (f s).thrown = false ∧ (f ;; g) s = g (f s) := by
  change (seq f g s).thrown = false at h
  show _ ∧ seq f g s = _
  unfold seq at h ⊢
  dsimp only at h ⊢
  by_cases ht : (f s).thrown = true
  · rw [if_pos ht] at h; rw [ht] at h; cases h
  · rw [if_neg ht]; exact ⟨by simpa using ht, rfl⟩

theorem stopParsing_done (c : Bool) (s : St) (h : (stopParsing c s).thrown = false) : (stopParsing c s).parsing = .done := by
  by_cases hd : s.parsing = .done
  · have e : stopParsing c s = s := by unfold stopParsing Icap.cond; simp [hd, skip]
    rw [e]; exact hd
  · have e : stopParsing c s = (must (fun s => !(c && !s.pending.isEmpty)) ;; (fun s => { s with parsing := .done })) s := by
      unfold stopParsing Icap.cond; simp [hd]
    rw [e] at h ⊢
    rw [(seq_thrown_false h).2]

/-- the first part of bypassFailure(): no more bypass, not retriable, parsing stopped -/
theorem triM_bypassPrefix :
    TriM (fun _ => True)
      (((fun s : St => { s with canStartBypass := false, bypassed := true }) ;; must (fun s => !s.isRetriable)) ;; stopParsing false)
      (fun s => s.parsing = .done) := by
  intro s m _
  have k0 : Keeps (fun s : St => { s with canStartBypass := false, bypassed := true }) :=
    keeps_of_same (fun _ => ⟨rfl, rfl, rfl, rfl, rfl, rfl, rfl, rfl, rfl, rfl, rfl, rfl, rfl, rfl, rfl, rfl, rfl, rfl⟩) (fun _ h => by cases h)
  have m1 : Main (((fun s : St => { s with canStartBypass := false, bypassed := true }) ;; must (fun s => !s.isRetriable)) s) :=
    (keeps_seq k0 (keeps_must _)).1 s m
  refine ⟨main_seq s m1 (fun h => main_stopParsing false _ h), fun ht => ?_⟩
  have k := seq_thrown_false ht
  rw [k.2] at ht ⊢
  have hd := stopParsing_done false _ ht
  exact ⟨aux_of_done hd, hd⟩

/-- bypassFailure() that runs to its end leaves the virgin head clone installed and the sender echoing (or done) -/
theorem triM_bypassFailure : TriM (fun _ => True) bypassFailure
    (fun s => s.ctl (fun p sd h _ _ => (sd = .virgin ∨ sd = .done) ∧ p = .done ∧ h = .virginClone)) := by
  unfold bypassFailure
  apply triM_seq (Q := fun s => s.ctl (fun p sd h _ _ => (sd = .virgin ∨ sd = .done) ∧ p = .done ∧ h = .virginClone))
  · apply triM_seq (Q := fun s => s.ctl (fun p sd h _ _ => (sd = .virgin ∨ sd = .done) ∧ p = .done ∧ h = .virginClone))
    · apply triM_seq (Q := fun s => s.ctl (fun p sd h _ _ => (sd = .virgin ∨ sd = .done) ∧ p = .done ∧ h = .virginClone))
      · apply triM_seq (Q := fun s => s.parsing = .done)
        · apply triM_seq (Q := fun s => s.parsing = .done)
          · exact triM_bypassPrefix
          · apply Tri.when'
            apply Tri.atomic
            intro s m _ ⟨hp, hc⟩
            simp only [Bool.and_eq_true, beq_iff_eq] at hc
            exact ⟨m.dropHead hc.1.1.1.2 hc.1.2 hc.1.1.2, aux_of_done hp, hp⟩
        · exact tri_prepEchoing.weaken (fun _ h => h) (fun _ h => ⟨h.2.2, h.1, h.2.1⟩)
      · exact tri_startSending (fun p h _ => p = .done ∧ h = .virginClone) (fun sd => sd = .virgin ∨ sd = .done) (fun _ => Or.inr rfl)
    · exact Tri.ctl (keeps_stopWriting true) (fr_stopWriting true) _
  · refine Tri.ctl ?_ ?_ (fun p sd h _ _ => (sd = .virgin ∨ sd = .done) ∧ p = .done ∧ h = .virginClone)
    · same_upd
    · exact fun _ => ⟨rfl, rfl, rfl, rfl, rfl⟩

theorem callException_spec (s : St) (m : Main s) :
    Main (callException s) ∧ (callException s).thrown = false ∧ ((callException s).stopped = false → Aux (callException s)) := by
  unfold callException
  have m0 : Main { s with thrown := false } := main_setFlags s m false s.crashed s.stopped
  dsimp only
  split
  · have k := swanSong_spec _ m0
    exact ⟨k.1, k.2.1, fun h => by rw [k.2.2] at h; cases h⟩
  · have b := triM_bypassFailure _ m0 trivial
    split
    · have k := swanSong_spec _ b.1
      exact ⟨k.1, k.2.1, fun h => by rw [k.2.2] at h; cases h⟩
    · rename_i ht
      have ht' : (bypassFailure { s with thrown := false }).thrown = false := by simpa using ht
      exact ⟨b.1, ht', fun _ => (b.2 ht').1⟩

/-- what a handler hands over to `finish` -/
structure Handled (s : St) : Prop where
  main : Main s
  aux : s.thrown = false → s.stopped = false → Aux s

theorem finish_spec (s : St) (h : Handled s) : Inv (finish s) := by
  unfold finish
  split
  · exact ⟨main_setFlags s h.main false s.crashed true, rfl, fun h' => by cases h'⟩
  · dsimp only
    have key : ∀ s1 : St, Main s1 → s1.thrown = false → (s1.stopped = false → Aux s1) →
        Inv (if s1.stopped = true then s1 else if s1.doneAll = true then swanSong s1 else s1) := by
      intro s1 m1 c1 a1
      split
      · rename_i hs; exact ⟨m1, c1, fun h' => by rw [hs] at h'; cases h'⟩
      · split
        · have k := swanSong_spec _ m1
          exact ⟨k.1, k.2.1, fun h' => by rw [k.2.2] at h'; cases h'⟩
        · exact ⟨m1, c1, a1⟩
    by_cases ht : s.thrown = true
    · simp only [ht, if_true]
      have k := callException_spec s h.main
      exact key _ k.1 k.2.1 k.2.2
    · have ht' : s.thrown = false := by simpa using ht
      simp only [ht', Bool.false_eq_true, if_false]
      exact key _ h.main ht' (h.aux ht')

theorem Handled.of_tri {P Q : St → Prop} {f : Op} (h : Tri false P f Q) (s : St) (i : Inv s) (hs : s.stopped = false) (p : P s) : Handled (f s) :=
  ⟨(h s i.main (i.aux hs) p).1, fun t _ => ((h s i.main (i.aux hs) p).2 t).1⟩

/-! ### the handlers -/

abbrev TK (f : Op) : Prop := Tri false (fun _ => True) f (fun _ => True)

theorem tk_of_keeps {f : Op} (h : Keeps f) : TK f := Tri.frame h (fun _ h => h)
theorem tk_seq {f g : Op} (h1 : TK f) (h2 : TK g) : TK (f ;; g) := Tri.seq' h1 h2
theorem tk_cond {c : St → Bool} {t e : Op} (ht : TK t) (he : TK e) : TK (cond c t e) :=
  Tri.cond' (ht.weaken (fun _ _ => trivial) (fun _ h => h)) (he.weaken (fun _ _ => trivial) (fun _ h => h))
theorem tk_whenOp {c : St → Bool} {t : Op} (ht : TK t) : TK (whenOp c t) := tk_cond ht (tk_of_keeps keeps_skip)
theorem tk_throwNow : TK throwNow := Tri.throw'
theorem tk_echoMore : TK echoMore := (tri_echoMore (fun _ _ _ => True)).weaken (fun _ _ => trivial) (fun _ _ => trivial)
theorem tk_parseBody : TK parseBody := tri_parseBody
theorem tk_planSending : TK planSending := (tri_planSending (fun _ _ _ _ _ => True)).weaken (fun _ _ => trivial) (fun _ _ => trivial)
theorem tk_stopParsing (c : Bool) : TK (stopParsing c) := (tri_stopParsing c _).weaken (fun _ h => h) (fun _ _ => trivial)
theorem tk_parseMoreBody : TK parseMoreBody := by unfold parseMoreBody; exact tk_whenOp tk_parseBody

theorem keeps_readMore : Keeps readMore := by
  apply keeps_of_same
  · intro s; unfold readMore; split
    · exact SameCore.rfl' s
    · exact ⟨rfl, rfl, rfl, rfl, rfl, rfl, rfl, rfl, rfl, rfl, rfl, rfl, rfl, rfl, rfl, rfl, rfl, rfl⟩
  · intro s; unfold readMore; split <;> exact fun h => h

theorem keeps_noteCommWrote : Keeps noteCommWrote := by
  unfold noteCommWrote handleCommWroteHeaders; keeps

theorem tk_noteVirginNews : TK noteVirginNews := by
  unfold noteVirginNews
  exact tk_seq (tk_of_keeps keeps_writeMore) (tk_whenOp tk_echoMore)

theorem tk_startShoveling : TK startShoveling := by
  unfold startShoveling makeAllowHeader
  apply tk_seq
  · apply tk_seq
    · apply tk_seq
      · apply tk_of_keeps; keeps
      · apply tk_of_keeps; keeps
    · apply tk_seq
      · apply tk_of_keeps; same_upd
      · exact tk_whenOp tk_planSending
  · apply tk_of_keeps; same_upd

theorem produceSize_le (s : St) (m : Main s) (n : Nat) : s.put + s.produceSize n ≤ s.v.length := by
  unfold St.produceSize St.total
  have := m.put_le
  omega

theorem tk_produce (n : Nat) : TK (produce n) := by
  intro s m a _
  unfold produce
  have t : Tri false (fun t => t = s) (produceCore (s.produceSize n) ;; whenOp (fun t => t.consuming && s.produceSize n != 0) noteVirginNews) (fun _ => True) := by
    apply Tri.seq' (Q := fun _ => True)
    · apply Tri.atomic
      intro t mt at_ ht
      subst ht
      exact ⟨mt.produce _ (produceSize_le t mt n), AuxG.of_sameAux (s := t) ⟨rfl, rfl, rfl, rfl, rfl⟩ at_, trivial⟩
    · exact tk_whenOp tk_noteVirginNews
  exact t s m a rfl

theorem tk_prodEnd : TK prodEnd := by
  unfold prodEnd
  apply Tri.cond'
  · apply Tri.seq' (Q := fun _ => True)
    · apply Tri.atomic
      intro s m a ⟨_, hc⟩
      simp only [Bool.and_eq_true, beq_iff_eq] at hc
      exact ⟨m.prodEnd hc.1, AuxG.of_sameAux (s := s) ⟨rfl, rfl, rfl, rfl, rfl⟩ a, trivial⟩
    · exact tk_whenOp tk_noteVirginNews
  · exact (tk_of_keeps keeps_skip).weaken (fun _ _ => trivial) (fun _ h => h)

/-- Xaction::noteCommRead() around a parse step that needs to know which part is being parsed -/
theorem tri_noteRead (P : Ctl) {parse : Op} (h : Tri false (fun s => s.ctl P) parse (fun _ => True)) :
    Tri false (fun s => s.ctl P) (noteRead parse) (fun _ => True) := by
  unfold noteRead
  apply Tri.seq' (Q := fun _ => True)
  · apply Tri.seq' (Q := fun s => s.ctl P)
    · refine Tri.ctl ?_ ?_ P
      · same_upd
      · exact fun _ => ⟨rfl, rfl, rfl, rfl, rfl⟩
    · exact h
  · exact tk_of_keeps keeps_readMore

theorem tk_takeOut (n : Nat) : TK (takeOut n) := by
  apply Tri.atomic
  intro s m a _
  exact ⟨m.takeOut n, AuxG.of_sameAux (s := s) ⟨rfl, rfl, rfl, rfl, rfl⟩ a, trivial⟩

/-- handlers that do not end the job themselves -/
theorem tk_handler_plain (e : Ev) (he : match e with
      | .rdEof | .rdError | .consumerAbort | .closed | .initiatorAbort => False
      | _ => True) : TK (handler e) := by
  cases e with
  | connected => exact tk_whenOp tk_startShoveling
  | wrote => exact tk_whenOp (tk_of_keeps keeps_noteCommWrote)
  | produce n => exact tk_whenOp (tk_produce n)
  | prodEnd => exact tk_prodEnd
  | rdIcap st h b t =>
    apply Tri.cond'
    · refine (tri_noteRead (fun p _ _ _ _ => p = .icapHeader) ?_).weaken (fun s hh => ?_) (fun _ h => h)
      · exact Tri.seq' (tri_parseHeadersIcap st h b t) tk_parseMoreBody
      · have h2 := hh.2
        simp only [Bool.and_eq_true, beq_iff_eq] at h2
        exact h2.2
    · exact (tk_of_keeps keeps_skip).weaken (fun _ _ => trivial) (fun _ h => h)
  | rdHttpHead =>
    apply Tri.cond'
    · refine (tri_noteRead (fun p _ _ _ _ => p = .httpHeader) ?_).weaken (fun s hh => ?_) (fun _ h => h)
      · exact Tri.seq' tri_parseHttpHeadComplete tk_parseMoreBody
      · have h2 := hh.2
        simp only [Bool.and_eq_true, beq_iff_eq] at h2
        exact h2.1.2
    · exact (tk_of_keeps keeps_skip).weaken (fun _ _ => trivial) (fun _ h => h)
  | rdBody bs =>
    apply Tri.cond'
    · apply Tri.seq' (Q := fun _ => True)
      · apply Tri.atomic
        intro s m a ⟨_, hc⟩
        simp only [Bool.and_eq_true, beq_iff_eq, Option.isNone_iff_eq_none] at hc
        have b := a.body hc.1.2
        exact ⟨m.recvBody bs b.1 (b.2.2 rfl) b.2.1 hc.2, AuxG.of_sameAux (s := s) ⟨rfl, rfl, rfl, rfl, rfl⟩ a, trivial⟩
      · exact (tri_noteRead (fun _ _ _ _ _ => True) (tk_parseBody.weaken (fun _ _ => trivial) (fun _ h => h))).weaken (fun _ _ => trivial) (fun _ h => h)
    · exact (tk_of_keeps keeps_skip).weaken (fun _ _ => trivial) (fun _ h => h)
  | rdLast u =>
    apply Tri.cond'
    · apply Tri.seq' (Q := fun _ => True)
      · apply Tri.atomic
        intro s m a ⟨_, hc⟩
        simp only [Bool.and_eq_true, beq_iff_eq] at hc
        have b := a.body hc.1.2
        exact ⟨m.recvLast u (b.2.2 rfl), AuxG.of_sameAux (s := s) ⟨rfl, rfl, rfl, rfl, rfl⟩ a, trivial⟩
      · exact (tri_noteRead (fun _ _ _ _ _ => True) (tk_parseBody.weaken (fun _ _ => trivial) (fun _ h => h))).weaken (fun _ _ => trivial) (fun _ h => h)
    · exact (tk_of_keeps keeps_skip).weaken (fun _ _ => trivial) (fun _ h => h)
  | rdTrailer =>
    exact tk_whenOp ((tri_noteRead (fun _ _ _ _ _ => True) ((tk_stopParsing true).weaken (fun _ _ => trivial) (fun _ h => h))).weaken (fun _ _ => trivial) (fun _ h => h))
  | rdEof => exact absurd he id
  | rdError => exact absurd he id
  | rdBad => exact tk_whenOp (tk_seq (tk_of_keeps (by same_upd)) tk_throwNow)
  | space n =>
    apply tk_whenOp
    apply tk_seq (tk_takeOut n)
    exact tk_cond tk_echoMore (tk_cond tk_parseMoreBody (tk_of_keeps (keeps_must _)))
  | consumerAbort => exact absurd he id
  | timeout => exact tk_whenOp (tk_seq (tk_of_keeps (by same_upd)) tk_throwNow)
  | closed => exact absurd he id
  | initiatorAbort => exact absurd he id

/-- handlers that may end the job (mustStop) -/
def HK (f : Op) : Prop := ∀ s, Inv s → s.stopped = false → Handled (f s)

theorem hk_of_tk {f : Op} (h : TK f) : HK f := fun s i hs => Handled.of_tri h s i hs trivial

theorem hk_swanSong : HK swanSong := fun s i _ =>
  ⟨(swanSong_spec s i.main).1, fun _ h => by rw [(swanSong_spec s i.main).2.2] at h; cases h⟩

theorem hk_whenOp {c : St → Bool} {t : Op} (ht : HK t) : HK (whenOp c t) := by
  intro s i hs
  unfold whenOp Icap.cond
  split
  · exact ht s i hs
  · exact ⟨i.main, fun _ _ => i.aux hs⟩

theorem hk_cond {c : St → Bool} {t e : Op} (ht : HK t) (he : HK e) : HK (cond c t e) := by
  intro s i hs
  unfold Icap.cond
  split
  · exact ht s i hs
  · exact he s i hs

/-- a field update that the invariants do not see, followed by `g` -/
theorem hk_seq_upd {u g : Op} (hu : ∀ s, Inv s → s.stopped = false → Inv (u s) ∧ (u s).stopped = false) (hg : HK g) : HK (u ;; g) := by
  intro s i hs
  have k := hu s i hs
  show Handled (seq u g s)
  unfold seq
  dsimp only
  rw [k.1.calm]
  simp only [Bool.false_eq_true, if_false]
  exact hg _ k.1 k.2

theorem hu_same {u : Op} (h : ∀ s, SameCore s (u s)) (hb : ∀ s, (u s).canStartBypass = true → s.canStartBypass = true)
    (ht : ∀ s, (u s).thrown = s.thrown) (hst : ∀ s, (u s).stopped = s.stopped) :
    ∀ s, Inv s → s.stopped = false → Inv (u s) ∧ (u s).stopped = false :=
  fun s i hs => ⟨⟨i.main.of_same (h s) (hb s), by rw [ht s]; exact i.calm, fun _ => (i.aux hs).of_same (h s)⟩, by rw [hst s]; exact hs⟩

theorem hk_handler (e : Ev) : HK (handler e) := by
  cases e with
  | rdEof =>
    apply hk_whenOp
    refine hk_seq_upd ?_ ?_
    · exact hu_same (fun _ => ⟨rfl, rfl, rfl, rfl, rfl, rfl, rfl, rfl, rfl, rfl, rfl, rfl, rfl, rfl, rfl, rfl, rfl, rfl⟩) (fun _ h => h) (fun _ => rfl) (fun _ => rfl)
    · exact hk_cond hk_swanSong (hk_cond (hk_of_tk tk_parseBody) (hk_of_tk tk_throwNow))
  | rdError =>
    apply hk_whenOp
    refine hk_seq_upd ?_ ?_
    · exact hu_same (fun _ => ⟨rfl, rfl, rfl, rfl, rfl, rfl, rfl, rfl, rfl, rfl, rfl, rfl, rfl, rfl, rfl, rfl, rfl, rfl⟩) (fun _ h => h) (fun _ => rfl) (fun _ => rfl)
    · exact hk_cond (hk_of_tk tk_throwNow) hk_swanSong
  | consumerAbort => exact hk_whenOp hk_swanSong
  | closed =>
    apply hk_whenOp
    refine hk_seq_upd ?_ ?_
    · exact hu_same (fun _ => ⟨rfl, rfl, rfl, rfl, rfl, rfl, rfl, rfl, rfl, rfl, rfl, rfl, rfl, rfl, rfl, rfl, rfl, rfl⟩) (fun _ h => h) (fun _ => rfl) (fun _ => rfl)
    · exact hk_swanSong
  | initiatorAbort =>
    apply hk_whenOp
    refine hk_seq_upd ?_ hk_swanSong
    intro s i hs
    refine ⟨⟨?_, i.calm, fun _ => AuxG.of_sameAux (s := s) ⟨rfl, rfl, rfl, rfl, rfl⟩ (i.aux hs)⟩, hs⟩
    apply i.main.setAnswer
    · intro _ h; cases h
    · intro h; cases h
  | connected => exact hk_of_tk (tk_handler_plain _ trivial)
  | wrote => exact hk_of_tk (tk_handler_plain _ trivial)
  | produce n => exact hk_of_tk (tk_handler_plain _ trivial)
  | prodEnd => exact hk_of_tk (tk_handler_plain _ trivial)
  | rdIcap st h b t => exact hk_of_tk (tk_handler_plain _ trivial)
  | rdHttpHead => exact hk_of_tk (tk_handler_plain _ trivial)
  | rdBody bs => exact hk_of_tk (tk_handler_plain _ trivial)
  | rdLast u => exact hk_of_tk (tk_handler_plain _ trivial)
  | rdTrailer => exact hk_of_tk (tk_handler_plain _ trivial)
  | rdBad => exact hk_of_tk (tk_handler_plain _ trivial)
  | space n => exact hk_of_tk (tk_handler_plain _ trivial)
  | timeout => exact hk_of_tk (tk_handler_plain _ trivial)

theorem inv_step (s : St) (e : Ev) (i : Inv s) : Inv (step s e) := by
  unfold step
  split
  · exact i
  · rename_i hs
    exact finish_spec _ (hk_handler e s i (by simpa using hs))

theorem inv_run (s : St) (es : List Ev) (i : Inv s) : Inv (run s es) := by
  induction es generalizing s with
  | nil => exact i
  | cons e es ih => exact ih _ (inv_step s e i)

/-- nothing has happened yet -/
structure Fresh (s : St) : Prop where
  h1 : s.put = 0
  h2 : s.consumed = 0
  h3 : s.buf = []
  h4 : s.prodEnded = false
  h5 : s.outSt = .noPipe
  h6 : s.out = []
  h7 : s.uob = none
  h8 : s.pending = []
  h9 : s.recv = []
  h10 : s.head = .none
  h11 : s.vSending.start = 0
  h12 : s.answer = .none
  h13 : s.sending = .undecided
  h14 : s.parsing = .icapHeader
  h15 : s.outTaken = 0
  h16 : s.thrown = false

theorem Fresh.of_same {s t : St} (f : Fresh s) (h : SameCore s t) (ht : t.thrown = s.thrown) : Fresh t :=
  ⟨h.put.trans f.h1, h.consumed.trans f.h2, h.buf.trans f.h3, h.prodEnded.trans f.h4, h.outSt.trans f.h5, h.out.trans f.h6,
   h.uob.trans f.h7, h.pending.trans f.h8, h.recv.trans f.h9, h.head.trans f.h10, h.start.trans f.h11, h.answer.trans f.h12,
   h.sending.trans f.h13, h.parsing.trans f.h14, h.outTaken.trans f.h15, ht.trans f.h16⟩

theorem inv_fresh (s : St) (f : Fresh s) : Inv s := by
  obtain ⟨h1, h2, h3, h4, h5, h6, h7, h8, h9, h10, h11, h12, h13, h14, h15, h16⟩ := f
  have hans : s.answer ≠ .forward := by rw [h12]; intro h; cases h
  have hhead : s.head ≠ .virginClone := by rw [h10]; intro h; cases h
  refine ⟨?_, h16, fun _ => ?_⟩
  · constructor
    · rw [h1]; exact Nat.zero_le _
    · rw [h1, h2]; exact Nat.le_refl _
    · rw [h3, h1, h2]; simp
    · intro h; rw [h4] at h; cases h
    · intro _; exact ⟨h6, h7, h8, h9⟩
    · intro _; exact ⟨h5, h11, hans⟩
    · intro h; rw [h10] at h; cases h
    · intro h; rw [h10] at h; cases h
    · intro h; rw [h10] at h; cases h
    · intro h; rw [h5] at h; cases h
    · intro _; exact ⟨h2, hans, h6, hhead⟩
    · intro h; rw [h13] at h; cases h
    · rw [h15]; exact Nat.zero_le _
    · intro h; rw [h5] at h; rcases h with h | h <;> cases h
  · constructor
    · intro h; rw [h14] at h; cases h
    · intro _; exact ⟨hhead, h5⟩
    · intro h; rw [h14] at h; cases h

theorem fresh_init (cfg : Cfg) (v : Bytes) : Fresh (init cfg v) := by
  have f0 : Fresh ({ cfg := cfg, v := v } : St) := ⟨rfl, rfl, rfl, rfl, rfl, rfl, rfl, rfl, rfl, rfl, rfl, rfl, rfl, rfl, rfl, rfl⟩
  have s1 : ∀ s, SameCore s (initBody s) ∧ (initBody s).thrown = s.thrown := by
    intro s; unfold initBody; split
    · exact ⟨⟨rfl, rfl, rfl, rfl, rfl, rfl, rfl, rfl, rfl, rfl, rfl, rfl, rfl, rfl, rfl, rfl, rfl, rfl⟩, rfl⟩
    · exact ⟨SameCore.rfl' s, rfl⟩
  have s2 : ∀ s, SameCore s (initFlags s) ∧ (initFlags s).thrown = s.thrown :=
    fun s => ⟨⟨rfl, rfl, rfl, rfl, rfl, rfl, rfl, rfl, rfl, rfl, rfl, rfl, rfl, rfl, rfl, rfl, rfl, rfl⟩, rfl⟩
  have s3 : ∀ s, SameCore s (initPreview s) ∧ (initPreview s).thrown = s.thrown := by
    intro s; unfold initPreview; split
    · exact ⟨⟨rfl, rfl, rfl, rfl, rfl, rfl, rfl, rfl, rfl, rfl, rfl, rfl, rfl, rfl, rfl, rfl, rfl, rfl⟩, rfl⟩
    · exact ⟨SameCore.rfl' s, rfl⟩
  have s4 : ∀ s, SameCore s (initRetries s) ∧ (initRetries s).thrown = s.thrown := by
    intro s; unfold initRetries; dsimp only; split
    · exact ⟨SameCore.rfl' s, rfl⟩
    · exact ⟨⟨rfl, rfl, rfl, rfl, rfl, rfl, rfl, rfl, rfl, rfl, rfl, rfl, rfl, rfl, rfl, rfl, rfl, rfl⟩, rfl⟩
  unfold init
  exact (((f0.of_same (s1 _).1 (s1 _).2).of_same (s2 _).1 (s2 _).2).of_same (s3 _).1 (s3 _).2).of_same (s4 _).1 (s4 _).2

theorem inv_init (cfg : Cfg) (v : Bytes) : Inv (init cfg v) := inv_fresh _ (fresh_init cfg v)

/-- every state the transaction can reach satisfies the invariants -/
theorem inv_reachable (cfg : Cfg) (v : Bytes) (es : List Ev) : Inv (run (init cfg v) es) := inv_run _ es (inv_init cfg v)

end SquidModel.Icap
