/-
step_sim: one step of the heap model simulates one step on independent values; run_sim: histories.
-/
import SquidModel.SBuf.SimLoops
set_option linter.unusedSimpArgs false
set_option linter.unusedVariables false

namespace SquidModel.SBuf
open Heap

variable {c : Cfg} {h : Heap}

theorem step_sim (hc : AllocOk c) (hI : Inv h) (op : Op) (hwf : op.wf h.views.length = true) (hs : Safe (abs h) op) :
    StepOk c h op := by
  cases op with
  | fresh i => simp only [Op.wf, decide_eq_true_eq] at hwf; exact stepOk_fresh hI i hwf
  | assign i j => simp only [Op.wf, Bool.and_eq_true, decide_eq_true_eq] at hwf; exact stepOk_assign hI i j hwf.1 hwf.2
  | assignBytes i b => simp only [Op.wf, decide_eq_true_eq] at hwf; exact stepOk_assignBytes hc hI i b hwf hs
  | assignRaw i j p n => simp only [Op.wf, Bool.and_eq_true, decide_eq_true_eq] at hwf; exact stepOk_assignRaw hc hI i j p n hwf.1 hwf.2
  | appendBytes i b => simp only [Op.wf, decide_eq_true_eq] at hwf; exact stepOk_appendBytes hc hI i b hwf hs
  | appendS i j => simp only [Op.wf, Bool.and_eq_true, decide_eq_true_eq] at hwf; exact stepOk_appendS hc hI i j hwf.1 hwf.2
  | appendRaw i j p n => simp only [Op.wf, Bool.and_eq_true, decide_eq_true_eq] at hwf; exact stepOk_appendRaw hc hI i j p n hwf.1 hwf.2
  | pushBack i ch => simp only [Op.wf, decide_eq_true_eq] at hwf; exact stepOk_pushBack hc hI i ch hwf
  | clear i => simp only [Op.wf, decide_eq_true_eq] at hwf; exact stepOk_clear hI i hwf
  | chop i pos n => simp only [Op.wf, decide_eq_true_eq] at hwf; exact stepOk_chop hI i pos n hwf hs
  | substr i j pos n => simp only [Op.wf, Bool.and_eq_true, decide_eq_true_eq] at hwf; exact stepOk_substr hI i j pos n hwf.1 hwf.2 hs
  | consume i j n => simp only [Op.wf, Bool.and_eq_true, decide_eq_true_eq] at hwf; exact stepOk_consume hI i j n hwf.1 hwf.2
  | trim i j ab ae => simp only [Op.wf, Bool.and_eq_true, decide_eq_true_eq] at hwf; exact stepOk_trim hc hI i j ab ae hwf.1 hwf.2 hs
  | setAt i pos ch => simp only [Op.wf, decide_eq_true_eq] at hwf; exact stepOk_setAt hc hI i pos ch hwf
  | toLower i => simp only [Op.wf, decide_eq_true_eq] at hwf; exact stepOk_toLower hc hI i hwf hs
  | toUpper i => simp only [Op.wf, decide_eq_true_eq] at hwf; exact stepOk_toUpper hc hI i hwf hs
  | cStr i => simp only [Op.wf, decide_eq_true_eq] at hwf; exact stepOk_cStr hc hI i hwf
  | reserveSpace i n => simp only [Op.wf, decide_eq_true_eq] at hwf; exact stepOk_reserveSpace hc hI i n hwf
  | reserveCapacity i n => simp only [Op.wf, decide_eq_true_eq] at hwf; exact stepOk_reserveCapacity hc hI i n hwf
  | reserve i a b d sh => simp only [Op.wf, decide_eq_true_eq] at hwf; exact stepOk_reserve hc hI i a b d sh hwf
  | rawAppend i n b => simp only [Op.wf, decide_eq_true_eq] at hwf; exact stepOk_rawAppend hc hI i n b hwf hs
  | appendf i f o => exact absurd hs (by simp [Safe])
  | printf i f o => exact absurd hs (by simp [Safe])
  | appendfS i j => exact absurd hs (by simp [Safe])
  | printfS i j => exact absurd hs (by simp [Safe])
  | length i => simp only [Op.wf, decide_eq_true_eq] at hwf; exact stepOk_length hI i hwf
  | «at» i pos => simp only [Op.wf, decide_eq_true_eq] at hwf; exact stepOk_at hI i pos hwf
  | compare i j ci n =>
    simp only [Op.wf, Bool.and_eq_true, decide_eq_true_eq] at hwf
    exact stepOk_query hI _ _ (query2_ok hI i j hwf.1 hwf.2 _) rfl (by intros; simp)
  | equal i j =>
    simp only [Op.wf, Bool.and_eq_true, decide_eq_true_eq] at hwf
    exact stepOk_query hI _ _ (query2_ok hI i j hwf.1 hwf.2 _) rfl (by intros; simp)
  | startsWith i j ci =>
    simp only [Op.wf, Bool.and_eq_true, decide_eq_true_eq] at hwf
    exact stepOk_query hI _ _ (query2_ok hI i j hwf.1 hwf.2 _) rfl (by intros; simp)
  | findChar i ch pos =>
    simp only [Op.wf, decide_eq_true_eq] at hwf
    exact stepOk_query hI _ _ (query1_ok hI i hwf _) rfl (by intros; simp)
  | findS i j pos =>
    simp only [Op.wf, Bool.and_eq_true, decide_eq_true_eq] at hwf
    exact stepOk_query hI _ _ (query2_ok hI i j hwf.1 hwf.2 _) rfl (by intros; simp)
  | rfindChar i ch pos =>
    simp only [Op.wf, decide_eq_true_eq] at hwf
    exact stepOk_query hI _ _ (query1_ok hI i hwf _) rfl (by intros; simp)
  | rfindS i j pos =>
    simp only [Op.wf, Bool.and_eq_true, decide_eq_true_eq] at hwf
    exact stepOk_query hI _ _ (query2_ok hI i j hwf.1 hwf.2 _) rfl (by intros; simp)
  | findFirstOf i set pos =>
    simp only [Op.wf, decide_eq_true_eq] at hwf
    exact stepOk_query hI _ _ (query1_ok hI i hwf _) rfl (by intros; simp)
  | findFirstNotOf i set pos =>
    simp only [Op.wf, decide_eq_true_eq] at hwf
    exact stepOk_query hI _ _ (query1_ok hI i hwf _) rfl (by intros; simp)
  | findLastOf i set pos =>
    simp only [Op.wf, decide_eq_true_eq] at hwf
    exact stepOk_query hI _ _ (query1_ok hI i hwf _) rfl (by intros; simp)
  | findLastNotOf i set pos =>
    simp only [Op.wf, decide_eq_true_eq] at hwf
    exact stepOk_query hI _ _ (query1_ok hI i hwf _) rfl (by intros; simp)
  | copy i n =>
    simp only [Op.wf, decide_eq_true_eq] at hwf
    exact stepOk_query hI _ _ (query1_ok hI i hwf _) rfl (by intros; simp)
  | compareC i s ci n =>
    simp only [Op.wf, decide_eq_true_eq] at hwf
    exact stepOk_query hI _ _ (query1_ok hI i hwf _) rfl (by intros; simp)

/-! ### histories -/

/-- every operation of the history is outside the excluded regions, judged on the independent values it meets -/
def SafeRun : Vals → List Op → Prop
  | _, [] => True
  | vals, op :: ops => Safe vals op ∧ SafeRun (Spec.step vals op).1 ops

/-- results of a history agree -/
def sameResults : List Op → List Res → List Res → Prop
  | [], [], [] => True
  | op :: ops, r :: rs, s :: ss => sameRes op r s ∧ sameResults ops rs ss
  | _, _, _ => False

theorem run_sim (hc : AllocOk c) : ∀ (ops : List Op) (h : Heap), Inv h → (∀ op ∈ ops, op.wf h.views.length = true) →
    SafeRun (abs h) ops →
    ∃ hf rs, run c h ops = some (hf, rs) ∧ Inv hf ∧ hf.views.length = h.views.length ∧
      abs hf = (Spec.run (abs h) ops).1 ∧ sameResults ops rs (Spec.run (abs h) ops).2 := by
  intro ops
  induction ops with
  | nil => intro h hI _ _; exact ⟨h, [], rfl, hI, rfl, rfl, trivial⟩
  | cons op ops ih =>
    intro h hI hwf hsafe
    obtain ⟨h1, r, hstep, hI1, hn1, habs1, hr1⟩ := step_sim hc hI op (hwf op (List.mem_cons_self ..)) hsafe.1
    have hwf1 : ∀ o ∈ ops, o.wf h1.views.length = true := by
      intro o ho; rw [hn1]; exact hwf o (List.mem_cons_of_mem _ ho)
    have hsafe1 : SafeRun (abs h1) ops := by rw [habs1]; exact hsafe.2
    obtain ⟨hf, rs, hrun, hIf, hnf, habsf, hrf⟩ := ih h1 hI1 hwf1 hsafe1
    rw [habs1] at habsf hrf
    have hspec : Spec.run (abs h) (op :: ops) =
        ((Spec.run (Spec.step (abs h) op).1 ops).1, (Spec.step (abs h) op).2 :: (Spec.run (Spec.step (abs h) op).1 ops).2) := rfl
    rcases hstep with hok | ⟨hthr, hrt⟩
    · refine ⟨hf, r :: rs, ?_, hIf, by rw [hnf, hn1], by rw [hspec, habsf], by rw [hspec]; exact ⟨hr1, hrf⟩⟩
      show (match step c h op with | .ok (h', r) => _ | .thrown h' => _ | .ub => _) = _
      rw [hok]; show Option.map _ (run c h1 ops) = _; rw [hrun]; rfl
    · subst hrt
      refine ⟨hf, Res.thrown :: rs, ?_, hIf, by rw [hnf, hn1], by rw [hspec, habsf], by rw [hspec]; exact ⟨hr1, hrf⟩⟩
      show (match step c h op with | .ok (h', r) => _ | .thrown h' => _ | .ub => _) = _
      rw [hthr]; show Option.map _ (run c h1 ops) = _; rw [hrun]; rfl

/-! ### the initial state -/

theorem init_inv (hc : AllocOk c) (k : Nat) : Inv (Heap.init c k) := by
  have hmax : c.alloc 0 ≤ maxSize := hc.le 0 (Nat.zero_le _)
  refine ⟨by simp [Heap.init], ?_, ?_, ?_⟩
  · intro v hv
    simp only [Heap.init, List.mem_replicate] at hv
    rw [hv.2]
    simp [Heap.init, Heap.blob, Blob.size]
  · intro b hb
    simp only [Heap.init, List.length_singleton] at hb
    have : b = 0 := by omega
    subst this
    simp [Heap.init, Heap.blob, Blob.size]; exact hmax
  · intro b hb
    simp only [Heap.init, List.length_singleton] at hb
    have : b = 0 := by omega
    subst this
    simp [Heap.init, Heap.blob, List.countP_replicate]

theorem init_abs (c : Cfg) (k : Nat) : abs (Heap.init c k) = List.replicate k [] := by
  simp [abs, Heap.init, bytesOf, List.map_replicate]

theorem init_views (c : Cfg) (k : Nat) : (Heap.init c k).views.length = k := by simp [Heap.init]

end SquidModel.SBuf
