/-
The operations a caller can apply to a set of SBuf objects (the alphabet of histories of property C48),
their execution on the heap model (`step`), and the result values they return.
-/
import SquidModel.SBuf.Query

namespace SquidModel.SBuf

/-- objects are named by their index in `Heap.views` -/
inductive Op where
  | fresh (i : Nat)                                   -- destroy, then default-construct
  | assign (i j : Nat)                                -- v[i] = v[j]
  | assignBytes (i : Nat) (b : Bytes)                 -- v[i].assign(p, n), p outside every blob
  | assignRaw (i j p n : Nat)                         -- v[i].assign(v[j].rawContent()+p', n'), clamped into v[j]
  | appendBytes (i : Nat) (b : Bytes)                 -- v[i].append(p, n)
  | appendS (i j : Nat)                               -- v[i].append(v[j])
  | appendRaw (i j p n : Nat)                         -- v[i].append(v[j].rawContent()+p', n')
  | pushBack (i : Nat) (ch : UInt8)
  | clear (i : Nat)
  | chop (i pos n : Nat)
  | substr (i j pos n : Nat)                          -- v[i] = v[j].substr(pos, n)
  | consume (i j n : Nat)                             -- v[i] = v[j].consume(n)
  | trim (i j : Nat) (atBeginning atEnd : Bool)       -- v[i].trim(v[j], ...)
  | setAt (i pos : Nat) (ch : UInt8)
  | toLower (i : Nat)
  | toUpper (i : Nat)
  | cStr (i : Nat)
  | reserveSpace (i n : Nat)
  | reserveCapacity (i n : Nat)
  | reserve (i ideal minSpace maxCapacity : Nat) (allowShared : Bool)
  | rawAppend (i n : Nat) (b : Bytes)                 -- rawAppendStart(n), write b, rawAppendFinish(b.length)
  | appendf (i fmtLen : Nat) (out : Bytes)            -- appendf(fmt, args) whose arguments are outside every blob
  | printf (i fmtLen : Nat) (out : Bytes)             -- Printf(fmt, args)
  | appendfS (i j : Nat)                              -- v[i].appendf("%.*s", v[j].plength(), v[j].rawContent())
  | printfS (i j : Nat)                               -- v[i].Printf("%.*s", ...)
  -- read-only
  | length (i : Nat)
  | at (i pos : Nat)
  | compare (i j : Nat) (ci : Bool) (n : Nat)
  | equal (i j : Nat)
  | startsWith (i j : Nat) (ci : Bool)
  | findChar (i : Nat) (ch : UInt8) (pos : Nat)
  | findS (i j pos : Nat)
  | rfindChar (i : Nat) (ch : UInt8) (pos : Nat)
  | rfindS (i j pos : Nat)
  | findFirstOf (i : Nat) (set : Bytes) (pos : Nat)
  | findFirstNotOf (i : Nat) (set : Bytes) (pos : Nat)
  | findLastOf (i : Nat) (set : Bytes) (pos : Nat)
  | findLastNotOf (i : Nat) (set : Bytes) (pos : Nat)
  | copy (i n : Nat)
  | compareC (i : Nat) (s : Bytes) (ci : Bool) (n : Nat)
  deriving Repr

inductive Res where
  | unit
  | nat (n : Nat)
  | int (z : Int)
  | bool (b : Bool)
  | bytes (b : Bytes)
  | short (room : Nat)      -- rawAppendStart answered an area smaller than asked for (harness refused to write)
  | thrown
  deriving Repr, DecidableEq

/-- the source area `v[j].rawContent()+p'` of `n'` bytes, clamped into the contents of `j` -/
def rawArea (h : Heap) (j p n : Nat) : Src :=
  let vj := h.view j
  let p' := min p vj.len
  let n' := min n (vj.len - p')
  .mem vj.blob (vj.off + p') n'

/-- the characters `%.*s` prints for an area: up to the first NUL -/
def untilNul (b : Bytes) : Bytes := b.takeWhile (· ≠ 0)

def unitOut (x : Out Heap) : Out (Heap × Res) :=
  match x with
  | .ok h => .ok (h, .unit)
  | .thrown h => .thrown h
  | .ub => .ub

/-- a read-only member applied to the bytes of one / two objects -/
def query1 (h : Heap) (i : Nat) (f : Bytes → Res) : Out (Heap × Res) :=
  match h.contents i with
  | some a => .ok (h, f a)
  | none => .ub

def query2 (h : Heap) (i j : Nat) (f : Bytes → Bytes → Res) : Out (Heap × Res) :=
  match h.contents i, h.contents j with
  | some a, some b => .ok (h, f a b)
  | _, _ => .ub

def step (c : Cfg) (h : Heap) : Op → Out (Heap × Res)
  | .fresh i => .ok (((h.setStore i 0).setView i ⟨0, 0, 0⟩), .unit)
  | .assign i j => .ok (assignS h i j, .unit)
  | .assignBytes i b => unitOut (assignArea c h i (.ext b))
  | .assignRaw i j p n => unitOut (assignArea c h i (rawArea h j p n))
  | .appendBytes i b => unitOut (appendArea c h i (.ext b))
  | .appendS i j => unitOut (appendS c h i j)
  | .appendRaw i j p n => unitOut (appendArea c h i (rawArea h j p n))
  | .pushBack i ch => unitOut (lowAppend c h i (.ext [ch]))
  | .clear i => .ok (clear h i, .unit)
  | .chop i pos n => .ok (chop h i pos n, .unit)
  | .substr i j pos n => .ok (substrInto h i j pos n, .unit)
  | .consume i j n => .ok (consumeInto h i j n, .unit)
  | .trim i j ab ae => unitOut (trim h i j ab ae)
  | .setAt i pos ch => unitOut (setAt c h i pos ch)
  | .toLower i => unitOut (toLower c h i)
  | .toUpper i => unitOut (toUpper c h i)
  | .cStr i =>
    match cStr c h i with
    | .ok (h', s) => .ok (h', .bytes s)
    | .thrown h' => .thrown h'
    | .ub => .ub
  | .reserveSpace i n => unitOut (reserveSpace c h i n)
  | .reserveCapacity i n => unitOut (reserveCapacity c h i n)
  | .reserve i ideal mn mx sh =>
    match reserve c h i ideal mn mx sh with
    | .ok (h', s) => .ok (h', .nat s)
    | .thrown h' => .thrown h'
    | .ub => .ub
  | .rawAppend i n b =>
    match rawAppend c h i n b with
    | .ok (h', .done) => .ok (h', .unit)
    | .ok (h', .short room) => .ok (h', .short room)
    | .thrown h' => .thrown h'
    | .ub => .ub
  | .appendf i fmtLen out => unitOut (vappendf c h i fmtLen fun _ => some out)
  | .printf i fmtLen out => unitOut (printfTo c h i fmtLen fun _ => some out)
  | .appendfS i j =>
    let vj := h.view j
    unitOut (vappendf c h i 4 fun h' => (h'.read vj.blob vj.off vj.len).map untilNul)
  | .printfS i j =>
    let vj := h.view j
    unitOut (printfTo c h i 4 fun h' => (h'.read vj.blob vj.off vj.len).map untilNul)
  | .length i => .ok (h, .nat (h.view i).len)
  | .at i pos =>
    if ¬ pos < (h.view i).len then .thrown h
    else query1 h i fun a => match atPos a pos with | some ch => .nat ch.toNat | none => .thrown
  | .compare i j ci n => query2 h i j fun a b => .int (compareS a b ci n)
  | .equal i j => query2 h i j fun a b => .bool (equal a b)
  | .startsWith i j ci => query2 h i j fun a b => .bool (startsWith a b ci)
  | .findChar i ch pos => query1 h i fun a => .nat (findChar a ch pos)
  | .findS i j pos => query2 h i j fun a b => .nat (findS a b pos)
  | .rfindChar i ch pos => query1 h i fun a => .nat (rfindChar a ch pos)
  | .rfindS i j pos => query2 h i j fun a b => .nat (rfindS a b pos)
  | .findFirstOf i set pos => query1 h i fun a => .nat (findFirstOf a set pos)
  | .findFirstNotOf i set pos => query1 h i fun a => .nat (findFirstNotOf a set pos)
  | .findLastOf i set pos => query1 h i fun a => .nat (findLastOf a set pos)
  | .findLastNotOf i set pos => query1 h i fun a => .nat (findLastNotOf a set pos)
  | .copy i n => query1 h i fun a => .bytes (copyOut a n)
  | .compareC i s ci n => query1 h i fun a => .int (compareC a s ci n)

/-- the objects an operation names all exist -/
def Op.wf (k : Nat) : Op → Bool
  | .fresh i | .assignBytes i _ | .appendBytes i _ | .pushBack i _ | .clear i | .chop i _ _ | .setAt i _ _
  | .toLower i | .toUpper i | .cStr i | .reserveSpace i _ | .reserveCapacity i _ | .reserve i _ _ _ _
  | .rawAppend i _ _ | .appendf i _ _ | .printf i _ _ | .length i | .at i _ | .findChar i _ _ | .rfindChar i _ _
  | .findFirstOf i _ _ | .findFirstNotOf i _ _ | .findLastOf i _ _ | .findLastNotOf i _ _ | .copy i _
  | .compareC i _ _ _ => i < k
  | .assign i j | .assignRaw i j _ _ | .appendS i j | .appendRaw i j _ _ | .substr i j _ _ | .consume i j _
  | .trim i j _ _ | .appendfS i j | .printfS i j | .compare i j _ _ | .equal i j | .startsWith i j _
  | .findS i j _ | .rfindS i j _ => i < k && j < k

/-- a history: an exception leaves the objects in the state the throwing call reached; the caller goes on -/
def run (c : Cfg) (h : Heap) : List Op → Option (Heap × List Res)
  | [] => some (h, [])
  | op :: ops =>
    match step c h op with
    | .ok (h', r) => (run c h' ops).map fun (hf, rs) => (hf, r :: rs)
    | .thrown h' => (run c h' ops).map fun (hf, rs) => (hf, Res.thrown :: rs)
    | .ub => none

end SquidModel.SBuf
