/-
Bookkeeping lemmas about the heap accessors of SquidModel/SBuf/Model.lean (no SBuf logic here).
-/
import SquidModel.SBuf.Spec
set_option linter.unusedSimpArgs false

namespace SquidModel.SBuf
open Heap

namespace Heap

@[simp] theorem view_setView_same (h : Heap) (i : Nat) (v : View) (hi : i < h.views.length) :
    (h.setView i v).view i = v := by
  simp [view, setView, List.getD_eq_getElem?_getD, List.getElem?_set, hi]

@[simp] theorem view_setView_ne (h : Heap) (i k : Nat) (v : View) (hk : i ≠ k) :
    (h.setView i v).view k = h.view k := by
  simp [view, setView, List.getD_eq_getElem?_getD, List.getElem?_set, hk]

theorem view_setView (h : Heap) (i k : Nat) (v : View) (hi : i < h.views.length) :
    (h.setView i v).view k = if i = k then v else h.view k := by
  by_cases e : i = k
  · subst e; simp [hi]
  · simp [e]

@[simp] theorem blobs_setView (h : Heap) (i : Nat) (v : View) : (h.setView i v).blobs = h.blobs := rfl
@[simp] theorem blob_setView (h : Heap) (i : Nat) (v : View) (b : Nat) : (h.setView i v).blob b = h.blob b := rfl
@[simp] theorem views_length_setView (h : Heap) (i : Nat) (v : View) :
    (h.setView i v).views.length = h.views.length := by simp [setView]

@[simp] theorem views_setBlob (h : Heap) (b : Nat) (x : Blob) : (h.setBlob b x).views = h.views := rfl
@[simp] theorem view_setBlob (h : Heap) (b : Nat) (x : Blob) (i : Nat) : (h.setBlob b x).view i = h.view i := rfl
@[simp] theorem blobs_length_setBlob (h : Heap) (b : Nat) (x : Blob) :
    (h.setBlob b x).blobs.length = h.blobs.length := by simp [setBlob]

@[simp] theorem blob_setBlob_same (h : Heap) (b : Nat) (x : Blob) (hb : b < h.blobs.length) :
    (h.setBlob b x).blob b = x := by
  simp [blob, setBlob, List.getD_eq_getElem?_getD, List.getElem?_set, hb]

@[simp] theorem blob_setBlob_ne (h : Heap) (b k : Nat) (x : Blob) (hk : b ≠ k) :
    (h.setBlob b x).blob k = h.blob k := by
  simp [blob, setBlob, List.getD_eq_getElem?_getD, List.getElem?_set, hk]

theorem blob_setBlob (h : Heap) (b k : Nat) (x : Blob) (hb : b < h.blobs.length) :
    (h.setBlob b x).blob k = if b = k then x else h.blob k := by
  by_cases e : b = k
  · subst e; simp [hb]
  · simp [e]

theorem blob_append_old (h : Heap) (x : Blob) (b : Nat) (hb : b < h.blobs.length) :
    ({ h with blobs := h.blobs ++ [x] } : Heap).blob b = h.blob b := by
  simp [blob, List.getD_eq_getElem?_getD, List.getElem?_append, hb]

theorem blob_append_new (h : Heap) (x : Blob) :
    ({ h with blobs := h.blobs ++ [x] } : Heap).blob h.blobs.length = x := by
  simp [blob, List.getD_eq_getElem?_getD, List.getElem?_append]

theorem view_eq_getElem (h : Heap) (i : Nat) (hi : i < h.views.length) : h.view i = h.views[i] := by
  simp [view, List.getD_eq_getElem?_getD, hi]

end Heap

/-- the bytes object `v` denotes (total version of `Heap.contents`) -/
def bytesOf (h : Heap) (v : View) : Bytes := ((h.blob v.blob).data.drop v.off).take v.len

/-- the independent values a heap stands for -/
def abs (h : Heap) : Vals := h.views.map (bytesOf h)

theorem abs_length (h : Heap) : (abs h).length = h.views.length := by simp [abs]

theorem get_abs (h : Heap) (i : Nat) (hi : i < h.views.length) : Spec.get (abs h) i = bytesOf h (h.view i) := by
  simp [Spec.get, abs, List.getD_eq_getElem?_getD, hi, Heap.view_eq_getElem]

/-- counting lemma: exactly one element satisfies `p` and it sits at `i` ⇒ nobody else does -/
theorem countP_one_unique {α : Type} (p : α → Bool) :
    ∀ (l : List α) (i k : Nat) (hi : i < l.length) (hk : k < l.length),
      l.countP p = 1 → p l[i] = true → p l[k] = true → i = k := by
  intro l
  induction l with
  | nil => intro i k hi; simp at hi
  | cons a t ih =>
    intro i k hi hk hc pi pk
    by_cases pa : p a = true
    · have hnone : ∀ x ∈ t, ¬ p x = true := by
        simp [List.countP_cons, pa] at hc
        intro x hx; simp [hc x hx]
      cases i with
      | zero =>
        cases k with
        | zero => rfl
        | succ k' =>
          simp at pk hk
          exact absurd pk (hnone _ (List.getElem_mem _))
      | succ i' =>
        simp at pi hi
        exact absurd pi (hnone _ (List.getElem_mem _))
    · have ht : t.countP p = 1 := by simp [List.countP_cons, pa] at hc; exact hc
      cases i with
      | zero => simp at pi; exact absurd pi pa
      | succ i' =>
        cases k with
        | zero => simp at pk; exact absurd pk pa
        | succ k' =>
          simp at pi pk hi hk
          have := ih i' k' hi hk ht pi pk
          omega

theorem countP_pos_of_getElem {α : Type} (p : α → Bool) (l : List α) (i : Nat) (hi : i < l.length) (pi : p l[i] = true) :
    0 < l.countP p := by
  apply List.countP_pos_iff.mpr
  exact ⟨l[i], List.getElem_mem _, pi⟩

end SquidModel.SBuf
