/-
assign(const char*, n), append(const SBuf&), setAt, c_str, reserve*, rawAppendStart/Finish.
-/
import SquidModel.SBuf.Views
set_option linter.unusedSimpArgs false
set_option linter.unusedVariables false

namespace SquidModel.SBuf
open Heap

theorem SrcOk.transfer (hs : SrcOk h src bytes) (hlen : h'.blobs.length = h.blobs.length)
    (hd : ∀ sb so n, src = .mem sb so n → n ≠ 0 → (h'.blob sb).data = (h.blob sb).data) : SrcOk h' src bytes := by
  cases src with
  | ext b => exact hs
  | mem sb so n =>
    simp only [SrcOk] at hs ⊢
    refine ⟨hs.1, fun hn => ?_⟩
    obtain ⟨h1, h2, h3⟩ := hs.2 hn
    have := hd sb so n rfl hn
    simp only [Blob.size, this, hlen]
    exact ⟨h1, h2, h3⟩

/-! ### assign(const char *, n) -/

theorem assignArea_ok (hc : AllocOk c) (hI : Inv h) (i : Nat) (hi : i < h.views.length) (src : Src) (bytes : Bytes)
    (hs : SrcOk h src bytes) (hfit : bytes.length ≤ maxSize) :
    ∃ h', assignArea c h i src = .ok h' ∧ Sets h h' i bytes := by
  unfold assignArea
  by_cases hl : locks h i src.ptr = true
  · obtain ⟨hpI, hpn, hpabs, hpview, hplen, hplock, hpdata⟩ := locked_state hI i hi
    have hi' : i < (h.pushView ⟨(h.view i).blob, 0, 0⟩).views.length := by rw [hpn]; omega
    obtain ⟨cI, cn, cabs, cview, clen, cframe, _⟩ := clear_spec hpI i hi'
    have hsame : ∀ b, (clear (h.pushView ⟨(h.view i).blob, 0, 0⟩) i).blob b = (h.pushView ⟨(h.view i).blob, 0, 0⟩).blob b := by
      intro b; apply cframe
      by_cases e : b = ((h.pushView ⟨(h.view i).blob, 0, 0⟩).view i).blob
      · right; rw [e, hpview]; exact hplock
      · left; exact e
    have hsrc : SrcOk (clear (h.pushView ⟨(h.view i).blob, 0, 0⟩) i) src bytes :=
      (locked_srcOk hI i hi src bytes hs).transfer clen (fun sb _ _ _ _ => by rw [hsame sb])
    have hi'' : i < (clear (h.pushView ⟨(h.view i).blob, 0, 0⟩) i).views.length := by rw [cn]; exact hi'
    obtain ⟨h2, h2eq, h2s⟩ := appendArea_ok hc cI i hi'' src bytes hsrc (by rw [cview]; show 0 + _ ≤ _; omega)
    have hnil : bytesOf (clear (h.pushView ⟨(h.view i).blob, 0, 0⟩) i) ((clear (h.pushView ⟨(h.view i).blob, 0, 0⟩) i).view i) = [] := by
      rw [cview]; simp [bytesOf]
    have hsets : Sets (h.pushView ⟨(h.view i).blob, 0, 0⟩) h2 i bytes := by
      refine ⟨h2s.inv, by rw [h2s.nviews, cn], ?_⟩
      rw [h2s.abs, cabs, hnil, List.nil_append, List.set_set]
    obtain ⟨e, s⟩ := withLocker_locked_ok hI i hi src.ptr (fun h => appendArea c (clear h i) i src) hl h2 _ h2eq hsets
    exact ⟨_, e, s⟩
  · have hl' : locks h i src.ptr = false := by simpa using hl
    rw [withLocker_unlocked _ _ _ _ hl']
    obtain ⟨cI, cn, cabs, cview, clen, cframe, _⟩ := clear_spec hI i hi
    have hsafe := unlocked_safe hI i hi src bytes hs hl'
    have hsrc : SrcOk (clear h i) src bytes := by
      apply hs.transfer clen
      intro sb so n e hn
      subst e
      simp only [SrcSafe] at hsafe
      rw [cframe sb (hsafe hn)]
    have hi'' : i < (clear h i).views.length := by rw [cn]; exact hi
    obtain ⟨h2, h2eq, h2s⟩ := appendArea_ok hc cI i hi'' src bytes hsrc (by rw [cview]; show 0 + _ ≤ _; omega)
    have hnil : bytesOf (clear h i) ((clear h i).view i) = [] := by rw [cview]; simp [bytesOf]
    refine ⟨h2, h2eq, h2s.inv, by rw [h2s.nviews, cn], ?_⟩
    rw [h2s.abs, cabs, hnil, List.nil_append, List.set_set]

/-! ### append(const SBuf &) -/

theorem srcOk_view (hI : Inv h) (j : Nat) (hj : j < h.views.length) :
    SrcOk h (.mem (h.view j).blob (h.view j).off (h.view j).len) (bytesOf h (h.view j)) := by
  have hv := hI.view j hj
  simp only [SrcOk]
  exact ⟨bytesOf_length hI _ (view_mem h j hj), fun _ => ⟨hv.1, hv.2, rfl⟩⟩

theorem appendS_eq (c : Cfg) (h : Heap) (i j : Nat) :
    appendS c h i j = if (h.view i).len = 0 ∧ (h.view i).blob = 0 then .ok (assignS h i j)
      else appendArea c h i (.mem (h.view j).blob (h.view j).off (h.view j).len) := rfl

theorem appendS_ok (hc : AllocOk c) (hI : Inv h) (i j : Nat) (hi : i < h.views.length) (hj : j < h.views.length)
    (hfit : (h.view i).len + (h.view j).len ≤ maxSize) :
    ∃ h', appendS c h i j = .ok h' ∧ Sets h h' i (bytesOf h (h.view i) ++ bytesOf h (h.view j)) := by
  rw [appendS_eq]
  have hlj := bytesOf_length hI _ (view_mem h j hj)
  by_cases e : (h.view i).len = 0 ∧ (h.view i).blob = 0
  · rw [if_pos e]
    have hnil : bytesOf h (h.view i) = [] :=
      List.eq_nil_of_length_eq_zero (by rw [bytesOf_length hI _ (view_mem h i hi)]; exact e.1)
    rw [hnil, List.nil_append]
    exact ⟨_, rfl, assignS_spec hI i j hi hj⟩
  · rw [if_neg e]
    exact appendArea_ok hc hI i hi _ _ (srcOk_view hI j hj) (by rw [hlj]; exact hfit)

theorem appendS_thrown (hI : Inv h) (i j : Nat) (hi : i < h.views.length) (hj : j < h.views.length)
    (hbig : maxSize < (h.view i).len + (h.view j).len) :
    ∃ h', appendS c h i j = .thrown h' ∧ Kept h h' := by
  rw [appendS_eq]
  have hlj := bytesOf_length hI _ (view_mem h j hj)
  have h1 := hI.len_le i hi
  have h2 := hI.len_le j hj
  have hW := W_val
  have hnp := npos_succ
  have h2m := two_max_lt
  rw [if_neg (by intro e; omega)]
  exact appendArea_thrown hI i hi _ _ (srcOk_view hI j hj) (by rw [hlj]; omega) (by intro _; rw [hlj]; omega) (by rw [hlj]; exact hbig)

/-! ### setAt -/

theorem setAt_ok (hc : AllocOk c) (hI : Inv h) (i : Nat) (hi : i < h.views.length) (pos : Nat) (ch : UInt8)
    (hpos : pos < (h.view i).len) :
    ∃ h', setAt c h i pos ch = .ok h' ∧ Sets h h' i ((bytesOf h (h.view i)).set pos ch) := by
  unfold setAt
  rw [if_neg (by omega)]
  have hnp : maxSize < npos := by have := two_max_lt; omega
  have hcs : cowSize h i npos = (h.view i).len := by unfold cowSize; rw [if_pos (Or.inl rfl)]
  obtain ⟨h1, h1eq, h1m, h1t, _, h1l⟩ := cow_ok hc hI i hi npos (by rw [hcs]; exact hI.len_le i hi)
  rw [h1eq, Out.ok_bind]
  simp only []
  have hi1 : i < h1.views.length := by rw [h1m.nviews]; exact hi
  have hv1 := h1m.inv.view i hi1
  have hin : (h1.view i).off + pos < (h1.blob (h1.view i).blob).size := by
    have := hv1.2; rw [h1m.len] at this; omega
  rw [if_pos hin]
  have hrw := h1m.inv.rewriteExclusive i hi1 h1l ((h1.blob (h1.view i).blob).data.set ((h1.view i).off + pos) ch) (h1.view i) rfl
    (by rw [List.length_set]; exact (h1m.inv.bl _ hv1.1).1) (by rw [List.length_set]; exact hv1.2)
  have hself : (h1.setBlob (h1.view i).blob { h1.blob (h1.view i).blob with data := (h1.blob (h1.view i).blob).data.set ((h1.view i).off + pos) ch }).setView i (h1.view i)
      = h1.setBlob (h1.view i).blob { h1.blob (h1.view i).blob with data := (h1.blob (h1.view i).blob).data.set ((h1.view i).off + pos) ch } :=
    Heap.setView_self _ i (by simpa using hi1)
  rw [hself] at hrw
  refine ⟨_, rfl, hrw.1, by simp [h1m.nviews], ?_⟩
  rw [hrw.2, h1m.abs]
  congr 1
  rw [← List.set_drop, List.take_set]
  have hb1 : bytesOf h1 (h1.view i) = bytesOf h (h.view i) := by
    have e1 := get_abs h1 i hi1
    have e2 := get_abs h i hi
    rw [← e1, ← e2, h1m.abs]
  rw [← hb1]; rfl

theorem setAt_thrown (h : Heap) (i pos : Nat) (ch : UInt8) (hpos : ¬ pos < (h.view i).len) :
    setAt c h i pos ch = .thrown h := by
  unfold setAt; rw [if_pos hpos]

/-! ### c_str -/

theorem cStr_ok (hc : AllocOk c) (hI : Inv h) (i : Nat) (hi : i < h.views.length) (hfit : (h.view i).len + 1 ≤ maxSize) :
    ∃ h', cStr c h i = .ok (h', bytesOf h (h.view i) ++ [0]) ∧ Kept h h' := by
  unfold cStr
  obtain ⟨h1, h1eq, h1m, h1t, h1r⟩ := rawSpace_ok hc hI i hi 1 hfit
  rw [h1eq, Out.ok_bind]
  simp only []
  have ht := h1t (by omega)
  unfold AtTail at ht
  unfold roomOf at h1r
  rw [if_pos ht]
  have hi1 : i < h1.views.length := by rw [h1m.nviews]; exact hi
  have hv1 := h1m.inv.view i hi1
  have hap := h1m.inv.blobAppend (h1.view i).blob hv1.1 [0] (by
    have := (h1m.inv.bl _ hv1.1).1; simp; omega)
  have hsame := Heap.blob_setBlob_same h1 (h1.view i).blob
    { h1.blob (h1.view i).blob with data := (h1.blob (h1.view i).blob).data ++ [0] } hv1.1
  have hb1 : bytesOf h1 (h1.view i) = bytesOf h (h.view i) := by
    have e1 := get_abs h1 i hi1
    have e2 := get_abs h i hi
    rw [← e1, ← e2, h1m.abs]
  have hread : (h1.setBlob (h1.view i).blob { h1.blob (h1.view i).blob with data := (h1.blob (h1.view i).blob).data ++ [0] }).read
      (h1.view i).blob (h1.view i).off ((h1.view i).len + 1) = some (bytesOf h (h.view i) ++ [0]) := by
    unfold Heap.read
    rw [hsame]
    simp only [Blob.size, List.length_append, List.length_singleton]
    rw [if_pos (by simp only [Blob.size] at ht; omega)]
    have := drop_append_take (h1.blob (h1.view i).blob).data [0] (h1.view i).off (h1.view i).len (by simp only [Blob.size] at ht; exact ht)
    simp only [List.length_singleton] at this
    rw [this, ← hb1]; rfl
  rw [hread]
  exact ⟨_, rfl, hap.1, by simp [h1m.nviews], by rw [hap.2, h1m.abs]⟩

theorem cStr_thrown (hI : Inv h) (i : Nat) (hi : i < h.views.length) (hbig : maxSize < (h.view i).len + 1) :
    ∃ h', cStr c h i = .thrown h' ∧ Kept h h' := by
  unfold cStr
  have hW := W_val
  have hnp := npos_succ
  have h2m := two_max_lt
  have hl := hI.len_le i hi
  obtain ⟨h1, h1eq, hk⟩ := rawSpace_thrown (c := c) hI i hi 1 (by omega) (by intro _; omega) hbig
  rw [h1eq]
  exact ⟨h1, rfl, hk⟩

/-! ### reserveCapacity / reserveSpace / reserve -/

theorem reserveCapacity_ok (hc : AllocOk c) (hI : Inv h) (i : Nat) (hi : i < h.views.length) (n : Nat) (hn : n ≤ maxSize) :
    ∃ h', reserveCapacity c h i n = .ok h' ∧ Kept h h' := by
  unfold reserveCapacity
  rw [if_neg (by omega)]
  have hl := hI.len_le i hi
  have hcs : cowSize h i n ≤ maxSize := by
    unfold cowSize
    by_cases e : n = npos ∨ n < (h.view i).len
    · rw [if_pos e]; exact hl
    · rw [if_neg e]; exact hn
  obtain ⟨h', heq, hm, _⟩ := cow_ok hc hI i hi n hcs
  exact ⟨h', heq, hm.toKept⟩

theorem reserveCapacity_thrown (h : Heap) (i n : Nat) (hn : maxSize < n) : reserveCapacity c h i n = .thrown h := by
  unfold reserveCapacity; rw [if_pos hn]

theorem reserveSpace_spec (hc : AllocOk c) (hI : Inv h) (i : Nat) (hi : i < h.views.length) (n : Nat) :
    (n ≤ maxSize ∧ (h.view i).len + n ≤ maxSize → ∃ h', reserveSpace c h i n = .ok h' ∧ Kept h h') ∧
    (¬ (n ≤ maxSize ∧ (h.view i).len + n ≤ maxSize) → reserveSpace c h i n = .thrown h) := by
  unfold reserveSpace
  constructor
  · intro ⟨h1, h2⟩
    rw [if_neg (by omega), if_neg (by omega)]
    exact reserveCapacity_ok hc hI i hi _ h2
  · intro hnot
    by_cases e : n > maxSize
    · rw [if_pos e]
    · rw [if_neg e, if_pos (by omega)]

theorem reserve_spec (hc : AllocOk c) (hI : Inv h) (i : Nat) (hi : i < h.views.length) (ideal mn mx : Nat) (sh : Bool) :
    ∃ h' r, reserve c h i ideal mn mx sh = .ok (h', r) ∧ Kept h h' := by
  unfold reserve
  simp only []
  by_cases c1 : (!(!sh && decide (h.lockCount (h.view i).blob > 1)) && decide ((h.blob (h.view i).blob).spaceSize ≥ mn)) = true
  · rw [if_pos c1]; exact ⟨h, _, rfl, Kept.refl hI⟩
  · rw [if_neg c1]
    by_cases c2 : (!(!sh && decide (h.lockCount (h.view i).blob > 1)) && decide ((h.view i).len ≥ mx)) = true
    · rw [if_pos c2]; exact ⟨h, _, rfl, Kept.refl hI⟩
    · rw [if_neg c2]
      have hl := hI.len_le i hi
      obtain ⟨h', heq, hk⟩ := reserveCapacity_ok hc hI i hi (min ((h.view i).len + min (max mn ideal) (maxSize - (h.view i).len)) mx) (by omega)
      rw [heq, Out.ok_bind]
      exact ⟨h', _, rfl, hk⟩

/-! ### rawAppendStart / rawAppendFinish -/

theorem rawAppend_ok (hc : AllocOk c) (hI : Inv h) (i : Nat) (hi : i < h.views.length) (n : Nat) (bytes : Bytes)
    (hk : bytes.length ≤ n) (hn0 : Gen.SBufConsts.finishAssignsSize = true → n ≠ 0)
    (hfit : (h.view i).len + n ≤ maxSize) :
    ∃ h', rawAppend c h i n bytes = .ok (h', .done) ∧ Sets h h' i (bytesOf h (h.view i) ++ bytes) := by
  unfold rawAppend
  obtain ⟨h1, h1eq, h1m, h1t, h1r⟩ := rawSpace_ok hc hI i hi n hfit
  rw [h1eq, Out.ok_bind]
  simp only []
  have hi1 : i < h1.views.length := by rw [h1m.nviews]; exact hi
  have hv1 := h1m.inv.view i hi1
  have hbl1 := h1m.inv.bl _ hv1.1
  unfold roomOf at h1r
  rw [if_neg (by omega)]
  have hb1 : bytesOf h1 (h1.view i) = bytesOf h (h.view i) := by
    have e1 := get_abs h1 i hi1
    have e2 := get_abs h i hi
    rw [← e1, ← e2, h1m.abs]
  -- either nothing is written, or the area is the free tail
  have htail : bytes.length = 0 ∨ (h1.view i).off + (h1.view i).len = (h1.blob (h1.view i).blob).size := by
    by_cases e : bytes.length = 0
    · left; exact e
    · right; exact h1t (by omega)
  have hca : (h1.blob (h1.view i).blob).canAppend ((h1.view i).off + (h1.view i).len) bytes.length = true := by
    unfold Blob.canAppend
    rcases htail with e | e
    · simp [e]
    · have d1 : decide (bytes.length ≤ (h1.blob (h1.view i).blob).spaceSize) = true := by
        apply decide_eq_true; unfold Blob.spaceSize; omega
      rw [e, d1]; simp
  rw [if_neg (by rw [hca]; simp)]
  have hl1 := h1m.len
  have hv12 := hv1.2
  have hbl11 := hbl1.1
  rw [if_neg (by omega)]
  rw [if_pos hv1.2]
  -- the stored bytes
  have hdata : (if Gen.SBufConsts.finishAssignsSize = true then
        (h1.blob (h1.view i).blob).data.take ((h1.view i).off + (h1.view i).len) ++ bytes
      else (h1.blob (h1.view i).blob).data ++ bytes) = (h1.blob (h1.view i).blob).data ++ bytes := by
    by_cases f : Gen.SBufConsts.finishAssignsSize = true
    · rw [if_pos f]
      have ht := h1t (hn0 f)
      unfold AtTail at ht
      rw [ht]; simp only [Blob.size, List.take_length]
    · rw [if_neg f]
  rw [hdata]
  have hap := h1m.inv.blobAppend (h1.view i).blob hv1.1 bytes (by
    rcases htail with e | e
    · rw [e]; omega
    · omega)
  have hsame := Heap.blob_setBlob_same h1 (h1.view i).blob
    { h1.blob (h1.view i).blob with data := (h1.blob (h1.view i).blob).data ++ bytes } hv1.1
  have hsv := hap.1.setView_sameBlob i (by simpa using hi1) { h1.view i with len := (h1.view i).len + bytes.length } rfl (by
    show (h1.view i).off + ((h1.view i).len + bytes.length) ≤ ((h1.setBlob _ _).blob (h1.view i).blob).size
    rw [hsame]; simp only [Blob.size, List.length_append]; have := hv1.2; simp only [Blob.size] at this; omega)
  refine ⟨_, rfl, hsv, by simp [h1m.nviews], ?_⟩
  rw [abs_setView, hap.2, h1m.abs]
  congr 1
  show List.take ((h1.view i).len + bytes.length) (List.drop (h1.view i).off ((h1.setBlob _ _).blob (h1.view i).blob).data) = _
  rw [hsame]
  show List.take ((h1.view i).len + bytes.length) (List.drop (h1.view i).off ((h1.blob (h1.view i).blob).data ++ bytes)) = _
  rcases htail with e | e
  · have hnil : bytes = [] := List.eq_nil_of_length_eq_zero e
    rw [hnil, List.append_nil, List.append_nil, ← hb1]; rfl
  · rw [drop_append_take _ _ _ _ (by simp only [Blob.size] at e; exact e), ← hb1]; rfl

theorem rawAppend_thrown (hI : Inv h) (i : Nat) (hi : i < h.views.length) (n : Nat) (bytes : Bytes) (hnW : n < W)
    (hwrap : Gen.SBufConsts.rawSpaceDiffWraps = true → (h.view i).len + n < npos)
    (hbig : maxSize < (h.view i).len + n) :
    ∃ h', rawAppend c h i n bytes = .thrown h' ∧ Kept h h' := by
  unfold rawAppend
  obtain ⟨h1, h1eq, hk⟩ := rawSpace_thrown (c := c) hI i hi n hnW hwrap hbig
  rw [h1eq]
  exact ⟨h1, rfl, hk⟩

end SquidModel.SBuf
