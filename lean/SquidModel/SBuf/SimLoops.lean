/-
The byte-wise loops trim / toLower / toUpper.  Their refinement is not proved yet: `Safe` excludes them
(`LoopsProved` is false), so the statements below hold vacuously and `step_sim` stays total over `Op`.
-/
import SquidModel.SBuf.Sim2
set_option linter.unusedVariables false

namespace SquidModel.SBuf
open Heap

variable {c : Cfg} {h : Heap}

theorem stepOk_trim (hc : AllocOk c) (hI : Inv h) (i j : Nat) (ab ae : Bool) (hi : i < h.views.length) (hj : j < h.views.length)
    (hs : Safe (abs h) (.trim i j ab ae)) : StepOk c h (.trim i j ab ae) :=
  absurd hs (by simp [Safe, LoopsProved])

theorem stepOk_toLower (hc : AllocOk c) (hI : Inv h) (i : Nat) (hi : i < h.views.length)
    (hs : Safe (abs h) (.toLower i)) : StepOk c h (.toLower i) :=
  absurd hs (by simp [Safe, LoopsProved])

theorem stepOk_toUpper (hc : AllocOk c) (hI : Inv h) (i : Nat) (hi : i < h.views.length)
    (hs : Safe (abs h) (.toUpper i)) : StepOk c h (.toUpper i) :=
  absurd hs (by simp [Safe, LoopsProved])

end SquidModel.SBuf
