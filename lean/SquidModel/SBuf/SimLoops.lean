/-
The byte-wise loops: toLower / toUpper (a copy-on-write check per changed byte) and trim (whose `toRemove`
argument may be the trimmed object itself and is re-read in every round).
-/
import SquidModel.SBuf.Sim2
set_option linter.unusedSimpArgs false
set_option linter.unusedVariables false

namespace SquidModel.SBuf
open Heap

variable {c : Cfg} {h : Heap}

theorem Sets.trans (a : Sets h h1 i x) (b : Sets h1 h2 i y) : Sets h h2 i y :=
  ⟨b.inv, by rw [b.nviews, a.nviews], by rw [b.abs, a.abs, List.set_set]⟩

theorem Sets.self (hI : Inv h) (i : Nat) (hi : i < h.views.length) : Sets h h i (bytesOf h (h.view i)) :=
  ⟨hI, rfl, (abs_set_self h i hi).symm⟩

/-- `(*this)[k]` for k < length() -/
theorem readByte_view (hI : Inv h) (i : Nat) (hi : i < h.views.length) (k : Nat) (hk : k < (h.view i).len) :
    readByte h (h.view i).blob ((h.view i).off + k) = (bytesOf h (h.view i))[k]? := by
  have hv := hI.view i hi
  unfold readByte bytesOf
  rw [if_pos (by omega), List.getElem?_take, if_pos hk, List.getElem?_drop]

/-- what a Sets-step leaves in object i -/
theorem Sets.bytes (s : Sets h h' i x) (hi : i < h.views.length) : bytesOf h' (h'.view i) = x := by
  have hi' : i < h'.views.length := by rw [s.nviews]; exact hi
  have e1 := get_abs h' i hi'
  rw [← e1, s.abs]
  simp [Spec.get, List.getD_eq_getElem?_getD, abs_length, hi]

theorem caseLoop_spec (hc : AllocOk c) (pred : UInt8 → Bool) (conv : UInt8 → UInt8) (i : Nat) :
    ∀ (fuel : Nat) (h : Heap) (k : Nat), Inv h → i < h.views.length → k ≤ (h.view i).len → (h.view i).len - k ≤ fuel →
      ∃ h', caseLoop c pred conv h i k fuel = .ok h' ∧
        Sets h h' i ((bytesOf h (h.view i)).take k ++ ((bytesOf h (h.view i)).drop k).map (fun ch => if pred ch then conv ch else ch)) := by
  intro fuel
  induction fuel with
  | zero =>
    intro h k hI hi hk hf
    have hlen := bytesOf_length hI _ (view_mem h i hi)
    have hkl : k = (bytesOf h (h.view i)).length := by omega
    refine ⟨h, rfl, ?_⟩
    rw [hkl, List.take_length, List.drop_length, List.map_nil, List.append_nil]
    exact Sets.self hI i hi
  | succ fuel ih =>
    intro h k hI hi hk hf
    have hlen := bytesOf_length hI _ (view_mem h i hi)
    show ∃ h', (if ¬ k < (h.view i).len then Out.ok h else
        match readByte h (h.view i).blob ((h.view i).off + k) with
        | none => Out.ub
        | some ch => if pred ch then (setAt c h i k (conv ch)) >>= fun h1 => caseLoop c pred conv h1 i (k + 1) fuel
                     else caseLoop c pred conv h i (k + 1) fuel) = .ok h' ∧ _
    by_cases hlt : k < (h.view i).len
    · rw [if_neg (by omega)]
      have hka : k < (bytesOf h (h.view i)).length := by rw [hlen]; exact hlt
      rw [readByte_view hI i hi k hlt, List.getElem?_eq_getElem hka]
      simp only []
      have hdrop := List.drop_eq_getElem_cons hka
      have htake : (bytesOf h (h.view i)).take (k + 1) = (bytesOf h (h.view i)).take k ++ [(bytesOf h (h.view i))[k]] := by
        rw [List.take_add_one, List.getElem?_eq_getElem hka]; rfl
      by_cases hp : pred (bytesOf h (h.view i))[k] = true
      · rw [if_pos hp]
        obtain ⟨h1, h1eq, h1s⟩ := setAt_ok hc hI i hi k (conv (bytesOf h (h.view i))[k]) hlt
        rw [h1eq, Out.ok_bind]
        have hb1 := h1s.bytes hi
        have hi1 : i < h1.views.length := by rw [h1s.nviews]; exact hi
        have hlen1 : (h1.view i).len = (h.view i).len := by
          have := bytesOf_length h1s.inv _ (view_mem h1 i hi1)
          rw [hb1, List.length_set, hlen] at this; exact this.symm
        obtain ⟨h', heq, hs'⟩ := ih h1 (k + 1) h1s.inv hi1 (by rw [hlen1]; omega) (by rw [hlen1]; omega)
        refine ⟨h', heq, ?_⟩
        have := h1s.trans hs'
        rw [hb1] at this
        have e1 : ((bytesOf h (h.view i)).set k (conv (bytesOf h (h.view i))[k])).take (k + 1)
            = (bytesOf h (h.view i)).take k ++ [conv (bytesOf h (h.view i))[k]] := by
          rw [List.take_add_one, List.take_set_of_le (Nat.le_refl k), List.getElem?_set_self hka]; rfl
        have e2 : ((bytesOf h (h.view i)).set k (conv (bytesOf h (h.view i))[k])).drop (k + 1) = (bytesOf h (h.view i)).drop (k + 1) :=
          List.drop_set_of_lt (Nat.lt_succ_self k)
        rw [e1, e2] at this
        rw [hdrop, List.map_cons, if_pos hp]
        rw [List.append_assoc] at this
        exact this
      · rw [if_neg hp]
        obtain ⟨h', heq, hs'⟩ := ih h (k + 1) hI hi (by omega) (by omega)
        refine ⟨h', heq, ?_⟩
        rw [htake, List.append_assoc] at hs'
        rw [hdrop, List.map_cons, if_neg hp]
        exact hs'
    · rw [if_pos hlt]
      have hkl : k = (bytesOf h (h.view i)).length := by omega
      refine ⟨h, rfl, ?_⟩
      rw [hkl, List.take_length, List.drop_length, List.map_nil, List.append_nil]
      exact Sets.self hI i hi

theorem lower_fun : (fun ch => if isUpper ch = true then toLowerByte ch else ch) = toLowerByte := by
  funext ch; unfold toLowerByte; by_cases e : isUpper ch = true <;> simp [e]

theorem upper_fun : (fun ch => if isLower ch = true then toUpperByte ch else ch) = toUpperByte := by
  funext ch; unfold toUpperByte; by_cases e : isLower ch = true <;> simp [e]

theorem stepOk_toLower (hc : AllocOk c) (hI : Inv h) (i : Nat) (hi : i < h.views.length)
    (hs : Safe (abs h) (.toLower i)) : StepOk c h (.toLower i) := by
  obtain ⟨h', heq, hsets⟩ := caseLoop_spec hc isUpper toLowerByte i (h.view i).len h 0 hI hi (Nat.zero_le _) (by omega)
  rw [List.take_zero, List.nil_append, List.drop_zero, lower_fun] at hsets
  exact sets_to_step hsets (by show (abs h).set i ((Spec.get (abs h) i).map toLowerByte) = _; rw [get_abs h i hi]) rfl
    (by show unitOut (toLower c h i) = _; unfold toLower; rw [heq]; rfl)

theorem stepOk_toUpper (hc : AllocOk c) (hI : Inv h) (i : Nat) (hi : i < h.views.length)
    (hs : Safe (abs h) (.toUpper i)) : StepOk c h (.toUpper i) := by
  obtain ⟨h', heq, hsets⟩ := caseLoop_spec hc isLower toUpperByte i (h.view i).len h 0 hI hi (Nat.zero_le _) (by omega)
  rw [List.take_zero, List.nil_append, List.drop_zero, upper_fun] at hsets
  exact sets_to_step hsets (by show (abs h).set i ((Spec.get (abs h) i).map toUpperByte) = _; rw [get_abs h i hi]) rfl
    (by show unitOut (toUpper c h i) = _; unfold toUpper; rw [heq]; rfl)

/-! ### trim -/

theorem trimEnd_snoc (a S : Bytes) (x : UInt8) :
    Spec.trimEnd (a ++ [x]) S = if S.contains x then Spec.trimEnd a S else a ++ [x] := by
  unfold Spec.trimEnd
  rw [List.reverse_append, List.reverse_singleton, List.singleton_append]
  by_cases e : S.contains x = true
  · have : (x :: a.reverse).dropWhile (fun ch => S.contains ch) = a.reverse.dropWhile (fun ch => S.contains ch) := by
      rw [List.dropWhile_cons]; exact if_pos e
    rw [this, if_pos e]
  · have : (x :: a.reverse).dropWhile (fun ch => S.contains ch) = x :: a.reverse := by
      rw [List.dropWhile_cons]; exact if_neg e
    rw [this, if_neg e, List.reverse_cons, List.reverse_reverse]

theorem trimBegin_cons (a S : Bytes) (x : UInt8) :
    Spec.trimBegin (x :: a) S = if S.contains x then Spec.trimBegin a S else x :: a := by
  unfold Spec.trimBegin
  rw [List.dropWhile_cons]

theorem dropWhile_all {α : Type} (p : α → Bool) (l : List α) (hp : ∀ x ∈ l, p x = true) : l.dropWhile p = [] := by
  induction l with
  | nil => rfl
  | cons x t ih =>
    rw [List.dropWhile_cons, if_pos (hp x (List.mem_cons_self ..))]
    exact ih (fun y hy => hp y (List.mem_cons_of_mem _ hy))

theorem trimEnd_self (a : Bytes) : Spec.trimEnd a a = [] := by
  unfold Spec.trimEnd
  rw [dropWhile_all _ _ (fun x hx => by simp at hx; simp [hx])]; rfl

theorem trimBegin_self (a : Bytes) : Spec.trimBegin a a = [] := by
  unfold Spec.trimBegin
  exact dropWhile_all _ _ (fun x hx => by simp [hx])

/-- dropping the last byte of object `i` -/
theorem shorten_spec (hI : Inv h) (i : Nat) (hi : i < h.views.length) (hpos : 0 < (h.view i).len) :
    Sets h (h.setView i { h.view i with len := (h.view i).len - 1 }) i ((bytesOf h (h.view i)).take ((h.view i).len - 1)) := by
  have hv := hI.view i hi
  refine ⟨hI.setView_sameBlob i hi _ rfl (by show (h.view i).off + ((h.view i).len - 1) ≤ (h.blob (h.view i).blob).size; omega), by simp, ?_⟩
  rw [abs_setView]
  congr 1
  show List.take ((h.view i).len - 1) (List.drop (h.view i).off (h.blob (h.view i).blob).data) = _
  unfold bytesOf
  rw [List.take_take]
  have : min ((h.view i).len - 1) (h.view i).len = (h.view i).len - 1 := by omega
  rw [this]

/-- dropping the first byte of object `i` -/
theorem behead_spec (hI : Inv h) (i : Nat) (hi : i < h.views.length) (hpos : 0 < (h.view i).len) :
    Sets h (h.setView i { h.view i with off := (h.view i).off + 1, len := (h.view i).len - 1 }) i ((bytesOf h (h.view i)).drop 1) := by
  have hv := hI.view i hi
  refine ⟨hI.setView_sameBlob i hi _ rfl (by show (h.view i).off + 1 + ((h.view i).len - 1) ≤ (h.blob (h.view i).blob).size; omega), by simp, ?_⟩
  rw [abs_setView]
  congr 1
  show List.take ((h.view i).len - 1) (List.drop ((h.view i).off + 1) (h.blob (h.view i).blob).data) = _
  unfold bytesOf
  rw [List.drop_take, List.drop_drop]

theorem last_split (a : Bytes) (hpos : 0 < a.length) :
    a = a.take (a.length - 1) ++ [a[a.length - 1]'(by omega)] := by
  have h1 : a.length - 1 < a.length := by omega
  have := @List.take_add_one _ a (a.length - 1)
  rw [List.getElem?_eq_getElem h1] at this
  have h2 : a.length - 1 + 1 = a.length := by omega
  rw [h2, List.take_length] at this
  exact this

theorem nil_of_len0 (hI : Inv h) (i : Nat) (hi : i < h.views.length) (h0 : (h.view i).len = 0) : bytesOf h (h.view i) = [] :=
  List.eq_nil_of_length_eq_zero (by rw [bytesOf_length hI _ (view_mem h i hi)]; exact h0)

theorem trimEnd_last (a S : Bytes) (hpos : 0 < a.length) :
    Spec.trimEnd a S = if S.contains (a[a.length - 1]'(by omega)) then Spec.trimEnd (a.take (a.length - 1)) S else a := by
  have hs := last_split a hpos
  have : Spec.trimEnd a S = Spec.trimEnd (a.take (a.length - 1) ++ [a[a.length - 1]'(by omega)]) S := by
    conv => lhs; arg 1; rw [hs]
  rw [this, trimEnd_snoc]
  by_cases e : S.contains (a[a.length - 1]'(by omega)) = true
  · rw [if_pos e, if_pos e]
  · rw [if_neg e, if_neg e]; exact hs.symm

theorem trimBegin_first (a S : Bytes) (hpos : 0 < a.length) :
    Spec.trimBegin a S = if S.contains (a[0]'hpos) then Spec.trimBegin (a.drop 1) S else a := by
  cases a with
  | nil => simp at hpos
  | cons x t => exact trimBegin_cons t S x

theorem trimEndLoop_unfold (h : Heap) (i j fuel : Nat) :
    trimEndLoop h i j (fuel + 1) =
      if (h.view i).len = 0 then .ok h
      else match readByte h (h.view i).blob ((h.view i).off + (h.view i).len - 1), h.contents j with
        | some ch, some set =>
          if set.contains ch then trimEndLoop (h.setView i { h.view i with len := (h.view i).len - 1 }) i j fuel
          else .ok h
        | _, _ => .ub := rfl

theorem trimBeginLoop_unfold (h : Heap) (i j fuel : Nat) :
    trimBeginLoop h i j (fuel + 1) =
      if (h.view i).len = 0 then .ok h
      else match readByte h (h.view i).blob (h.view i).off, h.contents j with
        | some ch, some set =>
          if set.contains ch then trimBeginLoop (h.setView i { h.view i with off := (h.view i).off + 1, len := (h.view i).len - 1 }) i j fuel
          else .ok h
        | _, _ => .ub := rfl

/-- reading the last / first byte of a non-empty object -/
theorem read_last (hI : Inv h) (i : Nat) (hi : i < h.views.length) (hpos : 0 < (h.view i).len) :
    readByte h (h.view i).blob ((h.view i).off + (h.view i).len - 1) =
      some ((bytesOf h (h.view i))[(bytesOf h (h.view i)).length - 1]'(by rw [bytesOf_length hI _ (view_mem h i hi)]; omega)) := by
  have hlen := bytesOf_length hI _ (view_mem h i hi)
  have e : (h.view i).off + (h.view i).len - 1 = (h.view i).off + ((h.view i).len - 1) := by omega
  rw [e, readByte_view hI i hi _ (by omega), List.getElem?_eq_getElem (by rw [hlen]; omega)]
  simp only [hlen]

theorem read_first (hI : Inv h) (i : Nat) (hi : i < h.views.length) (hpos : 0 < (h.view i).len) :
    readByte h (h.view i).blob (h.view i).off =
      some ((bytesOf h (h.view i))[0]'(by rw [bytesOf_length hI _ (view_mem h i hi)]; omega)) := by
  have hlen := bytesOf_length hI _ (view_mem h i hi)
  have := readByte_view hI i hi 0 hpos
  rw [Nat.add_zero] at this
  rw [this, List.getElem?_eq_getElem (by rw [hlen]; omega)]

theorem trimEndLoop_other (i j : Nat) (hij : i ≠ j) :
    ∀ (fuel : Nat) (h : Heap), Inv h → i < h.views.length → j < h.views.length → (h.view i).len ≤ fuel →
      ∃ h', trimEndLoop h i j fuel = .ok h' ∧
        Sets h h' i (Spec.trimEnd (bytesOf h (h.view i)) (bytesOf h (h.view j))) ∧
        bytesOf h' (h'.view j) = bytesOf h (h.view j) := by
  intro fuel
  induction fuel with
  | zero =>
    intro h hI hi hj hf
    refine ⟨h, rfl, ?_, rfl⟩
    rw [nil_of_len0 hI i hi (by omega)]
    have := Sets.self hI i hi
    rw [nil_of_len0 hI i hi (by omega)] at this
    exact this
  | succ fuel ih =>
    intro h hI hi hj hf
    rw [trimEndLoop_unfold]
    by_cases h0 : (h.view i).len = 0
    · rw [if_pos h0]
      refine ⟨h, rfl, ?_, rfl⟩
      rw [nil_of_len0 hI i hi h0]
      have := Sets.self hI i hi
      rw [nil_of_len0 hI i hi h0] at this
      exact this
    · rw [if_neg h0, read_last hI i hi (by omega), hI.contents j hj]
      simp only []
      have hlen := bytesOf_length hI _ (view_mem h i hi)
      have hsplit := last_split (bytesOf h (h.view i)) (by rw [hlen]; omega)
      by_cases hc : (bytesOf h (h.view j)).contains ((bytesOf h (h.view i))[(bytesOf h (h.view i)).length - 1]'(by rw [hlen]; omega)) = true
      · rw [if_pos hc]
        have hsh := shorten_spec hI i hi (by omega)
        have hi1 : i < (h.setView i { h.view i with len := (h.view i).len - 1 }).views.length := by simpa using hi
        have hj1 : j < (h.setView i { h.view i with len := (h.view i).len - 1 }).views.length := by simpa using hj
        have hvj : (h.setView i { h.view i with len := (h.view i).len - 1 }).view j = h.view j := Heap.view_setView_ne _ _ _ _ hij
        have hvi : (h.setView i { h.view i with len := (h.view i).len - 1 }).view i = { h.view i with len := (h.view i).len - 1 } :=
          Heap.view_setView_same _ _ _ hi
        obtain ⟨h', heq, hs', hb'⟩ := ih _ hsh.inv hi1 hj1 (by rw [hvi]; show (h.view i).len - 1 ≤ fuel; omega)
        rw [hsh.bytes hi, hvj] at hs'
        rw [hvj] at hb'
        have hbj : bytesOf (h.setView i { h.view i with len := (h.view i).len - 1 }) (h.view j) = bytesOf h (h.view j) := rfl
        rw [hbj] at hs' hb'
        refine ⟨h', heq, ?_, hb'⟩
        have := hsh.trans hs'
        rw [trimEnd_last _ _ (by rw [hlen]; omega), if_pos hc, hlen]
        exact this
      · rw [if_neg hc]
        refine ⟨h, rfl, ?_, rfl⟩
        rw [trimEnd_last _ _ (by rw [hlen]; omega), if_neg hc]
        exact Sets.self hI i hi

theorem trimEndLoop_self (i : Nat) :
    ∀ (fuel : Nat) (h : Heap), Inv h → i < h.views.length → (h.view i).len ≤ fuel →
      ∃ h', trimEndLoop h i i fuel = .ok h' ∧ Sets h h' i [] := by
  intro fuel
  induction fuel with
  | zero =>
    intro h hI hi hf
    refine ⟨h, rfl, ?_⟩
    have := Sets.self hI i hi
    rw [nil_of_len0 hI i hi (by omega)] at this
    exact this
  | succ fuel ih =>
    intro h hI hi hf
    rw [trimEndLoop_unfold]
    by_cases h0 : (h.view i).len = 0
    · rw [if_pos h0]
      refine ⟨h, rfl, ?_⟩
      have := Sets.self hI i hi
      rw [nil_of_len0 hI i hi h0] at this
      exact this
    · rw [if_neg h0, read_last hI i hi (by omega), hI.contents i hi]
      simp only []
      have hlen := bytesOf_length hI _ (view_mem h i hi)
      have hc : (bytesOf h (h.view i)).contains ((bytesOf h (h.view i))[(bytesOf h (h.view i)).length - 1]'(by rw [hlen]; omega)) = true := by
        simp [List.getElem_mem]
      rw [if_pos hc]
      have hsh := shorten_spec hI i hi (by omega)
      have hi1 : i < (h.setView i { h.view i with len := (h.view i).len - 1 }).views.length := by simpa using hi
      have hvi : (h.setView i { h.view i with len := (h.view i).len - 1 }).view i = { h.view i with len := (h.view i).len - 1 } :=
        Heap.view_setView_same _ _ _ hi
      obtain ⟨h', heq, hs'⟩ := ih _ hsh.inv hi1 (by rw [hvi]; show (h.view i).len - 1 ≤ fuel; omega)
      exact ⟨h', heq, hsh.trans hs'⟩

theorem first_split (a : Bytes) (hpos : 0 < a.length) : a = a[0]'hpos :: a.drop 1 := by
  cases a with
  | nil => simp at hpos
  | cons x t => rfl

theorem trimBeginLoop_other (i j : Nat) (hij : i ≠ j) :
    ∀ (fuel : Nat) (h : Heap), Inv h → i < h.views.length → j < h.views.length → (h.view i).len ≤ fuel →
      ∃ h', trimBeginLoop h i j fuel = .ok h' ∧
        Sets h h' i (Spec.trimBegin (bytesOf h (h.view i)) (bytesOf h (h.view j))) := by
  intro fuel
  induction fuel with
  | zero =>
    intro h hI hi hj hf
    refine ⟨h, rfl, ?_⟩
    rw [nil_of_len0 hI i hi (by omega)]
    have := Sets.self hI i hi
    rw [nil_of_len0 hI i hi (by omega)] at this
    exact this
  | succ fuel ih =>
    intro h hI hi hj hf
    rw [trimBeginLoop_unfold]
    by_cases h0 : (h.view i).len = 0
    · rw [if_pos h0]
      refine ⟨h, rfl, ?_⟩
      rw [nil_of_len0 hI i hi h0]
      have := Sets.self hI i hi
      rw [nil_of_len0 hI i hi h0] at this
      exact this
    · rw [if_neg h0, read_first hI i hi (by omega), hI.contents j hj]
      simp only []
      have hlen := bytesOf_length hI _ (view_mem h i hi)
      have hsplit := first_split (bytesOf h (h.view i)) (by rw [hlen]; omega)
      by_cases hc : (bytesOf h (h.view j)).contains ((bytesOf h (h.view i))[0]'(by rw [hlen]; omega)) = true
      · rw [if_pos hc]
        have hsh := behead_spec hI i hi (by omega)
        have hi1 : i < (h.setView i { h.view i with off := (h.view i).off + 1, len := (h.view i).len - 1 }).views.length := by simpa using hi
        have hj1 : j < (h.setView i { h.view i with off := (h.view i).off + 1, len := (h.view i).len - 1 }).views.length := by simpa using hj
        have hvj : (h.setView i { h.view i with off := (h.view i).off + 1, len := (h.view i).len - 1 }).view j = h.view j :=
          Heap.view_setView_ne _ _ _ _ hij
        have hvi : (h.setView i { h.view i with off := (h.view i).off + 1, len := (h.view i).len - 1 }).view i =
            { h.view i with off := (h.view i).off + 1, len := (h.view i).len - 1 } := Heap.view_setView_same _ _ _ hi
        obtain ⟨h', heq, hs'⟩ := ih _ hsh.inv hi1 hj1 (by rw [hvi]; show (h.view i).len - 1 ≤ fuel; omega)
        rw [hsh.bytes hi, hvj] at hs'
        have hbj : bytesOf (h.setView i { h.view i with off := (h.view i).off + 1, len := (h.view i).len - 1 }) (h.view j) = bytesOf h (h.view j) := rfl
        rw [hbj] at hs'
        refine ⟨h', heq, ?_⟩
        have := hsh.trans hs'
        rw [trimBegin_first _ _ (by rw [hlen]; omega), if_pos hc]
        exact this
      · rw [if_neg hc]
        refine ⟨h, rfl, ?_⟩
        rw [trimBegin_first _ _ (by rw [hlen]; omega), if_neg hc]
        exact Sets.self hI i hi

theorem trimBeginLoop_self (i : Nat) :
    ∀ (fuel : Nat) (h : Heap), Inv h → i < h.views.length → (h.view i).len ≤ fuel →
      ∃ h', trimBeginLoop h i i fuel = .ok h' ∧ Sets h h' i [] := by
  intro fuel
  induction fuel with
  | zero =>
    intro h hI hi hf
    refine ⟨h, rfl, ?_⟩
    have := Sets.self hI i hi
    rw [nil_of_len0 hI i hi (by omega)] at this
    exact this
  | succ fuel ih =>
    intro h hI hi hf
    rw [trimBeginLoop_unfold]
    by_cases h0 : (h.view i).len = 0
    · rw [if_pos h0]
      refine ⟨h, rfl, ?_⟩
      have := Sets.self hI i hi
      rw [nil_of_len0 hI i hi h0] at this
      exact this
    · rw [if_neg h0, read_first hI i hi (by omega), hI.contents i hi]
      simp only []
      have hlen := bytesOf_length hI _ (view_mem h i hi)
      have hc : (bytesOf h (h.view i)).contains ((bytesOf h (h.view i))[0]'(by rw [hlen]; omega)) = true := by
        simp [List.getElem_mem]
      rw [if_pos hc]
      have hsh := behead_spec hI i hi (by omega)
      have hi1 : i < (h.setView i { h.view i with off := (h.view i).off + 1, len := (h.view i).len - 1 }).views.length := by simpa using hi
      have hvi : (h.setView i { h.view i with off := (h.view i).off + 1, len := (h.view i).len - 1 }).view i =
          { h.view i with off := (h.view i).off + 1, len := (h.view i).len - 1 } := Heap.view_setView_same _ _ _ hi
      obtain ⟨h', heq, hs'⟩ := ih _ hsh.inv hi1 (by rw [hvi]; show (h.view i).len - 1 ≤ fuel; omega)
      exact ⟨h', heq, hsh.trans hs'⟩

/-- the two phases of trim -/
theorem trim_end_phase (hI : Inv h) (i j : Nat) (hi : i < h.views.length) (hj : j < h.views.length) (ae : Bool) :
    ∃ h1, (if ae then trimEndLoop h i j (h.view i).len else .ok h) = .ok h1 ∧
      Sets h h1 i (if ae then Spec.trimEnd (bytesOf h (h.view i)) (bytesOf h (h.view j)) else bytesOf h (h.view i)) ∧
      (i ≠ j → bytesOf h1 (h1.view j) = bytesOf h (h.view j)) := by
  cases ae with
  | false => exact ⟨h, rfl, Sets.self hI i hi, fun _ => rfl⟩
  | true =>
    by_cases e : i = j
    · subst e
      obtain ⟨h1, heq, hs⟩ := trimEndLoop_self i _ h hI hi (Nat.le_refl _)
      refine ⟨h1, heq, ?_, fun x => absurd rfl x⟩
      simp only [if_true]
      rw [trimEnd_self]; exact hs
    · obtain ⟨h1, heq, hs, hb⟩ := trimEndLoop_other i j e _ h hI hi hj (Nat.le_refl _)
      exact ⟨h1, heq, hs, fun _ => hb⟩


theorem trim_begin_phase (hI : Inv h) (i j : Nat) (hi : i < h.views.length) (hj : j < h.views.length) (ab : Bool) :
    ∃ h2, (if ab then trimBeginLoop h i j (h.view i).len else .ok h) = .ok h2 ∧
      Sets h h2 i (if ab then (if i = j then [] else Spec.trimBegin (bytesOf h (h.view i)) (bytesOf h (h.view j)))
                   else bytesOf h (h.view i)) := by
  cases ab with
  | false => exact ⟨h, rfl, Sets.self hI i hi⟩
  | true =>
    by_cases e : i = j
    · subst e
      obtain ⟨h2, heq, hs⟩ := trimBeginLoop_self i _ h hI hi (Nat.le_refl _)
      refine ⟨h2, heq, ?_⟩
      simp only [if_true]; exact hs
    · obtain ⟨h2, heq, hs⟩ := trimBeginLoop_other i j e _ h hI hi hj (Nat.le_refl _)
      refine ⟨h2, heq, ?_⟩
      simp only [if_true, if_neg e]; exact hs

theorem trim_unfold (h : Heap) (i j : Nat) (ab ae : Bool) :
    trim h i j ab ae =
      ((if ae then trimEndLoop h i j (h.view i).len else .ok h) >>= fun h1 =>
        (if ab then trimBeginLoop h1 i j (h1.view i).len else .ok h1) >>= fun h2 =>
          if (h2.view i).len = 0 then .ok (clear h2 i) else .ok h2) := by
  unfold trim; cases ae <;> cases ab <;> rfl

theorem stepOk_trim (hc : AllocOk c) (hI : Inv h) (i j : Nat) (ab ae : Bool) (hi : i < h.views.length) (hj : j < h.views.length)
    (hs : Safe (abs h) (.trim i j ab ae)) : StepOk c h (.trim i j ab ae) := by
  obtain ⟨h1, h1eq, h1s, h1b⟩ := trim_end_phase hI i j hi hj ae
  have hi1 : i < h1.views.length := by rw [h1s.nviews]; exact hi
  have hj1 : j < h1.views.length := by rw [h1s.nviews]; exact hj
  obtain ⟨h2, h2eq, h2s⟩ := trim_begin_phase h1s.inv i j hi1 hj1 ab
  rw [h1s.bytes hi] at h2s
  have hi2 : i < h2.views.length := by rw [h2s.nviews]; exact hi1
  -- the value the specification computes
  have hval : (if ab then (if i = j then [] else
        Spec.trimBegin (if ae then Spec.trimEnd (bytesOf h (h.view i)) (bytesOf h (h.view j)) else bytesOf h (h.view i)) (bytesOf h1 (h1.view j)))
      else (if ae then Spec.trimEnd (bytesOf h (h.view i)) (bytesOf h (h.view j)) else bytesOf h (h.view i)))
      = (if ab then Spec.trimBegin (if ae then Spec.trimEnd (Spec.get (abs h) i) (Spec.get (abs h) j) else Spec.get (abs h) i) (Spec.get (abs h) j)
         else (if ae then Spec.trimEnd (Spec.get (abs h) i) (Spec.get (abs h) j) else Spec.get (abs h) i)) := by
    rw [get_abs h i hi, get_abs h j hj]
    by_cases e : i = j
    · subst e
      cases ab <;> cases ae <;> simp [trimEnd_self, trimBegin_self] <;> rfl
    · rw [h1b e]
      cases ab <;> simp [e]
  rw [hval] at h2s
  have hsets12 := h1s.trans h2s
  have hstepeq : ∀ hf, (if (h2.view i).len = 0 then Out.ok (clear h2 i) else Out.ok h2) = Out.ok hf →
      step c h (.trim i j ab ae) = .ok (hf, .unit) := by
    intro hf hfe
    show unitOut (trim h i j ab ae) = _
    rw [trim_unfold, h1eq, Out.ok_bind, h2eq, Out.ok_bind, hfe]; rfl
  by_cases h0 : (h2.view i).len = 0
  · obtain ⟨cI, cn, cabs, _⟩ := clear_spec h2s.inv i hi2
    have hx := hsets12.bytes hi
    have hnil := nil_of_len0 h2s.inv i hi2 h0
    rw [hnil] at hx
    refine sets_to_step (i := i) (x := []) ⟨cI, by rw [cn, hsets12.nviews], ?_⟩ ?_ rfl (hstepeq _ (by rw [if_pos h0]))
    · rw [cabs, hsets12.abs, List.set_set]
    · show (abs h).set i _ = _
      rw [← hx]
  · exact sets_to_step hsets12 rfl rfl (hstepeq _ (by rw [if_neg h0]))

end SquidModel.SBuf
