/-
Model of src/sbuf/MemBlob.{h,cc} and src/sbuf/SBuf.{h,cc}: a heap of reference-counted blobs and a list of
SBuf objects ("views": blob, off_, len_) that share them.  Every function below follows the C++ function of
the same name branch by branch; `Must(...)` failures are the outcome `thrown` (carrying the state the
exception leaves behind), reads outside the used area of a blob (which the C++ would perform on
uninitialised or foreign memory) are the outcome `ub`.

* `Blob.data` is `mem[0 .. size)`; bytes between `size` and `capacity` are never read by the modelled code
  and are not represented.  `cap` is what `memAllocBuf` granted: `Cfg.alloc requested`.
* `size_type` is `uint32_t`: arithmetic on caller supplied values that can wrap is written `% W`.
  Sums of internal quantities (`off_+len_`, ...) are bounded by the capacity and written in `Nat`.
* Temporaries that hold a reference (`Locker`, the `SBuf rv` of substr()/consume()) are views pushed at the
  end of `views` for the duration of the call, so `LockCount()` is what the code sees.
-/
import SquidModel.Base.Bytes
import SquidModel.Gen.SBufConsts

namespace SquidModel.SBuf

/-- modulus of `size_type` -/
def W : Nat := 2 ^ Gen.SBufConsts.sizeBits
def npos : Nat := Gen.SBufConsts.npos
def maxSize : Nat := Gen.SBufConsts.maxSize

/-- `memAllocBuf`: gross size granted for a requested net size -/
structure Cfg where
  alloc : Nat → Nat

structure Blob where
  data : Bytes
  cap : Nat
  refs : Nat
  deriving Repr, DecidableEq

structure View where
  blob : Nat
  off : Nat
  len : Nat
  deriving Repr, DecidableEq

structure Heap where
  blobs : List Blob
  views : List View
  deriving Repr, DecidableEq

inductive Out (α : Type) where
  | ok : α → Out α
  | thrown : Heap → Out α
  | ub : Out α
  deriving Repr

namespace Out
def bind {α β : Type} (x : Out α) (f : α → Out β) : Out β :=
  match x with
  | ok a => f a
  | thrown h => thrown h
  | ub => ub
instance : Monad Out where
  pure := ok
  bind := bind
end Out

namespace Blob
def size (b : Blob) : Nat := b.data.length
/-- MemBlob::spaceSize -/
def spaceSize (b : Blob) : Nat := b.cap - b.size
/-- MemBlob::canAppend: `(isAppendOffset(off) && willFit(n)) || !n` -/
def canAppend (b : Blob) (off n : Nat) : Bool := (off == b.size && decide (n ≤ b.spaceSize)) || n == 0
end Blob

namespace Heap

def emptyBlob : Blob := ⟨[], 0, 0⟩
def nullView : View := ⟨0, 0, 0⟩

def view (h : Heap) (i : Nat) : View := h.views.getD i nullView
def blob (h : Heap) (b : Nat) : Blob := h.blobs.getD b emptyBlob
def setView (h : Heap) (i : Nat) (v : View) : Heap := { h with views := h.views.set i v }
def setBlob (h : Heap) (b : Nat) (x : Blob) : Heap := { h with blobs := h.blobs.set b x }

/-- RefCountable::LockCount of the blob -/
def lockCount (h : Heap) (b : Nat) : Nat := (h.blob b).refs

def retain (h : Heap) (b : Nat) : Heap := h.setBlob b { h.blob b with refs := (h.blob b).refs + 1 }
def release (h : Heap) (b : Nat) : Heap := h.setBlob b { h.blob b with refs := (h.blob b).refs - 1 }

/-- `store_ = p` for the RefCount pointer of object `i` (new referent locked first, old one unlocked) -/
def setStore (h : Heap) (i : Nat) (b : Nat) : Heap :=
  let old := (h.view i).blob
  ((h.retain b).release old).setView i { h.view i with blob := b }

/-- a temporary that holds a reference: copy-constructed SBuf or Locker -/
def pushView (h : Heap) (v : View) : Heap := { (h.retain v.blob) with views := (h.retain v.blob).views ++ [v] }
/-- destructor of the most recent temporary -/
def popView (h : Heap) : Heap :=
  let t := h.views.length - 1
  { (h.release (h.view t).blob) with views := h.views.dropLast }

/-- the bytes `mem[off .. off+n)` of blob `b`; `none` when the range leaves the used area -/
def read (h : Heap) (b off n : Nat) : Option Bytes :=
  if off + n ≤ (h.blob b).size then some (((h.blob b).data.drop off).take n) else none

/-- what object `i` denotes: `buf()[0 .. length())` -/
def contents (h : Heap) (i : Nat) : Option Bytes :=
  read h (h.view i).blob (h.view i).off (h.view i).len

/-- the state in which `k` default-constructed SBufs exist: they all share the prototype store `new MemBlob(0)`,
    which the static `InitialStore` pointer references once more -/
def init (c : Cfg) (k : Nat) : Heap :=
  ⟨[⟨[], c.alloc 0, k + 1⟩], List.replicate k ⟨0, 0, 0⟩⟩

end Heap

open Heap

/-- a `const char *` area handed to append/assign: foreign memory (its bytes) or `n` bytes at `mem+off` of a blob -/
inductive Src where
  | ext (bytes : Bytes)
  | mem (blob off n : Nat)
  deriving Repr

namespace Src
def size : Src → Nat
  | ext b => b.length
  | mem _ _ n => n
/-- what memmove(dst, src, n) reads; nothing at all when n = 0 -/
def fetch (h : Heap) : Src → Option Bytes
  | ext b => some b
  | mem b off n => if n = 0 then some [] else h.read b off n
end Src

/-! ### MemBlob -/

/-- MemBlob::append(source, n): `if (n > 0) { Must(willFit(n)); memmove(mem + size, source, n); size += n; }` -/
def blobAppend (h : Heap) (b : Nat) (src : Bytes) : Out Heap :=
  if src.length = 0 then .ok h
  else if src.length ≤ (h.blob b).spaceSize then .ok (h.setBlob b { h.blob b with data := (h.blob b).data ++ src })
  else .thrown h

/-- MemBlob::syncSize(n): `Must(LockCount() <= 1); Must(n <= size); size = n;` -/
def blobSyncSize (h : Heap) (b n : Nat) : Out Heap :=
  if h.lockCount b > 1 then .thrown h
  else if n > (h.blob b).size then .thrown h
  else .ok (h.setBlob b { h.blob b with data := (h.blob b).data.take n })

/-- MemBlob::consume(rawN) -/
def blobConsume (h : Heap) (b rawN : Nat) : Out Heap :=
  if rawN ≠ 0 ∧ (h.blob b).size ≠ 0 then
    if h.lockCount b > 1 then .thrown h
    else .ok (h.setBlob b { h.blob b with data := (h.blob b).data.drop (min rawN (h.blob b).size) })
  else .ok h

/-! ### SBuf: storage management -/

/-- SBuf::reAlloc(newsize) -/
def reAlloc (c : Cfg) (h : Heap) (i newsize : Nat) : Out Heap :=
  if newsize > maxSize then .thrown h           -- Must(newsize <= maxSize)
  else
    let v := h.view i
    let nb := h.blobs.length
    -- MemBlob::Pointer newbuf = new MemBlob(newsize): memAlloc sets capacity, size = 0
    let cap := c.alloc newsize
    if v.len > 0 then
      -- newbuf->append(buf(), length())
      match h.contents i with
      | none => .ub
      | some bytes =>
        if v.len ≤ cap then
          let h1 : Heap := { h with blobs := h.blobs ++ [⟨bytes, cap, 0⟩] }
          .ok ((h1.setStore i nb).setView i ⟨nb, 0, v.len⟩)
        else .thrown h                            -- Must(willFit(n)) inside MemBlob::append
    else
      let h1 : Heap := { h with blobs := h.blobs ++ [⟨[], cap, 0⟩] }
      .ok ((h1.setStore i nb).setView i ⟨nb, 0, v.len⟩)

/-- SBuf::cow(newsize); `newsize` is the uint32 argument (`npos` = the default) -/
def cow (c : Cfg) (h : Heap) (i newsize : Nat) : Out Heap :=
  let v := h.view i
  let newsize := if newsize = npos ∨ newsize < v.len then v.len else newsize
  if h.lockCount v.blob = 1 then do
    -- store_->syncSize(off_ + length())
    let h1 ← blobSyncSize h v.blob (v.off + v.len)
    let availableSpace := (h1.blob v.blob).spaceSize
    let neededSpace := newsize - v.len
    if neededSpace ≤ availableSpace then .ok h1
    else if neededSpace ≤ availableSpace + v.off then do
      let h2 ← blobConsume h1 v.blob v.off
      .ok (h2.setView i { v with off := 0 })
    else reAlloc c h1 i newsize
  else reAlloc c h i newsize

/-- SBuf::rawSpace(minSpace): on `ok` the caller may write at `bufEnd()` -/
def rawSpace (c : Cfg) (h : Heap) (i minSpace : Nat) : Out Heap :=
  let v := h.view i
  -- [Must(minSpace <= maxSize) where present;] Must(length() <= maxSize - minSpace), in size_type arithmetic
  if !Gen.SBufConsts.rawSpaceDiffWraps && decide (minSpace > maxSize) then .thrown h
  else if v.len > (maxSize + W - minSpace) % W then .thrown h
  else if (h.blob v.blob).canAppend (v.off + v.len) minSpace then .ok h
  else cow c h i ((minSpace + v.len) % W)

/-- SBuf::reserveCapacity -/
def reserveCapacity (c : Cfg) (h : Heap) (i minCapacity : Nat) : Out Heap :=
  if minCapacity > maxSize then .thrown h else cow c h i minCapacity

/-- SBuf::reserveSpace -/
def reserveSpace (c : Cfg) (h : Heap) (i minSpace : Nat) : Out Heap :=
  if minSpace > maxSize then .thrown h
  else if (h.view i).len > maxSize - minSpace then .thrown h
  else reserveCapacity c h i ((h.view i).len + minSpace)

/-- SBuf::reserve(req) → spaceSize() -/
def reserve (c : Cfg) (h : Heap) (i idealSpace minSpace maxCapacity : Nat) (allowShared : Bool) : Out (Heap × Nat) :=
  let v := h.view i
  let space := (h.blob v.blob).spaceSize
  let mustRealloc := !allowShared && decide (h.lockCount v.blob > 1)
  if !mustRealloc && decide (space ≥ minSpace) then .ok (h, space)
  else if !mustRealloc && decide (v.len ≥ maxCapacity) then .ok (h, space)
  else do
    let desiredSpace := max minSpace idealSpace
    let newSpace := min desiredSpace (maxSize - v.len)
    let h1 ← reserveCapacity c h i (min (v.len + newSpace) maxCapacity)
    .ok (h1, (h1.blob (h1.view i).blob).spaceSize)

/-- SBuf::clear -/
def clear (h : Heap) (i : Nat) : Heap :=
  let v := h.view i
  let h1 := if h.lockCount v.blob = 1 then h.setBlob v.blob { h.blob v.blob with data := [] } else h
  h1.setView i { v with off := 0, len := 0 }

/-- SBuf::Locker: lock the blob of `i` for the duration of `k` when the other buffer points into it -/
def withLocker (h : Heap) (i : Nat) (other : Option (Nat × Nat)) (k : Heap → Out Heap) : Out Heap :=
  let v := h.view i
  let locks := match other with
    | some (b, off) => b == v.blob && decide (off < (h.blob v.blob).cap)
    | none => false
  if locks then
    match k (h.pushView ⟨v.blob, 0, 0⟩) with
    | .ok h2 => .ok h2.popView
    | .thrown h2 => .thrown h2.popView
    | .ub => .ub
  else k h

def Src.ptr : Src → Option (Nat × Nat)
  | .ext _ => none
  | .mem b off _ => some (b, off)

/-- SBuf::lowAppend(memArea, areaSize) -/
def lowAppend (c : Cfg) (h : Heap) (i : Nat) (src : Src) : Out Heap := do
  let h1 ← rawSpace c h i src.size
  match src.fetch h1 with            -- memmove reads the source now
  | none => .ub
  | some bytes =>
    let v := h1.view i
    let h2 ← blobAppend h1 v.blob bytes
    .ok (h2.setView i { v with len := v.len + src.size })

/-- SBuf::append(const char *S, size_type Ssize), S != nullptr, Ssize != npos -/
def appendArea (c : Cfg) (h : Heap) (i : Nat) (src : Src) : Out Heap :=
  withLocker h i src.ptr fun h => lowAppend c h i src

/-- SBuf::assign(const SBuf &S) -/
def assignS (h : Heap) (i j : Nat) : Heap :=
  if i = j then h
  else (h.setStore i (h.view j).blob).setView i (h.view j)

/-- SBuf::assign(const char *S, size_type n) -/
def assignArea (c : Cfg) (h : Heap) (i : Nat) (src : Src) : Out Heap :=
  withLocker h i src.ptr fun h => appendArea c (clear h i) i src

/-- SBuf::append(const SBuf &S) -/
def appendS (c : Cfg) (h : Heap) (i j : Nat) : Out Heap :=
  let vi := h.view i
  let vj := h.view j
  if vi.len = 0 ∧ vi.blob = 0 then .ok (assignS h i j)      -- isEmpty() && store_ == GetStorePrototype()
  else withLocker h i (some (vj.blob, vj.off)) fun h => lowAppend c h i (.mem vj.blob vj.off vj.len)

/-- the second half of chop()'s cap test: `(pos+n) > length()` in size_type arithmetic (pinned snapshot),
    or a comparison that cannot wrap (`n > length() - pos`, with pos <= length() here) -/
def chopOver (pos n len : Nat) : Bool :=
  if Gen.SBufConsts.chopSumWraps then decide ((pos + n) % W > len) else decide (n > len - pos)

/-- SBuf::chop(pos, n) -/
def chop (h : Heap) (i pos n : Nat) : Heap :=
  let v := h.view i
  let pos := if pos = npos ∨ pos > v.len then v.len else pos
  let n := if n = npos ∨ chopOver pos n v.len then v.len - pos else n
  if pos = v.len ∨ n = 0 then clear h i
  else h.setView i { v with off := v.off + pos, len := n }

/-- `v[i] = std::move(rv)` for the temporary `rv` on top of the view stack, then `rv` dies.
    (C++ unlocks i's old blob and transfers rv's reference; written here as lock-new, unlock-old, pop,
    which visits the same lock counts at the end and takes no decision in between.) -/
def moveFromTemp (h : Heap) (i : Nat) : Heap :=
  let t := h.views.length - 1
  let vt := h.view t
  ((h.setStore i vt.blob).setView i vt).popView

/-- `v[i] = v[j].substr(pos, n)` -/
def substrInto (h : Heap) (i j pos n : Nat) : Heap :=
  let t := h.views.length
  let h1 := h.pushView (h.view j)      -- SBuf rv(*this)
  let h2 := chop h1 t pos n            -- rv.chop(pos, n)
  moveFromTemp h2 i

/-- `v[i] = v[j].consume(n)` -/
def consumeInto (h : Heap) (i j n : Nat) : Heap :=
  let vj := h.view j
  let n := if n = npos then vj.len else min n vj.len
  let t := h.views.length
  let h1 := chop (h.pushView vj) t 0 n   -- SBuf rv(substr(0, n))
  let h2 := chop h1 j n npos             -- chop(n)
  moveFromTemp h2 i

/-! ### SBuf: operations that read or write bytes -/

def readByte (h : Heap) (b pos : Nat) : Option UInt8 :=
  if pos < (h.blob b).size then (h.blob b).data[pos]? else none

/-- the `atEnd` loop of SBuf::trim: `toRemove` is object `j` (re-read every round: it may be `i` itself) -/
def trimEndLoop (h : Heap) (i j : Nat) : Nat → Out Heap
  | 0 => .ok h
  | fuel + 1 =>
    let v := h.view i
    if v.len = 0 then .ok h
    else match readByte h v.blob (v.off + v.len - 1), h.contents j with
      | some ch, some set =>
        if set.contains ch then trimEndLoop (h.setView i { v with len := v.len - 1 }) i j fuel
        else .ok h
      | _, _ => .ub

/-- the `atBeginning` loop of SBuf::trim -/
def trimBeginLoop (h : Heap) (i j : Nat) : Nat → Out Heap
  | 0 => .ok h
  | fuel + 1 =>
    let v := h.view i
    if v.len = 0 then .ok h
    else match readByte h v.blob v.off, h.contents j with
      | some ch, some set =>
        if set.contains ch then trimBeginLoop (h.setView i { v with off := v.off + 1, len := v.len - 1 }) i j fuel
        else .ok h
      | _, _ => .ub

/-- SBuf::trim(toRemove, atBeginning, atEnd) -/
def trim (h : Heap) (i j : Nat) (atBeginning atEnd : Bool) : Out Heap := do
  let h1 ← if atEnd then trimEndLoop h i j (h.view i).len else .ok h
  let h2 ← if atBeginning then trimBeginLoop h1 i j (h1.view i).len else .ok h1
  if (h2.view i).len = 0 then .ok (clear h2 i) else .ok h2

/-- SBuf::setAt(pos, toset) -/
def setAt (c : Cfg) (h : Heap) (i pos : Nat) (ch : UInt8) : Out Heap :=
  if ¬ pos < (h.view i).len then .thrown h          -- checkAccessBounds
  else do
    let h1 ← cow c h i npos
    let v := h1.view i
    if v.off + pos < (h1.blob v.blob).size then
      .ok (h1.setBlob v.blob { h1.blob v.blob with data := (h1.blob v.blob).data.set (v.off + pos) ch })
    else .ub

def isUpper (ch : UInt8) : Bool := 65 ≤ ch && ch ≤ 90
def isLower (ch : UInt8) : Bool := 97 ≤ ch && ch ≤ 122
/-- tolower(3)/toupper(3) in the C locale -/
def toLowerByte (ch : UInt8) : UInt8 := if isUpper ch then ch + 32 else ch
def toUpperByte (ch : UInt8) : UInt8 := if isLower ch then ch - 32 else ch

/-- the loop of SBuf::toLower / toUpper: `for (j = k; j < length(); ++j) if (pred((*this)[j])) setAt(j, conv(c))` -/
def caseLoop (c : Cfg) (pred : UInt8 → Bool) (conv : UInt8 → UInt8) (h : Heap) (i k : Nat) : Nat → Out Heap
  | 0 => .ok h
  | fuel + 1 =>
    let v := h.view i
    if ¬ k < v.len then .ok h
    else match readByte h v.blob (v.off + k) with
      | none => .ub
      | some ch =>
        if pred ch then do
          let h1 ← setAt c h i k (conv ch)
          caseLoop c pred conv h1 i (k + 1) fuel
        else caseLoop c pred conv h i (k + 1) fuel

def toLower (c : Cfg) (h : Heap) (i : Nat) : Out Heap := caseLoop c isUpper toLowerByte h i 0 (h.view i).len
def toUpper (c : Cfg) (h : Heap) (i : Nat) : Out Heap := caseLoop c isLower toUpperByte h i 0 (h.view i).len

/-- SBuf::c_str(): `*rawSpace(1) = '\0'; ++store_->size;` → the C string the caller sees (contents + terminator) -/
def cStr (c : Cfg) (h : Heap) (i : Nat) : Out (Heap × Bytes) := do
  let h1 ← rawSpace c h i 1
  let v := h1.view i
  if v.off + v.len = (h1.blob v.blob).size then
    let h2 := h1.setBlob v.blob { h1.blob v.blob with data := (h1.blob v.blob).data ++ [0] }
    match h2.read v.blob v.off (v.len + 1) with
    | some s => .ok (h2, s)
    | none => .ub
  else .ub     -- the terminator would land inside the used area and `++size` expose an unwritten byte

/-- what the harness does between rawAppendStart(n) and rawAppendFinish: it refuses to write when the returned
    area has less than `n` bytes of room -/
inductive RawRes where
  | done
  | short (room : Nat)
  deriving Repr, DecidableEq

/-- `p = rawAppendStart(n); memcpy(p, bytes, k); rawAppendFinish(p, k)` with `k = bytes.length ≤ n` -/
def rawAppend (c : Cfg) (h : Heap) (i n : Nat) (bytes : Bytes) : Out (Heap × RawRes) := do
  let h1 ← rawSpace c h i n                     -- rawAppendStart
  let v := h1.view i
  let b := h1.blob v.blob
  let room := b.cap - (v.off + v.len)
  if room < n then .ok (h1, .short room)
  else
    -- rawAppendFinish(start, k): Must(bufEnd() == start) holds
    let k := bytes.length
    if ¬ b.canAppend (v.off + v.len) k then .thrown h1
    else if v.len + k > min maxSize (b.cap - v.off) then .thrown h1
    else
      -- the caller wrote at mem[off_+len_ ..); `store_->size = off_ + newSize` makes exactly that the used area
      if v.off + v.len ≤ b.size then
        let data' := if Gen.SBufConsts.finishAssignsSize then b.data.take (v.off + v.len) ++ bytes   -- store_->size = off_ + newSize
                     else b.data ++ bytes                                                          -- store_->appended(actualSize)
        .ok ((h1.setBlob v.blob { b with data := data' }).setView i { v with len := v.len + k }, .done)
      else .ub

/-- SBuf::vappendf, with vsnprintf abstracted to its output (NUL-free) for a format of `fmtLen` characters.
    `out h` is that output when the pointer arguments are read in state `h` (they may point into a blob). -/
def vappendf (c : Cfg) (h : Heap) (i fmtLen : Nat) (out : Heap → Option Bytes) : Out Heap :=
  let v0 := h.view i
  -- const Locker blobKeeper(this, buf())
  withLocker h i (some (v0.blob, v0.off)) fun h => do
    let h1 ← rawSpace c h i ((fmtLen * 2 + Gen.SBufConsts.vappendfExtra) % W)
    match out h1 with
    | none => .ub
    | some o =>
      let v := h1.view i
      let b := h1.blob v.blob
      if v.off + v.len = b.size then
        -- `space` is the free tail: vsnprintf(space, spaceSize(), ...) touches nothing in use
        let h2 ← if o.length ≥ b.spaceSize then rawSpace c h1 i ((o.length * 2) % W) else .ok h1
        match out h2 with
        | none => .ub
        | some o2 =>
          let v2 := h2.view i
          let b2 := h2.blob v2.blob
          if v2.off + v2.len = b2.size ∧ (o2.length < b2.spaceSize ∨ o2.length = 0) then
            -- len_ += sz; store_->size += sz
            .ok ((h2.setBlob v2.blob { b2 with data := b2.data ++ o2 }).setView i { v2 with len := v2.len + o2.length })
          else .ub
      else if v.off + v.len < b.size ∧ o.length = 0 then
        -- rawSpace(0) answered bufEnd() although it is not the free tail (only an empty format gets here):
        -- vsnprintf(space, spaceSize(), "") stores its terminator at bufEnd() when spaceSize() > 0
        if b.spaceSize > 0 then .ok (h1.setBlob v.blob { b with data := b.data.set (v.off + v.len) 0 })
        else .ok h1
      else .ub

/-- SBuf::Printf -/
def printfTo (c : Cfg) (h : Heap) (i fmtLen : Nat) (out : Heap → Option Bytes) : Out Heap :=
  let v0 := h.view i
  withLocker h i (some (v0.blob, v0.off)) fun h => vappendf c (clear h i) i fmtLen out

end SquidModel.SBuf
