/-
Operations that only re-aim objects: assign(const SBuf&), default construction, chop, substr, consume.
-/
import SquidModel.SBuf.Append2
set_option linter.unusedSimpArgs false
set_option linter.unusedVariables false

namespace SquidModel.SBuf
open Heap

theorem assignS_spec (hI : Inv h) (i j : Nat) (hi : i < h.views.length) (hj : j < h.views.length) :
    Sets h (assignS h i j) i (bytesOf h (h.view j)) := by
  unfold assignS
  by_cases e : i = j
  · subst e
    rw [if_pos rfl]
    exact ⟨hI, rfl, (abs_set_self h i hi).symm⟩
  · rw [if_neg e]
    have hv := hI.view j hj
    obtain ⟨rI, rabs, _⟩ := hI.repoint i hi (h.view j) hv.1 hv.2
    exact ⟨rI, by simp [Heap.setStore], rabs⟩

theorem fresh_spec (hI : Inv h) (i : Nat) (hi : i < h.views.length) :
    Sets h ((h.setStore i 0).setView i ⟨0, 0, 0⟩) i [] := by
  obtain ⟨rI, rabs, _⟩ := hI.repoint i hi ⟨0, 0, 0⟩ hI.proto (by show 0 + 0 ≤ _; omega)
  refine ⟨rI, by simp [Heap.setStore], ?_⟩
  rw [rabs]; simp [bytesOf]

/-! ### chop -/

/-- the request does not wrap around in `pos+n` (always true where chop() compares without adding) -/
def ChopSafe (len pos n : Nat) : Prop :=
  Gen.SBufConsts.chopSumWraps = true →
    n = npos ∨ (if pos = npos ∨ pos > len then len else pos) + n < W

theorem chopOver_iff (len p n : Nat) (hp : p ≤ len) (hs : Gen.SBufConsts.chopSumWraps = true → p + n < W) :
    chopOver p n len = decide (p + n > len) := by
  unfold chopOver
  by_cases f : Gen.SBufConsts.chopSumWraps = true
  · rw [if_pos f, Nat.mod_eq_of_lt (hs f)]
  · rw [if_neg f]
    apply decide_eq_decide.mpr
    omega

theorem chopBytes_eq_sub (a : Bytes) (pos n : Nat) (hs : ChopSafe a.length pos n) :
    chopBytes a pos n = Spec.sub a pos n := by
  unfold chopBytes Spec.sub
  simp only []
  generalize hp : (if pos = npos ∨ pos > a.length then a.length else pos) = p
  have hple : p ≤ a.length := by
    rw [← hp]; by_cases e : pos = npos ∨ pos > a.length
    · rw [if_pos e]; exact Nat.le_refl _
    · rw [if_neg e]; omega
  unfold ChopSafe at hs
  rw [hp] at hs
  by_cases hn : n = npos
  · subst hn
    simp only [true_or, if_true]
    by_cases e : p = a.length ∨ a.length - p = 0
    · rw [if_pos e]
      have : p = a.length := by omega
      rw [this]; simp
    · rw [if_neg e]
  · have hs' : Gen.SBufConsts.chopSumWraps = true → p + n < W := by
      intro f; rcases hs f with h1 | h1
      · exact absurd h1 hn
      · exact h1
    rw [chopOver_iff a.length p n hple hs']
    simp only [hn, false_or, decide_eq_true_eq]
    by_cases e2 : p + n > a.length
    · simp only [e2, if_true]
      by_cases e : p = a.length ∨ a.length - p = 0
      · rw [if_pos e]
        have : p = a.length := by omega
        rw [this]; simp
      · rw [if_neg e]
    · simp only [e2, if_false]
      by_cases e : p = a.length ∨ n = 0
      · rw [if_pos e]
        rcases e with e | e
        · rw [e]; simp
        · rw [e]; simp
      · rw [if_neg e]

theorem take_drop_drop_take {α : Type} (l : List α) (off len p n : Nat) (h1 : p + n ≤ len) :
    (l.drop (off + p)).take n = (((l.drop off).take len).drop p).take n := by
  rw [List.drop_take, List.drop_drop, List.take_take]
  have : min n (len - p) = n := by omega
  rw [this]

theorem chop_spec (hI : Inv h) (k : Nat) (hk : k < h.views.length) (pos n : Nat)
    (hs : ChopSafe (h.view k).len pos n) :
    Sets h (chop h k pos n) k (Spec.sub (bytesOf h (h.view k)) pos n) := by
  have hv := hI.view k hk
  have hlen : (bytesOf h (h.view k)).length = (h.view k).len := bytesOf_length hI _ (view_mem h k hk)
  rw [← chopBytes_eq_sub _ _ _ (by rw [hlen]; exact hs)]
  unfold chop chopBytes
  simp only []
  rw [hlen]
  generalize hp : (if pos = npos ∨ pos > (h.view k).len then (h.view k).len else pos) = p
  have hple : p ≤ (h.view k).len := by
    rw [← hp]; by_cases e : pos = npos ∨ pos > (h.view k).len
    · rw [if_pos e]; exact Nat.le_refl _
    · rw [if_neg e]; omega
  generalize hq : (if n = npos ∨ chopOver p n (h.view k).len = true then (h.view k).len - p else n) = q
  have hqle : p + q ≤ (h.view k).len := by
    rw [← hq]
    by_cases e : n = npos ∨ chopOver p n (h.view k).len = true
    · rw [if_pos e]; omega
    · rw [if_neg e]
      have hn : n ≠ npos := fun x => e (Or.inl x)
      have hov : ¬ chopOver p n (h.view k).len = true := fun x => e (Or.inr x)
      unfold ChopSafe at hs; rw [hp] at hs
      have hs' : Gen.SBufConsts.chopSumWraps = true → p + n < W := by
        intro f; rcases hs f with h1 | h1
        · exact absurd h1 hn
        · exact h1
      rw [chopOver_iff _ p n hple hs'] at hov
      simp at hov; omega
  by_cases e : p = (h.view k).len ∨ q = 0
  · rw [if_pos e, if_pos e]
    obtain ⟨cI, cn, cabs, _⟩ := clear_spec hI k hk
    exact ⟨cI, cn, cabs⟩
  · rw [if_neg e, if_neg e]
    have hs2 := hI.setView_sameBlob k hk { h.view k with off := (h.view k).off + p, len := q } rfl (by
      show (h.view k).off + p + q ≤ (h.blob (h.view k).blob).size; have := hv.2; omega)
    refine ⟨hs2, by simp, ?_⟩
    rw [abs_setView]
    congr 1
    show List.take q (List.drop ((h.view k).off + p) (h.blob (h.view k).blob).data) = _
    exact take_drop_drop_take _ _ _ _ _ hqle

/-! ### moving a temporary into an object -/

theorem moveFromTemp_spec (hI : Inv h) (A : List Bytes) (x : Bytes) (habs : abs h = A ++ [x]) (i : Nat) (hi : i < A.length) :
    Inv (moveFromTemp h i) ∧ (moveFromTemp h i).views.length = A.length ∧ abs (moveFromTemp h i) = A.set i x := by
  have hlen : h.views.length = A.length + 1 := by rw [← abs_length, habs]; simp
  have ht : h.views.length - 1 < h.views.length := by omega
  have hvt := hI.view (h.views.length - 1) ht
  have hi' : i < h.views.length := by omega
  unfold moveFromTemp
  simp only []
  obtain ⟨rI, rabs, _⟩ := hI.repoint i hi' (h.view (h.views.length - 1)) hvt.1 hvt.2
  have hx : bytesOf h (h.view (h.views.length - 1)) = x := by
    have := get_abs h (h.views.length - 1) ht
    rw [← this, habs, hlen]
    simp [Spec.get, List.getD_eq_getElem?_getD]
  rw [hx] at rabs
  obtain ⟨vs, vt, hvv⟩ := exists_concat ((h.setStore i (h.view (h.views.length - 1)).blob).setView i (h.view (h.views.length - 1))).views
    (by simp [Heap.setStore]; omega)
  obtain ⟨pI, pabs, pviews, _⟩ := rI.popView vs vt hvv
  have hvl : vs.length = A.length := by
    have : ((h.setStore i (h.view (h.views.length - 1)).blob).setView i (h.view (h.views.length - 1))).views.length = A.length + 1 := by
      simp [Heap.setStore]; exact hlen
    rw [hvv] at this; simp at this; exact this
  refine ⟨pI, by rw [pviews]; exact hvl, ?_⟩
  rw [pabs, rabs, habs]
  exact set_append_dropLast _ _ _ _ hi

theorem pushView_abs (hI : Inv h) (j : Nat) (hj : j < h.views.length) :
    Inv (h.pushView (h.view j)) ∧ abs (h.pushView (h.view j)) = abs h ++ [bytesOf h (h.view j)] ∧
    (h.pushView (h.view j)).views.length = h.views.length + 1 ∧
    (h.pushView (h.view j)).view h.views.length = h.view j ∧
    (∀ k, k < h.views.length → (h.pushView (h.view j)).view k = h.view k) ∧
    bytesOf (h.pushView (h.view j)) (h.view j) = bytesOf h (h.view j) := by
  have hv := hI.view j hj
  obtain ⟨pI, pabs, pviews, pdata, _⟩ := hI.pushView (h.view j) hv.1 hv.2
  refine ⟨pI, pabs, by rw [pviews]; simp, ?_, ?_, ?_⟩
  · show (h.pushView (h.view j)).views.getD h.views.length Heap.nullView = _
    rw [pviews, List.getD_eq_getElem?_getD]; simp
  · intro k hk
    show (h.pushView (h.view j)).views.getD k Heap.nullView = h.views.getD k Heap.nullView
    rw [pviews, List.getD_eq_getElem?_getD, List.getD_eq_getElem?_getD, List.getElem?_append_left hk]
  · simp only [bytesOf, (pdata _).1]

theorem set_last {α : Type} (A : List α) (x y : α) : (A ++ [x]).set A.length y = A ++ [y] := by
  rw [List.set_append]; simp

theorem substrInto_spec (hI : Inv h) (i j : Nat) (hi : i < h.views.length) (hj : j < h.views.length) (pos n : Nat)
    (hs : ChopSafe (h.view j).len pos n) :
    Sets h (substrInto h i j pos n) i (Spec.sub (bytesOf h (h.view j)) pos n) := by
  obtain ⟨pI, pabs, pn, pvt, _, pbytes⟩ := pushView_abs hI j hj
  unfold substrInto
  simp only []
  have ht : h.views.length < (h.pushView (h.view j)).views.length := by rw [pn]; omega
  have hc := chop_spec pI h.views.length ht pos n (by rw [pvt]; exact hs)
  rw [pvt, pbytes] at hc
  have habs : abs (chop (h.pushView (h.view j)) h.views.length pos n) = abs h ++ [Spec.sub (bytesOf h (h.view j)) pos n] := by
    rw [hc.abs, pabs, ← abs_length h]; exact set_last _ _ _
  obtain ⟨mI, mn, mabs⟩ := moveFromTemp_spec hc.inv (abs h) _ habs i (by rw [abs_length]; exact hi)
  exact ⟨mI, by rw [mn, abs_length], mabs⟩

theorem sub_zero_take (a : Bytes) (n : Nat) (hn : n ≤ a.length) (hm : a.length < npos) : Spec.sub a 0 n = a.take n := by
  unfold Spec.sub
  have h0 : ¬ (0 = npos ∨ 0 > a.length) := by
    intro e; rcases e with e | e
    · have := two_max_lt; omega
    · omega
  simp only [h0, if_false, List.drop_zero]
  have hn' : ¬ (n = npos ∨ 0 + n > a.length) := by omega
  rw [if_neg hn']

theorem sub_npos_drop (a : Bytes) (n : Nat) (hn : n ≤ a.length) (hm : a.length < npos) : Spec.sub a n npos = a.drop n := by
  unfold Spec.sub
  have h0 : ¬ (n = npos ∨ n > a.length) := by omega
  simp only [h0, if_false, true_or, if_true]
  rw [List.take_of_length_le (by rw [List.length_drop]; exact Nat.le_refl _)]

theorem consumeInto_spec (hI : Inv h) (i j : Nat) (hi : i < h.views.length) (hj : j < h.views.length) (n : Nat) :
    let a := bytesOf h (h.view j)
    let n' := if n = npos then a.length else min n a.length
    Inv (consumeInto h i j n) ∧ (consumeInto h i j n).views.length = h.views.length ∧
      abs (consumeInto h i j n) = ((abs h).set j (a.drop n')).set i (a.take n') := by
  intro a n'
  have halen : a.length = (h.view j).len := bytesOf_length hI _ (view_mem h j hj)
  have hmax := hI.len_le j hj
  have hnp : maxSize < npos := by have := two_max_lt; omega
  have hWv := W_val
  have hnps := npos_succ
  obtain ⟨pI, pabs, pn, pvt, pold, pbytes⟩ := pushView_abs hI j hj
  unfold consumeInto
  simp only []
  have hn'eq : (if n = npos then (h.view j).len else min n (h.view j).len) = n' := by
    show _ = if n = npos then a.length else min n a.length
    rw [halen]
  rw [hn'eq]
  have hn'le : n' ≤ (h.view j).len := by
    rw [← hn'eq]; by_cases e : n = npos
    · rw [if_pos e]; exact Nat.le_refl _
    · rw [if_neg e]; omega
  have ht : h.views.length < (h.pushView (h.view j)).views.length := by rw [pn]; omega
  -- SBuf rv(substr(0, n'))
  have hc1 := chop_spec pI h.views.length ht 0 n' (by
    rw [pvt]; intro _; right
    have h0 : ¬ (0 = npos ∨ 0 > (h.view j).len) := by omega
    rw [if_neg h0]; omega)
  rw [pvt, pbytes, sub_zero_take _ _ (by rw [halen]; exact hn'le) (by rw [halen]; omega)] at hc1
  have habs1 : abs (chop (h.pushView (h.view j)) h.views.length 0 n') = abs h ++ [a.take n'] := by
    rw [hc1.abs, pabs, ← abs_length h]; exact set_last _ _ _
  -- chop(n')
  have hj1 : j < (chop (h.pushView (h.view j)) h.views.length 0 n').views.length := by rw [hc1.nviews, pn]; omega
  have hbj : bytesOf (chop (h.pushView (h.view j)) h.views.length 0 n') ((chop (h.pushView (h.view j)) h.views.length 0 n').view j) = a := by
    have e1 := get_abs _ j hj1
    rw [← e1, habs1]
    have e2 := get_abs h j hj
    simp only [Spec.get, List.getD_eq_getElem?_getD] at e1 e2 ⊢
    rw [List.getElem?_append_left (by rw [abs_length]; exact hj)]
    exact e2
  have hlen1 : ((chop (h.pushView (h.view j)) h.views.length 0 n').view j).len = (h.view j).len := by
    have := bytesOf_length hc1.inv _ (view_mem _ j hj1)
    rw [hbj, halen] at this; exact this.symm
  have hc2 := chop_spec hc1.inv j hj1 n' npos (by intro _; left; rfl)
  rw [hbj, sub_npos_drop _ _ (by rw [halen]; exact hn'le) (by rw [halen]; omega)] at hc2
  have habs2 : abs (chop (chop (h.pushView (h.view j)) h.views.length 0 n') j n' npos) = (abs h).set j (a.drop n') ++ [a.take n'] := by
    rw [hc2.abs, habs1, List.set_append_left j _ (by rw [abs_length]; exact hj)]
  obtain ⟨mI, mn, mabs⟩ := moveFromTemp_spec hc2.inv _ _ habs2 i (by simp [abs_length]; exact hi)
  exact ⟨mI, by rw [mn]; simp [abs_length], mabs⟩

end SquidModel.SBuf
