/-
The two allocation policies the check runs with, and the proof that they satisfy what the theorems assume
about memAllocBuf (`AllocOk`).
-/
import SquidModel.SBuf.Inv

namespace SquidModel.SBuf

/-- the unit-test stub: exactly what was asked for -/
def exactAlloc : Cfg := ⟨id⟩

/-- squid's memAllocBuf: rounded up to the size classes of memFindBufSizeType() (Gen.SBufConsts.classes),
    exact above the largest class -/
def classAllocFn (n : Nat) : Nat :=
  match Gen.SBufConsts.classes.find? (fun p => n ≤ p.1) with
  | some p => p.2
  | none => n

def classAlloc : Cfg := ⟨classAllocFn⟩

theorem exactAlloc_ok : AllocOk exactAlloc := ⟨fun _ => Nat.le_refl _, fun _ h => h⟩

/-- every class serves requests up to its threshold and stays below maxSize (re-decided when the table is regenerated) -/
theorem classes_sound : ∀ p ∈ Gen.SBufConsts.classes, p.1 ≤ p.2 ∧ p.2 ≤ maxSize := by decide

theorem classAlloc_ok : AllocOk classAlloc := by
  constructor
  · intro n
    show n ≤ classAllocFn n
    unfold classAllocFn
    cases hf : Gen.SBufConsts.classes.find? (fun p => n ≤ p.1) with
    | none => exact Nat.le_refl _
    | some p =>
      have hmem := List.mem_of_find?_eq_some hf
      have hp := List.find?_some hf
      simp only [decide_eq_true_eq] at hp
      have := (classes_sound p hmem).1
      exact Nat.le_trans hp this
  · intro n hn
    show classAllocFn n ≤ maxSize
    unfold classAllocFn
    cases hf : Gen.SBufConsts.classes.find? (fun p => n ≤ p.1) with
    | none => exact hn
    | some p => exact (classes_sound p (List.mem_of_find?_eq_some hf)).2

end SquidModel.SBuf
