/-
One step of the heap model simulates one step on independent values (everything except the three byte-wise
loops trim / toLower / toUpper, which are in SimLoops.lean).
-/
import SquidModel.SBuf.Mutate
set_option linter.unusedSimpArgs false
set_option linter.unusedVariables false

namespace SquidModel.SBuf
open Heap

/-- what one step must establish -/
def StepOk (c : Cfg) (h : Heap) (op : Op) : Prop :=
  ∃ h' r, (step c h op = .ok (h', r) ∨ (step c h op = .thrown h' ∧ r = .thrown)) ∧
    Inv h' ∧ h'.views.length = h.views.length ∧ abs h' = (Spec.step (abs h) op).1 ∧
    sameRes op r (Spec.step (abs h) op).2

theorem getlen (hI : Inv h) (i : Nat) (hi : i < h.views.length) : (Spec.get (abs h) i).length = (h.view i).len := by
  rw [get_abs h i hi]; exact bytesOf_length hI _ (view_mem h i hi)

theorem unitOut_ok (h' : Heap) : unitOut (.ok h') = .ok (h', .unit) := rfl
theorem unitOut_thrown (h' : Heap) : unitOut (.thrown h') = .thrown h' := rfl

/-- the raw area of object `j` requested by assignRaw/appendRaw, and the bytes it holds -/
theorem rawArea_ok (hI : Inv h) (j : Nat) (hj : j < h.views.length) (p n : Nat) :
    SrcOk h (rawArea h j p n) (Spec.area (bytesOf h (h.view j)) p n) ∧
    (Spec.area (bytesOf h (h.view j)) p n).length ≤ (h.view j).len := by
  have hv := hI.view j hj
  have hlen := bytesOf_length hI _ (view_mem h j hj)
  unfold rawArea Spec.area
  simp only [SrcOk]
  rw [hlen]
  have hl : (List.take (min n ((h.view j).len - min p (h.view j).len)) (List.drop (min p (h.view j).len) (bytesOf h (h.view j)))).length
      = min n ((h.view j).len - min p (h.view j).len) := by
    rw [List.length_take, List.length_drop, hlen]; omega
  refine ⟨⟨hl, fun _ => ⟨hv.1, by have := hv.2; omega, ?_⟩⟩, by rw [hl]; omega⟩
  unfold bytesOf
  exact (take_drop_drop_take _ _ _ _ _ (by omega)).symm

theorem sets_to_step (hs : Sets h h' i x) (hspec : (Spec.step (abs h) op).1 = (abs h).set i x) (hr : sameRes op r (Spec.step (abs h) op).2)
    (heq : step c h op = .ok (h', r)) : StepOk c h op :=
  ⟨h', r, Or.inl heq, hs.inv, hs.nviews, by rw [hs.abs, hspec], hr⟩

theorem kept_to_step_ok (hk : Kept h h') (hspec : (Spec.step (abs h) op).1 = abs h) (hr : sameRes op r (Spec.step (abs h) op).2)
    (heq : step c h op = .ok (h', r)) : StepOk c h op :=
  ⟨h', r, Or.inl heq, hk.inv, hk.nviews, by rw [hk.abs, hspec], hr⟩

theorem kept_to_step_thrown (hk : Kept h h') (hspec : (Spec.step (abs h) op).1 = abs h) (hr : sameRes op .thrown (Spec.step (abs h) op).2)
    (heq : step c h op = .thrown h') : StepOk c h op :=
  ⟨h', .thrown, Or.inr ⟨heq, rfl⟩, hk.inv, hk.nviews, by rw [hk.abs, hspec], hr⟩

/-- append-like operations on independent values -/
theorem spec_append_ok (vals : Vals) (i : Nat) (b : Bytes) (hfit : (Spec.get vals i).length + b.length ≤ maxSize) :
    Spec.append vals i b = (vals.set i (Spec.get vals i ++ b), .unit) := by
  unfold Spec.append; rw [if_neg (by omega)]

theorem spec_append_thrown (vals : Vals) (i : Nat) (b : Bytes) (hbig : maxSize < (Spec.get vals i).length + b.length) :
    Spec.append vals i b = (vals, .thrown) := by
  unfold Spec.append; rw [if_pos hbig]

theorem query1_ok (hI : Inv h) (i : Nat) (hi : i < h.views.length) (f : Bytes → Res) :
    query1 h i f = .ok (h, f (Spec.get (abs h) i)) := by
  unfold query1; rw [hI.contents i hi, get_abs h i hi]

theorem query2_ok (hI : Inv h) (i j : Nat) (hi : i < h.views.length) (hj : j < h.views.length) (f : Bytes → Bytes → Res) :
    query2 h i j f = .ok (h, f (Spec.get (abs h) i) (Spec.get (abs h) j)) := by
  unfold query2; rw [hI.contents i hi, hI.contents j hj, get_abs h i hi, get_abs h j hj]

theorem stepOk_query (hI : Inv h) (op : Op) (r : Res) (heq : step c h op = .ok (h, r))
    (hspec : Spec.step (abs h) op = (abs h, r)) (hnr : ∀ a b d e f, op ≠ .reserve a b d e f) : StepOk c h op := by
  refine ⟨h, r, Or.inl heq, hI, rfl, by rw [hspec], ?_⟩
  rw [hspec]
  cases op <;> first | rfl | exact absurd rfl (hnr _ _ _ _ _)

end SquidModel.SBuf
