/-
The reference semantics of property C48: the same operations applied to INDEPENDENT values
(`List Bytes`, one byte list per object; nothing is shared, so an operation on object `i` can only change
entry `i`).  Written in the style of std::string: positions and counts are capped to what exists,
requests that would exceed `maxSize` throw and leave every value as it was.
-/
import SquidModel.SBuf.Ops

namespace SquidModel.SBuf

abbrev Vals := List Bytes

namespace Spec

def get (vals : Vals) (i : Nat) : Bytes := vals.getD i []

/-- std::string::substr with squid's conventions: `pos` past the end (or npos) means the end, `n` is capped -/
def sub (a : Bytes) (pos n : Nat) : Bytes :=
  let pos := if pos = npos ∨ pos > a.length then a.length else pos
  let n := if n = npos ∨ pos + n > a.length then a.length - pos else n
  (a.drop pos).take n

/-- the part of `a` named by a raw area request (`rawContent()+p`, `n` bytes), clamped into `a` -/
def area (a : Bytes) (p n : Nat) : Bytes := (a.drop (min p a.length)).take (min n (a.length - min p a.length))

/-- append `b` to entry `i`, refusing to exceed maxSize -/
def append (vals : Vals) (i : Nat) (b : Bytes) : Vals × Res :=
  if (get vals i).length + b.length > maxSize then (vals, .thrown)
  else (vals.set i (get vals i ++ b), .unit)

def trimEnd (a set : Bytes) : Bytes := (a.reverse.dropWhile fun ch => set.contains ch).reverse
def trimBegin (a set : Bytes) : Bytes := a.dropWhile fun ch => set.contains ch

def step (vals : Vals) : Op → Vals × Res
  | .fresh i => (vals.set i [], .unit)
  | .assign i j => (vals.set i (get vals j), .unit)
  | .assignBytes i b => (vals.set i b, .unit)
  | .assignRaw i j p n => (vals.set i (area (get vals j) p n), .unit)
  | .appendBytes i b => append vals i b
  | .appendS i j => append vals i (get vals j)
  | .appendRaw i j p n => append vals i (area (get vals j) p n)
  | .pushBack i ch => append vals i [ch]
  | .clear i => (vals.set i [], .unit)
  | .chop i pos n => (vals.set i (sub (get vals i) pos n), .unit)
  | .substr i j pos n => (vals.set i (sub (get vals j) pos n), .unit)
  | .consume i j n =>
    let a := get vals j
    let n := if n = npos then a.length else min n a.length
    ((vals.set j (a.drop n)).set i (a.take n), .unit)
  | .trim i j atBeginning atEnd =>
    let set := get vals j
    let a := get vals i
    let a := if atEnd then trimEnd a set else a
    let a := if atBeginning then trimBegin a set else a
    (vals.set i a, .unit)
  | .setAt i pos ch =>
    if pos < (get vals i).length then (vals.set i ((get vals i).set pos ch), .unit) else (vals, .thrown)
  | .toLower i => (vals.set i ((get vals i).map toLowerByte), .unit)
  | .toUpper i => (vals.set i ((get vals i).map toUpperByte), .unit)
  | .cStr i =>
    if (get vals i).length + 1 > maxSize then (vals, .thrown) else (vals, .bytes (get vals i ++ [0]))
  | .reserveSpace i n =>
    if n > maxSize ∨ (get vals i).length + n > maxSize then (vals, .thrown) else (vals, .unit)
  | .reserveCapacity _ n => if n > maxSize then (vals, .thrown) else (vals, .unit)
  | .reserve _ _ _ _ _ => (vals, .nat 0)          -- the number returned is storage detail: see `sameRes`
  | .rawAppend i n b =>
    if (get vals i).length + n > maxSize then (vals, .thrown) else (vals.set i (get vals i ++ b), .unit)
  | .appendf i _ out => append vals i out
  | .printf i _ out => (vals.set i out, .unit)
  | .appendfS i j => append vals i (untilNul (get vals j))
  | .printfS i j => (vals.set i (untilNul (get vals j)), .unit)
  | .length i => (vals, .nat (get vals i).length)
  | .at i pos => match atPos (get vals i) pos with
    | some ch => (vals, .nat ch.toNat)
    | none => (vals, .thrown)
  | .compare i j ci n => (vals, .int (compareS (get vals i) (get vals j) ci n))
  | .equal i j => (vals, .bool (equal (get vals i) (get vals j)))
  | .startsWith i j ci => (vals, .bool (startsWith (get vals i) (get vals j) ci))
  | .findChar i ch pos => (vals, .nat (findChar (get vals i) ch pos))
  | .findS i j pos => (vals, .nat (findS (get vals i) (get vals j) pos))
  | .rfindChar i ch pos => (vals, .nat (rfindChar (get vals i) ch pos))
  | .rfindS i j pos => (vals, .nat (rfindS (get vals i) (get vals j) pos))
  | .findFirstOf i set pos => (vals, .nat (findFirstOf (get vals i) set pos))
  | .findFirstNotOf i set pos => (vals, .nat (findFirstNotOf (get vals i) set pos))
  | .findLastOf i set pos => (vals, .nat (findLastOf (get vals i) set pos))
  | .findLastNotOf i set pos => (vals, .nat (findLastNotOf (get vals i) set pos))
  | .copy i n => (vals, .bytes (copyOut (get vals i) n))
  | .compareC i s ci n => (vals, .int (compareC (get vals i) s ci n))

def run (vals : Vals) : List Op → Vals × List Res
  | [] => (vals, [])
  | op :: ops =>
    let (v1, r) := step vals op
    let (vf, rs) := run v1 ops
    (vf, r :: rs)

end Spec

/-- results agree; the number SBuf::reserve() returns (free space of the blob) has no counterpart on values -/
def sameRes : Op → Res → Res → Prop
  | .reserve _ _ _ _ _, r, _ => ∃ n, r = .nat n
  | _, r, rs => r = rs

/-- The argument regions in which the real code (as pinned) does NOT behave like independent values, and the
    arguments the line protocol cannot express; `run_refines` assumes an operation is outside them.
    `vals` are the independent values before the operation. -/
def Safe (vals : Vals) : Op → Prop
  | .chop i pos n =>
    pos < W ∧ n < W ∧
    (Gen.SBufConsts.chopSumWraps = true → n = npos ∨ (if pos = npos ∨ pos > (Spec.get vals i).length then (Spec.get vals i).length else pos) + n < W)
  | .substr _ j pos n =>
    pos < W ∧ n < W ∧
    (Gen.SBufConsts.chopSumWraps = true → n = npos ∨ (if pos = npos ∨ pos > (Spec.get vals j).length then (Spec.get vals j).length else pos) + n < W)
  | .consume _ _ n => n < W
  | .rawAppend i n b =>
    b.length ≤ n ∧ n < W ∧
    (Gen.SBufConsts.finishAssignsSize = true → n ≠ 0) ∧
    (Gen.SBufConsts.rawSpaceDiffWraps = true → (Spec.get vals i).length + n < npos)
  | .appendBytes i b => (Spec.get vals i).length + b.length < npos
  | .assignBytes _ b => b.length ≤ maxSize      -- (a longer foreign area makes assign() throw after it has cleared the object)
  | .reserveSpace _ n => n < W
  | .reserveCapacity _ n => n < W
  | .reserve _ ideal mn mx _ => ideal < W ∧ mn < W ∧ mx < W
  -- the printf family is outside the statement of C48 (no std::string counterpart): differential run only
  | .appendf _ _ _ | .printf _ _ _ | .appendfS _ _ | .printfS _ _ => False
  | _ => True

end SquidModel.SBuf
