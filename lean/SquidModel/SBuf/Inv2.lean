/-
Invariant preservation, continued: re-pointing an object to another blob (RefCount assignment), adding a
blob, pushing and popping temporaries.
-/
import SquidModel.SBuf.Inv
set_option linter.unusedSimpArgs false
set_option linter.unusedVariables false

namespace SquidModel.SBuf
open Heap

namespace Heap
@[simp] theorem views_setView (h : Heap) (i : Nat) (v : View) : (h.setView i v).views = h.views.set i v := rfl
@[simp] theorem views_retain (h : Heap) (b : Nat) : (h.retain b).views = h.views := rfl
@[simp] theorem views_release (h : Heap) (b : Nat) : (h.release b).views = h.views := rfl
@[simp] theorem blobs_length_retain (h : Heap) (b : Nat) : (h.retain b).blobs.length = h.blobs.length := by
  simp [retain]
@[simp] theorem blobs_length_release (h : Heap) (b : Nat) : (h.release b).blobs.length = h.blobs.length := by
  simp [release]

theorem blob_retain (h : Heap) (b k : Nat) (hb : b < h.blobs.length) :
    (h.retain b).blob k = if b = k then { h.blob k with refs := (h.blob k).refs + 1 } else h.blob k := by
  unfold retain
  rw [blob_setBlob _ _ _ _ hb]
  by_cases e : b = k
  · subst e; simp
  · simp [e]

theorem blob_release (h : Heap) (b k : Nat) (hb : b < h.blobs.length) :
    (h.release b).blob k = if b = k then { h.blob k with refs := (h.blob k).refs - 1 } else h.blob k := by
  unfold release
  rw [blob_setBlob _ _ _ _ hb]
  by_cases e : b = k
  · subst e; simp
  · simp [e]

/-- lock-new-then-unlock-old changes lock counts only -/
theorem blob_retain_release (h : Heap) (b old k : Nat) (hb : b < h.blobs.length) (ho : old < h.blobs.length) :
    ((h.retain b).release old).blob k =
      { h.blob k with refs := (h.blob k).refs + (if b = k then 1 else 0) - (if old = k then 1 else 0) } := by
  rw [blob_release _ _ _ (by simpa using ho)]
  by_cases e1 : old = k
  · subst e1
    rw [if_pos rfl, blob_retain _ _ _ hb]
    by_cases e2 : b = old
    · subst e2; simp
    · simp [e2]
  · rw [if_neg e1, blob_retain _ _ _ hb]
    by_cases e2 : b = k
    · subst e2; simp [e1]
    · simp [e1, e2]

theorem views_setStore_setView (h : Heap) (i b : Nat) (v : View) :
    ((h.setStore i b).setView i v).views = h.views.set i v := by
  simp [setStore, List.set_set]

theorem blob_setStore_setView (h : Heap) (i b : Nat) (v : View) (k : Nat) :
    ((h.setStore i b).setView i v).blob k = ((h.retain b).release (h.view i).blob).blob k := rfl

theorem blobs_length_setStore_setView (h : Heap) (i b : Nat) (v : View) :
    ((h.setStore i b).setView i v).blobs.length = h.blobs.length := by
  simp [setStore]

end Heap

/-- `store_ = p; off_ = ..; len_ = ..`: object `i` now denotes the area `v` (of any existing blob) -/
theorem Inv.repoint (hI : Inv h) (i : Nat) (hi : i < h.views.length) (v : View)
    (hvb : v.blob < h.blobs.length) (hr : v.off + v.len ≤ (h.blob v.blob).size) :
    Inv ((h.setStore i v.blob).setView i v) ∧
    abs ((h.setStore i v.blob).setView i v) = (abs h).set i (bytesOf h v) ∧
    (∀ k, (((h.setStore i v.blob).setView i v).blob k).data = (h.blob k).data ∧
          (((h.setStore i v.blob).setView i v).blob k).cap = (h.blob k).cap ∧
          (((h.setStore i v.blob).setView i v).blob k).refs =
            (h.blob k).refs + (if v.blob = k then 1 else 0) - (if (h.view i).blob = k then 1 else 0)) := by
  have hold := (hI.view i hi).1
  have hblob : ∀ k, ((h.setStore i v.blob).setView i v).blob k =
      { h.blob k with refs := (h.blob k).refs + (if v.blob = k then 1 else 0) - (if (h.view i).blob = k then 1 else 0) } := by
    intro k
    rw [Heap.blob_setStore_setView, Heap.blob_retain_release _ _ _ _ hvb hold]
  have hdata : ∀ k, (((h.setStore i v.blob).setView i v).blob k).data = (h.blob k).data ∧
      (((h.setStore i v.blob).setView i v).blob k).cap = (h.blob k).cap := by
    intro k; rw [hblob k]; exact ⟨rfl, rfl⟩
  refine ⟨⟨?_, ?_, ?_, ?_⟩, ?_, fun k => ⟨(hdata k).1, (hdata k).2, by rw [hblob k]⟩⟩
  · rw [Heap.blobs_length_setStore_setView]; exact hI.proto
  · intro w hw
    rw [Heap.views_setStore_setView] at hw
    rw [Heap.blobs_length_setStore_setView]
    have hsz : (((h.setStore i v.blob).setView i v).blob w.blob).size = (h.blob w.blob).size := by
      simp only [Blob.size, (hdata w.blob).1]
    rw [hsz]
    rcases List.mem_or_eq_of_mem_set hw with hw | hw
    · exact hI.vw w hw
    · subst hw; exact ⟨hvb, hr⟩
  · intro k hk
    rw [Heap.blobs_length_setStore_setView] at hk
    have := hI.bl k hk
    simp only [Blob.size, (hdata k).1, (hdata k).2]
    exact this
  · intro k hk
    rw [Heap.blobs_length_setStore_setView] at hk
    rw [Heap.views_setStore_setView, hblob k, List.countP_set hi]
    have hrc := hI.rc k hk
    have hpos : (h.view i).blob = k → 0 < h.views.countP (fun w => w.blob == k) := by
      intro e
      exact countP_pos_of_getElem _ h.views i hi (by simp [← Heap.view_eq_getElem h i hi, e])
    rw [← Heap.view_eq_getElem h i hi]
    show (h.blob k).refs + (if v.blob = k then 1 else 0) - (if (h.view i).blob = k then 1 else 0) = _
    by_cases e1 : (h.view i).blob = k <;> by_cases e2 : v.blob = k <;> simp [e1, e2] <;> have := hpos <;> simp [e1] at this <;> omega
  · rw [abs, Heap.views_setStore_setView, List.map_set]
    have : bytesOf ((h.setStore i v.blob).setView i v) = bytesOf h := by
      funext w; simp only [bytesOf, (hdata w.blob).1]
    rw [this]
    rfl

/-- `new MemBlob(..)`: a blob nobody references yet -/
theorem Inv.pushBlob (hI : Inv h) (x : Blob) (h1 : x.size ≤ x.cap) (h2 : x.cap ≤ maxSize) (h3 : x.refs = 0) :
    Inv { h with blobs := h.blobs ++ [x] } ∧ abs ({ h with blobs := h.blobs ++ [x] } : Heap) = abs h := by
  constructor
  · refine ⟨by simp, ?_, ?_, ?_⟩
    · intro v hv
      have hv' := hI.vw v hv
      have hv1 := hv'.1
      refine ⟨by simp; omega, ?_⟩
      rw [Heap.blob_append_old h x v.blob hv'.1]; exact hv'.2
    · intro k hk
      simp at hk
      by_cases e : k < h.blobs.length
      · rw [Heap.blob_append_old h x k e]; exact hI.bl k e
      · have : k = h.blobs.length := by omega
        subst this; rw [Heap.blob_append_new]; exact ⟨h1, h2⟩
    · intro k hk
      simp at hk
      by_cases e : k < h.blobs.length
      · rw [Heap.blob_append_old h x k e]; exact hI.rc k e
      · have : k = h.blobs.length := by omega
        subst this; rw [Heap.blob_append_new, h3]
        have hz : h.views.countP (fun v => v.blob == h.blobs.length) = 0 := by
          apply List.countP_eq_zero.mpr
          intro v hv
          have := (hI.vw v hv).1
          simp; omega
        have hp := hI.proto
        have hne : h.blobs.length ≠ 0 := by omega
        show 0 = h.views.countP (fun v => v.blob == h.blobs.length) + _
        rw [hz, if_neg hne]
  · simp only [abs]
    apply List.map_congr_left
    intro v hv
    simp only [bytesOf]
    rw [Heap.blob_append_old h x v.blob (hI.vw v hv).1]

/-- a temporary copy / Locker comes to life -/
theorem Inv.pushView (hI : Inv h) (v : View) (hvb : v.blob < h.blobs.length) (hr : v.off + v.len ≤ (h.blob v.blob).size) :
    Inv (h.pushView v) ∧ abs (h.pushView v) = abs h ++ [bytesOf h v] ∧ (h.pushView v).views = h.views ++ [v] ∧
    (∀ k, ((h.pushView v).blob k).data = (h.blob k).data ∧ ((h.pushView v).blob k).cap = (h.blob k).cap) ∧
    (∀ k, ((h.pushView v).blob k).refs = (h.blob k).refs + (if v.blob = k then 1 else 0)) := by
  have hblob : ∀ k, (h.pushView v).blob k = if v.blob = k then { h.blob k with refs := (h.blob k).refs + 1 } else h.blob k := by
    intro k
    show (h.retain v.blob).blob k = _
    exact Heap.blob_retain h v.blob k hvb
  have hdata : ∀ k, ((h.pushView v).blob k).data = (h.blob k).data ∧ ((h.pushView v).blob k).cap = (h.blob k).cap := by
    intro k; rw [hblob k]; by_cases e : v.blob = k <;> simp [e]
  have hrefs : ∀ k, ((h.pushView v).blob k).refs = (h.blob k).refs + (if v.blob = k then 1 else 0) := by
    intro k; rw [hblob k]; by_cases e : v.blob = k <;> simp [e]
  have hlen : (h.pushView v).blobs.length = h.blobs.length := by
    show (h.retain v.blob).blobs.length = _; simp
  have hviews : (h.pushView v).views = h.views ++ [v] := rfl
  refine ⟨⟨?_, ?_, ?_, ?_⟩, ?_, hviews, hdata, hrefs⟩
  · rw [hlen]; exact hI.proto
  · intro w hw
    rw [hviews] at hw
    rw [hlen]
    have hsz : ((h.pushView v).blob w.blob).size = (h.blob w.blob).size := by simp only [Blob.size, (hdata w.blob).1]
    rw [hsz]
    rcases List.mem_append.mp hw with hw | hw
    · exact hI.vw w hw
    · simp at hw; subst hw; exact ⟨hvb, hr⟩
  · intro k hk
    rw [hlen] at hk
    simp only [Blob.size, (hdata k).1, (hdata k).2]
    exact hI.bl k hk
  · intro k hk
    rw [hlen] at hk
    rw [hrefs k, hviews, List.countP_append, hI.rc k hk]
    by_cases e : v.blob = k <;> simp [e] <;> omega
  · rw [abs, hviews, List.map_append]
    have : bytesOf (h.pushView v) = bytesOf h := by
      funext w; simp only [bytesOf, (hdata w.blob).1]
    rw [this]
    rfl

/-- the most recent temporary dies -/
theorem Inv.popView (hI : Inv h) (vs : List View) (vt : View) (hv : h.views = vs ++ [vt]) :
    Inv h.popView ∧ abs h.popView = (abs h).dropLast ∧ h.popView.views = vs ∧
    (∀ k, (h.popView.blob k).data = (h.blob k).data ∧ (h.popView.blob k).cap = (h.blob k).cap) := by
  have hvt : h.view (h.views.length - 1) = vt := by
    simp [Heap.view, List.getD_eq_getElem?_getD, hv]
  have hmem : vt ∈ h.views := by rw [hv]; simp
  have hvb := (hI.vw vt hmem).1
  have hblob : ∀ k, h.popView.blob k = if vt.blob = k then { h.blob k with refs := (h.blob k).refs - 1 } else h.blob k := by
    intro k
    show (h.release (h.view (h.views.length - 1)).blob).blob k = _
    rw [hvt]; exact Heap.blob_release h vt.blob k hvb
  have hdata : ∀ k, (h.popView.blob k).data = (h.blob k).data ∧ (h.popView.blob k).cap = (h.blob k).cap := by
    intro k; rw [hblob k]; by_cases e : vt.blob = k <;> simp [e]
  have hlen : h.popView.blobs.length = h.blobs.length := by
    show (h.release _).blobs.length = _; simp
  have hviews : h.popView.views = vs := by
    show h.views.dropLast = vs
    rw [hv, List.dropLast_concat]
  refine ⟨⟨?_, ?_, ?_, ?_⟩, ?_, hviews, hdata⟩
  · rw [hlen]; exact hI.proto
  · intro w hw
    rw [hviews] at hw
    rw [hlen]
    have hsz : (h.popView.blob w.blob).size = (h.blob w.blob).size := by simp only [Blob.size, (hdata w.blob).1]
    rw [hsz]
    exact hI.vw w (by rw [hv]; exact List.mem_append_left _ hw)
  · intro k hk
    rw [hlen] at hk
    simp only [Blob.size, (hdata k).1, (hdata k).2]
    exact hI.bl k hk
  · intro k hk
    rw [hlen] at hk
    have hrc := hI.rc k hk
    rw [hv, List.countP_append] at hrc
    rw [hviews, hblob k]
    by_cases e : vt.blob = k <;> simp [e] at hrc ⊢ <;> omega
  · rw [abs, hviews, abs, hv, List.map_append, List.map_cons, List.map_nil, List.dropLast_concat]
    apply List.map_congr_left
    intro w _
    simp only [bytesOf, (hdata w.blob).1]

end SquidModel.SBuf
