/-
clear() and the append family: lowAppend, Locker, append(const char*, n), assign(const char*, n), append(const SBuf&).
-/
import SquidModel.SBuf.Storage3
set_option linter.unusedSimpArgs false
set_option linter.unusedVariables false

namespace SquidModel.SBuf
open Heap

/-! ### clear -/

theorem clear_spec (hI : Inv h) (i : Nat) (hi : i < h.views.length) :
    Inv (clear h i) ∧ (clear h i).views.length = h.views.length ∧ abs (clear h i) = (abs h).set i [] ∧
    (clear h i).view i = ⟨(h.view i).blob, 0, 0⟩ ∧ (clear h i).blobs.length = h.blobs.length ∧
    (∀ b, (b ≠ (h.view i).blob ∨ h.lockCount b ≠ 1) → (clear h i).blob b = h.blob b) ∧
    (∀ b, ((clear h i).blob b).refs = (h.blob b).refs ∧ ((clear h i).blob b).cap = (h.blob b).cap) := by
  have hv := hI.view i hi
  unfold clear
  simp only []
  by_cases h1 : h.lockCount (h.view i).blob = 1
  · rw [if_pos h1]
    have hrw := hI.rewriteExclusive i hi h1 [] { h.view i with off := 0, len := 0 } rfl (by simp) (by simp)
    have hsame := Heap.blob_setBlob_same h (h.view i).blob { h.blob (h.view i).blob with data := [] } hv.1
    refine ⟨hrw.1, by simp, ?_, ?_, by simp, ?_, ?_⟩
    · rw [hrw.2]; rfl
    · rw [Heap.view_setView_same _ _ _ (by simpa using hi)]
    · intro b hb
      show (h.setBlob _ _).blob b = _
      rcases hb with hb | hb
      · exact Heap.blob_setBlob_ne _ _ _ _ (Ne.symm hb)
      · by_cases e : b = (h.view i).blob
        · subst e; exact absurd h1 hb
        · exact Heap.blob_setBlob_ne _ _ _ _ (Ne.symm e)
    · intro b
      show ((h.setBlob _ _).blob b).refs = _ ∧ ((h.setBlob _ _).blob b).cap = _
      by_cases e : (h.view i).blob = b
      · subst e; rw [hsame]; exact ⟨rfl, rfl⟩
      · rw [Heap.blob_setBlob_ne _ _ _ _ e]; exact ⟨rfl, rfl⟩
  · rw [if_neg h1]
    have hs := hI.setView_sameBlob i hi { h.view i with off := 0, len := 0 } rfl (by show 0 + 0 ≤ _; omega)
    refine ⟨hs, by simp, ?_, ?_, rfl, fun _ _ => rfl, fun _ => ⟨rfl, rfl⟩⟩
    · rw [abs_setView]; simp [bytesOf]
    · rw [Heap.view_setView_same _ _ _ hi]

/-! ### sources -/

/-- `bytes` is what the area `src` holds in state `h` (and the area is inside the used part of its blob) -/
def SrcOk (h : Heap) (src : Src) (bytes : Bytes) : Prop :=
  match src with
  | .ext b => bytes = b
  | .mem sb so n => bytes.length = n ∧
      (n ≠ 0 → sb < h.blobs.length ∧ so + n ≤ (h.blob sb).size ∧ bytes = ((h.blob sb).data.drop so).take n)

/-- the area cannot be rewritten by storage management on behalf of object `i` -/
def SrcSafe (h : Heap) (i : Nat) (src : Src) : Prop :=
  match src with
  | .ext _ => True
  | .mem sb _ n => n ≠ 0 → (sb ≠ (h.view i).blob ∨ h.lockCount sb ≠ 1)

theorem SrcOk.size (hs : SrcOk h src bytes) : src.size = bytes.length := by
  cases src with
  | ext b => simp only [SrcOk] at hs; rw [hs]; rfl
  | mem sb so n => simp only [SrcOk] at hs; rw [hs.1]; rfl

theorem SrcOk.fetch_of_frame (hs : SrcOk h src bytes)
    (hfr : ∀ sb so n, src = .mem sb so n → n ≠ 0 → (h'.blob sb).data = (h.blob sb).data) :
    src.fetch h' = some bytes := by
  cases src with
  | ext b => simp only [SrcOk] at hs; rw [hs]; rfl
  | mem sb so n =>
    simp only [SrcOk] at hs
    simp only [Src.fetch]
    by_cases hn : n = 0
    · rw [if_pos hn]
      have : bytes = [] := List.eq_nil_of_length_eq_zero (by rw [hs.1, hn])
      rw [this]
    · rw [if_neg hn]
      obtain ⟨h1, h2, h3⟩ := hs.2 hn
      have hd := hfr sb so n rfl hn
      simp only [Heap.read, Blob.size, hd]
      simp only [Blob.size] at h2
      rw [if_pos h2, h3]

/-! ### lowAppend -/

theorem drop_append_take {α : Type} (l ys : List α) (off len : Nat) (he : off + len = l.length) :
    ((l ++ ys).drop off).take (len + ys.length) = (l.drop off).take len ++ ys := by
  rw [List.drop_append_of_le_length (by omega)]
  have hl : (l.drop off).length = len := by rw [List.length_drop]; omega
  rw [List.take_of_length_le (by rw [List.length_append, hl]; exact Nat.le_refl _)]
  rw [List.take_of_length_le (by rw [hl]; exact Nat.le_refl _)]

theorem lowAppend_ok (hc : AllocOk c) (hI : Inv h) (i : Nat) (hi : i < h.views.length) (src : Src) (bytes : Bytes)
    (hs : SrcOk h src bytes) (hsafe : SrcSafe h i src) (hfit : (h.view i).len + bytes.length ≤ maxSize) :
    ∃ h', lowAppend c h i src = .ok h' ∧ Inv h' ∧ h'.views.length = h.views.length ∧
      abs h' = (abs h).set i (bytesOf h (h.view i) ++ bytes) := by
  have hsz := hs.size
  unfold lowAppend
  rw [hsz]
  obtain ⟨h1, h1eq, h1m, h1t, h1r⟩ := rawSpace_ok hc hI i hi bytes.length hfit
  rw [h1eq, Out.ok_bind]
  have hfetch : src.fetch h1 = some bytes := by
    apply hs.fetch_of_frame
    intro sb so n e hn
    subst e
    simp only [SrcOk] at hs
    simp only [SrcSafe] at hsafe
    exact h1m.frame sb (hs.2 hn).1 (hsafe hn)
  rw [hfetch]
  simp only []
  have hi1 : i < h1.views.length := by rw [h1m.nviews]; exact hi
  have hv1 := h1m.inv.view i hi1
  have hb1 : bytesOf h1 (h1.view i) = bytesOf h (h.view i) := by
    have e1 := get_abs h1 i hi1
    have e2 := get_abs h i hi
    rw [← e1, ← e2, h1m.abs]
  by_cases hn : bytes.length = 0
  · have hnil : bytes = [] := List.eq_nil_of_length_eq_zero hn
    unfold blobAppend
    rw [if_pos hn, Out.ok_bind]
    refine ⟨_, rfl, ?_, ?_, ?_⟩
    · rw [hn]; show Inv (h1.setView i (h1.view i)); rw [Heap.setView_self h1 i hi1]; exact h1m.inv
    · simp [h1m.nviews]
    · rw [hn]; show abs (h1.setView i (h1.view i)) = _
      rw [Heap.setView_self h1 i hi1, h1m.abs, hnil, List.append_nil, abs_set_self h i hi]
  · have ht := h1t hn
    unfold AtTail at ht
    unfold roomOf at h1r
    have hfits : bytes.length ≤ (h1.blob (h1.view i).blob).spaceSize := by
      unfold Blob.spaceSize; rw [← ht]; exact h1r
    unfold blobAppend
    rw [if_neg hn, if_pos hfits, Out.ok_bind]
    have hap := h1m.inv.blobAppend (h1.view i).blob hv1.1 bytes (by
      have := (h1m.inv.bl _ hv1.1).1
      unfold Blob.spaceSize at hfits; omega)
    have hsame := Heap.blob_setBlob_same h1 (h1.view i).blob
      { h1.blob (h1.view i).blob with data := (h1.blob (h1.view i).blob).data ++ bytes } hv1.1
    have hsv := hap.1.setView_sameBlob i (by simpa using hi1) { h1.view i with len := (h1.view i).len + bytes.length } rfl (by
      show (h1.view i).off + ((h1.view i).len + bytes.length) ≤ ((h1.setBlob _ _).blob (h1.view i).blob).size
      rw [hsame]; simp only [Blob.size, List.length_append]; simp only [Blob.size] at ht; omega)
    refine ⟨_, rfl, hsv, by simp [h1m.nviews], ?_⟩
    rw [abs_setView, hap.2, h1m.abs]
    congr 1
    show List.take ((h1.view i).len + bytes.length) (List.drop (h1.view i).off ((h1.setBlob _ _).blob (h1.view i).blob).data) = _
    rw [hsame]
    show List.take ((h1.view i).len + bytes.length) (List.drop (h1.view i).off ((h1.blob (h1.view i).blob).data ++ bytes)) = _
    rw [drop_append_take _ _ _ _ (by simp only [Blob.size] at ht; exact ht)]
    rw [← hb1]; rfl

theorem lowAppend_thrown (hI : Inv h) (i : Nat) (hi : i < h.views.length) (src : Src) (bytes : Bytes)
    (hs : SrcOk h src bytes) (hnW : bytes.length < W)
    (hwrap : Gen.SBufConsts.rawSpaceDiffWraps = true → (h.view i).len + bytes.length < npos)
    (hbig : maxSize < (h.view i).len + bytes.length) :
    ∃ h', lowAppend c h i src = .thrown h' ∧ Kept h h' := by
  unfold lowAppend
  rw [hs.size]
  obtain ⟨h1, h1eq, hk⟩ := rawSpace_thrown (c := c) hI i hi bytes.length hnW hwrap hbig
  rw [h1eq]
  exact ⟨h1, rfl, hk⟩

end SquidModel.SBuf
