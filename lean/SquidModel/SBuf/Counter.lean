/-
Observation functions for concrete histories, used by the counterexample theorems of Properties/C48.
-/
import SquidModel.SBuf.Sim3
import SquidModel.SBuf.Alloc

namespace SquidModel.SBuf

/-- what every object holds after the history from the initial state (`none` inside: the object's area left the
    used part of its blob; `none` outside: the model met undefined behaviour) -/
def observe (c : Cfg) (k : Nat) (ops : List Op) : Option (List (Option Bytes)) :=
  (run c (Heap.init c k) ops).map fun p => (List.range k).map p.1.contents

/-- the results of the calls of the history -/
def resultsOf (c : Cfg) (k : Nat) (ops : List Op) : Option (List Res) :=
  (run c (Heap.init c k) ops).map fun p => p.2

/-- an allocator that always leaves 26 spare bytes (any policy with free space behind the data shows the
    empty-format defect; the exact allocator hides it) -/
def roomyAlloc : Cfg := ⟨fun n => n + 26⟩

/-- the length field of object `i` after the history -/
def lengthAfter (c : Cfg) (k : Nat) (ops : List Op) (i : Nat) : Option Nat :=
  (run c (Heap.init c k) ops).map fun p => (p.1.view i).len

end SquidModel.SBuf
