/-
The heap invariant of the SBuf model and its preservation by the primitive state changes out of which all
SBuf operations are built.  `abs` (HeapLemmas) maps a heap to the independent values it stands for; each
primitive lemma also says what the primitive does to `abs`.
-/
import SquidModel.SBuf.HeapLemmas
set_option linter.unusedSimpArgs false
set_option linter.unusedVariables false

namespace SquidModel.SBuf
open Heap

/-- * the prototype store exists (blob 0) and the static `InitialStore` pointer references it;
    * every object's area lies inside the used part of an existing blob;
    * the used part of a blob lies inside its capacity, capacities do not exceed maxSize;
    * `LockCount()` of a blob = number of objects (and live temporaries) pointing to it (+1 for blob 0) -/
structure Inv (h : Heap) : Prop where
  proto : 0 < h.blobs.length
  vw : ∀ v ∈ h.views, v.blob < h.blobs.length ∧ v.off + v.len ≤ (h.blob v.blob).size
  bl : ∀ b, b < h.blobs.length → (h.blob b).size ≤ (h.blob b).cap ∧ (h.blob b).cap ≤ maxSize
  rc : ∀ b, b < h.blobs.length → (h.blob b).refs = h.views.countP (fun v => v.blob == b) + (if b = 0 then 1 else 0)

/-- what is assumed about `memAllocBuf`: it grants at least what was asked, and no more than maxSize for
    requests up to maxSize (true of the exact allocator and of squid's size classes, whose largest class is 64 KB) -/
structure AllocOk (c : Cfg) : Prop where
  ge : ∀ n, n ≤ c.alloc n
  le : ∀ n, n ≤ maxSize → c.alloc n ≤ maxSize

theorem view_mem (h : Heap) (i : Nat) (hi : i < h.views.length) : h.view i ∈ h.views := by
  rw [Heap.view_eq_getElem h i hi]; exact List.getElem_mem _

theorem Inv.view (hI : Inv h) (i : Nat) (hi : i < h.views.length) :
    (h.view i).blob < h.blobs.length ∧ (h.view i).off + (h.view i).len ≤ (h.blob (h.view i).blob).size :=
  hI.vw _ (view_mem h i hi)

theorem Inv.len_le (hI : Inv h) (i : Nat) (hi : i < h.views.length) : (h.view i).len ≤ maxSize := by
  have h1 := hI.view i hi
  have h2 := hI.bl _ h1.1
  omega

/-- under the invariant `contents` is defined and is `bytesOf` -/
theorem Inv.contents (hI : Inv h) (i : Nat) (hi : i < h.views.length) :
    h.contents i = some (bytesOf h (h.view i)) := by
  have h1 := hI.view i hi
  simp [Heap.contents, Heap.read, bytesOf, h1.2]

theorem bytesOf_length (hI : Inv h) (v : View) (hv : v ∈ h.views) : (bytesOf h v).length = v.len := by
  have := (hI.vw v hv).2
  simp [bytesOf, Blob.size] at *
  omega

theorem take_drop_append {α : Type} (l ys : List α) (off len : Nat) (hle : off + len ≤ l.length) :
    ((l ++ ys).drop off).take len = (l.drop off).take len := by
  rw [List.drop_append_of_le_length (by omega)]
  rw [List.take_append_of_le_length (by simp; omega)]

/-! ### primitive: change off_/len_ of an object, same blob -/

theorem bytesOf_setView (h : Heap) (i : Nat) (v w : View) : bytesOf (h.setView i v) w = bytesOf h w := rfl

theorem abs_setView (h : Heap) (i : Nat) (v : View) : abs (h.setView i v) = (abs h).set i (bytesOf h v) := by
  simp [abs, Heap.setView, List.map_set]
  rfl

theorem countP_set_same {α : Type} (p : α → Bool) (l : List α) (i : Nat) (x : α) (hi : i < l.length)
    (hp : p x = p l[i]) : (l.set i x).countP p = l.countP p := by
  rw [List.countP_set hi, hp]
  by_cases q : p l[i] = true
  · have := countP_pos_of_getElem p l i hi q
    simp [q]; omega
  · simp [q]

theorem Inv.setView_sameBlob (hI : Inv h) (i : Nat) (hi : i < h.views.length) (v : View)
    (hb : v.blob = (h.view i).blob) (hr : v.off + v.len ≤ (h.blob v.blob).size) : Inv (h.setView i v) := by
  refine ⟨hI.proto, ?_, hI.bl, ?_⟩
  · intro w hw
    rcases List.mem_or_eq_of_mem_set hw with hw | hw
    · exact hI.vw w hw
    · subst hw
      exact ⟨by rw [hb]; exact (hI.view i hi).1, hr⟩
  · intro b hb'
    have := hI.rc b hb'
    simp only [Heap.blob_setView]
    rw [this]
    congr 1
    simp only [Heap.setView]
    refine (countP_set_same _ _ _ _ hi ?_).symm
    rw [← Heap.view_eq_getElem h i hi, hb]

/-! ### primitive: append bytes to the used part of a blob -/

theorem bytesOf_blobAppend (hI : Inv h) (b : Nat) (hb : b < h.blobs.length) (ys : Bytes) (v : View) (hv : v ∈ h.views) :
    bytesOf (h.setBlob b { h.blob b with data := (h.blob b).data ++ ys }) v = bytesOf h v := by
  unfold bytesOf
  by_cases e : b = v.blob
  · subst e
    simp only [Heap.blob_setBlob_same _ _ _ hb]
    apply take_drop_append
    have := (hI.vw v hv).2
    simpa [Blob.size] using this
  · simp [Heap.blob_setBlob_ne _ _ _ _ e]

theorem Inv.blobAppend (hI : Inv h) (b : Nat) (hb : b < h.blobs.length) (ys : Bytes)
    (hfit : (h.blob b).size + ys.length ≤ (h.blob b).cap) :
    Inv (h.setBlob b { h.blob b with data := (h.blob b).data ++ ys }) ∧
    abs (h.setBlob b { h.blob b with data := (h.blob b).data ++ ys }) = abs h := by
  constructor
  · refine ⟨by simpa using hI.proto, ?_, ?_, ?_⟩
    · intro v hv
      have := hI.vw v hv
      refine ⟨by simpa using this.1, ?_⟩
      by_cases e : b = v.blob
      · subst e; simp [Heap.blob_setBlob_same _ _ _ hb, Blob.size] at *; omega
      · simp [Heap.blob_setBlob_ne _ _ _ _ e]; exact this.2
    · intro k hk
      have hk' : k < h.blobs.length := by simpa using hk
      by_cases e : b = k
      · subst e
        have := hI.bl b hb
        simp [Heap.blob_setBlob_same _ _ _ hb, Blob.size] at *
        omega
      · simp [Heap.blob_setBlob_ne _ _ _ _ e]; exact hI.bl k hk'
    · intro k hk
      have hk' : k < h.blobs.length := by simpa using hk
      by_cases e : b = k
      · subst e; simp [Heap.blob_setBlob_same _ _ _ hb]; exact hI.rc b hb
      · simp [Heap.blob_setBlob_ne _ _ _ _ e]; exact hI.rc k hk'
  · simp only [abs, Heap.views_setBlob]
    apply List.map_congr_left
    intro v hv
    exact bytesOf_blobAppend hI b hb ys v hv

/-! ### primitive: rewrite a blob that a single object references -/

/-- the blob of object `i` has lock count 1 ⇒ it is not the prototype and no other object sits on it -/
theorem Inv.exclusive (hI : Inv h) (i : Nat) (hi : i < h.views.length) (h1 : h.lockCount (h.view i).blob = 1) :
    (h.view i).blob ≠ 0 ∧ ∀ k, k < h.views.length → (h.view k).blob = (h.view i).blob → k = i := by
  have hv := hI.view i hi
  have hrc := hI.rc _ hv.1
  simp only [Heap.lockCount] at h1
  have hpos : 0 < h.views.countP (fun v => v.blob == (h.view i).blob) :=
    countP_pos_of_getElem _ h.views i hi (by simp [← Heap.view_eq_getElem h i hi])
  have hne : (h.view i).blob ≠ 0 := by
    intro e; rw [e] at hrc hpos h1; simp at hrc; omega
  refine ⟨hne, ?_⟩
  intro k hk hkb
  have hcnt : h.views.countP (fun v => v.blob == (h.view i).blob) = 1 := by
    simp [hne] at hrc; omega
  exact (countP_one_unique _ h.views i k hi hk hcnt (by simp [← Heap.view_eq_getElem h i hi])
    (by simp [← Heap.view_eq_getElem h k hk, hkb])).symm

theorem Inv.rewriteExclusive (hI : Inv h) (i : Nat) (hi : i < h.views.length) (h1 : h.lockCount (h.view i).blob = 1)
    (d : Bytes) (v : View) (hb : v.blob = (h.view i).blob) (hd : d.length ≤ (h.blob v.blob).cap)
    (hr : v.off + v.len ≤ d.length) :
    Inv ((h.setBlob v.blob { h.blob v.blob with data := d }).setView i v) ∧
    abs ((h.setBlob v.blob { h.blob v.blob with data := d }).setView i v) = (abs h).set i ((d.drop v.off).take v.len) := by
  have hv := hI.view i hi
  have hex := hI.exclusive i hi h1
  have hbl : v.blob < h.blobs.length := by rw [hb]; exact hv.1
  have hother : ∀ k (hk : k < h.views.length), i ≠ k → v.blob ≠ h.views[k].blob := by
    intro k hk e e'
    have := hex.2 k hk (by rw [Heap.view_eq_getElem h k hk, ← e', hb])
    exact e this.symm
  have hsame : (h.setBlob v.blob { h.blob v.blob with data := d }).blob v.blob = { h.blob v.blob with data := d } :=
    Heap.blob_setBlob_same _ _ _ hbl
  have hne : ∀ k, v.blob ≠ k → (h.setBlob v.blob { h.blob v.blob with data := d }).blob k = h.blob k :=
    fun k e => Heap.blob_setBlob_ne _ _ _ _ e
  constructor
  · refine ⟨?_, ?_, ?_, ?_⟩
    · show 0 < (h.setBlob v.blob _).blobs.length
      rw [Heap.blobs_length_setBlob]; exact hI.proto
    · intro w hw
      have hw' : w ∈ h.views.set i v := hw
      obtain ⟨k, hk, hkw⟩ := List.getElem_of_mem hw'
      have hk' : k < h.views.length := by simpa using hk
      rw [List.getElem_set] at hkw
      show w.blob < (h.setBlob v.blob _).blobs.length ∧ w.off + w.len ≤ ((h.setBlob v.blob _).blob w.blob).size
      rw [Heap.blobs_length_setBlob]
      by_cases e : i = k
      · rw [if_pos e] at hkw; subst hkw
        rw [hsame]; exact ⟨hbl, hr⟩
      · rw [if_neg e] at hkw; subst hkw
        rw [hne _ (hother k hk' e)]
        exact hI.vw _ (List.getElem_mem hk')
    · intro k hk
      have hk' : k < h.blobs.length := by
        have : k < (h.setBlob v.blob { h.blob v.blob with data := d }).blobs.length := hk
        rwa [Heap.blobs_length_setBlob] at this
      show ((h.setBlob v.blob _).blob k).size ≤ ((h.setBlob v.blob _).blob k).cap ∧ ((h.setBlob v.blob _).blob k).cap ≤ maxSize
      by_cases e : v.blob = k
      · subst e; rw [hsame]; exact ⟨hd, (hI.bl _ hbl).2⟩
      · rw [hne k e]; exact hI.bl k hk'
    · intro k hk
      have hk' : k < h.blobs.length := by
        have : k < (h.setBlob v.blob { h.blob v.blob with data := d }).blobs.length := hk
        rwa [Heap.blobs_length_setBlob] at this
      have hcount : (h.views.set i v).countP (fun w => w.blob == k) = h.views.countP (fun w => w.blob == k) := by
        apply countP_set_same _ _ _ _ hi
        rw [← Heap.view_eq_getElem h i hi, hb]
      show ((h.setBlob v.blob _).blob k).refs = (h.views.set i v).countP (fun w => w.blob == k) + _
      rw [hcount]
      by_cases e : v.blob = k
      · subst e; rw [hsame]; exact hI.rc _ hbl
      · rw [hne k e]; exact hI.rc k hk'
  · apply List.ext_getElem?
    intro k
    show ((h.views.set i v).map (bytesOf (h.setBlob v.blob { h.blob v.blob with data := d })))[k]? = _
    rw [List.getElem?_map, List.getElem?_set, List.getElem?_set]
    by_cases e : i = k
    · subst e
      have hlen : i < (abs h).length := by rw [abs_length]; exact hi
      simp only [if_true, hi, hlen, Option.map_some]
      congr 1
      show List.take v.len (List.drop v.off ((h.setBlob v.blob _).blob v.blob).data) = _
      rw [hsame]
    · simp only [e, if_false]
      by_cases hk : k < h.views.length
      · have hlen : k < (abs h).length := by rw [abs_length]; exact hk
        rw [List.getElem?_eq_getElem hk, List.getElem?_eq_getElem hlen, Option.map_some]
        congr 1
        simp only [abs, List.getElem_map]
        show List.take _ (List.drop _ ((h.setBlob v.blob _).blob h.views[k].blob).data) = _
        rw [hne _ (hother k hk e)]
        rfl
      · have hlen : (abs h).length ≤ k := by rw [abs_length]; omega
        rw [List.getElem?_eq_none (Nat.le_of_not_lt hk), List.getElem?_eq_none hlen]
        rfl

end SquidModel.SBuf
