/-
StepOk for every operation except the byte-wise loops.
-/
import SquidModel.SBuf.Sim
set_option linter.unusedSimpArgs false
set_option linter.unusedVariables false

namespace SquidModel.SBuf
open Heap

variable {c : Cfg} {h : Heap}

theorem stepOk_fresh (hI : Inv h) (i : Nat) (hi : i < h.views.length) : StepOk c h (.fresh i) :=
  sets_to_step (fresh_spec hI i hi) rfl rfl rfl

theorem stepOk_assign (hI : Inv h) (i j : Nat) (hi : i < h.views.length) (hj : j < h.views.length) :
    StepOk c h (.assign i j) :=
  sets_to_step (assignS_spec hI i j hi hj) (by show (abs h).set i (Spec.get (abs h) j) = _; rw [get_abs h j hj]) rfl rfl

theorem stepOk_assignBytes (hc : AllocOk c) (hI : Inv h) (i : Nat) (b : Bytes) (hi : i < h.views.length)
    (hs : b.length ≤ maxSize) : StepOk c h (.assignBytes i b) := by
  obtain ⟨h', heq, hsets⟩ := assignArea_ok hc hI i hi (.ext b) b rfl hs
  exact sets_to_step hsets rfl rfl (by show unitOut (assignArea c h i (.ext b)) = _; rw [heq]; rfl)

theorem stepOk_assignRaw (hc : AllocOk c) (hI : Inv h) (i j p n : Nat) (hi : i < h.views.length) (hj : j < h.views.length) :
    StepOk c h (.assignRaw i j p n) := by
  obtain ⟨hsrc, hle⟩ := rawArea_ok hI j hj p n
  have hl := hI.len_le j hj
  obtain ⟨h', heq, hsets⟩ := assignArea_ok hc hI i hi _ _ hsrc (by omega)
  exact sets_to_step hsets (by show (abs h).set i (Spec.area (Spec.get (abs h) j) p n) = _; rw [get_abs h j hj]) rfl
    (by show unitOut (assignArea c h i (rawArea h j p n)) = _; rw [heq]; rfl)

/-- shared tail of the append-like operations -/
theorem stepOk_append (hc : AllocOk c) (hI : Inv h) (op : Op) (i : Nat) (hi : i < h.views.length) (src : Src) (bytes : Bytes)
    (hsrc : SrcOk h src bytes) (hnW : bytes.length < W)
    (hwrap : Gen.SBufConsts.rawSpaceDiffWraps = true → (h.view i).len + bytes.length < npos)
    (hstep : step c h op = unitOut (appendArea c h i src))
    (hspec : Spec.step (abs h) op = Spec.append (abs h) i bytes)
    (hres : ∀ r rs, r = rs → sameRes op r rs) : StepOk c h op := by
  have hgl := getlen hI i hi
  by_cases hfit : (h.view i).len + bytes.length ≤ maxSize
  · obtain ⟨h', heq, hsets⟩ := appendArea_ok hc hI i hi src bytes hsrc hfit
    have hsp := spec_append_ok (abs h) i bytes (by rw [hgl]; exact hfit)
    refine sets_to_step hsets (by rw [hspec, hsp, get_abs h i hi]) (hres _ _ (by rw [hspec, hsp])) (by rw [hstep, heq]; rfl)
  · obtain ⟨h', heq, hk⟩ := appendArea_thrown (c := c) hI i hi src bytes hsrc hnW hwrap (by omega)
    have hsp := spec_append_thrown (abs h) i bytes (by rw [hgl]; omega)
    exact kept_to_step_thrown hk (by rw [hspec, hsp]) (hres _ _ (by rw [hspec, hsp])) (by rw [hstep, heq]; rfl)

theorem stepOk_appendBytes (hc : AllocOk c) (hI : Inv h) (i : Nat) (b : Bytes) (hi : i < h.views.length)
    (hs : (Spec.get (abs h) i).length + b.length < npos) : StepOk c h (.appendBytes i b) := by
  have hgl := getlen hI i hi
  have hnp := npos_succ
  exact stepOk_append hc hI _ i hi (.ext b) b rfl (by omega) (by intro _; omega) rfl rfl (fun _ _ e => e)

theorem stepOk_appendRaw (hc : AllocOk c) (hI : Inv h) (i j p n : Nat) (hi : i < h.views.length) (hj : j < h.views.length) :
    StepOk c h (.appendRaw i j p n) := by
  obtain ⟨hsrc, hle⟩ := rawArea_ok hI j hj p n
  have hl := hI.len_le j hj
  have hli := hI.len_le i hi
  have hnp := npos_succ
  have h2m := two_max_lt
  have hW := W_val
  exact stepOk_append hc hI _ i hi _ _ hsrc (by omega) (by intro _; omega) rfl
    (by show Spec.append (abs h) i (Spec.area (Spec.get (abs h) j) p n) = _; rw [get_abs h j hj]) (fun _ _ e => e)

theorem stepOk_appendS (hc : AllocOk c) (hI : Inv h) (i j : Nat) (hi : i < h.views.length) (hj : j < h.views.length) :
    StepOk c h (.appendS i j) := by
  have hgl := getlen hI i hi
  have hglj := getlen hI j hj
  by_cases hfit : (h.view i).len + (h.view j).len ≤ maxSize
  · obtain ⟨h', heq, hsets⟩ := appendS_ok hc hI i j hi hj hfit
    have hsp := spec_append_ok (abs h) i (Spec.get (abs h) j) (by rw [hgl, hglj]; exact hfit)
    exact sets_to_step hsets (by show (Spec.append _ _ _).1 = _; rw [hsp, get_abs h i hi, get_abs h j hj])
      (by show _ = (Spec.append _ _ _).2; rw [hsp]) (by show unitOut (appendS c h i j) = _; rw [heq]; rfl)
  · obtain ⟨h', heq, hk⟩ := appendS_thrown (c := c) hI i j hi hj (by omega)
    have hsp := spec_append_thrown (abs h) i (Spec.get (abs h) j) (by rw [hgl, hglj]; omega)
    exact kept_to_step_thrown hk (by show (Spec.append _ _ _).1 = _; rw [hsp])
      (by show _ = (Spec.append _ _ _).2; rw [hsp]) (by show unitOut (appendS c h i j) = _; rw [heq]; rfl)

theorem stepOk_pushBack (hc : AllocOk c) (hI : Inv h) (i : Nat) (ch : UInt8) (hi : i < h.views.length) :
    StepOk c h (.pushBack i ch) := by
  have hgl := getlen hI i hi
  have hli := hI.len_le i hi
  have hnp := npos_succ
  have h2m := two_max_lt
  have hW := W_val
  by_cases hfit : (h.view i).len + 1 ≤ maxSize
  · obtain ⟨h', heq, hinv, hn, habs⟩ := lowAppend_ok hc hI i hi (.ext [ch]) [ch] rfl trivial hfit
    have hsp := spec_append_ok (abs h) i [ch] (by rw [hgl]; exact hfit)
    exact sets_to_step ⟨hinv, hn, habs⟩ (by show (Spec.append _ _ _).1 = _; rw [hsp, get_abs h i hi])
      (by show _ = (Spec.append _ _ _).2; rw [hsp]) (by show unitOut (lowAppend c h i (.ext [ch])) = _; rw [heq]; rfl)
  · obtain ⟨h', heq, hk⟩ := lowAppend_thrown (c := c) hI i hi (.ext [ch]) [ch] rfl (by simp; omega) (by intro _; simp; omega) (by simp; omega)
    have hsp := spec_append_thrown (abs h) i [ch] (by rw [hgl]; simp; omega)
    exact kept_to_step_thrown hk (by show (Spec.append _ _ _).1 = _; rw [hsp])
      (by show _ = (Spec.append _ _ _).2; rw [hsp]) (by show unitOut (lowAppend c h i (.ext [ch])) = _; rw [heq]; rfl)

theorem stepOk_clear (hI : Inv h) (i : Nat) (hi : i < h.views.length) : StepOk c h (.clear i) := by
  obtain ⟨cI, cn, cabs, _⟩ := clear_spec hI i hi
  exact sets_to_step ⟨cI, cn, cabs⟩ rfl rfl rfl

theorem chopSafe_of (hI : Inv h) (j : Nat) (hj : j < h.views.length) (pos n : Nat)
    (hs : Gen.SBufConsts.chopSumWraps = true → n = npos ∨
      (if pos = npos ∨ pos > (Spec.get (abs h) j).length then (Spec.get (abs h) j).length else pos) + n < W) :
    ChopSafe (h.view j).len pos n := by
  rw [getlen hI j hj] at hs; exact hs

theorem stepOk_chop (hI : Inv h) (i pos n : Nat) (hi : i < h.views.length) (hs : Safe (abs h) (.chop i pos n)) :
    StepOk c h (.chop i pos n) := by
  have hc := chop_spec hI i hi pos n (chopSafe_of hI i hi pos n hs.2.2)
  exact sets_to_step hc (by show (abs h).set i (Spec.sub (Spec.get (abs h) i) pos n) = _; rw [get_abs h i hi]) rfl rfl

theorem stepOk_substr (hI : Inv h) (i j pos n : Nat) (hi : i < h.views.length) (hj : j < h.views.length)
    (hs : Safe (abs h) (.substr i j pos n)) : StepOk c h (.substr i j pos n) := by
  have hc := substrInto_spec hI i j hi hj pos n (chopSafe_of hI j hj pos n hs.2.2)
  exact sets_to_step hc (by show (abs h).set i (Spec.sub (Spec.get (abs h) j) pos n) = _; rw [get_abs h j hj]) rfl rfl

theorem stepOk_consume (hI : Inv h) (i j n : Nat) (hi : i < h.views.length) (hj : j < h.views.length) :
    StepOk c h (.consume i j n) := by
  obtain ⟨cI, cn, cabs⟩ := consumeInto_spec hI i j hi hj n
  refine ⟨_, .unit, Or.inl rfl, cI, cn, ?_, rfl⟩
  rw [cabs]
  show _ = ((abs h).set j _).set i _
  rw [get_abs h j hj]

theorem stepOk_setAt (hc : AllocOk c) (hI : Inv h) (i pos : Nat) (ch : UInt8) (hi : i < h.views.length) :
    StepOk c h (.setAt i pos ch) := by
  have hgl := getlen hI i hi
  by_cases hpos : pos < (h.view i).len
  · obtain ⟨h', heq, hsets⟩ := setAt_ok hc hI i hi pos ch hpos
    have hsp : Spec.step (abs h) (.setAt i pos ch) = ((abs h).set i ((Spec.get (abs h) i).set pos ch), .unit) := by
      show (if pos < (Spec.get (abs h) i).length then _ else _) = _
      rw [if_pos (by rw [hgl]; exact hpos)]
    exact sets_to_step hsets (by rw [hsp, get_abs h i hi]) (by rw [hsp]; rfl) (by show unitOut (setAt c h i pos ch) = _; rw [heq]; rfl)
  · have hsp : Spec.step (abs h) (.setAt i pos ch) = (abs h, .thrown) := by
      show (if pos < (Spec.get (abs h) i).length then _ else _) = _
      rw [if_neg (by rw [hgl]; exact hpos)]
    exact kept_to_step_thrown (Kept.refl hI) (by rw [hsp]) (by rw [hsp]; rfl)
      (by show unitOut (setAt c h i pos ch) = _; rw [setAt_thrown h i pos ch hpos]; rfl)

theorem stepOk_cStr (hc : AllocOk c) (hI : Inv h) (i : Nat) (hi : i < h.views.length) : StepOk c h (.cStr i) := by
  have hgl := getlen hI i hi
  by_cases hfit : (h.view i).len + 1 ≤ maxSize
  · obtain ⟨h', heq, hk⟩ := cStr_ok hc hI i hi hfit
    have hsp : Spec.step (abs h) (.cStr i) = (abs h, .bytes (Spec.get (abs h) i ++ [0])) := by
      show (if (Spec.get (abs h) i).length + 1 > maxSize then _ else _) = _
      rw [if_neg (by rw [hgl]; omega)]
    refine kept_to_step_ok hk (by rw [hsp]) (by rw [hsp, get_abs h i hi]; rfl) ?_
    show (match cStr c h i with | .ok (h', s) => _ | .thrown h' => _ | .ub => _) = _
    rw [heq]
  · obtain ⟨h', heq, hk⟩ := cStr_thrown (c := c) hI i hi (by omega)
    have hsp : Spec.step (abs h) (.cStr i) = (abs h, .thrown) := by
      show (if (Spec.get (abs h) i).length + 1 > maxSize then _ else _) = _
      rw [if_pos (by rw [hgl]; omega)]
    refine kept_to_step_thrown hk (by rw [hsp]) (by rw [hsp]; rfl) ?_
    show (match cStr c h i with | .ok (h', s) => _ | .thrown h' => _ | .ub => _) = _
    rw [heq]

theorem stepOk_reserveSpace (hc : AllocOk c) (hI : Inv h) (i n : Nat) (hi : i < h.views.length) :
    StepOk c h (.reserveSpace i n) := by
  have hgl := getlen hI i hi
  obtain ⟨hok, hthr⟩ := reserveSpace_spec hc hI i hi n
  by_cases hcase : n ≤ maxSize ∧ (h.view i).len + n ≤ maxSize
  · obtain ⟨h', heq, hk⟩ := hok hcase
    have hsp : Spec.step (abs h) (.reserveSpace i n) = (abs h, .unit) := by
      show (if n > maxSize ∨ (Spec.get (abs h) i).length + n > maxSize then _ else _) = _
      rw [if_neg (by rw [hgl]; omega)]
    exact kept_to_step_ok hk (by rw [hsp]) (by rw [hsp]; rfl) (by show unitOut (reserveSpace c h i n) = _; rw [heq]; rfl)
  · have hsp : Spec.step (abs h) (.reserveSpace i n) = (abs h, .thrown) := by
      show (if n > maxSize ∨ (Spec.get (abs h) i).length + n > maxSize then _ else _) = _
      rw [if_pos (by rw [hgl]; omega)]
    exact kept_to_step_thrown (Kept.refl hI) (by rw [hsp]) (by rw [hsp]; rfl)
      (by show unitOut (reserveSpace c h i n) = _; rw [hthr hcase]; rfl)

theorem stepOk_reserveCapacity (hc : AllocOk c) (hI : Inv h) (i n : Nat) (hi : i < h.views.length) :
    StepOk c h (.reserveCapacity i n) := by
  by_cases hcase : n ≤ maxSize
  · obtain ⟨h', heq, hk⟩ := reserveCapacity_ok hc hI i hi n hcase
    have hsp : Spec.step (abs h) (.reserveCapacity i n) = (abs h, .unit) := by
      show (if n > maxSize then _ else _) = _
      rw [if_neg (by omega)]
    exact kept_to_step_ok hk (by rw [hsp]) (by rw [hsp]; rfl) (by show unitOut (reserveCapacity c h i n) = _; rw [heq]; rfl)
  · have hsp : Spec.step (abs h) (.reserveCapacity i n) = (abs h, .thrown) := by
      show (if n > maxSize then _ else _) = _
      rw [if_pos (by omega)]
    exact kept_to_step_thrown (Kept.refl hI) (by rw [hsp]) (by rw [hsp]; rfl)
      (by show unitOut (reserveCapacity c h i n) = _; rw [reserveCapacity_thrown h i n (by omega)]; rfl)

theorem stepOk_reserve (hc : AllocOk c) (hI : Inv h) (i a b d : Nat) (sh : Bool) (hi : i < h.views.length) :
    StepOk c h (.reserve i a b d sh) := by
  obtain ⟨h', r, heq, hk⟩ := reserve_spec hc hI i hi a b d sh
  refine ⟨h', .nat r, Or.inl ?_, hk.inv, hk.nviews, hk.abs, ⟨r, rfl⟩⟩
  show (match reserve c h i a b d sh with | .ok (h', s) => _ | .thrown h' => _ | .ub => _) = _
  rw [heq]

theorem stepOk_rawAppend (hc : AllocOk c) (hI : Inv h) (i n : Nat) (b : Bytes) (hi : i < h.views.length)
    (hs : Safe (abs h) (.rawAppend i n b)) : StepOk c h (.rawAppend i n b) := by
  have hgl := getlen hI i hi
  obtain ⟨hk, hnW, hn0, hwrap⟩ := hs
  rw [hgl] at hwrap
  by_cases hfit : (h.view i).len + n ≤ maxSize
  · obtain ⟨h', heq, hsets⟩ := rawAppend_ok hc hI i hi n b hk hn0 hfit
    have hsp : Spec.step (abs h) (.rawAppend i n b) = ((abs h).set i (Spec.get (abs h) i ++ b), .unit) := by
      show (if (Spec.get (abs h) i).length + n > maxSize then _ else _) = _
      rw [if_neg (by rw [hgl]; omega)]
    refine sets_to_step hsets (by rw [hsp, get_abs h i hi]) (by rw [hsp]; rfl) ?_
    show (match rawAppend c h i n b with | .ok (h', .done) => _ | .ok (h', .short room) => _ | .thrown h' => _ | .ub => _) = _
    rw [heq]
  · obtain ⟨h', heq, hkept⟩ := rawAppend_thrown (c := c) hI i hi n b hnW hwrap (by omega)
    have hsp : Spec.step (abs h) (.rawAppend i n b) = (abs h, .thrown) := by
      show (if (Spec.get (abs h) i).length + n > maxSize then _ else _) = _
      rw [if_pos (by rw [hgl]; omega)]
    refine kept_to_step_thrown hkept (by rw [hsp]) (by rw [hsp]; rfl) ?_
    show (match rawAppend c h i n b with | .ok (h', .done) => _ | .ok (h', .short room) => _ | .thrown h' => _ | .ub => _) = _
    rw [heq]

theorem stepOk_length (hI : Inv h) (i : Nat) (hi : i < h.views.length) : StepOk c h (.length i) :=
  stepOk_query hI _ _ rfl (by show (abs h, Res.nat (Spec.get (abs h) i).length) = _; rw [getlen hI i hi]) (by intros; simp)

theorem stepOk_at (hI : Inv h) (i pos : Nat) (hi : i < h.views.length) : StepOk c h (.at i pos) := by
  have hgl := getlen hI i hi
  by_cases hpos : pos < (h.view i).len
  · have hat : atPos (Spec.get (abs h) i) pos = some ((Spec.get (abs h) i)[pos]'(by rw [hgl]; exact hpos)) := by
      unfold atPos; rw [if_pos (by rw [hgl]; exact hpos)]; simp
    refine stepOk_query hI _ (.nat ((Spec.get (abs h) i)[pos]'(by rw [hgl]; exact hpos)).toNat) ?_ ?_ (by intros; simp)
    · show (if ¬ pos < (h.view i).len then _ else query1 h i _) = _
      rw [if_neg (by omega), query1_ok hI i hi, hat]
    · show (match atPos (Spec.get (abs h) i) pos with | some ch => _ | none => _) = _
      rw [hat]
  · have hat : atPos (Spec.get (abs h) i) pos = none := by
      unfold atPos; rw [if_neg (by rw [hgl]; exact hpos)]
    have hsp : Spec.step (abs h) (.at i pos) = (abs h, .thrown) := by
      show (match atPos (Spec.get (abs h) i) pos with | some ch => (abs h, Res.nat ch.toNat) | none => (abs h, Res.thrown)) = _
      rw [hat]
    refine kept_to_step_thrown (Kept.refl hI) (by rw [hsp]) (by rw [hsp]; rfl) ?_
    show (if ¬ pos < (h.view i).len then _ else query1 h i _) = _
    rw [if_pos hpos]

end SquidModel.SBuf
