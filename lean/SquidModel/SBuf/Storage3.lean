/-
Specification of SBuf::cow and SBuf::rawSpace (continued): the functions themselves.
-/
import SquidModel.SBuf.Storage2
set_option linter.unusedSimpArgs false
set_option linter.unusedVariables false

namespace SquidModel.SBuf
open Heap

theorem W_val : W = 4294967296 := by decide

theorem Moved.refl (hI : Inv h) (i : Nat) : Moved h h i :=
  ⟨Kept.refl hI, rfl, Nat.le_refl _, fun _ _ _ => rfl⟩

theorem cowSize_ge (h : Heap) (i newsize : Nat) : (h.view i).len ≤ cowSize h i newsize := by
  unfold cowSize
  by_cases e : newsize = npos ∨ newsize < (h.view i).len
  · rw [if_pos e]; exact Nat.le_refl _
  · rw [if_neg e]; omega

theorem cow_unfold (c : Cfg) (h : Heap) (i newsize : Nat) :
    cow c h i newsize =
      if h.lockCount (h.view i).blob = 1 then
        (blobSyncSize h (h.view i).blob ((h.view i).off + (h.view i).len)) >>= fun h1 =>
          if cowSize h i newsize - (h.view i).len ≤ (h1.blob (h.view i).blob).spaceSize then .ok h1
          else if cowSize h i newsize - (h.view i).len ≤ (h1.blob (h.view i).blob).spaceSize + (h.view i).off then
            (blobConsume h1 (h.view i).blob (h.view i).off) >>= fun h2 => .ok (h2.setView i { h.view i with off := 0 })
          else reAlloc c h1 i (cowSize h i newsize)
      else reAlloc c h i (cowSize h i newsize) := rfl

theorem cow_ok (hc : AllocOk c) (hI : Inv h) (i : Nat) (hi : i < h.views.length) (newsize : Nat)
    (hns : cowSize h i newsize ≤ maxSize) :
    ∃ h', cow c h i newsize = .ok h' ∧ Moved h h' i ∧ AtTail h' i ∧ cowSize h i newsize - (h.view i).len ≤ roomOf h' i ∧
      h'.lockCount (h'.view i).blob = 1 := by
  have hge := cowSize_ge h i newsize
  generalize hnsz : cowSize h i newsize = ns at hns hge
  rw [cow_unfold, hnsz]
  have hv := hI.view i hi
  have hbl := hI.bl _ hv.1
  by_cases h1 : h.lockCount (h.view i).blob = 1
  · rw [if_pos h1]
    obtain ⟨hs, hseq, hsm, hsv, hsl, hslock, hsd, hsc, hso⟩ := syncSize_step hI i hi h1
    rw [hseq, Out.ok_bind]
    have hssize : (hs.blob (h.view i).blob).size = (h.view i).off + (h.view i).len := by
      simp only [Blob.size, hsd, List.length_take]
      have := hv.2; simp only [Blob.size] at this; omega
    have hspace : (hs.blob (h.view i).blob).spaceSize = (h.blob (h.view i).blob).cap - ((h.view i).off + (h.view i).len) := by
      simp only [Blob.spaceSize, hssize, hsc]
    rw [hspace]
    have htail : AtTail hs i := by unfold AtTail; rw [hsv, hssize]
    by_cases c1 : ns - (h.view i).len ≤ (h.blob (h.view i).blob).cap - ((h.view i).off + (h.view i).len)
    · rw [if_pos c1]
      refine ⟨hs, rfl, hsm, htail, ?_, by rw [hsv]; exact hslock⟩
      unfold roomOf; rw [hsv, hsc]; exact c1
    · rw [if_neg c1]
      by_cases c2 : ns - (h.view i).len ≤ (h.blob (h.view i).blob).cap - ((h.view i).off + (h.view i).len) + (h.view i).off
      · rw [if_pos c2]
        have hoff : (hs.view i).off ≠ 0 := by rw [hsv]; intro e; rw [e] at c2; omega
        have hi' : i < hs.views.length := by rw [hsm.nviews]; exact hi
        obtain ⟨h2, h2eq, h2m, h2v, h2s, h2c, h2l⟩ := shift_step hsm.inv i hi' (by rw [hsv]; exact hslock) htail hoff
        rw [hsv] at h2eq h2m h2v h2s h2c h2l
        rw [h2eq, Out.ok_bind]
        refine ⟨_, rfl, ?_, ?_, ?_, by rw [h2v]; exact h2l⟩
        · apply Moved.trans hsm h2m (by rw [hsv])
          · rw [hslock, h1]
          · intro k hk _; show (hs.blob k).refs = (h.blob k).refs; rw [hso k hk]
        · unfold AtTail; rw [h2v]; show 0 + (h.view i).len = _; rw [h2s]; omega
        · unfold roomOf; rw [h2v]; show _ ≤ _ - (0 + (h.view i).len); rw [h2c, hsc]
          have := hv.2; omega
      · rw [if_neg c2]
        have hi' : i < hs.views.length := by rw [hsm.nviews]; exact hi
        obtain ⟨h', heq, hm, hvw, hsz, hcap, _, hlk⟩ := reAlloc_ok hc hsm.inv i hi' ns (by rw [hsv]; exact hge) hns
        refine ⟨h', heq, ?_, ?_, ?_, by rw [hvw]; exact hlk⟩
        · apply Moved.trans hsm hm (by rw [hsv])
          · rw [hslock, h1]
          · intro k hk _; show (hs.blob k).refs = (h.blob k).refs; rw [hso k hk]
        · unfold AtTail; rw [hvw]; show 0 + (hs.view i).len = _; rw [hsz]; omega
        · unfold roomOf; rw [hvw]; show _ ≤ _ - (0 + (hs.view i).len); rw [hcap, hsv]
          have := hc.ge ns; omega
  · rw [if_neg h1]
    obtain ⟨h', heq, hm, hvw, hsz, hcap, _, hlk⟩ := reAlloc_ok hc hI i hi ns hge hns
    refine ⟨h', heq, hm, ?_, ?_, by rw [hvw]; exact hlk⟩
    · unfold AtTail; rw [hvw]; show 0 + (h.view i).len = _; rw [hsz]; omega
    · unfold roomOf; rw [hvw]; show _ ≤ _ - (0 + (h.view i).len); rw [hcap]
      have := hc.ge ns; omega

theorem cow_thrown (hI : Inv h) (i : Nat) (hi : i < h.views.length) (newsize : Nat)
    (hns : maxSize < cowSize h i newsize) :
    ∃ h', cow c h i newsize = .thrown h' ∧ Kept h h' := by
  generalize hnsz : cowSize h i newsize = ns at hns
  rw [cow_unfold, hnsz]
  have hv := hI.view i hi
  have hbl := hI.bl _ hv.1
  by_cases h1 : h.lockCount (h.view i).blob = 1
  · rw [if_pos h1]
    obtain ⟨hs, hseq, hsm, hsv, hsl, hslock, hsd, hsc, hso⟩ := syncSize_step hI i hi h1
    rw [hseq, Out.ok_bind]
    have hssize : (hs.blob (h.view i).blob).size = (h.view i).off + (h.view i).len := by
      simp only [Blob.size, hsd, List.length_take]
      have := hv.2; simp only [Blob.size] at this; omega
    have hspace : (hs.blob (h.view i).blob).spaceSize = (h.blob (h.view i).blob).cap - ((h.view i).off + (h.view i).len) := by
      simp only [Blob.spaceSize, hssize, hsc]
    rw [hspace]
    have := hv.2
    rw [if_neg (by omega), if_neg (by omega), reAlloc_thrown hs i ns hns]
    exact ⟨hs, rfl, hsm.toKept⟩
  · rw [if_neg h1, reAlloc_thrown h i ns hns]
    exact ⟨h, rfl, Kept.refl hI⟩

/-! ### rawSpace -/

theorem rawSpace_ok (hc : AllocOk c) (hI : Inv h) (i : Nat) (hi : i < h.views.length) (n : Nat)
    (hfit : (h.view i).len + n ≤ maxSize) :
    ∃ h', rawSpace c h i n = .ok h' ∧ Moved h h' i ∧ (n ≠ 0 → AtTail h' i) ∧ n ≤ roomOf h' i := by
  have hW := W_val
  have hmax : maxSize < npos := by have := two_max_lt; omega
  have hnp := npos_succ
  unfold rawSpace
  simp only []
  have hc1 : (!Gen.SBufConsts.rawSpaceDiffWraps && decide (n > maxSize)) = false := by
    have : ¬ n > maxSize := by omega
    simp [this]
  rw [hc1]
  simp only [Bool.false_eq_true, if_false]
  have hmod : (maxSize + W - n) % W = maxSize - n := by rw [hW]; omega
  rw [hmod, if_neg (by omega)]
  by_cases hca : (h.blob (h.view i).blob).canAppend ((h.view i).off + (h.view i).len) n = true
  · rw [if_pos hca]
    refine ⟨h, rfl, Moved.refl hI i, ?_, ?_⟩
    · intro hn0
      simp only [Blob.canAppend, Bool.or_eq_true, Bool.and_eq_true, beq_iff_eq, decide_eq_true_eq] at hca
      rcases hca with hca | hca
      · exact hca.1
      · exact absurd hca hn0
    · simp only [Blob.canAppend, Bool.or_eq_true, Bool.and_eq_true, beq_iff_eq, decide_eq_true_eq] at hca
      unfold roomOf
      rcases hca with hca | hca
      · rw [hca.1]; exact hca.2
      · omega
  · rw [if_neg hca]
    have hsum : (n + (h.view i).len) % W = n + (h.view i).len := by rw [hW]; omega
    rw [hsum]
    have hcs : cowSize h i (n + (h.view i).len) = n + (h.view i).len := by
      unfold cowSize; rw [if_neg (by omega)]
    obtain ⟨h', heq, hm, ht, hr, _⟩ := cow_ok hc hI i hi (n + (h.view i).len) (by rw [hcs]; omega)
    rw [hcs] at hr
    exact ⟨h', heq, hm, fun _ => ht, by omega⟩

theorem rawSpace_thrown (hI : Inv h) (i : Nat) (hi : i < h.views.length) (n : Nat) (hnW : n < W)
    (hwrap : Gen.SBufConsts.rawSpaceDiffWraps = true → (h.view i).len + n < npos)
    (hbig : maxSize < (h.view i).len + n) :
    ∃ h', rawSpace c h i n = .thrown h' ∧ Kept h h' := by
  have hW := W_val
  have hmax : maxSize < npos := by have := two_max_lt; omega
  have hnp := npos_succ
  have hlen := hI.len_le i hi
  have hv := hI.view i hi
  have hbl := hI.bl _ hv.1
  unfold rawSpace
  simp only []
  by_cases hn : n ≤ maxSize
  · have hc1 : (!Gen.SBufConsts.rawSpaceDiffWraps && decide (n > maxSize)) = false := by
      have : ¬ n > maxSize := by omega
      simp [this]
    rw [hc1]
    simp only [Bool.false_eq_true, if_false]
    have hmod : (maxSize + W - n) % W = maxSize - n := by rw [hW]; omega
    rw [hmod, if_pos (by omega)]
    exact ⟨h, rfl, Kept.refl hI⟩
  · by_cases hf : Gen.SBufConsts.rawSpaceDiffWraps = true
    · have hc1 : (!Gen.SBufConsts.rawSpaceDiffWraps && decide (n > maxSize)) = false := by simp [hf]
      rw [hc1]
      simp only [Bool.false_eq_true, if_false]
      have hw := hwrap hf
      have hmod : (maxSize + W - n) % W = maxSize + W - n := by rw [hW]; omega
      have hle2 : ¬ (h.view i).len > maxSize + W - n := by rw [hW]; omega
      rw [hmod, if_neg hle2]
      have hsp : (h.blob (h.view i).blob).spaceSize < n := by unfold Blob.spaceSize; omega
      have hn0 : n ≠ 0 := by omega
      have hca : (h.blob (h.view i).blob).canAppend ((h.view i).off + (h.view i).len) n = false := by
        unfold Blob.canAppend
        have d1 : decide (n ≤ (h.blob (h.view i).blob).spaceSize) = false := decide_eq_false (by omega)
        have d2 : (n == 0) = false := by simp [hn0]
        rw [d1, d2]; simp
      rw [hca]
      simp only [Bool.false_eq_true, if_false]
      have hsum : (n + (h.view i).len) % W = n + (h.view i).len := by rw [hW]; omega
      rw [hsum]
      have hcs : cowSize h i (n + (h.view i).len) = n + (h.view i).len := by
        unfold cowSize; rw [if_neg (by omega)]
      exact cow_thrown hI i hi (n + (h.view i).len) (by rw [hcs]; omega)
    · have hc1 : (!Gen.SBufConsts.rawSpaceDiffWraps && decide (n > maxSize)) = true := by
        have : n > maxSize := by omega
        simp [hf, this]
      rw [hc1]
      simp only [if_true]
      exact ⟨h, rfl, Kept.refl hI⟩

end SquidModel.SBuf
