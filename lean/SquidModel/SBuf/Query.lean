/-
The read-only members of SBuf (src/sbuf/SBuf.cc), as functions of the bytes `buf()[0 .. length())` of the
objects involved; each follows the C++ function branch by branch (pointers are offsets from `buf()`).
`npos` results are the number `npos`.  Comparison results are the C `int` the function returns.
-/
import SquidModel.SBuf.Model

namespace SquidModel.SBuf

/-- the `int` the comparison loops work with: a plain `char` (x86: signed) converted to int in the pinned snapshot,
    an `unsigned char` where the code casts -/
def charToInt (ch : UInt8) : Int :=
  if Gen.SBufConsts.plainCharCompare ∧ ch.toNat ≥ 128 then (ch.toNat : Int) - 256 else ch.toNat

/-- glibc `tolower(int)` in the C locale on the value of a (signed) `char`:
    the table is indexed from -128; entries -128..-2 mirror 128..254, entry -1 is EOF and stays -1 -/
def tolowerInt (x : Int) : Int :=
  if x = -1 then -1
  else if x < 0 then x + 256
  else if 65 ≤ x ∧ x ≤ 90 then x + 32 else x

/-- memcmp over two equally long areas: difference of the first differing bytes (as unsigned char) -/
def memcmp : Bytes → Bytes → Int
  | a :: as, b :: bs => if a = b then memcmp as bs else (a.toNat : Int) - b.toNat
  | _, _ => 0

/-- static memcasecmp(): `rv = tolower(*b1) - tolower(*b2)` on plain `char` -/
def memcasecmp : Bytes → Bytes → Int
  | a :: as, b :: bs =>
    let rv := tolowerInt (charToInt a) - tolowerInt (charToInt b)
    if rv ≠ 0 then rv else memcasecmp as bs
  | _, _ => 0

/-- the bytes left by chop(pos, n) (also substr) when no wrap-around occurs in `pos+n`; see `chop` for the object -/
def chopBytes (a : Bytes) (pos n : Nat) : Bytes :=
  let pos := if pos = npos ∨ pos > a.length then a.length else pos
  let n := if n = npos ∨ chopOver pos n a.length then a.length - pos else n
  if pos = a.length ∨ n = 0 then [] else (a.drop pos).take n

/-- SBuf::compare(const SBuf &S, isCaseSensitive, npos) -/
def compareAll (a b : Bytes) (ci : Bool) : Int :=
  let byteCompareLen := min b.length a.length
  let rv := if ci then memcasecmp (a.take byteCompareLen) (b.take byteCompareLen)
            else memcmp (a.take byteCompareLen) (b.take byteCompareLen)
  if rv ≠ 0 then rv
  else if a.length = b.length then 0
  else if a.length > b.length then 1
  else -1

/-- SBuf::compare(const SBuf &S, isCaseSensitive, n) -/
def compareS (a b : Bytes) (ci : Bool) (n : Nat) : Int :=
  if n ≠ npos then compareAll (chopBytes a 0 n) (chopBytes b 0 n) ci
  else compareAll a b ci

/-- SBuf::startsWith -/
def startsWith (a b : Bytes) (ci : Bool) : Bool :=
  if a.length < b.length then false else compareS a b ci b.length == 0

/-- SBuf::operator== (the same-store shortcut returns what memcmp would) -/
def equal (a b : Bytes) : Bool :=
  if a.length ≠ b.length then false else memcmp a b == 0

/-- memchr(p + from, c, upto - from) as an offset from p -/
def memchrFrom (a : Bytes) (ch : UInt8) (start upto : Nat) : Option Nat :=
  match ((a.take upto).drop start).findIdx? (· == ch) with
  | some k => some (start + k)
  | none => none

/-- SBuf::find(char c, size_type startPos) -/
def findChar (a : Bytes) (ch : UInt8) (startPos : Nat) : Nat :=
  if startPos = npos then npos
  else if startPos > a.length then npos
  else match memchrFrom a ch startPos a.length with
    | none => npos
    | some k => k

/-- the `while (start < lastPossible)` loop of SBuf::find(const SBuf &) -/
def findLoop (hay needle : Bytes) (needleBegin : UInt8) (lastPossible : Nat) (start : Nat) : Nat → Nat
  | 0 => npos
  | fuel + 1 =>
    if start < lastPossible then
      match memchrFrom hay needleBegin start lastPossible with
      | none => npos
      | some tmp =>
        if memcmp needle ((hay.drop tmp).take needle.length) == 0 then tmp
        else findLoop hay needle needleBegin lastPossible (tmp + 1) fuel
    else npos

/-- SBuf::find(const SBuf &needle, size_type startPos) -/
def findS (hay needle : Bytes) (startPos : Nat) : Nat :=
  if startPos = npos then npos
  else if startPos > hay.length then npos
  else if needle.length = 0 then startPos
  else if needle.length = 1 then findChar hay (needle.headD 0) startPos
  else
    -- lastPossible = buf()+length()-needle.length()+1 lies before `start` when the needle is longer
    if hay.length + 1 ≤ needle.length then npos
    else findLoop hay needle (needle.headD 0) (hay.length - needle.length + 1) startPos (hay.length + 1)

/-- memrchr(p, c, n) -/
def memrchr (a : Bytes) (ch : UInt8) (n : Nat) : Option Nat :=
  match ((a.take n).reverse).findIdx? (· == ch) with
  | some k => some ((a.take n).length - 1 - k)
  | none => none

/-- SBuf::rfind(char c, size_type endPos) -/
def rfindChar (a : Bytes) (ch : UInt8) (endPos : Nat) : Nat :=
  if a.length = 0 then npos
  else
    let endPos := if endPos = npos ∨ endPos ≥ a.length then a.length else endPos + 1
    match memrchr a ch endPos with
    | none => npos
    | some k => k

/-- the `while (cur >= bufBegin)` loop of SBuf::rfind(const SBuf &): candidates cur, cur-1, ..., 0 -/
def rfindLoop (hay needle : Bytes) (needleBegin : UInt8) : Nat → Nat
  | 0 =>
    if hay.headD 0 == needleBegin ∧ hay.length > 0 ∧ memcmp needle (hay.take needle.length) == 0 then 0 else npos
  | cur + 1 =>
    if (hay.getD (cur + 1) 0 == needleBegin) ∧ memcmp needle ((hay.drop (cur + 1)).take needle.length) == 0 then cur + 1
    else rfindLoop hay needle needleBegin cur

/-- SBuf::rfind(const SBuf &needle, size_type endPos) -/
def rfindS (hay needle : Bytes) (endPos : Nat) : Nat :=
  if needle.length = 1 then rfindChar hay (needle.headD 0) endPos
  else if hay.length < needle.length then npos
  else
    let endPos := if endPos = npos ∨ endPos > hay.length - needle.length then hay.length - needle.length else endPos
    if needle.length = 0 then endPos
    else rfindLoop hay needle (needle.headD 0) endPos

/-- the forward scan of findFirstOf / findFirstNotOf (`want` = membership that stops the scan) -/
def scanFwd (a : Bytes) (set : Bytes) (want : Bool) (startPos : Nat) : Nat :=
  if startPos = npos then npos
  else if startPos ≥ a.length then npos
  else match (a.drop startPos).findIdx? (fun ch => set.contains ch == want) with
    | some k => startPos + k
    | none => npos

/-- the backward scan of findLastOf / findLastNotOf -/
def scanBackLoop (a : Bytes) (set : Bytes) (want : Bool) : Nat → Nat
  | 0 => if a.length > 0 ∧ set.contains (a.headD 0) == want then 0 else npos
  | cur + 1 => if set.contains (a.getD (cur + 1) 0) == want then cur + 1 else scanBackLoop a set want cur

def scanBack (a : Bytes) (set : Bytes) (want : Bool) (endPos : Nat) : Nat :=
  if a.length = 0 then npos
  else
    let endPos := if endPos = npos ∨ endPos ≥ a.length then a.length - 1 else endPos
    scanBackLoop a set want endPos

def findFirstOf (a set : Bytes) (p : Nat) : Nat := scanFwd a set true p
def findFirstNotOf (a set : Bytes) (p : Nat) : Nat := scanFwd a set false p
def findLastOf (a set : Bytes) (p : Nat) : Nat := scanBack a set true p
def findLastNotOf (a set : Bytes) (p : Nat) : Nat := scanBack a set false p

/-- SBuf::copy(dest, n): the bytes exported -/
def copyOut (a : Bytes) (n : Nat) : Bytes := a.take (min n a.length)

/-- SBuf::at(pos): `none` = Must(pos < length()) failed -/
def atPos (a : Bytes) (pos : Nat) : Option UInt8 := if pos < a.length then a[pos]? else none

/-- the scan loop of SBuf::compare(const char *s, ...): `left` over the SBuf bytes, `right` over the C string
    (`s` without its terminator; reading past it yields the NUL).  Returns (rv, byteCount left, rest of right). -/
def cstrLoop (ci : Bool) : Bytes → Bytes → Nat → Int × Nat × Bytes
  | l :: ls, right, byteCount + 1 =>
    let r := right.headD 0
    let rv := if ci then tolowerInt (charToInt l) - tolowerInt (charToInt r) else charToInt l - charToInt r
    if rv ≠ 0 then (rv, byteCount + 1, right.tail)
    else if l = 0 then (rv, byteCount + 1, right.tail)        -- `*left++ == '\0'` breaks before the decrement
    else if byteCount = 0 then (rv, 0, right.tail)            -- `--byteCount == 0`
    else cstrLoop ci ls right.tail byteCount
  | _, right, byteCount => (0, byteCount, right)

/-- SBuf::compare(const char *s, isCaseSensitive, n), s != nullptr -/
def compareC (a s : Bytes) (ci : Bool) (n : Nat) : Int :=
  if n = 0 then 0
  else if a.length = 0 then 0 - charToInt (s.headD 0)
  else
    let (rv, byteCount, right) := cstrLoop ci a s (min a.length n)
    if byteCount = 0 ∧ a.length < n then 0 - charToInt (right.headD 0)
    else rv

end SquidModel.SBuf
