/-
SBuf::Locker and the public append/assign members built on lowAppend.
-/
import SquidModel.SBuf.Append
set_option linter.unusedSimpArgs false
set_option linter.unusedVariables false

namespace SquidModel.SBuf
open Heap

/-- object `i` now holds `x`, nothing else changed -/
structure Sets (h h' : Heap) (i : Nat) (x : Bytes) : Prop where
  inv : Inv h'
  nviews : h'.views.length = h.views.length
  abs : abs h' = (abs h).set i x

theorem exists_concat {α : Type} (l : List α) (hl : 0 < l.length) : ∃ vs vt, l = vs ++ [vt] := by
  rcases List.eq_nil_or_concat l with e | ⟨vs, vt, e⟩
  · rw [e] at hl; simp at hl
  · exact ⟨vs, vt, by rw [e, List.concat_eq_append]⟩

theorem set_append_dropLast {α : Type} (l : List α) (x y : α) (i : Nat) (hi : i < l.length) :
    ((l ++ [x]).set i y).dropLast = l.set i y := by
  rw [List.set_append_left i y hi, List.dropLast_concat]

/-- whether `Locker(this, otherBuffer)` locks -/
def locks (h : Heap) (i : Nat) (other : Option (Nat × Nat)) : Bool :=
  match other with
  | some (b, off) => b == (h.view i).blob && decide (off < (h.blob (h.view i).blob).cap)
  | none => false

theorem withLocker_unfold (h : Heap) (i : Nat) (other : Option (Nat × Nat)) (k : Heap → Out Heap) :
    withLocker h i other k =
      if locks h i other then
        match k (h.pushView ⟨(h.view i).blob, 0, 0⟩) with
        | .ok h2 => .ok h2.popView
        | .thrown h2 => .thrown h2.popView
        | .ub => .ub
      else k h := by
  unfold withLocker locks
  cases other with
  | none => rfl
  | some p => cases p; rfl

/-- the state in which the Locker exists -/
theorem locked_state (hI : Inv h) (i : Nat) (hi : i < h.views.length) :
    let hp := h.pushView ⟨(h.view i).blob, 0, 0⟩
    Inv hp ∧ hp.views.length = h.views.length + 1 ∧ abs hp = abs h ++ [[]] ∧ hp.view i = h.view i ∧
    hp.blobs.length = h.blobs.length ∧ hp.lockCount (h.view i).blob ≠ 1 ∧
    (∀ k, (hp.blob k).data = (h.blob k).data ∧ (hp.blob k).cap = (h.blob k).cap) := by
  have hv := hI.view i hi
  obtain ⟨hpI, hpabs, hpviews, hpdata, hprefs⟩ := hI.pushView ⟨(h.view i).blob, 0, 0⟩ hv.1 (by show 0 + 0 ≤ _; omega)
  refine ⟨hpI, by rw [hpviews]; simp, ?_, ?_, ?_, ?_, hpdata⟩
  · rw [hpabs]; simp [bytesOf]
  · show (h.pushView ⟨(h.view i).blob, 0, 0⟩).views.getD i Heap.nullView = h.views.getD i Heap.nullView
    rw [hpviews, List.getD_eq_getElem?_getD, List.getD_eq_getElem?_getD, List.getElem?_append_left hi]
  · show (h.retain _).blobs.length = _; simp
  · show (((h.pushView ⟨(h.view i).blob, 0, 0⟩)).blob (h.view i).blob).refs ≠ 1
    rw [hprefs]
    have hrc := hI.rc _ hv.1
    have hpos : 0 < h.views.countP (fun v => v.blob == (h.view i).blob) :=
      countP_pos_of_getElem _ h.views i hi (by simp [← Heap.view_eq_getElem h i hi])
    simp; omega

theorem withLocker_locked_ok (hI : Inv h) (i : Nat) (hi : i < h.views.length) (other : Option (Nat × Nat))
    (k : Heap → Out Heap) (hl : locks h i other = true) (h2 : Heap) (x : Bytes)
    (hk : k (h.pushView ⟨(h.view i).blob, 0, 0⟩) = .ok h2) (hs : Sets (h.pushView ⟨(h.view i).blob, 0, 0⟩) h2 i x) :
    withLocker h i other k = .ok h2.popView ∧ Sets h h2.popView i x := by
  rw [withLocker_unfold, if_pos hl, hk]
  refine ⟨rfl, ?_⟩
  obtain ⟨hpI, hpn, hpabs, _, _, _, _⟩ := locked_state hI i hi
  obtain ⟨vs, vt, hvv⟩ := exists_concat h2.views (by rw [hs.nviews, hpn]; omega)
  obtain ⟨pI, pabs, pviews, _⟩ := hs.inv.popView vs vt hvv
  have hlen : vs.length = h.views.length := by
    have := hs.nviews; rw [hvv, hpn] at this; simp at this; exact this
  refine ⟨pI, by rw [pviews]; exact hlen, ?_⟩
  rw [pabs, hs.abs, hpabs]
  exact set_append_dropLast _ _ _ _ (by rw [abs_length]; exact hi)

theorem withLocker_locked_thrown (hI : Inv h) (i : Nat) (hi : i < h.views.length) (other : Option (Nat × Nat))
    (k : Heap → Out Heap) (hl : locks h i other = true) (h2 : Heap)
    (hk : k (h.pushView ⟨(h.view i).blob, 0, 0⟩) = .thrown h2) (hs : Kept (h.pushView ⟨(h.view i).blob, 0, 0⟩) h2) :
    withLocker h i other k = .thrown h2.popView ∧ Kept h h2.popView := by
  rw [withLocker_unfold, if_pos hl, hk]
  refine ⟨rfl, ?_⟩
  obtain ⟨hpI, hpn, hpabs, _, _, _, _⟩ := locked_state hI i hi
  obtain ⟨vs, vt, hvv⟩ := exists_concat h2.views (by rw [hs.nviews, hpn]; omega)
  obtain ⟨pI, pabs, pviews, _⟩ := hs.inv.popView vs vt hvv
  have hlen : vs.length = h.views.length := by
    have := hs.nviews; rw [hvv, hpn] at this; simp at this; exact this
  refine ⟨pI, by rw [pviews]; exact hlen, ?_⟩
  rw [pabs, hs.abs, hpabs, List.dropLast_concat]

theorem withLocker_unlocked (h : Heap) (i : Nat) (other : Option (Nat × Nat)) (k : Heap → Out Heap)
    (hl : locks h i other = false) : withLocker h i other k = k h := by
  rw [withLocker_unfold, hl]; rfl

/-- an unlocked source with something to read lies in another blob -/
theorem unlocked_safe (hI : Inv h) (i : Nat) (hi : i < h.views.length) (src : Src) (bytes : Bytes)
    (hs : SrcOk h src bytes) (hl : locks h i src.ptr = false) : SrcSafe h i src := by
  cases src with
  | ext b => trivial
  | mem sb so n =>
    simp only [SrcSafe]
    intro hn
    simp only [SrcOk] at hs
    obtain ⟨h1, h2, _⟩ := hs.2 hn
    left
    intro e
    subst e
    simp only [locks, Src.ptr, beq_self_eq_true, Bool.true_and, decide_eq_false_iff_not] at hl
    have := (hI.bl _ h1).1
    omega

theorem locked_srcOk (hI : Inv h) (i : Nat) (hi : i < h.views.length) (src : Src) (bytes : Bytes)
    (hs : SrcOk h src bytes) : SrcOk (h.pushView ⟨(h.view i).blob, 0, 0⟩) src bytes := by
  obtain ⟨_, _, _, _, hlen, _, hdata⟩ := locked_state hI i hi
  cases src with
  | ext b => exact hs
  | mem sb so n =>
    simp only [SrcOk] at hs ⊢
    refine ⟨hs.1, fun hn => ?_⟩
    obtain ⟨h1, h2, h3⟩ := hs.2 hn
    simp only [Blob.size, (hdata sb).1, hlen]
    exact ⟨h1, h2, h3⟩

theorem locked_srcSafe (hI : Inv h) (i : Nat) (hi : i < h.views.length) (src : Src) :
    SrcSafe (h.pushView ⟨(h.view i).blob, 0, 0⟩) i src := by
  obtain ⟨_, _, _, hview, _, hlock, _⟩ := locked_state hI i hi
  cases src with
  | ext b => trivial
  | mem sb so n =>
    simp only [SrcSafe]
    intro _
    by_cases e : sb = (h.view i).blob
    · right; rw [e]; exact hlock
    · left; rw [hview]; exact e

/-! ### append(const char *, n) -/

theorem appendArea_ok (hc : AllocOk c) (hI : Inv h) (i : Nat) (hi : i < h.views.length) (src : Src) (bytes : Bytes)
    (hs : SrcOk h src bytes) (hfit : (h.view i).len + bytes.length ≤ maxSize) :
    ∃ h', appendArea c h i src = .ok h' ∧ Sets h h' i (bytesOf h (h.view i) ++ bytes) := by
  unfold appendArea
  by_cases hl : locks h i src.ptr = true
  · obtain ⟨hpI, hpn, hpabs, hpview, _, _, hpdata⟩ := locked_state hI i hi
    have hi' : i < (h.pushView ⟨(h.view i).blob, 0, 0⟩).views.length := by rw [hpn]; omega
    have hbytes : bytesOf (h.pushView ⟨(h.view i).blob, 0, 0⟩) ((h.pushView ⟨(h.view i).blob, 0, 0⟩).view i) = bytesOf h (h.view i) := by
      rw [hpview]; simp only [bytesOf, (hpdata _).1]
    obtain ⟨h2, h2eq, h2I, h2n, h2abs⟩ := lowAppend_ok hc hpI i hi' src bytes (locked_srcOk hI i hi src bytes hs)
      (locked_srcSafe hI i hi src) (by rw [hpview]; exact hfit)
    rw [hbytes] at h2abs
    obtain ⟨e, s⟩ := withLocker_locked_ok hI i hi src.ptr (fun h => lowAppend c h i src) hl h2 _ h2eq ⟨h2I, h2n, h2abs⟩
    exact ⟨_, e, s⟩
  · have hl' : locks h i src.ptr = false := by simpa using hl
    rw [withLocker_unlocked _ _ _ _ hl']
    obtain ⟨h2, h2eq, h2I, h2n, h2abs⟩ := lowAppend_ok hc hI i hi src bytes hs (unlocked_safe hI i hi src bytes hs hl') hfit
    exact ⟨h2, h2eq, h2I, h2n, h2abs⟩

theorem appendArea_thrown (hI : Inv h) (i : Nat) (hi : i < h.views.length) (src : Src) (bytes : Bytes)
    (hs : SrcOk h src bytes) (hnW : bytes.length < W)
    (hwrap : Gen.SBufConsts.rawSpaceDiffWraps = true → (h.view i).len + bytes.length < npos)
    (hbig : maxSize < (h.view i).len + bytes.length) :
    ∃ h', appendArea c h i src = .thrown h' ∧ Kept h h' := by
  unfold appendArea
  by_cases hl : locks h i src.ptr = true
  · obtain ⟨hpI, hpn, hpabs, hpview, _, _, hpdata⟩ := locked_state hI i hi
    have hi' : i < (h.pushView ⟨(h.view i).blob, 0, 0⟩).views.length := by rw [hpn]; omega
    obtain ⟨h2, h2eq, h2k⟩ := lowAppend_thrown (c := c) hpI i hi' src bytes (locked_srcOk hI i hi src bytes hs) hnW
      (by rw [hpview]; exact hwrap) (by rw [hpview]; exact hbig)
    obtain ⟨e, s⟩ := withLocker_locked_thrown hI i hi src.ptr (fun h => lowAppend c h i src) hl h2 h2eq h2k
    exact ⟨_, e, s⟩
  · have hl' : locks h i src.ptr = false := by simpa using hl
    rw [withLocker_unlocked _ _ _ _ hl']
    exact lowAppend_thrown hI i hi src bytes hs hnW hwrap hbig

end SquidModel.SBuf
