/-
Specification of SBuf::cow and SBuf::rawSpace.
-/
import SquidModel.SBuf.Storage
set_option linter.unusedSimpArgs false
set_option linter.unusedVariables false

namespace SquidModel.SBuf
open Heap

theorem take_drop_take {α : Type} (l : List α) (off len : Nat) :
    ((l.take (off + len)).drop off).take len = (l.drop off).take len := by
  rw [List.drop_take, List.take_take]
  have : min len (off + len - off) = len := by omega
  rw [this]

/-- the normalised request of cow(newsize) -/
def cowSize (h : Heap) (i newsize : Nat) : Nat :=
  if newsize = npos ∨ newsize < (h.view i).len then (h.view i).len else newsize

/-- `store_->syncSize(off_ + length())` by the only owner: bytes behind our end are forgotten -/
theorem syncSize_step (hI : Inv h) (i : Nat) (hi : i < h.views.length) (h1 : h.lockCount (h.view i).blob = 1) :
    ∃ hs, blobSyncSize h (h.view i).blob ((h.view i).off + (h.view i).len) = .ok hs ∧ Moved h hs i ∧
      hs.view i = h.view i ∧ hs.blobs.length = h.blobs.length ∧ hs.lockCount (h.view i).blob = 1 ∧
      (hs.blob (h.view i).blob).data = (h.blob (h.view i).blob).data.take ((h.view i).off + (h.view i).len) ∧
      (hs.blob (h.view i).blob).cap = (h.blob (h.view i).blob).cap ∧
      (∀ b, b ≠ (h.view i).blob → hs.blob b = h.blob b) := by
  have hv := hI.view i hi
  have hbl := hI.bl _ hv.1
  have hlen : ((h.blob (h.view i).blob).data.take ((h.view i).off + (h.view i).len)).length = (h.view i).off + (h.view i).len := by
    rw [List.length_take]; have := hv.2; simp only [Blob.size] at this; omega
  have hrw := hI.rewriteExclusive i hi h1 ((h.blob (h.view i).blob).data.take ((h.view i).off + (h.view i).len)) (h.view i) rfl
    (by rw [hlen]; have := hv.2; omega) (by rw [hlen]; exact Nat.le_refl _)
  have hself : (h.setBlob (h.view i).blob { h.blob (h.view i).blob with data := (h.blob (h.view i).blob).data.take ((h.view i).off + (h.view i).len) }).setView i (h.view i)
      = h.setBlob (h.view i).blob { h.blob (h.view i).blob with data := (h.blob (h.view i).blob).data.take ((h.view i).off + (h.view i).len) } :=
    Heap.setView_self _ i (by simpa using hi)
  rw [hself] at hrw
  have hsame := Heap.blob_setBlob_same h (h.view i).blob
    { h.blob (h.view i).blob with data := (h.blob (h.view i).blob).data.take ((h.view i).off + (h.view i).len) } hv.1
  refine ⟨_, ?_, ⟨⟨hrw.1, by simp, ?_⟩, rfl, by simp, ?_⟩, rfl, by simp, ?_, ?_, ?_, ?_⟩
  · unfold blobSyncSize
    rw [if_neg (by rw [h1]; omega), if_neg (by have := hv.2; omega)]
  · rw [hrw.2, take_drop_take]
    exact abs_set_self h i hi
  · intro b hb hcase
    rcases hcase with hne | hne
    · rw [Heap.blob_setBlob_ne _ _ _ _ (Ne.symm hne)]
    · by_cases e : b = (h.view i).blob
      · subst e; exact absurd h1 hne
      · rw [Heap.blob_setBlob_ne _ _ _ _ (Ne.symm e)]
  · show ((h.setBlob _ _).blob (h.view i).blob).refs = 1
    rw [hsame]; exact h1
  · rw [hsame]
  · rw [hsame]
  · intro b hb; exact Heap.blob_setBlob_ne _ _ _ _ (Ne.symm hb)

/-- `store_->consume(off_); off_ = 0` by the only owner whose area is the whole used part from `off_` on -/
theorem shift_step (hI : Inv h) (i : Nat) (hi : i < h.views.length) (h1 : h.lockCount (h.view i).blob = 1)
    (htail : AtTail h i) (hoff : (h.view i).off ≠ 0) :
    ∃ h2, blobConsume h (h.view i).blob (h.view i).off = .ok h2 ∧
      Moved h (h2.setView i { h.view i with off := 0 }) i ∧
      (h2.setView i { h.view i with off := 0 }).view i = { h.view i with off := 0 } ∧
      ((h2.setView i { h.view i with off := 0 }).blob (h.view i).blob).size = (h.view i).len ∧
      ((h2.setView i { h.view i with off := 0 }).blob (h.view i).blob).cap = (h.blob (h.view i).blob).cap ∧
      (h2.setView i { h.view i with off := 0 }).lockCount (h.view i).blob = 1 := by
  have hv := hI.view i hi
  have hbl := hI.bl _ hv.1
  unfold AtTail at htail
  have hsz : (h.blob (h.view i).blob).size ≠ 0 := by omega
  have hmin : min (h.view i).off (h.blob (h.view i).blob).size = (h.view i).off := by omega
  have hdl : ((h.blob (h.view i).blob).data.drop (h.view i).off).length = (h.view i).len := by
    rw [List.length_drop]; simp only [Blob.size] at htail; omega
  have hrw := hI.rewriteExclusive i hi h1 ((h.blob (h.view i).blob).data.drop (h.view i).off) { h.view i with off := 0 } rfl
    (by rw [hdl]; show (h.view i).len ≤ (h.blob (h.view i).blob).cap; omega) (by rw [hdl]; show 0 + (h.view i).len ≤ _; omega)
  have hsame := Heap.blob_setBlob_same h (h.view i).blob
    { h.blob (h.view i).blob with data := (h.blob (h.view i).blob).data.drop (h.view i).off } hv.1
  refine ⟨h.setBlob (h.view i).blob { h.blob (h.view i).blob with data := (h.blob (h.view i).blob).data.drop (h.view i).off }, ?_,
    ⟨⟨hrw.1, by simp, ?_⟩, ?_, by simp, ?_⟩, ?_, ?_, ?_, ?_⟩
  · unfold blobConsume
    rw [if_pos ⟨hoff, hsz⟩, if_neg (by rw [h1]; omega), hmin]
  · rw [hrw.2]
    show (abs h).set i (List.take (h.view i).len (List.drop 0 ((h.blob (h.view i).blob).data.drop (h.view i).off))) = abs h
    rw [List.drop_zero]
    exact abs_set_self h i hi
  · rw [Heap.view_setView_same _ _ _ (by simpa using hi)]
  · intro b hb hcase
    show ((h.setBlob _ _).blob b).data = _
    rcases hcase with hne | hne
    · rw [Heap.blob_setBlob_ne _ _ _ _ (Ne.symm hne)]
    · by_cases e : b = (h.view i).blob
      · subst e; exact absurd h1 hne
      · rw [Heap.blob_setBlob_ne _ _ _ _ (Ne.symm e)]
  · rw [Heap.view_setView_same _ _ _ (by simpa using hi)]
  · show ((h.setBlob _ _).blob (h.view i).blob).size = _
    rw [hsame]; exact hdl
  · show ((h.setBlob _ _).blob (h.view i).blob).cap = _
    rw [hsame]
  · show ((h.setBlob _ _).blob (h.view i).blob).refs = 1
    rw [hsame]; exact h1

theorem Moved.trans (a : Moved h h1 i) (b : Moved h1 h2 i) (hv : (h1.view i).blob = (h.view i).blob)
    (hl : h1.lockCount (h.view i).blob = h.lockCount (h.view i).blob)
    (hother : ∀ k, k ≠ (h.view i).blob → k < h.blobs.length → h1.lockCount k = h.lockCount k) : Moved h h2 i := by
  refine ⟨a.toKept.trans b.toKept, by rw [b.len, a.len], Nat.le_trans a.grow b.grow, ?_⟩
  intro k hk hcase
  have hk1 : k < h1.blobs.length := Nat.lt_of_lt_of_le hk a.grow
  rw [b.frame k hk1 ?_, a.frame k hk hcase]
  rcases hcase with hne | hne
  · left; rw [hv]; exact hne
  · by_cases e : k = (h.view i).blob
    · right; rw [e, hl]; rw [e] at hne; exact hne
    · left; rw [hv]; exact e

end SquidModel.SBuf
