/-
Specifications of the storage-management members: reAlloc, cow, rawSpace.
Every one of them leaves the value of every object untouched (`Kept`), and says where object `i` ends up.
-/
import SquidModel.SBuf.Inv2
set_option linter.unusedSimpArgs false
set_option linter.unusedVariables false

namespace SquidModel.SBuf
open Heap

@[simp] theorem Out.ok_bind {α β : Type} (a : α) (f : α → Out β) : (Out.ok a >>= f) = f a := rfl
@[simp] theorem Out.thrown_bind {α β : Type} (h : Heap) (f : α → Out β) : ((Out.thrown h : Out α) >>= f) = Out.thrown h := rfl
@[simp] theorem Out.ub_bind {α β : Type} (f : α → Out β) : ((Out.ub : Out α) >>= f) = Out.ub := rfl
@[simp] theorem Out.pure_eq {α : Type} (a : α) : (pure a : Out α) = Out.ok a := rfl

/-! constants (re-checked by the kernel whenever Gen/SBufConsts is regenerated) -/
theorem npos_succ : npos + 1 = W := by decide
theorem two_max_lt : 2 * maxSize + 2 < npos := by decide
theorem W_pos : 0 < W := by decide

/-- nothing observable changed -/
structure Kept (h h' : Heap) : Prop where
  inv : Inv h'
  nviews : h'.views.length = h.views.length
  abs : abs h' = abs h

/-- a storage step on object `i`: values kept, `i` keeps its length, and every blob that `i` does not own
    exclusively keeps its bytes (so pointers into them stay readable) -/
structure Moved (h h' : Heap) (i : Nat) : Prop extends Kept h h' where
  len : (h'.view i).len = (h.view i).len
  grow : h.blobs.length ≤ h'.blobs.length
  frame : ∀ b, b < h.blobs.length → (b ≠ (h.view i).blob ∨ h.lockCount b ≠ 1) → (h'.blob b).data = (h.blob b).data

/-- object `i` ends exactly where the used part of its blob ends, with `room` free bytes behind -/
def AtTail (h : Heap) (i : Nat) : Prop :=
  (h.view i).off + (h.view i).len = (h.blob (h.view i).blob).size

def roomOf (h : Heap) (i : Nat) : Nat := (h.blob (h.view i).blob).cap - ((h.view i).off + (h.view i).len)

theorem Kept.refl (hI : Inv h) : Kept h h := ⟨hI, rfl, rfl⟩

theorem Kept.trans (a : Kept h h1) (b : Kept h1 h2) : Kept h h2 :=
  ⟨b.inv, by rw [b.nviews, a.nviews], by rw [b.abs, a.abs]⟩

theorem Heap.setView_self (h : Heap) (i : Nat) (hi : i < h.views.length) : h.setView i (h.view i) = h := by
  cases h with
  | mk blobs views =>
    simp only [Heap.setView, Heap.view]
    congr 1
    apply List.ext_getElem?
    intro k
    rw [List.getElem?_set]
    by_cases e : i = k
    · subst e
      simp at hi
      simp [List.getD_eq_getElem?_getD, hi]
    · simp [e]

theorem abs_set_self (h : Heap) (i : Nat) (hi : i < h.views.length) : (abs h).set i (bytesOf h (h.view i)) = abs h := by
  have hl : i < (abs h).length := by rw [abs_length]; exact hi
  apply List.ext_getElem?
  intro k
  rw [List.getElem?_set]
  by_cases e : i = k
  · subst e
    rw [if_pos rfl, if_pos hl, List.getElem?_eq_getElem hl]
    simp only [abs, List.getElem_map, Heap.view_eq_getElem h i hi]
  · rw [if_neg e]

/-- the heap with one more blob -/
def Heap.withBlob (h : Heap) (x : Blob) : Heap := { h with blobs := h.blobs ++ [x] }

theorem Heap.withBlob_blob_new (h : Heap) (x : Blob) : (h.withBlob x).blob h.blobs.length = x := Heap.blob_append_new h x
theorem Heap.withBlob_blob_old (h : Heap) (x : Blob) (b : Nat) (hb : b < h.blobs.length) : (h.withBlob x).blob b = h.blob b :=
  Heap.blob_append_old h x b hb
theorem Heap.withBlob_views (h : Heap) (x : Blob) : (h.withBlob x).views = h.views := rfl
theorem Heap.withBlob_length (h : Heap) (x : Blob) : (h.withBlob x).blobs.length = h.blobs.length + 1 := by
  simp [Heap.withBlob]
theorem Heap.withBlob_view (h : Heap) (x : Blob) (i : Nat) : (h.withBlob x).view i = h.view i := rfl

theorem Inv.withBlob (hI : Inv h) (x : Blob) (h1 : x.size ≤ x.cap) (h2 : x.cap ≤ maxSize) (h3 : x.refs = 0) :
    Inv (h.withBlob x) ∧ abs (h.withBlob x) = abs h := hI.pushBlob x h1 h2 h3

/-! ### reAlloc -/

theorem reAlloc_ok (hc : AllocOk c) (hI : Inv h) (i : Nat) (hi : i < h.views.length) (ns : Nat)
    (hge : (h.view i).len ≤ ns) (hle : ns ≤ maxSize) :
    ∃ h', reAlloc c h i ns = .ok h' ∧ Moved h h' i ∧
      h'.view i = ⟨h.blobs.length, 0, (h.view i).len⟩ ∧
      (h'.blob h.blobs.length).size = (h.view i).len ∧ (h'.blob h.blobs.length).cap = c.alloc ns ∧
      (∀ b, b < h.blobs.length → (h'.blob b).data = (h.blob b).data) ∧ h'.lockCount h.blobs.length = 1 := by
  have hcont := hI.contents i hi
  have hblen : (bytesOf h (h.view i)).length = (h.view i).len := bytesOf_length hI _ (view_mem h i hi)
  have hcap : (h.view i).len ≤ c.alloc ns := Nat.le_trans hge (hc.ge ns)
  generalize hx : (⟨bytesOf h (h.view i), c.alloc ns, 0⟩ : Blob) = x
  have hxd : x.data = bytesOf h (h.view i) := by rw [← hx]
  have hxc : x.cap = c.alloc ns := by rw [← hx]
  have hxr : x.refs = 0 := by rw [← hx]
  -- the state the function computes
  have heq : reAlloc c h i ns = .ok (((h.withBlob x).setStore i h.blobs.length).setView i ⟨h.blobs.length, 0, (h.view i).len⟩) := by
    unfold reAlloc
    rw [if_neg (by omega), ← hx]
    by_cases hpos : (h.view i).len > 0
    · simp only [hpos, if_true, hcont, hcap]
      rfl
    · have hz : (h.view i).len = 0 := by omega
      have hnil : bytesOf h (h.view i) = [] := by
        apply List.eq_nil_of_length_eq_zero; rw [hblen, hz]
      simp only [hpos, if_false, hnil]
      rfl
  have hIp := hI.withBlob x (by simp only [Blob.size, hxd, hblen, hxc]; exact hcap) (by rw [hxc]; exact hc.le ns hle) hxr
  have hnew := Heap.withBlob_blob_new h x
  have hrp := hIp.1.repoint i (by rw [Heap.withBlob_views]; exact hi) ⟨h.blobs.length, 0, (h.view i).len⟩
    (by rw [Heap.withBlob_length]; exact Nat.lt_succ_self _)
    (by show 0 + (h.view i).len ≤ ((h.withBlob x).blob h.blobs.length).size
        rw [hnew]; simp only [Blob.size, hxd, hblen]; omega)
  have hvi : (((h.withBlob x).setStore i h.blobs.length).setView i ⟨h.blobs.length, 0, (h.view i).len⟩).view i =
      ⟨h.blobs.length, 0, (h.view i).len⟩ :=
    Heap.view_setView_same _ _ _ (by simp [Heap.setStore, Heap.withBlob_views]; exact hi)
  have hold : ∀ b, b < h.blobs.length →
      ((((h.withBlob x).setStore i h.blobs.length).setView i ⟨h.blobs.length, 0, (h.view i).len⟩).blob b).data = (h.blob b).data := by
    intro b hb
    rw [(hrp.2.2 b).1, Heap.withBlob_blob_old h x b hb]
  have hlock : ((((h.withBlob x).setStore i h.blobs.length).setView i ⟨h.blobs.length, 0, (h.view i).len⟩).blob h.blobs.length).refs = 1 := by
    rw [(hrp.2.2 h.blobs.length).2.2, hnew, hxr]
    have hne : ¬ ((h.withBlob x).view i).blob = h.blobs.length := by
      rw [Heap.withBlob_view]; have := (hI.view i hi).1; omega
    simp [hne]
  refine ⟨_, heq, ⟨⟨hrp.1, ?_, ?_⟩, ?_, ?_, ?_⟩, hvi, ?_, ?_, hold, hlock⟩
  · simp [Heap.setStore, Heap.withBlob_views]
  · rw [hrp.2.1, hIp.2]
    have : bytesOf (h.withBlob x) ⟨h.blobs.length, 0, (h.view i).len⟩ = bytesOf h (h.view i) := by
      show List.take (h.view i).len (List.drop 0 ((h.withBlob x).blob h.blobs.length).data) = _
      rw [hnew, hxd, List.drop_zero, List.take_of_length_le (by rw [hblen]; exact Nat.le_refl _)]
    rw [this]
    exact abs_set_self h i hi
  · rw [hvi]
  · rw [Heap.blobs_length_setStore_setView, Heap.withBlob_length]; omega
  · intro b hb _
    exact hold b hb
  · simp only [Blob.size, (hrp.2.2 h.blobs.length).1, hnew, hxd, hblen]
  · rw [(hrp.2.2 h.blobs.length).2.1, hnew, hxc]

theorem reAlloc_thrown (h : Heap) (i ns : Nat) (hgt : maxSize < ns) : reAlloc c h i ns = .thrown h := by
  unfold reAlloc
  rw [if_pos hgt]

end SquidModel.SBuf
