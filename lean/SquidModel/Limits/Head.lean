/-
C62 model: header size limits.

Request side (src/http/one/RequestParser.cc parseRequestFirstLine, src/http/one/Parser.cc grabMimeBlock, src/client_side.cc):
after a needs-more outcome the connection buffer holds fewer than `limit` bytes (`Must(inBuf.length() < Config.maxRequestHeaderSize)`),
but one read may add more than that (the buffer is bounded by client_request_buffer_max_size only). With `F` = size of the request line
including its terminator, `M` = size of the header block including the blank line, `n` = bytes buffered so far:
  * request line incomplete (n < F): `buf_.length() >= limit` ⇒ 414 (URI too long), else need more;
  * request line complete: header terminator present (n ≥ F + M): `firstLineSize() + mimeHeaderBytes >= limit` ⇒ 431, else accept;
    terminator absent: `buf_.length() + firstLineSize() >= limit` (buf_ no longer holds the line) ⇒ 431, else need more.
Reply side (src/http/one/ResponseParser.cc + grabMimeBlock with reply_header_max_size, src/http.cc): same two checks; a too-large
reply head makes Squid generate an error instead of relaying the reply.
-/
namespace SquidModel.Limits

inductive Verdict | needMore | accept | uriTooLong | headerTooLarge
  deriving DecidableEq, Repr

/-- outcome of one parse attempt with `n` bytes buffered -/
def parseAt (L F M n : Nat) : Verdict :=
  if n < F then
    if n ≥ L then .uriTooLong else .needMore
  else if n ≥ F + M then
    if F + M ≥ L then .headerTooLarge else .accept
  else
    if (n - F) + F ≥ L then .headerTooLarge else .needMore

/-- the verdict after a sequence of arrivals (buffer sizes after each read): the first parse that does not ask for more -/
def firstVerdict (L F M : Nat) : List Nat → Verdict
  | [] => .needMore
  | n :: rest => match parseAt L F M n with
    | .needMore => firstVerdict L F M rest
    | v => v

def Verdict.isReject : Verdict → Bool
  | .uriTooLong | .headerTooLarge => true
  | _ => false

/-- reply head of size `H` (status line + headers + blank line) against reply_header_max_size `R` -/
def replyRelayed (R H : Nat) : Bool := H < R

end SquidModel.Limits
