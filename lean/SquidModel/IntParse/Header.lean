/-
Model of `httpHeaderParseOffset` and `httpHeaderParseInt` (src/HttpHeaderTools.cc).
The libc conversions they call are *specified* here after ISO C 7.22.1.4 (as glibc implements it):
`strtol10 lo hi` = optional white space, optional sign, a maximal run of decimal digits; the value saturates at
`lo`/`hi` with `ERANGE`; without digits the result is 0 and `end == start`. `atoi(s)` is `(int) strtol(s, NULL, 10)`
(glibc; ISO C leaves out-of-range `atoi` undefined) — the truncation to 32 bits is explicit (`toI32`). Core-only.
-/
import SquidModel.Base.TokInt
namespace SquidModel
namespace IntParse
open Tok (toI32)
open Gen.TokConsts (llongMax llongMin longMax longMin intMax intMin parseIntUsesAtoi)

/-- `isspace` in the C locale -/
def isSpaceC (c : UInt8) : Bool := c = 32 || (decide (9 ≤ c) && decide (c ≤ 13))
/-- `isdigit` -/
def isDigitC (c : UInt8) : Bool := decide (48 ≤ c) && decide (c ≤ 57)

/-- value of a run of decimal digits (arbitrary precision) -/
def decVal (ds : Bytes) : Nat := ds.foldl (fun a c => a * 10 + (c.toNat - 48)) 0

structure StrtolOut where
  res : Int
  /-- `end - start` -/
  endOff : Nat
  /-- errno was set to ERANGE -/
  erange : Bool
  deriving DecidableEq, Repr

/-- the lexical split strtol performs: (white-space length, negative?, sign length, digit run) -/
def lexDec (s : Bytes) : Nat × Bool × Nat × Bytes :=
  let ws := (s.takeWhile isSpaceC).length
  let s1 := s.drop ws
  let sg : Bool × Nat := match s1 with
    | c :: _ => if c = 45 then (true, 1) else if c = 43 then (false, 1) else (false, 0)
    | [] => (false, 0)
  let ds := (s1.drop sg.2).takeWhile isDigitC
  (ws, sg.1, sg.2, ds)

/-- `strtol`/`strtoll(s, &end, 10)` with result type range `[lo, hi]` -/
def strtol10 (lo hi : Int) (s : Bytes) : StrtolOut :=
  let (ws, neg, nsign, ds) := lexDec s
  if ds.isEmpty then ⟨0, 0, false⟩ else
  let v : Int := if neg then -(decVal ds : Int) else (decVal ds : Int)
  let e := ws + nsign + ds.length
  if v > hi then ⟨hi, e, true⟩ else if v < lo then ⟨lo, e, true⟩ else ⟨v, e, false⟩

/-- `httpHeaderParseOffset(start, &value, &end)` → `some (value, end - start)`, `none` = returned false -/
def parseOffset (s : Bytes) : Option (Int × Nat) :=
  let r := strtol10 llongMin llongMax s            -- `errno = 0; res = strtoll(start, &end, 10);`
  if r.erange && r.res == 0 then none              -- `if (errno && !res)`
  else if r.erange && (r.res == llongMin || r.res == llongMax) then none
  else if r.endOff == 0 then none                  -- `if (start == end)`
  else some (r.res, r.endOff)

/-- `atoi(s)` as glibc computes it -/
def atoiC (s : Bytes) : Int := toI32 (Tok.toU64 (strtol10 longMin longMax s).res)

/-- `*start` of a C string (NUL when empty) -/
def firstChar (s : Bytes) : UInt8 := s.headD 0

/-- `httpHeaderParseInt(start, &value)` → `some value`, `none` = returned 0.
With `usesAtoi = false` this is the range-checked candidate repair (notes/fixes/C27-parseint-wraps.diff). -/
def parseIntCore (usesAtoi : Bool) (s : Bytes) : Option Int :=
  if usesAtoi then
    let v := atoiC s                                -- `*value = atoi(start);`
    if v == 0 && !isDigitC (firstChar s) then none  -- `if (!*value && !xisdigit(*start))`
    else some v
  else
    let r := strtol10 longMin longMax s
    if r.endOff == 0 || r.erange || decide (r.res < intMin) || decide (r.res > intMax) then none
    else if r.res == 0 && !isDigitC (firstChar s) then none
    else some r.res

/-- the code as it stands in the staged tree -/
def parseInt (s : Bytes) : Option Int := parseIntCore parseIntUsesAtoi s

end IntParse
end SquidModel
