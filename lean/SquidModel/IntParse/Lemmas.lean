/-
What `httpHeaderParseOffset` / `httpHeaderParseInt` compute, relative to the exact (unbounded) value of the
`[white space][sign]digits` prefix of the string. Core-only.
-/
import SquidModel.IntParse.Header
set_option linter.unusedSimpArgs false
namespace SquidModel
namespace IntParse
open Tok (toI32 toU64)
open Gen.TokConsts

/-- the exact value and length of the `[ws][sign]digits` prefix; `none` when there is no digit -/
def exactDec (s : Bytes) : Option (Int × Nat) :=
  if (lexDec s).2.2.2.isEmpty then none
  else some (if (lexDec s).2.1 then -(decVal (lexDec s).2.2.2 : Int) else (decVal (lexDec s).2.2.2 : Int),
             (lexDec s).1 + (lexDec s).2.2.1 + (lexDec s).2.2.2.length)

theorem exactDec_end_pos {s : Bytes} {v : Int} {e : Nat} (h : exactDec s = some (v, e)) : 0 < e := by
  unfold exactDec at h
  split at h
  · cases h
  · rename_i hne
    injection h with h; injection h with _ h2
    have : 0 < (lexDec s).2.2.2.length := by
      cases hd : (lexDec s).2.2.2 with
      | nil => simp [hd] at hne
      | cons _ _ => simp
    omega

/-- `strtol10` returns the exact value when it fits, and saturates with ERANGE otherwise -/
theorem strtol10_eq (lo hi : Int) (s : Bytes) :
    strtol10 lo hi s = match exactDec s with
      | none => ⟨0, 0, false⟩
      | some (v, e) => if v > hi then ⟨hi, e, true⟩ else if v < lo then ⟨lo, e, true⟩ else ⟨v, e, false⟩ := by
  unfold strtol10 exactDec
  split
  rename_i x ws neg nsign ds heq
  simp only [heq]
  split <;> rfl

/-- **httpHeaderParseOffset is exact**: it succeeds exactly when a digit run is present and its (signed) value fits
`long long`, and then returns that value and the length of `[ws][sign]digits`. -/
theorem parseOffset_eq (s : Bytes) :
    parseOffset s = match exactDec s with
      | none => none
      | some (v, e) => if llongMin ≤ v ∧ v ≤ llongMax then some (v, e) else none := by
  unfold parseOffset
  rw [strtol10_eq]
  cases hx : exactDec s with
  | none => simp
  | some p =>
    obtain ⟨v, e⟩ := p
    have he := exactDec_end_pos hx
    simp only [llongMax, llongMin]
    by_cases h1 : v > 9223372036854775807
    · have : ¬ (-9223372036854775808 ≤ v ∧ v ≤ 9223372036854775807) := by omega
      simp [h1, this]
    · by_cases h2 : v < -9223372036854775808
      · have : ¬ (-9223372036854775808 ≤ v ∧ v ≤ 9223372036854775807) := by omega
        simp [h1, h2, this]
      · have : -9223372036854775808 ≤ v ∧ v ≤ 9223372036854775807 := by omega
        have he0 : ¬ e = 0 := by omega
        simp [h1, h2, this, he0]

theorem toI32_toU64_of_range (v : Int) (h1 : -2147483648 ≤ v) (h2 : v ≤ 2147483647) : toI32 (toU64 v) = v := by
  unfold toI32 toU64 Tok.two64
  by_cases hv : 0 ≤ v
  · have e : v % (18446744073709551616 : Nat) = v := Int.emod_eq_of_lt hv (by omega)
    rw [e]
    have : v.toNat % 4294967296 = v.toNat := Nat.mod_eq_of_lt (by omega)
    rw [this]
    have : v.toNat < 2147483648 := by omega
    simp [this]; omega
  · have e : v % (18446744073709551616 : Nat) = v + 18446744073709551616 := by
      rw [Int.emod_def]
      have : v / ((18446744073709551616 : Nat) : Int) = -1 := by omega
      rw [this]; omega
    rw [e]
    have h3 : (v + 18446744073709551616).toNat % 4294967296 = (v + 4294967296).toNat := by omega
    rw [h3]
    have : ¬ (v + 4294967296).toNat < 2147483648 := by omega
    simp [this]; omega

/-- no digit run ⇒ the string does not start with a digit -/
theorem firstChar_not_digit_of_none {s : Bytes} (h : exactDec s = none) : isDigitC (firstChar s) = false := by
  unfold exactDec lexDec at h
  cases s with
  | nil => rfl
  | cons c r =>
    by_cases hd : isDigitC c = true
    · exfalso
      have hsp : isSpaceC c = false := by
        simp only [isDigitC, Bool.and_eq_true, decide_eq_true_eq] at hd
        simp only [isSpaceC, Bool.or_eq_false_iff, Bool.and_eq_false_iff, decide_eq_false_iff_not, beq_eq_false_iff_ne]
        have h1 := UInt8.le_iff_toNat_le.mp hd.1
        have h2 := UInt8.le_iff_toNat_le.mp hd.2
        refine ⟨?_, Or.inr ?_⟩
        · intro e; rw [e] at h1; simp at h1
        · intro e; have := UInt8.le_iff_toNat_le.mp e; simp at *; omega
      have h45 : c ≠ 45 := by
        intro e; rw [e] at hd; simp [isDigitC] at hd
      have h43 : c ≠ 43 := by
        intro e; rw [e] at hd; simp [isDigitC] at hd
      simp [List.takeWhile_cons, hsp, h45, h43, hd] at h
    · simpa [firstChar] using hd

/-- **httpHeaderParseInt is exact when the value fits an `int`** (partial: see the counterexample below).
Full statement, false for the atoi-based code: "httpHeaderParseInt returns the exact value or fails". -/
theorem parseInt_atoi_partial (s : Bytes) :
    parseIntCore true s = match exactDec s with
      | none => none
      | some (v, _) =>
        if intMin ≤ v ∧ v ≤ intMax then (if v = 0 ∧ isDigitC (firstChar s) = false then none else some v)
        else parseIntCore true s := by
  cases hx : exactDec s with
  | none =>
    simp only
    unfold parseIntCore atoiC
    rw [strtol10_eq, hx]
    have := firstChar_not_digit_of_none hx
    simp [this, toI32, toU64]
  | some p =>
    obtain ⟨v, e⟩ := p
    simp only
    by_cases hr : intMin ≤ v ∧ v ≤ intMax
    · simp only [hr, and_self, if_true]
      unfold parseIntCore atoiC
      rw [strtol10_eq, hx]
      simp only [intMin, intMax, longMin, longMax] at *
      have h1 : ¬ v > 9223372036854775807 := by omega
      have h2 : ¬ v < -9223372036854775808 := by omega
      simp only [h1, h2, if_false, if_true]
      rw [toI32_toU64_of_range v hr.1 hr.2]
      by_cases hv : v = 0
      · subst hv
        by_cases hd : isDigitC (firstChar s) = true
        · simp [hd]
        · simp [hd]
      · simp [hv]
    · simp [hr]

/-- the range-checked variant (candidate repair) is exact: value or failure, never a wrapped value -/
theorem parseInt_checked_eq (s : Bytes) :
    parseIntCore false s = match exactDec s with
      | none => none
      | some (v, _) =>
        if intMin ≤ v ∧ v ≤ intMax then (if v = 0 ∧ isDigitC (firstChar s) = false then none else some v) else none := by
  unfold parseIntCore
  rw [strtol10_eq]
  cases hx : exactDec s with
  | none => simp
  | some p =>
    obtain ⟨v, e⟩ := p
    have he := exactDec_end_pos hx
    have he0 : ¬ e = 0 := by omega
    simp only [intMin, intMax, longMin, longMax] at *
    by_cases h1 : v > 9223372036854775807
    · have : ¬ (-2147483648 ≤ v ∧ v ≤ 2147483647) := by omega
      simp [h1, this]
    · by_cases h2 : v < -9223372036854775808
      · have : ¬ (-2147483648 ≤ v ∧ v ≤ 2147483647) := by omega
        simp [h1, h2, this]
      · simp only [h1, h2, if_false, Bool.false_eq_true]
        by_cases hr : -2147483648 ≤ v ∧ v ≤ 2147483647
        · have a1 : ¬ v < -2147483648 := by omega
          have a2 : ¬ v > 2147483647 := by omega
          simp only [hr, and_self, if_true, he0, a1, a2, beq_iff_eq, decide_false, Bool.or_self, Bool.false_eq_true, if_false]
          by_cases hv : v = 0
          · subst hv
            by_cases hd : isDigitC (firstChar s) = true
            · simp [hd, he0]
            · simp [hd, he0]
          · simp [hv, he0]
        · have : (v < -2147483648) ∨ (v > 2147483647) := by omega
          rcases this with a | a <;> simp [hr, a]

end IntParse
end SquidModel
