/-
Prefix-monotonicity of the tokenizer primitives: once an operation has produced a definite answer on `x`
without running into the end of `x`, it produces the same answer on `x ++ b`.
-/
import SquidModel.Http1Resp.Tok

namespace SquidModel.Http1Resp

theorem isPrefixOf_append_of_isPrefixOf {t x : Bytes} (b : Bytes) (h : t.isPrefixOf x = true) :
    t.isPrefixOf (x ++ b) = true := by
  rw [List.isPrefixOf_iff_prefix] at h ⊢
  exact List.IsPrefix.trans h (List.prefix_append x b)

/-- if `t` is a prefix of `x ++ b` then `t` is a prefix of `x` or `x` is a proper prefix of `t` -/
theorem prefix_append_cases {t x b : Bytes} (h : t.isPrefixOf (x ++ b) = true) :
    t.isPrefixOf x = true ∨ (x.length < t.length ∧ x.isPrefixOf t = true) := by
  induction t generalizing x with
  | nil => left; simp
  | cons c t ih =>
    cases x with
    | nil => right; simp
    | cons d x =>
      simp only [List.cons_append, List.isPrefixOf_cons_cons, Bool.and_eq_true, beq_iff_eq] at h ⊢
      rcases ih h.2 with h1 | ⟨h1, h2⟩
      · left; exact ⟨h.1, h1⟩
      · right; exact ⟨by simp; omega, by simp [h.1, h2]⟩

theorem skip_append {t x r : Bytes} (b : Bytes) (h : skip t x = some r) : skip t (x ++ b) = some (r ++ b) := by
  unfold skip at h ⊢
  split at h
  · rename_i hp
    injection h with h
    subst h
    rw [if_pos (isPrefixOf_append_of_isPrefixOf b hp)]
    have hl : t.length ≤ x.length := (List.isPrefixOf_iff_prefix.mp hp).length_le
    rw [List.drop_append_of_le_length hl]
  · cases h

theorem skip_none_append {t x : Bytes} (b : Bytes) (h : skip t x = none)
    (hnp : ¬ (x.length < t.length ∧ x.isPrefixOf t = true)) : skip t (x ++ b) = none := by
  unfold skip at h ⊢
  split at h
  · cases h
  · rename_i hp
    split
    · rename_i hp'
      rcases prefix_append_cases hp' with h1 | h1
      · exact absurd h1 hp
      · exact absurd h1 hnp
    · rfl

theorem skipOne_append {cs : CharSet} {x r : Bytes} (b : Bytes) (h : skipOne cs x = some r) :
    skipOne cs (x ++ b) = some (r ++ b) := by
  cases x with
  | nil => simp [skipOne] at h
  | cons c x =>
    simp only [skipOne, List.cons_append] at h ⊢
    split at h
    · rename_i hc; injection h with h; subst h; simp [hc]
    · cases h

theorem skipOne_none_append {cs : CharSet} {x : Bytes} (b : Bytes) (h : skipOne cs x = none) (hx : x ≠ []) :
    skipOne cs (x ++ b) = none := by
  cases x with
  | nil => exact absurd rfl hx
  | cons c x =>
    simp only [skipOne, List.cons_append] at h ⊢
    split at h
    · cases h
    · rename_i hc; simp [hc]

theorem skipOne_ne_nil {cs : CharSet} {x r : Bytes} (h : skipOne cs x = some r) : x ≠ [] := by
  cases x with
  | nil => simp [skipOne] at h
  | cons c x => simp

theorem digitsLoop_count_le (k : Nat) (x : Bytes) (acc : Nat) : (digitsLoop k x acc).1 ≤ x.length := by
  induction k generalizing x acc with
  | zero => simp [digitsLoop]
  | succ k ih =>
    cases x with
    | nil => simp [digitsLoop]
    | cons c x =>
      simp only [digitsLoop]
      split
      · have := ih x (acc * 10 + (c.toNat - 48)); simp; omega
      · simp

theorem digitsLoop_count_le_limit (k : Nat) (x : Bytes) (acc : Nat) : (digitsLoop k x acc).1 ≤ k := by
  induction k generalizing x acc with
  | zero => simp [digitsLoop]
  | succ k ih =>
    cases x with
    | nil => simp [digitsLoop]
    | cons c x =>
      simp only [digitsLoop]
      split
      · have := ih x (acc * 10 + (c.toNat - 48)); simp; omega
      · simp

/-- the digit loop does not look past a stop it found inside `x` -/
theorem digitsLoop_append (k : Nat) (x b : Bytes) (acc : Nat) (h : (digitsLoop k x acc).1 < x.length) :
    digitsLoop k (x ++ b) acc = digitsLoop k x acc := by
  induction k generalizing x acc with
  | zero => simp [digitsLoop]
  | succ k ih =>
    cases x with
    | nil => simp at h
    | cons c x =>
      simp only [digitsLoop, List.cons_append] at h ⊢
      split
      · rename_i hc
        simp only [hc, ↓reduceIte, List.length_cons] at h
        rw [ih x (acc * 10 + (c.toNat - 48)) (by omega)]
      · rfl

theorem int64_append {k : Nat} {x r : Bytes} {v : Nat} (b : Bytes) (h : int64 k x = some (v, r)) (hr : r ≠ []) :
    int64 k (x ++ b) = some (v, r ++ b) := by
  unfold int64 at h ⊢
  split at h
  · cases h
  · rename_i hc
    simp only [Bool.or_eq_true, List.isEmpty_iff, beq_iff_eq, not_or] at hc
    have hx : (x ++ b).isEmpty = false := by
      cases x with
      | nil => exact absurd rfl hc.1
      | cons c x => rfl
    simp only [hx, Bool.false_or, beq_iff_eq, hc.2, ↓reduceIte]
    generalize hd : digitsLoop k x 0 = d at h
    obtain ⟨n, w⟩ := d
    simp only at h
    split at h
    · cases h
    · rename_i hn
      injection h with h
      injection h with h1 h2
      subst h1
      have hle : n ≤ x.length := by have := digitsLoop_count_le k x 0; rw [hd] at this; exact this
      have hlt : n < x.length := by
        rcases Nat.lt_or_ge n x.length with h | h
        · exact h
        · exfalso; apply hr; rw [← h2]; exact List.drop_eq_nil_of_le h
      have := digitsLoop_append k x b 0 (by rw [hd]; exact hlt)
      rw [this, hd]
      have hn' : n ≠ 0 := by simpa using hn
      simp only [beq_iff_eq, hn', ↓reduceIte]
      rw [List.drop_append_of_le_length hle, h2]

theorem int64_none_append {k : Nat} {x : Bytes} (b : Bytes) (h : int64 k x = none) (hx : x ≠ []) :
    int64 k (x ++ b) = none := by
  unfold int64 at h ⊢
  have hxe : x.isEmpty = false := by cases x with | nil => exact absurd rfl hx | cons c x => rfl
  have hxbe : (x ++ b).isEmpty = false := by cases x with | nil => exact absurd rfl hx | cons c x => rfl
  simp only [hxe, hxbe, Bool.false_or] at h ⊢
  by_cases hk : (k == 0) = true
  · simp [hk]
  · simp only [hk] at h ⊢
    generalize hd : digitsLoop k x 0 = d at h
    obtain ⟨n, w⟩ := d
    by_cases hn : n = 0
    · subst hn
      have hpos : 0 < x.length := by cases x with | nil => exact absurd rfl hx | cons c x => simp
      have := digitsLoop_append k x b 0 (by rw [hd]; exact hpos)
      rw [this, hd]
      simp
    · simp [hn] at h

theorem int64_ne_nil {k : Nat} {x r : Bytes} {v : Nat} (h : int64 k x = some (v, r)) : x ≠ [] := by
  intro hx; subst hx; simp [int64] at h

theorem findFirstNotOf_append {cs : CharSet} {x : Bytes} {n : Nat} (b : Bytes) (h : findFirstNotOf cs x = some n) :
    findFirstNotOf cs (x ++ b) = some n := by
  induction x generalizing n with
  | nil => simp [findFirstNotOf] at h
  | cons c x ih =>
    simp only [findFirstNotOf, List.cons_append] at h ⊢
    split
    · rename_i hc
      simp only [hc, ↓reduceIte, Option.map_eq_some_iff] at h
      obtain ⟨m, hm, rfl⟩ := h
      simp [ih hm]
    · rename_i hc
      simpa [hc] using h

theorem findFirstNotOf_lt {cs : CharSet} {x : Bytes} {n : Nat} (h : findFirstNotOf cs x = some n) : n < x.length := by
  induction x generalizing n with
  | nil => simp [findFirstNotOf] at h
  | cons c x ih =>
    simp only [findFirstNotOf] at h
    split at h
    · simp only [Option.map_eq_some_iff] at h
      obtain ⟨m, hm, rfl⟩ := h
      have := ih hm; simp; omega
    · injection h with h; subst h; simp

theorem tokPrefix_append {cs : CharSet} {x p r : Bytes} (b : Bytes) (h : tokPrefix cs x = some (p, r)) (hr : r ≠ []) :
    tokPrefix cs (x ++ b) = some (p, r ++ b) := by
  unfold tokPrefix at h ⊢
  generalize hf : findFirstNotOf cs x = f at h
  cases f with
  | none =>
    simp only at h
    split at h
    · cases h
    · injection h with h; injection h with h1 h2; exact absurd h2.symm hr
  | some n =>
    rw [findFirstNotOf_append b hf]
    have hlt := findFirstNotOf_lt hf
    cases n with
    | zero => simp at h
    | succ n =>
      simp only at h ⊢
      injection h with h; injection h with h1 h2
      subst h1 h2
      rw [List.take_append_of_le_length (by omega), List.drop_append_of_le_length (by omega)]

theorem tokPrefix_none_append {cs : CharSet} {x : Bytes} (b : Bytes) (h : tokPrefix cs x = none) (hx : x ≠ []) :
    tokPrefix cs (x ++ b) = none := by
  unfold tokPrefix at h ⊢
  generalize hf : findFirstNotOf cs x = f at h
  cases f with
  | none =>
    simp only at h
    split at h
    · rename_i he; simp only [List.isEmpty_iff] at he; exact absurd he hx
    · cases h
  | some n =>
    rw [findFirstNotOf_append b hf]
    cases n with
    | zero => rfl
    | succ n => simp at h

/-! ### what the primitives return, and what they return on structured input -/

theorem skip_some {t x r : Bytes} (h : skip t x = some r) : x = t ++ r := by
  unfold skip at h
  split at h
  · rename_i hp
    injection h with h; subst h
    obtain ⟨s, hs⟩ := List.isPrefixOf_iff_prefix.mp hp
    subst hs
    simp
  · cases h

theorem skip_self_append (t y : Bytes) : skip t (t ++ y) = some y := by
  unfold skip
  have : t.isPrefixOf (t ++ y) = true := List.isPrefixOf_iff_prefix.mpr (List.prefix_append t y)
  simp [this]

theorem skipOne_some {cs : CharSet} {x r : Bytes} (h : skipOne cs x = some r) : ∃ c, cs.mem c = true ∧ x = c :: r := by
  cases x with
  | nil => simp [skipOne] at h
  | cons c x =>
    simp only [skipOne] at h
    split at h
    · rename_i hc; injection h with h; subst h; exact ⟨c, hc, rfl⟩
    · cases h

theorem skipOne_cons {cs : CharSet} {c : UInt8} (h : cs.mem c = true) (y : Bytes) : skipOne cs (c :: y) = some y := by
  simp [skipOne, h]

theorem int64_one_some {x r : Bytes} {v : Nat} (h : int64 1 x = some (v, r)) :
    ∃ d, isDigit d = true ∧ x = d :: r ∧ v = d.toNat - 48 := by
  cases x with
  | nil => simp [int64] at h
  | cons d y =>
    by_cases hd : isDigit d = true
    · simp [int64, digitsLoop, hd] at h
      exact ⟨d, hd, by rw [h.2], h.1.symm⟩
    · simp [int64, digitsLoop, hd] at h

theorem int64_one_cons {d : UInt8} (hd : isDigit d = true) (y : Bytes) : int64 1 (d :: y) = some (d.toNat - 48, y) := by
  simp [int64, digitsLoop, hd]

theorem digit_val_le {d : UInt8} (hd : isDigit d = true) : d.toNat - 48 ≤ 9 := by
  simp only [isDigit, Bool.and_eq_true, decide_eq_true_eq] at hd
  have := UInt8.le_iff_toNat_le.mp hd.2
  simp at this
  omega

theorem int64_three_cons {d1 d2 d3 : UInt8} (h1 : isDigit d1 = true) (h2 : isDigit d2 = true) (h3 : isDigit d3 = true)
    (y : Bytes) :
    int64 3 (d1 :: d2 :: d3 :: y) = some ((d1.toNat - 48) * 100 + (d2.toNat - 48) * 10 + (d3.toNat - 48), y) := by
  simp [int64, digitsLoop, h1, h2, h3]
  omega

/-- a value of at least 100 out of at most three digits means exactly three digits -/
theorem int64_three_some {x r : Bytes} {v : Nat} (h : int64 3 x = some (v, r)) (hv : 100 ≤ v) :
    ∃ d1 d2 d3, isDigit d1 = true ∧ isDigit d2 = true ∧ isDigit d3 = true ∧ x = d1 :: d2 :: d3 :: r ∧
      v = (d1.toNat - 48) * 100 + (d2.toNat - 48) * 10 + (d3.toNat - 48) := by
  rcases x with _ | ⟨a, _ | ⟨b, _ | ⟨c, y⟩⟩⟩
  · simp [int64] at h
  · by_cases ha : isDigit a = true
    · simp [int64, digitsLoop, ha] at h
      have := digit_val_le ha; omega
    · simp [int64, digitsLoop, ha] at h
  · by_cases ha : isDigit a = true
    · by_cases hb : isDigit b = true
      · simp [int64, digitsLoop, ha, hb] at h
        have := digit_val_le ha; have := digit_val_le hb; omega
      · simp [int64, digitsLoop, ha, hb] at h
        have := digit_val_le ha; omega
    · simp [int64, digitsLoop, ha] at h
  · by_cases ha : isDigit a = true
    · by_cases hb : isDigit b = true
      · by_cases hc : isDigit c = true
        · simp [int64, digitsLoop, ha, hb, hc] at h
          exact ⟨a, b, c, ha, hb, hc, by rw [h.2], by omega⟩
        · simp [int64, digitsLoop, ha, hb, hc] at h
          have := digit_val_le ha; have := digit_val_le hb; omega
      · simp [int64, digitsLoop, ha, hb] at h
        have := digit_val_le ha; omega
    · simp [int64, digitsLoop, ha] at h

theorem findFirstNotOf_some {cs : CharSet} {x : Bytes} {n : Nat} (h : findFirstNotOf cs x = some n) :
    (∀ c ∈ x.take n, cs.mem c = true) ∧ ∃ c r, x.drop n = c :: r ∧ cs.mem c = false := by
  induction x generalizing n with
  | nil => simp [findFirstNotOf] at h
  | cons a x ih =>
    simp only [findFirstNotOf] at h
    split at h
    · rename_i ha
      simp only [Option.map_eq_some_iff] at h
      obtain ⟨m, hm, rfl⟩ := h
      obtain ⟨h1, h2⟩ := ih hm
      refine ⟨?_, by simpa using h2⟩
      intro c hc
      simp only [List.take_succ_cons, List.mem_cons] at hc
      rcases hc with rfl | hc
      · exact ha
      · exact h1 c hc
    · rename_i ha
      injection h with h; subst h
      exact ⟨by simp, a, x, rfl, by simpa using ha⟩

theorem findFirstNotOf_none {cs : CharSet} {x : Bytes} (h : findFirstNotOf cs x = none) : ∀ c ∈ x, cs.mem c = true := by
  induction x with
  | nil => simp
  | cons a x ih =>
    simp only [findFirstNotOf] at h
    split at h
    · rename_i ha
      simp only [Option.map_eq_none_iff] at h
      intro c hc
      simp only [List.mem_cons] at hc
      rcases hc with rfl | hc
      · exact ha
      · exact ih h c hc
    · cases h

theorem findFirstNotOf_span {cs : CharSet} {p : Bytes} {c : UInt8} (hp : ∀ a ∈ p, cs.mem a = true) (hc : cs.mem c = false)
    (y : Bytes) : findFirstNotOf cs (p ++ c :: y) = some p.length := by
  induction p with
  | nil => simp [findFirstNotOf, hc]
  | cons a p ih =>
    simp only [List.cons_append, findFirstNotOf, hp a (by simp), ↓reduceIte, List.length_cons]
    rw [ih (fun a ha => hp a (by simp [ha]))]
    rfl

/-- what `tokPrefix` returns: a non-empty run of set members, followed by nothing or by a non-member -/
theorem tokPrefix_rest {cs : CharSet} {x p r : Bytes} (h : tokPrefix cs x = some (p, r)) :
    x = p ++ r ∧ p ≠ [] ∧ (∀ c ∈ p, cs.mem c = true) ∧ (∀ c r', r = c :: r' → cs.mem c = false) := by
  unfold tokPrefix at h
  generalize hf : findFirstNotOf cs x = f at h
  cases f with
  | none =>
    simp only at h
    split at h
    · cases h
    · rename_i hx
      injection h with h; injection h with h1 h2; subst h1 h2
      refine ⟨by simp, by simpa using hx, findFirstNotOf_none hf, by simp⟩
  | some n =>
    cases n with
    | zero => simp at h
    | succ n =>
      simp only at h
      injection h with h; injection h with h1 h2; subst h1 h2
      obtain ⟨h1, c, r, h2, h3⟩ := findFirstNotOf_some hf
      have hlt := findFirstNotOf_lt hf
      refine ⟨by simp, ?_, h1, ?_⟩
      · intro hnil
        have : (List.take (n + 1) x).length = 0 := by rw [hnil]; rfl
        rw [List.length_take] at this
        omega
      · intro c' r' hr
        rw [h2] at hr
        injection hr with hr1 hr2; subst hr1; exact h3

theorem tokPrefix_none {cs : CharSet} {x : Bytes} (h : tokPrefix cs x = none) :
    x = [] ∨ ∃ c r, x = c :: r ∧ cs.mem c = false := by
  unfold tokPrefix at h
  generalize hf : findFirstNotOf cs x = f at h
  cases f with
  | none =>
    simp only at h
    split at h
    · rename_i hx; left; simpa using hx
    · cases h
  | some n =>
    cases n with
    | zero =>
      right
      obtain ⟨_, c, r, h2, h3⟩ := findFirstNotOf_some hf
      exact ⟨c, r, by simpa using h2, h3⟩
    | succ n => simp at h

theorem tokPrefix_span {cs : CharSet} {p : Bytes} {c : UInt8} (hp : ∀ a ∈ p, cs.mem a = true) (hc : cs.mem c = false)
    (y : Bytes) : tokPrefix cs (p ++ c :: y) = if p = [] then none else some (p, c :: y) := by
  unfold tokPrefix
  rw [findFirstNotOf_span hp hc y]
  cases p with
  | nil => simp
  | cons a p => simp

end SquidModel.Http1Resp
