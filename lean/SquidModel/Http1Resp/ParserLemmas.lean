/-
Prefix-monotonicity of every parsing phase of the response parser, and resumption from its checkpoints.
-/
import SquidModel.Http1Resp.Parser
import SquidModel.Http1Resp.TokLemmas

namespace SquidModel.Http1Resp
open SquidModel.Gen.Http1Resp

/-! ### skipRequired / skipLineTerminator -/

theorem skipRequired_ok_append {t x r : Bytes} (b : Bytes) (h : skipRequired t x = .ok r) :
    skipRequired t (x ++ b) = .ok (r ++ b) := by
  unfold skipRequired at h ⊢
  generalize hs : skip t x = s at h
  cases s with
  | some r' =>
    simp only at h; injection h with h; subst h
    rw [skip_append b hs]
  | none =>
    simp only at h
    split at h
    · rename_i ht
      injection h with h; subst h
      simp only [List.isEmpty_iff] at ht
      subst ht
      simp [skip] at hs
    · split at h <;> cases h

theorem isPrefixOf_append_left {x t : Bytes} (b : Bytes) (h : (x ++ b).isPrefixOf t = true) : x.isPrefixOf t = true := by
  rw [List.isPrefixOf_iff_prefix] at h ⊢
  exact List.IsPrefix.trans (List.prefix_append x b) h

theorem skipRequired_invalid_append {t x : Bytes} (b : Bytes) (h : skipRequired t x = .invalid) :
    skipRequired t (x ++ b) = .invalid := by
  unfold skipRequired at h ⊢
  generalize hs : skip t x = s at h
  cases s with
  | some r' => simp at h
  | none =>
    simp only at h
    split at h
    · cases h
    · rename_i ht
      split at h
      · cases h
      · rename_i hp
        have hnp : ¬ (x.length < t.length ∧ x.isPrefixOf t = true) := fun hh => hp hh.2
        rw [skip_none_append b hs hnp]
        simp only [ht, Bool.false_eq_true, ↓reduceIte]
        split
        · rename_i hp'; exact absurd (isPrefixOf_append_left b hp') hp
        · rfl

theorem skipRequired_nil {t : Bytes} (ht : t ≠ []) : skipRequired t [] = .insufficient := by
  cases t with
  | nil => exact absurd rfl ht
  | cons c t => simp [skipRequired, skip]

theorem crlf_ne_nil : crlf ≠ [] := by decide

theorem skipLineTerminator_nil (cfg : Cfg) : skipLineTerminator cfg [] = .insufficient := by
  unfold skipLineTerminator
  have : (if cfg.relaxed = true then skipOne Gen.CharSets.LF [] else none) = none := by
    split <;> simp [skipOne]
  rw [this]
  exact skipRequired_nil crlf_ne_nil

theorem skipLineTerminator_ok_append {cfg : Cfg} {x r : Bytes} (b : Bytes) (h : skipLineTerminator cfg x = .ok r) :
    skipLineTerminator cfg (x ++ b) = .ok (r ++ b) := by
  have hx : x ≠ [] := by
    intro hx; subst hx; rw [skipLineTerminator_nil] at h; cases h
  unfold skipLineTerminator at h ⊢
  cases hrel : cfg.relaxed with
  | false =>
    simp only [hrel, Bool.false_eq_true, ↓reduceIte] at h ⊢
    exact skipRequired_ok_append b h
  | true =>
    simp only [hrel, ↓reduceIte] at h ⊢
    generalize hs : skipOne Gen.CharSets.LF x = s at h
    cases s with
    | some r' =>
      simp only at h; injection h with h; subst h
      rw [skipOne_append b hs]
    | none =>
      simp only at h
      rw [skipOne_none_append b hs hx]
      exact skipRequired_ok_append b h

theorem skipLineTerminator_invalid_append {cfg : Cfg} {x : Bytes} (b : Bytes) (h : skipLineTerminator cfg x = .invalid) :
    skipLineTerminator cfg (x ++ b) = .invalid := by
  have hx : x ≠ [] := by
    intro hx; subst hx; rw [skipLineTerminator_nil] at h; cases h
  unfold skipLineTerminator at h ⊢
  cases hrel : cfg.relaxed with
  | false =>
    simp only [hrel, Bool.false_eq_true, ↓reduceIte] at h ⊢
    exact skipRequired_invalid_append b h
  | true =>
    simp only [hrel, ↓reduceIte] at h ⊢
    generalize hs : skipOne Gen.CharSets.LF x = s at h
    cases s with
    | some r' => simp at h
    | none =>
      simp only at h
      rw [skipOne_none_append b hs hx]
      exact skipRequired_invalid_append b h

/-! ### ParseResponseStatus -/

theorem parseResponseStatus_ok_append {cfg : Cfg} {x r : Bytes} {c c' : Nat} (b : Bytes)
    (h : parseResponseStatus cfg x c = (.ok r, c')) : parseResponseStatus cfg (x ++ b) c = (.ok (r ++ b), c') := by
  unfold parseResponseStatus at h ⊢
  generalize hi : int64 statusDigits x = i at h
  cases i with
  | none => simp only at h; split at h <;> cases h
  | some p =>
    obtain ⟨v, t1⟩ := p
    simp only at h
    generalize hs : skipOne (delims cfg) t1 = s at h
    cases s with
    | none => simp only at h; split at h <;> cases h
    | some t2 =>
      simp only at h
      rw [int64_append b hi (skipOne_ne_nil hs)]
      simp only
      rw [skipOne_append b hs]
      simp only
      split at h
      · cases h
      · split at h
        · cases h
        · rename_i h1 h2
          injection h with h3 h4
          injection h3 with h3
          subst h3 h4
          simp [h1, h2]

theorem parseResponseStatus_invalid_append {cfg : Cfg} {x : Bytes} {c c' : Nat} (b : Bytes)
    (h : parseResponseStatus cfg x c = (.invalid, c')) : parseResponseStatus cfg (x ++ b) c = (.invalid, c') := by
  unfold parseResponseStatus at h ⊢
  generalize hi : int64 statusDigits x = i at h
  cases i with
  | none =>
    simp only at h
    split at h
    · cases h
    · rename_i hx
      have hx' : x ≠ [] := by simpa using hx
      rw [int64_none_append b hi hx']
      have : (x ++ b).isEmpty = false := by cases x with | nil => exact absurd rfl hx' | cons _ _ => rfl
      simpa [this] using h
  | some p =>
    obtain ⟨v, t1⟩ := p
    simp only at h
    generalize hs : skipOne (delims cfg) t1 = s at h
    cases s with
    | none =>
      simp only at h
      split at h
      · cases h
      · rename_i ht
        have ht' : t1 ≠ [] := by simpa using ht
        rw [int64_append b hi ht']
        simp only
        rw [skipOne_none_append b hs ht']
        have : (t1 ++ b).isEmpty = false := by cases t1 with | nil => exact absurd rfl ht' | cons _ _ => rfl
        simpa [this] using h
    | some t2 =>
      simp only at h
      rw [int64_append b hi (skipOne_ne_nil hs)]
      simp only
      rw [skipOne_append b hs]
      simp only
      split at h
      · rename_i h1; simpa [h1] using h
      · rename_i h1
        split at h
        · rename_i h2; simpa [h1, h2] using h
        · cases h

theorem parseResponseStatus_insufficient_code {cfg : Cfg} {x : Bytes} {c c' : Nat}
    (h : parseResponseStatus cfg x c = (.insufficient, c')) : c' = c := by
  unfold parseResponseStatus at h
  split at h
  · split at h
    · split at h
      · cases h
      · split at h <;> cases h
    · split at h
      · injection h with _ h; exact h.symm
      · cases h
  · split at h
    · injection h with _ h; exact h.symm
    · cases h

/-! ### reason phrase and terminator -/

theorem reasonAndTerminator_zero {cfg : Cfg} {S S' : State} {x : Bytes}
    (h : reasonAndTerminator cfg S x = (S', 0)) : S' = { S with reason := [] } := by
  unfold reasonAndTerminator at h
  generalize tokPrefix phraseChars x = p at h
  cases p with
  | none =>
    simp only at h
    split at h
    · injection h with _ h; cases h
    · injection h with h _; exact h.symm
    · injection h with _ h; cases h
  | some pr =>
    obtain ⟨p, r⟩ := pr
    simp only at h
    split at h
    · injection h with _ h; cases h
    · injection h with h _; exact h.symm
    · injection h with _ h; cases h

theorem reasonAndTerminator_append {cfg : Cfg} {S S' : State} {x : Bytes} {rc : Int} (b : Bytes)
    (hb : S.buf = x) (h : reasonAndTerminator cfg S x = (S', rc)) (hrc : rc ≠ 0) :
    reasonAndTerminator cfg { S with buf := x ++ b } (x ++ b) = ({ S' with buf := S'.buf ++ b }, rc) := by
  unfold reasonAndTerminator at h ⊢
  generalize hp : tokPrefix phraseChars x = p at h
  cases p with
  | none =>
    simp only at h
    have hx : x ≠ [] := by
      intro hx; subst hx; rw [skipLineTerminator_nil] at h
      injection h with _ h; exact hrc h.symm
    rw [tokPrefix_none_append b hp hx]
    simp only
    generalize ht : skipLineTerminator cfg x = t at h
    cases t with
    | ok r =>
      rw [skipLineTerminator_ok_append b ht]
      simp only at h ⊢
      injection h with h1 h2; subst h1 h2; rfl
    | insufficient => simp only at h; injection h with _ h; exact absurd h.symm hrc
    | invalid =>
      rw [skipLineTerminator_invalid_append b ht]
      simp only at h ⊢
      injection h with h1 h2; subst h1 h2; simp [hb]
  | some pr =>
    obtain ⟨p, r⟩ := pr
    simp only at h
    have hr : r ≠ [] := by
      intro hr; subst hr; rw [skipLineTerminator_nil] at h
      injection h with _ h; exact hrc h.symm
    rw [tokPrefix_append b hp hr]
    simp only
    generalize ht : skipLineTerminator cfg r = t at h
    cases t with
    | ok r' =>
      rw [skipLineTerminator_ok_append b ht]
      simp only at h ⊢
      injection h with h1 h2; subst h1 h2; rfl
    | insufficient => simp only at h; injection h with _ h; exact absurd h.symm hrc
    | invalid =>
      rw [skipLineTerminator_invalid_append b ht]
      simp only at h ⊢
      injection h with h1 h2; subst h1 h2; simp [hb]

/-! ### parseResponseStatusAndReason -/

theorem statusAndReason_append {cfg : Cfg} {S S' : State} {x : Bytes} {rc : Int} (b : Bytes)
    (hb : S.buf = x) (h : statusAndReason cfg S x = (S', rc)) (hrc : rc ≠ 0) :
    statusAndReason cfg { S with buf := x ++ b } (x ++ b) = ({ S' with buf := S'.buf ++ b }, rc) := by
  obtain ⟨stage, ver, cs, status, reason, mime, ps, buf⟩ := S
  simp only at hb; subst hb
  unfold statusAndReason at h ⊢
  cases cs with
  | true =>
    simp only [Bool.not_true, Bool.false_eq_true, ↓reduceIte] at h ⊢
    exact reasonAndTerminator_append b rfl h hrc
  | false =>
    simp only [Bool.not_false, ↓reduceIte] at h ⊢
    generalize hp : parseResponseStatus cfg buf status = p at h
    obtain ⟨res, code⟩ := p
    cases res with
    | ok r =>
      rw [parseResponseStatus_ok_append b hp]
      simp only at h ⊢
      exact reasonAndTerminator_append b rfl h hrc
    | insufficient => simp only at h; injection h with _ h; exact absurd h.symm hrc
    | invalid =>
      rw [parseResponseStatus_invalid_append b hp]
      simp only at h ⊢
      injection h with h1 h2; subst h1 h2; rfl

/-- after "need more data" the parser resumes from its checkpoint exactly as a fresh run over the longer input would -/
theorem statusAndReason_resume {cfg : Cfg} {S S' : State} {x : Bytes} (b : Bytes)
    (hb : S.buf = x) (hr : S.reason = []) (h : statusAndReason cfg S x = (S', 0)) :
    statusAndReason cfg { S' with buf := S'.buf ++ b } (S'.buf ++ b) =
      statusAndReason cfg { S with buf := x ++ b } (x ++ b) := by
  obtain ⟨stage, ver, cs, status, reason, mime, ps, buf⟩ := S
  simp only at hb hr; subst hb hr
  unfold statusAndReason at h
  cases cs with
  | true =>
    simp only [Bool.not_true, Bool.false_eq_true, ↓reduceIte] at h
    have := reasonAndTerminator_zero h
    subst this
    rfl
  | false =>
    simp only [Bool.not_false, ↓reduceIte] at h
    generalize hp : parseResponseStatus cfg buf status = p at h
    obtain ⟨res, code⟩ := p
    cases res with
    | ok r =>
      simp only at h
      have hz := reasonAndTerminator_zero h
      subst hz
      conv => rhs; unfold statusAndReason
      simp only [Bool.not_false, ↓reduceIte]
      rw [parseResponseStatus_ok_append b hp]
      simp only
      unfold statusAndReason
      simp
    | insufficient =>
      simp only at h
      have hcode := parseResponseStatus_insufficient_code hp
      injection h with h _
      subst h hcode
      rfl
    | invalid => simp only at h; injection h with _ h; cases h

/-! ### simple frame facts -/

theorem reasonAndTerminator_frame {cfg : Cfg} {S : State} {x : Bytes} :
    (reasonAndTerminator cfg S x).1.stage = S.stage ∧ (reasonAndTerminator cfg S x).1.ver = S.ver ∧
    (reasonAndTerminator cfg S x).1.parseStatus = S.parseStatus ∧ (reasonAndTerminator cfg S x).1.mime = S.mime ∧
    (reasonAndTerminator cfg S x).1.completedStatus = S.completedStatus ∧ (reasonAndTerminator cfg S x).1.status = S.status := by
  unfold reasonAndTerminator
  cases tokPrefix phraseChars x with
  | none => simp only; split <;> simp
  | some pr => obtain ⟨p, r⟩ := pr; simp only; split <;> simp

theorem statusAndReason_frame {cfg : Cfg} {S : State} {x : Bytes} :
    (statusAndReason cfg S x).1.stage = S.stage ∧ (statusAndReason cfg S x).1.ver = S.ver ∧
    (statusAndReason cfg S x).1.parseStatus = S.parseStatus ∧ (statusAndReason cfg S x).1.mime = S.mime := by
  unfold statusAndReason
  split
  · split
    · have := @reasonAndTerminator_frame cfg { S with status := ‹Nat›, buf := ‹Bytes›, completedStatus := true } ‹Bytes›
      exact ⟨this.1, this.2.1, this.2.2.1, this.2.2.2.1⟩
    · simp
    · simp
  · have := @reasonAndTerminator_frame cfg S x
    exact ⟨this.1, this.2.1, this.2.2.1, this.2.2.2.1⟩

/-! ### parseResponseFirstLine -/

theorem icy_not_prefix_of_http {x t : Bytes} (h : skip icyMagic x = some t) : x.isPrefixOf http1magic = false := by
  cases x with
  | nil => simp [skip, icyMagic] at h
  | cons c x =>
    unfold skip at h
    split at h
    · rename_i hp
      simp only [icyMagic, List.isPrefixOf_cons_cons, Bool.and_eq_true, beq_iff_eq] at hp
      have hc : c = 73 := hp.1.symm
      subst hc
      simp only [http1magic, List.isPrefixOf_cons_cons, Bool.and_eq_false_imp, beq_iff_eq]
      intro hh; exact absurd hh (by decide)
    · cases h

theorem firstLine_append {cfg : Cfg} {S S' : State} {x : Bytes} {rc : Int} (b : Bytes)
    (hb : S.buf = x) (h : firstLine cfg S = (S', rc)) (hrc : rc ≠ 0) :
    firstLine cfg { S with buf := x ++ b } = ({ S' with buf := S'.buf ++ b }, rc) := by
  obtain ⟨stage, ver, cs, status, reason, mime, ps, buf⟩ := S
  simp only at hb; subst hb
  unfold firstLine at h ⊢
  simp only at h ⊢
  split
  · rename_i hproto
    rw [if_pos hproto] at h
    exact statusAndReason_append b rfl h hrc
  · rename_i hproto
    rw [if_neg hproto] at h
    generalize hs : skip http1magic buf = s at h
    cases s with
    | some t1 =>
      rw [skip_append b hs]
      simp only at h ⊢
      generalize hi : int64 minorDigits t1 = i at h
      cases i with
      | some p =>
        obtain ⟨v, t2⟩ := p
        simp only at h
        generalize hso : skipOne (delims cfg) t2 = so at h
        cases so with
        | some t3 =>
          simp only at h
          rw [int64_append b hi (skipOne_ne_nil hso)]
          simp only
          rw [skipOne_append b hso]
          simp only
          exact statusAndReason_append b rfl h hrc
        | none =>
          simp only at h
          split at h
          · injection h with _ h; exact absurd h.symm hrc
          · rename_i ht
            have ht' : t2 ≠ [] := by simpa using ht
            rw [int64_append b hi ht']
            simp only
            rw [skipOne_none_append b hso ht']
            have : (t2 ++ b).isEmpty = false := by cases t2 with | nil => exact absurd rfl ht' | cons _ _ => rfl
            simp only [this, Bool.false_eq_true, ↓reduceIte]
            injection h with h1 h2; subst h1 h2; rfl
      | none =>
        simp only at h
        split at h
        · injection h with _ h; exact absurd h.symm hrc
        · rename_i ht
          have ht' : t1 ≠ [] := by simpa using ht
          rw [int64_none_append b hi ht']
          have : (t1 ++ b).isEmpty = false := by cases t1 with | nil => exact absurd rfl ht' | cons _ _ => rfl
          simp only [this, Bool.false_eq_true, ↓reduceIte]
          injection h with h1 h2; subst h1 h2; rfl
    | none =>
      simp only at h
      generalize hs2 : skip icyMagic buf = s2 at h
      cases s2 with
      | some t1 =>
        have hnp := icy_not_prefix_of_http hs2
        rw [skip_none_append b hs (by intro hh; rw [hnp] at hh; exact absurd hh.2 (by simp))]
        simp only at h ⊢
        rw [skip_append b hs2]
        simp only
        exact statusAndReason_append b rfl h hrc
      | none =>
        simp only at h
        split at h
        · injection h with _ h; exact absurd h.symm hrc
        · rename_i hc1
          split at h
          · injection h with _ h; exact absurd h.symm hrc
          · rename_i hc2
            simp only [Bool.and_eq_true, decide_eq_true_eq] at hc1 hc2
            rw [skip_none_append b hs hc1]
            simp only
            rw [skip_none_append b hs2 hc2]
            simp only
            have hc1' : ¬ (((buf ++ b).length < http1magic.length && (buf ++ b).isPrefixOf http1magic) = true) := by
              simp only [Bool.and_eq_true, decide_eq_true_eq]
              intro hh
              exact hc1 ⟨by have := hh.1; simp at this; omega, isPrefixOf_append_left b hh.2⟩
            have hc2' : ¬ (((buf ++ b).length < icyMagic.length && (buf ++ b).isPrefixOf icyMagic) = true) := by
              simp only [Bool.and_eq_true, decide_eq_true_eq]
              intro hh
              exact hc2 ⟨by have := hh.1; simp at this; omega, isPrefixOf_append_left b hh.2⟩
            rw [if_neg hc1', if_neg hc2']
            injection h with h1 h2; subst h1 h2; rfl

theorem firstLine_resume {cfg : Cfg} {S S' : State} {x : Bytes} (b : Bytes)
    (hb : S.buf = x) (hp : S.ver.proto = .none) (hr : S.reason = []) (h : firstLine cfg S = (S', 0)) :
    firstLine cfg { S' with buf := S'.buf ++ b } = firstLine cfg { S with buf := x ++ b } := by
  obtain ⟨stage, ver, cs, status, reason, mime, ps, buf⟩ := S
  simp only at hb hp hr; subst hb hr
  unfold firstLine at h
  simp only [hp, ne_eq, not_true_eq_false, ↓reduceIte] at h
  generalize hs : skip http1magic buf = s at h
  cases s with
  | some t1 =>
    simp only at h
    generalize hi : int64 minorDigits t1 = i at h
    cases i with
    | some p =>
      obtain ⟨v, t2⟩ := p
      simp only at h
      generalize hso : skipOne (delims cfg) t2 = so at h
      cases so with
      | some t3 =>
        simp only at h
        have hver : S'.ver = ⟨.http, 1, v⟩ := by
          have := (@statusAndReason_frame cfg { stage := stage, ver := ⟨.http, 1, v⟩, completedStatus := cs, status := status, reason := [], mime := mime, parseStatus := ps, buf := t3 } t3).2.1
          rw [h] at this; exact this
        have hres := statusAndReason_resume b rfl rfl h
        conv => lhs; unfold firstLine
        have hne : (S'.ver.proto ≠ Proto.none) := by rw [hver]; simp
        simp only [hne, ne_eq, not_false_eq_true, ↓reduceIte]
        rw [hres]
        conv => rhs; unfold firstLine
        simp only [hp, ne_eq, not_true_eq_false, ↓reduceIte]
        rw [skip_append b hs]
        simp only
        rw [int64_append b hi (skipOne_ne_nil hso)]
        simp only
        rw [skipOne_append b hso]
      | none =>
        simp only at h
        split at h
        · injection h with h _; subst h; rfl
        · injection h with _ h; cases h
    | none =>
      simp only at h
      split at h
      · injection h with h _; subst h; rfl
      · injection h with _ h; cases h
  | none =>
    simp only at h
    generalize hs2 : skip icyMagic buf = s2 at h
    cases s2 with
    | some t1 =>
      simp only at h
      have hver : S'.ver.proto = .icy := by
        have := (@statusAndReason_frame cfg { stage := stage, ver := { ver with proto := .icy }, completedStatus := cs, status := status, reason := [], mime := mime, parseStatus := ps, buf := t1 } t1).2.1
        rw [h] at this; rw [this]
      have hres := statusAndReason_resume b rfl rfl h
      conv => lhs; unfold firstLine
      have hne : (S'.ver.proto ≠ Proto.none) := by rw [hver]; simp
      simp only [hne, ne_eq, not_false_eq_true, ↓reduceIte]
      rw [hres]
      conv => rhs; unfold firstLine
      simp only [hp, ne_eq, not_true_eq_false, ↓reduceIte]
      have hnp := icy_not_prefix_of_http hs2
      rw [skip_none_append b hs (by intro hh; rw [hnp] at hh; exact absurd hh.2 (by simp))]
      simp only
      rw [skip_append b hs2]
    | none =>
      simp only at h
      split at h
      · injection h with h _; subst h; rfl
      · split at h
        · injection h with h _; subst h; rfl
        · injection h with _ h; cases h

end SquidModel.Http1Resp
