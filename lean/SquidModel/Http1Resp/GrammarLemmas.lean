/-
The parser model accepts exactly the words of the status-line grammar (`Grammar.StatusLine`) and extracts the grammar's fields.
The regenerated character sets and constants are tied to the literal grammar here (`decide +kernel` over all 256 octets).
-/
import SquidModel.Http1Resp.Segments
import SquidModel.Http1Resp.Grammar
import SquidModel.Base.Finite

namespace SquidModel.Http1Resp
open SquidModel.Gen.Http1Resp
open Grammar

/-! ### the regenerated sets and constants are the grammar's -/

theorem isDigit_tab : ∀ c : UInt8, (isDigit c == (decide (48 ≤ c.toNat) && decide (c.toNat ≤ 57))) = true :=
  forall_octet _ (by decide +kernel)

theorem delimStrict_tab : ∀ c : UInt8, (delimStrict.mem c == (c == 32)) = true :=
  forall_octet _ (by decide +kernel)

theorem delimRelaxed_tab : ∀ c : UInt8, (delimRelaxed.mem c == (c == 32 || c == 9 || c == 11 || c == 12 || c == 13)) = true :=
  forall_octet _ (by decide +kernel)

theorem phraseChars_tab : ∀ c : UInt8,
    (phraseChars.mem c == (c == 9 || c == 32 || (decide (33 ≤ c.toNat) && decide (c.toNat ≤ 126)) || decide (128 ≤ c.toNat))) = true :=
  forall_octet _ (by decide +kernel)

theorem lf_tab : ∀ c : UInt8, (Gen.CharSets.LF.mem c == (c == 10)) = true :=
  forall_octet _ (by decide +kernel)

theorem isDigit_iff (c : UInt8) : isDigit c = true ↔ IsDigit c := by
  have := isDigit_tab c
  simp only [beq_iff_eq] at this
  rw [this]; simp [IsDigit]

theorem mem_delims_iff (cfg : Cfg) (c : UInt8) : (delims cfg).mem c = true ↔ IsDelim cfg.relaxed c := by
  unfold delims IsDelim
  cases cfg.relaxed with
  | false =>
    have := delimStrict_tab c
    simp only [beq_iff_eq] at this
    simp [this]
  | true =>
    have := delimRelaxed_tab c
    simp only [beq_iff_eq] at this
    simp only [↓reduceIte, this]
    simp [or_assoc]

theorem mem_phraseChars_iff (c : UInt8) : phraseChars.mem c = true ↔ IsPhraseChar c := by
  have := phraseChars_tab c
  simp only [beq_iff_eq] at this
  rw [this]; simp [IsPhraseChar, or_assoc]

theorem mem_lf_iff (c : UInt8) : Gen.CharSets.LF.mem c = true ↔ c = 10 := by
  have := lf_tab c
  simp only [beq_iff_eq] at this
  rw [this]; simp

theorem http1magic_eq : http1magic = Grammar.httpMagic := by decide
theorem icyMagic_eq : Gen.Http1Resp.icyMagic = Grammar.icyMagic := by decide
theorem crlf_eq : crlf = [13, 10] := by decide

/-! ### line terminator -/

theorem terminator_head_not_phrase {relaxed : Bool} {t : Bytes} (ht : IsTerminator relaxed t) :
    ∃ c r, t = c :: r ∧ phraseChars.mem c = false := by
  rcases ht with rfl | ⟨_, rfl⟩
  · exact ⟨13, [10], rfl, by decide +kernel⟩
  · exact ⟨10, [], rfl, by decide +kernel⟩

theorem skipLineTerminator_term {cfg : Cfg} {t : Bytes} (ht : IsTerminator cfg.relaxed t) (rest : Bytes) :
    skipLineTerminator cfg (t ++ rest) = .ok rest := by
  unfold skipLineTerminator
  rcases ht with rfl | ⟨hr, rfl⟩
  · have h1 : (if cfg.relaxed = true then skipOne Gen.CharSets.LF ([13, 10] ++ rest) else none) = none := by
      split
      · have : Gen.CharSets.LF.mem 13 = false := by decide +kernel
        simp [skipOne, this]
      · rfl
    rw [h1]
    simp only
    rw [← crlf_eq]
    unfold skipRequired
    rw [skip_self_append]
  · simp only [hr, ↓reduceIte]
    have : Gen.CharSets.LF.mem 10 = true := by decide +kernel
    simp [skipOne, this]

theorem skipRequired_ok_inv {t x r : Bytes} (ht : t ≠ []) (h : skipRequired t x = .ok r) : x = t ++ r := by
  unfold skipRequired at h
  generalize hs : skip t x = s at h
  cases s with
  | some r' => simp only at h; injection h with h; subst h; exact skip_some hs
  | none =>
    simp only at h
    split at h
    · rename_i he; simp only [List.isEmpty_iff] at he; exact absurd he ht
    · split at h <;> cases h

theorem skipLineTerminator_ok_inv {cfg : Cfg} {x r : Bytes} (h : skipLineTerminator cfg x = .ok r) :
    ∃ t, IsTerminator cfg.relaxed t ∧ x = t ++ r := by
  unfold skipLineTerminator at h
  cases hrel : cfg.relaxed with
  | false =>
    simp only [hrel, Bool.false_eq_true, ↓reduceIte] at h
    have := skipRequired_ok_inv crlf_ne_nil h
    rw [crlf_eq] at this
    exact ⟨[13, 10], Or.inl rfl, this⟩
  | true =>
    simp only [hrel, ↓reduceIte] at h
    generalize hs : skipOne Gen.CharSets.LF x = s at h
    cases s with
    | some r' =>
      simp only at h; injection h with h; subst h
      obtain ⟨c, hc, hx⟩ := skipOne_some hs
      rw [mem_lf_iff] at hc
      subst hc
      exact ⟨[10], Or.inr ⟨rfl, rfl⟩, by simpa using hx⟩
    | none =>
      simp only at h
      have := skipRequired_ok_inv crlf_ne_nil h
      rw [crlf_eq] at this
      exact ⟨[13, 10], Or.inl rfl, this⟩

/-! ### reason phrase and terminator -/

theorem reasonAndTerminator_complete {cfg : Cfg} (S : State) {reason t : Bytes} (hr : ∀ c ∈ reason, IsPhraseChar c)
    (ht : IsTerminator cfg.relaxed t) (hS : S.reason = []) (rest : Bytes) :
    reasonAndTerminator cfg S (reason ++ (t ++ rest)) = ({ S with reason := reason, buf := rest }, 1) := by
  obtain ⟨c, r, htc, hc⟩ := terminator_head_not_phrase ht
  have hr' : ∀ a ∈ reason, phraseChars.mem a = true := fun a ha => (mem_phraseChars_iff a).mpr (hr a ha)
  unfold reasonAndTerminator
  have hsp := tokPrefix_span hr' hc (r ++ rest)
  have hsplit : reason ++ (t ++ rest) = reason ++ c :: (r ++ rest) := by rw [htc]; simp
  rw [hsplit, hsp]
  by_cases hnil : reason = []
  · subst hnil
    simp only [↓reduceIte, List.nil_append]
    have : c :: (r ++ rest) = t ++ rest := by rw [htc]; simp
    rw [this, skipLineTerminator_term ht]
    simp only
    obtain ⟨stage, ver, cs, status, reason, mime, ps, buf⟩ := S
    simp only at hS; subst hS; rfl
  · simp only [hnil, ↓reduceIte]
    have : c :: (r ++ rest) = t ++ rest := by rw [htc]; simp
    rw [this, skipLineTerminator_term ht]

theorem reasonAndTerminator_sound {cfg : Cfg} {S S' : State} {x : Bytes} (h : reasonAndTerminator cfg S x = (S', 1))
    (hS : S.reason = []) :
    ∃ reason t rest, x = reason ++ (t ++ rest) ∧ (∀ c ∈ reason, IsPhraseChar c) ∧ IsTerminator cfg.relaxed t ∧
      S' = { S with reason := reason, buf := rest } := by
  unfold reasonAndTerminator at h
  generalize hp : tokPrefix phraseChars x = p at h
  cases p with
  | none =>
    simp only at h
    generalize ht : skipLineTerminator cfg x = t at h
    cases t with
    | ok r =>
      simp only at h
      injection h with h1 _; subst h1
      obtain ⟨t, ht1, ht2⟩ := skipLineTerminator_ok_inv ht
      refine ⟨[], t, r, by simpa using ht2, by simp, ht1, ?_⟩
      obtain ⟨stage, ver, cs, status, reason, mime, ps, buf⟩ := S
      simp only at hS; subst hS; rfl
    | insufficient => simp only at h; injection h with _ h; cases h
    | invalid => simp only at h; injection h with _ h; cases h
  | some pr =>
    obtain ⟨p, r⟩ := pr
    simp only at h
    obtain ⟨hx, _, hall, _⟩ := tokPrefix_rest hp
    generalize ht : skipLineTerminator cfg r = t at h
    cases t with
    | ok r' =>
      simp only at h
      injection h with h1 _; subst h1
      obtain ⟨t, ht1, ht2⟩ := skipLineTerminator_ok_inv ht
      exact ⟨p, t, r', by rw [hx, ht2], fun c hc => (mem_phraseChars_iff c).mp (hall c hc), ht1, rfl⟩
    | insufficient => simp only at h; injection h with _ h; cases h
    | invalid => simp only at h; injection h with _ h; cases h

/-! ### status, reason, terminator -/

theorem statusAndReason_complete {cfg : Cfg} (S : State) {d1 d2 d3 dl2 : UInt8} {reason t : Bytes}
    (h1 : IsDigit d1) (h2 : IsDigit d2) (h3 : IsDigit d3) (hd : IsDelim cfg.relaxed dl2)
    (hlo : 100 ≤ val3 d1 d2 d3) (hhi : val3 d1 d2 d3 ≤ 599)
    (hr : ∀ c ∈ reason, IsPhraseChar c) (ht : IsTerminator cfg.relaxed t)
    (hS : S.reason = []) (hc : S.completedStatus = false) (rest : Bytes) :
    statusAndReason cfg S (d1 :: d2 :: d3 :: dl2 :: (reason ++ (t ++ rest))) =
      ({ S with status := val3 d1 d2 d3, completedStatus := true, reason := reason, buf := rest }, 1) := by
  unfold statusAndReason
  simp only [hc, Bool.not_false, ↓reduceIte]
  unfold parseResponseStatus
  rw [show statusDigits = 3 from rfl,
    int64_three_cons ((isDigit_iff d1).mpr h1) ((isDigit_iff d2).mpr h2) ((isDigit_iff d3).mpr h3)]
  simp only
  rw [skipOne_cons ((mem_delims_iff cfg dl2).mpr hd)]
  simp only
  have e : (d1.toNat - 48) * 100 + (d2.toNat - 48) * 10 + (d3.toNat - 48) = val3 d1 d2 d3 := rfl
  rw [e]
  have hlo' : ¬ (val3 d1 d2 d3 ≤ tooShortMax) := by simp only [tooShortMax]; omega
  have hhi' : ¬ (val3 d1 d2 d3 ≥ invalidMin) := by simp only [invalidMin]; omega
  simp only [hlo', hhi', ↓reduceIte]
  exact reasonAndTerminator_complete
    { S with status := val3 d1 d2 d3, buf := reason ++ (t ++ rest), completedStatus := true } hr ht hS rest

theorem statusAndReason_sound {cfg : Cfg} {S S' : State} {x : Bytes} (h : statusAndReason cfg S x = (S', 1))
    (hS : S.reason = []) (hc : S.completedStatus = false) :
    ∃ d1 d2 d3 dl2 reason t rest, x = d1 :: d2 :: d3 :: dl2 :: (reason ++ (t ++ rest)) ∧
      IsDigit d1 ∧ IsDigit d2 ∧ IsDigit d3 ∧ IsDelim cfg.relaxed dl2 ∧ 100 ≤ val3 d1 d2 d3 ∧ val3 d1 d2 d3 ≤ 599 ∧
      (∀ c ∈ reason, IsPhraseChar c) ∧ IsTerminator cfg.relaxed t ∧
      S' = { S with status := val3 d1 d2 d3, completedStatus := true, reason := reason, buf := rest } := by
  unfold statusAndReason at h
  simp only [hc, Bool.not_false, ↓reduceIte] at h
  generalize hp : parseResponseStatus cfg x S.status = p at h
  obtain ⟨res, code⟩ := p
  cases res with
  | insufficient => simp only at h; injection h with _ h; cases h
  | invalid => simp only at h; injection h with _ h; cases h
  | ok r =>
    simp only at h
    unfold parseResponseStatus at hp
    generalize hi : int64 statusDigits x = i at hp
    cases i with
    | none => simp only at hp; split at hp <;> cases hp
    | some vr =>
      obtain ⟨v, t1⟩ := vr
      simp only at hp
      generalize hso : skipOne (delims cfg) t1 = so at hp
      cases so with
      | none => simp only at hp; split at hp <;> cases hp
      | some t2 =>
        simp only at hp
        split at hp
        · cases hp
        · rename_i hlo
          split at hp
          · cases hp
          · rename_i hhi
            injection hp with hp1 hp2
            injection hp1 with hp1
            subst hp1 hp2
            simp only [tooShortMax, Nat.not_le] at hlo
            simp only [invalidMin, ge_iff_le, Nat.not_le] at hhi
            obtain ⟨d1, d2, d3, hd1, hd2, hd3, hx, hv⟩ := int64_three_some (show int64 3 x = some (v, t1) from hi) (by omega)
            obtain ⟨dl2, hdl, ht1⟩ := skipOne_some hso
            obtain ⟨reason, t, rest, hr1, hr2, hr3, hr4⟩ :=
              reasonAndTerminator_sound (S := { S with status := v, buf := t2, completedStatus := true }) h hS
            have e : v = val3 d1 d2 d3 := hv
            refine ⟨d1, d2, d3, dl2, reason, t, rest, by rw [hx, ht1, hr1], (isDigit_iff d1).mp hd1, (isDigit_iff d2).mp hd2,
              (isDigit_iff d3).mp hd3, (mem_delims_iff cfg dl2).mp hdl, by omega, by omega, hr2, hr3, ?_⟩
            rw [hr4, e]

/-! ### the first line -/

/-- `msgProtocol_` for a protocol label -/
def verOf : Label → Version
  | .http m => ⟨.http, 1, m⟩
  | .icy => ⟨.icy, 0, 0⟩

/-- the parser state right after a status line with fields `f` was accepted, `rest` being unparsed -/
def accepted (f : Fields) (rest : Bytes) : State :=
  { fresh rest with ver := verOf f.label, status := f.status, reason := f.reason, completedStatus := true }

/-- the parser state after the HTTP/0.9 decision on input `x` (nothing consumed) -/
def gatewayed (x : Bytes) : State :=
  { fresh x with ver := ⟨.http, gatewayMajor, gatewayMinor⟩, status := scOkay, reason := gatewayPhrase,
                 mime := fakeMimeBlock, stage := .done }

/-- `parseResponseFirstLine` on a fresh parser, spelled out -/
theorem firstLine_fresh (cfg : Cfg) (x : Bytes) : firstLine cfg (fresh x) =
    match skip http1magic x with
    | some t1 =>
      match int64 minorDigits t1 with
      | some (v, t2) =>
        match skipOne (delims cfg) t2 with
        | some t3 => statusAndReason cfg { fresh t3 with ver := ⟨.http, 1, v⟩ } t3
        | none => if t2.isEmpty then (fresh x, 0) else (fresh x, -1)
      | none => if t1.isEmpty then (fresh x, 0) else (fresh x, -1)
    | none =>
      match skip Gen.Http1Resp.icyMagic x with
      | some t1 => statusAndReason cfg { fresh t1 with ver := ⟨.icy, 0, 0⟩ } t1
      | none =>
        if (decide (x.length < http1magic.length) && x.isPrefixOf http1magic) = true then (fresh x, 0)
        else if (decide (x.length < Gen.Http1Resp.icyMagic.length) && x.isPrefixOf Gen.Http1Resp.icyMagic) = true then (fresh x, 0)
        else (gatewayed x, 1) := by
  unfold firstLine
  rfl

theorem firstLine_complete {cfg : Cfg} {line : Bytes} {f : Fields} (h : StatusLine cfg.relaxed line f) (rest : Bytes) :
    firstLine cfg (fresh (line ++ rest)) = (accepted f rest, 1) := by
  cases h with
  | http d dl1 d1 d2 d3 dl2 reason term hd hdl1 h1 h2 h3 hdl2 hlo hhi hr ht =>
    have hx : (Grammar.httpMagic ++ d :: dl1 :: d1 :: d2 :: d3 :: dl2 :: (reason ++ term)) ++ rest =
        http1magic ++ (d :: dl1 :: d1 :: d2 :: d3 :: dl2 :: (reason ++ (term ++ rest))) := by
      rw [http1magic_eq]; simp [List.append_assoc]
    rw [hx]
    unfold firstLine
    simp only [fresh, init, ne_eq, not_true_eq_false, ↓reduceIte]
    rw [skip_self_append]
    simp only
    rw [show minorDigits = 1 from rfl, int64_one_cons ((isDigit_iff d).mpr hd)]
    simp only
    rw [skipOne_cons ((mem_delims_iff cfg dl1).mpr hdl1)]
    simp only
    rw [statusAndReason_complete _ h1 h2 h3 hdl2 hlo hhi hr ht rfl rfl]
    rfl
  | icy d1 d2 d3 dl2 reason term h1 h2 h3 hdl2 hlo hhi hr ht =>
    have hx : (Grammar.icyMagic ++ d1 :: d2 :: d3 :: dl2 :: (reason ++ term)) ++ rest =
        Gen.Http1Resp.icyMagic ++ (d1 :: d2 :: d3 :: dl2 :: (reason ++ (term ++ rest))) := by
      rw [icyMagic_eq]; simp [List.append_assoc]
    rw [hx]
    unfold firstLine
    simp only [fresh, init, ne_eq, not_true_eq_false, ↓reduceIte]
    have hno : skip http1magic (Gen.Http1Resp.icyMagic ++ (d1 :: d2 :: d3 :: dl2 :: (reason ++ (term ++ rest)))) = none := by
      simp [skip, http1magic, Gen.Http1Resp.icyMagic]
    rw [hno]
    simp only
    rw [skip_self_append]
    simp only
    rw [statusAndReason_complete _ h1 h2 h3 hdl2 hlo hhi hr ht rfl rfl]
    rfl

theorem firstLine_sound {cfg : Cfg} {x : Bytes} {S' : State} (h : firstLine cfg (fresh x) = (S', 1))
    (hst : S'.stage = .first) :
    ∃ line rest f, x = line ++ rest ∧ StatusLine cfg.relaxed line f ∧ S' = accepted f rest := by
  rw [firstLine_fresh] at h
  generalize hs : skip http1magic x = s at h
  cases s with
  | some t1 =>
    simp only at h
    generalize hi : int64 minorDigits t1 = i at h
    cases i with
    | none => simp only at h; split at h <;> (injection h with _ h; cases h)
    | some vr =>
      obtain ⟨v, t2⟩ := vr
      simp only at h
      generalize hso : skipOne (delims cfg) t2 = so at h
      cases so with
      | none => simp only at h; split at h <;> (injection h with _ h; cases h)
      | some t3 =>
        simp only at h
        obtain ⟨d1, d2, d3, dl2, reason, t, rest, hx3, h1, h2, h3, hdl2, hlo, hhi, hr, ht, hS'⟩ :=
          statusAndReason_sound h rfl rfl
        obtain ⟨d, hd, ht1, hv⟩ := int64_one_some (show int64 1 t1 = some (v, t2) from hi)
        obtain ⟨dl1, hdl1, ht2⟩ := skipOne_some hso
        have hx := skip_some hs
        refine ⟨Grammar.httpMagic ++ d :: dl1 :: d1 :: d2 :: d3 :: dl2 :: (reason ++ t), rest,
          ⟨.http (d.toNat - 48), val3 d1 d2 d3, reason⟩, ?_,
          StatusLine.http d dl1 d1 d2 d3 dl2 reason t ((isDigit_iff d).mp hd) ((mem_delims_iff cfg dl1).mp hdl1) h1 h2 h3 hdl2 hlo hhi hr ht, ?_⟩
        · rw [hx, ht1, ht2, hx3, http1magic_eq]; simp [List.append_assoc]
        · rw [hS', hv]; rfl
  | none =>
    simp only at h
    generalize hs2 : skip Gen.Http1Resp.icyMagic x = s2 at h
    cases s2 with
    | some t1 =>
      simp only at h
      obtain ⟨d1, d2, d3, dl2, reason, t, rest, hx3, h1, h2, h3, hdl2, hlo, hhi, hr, ht, hS'⟩ :=
        statusAndReason_sound h rfl rfl
      have hx := skip_some hs2
      refine ⟨Grammar.icyMagic ++ d1 :: d2 :: d3 :: dl2 :: (reason ++ t), rest, ⟨.icy, val3 d1 d2 d3, reason⟩, ?_,
        StatusLine.icy d1 d2 d3 dl2 reason t h1 h2 h3 hdl2 hlo hhi hr ht, ?_⟩
      · rw [hx, hx3, icyMagic_eq]; simp [List.append_assoc]
      · rw [hS']; rfl
    | none =>
      simp only at h
      split at h
      · injection h with _ h; cases h
      · split at h
        · injection h with _ h; cases h
        · injection h with h _; subst h; cases hst

theorem statusAndReason_stage {cfg : Cfg} {S S' : State} {y : Bytes} {rc : Int} (h : statusAndReason cfg S y = (S', rc)) :
    S'.stage = S.stage := by
  have := (@statusAndReason_frame cfg S y).1
  rw [h] at this; exact this

/-! ### HTTP/0.9 -/

theorem skip_eq_none_iff {t x : Bytes} : skip t x = none ↔ ¬ t <+: x := by
  unfold skip
  split
  · rename_i h; simp [List.isPrefixOf_iff_prefix.mp h]
  · rename_i h; simp only [true_iff]; intro hp; exact h (List.isPrefixOf_iff_prefix.mpr hp)

/-- the HTTP/0.9 decision is taken exactly on inputs that neither carry nor can still grow a magic prefix -/
theorem firstLine_http09_iff {cfg : Cfg} {x : Bytes} :
    firstLine cfg (fresh x) = (gatewayed x, 1) ↔ NoMagic x := by
  unfold NoMagic
  rw [← http1magic_eq, ← icyMagic_eq]
  constructor
  · intro h
    rw [firstLine_fresh] at h
    generalize hs : skip http1magic x = s at h
    cases s with
    | some t1 =>
      exfalso
      simp only at h
      split at h
      · split at h
        · have := statusAndReason_stage h; cases this
        · split at h <;> (injection h with h _; have := congrArg State.stage h; cases this)
      · split at h <;> (injection h with h _; have := congrArg State.stage h; cases this)
    | none =>
      simp only at h
      generalize hs2 : skip Gen.Http1Resp.icyMagic x = s2 at h
      cases s2 with
      | some t1 =>
        exfalso
        simp only at h
        have := statusAndReason_stage h; cases this
      | none =>
        simp only at h
        refine ⟨skip_eq_none_iff.mp hs, skip_eq_none_iff.mp hs2, ?_, ?_⟩
        · intro hh
          rw [if_pos (by simp only [Bool.and_eq_true, decide_eq_true_eq]; exact ⟨hh.1, List.isPrefixOf_iff_prefix.mpr hh.2⟩)] at h
          injection h with h _; have := congrArg State.stage h; cases this
        · intro hh
          split at h
          · injection h with h _; have := congrArg State.stage h; cases this
          · rw [if_pos (by simp only [Bool.and_eq_true, decide_eq_true_eq]; exact ⟨hh.1, List.isPrefixOf_iff_prefix.mpr hh.2⟩)] at h
            injection h with h _; have := congrArg State.stage h; cases this
  · rintro ⟨h1, h2, h3, h4⟩
    rw [firstLine_fresh]
    rw [skip_eq_none_iff.mpr h1]
    simp only
    rw [skip_eq_none_iff.mpr h2]
    simp only
    rw [if_neg (by simp only [Bool.and_eq_true, decide_eq_true_eq]; intro hh; exact h3 ⟨hh.1, List.isPrefixOf_iff_prefix.mp hh.2⟩),
      if_neg (by simp only [Bool.and_eq_true, decide_eq_true_eq]; intro hh; exact h4 ⟨hh.1, List.isPrefixOf_iff_prefix.mp hh.2⟩)]

/-! ### the whole `parse()` call -/

theorem grabMimeBlock_fields (cfg : Cfg) (S : State) :
    (grabMimeBlock cfg S).1.ver = S.ver ∧ (grabMimeBlock cfg S).1.status = S.status ∧ (grabMimeBlock cfg S).1.reason = S.reason := by
  unfold grabMimeBlock
  simp only
  split
  · generalize headersEnd S.buf = he
    obtain ⟨n, f⟩ := he
    simp only
    split
    · split <;> simp
    · split <;> simp
  · simp

/-- locating the header block never changes the status-line fields -/
theorem parseMime_fields (cfg : Cfg) (S : State) :
    (parseMime cfg S).1.ver = S.ver ∧ (parseMime cfg S).1.status = S.status ∧ (parseMime cfg S).1.reason = S.reason := by
  unfold parseMime
  split
  · have := grabMimeBlock_fields cfg S
    generalize grabMimeBlock cfg S = g at this
    obtain ⟨S1, ok1⟩ := g
    cases ok1 <;> exact this
  · simp

theorem firstLine_done {cfg : Cfg} {x : Bytes} {S1 : State} {rc : Int} (h : firstLine cfg (fresh x) = (S1, rc))
    (hd : S1.stage = .done) : S1 = gatewayed x ∧ rc = 1 := by
  rw [firstLine_fresh] at h
  split at h
  · split at h
    · split at h
      · have := statusAndReason_stage h; rw [hd] at this; cases this
      · split at h <;> (injection h with h _; subst h; cases hd)
    · split at h <;> (injection h with h _; subst h; cases hd)
  · split at h
    · have := statusAndReason_stage h; rw [hd] at this; cases this
    · split at h
      · injection h with h _; subst h; cases hd
      · split at h
        · injection h with h _; subst h; cases hd
        · injection h with h1 h2; exact ⟨h1.symm, h2.symm⟩

/-- a complete status line at the start of the input: the parser goes on to the header block holding exactly the
    grammar's fields -/
theorem oneShot_status_line {cfg : Cfg} {line : Bytes} {f : Fields} (h : StatusLine cfg.relaxed line f) (rest : Bytes) :
    oneShot cfg (line ++ rest) =
      ⟨(parseMime cfg { accepted f rest with stage := .mime }).1, (parseMime cfg { accepted f rest with stage := .mime }).2⟩ := by
  have hne : line ++ rest ≠ [] := by
    cases h <;> simp [Grammar.httpMagic, Grammar.icyMagic]
  rw [oneShot_ne hne]
  unfold parseFirst
  have hst : (fresh (line ++ rest)).stage = .first := rfl
  simp only [hst, ↓reduceIte]
  rw [firstLine_complete h rest]
  have hst2 : (accepted f rest).stage = .first := rfl
  simp [hst2]

/-- whenever `parse()` gets past the first line without a syntax error, the input starts with a word of the
    status-line grammar whose fields are the ones extracted — or it is the HTTP/0.9 case -/
theorem oneShot_accepted {cfg : Cfg} {x : Bytes} (hx : x ≠ [])
    (h : (oneShot cfg x).st.stage = .mime ∨ ((oneShot cfg x).st.stage = .done ∧ (oneShot cfg x).st.parseStatus ≠ scInvalidHeader)) :
    (NoMagic x ∧ oneShot cfg x = ⟨gatewayed x, true⟩) ∨
    ∃ line rest f, x = line ++ rest ∧ StatusLine cfg.relaxed line f ∧
      oneShot cfg x = ⟨(parseMime cfg { accepted f rest with stage := .mime }).1, (parseMime cfg { accepted f rest with stage := .mime }).2⟩ := by
  rw [oneShot_ne hx] at h ⊢
  unfold parseFirst at h ⊢
  have hst : (fresh x).stage = .first := rfl
  simp only [hst, ↓reduceIte] at h ⊢
  generalize hf : firstLine cfg (fresh x) = fl at h ⊢
  obtain ⟨S1, rc⟩ := fl
  have hfr := firstLine_frame hf
  simp only at h ⊢
  rcases hfr.1 with hrc | hrc | hrc
  · -- first line complete
    subst hrc
    simp only [Int.reduceLT, Int.reduceGT, decide_true, Bool.true_and, ↓reduceIte, decide_eq_true_eq] at h ⊢
    by_cases hS1 : S1.stage = .first
    · right
      obtain ⟨line, rest, f, hx', hsl, hacc⟩ := firstLine_sound hf hS1
      refine ⟨line, rest, f, hx', hsl, ?_⟩
      simp only [hS1, ↓reduceIte]
      rw [hacc]
    · left
      have hd : S1.stage = .done := by
        rcases hfr.2.1 with h1 | h1
        · exact absurd (by rw [h1]; rfl) hS1
        · exact h1.2
      obtain ⟨hg, _⟩ := firstLine_done hf hd
      subst hg
      refine ⟨firstLine_http09_iff.mp hf, ?_⟩
      simp only [hS1, ↓reduceIte]
      unfold parseMime
      simp [gatewayed]
  · -- still inside the first line: the stage stays FIRST
    subst hrc
    exfalso
    simp only [Int.lt_irrefl, decide_false, Bool.false_and, Bool.false_eq_true, ↓reduceIte] at h
    have hS1 : S1.stage = .first := by
      rcases hfr.2.1 with h1 | h1
      · rw [h1]; rfl
      · exact absurd h1.1 (by decide)
    unfold parseMime at h
    simp [hS1] at h
  · -- syntax error
    subst hrc
    exfalso
    simp [scInvalidHeader] at h

theorem StatusLine.status_range {relaxed : Bool} {line : Bytes} {f : Fields} (h : StatusLine relaxed line f) :
    100 ≤ f.status ∧ f.status ≤ 599 := by
  cases h <;> exact ⟨by assumption, by assumption⟩

/-- from stage MIME the parser stays there or finishes; the only error it can raise is header-too-large -/
theorem parseMime_stage_cases (cfg : Cfg) (S : State) (hs : S.stage = .mime) :
    ((parseMime cfg S).1.stage = .mime ∨ (parseMime cfg S).1.stage = .done) ∧
    ((parseMime cfg S).1.parseStatus = S.parseStatus ∨ (parseMime cfg S).1.parseStatus = scHeaderTooLarge) ∧
    (parseMime cfg S).1.completedStatus = S.completedStatus := by
  unfold parseMime
  simp only [hs, ↓reduceIte]
  have key : ((grabMimeBlock cfg S).1.stage = .mime ∨ (grabMimeBlock cfg S).1.stage = .done) ∧
      ((grabMimeBlock cfg S).1.parseStatus = S.parseStatus ∨ (grabMimeBlock cfg S).1.parseStatus = scHeaderTooLarge) ∧
      (grabMimeBlock cfg S).1.completedStatus = S.completedStatus := by
    unfold grabMimeBlock
    simp only
    split
    · generalize headersEnd S.buf = he
      obtain ⟨n, f⟩ := he
      simp only
      split
      · split <;> simp
      · split
        · simp
        · simp [hs]
    · simp
  generalize grabMimeBlock cfg S = g at key
  obtain ⟨S1, ok1⟩ := g
  cases ok1 <;> exact key

/-- the syntax-error verdict ends the parse -/
theorem parseFirst_invalid_done {cfg : Cfg} {x : Bytes} {S' : State} {ok : Bool}
    (h : parseFirst cfg (fresh x) = (S', ok)) (hl : S'.parseStatus = scInvalidHeader) : S'.stage = .done := by
  unfold parseFirst at h
  have hst : (fresh x).stage = .first := rfl
  simp only [hst, ↓reduceIte] at h
  generalize hf : firstLine cfg (fresh x) = fl at h
  obtain ⟨S1, rc⟩ := fl
  have hfr := firstLine_frame hf
  have hps : S1.parseStatus = scNone := by rw [hfr.2.2]; rfl
  simp only at h
  split at h
  · injection h with h1 h2; subst h1; rfl
  · exfalso
    generalize hS2 : (if (decide (rc > 0) && decide (S1.stage = Stage.first)) = true then { S1 with stage := Stage.mime } else S1) = S2 at h
    have hps2 : S2.parseStatus = scNone := by
      rw [← hS2]; split <;> exact hps
    unfold parseMime at h
    split at h
    · rename_i hm
      have hc := (parseMime_stage_cases cfg S2 hm).2.1
      unfold parseMime at hc
      simp only [hm, ↓reduceIte] at hc
      generalize hg : grabMimeBlock cfg S2 = g at h hc
      obtain ⟨S3, ok3⟩ := g
      have hS3 : S3 = S' := by cases ok3 <;> (simp only at h; injection h)
      subst hS3
      have hc' : S3.parseStatus = S2.parseStatus ∨ S3.parseStatus = scHeaderTooLarge := by
        cases ok3 <;> exact hc
      rw [hl, hps2] at hc'
      rcases hc' with h1 | h1 <;> exact absurd h1 (by decide)
    · injection h with h1 h2; subst h1
      rw [hl] at hps2; exact absurd hps2 (by decide)

/-- no false rejects: while the bytes received so far can still be completed to an input that starts with a status line,
    the parser does not report a syntax error -/
theorem viable_prefix_not_rejected {cfg : Cfg} {line : Bytes} {f : Fields} (h : StatusLine cfg.relaxed line f)
    (x b rest : Bytes) (hxb : x ++ b = line ++ rest) : (oneShot cfg x).st.parseStatus ≠ scInvalidHeader := by
  intro hbad
  have hx : x ≠ [] := by
    intro hx; subst hx; rw [oneShot_nil] at hbad; exact absurd hbad (by decide)
  have hstep := feedStep_oneShot (cfg := cfg) x b (by rw [hbad]; decide)
  have hdone : (oneShot cfg x).st.stage = .done := by
    rw [oneShot_ne hx] at hbad ⊢
    generalize hp : parseFirst cfg (fresh x) = p at hbad
    obtain ⟨S', ok⟩ := p
    exact parseFirst_invalid_done hp hbad
  have hkeep : (feedStep cfg (oneShot cfg x) b).st.parseStatus = scInvalidHeader := by
    unfold feedStep
    simp only [hdone, ↓reduceIte]
    exact hbad
  rw [hstep, hxb] at hkeep
  have hacc : (oneShot cfg (line ++ rest)).st.parseStatus = scNone ∨ (oneShot cfg (line ++ rest)).st.parseStatus = scHeaderTooLarge := by
    rw [oneShot_status_line h rest]
    have hs := parseMime_stage_cases cfg { accepted f rest with stage := .mime } rfl
    exact hs.2.1
  rw [hkeep] at hacc
  rcases hacc with h1 | h1 <;> exact absurd h1 (by decide)

end SquidModel.Http1Resp
