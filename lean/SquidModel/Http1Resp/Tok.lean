/-
The `Parser::Tokenizer` / `SBuf` primitives used by `Http::One::ResponseParser` (src/parser/Tokenizer.cc), as functions on
byte lists. A tokenizer is represented by its unparsed rest (`buf_`); "consume n" is `List.drop n`.
Core-only. Private to the C23 model (other models define their own helpers).
-/
import SquidModel.Base.Bytes
import SquidModel.Base.CharSet

namespace SquidModel.Http1Resp

/-- `SBuf::findFirstNotOf(set)`: index of the first octet not in the set; `none` = `npos` -/
def findFirstNotOf (cs : CharSet) : Bytes → Option Nat
  | [] => none
  | c :: r => if cs.mem c then (findFirstNotOf cs r).map (· + 1) else some 0

/-- `Tokenizer::skip(const SBuf &tokenToSkip)`: `buf_.startsWith(token)` then consume it -/
def skip (token buf : Bytes) : Option Bytes :=
  if token.isPrefixOf buf then some (buf.drop token.length) else none

/-- `Tokenizer::skipOne(const CharacterSet &)` -/
def skipOne (cs : CharSet) : Bytes → Option Bytes
  | [] => none
  | c :: r => if cs.mem c then some r else none

/-- `Tokenizer::skipAll(const CharacterSet &)`: (number of octets skipped, rest) -/
def skipAll (cs : CharSet) : Bytes → Nat × Bytes
  | [] => (0, [])
  | c :: r => if cs.mem c then let (n, r') := skipAll cs r; (n + 1, r') else (0, c :: r)

/-- `xisdigit` -/
def isDigit (c : UInt8) : Bool := 48 ≤ c && c ≤ 57

/-- the do-while loop of `Tokenizer::int64` for base 10 without sign over the first `limit` octets, started with
    accumulator `acc`: (number of digits taken, accumulated value). Base-10 letters (`xisalpha`, value ≥ 10 = base) and
    everything else `break` the loop. -/
def digitsLoop : Nat → Bytes → Nat → Nat × Nat
  | 0, _, acc => (0, acc)
  | _ + 1, [], acc => (0, acc)
  | k + 1, c :: r, acc =>
    if isDigit c then
      let (n, v) := digitsLoop k r (acc * 10 + (c.toNat - 48))
      (n + 1, v)
    else (0, acc)

/-- `Tokenizer::int64(result, 10, false, limit)`; `none` = returned false (tokenizer unchanged).
    The overflow branch (`any < 0`) needs 19 digits and is unreachable for the limits used here (1 and 3); it is not modelled. -/
def int64 (limit : Nat) (buf : Bytes) : Option (Nat × Bytes) :=
  if buf.isEmpty || limit == 0 then none
  else
    let (n, v) := digitsLoop limit buf 0
    if n == 0 then none else some (v, buf.drop n)

/-- `Tokenizer::prefix(SBuf &returnedToken, const CharacterSet &tokenChars)` with the default limit `npos`:
    `some (token, rest)` or `none` (returned false, nothing consumed, `returnedToken` untouched) -/
def tokPrefix (cs : CharSet) (buf : Bytes) : Option (Bytes × Bytes) :=
  match findFirstNotOf cs buf with
  | some 0 => none                                   -- prefixLen == 0
  | none => if buf.isEmpty then none                 -- npos && atEnd()
            else some (buf, [])                      -- whole haystack matched
  | some n => some (buf.take n, buf.drop n)

/-- three-way result of the throwing tokenizer operations -/
inductive Res (α : Type) where
  | ok (a : α)
  | insufficient        -- throw InsufficientInput()
  | invalid             -- throw TextException(...)
  deriving Repr, DecidableEq

/-- `Tokenizer::skipRequired(description, tokenToSkip)` -/
def skipRequired (token buf : Bytes) : Res Bytes :=
  match skip token buf with
  | some r => .ok r
  | none =>
    if token.isEmpty then .ok buf
    else if buf.isPrefixOf token then .insufficient    -- tokenToSkip.startsWith(buf_)
    else .invalid

end SquidModel.Http1Resp
