/-
The header-block phase (headersEnd, grabMimeBlock) under extension of the input, and the top-level results:
a definite outcome of `parse` is stable under more input, a pending one resumes to the one-shot result,
hence feeding any segmentation equals feeding the concatenation.
-/
import SquidModel.Http1Resp.ParserLemmas

namespace SquidModel.Http1Resp
open SquidModel.Gen.Http1Resp

/-! ### headersEnd -/

theorem headersEndLoop_s3 (x : Bytes) (e : Nat) (f : Bool) : headersEndLoop x .s3 e f = (.s3, e, f) := by
  cases x <;> simp [headersEndLoop]

/-- running the scanner over `x ++ b` = running it over `x`, then over `b` from where it stopped -/
theorem headersEndLoop_append (x b : Bytes) (s : HState) (e : Nat) (f : Bool) :
    headersEndLoop (x ++ b) s e f =
      let r := headersEndLoop x s e f
      headersEndLoop b r.1 r.2.1 r.2.2 := by
  induction x generalizing s e f with
  | nil => simp [headersEndLoop]
  | cons c x ih =>
    cases s with
    | s3 => simp [headersEndLoop, headersEndLoop_s3]
    | s0 => simp only [List.cons_append, headersEndLoop]; exact ih _ _ _
    | s1 =>
      simp only [List.cons_append, headersEndLoop]
      split
      · exact ih _ _ _
      · split
        · exact ih _ _ _
        · split <;> exact ih _ _ _
    | s2 => simp only [List.cons_append, headersEndLoop]; exact ih _ _ _

/-- while the scanner has not reached its final state it has consumed everything -/
theorem headersEndLoop_count (x : Bytes) (s : HState) (e : Nat) (f : Bool) :
    let r := headersEndLoop x s e f
    e ≤ r.2.1 ∧ r.2.1 ≤ e + x.length ∧ (r.1 ≠ .s3 → r.2.1 = e + x.length) ∧ (s ≠ .s3 → r.1 = .s3 → e < r.2.1) := by
  induction x generalizing s e f with
  | nil => simp [headersEndLoop]
  | cons c x ih =>
    cases s with
    | s3 => simp [headersEndLoop]
    | s0 =>
      simp only [headersEndLoop]
      have := ih (if c = 10 then HState.s1 else HState.s0) (e + 1) f
      simp only [List.length_cons] at this ⊢
      refine ⟨by omega, by omega, fun h => by have := this.2.2.1 h; omega, fun _ h => ?_⟩
      omega
    | s1 =>
      simp only [headersEndLoop]
      split
      · have := ih HState.s2 (e + 1) f
        simp only [List.length_cons] at this ⊢
        exact ⟨by omega, by omega, fun h => by have := this.2.2.1 h; omega, fun _ _ => by omega⟩
      · split
        · have := ih HState.s3 (e + 1) f
          simp only [List.length_cons] at this ⊢
          exact ⟨by omega, by omega, fun h => by have := this.2.2.1 h; omega, fun _ _ => by omega⟩
        · split
          · have := ih HState.s0 (e + 1) true
            simp only [List.length_cons] at this ⊢
            exact ⟨by omega, by omega, fun h => by have := this.2.2.1 h; omega, fun _ _ => by omega⟩
          · have := ih HState.s0 (e + 1) f
            simp only [List.length_cons] at this ⊢
            exact ⟨by omega, by omega, fun h => by have := this.2.2.1 h; omega, fun _ _ => by omega⟩
    | s2 =>
      simp only [headersEndLoop]
      have := ih (if c = 10 then HState.s3 else HState.s0) (e + 1) f
      simp only [List.length_cons] at this ⊢
      exact ⟨by omega, by omega, fun h => by have := this.2.2.1 h; omega, fun _ _ => by omega⟩

/-- a found end of headers is stable under more input -/
theorem headersEnd_append {x : Bytes} {n : Nat} {f : Bool} (b : Bytes) (h : headersEnd x = (n, f)) (hn : n ≠ 0) :
    headersEnd (x ++ b) = (n, f) := by
  unfold headersEnd at h ⊢
  rw [headersEndLoop_append]
  generalize hr : headersEndLoop x .s1 0 false = r at h
  obtain ⟨s, e, g⟩ := r
  cases s with
  | s3 => simp only at h ⊢; rw [headersEndLoop_s3]; exact h
  | s0 => simp only at h; injection h with h _; exact absurd h.symm hn
  | s1 => simp only at h; injection h with h _; exact absurd h.symm hn
  | s2 => simp only at h; injection h with h _; exact absurd h.symm hn

theorem headersEnd_le (x : Bytes) : (headersEnd x).1 ≤ x.length := by
  unfold headersEnd
  have := headersEndLoop_count x .s1 0 false
  generalize headersEndLoop x .s1 0 false = r at this
  obtain ⟨s, e, g⟩ := r
  cases s <;> simp at this ⊢
  omega

/-- an end of headers that only shows up after more input lies beyond the old input -/
theorem headersEnd_late {x b : Bytes} (h : (headersEnd x).1 = 0) (hn : (headersEnd (x ++ b)).1 ≠ 0) :
    x.length < (headersEnd (x ++ b)).1 := by
  unfold headersEnd at h hn ⊢
  rw [headersEndLoop_append] at hn ⊢
  have hc := headersEndLoop_count x .s1 0 false
  generalize hr : headersEndLoop x .s1 0 false = r at h hn hc ⊢
  obtain ⟨s, e, g⟩ := r
  have hc2 := headersEndLoop_count b s e g
  generalize hr2 : headersEndLoop b s e g = r2 at hn hc2 ⊢
  obtain ⟨q, e2, g2⟩ := r2
  simp only at h hn hc hc2 ⊢
  cases s with
  | s3 =>
    exfalso
    have := hc.2.2.2 (by simp) rfl
    simp at h
    omega
  | s0 | s1 | s2 =>
    have he : e = x.length := by have := hc.2.2.1 (by simp); omega
    cases q with
    | s3 =>
      simp only
      have := hc2.2.2.2 (by simp) rfl
      omega
    | s0 | s1 | s2 => simp at hn

/-! ### grabMimeBlock -/

theorem grabMimeBlock_pending {cfg : Cfg} {S S' : State} {ok : Bool} (h : grabMimeBlock cfg S = (S', ok))
    (_hs : S.stage ≠ .done) (hs' : S'.stage ≠ .done) : S' = S ∧ ok = false := by
  unfold grabMimeBlock at h
  simp only at h
  split at h
  · generalize headersEnd S.buf = he at h
    obtain ⟨n, f⟩ := he
    simp only at h
    split at h
    · split at h <;> (injection h with h1 h2; subst h1; simp at hs')
    · split at h
      · injection h with h1 h2; subst h1; simp at hs'
      · injection h with h1 h2; exact ⟨h1.symm, h2.symm⟩
  · injection h with h1 h2; subst h1; simp at hs'

theorem grabMimeBlock_done_append {cfg : Cfg} {S S' : State} {ok : Bool} {x : Bytes} (b : Bytes) (hb : S.buf = x)
    (h : grabMimeBlock cfg S = (S', ok)) (hs : S.stage ≠ .done) (hs' : S'.stage = .done)
    (hl : S'.parseStatus ≠ scHeaderTooLarge) :
    grabMimeBlock cfg { S with buf := x ++ b } = ({ S' with buf := S'.buf ++ b }, ok) := by
  obtain ⟨stage, ver, cs, status, reason, mime, ps, buf⟩ := S
  simp only at hb hs; subst hb
  unfold grabMimeBlock at h ⊢
  simp only at h ⊢
  split
  · rename_i he
    rw [if_pos he] at h
    generalize hhe : headersEnd buf = r at h
    obtain ⟨n, f⟩ := r
    simp only at h
    split at h
    · rename_i hn
      rw [headersEnd_append b hhe hn]
      simp only
      rw [if_pos hn]
      have hle : n ≤ buf.length := by have := headersEnd_le buf; rw [hhe] at this; exact this
      split at h
      · injection h with h1 h2; subst h1; simp at hl
      · rename_i hsz
        have hfls : firstLineSize { stage := stage, ver := ver, completedStatus := cs, status := status, reason := reason, mime := mime, parseStatus := ps, buf := buf ++ b } =
            firstLineSize { stage := stage, ver := ver, completedStatus := cs, status := status, reason := reason, mime := mime, parseStatus := ps, buf := buf } := rfl
        rw [hfls, if_neg hsz]
        injection h with h1 h2; subst h1 h2
        simp only [List.take_append_of_le_length hle, List.drop_append_of_le_length hle]
    · split at h
      · injection h with h1 h2; subst h1; simp at hl
      · injection h with h1 h2; subst h1; exact absurd hs' hs
  · rename_i he
    rw [if_neg he] at h
    injection h with h1 h2; subst h1 h2; rfl

/-- the header-too-large error is stable under more input, except for what is left in the buffer -/
theorem grabMimeBlock_tooLarge_append {cfg : Cfg} {S S' : State} {ok : Bool} {x : Bytes} (b : Bytes) (hb : S.buf = x)
    (h : grabMimeBlock cfg S = (S', ok)) (hp : S.parseStatus ≠ scHeaderTooLarge) (hl : S'.parseStatus = scHeaderTooLarge) :
    ok = false ∧ ∃ r, grabMimeBlock cfg { S with buf := x ++ b } = ({ S' with buf := r }, false) := by
  obtain ⟨stage, ver, cs, status, reason, mime, ps, buf⟩ := S
  simp only at hb hp; subst hb
  unfold grabMimeBlock at h ⊢
  simp only at h ⊢
  have hfls : firstLineSize { stage := stage, ver := ver, completedStatus := cs, status := status, reason := reason, mime := mime, parseStatus := ps, buf := buf ++ b } =
      firstLineSize { stage := stage, ver := ver, completedStatus := cs, status := status, reason := reason, mime := mime, parseStatus := ps, buf := buf } := rfl
  split
  · rename_i he
    rw [if_pos he] at h
    generalize hhe : headersEnd buf = r at h
    obtain ⟨n, f⟩ := r
    simp only at h
    split at h
    · rename_i hn
      rw [headersEnd_append b hhe hn]
      simp only
      rw [if_pos hn]
      split at h
      · rename_i hsz
        rw [hfls, if_pos hsz]
        injection h with h1 h2; subst h1 h2
        exact ⟨rfl, _, rfl⟩
      · injection h with h1 h2; subst h1; exact absurd hl hp
    · rename_i hn
      split at h
      · rename_i hsz
        injection h with h1 h2; subst h1 h2
        refine ⟨rfl, ?_⟩
        generalize hhe2 : headersEnd (buf ++ b) = r2
        obtain ⟨n2, f2⟩ := r2
        simp only
        have hn0 : n = 0 := by simpa using hn
        split
        · rename_i hn2
          have hlate := @headersEnd_late buf b (by rw [hhe]; exact hn0) (by rw [hhe2]; exact hn2)
          rw [hhe2] at hlate
          simp only at hlate
          rw [hfls, if_pos (by omega)]
          exact ⟨_, rfl⟩
        · rw [hfls, if_pos (by simp; omega)]
          exact ⟨_, rfl⟩
      · injection h with h1 h2; subst h1; exact absurd hl hp
  · rename_i he
    rw [if_neg he] at h
    injection h with h1 h2; subst h1; exact absurd hl hp

/-! ### parseMime (stage 3 of parse) -/

theorem parseMime_pending {cfg : Cfg} {S S' : State} {ok : Bool} (h : parseMime cfg S = (S', ok))
    (hs' : S'.stage ≠ .done) : S' = S ∧ ok = false := by
  unfold parseMime at h
  split at h
  · rename_i hm
    generalize hg : grabMimeBlock cfg S = g at h
    obtain ⟨S1, ok1⟩ := g
    cases ok1 with
    | false =>
      simp only at h; injection h with h1 h2; subst h1 h2
      exact grabMimeBlock_pending hg (by rw [hm]; simp) hs'
    | true =>
      simp only at h; injection h with h1 h2; subst h1
      have := grabMimeBlock_pending hg (by rw [hm]; simp) hs'
      simp at this
  · injection h with h1 h2; subst h1
    exact ⟨rfl, by rw [← h2]; simpa using hs'⟩

theorem parseMime_done_append {cfg : Cfg} {S S' : State} {ok : Bool} {x : Bytes} (b : Bytes) (hb : S.buf = x)
    (h : parseMime cfg S = (S', ok)) (hs' : S'.stage = .done) (hl : S'.parseStatus ≠ scHeaderTooLarge) :
    parseMime cfg { S with buf := x ++ b } = ({ S' with buf := S'.buf ++ b }, ok) := by
  obtain ⟨stage, ver, cs, status, reason, mime, ps, buf⟩ := S
  simp only at hb; subst hb
  unfold parseMime at h ⊢
  simp only at h ⊢
  by_cases hm : stage = .mime
  · subst hm
    simp only [↓reduceIte] at h ⊢
    generalize hg : grabMimeBlock cfg _ = g at h
    obtain ⟨S1, ok1⟩ := g
    have hS1 : S1 = S' := by cases ok1 <;> (simp only at h; injection h)
    subst hS1
    have := grabMimeBlock_done_append b rfl hg (by simp) hs' hl
    simp only at this
    rw [this]
    cases ok1 with
    | false => simp only at h ⊢; injection h with _ h2; rw [h2]
    | true => simp only at h ⊢; injection h with _ h2; rw [← h2]
  · simp only [hm, ↓reduceIte] at h ⊢
    injection h with h1 h2; subst h1 h2
    rfl

theorem parseMime_tooLarge_append {cfg : Cfg} {S S' : State} {ok : Bool} {x : Bytes} (b : Bytes) (hb : S.buf = x)
    (h : parseMime cfg S = (S', ok)) (hp : S.parseStatus ≠ scHeaderTooLarge) (hl : S'.parseStatus = scHeaderTooLarge) :
    ok = false ∧ ∃ r, parseMime cfg { S with buf := x ++ b } = ({ S' with buf := r }, false) := by
  obtain ⟨stage, ver, cs, status, reason, mime, ps, buf⟩ := S
  simp only at hb hp; subst hb
  unfold parseMime at h ⊢
  simp only at h ⊢
  by_cases hm : stage = .mime
  · subst hm
    simp only [↓reduceIte] at h ⊢
    generalize hg : grabMimeBlock cfg _ = g at h
    obtain ⟨S1, ok1⟩ := g
    have hS1 : S1 = S' := by cases ok1 <;> (simp only at h; injection h)
    subst hS1
    obtain ⟨hok, r, hr⟩ := grabMimeBlock_tooLarge_append b rfl hg hp hl
    subst hok
    simp only at h; injection h with _ h2
    simp only at hr
    rw [hr]
    exact ⟨h2.symm, r, rfl⟩
  · simp only [hm, ↓reduceIte] at h
    injection h with h1 h2; subst h1; exact absurd hl hp

/-! ### frame facts of parseResponseFirstLine -/

theorem reasonAndTerminator_rc {cfg : Cfg} {S : State} {x : Bytes} :
    (reasonAndTerminator cfg S x).2 = 1 ∨ (reasonAndTerminator cfg S x).2 = 0 ∨ (reasonAndTerminator cfg S x).2 = -1 := by
  unfold reasonAndTerminator
  cases tokPrefix phraseChars x with
  | none => simp only; split <;> simp
  | some pr => obtain ⟨p, r⟩ := pr; simp only; split <;> simp

theorem statusAndReason_rc {cfg : Cfg} {S : State} {x : Bytes} :
    (statusAndReason cfg S x).2 = 1 ∨ (statusAndReason cfg S x).2 = 0 ∨ (statusAndReason cfg S x).2 = -1 := by
  unfold statusAndReason
  split
  · split
    · exact reasonAndTerminator_rc
    · simp
    · simp
  · exact reasonAndTerminator_rc

/-- result codes are 1, 0, -1; the stage only changes on the HTTP/0.9 path (to DONE, with result 1);
    parseStatusCode is never touched -/
theorem firstLine_frame {cfg : Cfg} {S S' : State} {rc : Int} (h : firstLine cfg S = (S', rc)) :
    (rc = 1 ∨ rc = 0 ∨ rc = -1) ∧ (S'.stage = S.stage ∨ (rc = 1 ∧ S'.stage = .done)) ∧ S'.parseStatus = S.parseStatus := by
  have sr : ∀ (T : State) (y : Bytes), T.stage = S.stage → T.parseStatus = S.parseStatus →
      statusAndReason cfg T y = (S', rc) →
      (rc = 1 ∨ rc = 0 ∨ rc = -1) ∧ (S'.stage = S.stage ∨ (rc = 1 ∧ S'.stage = .done)) ∧ S'.parseStatus = S.parseStatus := by
    intro T y h1 h2 h3
    have f := @statusAndReason_frame cfg T y
    have r := @statusAndReason_rc cfg T y
    rw [h3] at f r
    exact ⟨r, Or.inl (by rw [f.1, h1]), by rw [f.2.2.1, h2]⟩
  unfold firstLine at h
  split at h
  · exact sr _ _ rfl rfl h
  · split at h
    · split at h
      · split at h
        · refine sr _ _ ?_ ?_ h <;> rfl
        · split at h <;> (injection h with h1 h2; subst h1 h2; simp)
      · split at h <;> (injection h with h1 h2; subst h1 h2; simp)
    · split at h
      · refine sr _ _ ?_ ?_ h <;> rfl
      · split at h
        · injection h with h1 h2; subst h1 h2; simp
        · split at h <;> (injection h with h1 h2; subst h1 h2; simp)

/-! ### one call of parse() on a fresh parser -/

/-- the state `parse` works on after stage 1 when a fresh parser gets the non-empty buffer `x` -/
def fresh (x : Bytes) : State := { init with stage := .first, buf := x }

theorem parse_init {cfg : Cfg} {x : Bytes} (hx : x ≠ []) : parse cfg init x = parseFirst cfg (fresh x) := by
  unfold parse
  have : x.isEmpty = false := by cases x with | nil => exact absurd rfl hx | cons _ _ => rfl
  simp [init, fresh, this]

theorem fresh_append (x b : Bytes) : { fresh x with buf := x ++ b } = fresh (x ++ b) := rfl

/-- a finished parse (accepted, rejected, HTTP/0.9) is not changed by bytes that arrive later -/
theorem parseFirst_done_append {cfg : Cfg} {x : Bytes} {S' : State} {ok : Bool} (b : Bytes)
    (h : parseFirst cfg (fresh x) = (S', ok)) (hs' : S'.stage = .done) (hl : S'.parseStatus ≠ scHeaderTooLarge) :
    parseFirst cfg (fresh (x ++ b)) = ({ S' with buf := S'.buf ++ b }, ok) := by
  unfold parseFirst at h ⊢
  have hst : (fresh x).stage = .first := rfl
  have hst2 : (fresh (x ++ b)).stage = .first := rfl
  simp only [hst, hst2, ↓reduceIte] at h ⊢
  generalize hf : firstLine cfg (fresh x) = fl at h
  obtain ⟨S1, rc⟩ := fl
  have hfr := firstLine_frame hf
  simp only at h
  by_cases hrc : rc = 0
  · -- still waiting inside the first line: the stage stays FIRST, so the parse is not finished
    subst hrc
    exfalso
    simp only [Int.lt_irrefl, decide_false, Bool.false_and, Bool.false_eq_true, ↓reduceIte] at h
    have hS1 : S1.stage = .first := by
      rcases hfr.2.1 with h1 | h1
      · rw [h1]; rfl
      · exact absurd h1.1 (by decide)
    unfold parseMime at h
    simp only [hS1] at h
    injection h with h1 h2
    subst h1
    rw [hS1] at hs'
    cases hs'
  · have hfa : firstLine cfg (fresh (x ++ b)) = ({ S1 with buf := S1.buf ++ b }, rc) :=
      firstLine_append (S := fresh x) b rfl hf hrc
    rw [hfa]
    simp only
    by_cases hneg : rc < 0
    · simp only [hneg, ↓reduceIte] at h ⊢
      have hpos : ¬ (rc > 0) := by omega
      simp only [hpos, decide_false, Bool.false_and, Bool.false_eq_true, ↓reduceIte] at h ⊢
      injection h with h1 h2; subst h1 h2; rfl
    · simp only [hneg, ↓reduceIte] at h ⊢
      have hpos : rc > 0 := by omega
      simp only [hpos, decide_true, Bool.true_and] at h ⊢
      by_cases hS1 : S1.stage = .first
      · simp only [hS1, ↓reduceIte] at h ⊢
        exact parseMime_done_append (S := { S1 with stage := .mime }) b rfl h hs' hl
      · simp only [hS1, ↓reduceIte] at h ⊢
        exact parseMime_done_append (S := S1) b rfl h hs' hl

/-- the header-too-large verdict is also reached on the longer input (same fields, possibly a different rest) -/
theorem parseFirst_tooLarge_append {cfg : Cfg} {x : Bytes} {S' : State} {ok : Bool} (b : Bytes)
    (h : parseFirst cfg (fresh x) = (S', ok)) (hl : S'.parseStatus = scHeaderTooLarge) :
    ok = false ∧ ∃ r, parseFirst cfg (fresh (x ++ b)) = ({ S' with buf := r }, false) := by
  unfold parseFirst at h ⊢
  have hst : (fresh x).stage = .first := rfl
  have hst2 : (fresh (x ++ b)).stage = .first := rfl
  simp only [hst, hst2, ↓reduceIte] at h ⊢
  generalize hf : firstLine cfg (fresh x) = fl at h
  obtain ⟨S1, rc⟩ := fl
  have hfr := firstLine_frame hf
  have hps : S1.parseStatus ≠ scHeaderTooLarge := by rw [hfr.2.2]; simp [fresh, init, scNone, scHeaderTooLarge]
  simp only at h
  by_cases hrc : rc = 0
  · subst hrc
    exfalso
    simp only [Int.lt_irrefl, decide_false, Bool.false_and, Bool.false_eq_true, ↓reduceIte] at h
    have hS1 : S1.stage = .first := by
      rcases hfr.2.1 with h1 | h1
      · rw [h1]; rfl
      · exact absurd h1.1 (by decide)
    unfold parseMime at h
    simp only [hS1] at h
    injection h with h1 h2
    subst h1
    exact hps hl
  · have hfa : firstLine cfg (fresh (x ++ b)) = ({ S1 with buf := S1.buf ++ b }, rc) :=
      firstLine_append (S := fresh x) b rfl hf hrc
    rw [hfa]
    simp only
    by_cases hneg : rc < 0
    · simp only [hneg, ↓reduceIte] at h
      injection h with h1 h2; subst h1
      simp at hl
      exact absurd hl (by decide)
    · simp only [hneg, ↓reduceIte] at h ⊢
      have hpos : rc > 0 := by omega
      simp only [hpos, decide_true, Bool.true_and] at h ⊢
      by_cases hS1 : S1.stage = .first
      · simp only [hS1, ↓reduceIte] at h ⊢
        exact parseMime_tooLarge_append (S := { S1 with stage := .mime }) b rfl h hps hl
      · simp only [hS1, ↓reduceIte] at h ⊢
        exact parseMime_tooLarge_append (S := S1) b rfl h hps hl

/-- a parser that asked for more data continues, on its unparsed rest plus the new bytes, to exactly the result of
    one parse of everything received so far -/
theorem parse_resume {cfg : Cfg} {x : Bytes} {S' : State} {ok : Bool} (b : Bytes)
    (h : parseFirst cfg (fresh x) = (S', ok)) (hs' : S'.stage ≠ .done) :
    parse cfg S' (S'.buf ++ b) = parseFirst cfg (fresh (x ++ b)) := by
  unfold parseFirst at h
  have hst : (fresh x).stage = .first := rfl
  simp only [hst, ↓reduceIte] at h
  generalize hf : firstLine cfg (fresh x) = fl at h
  obtain ⟨S1, rc⟩ := fl
  have hfr := firstLine_frame hf
  simp only at h
  by_cases hrc : rc = 0
  · subst hrc
    simp only [Int.lt_irrefl, decide_false, Bool.false_and, Bool.false_eq_true, ↓reduceIte] at h
    have hS1 : S1.stage = .first := by
      rcases hfr.2.1 with h1 | h1
      · rw [h1]; rfl
      · exact absurd h1.1 (by decide)
    obtain ⟨hS, _⟩ := parseMime_pending h hs'
    subst hS
    have hres : firstLine cfg { S' with buf := S'.buf ++ b } = firstLine cfg (fresh (x ++ b)) :=
      firstLine_resume (S := fresh x) b rfl rfl rfl hf
    obtain ⟨stage, ver, cs, status, reason, mime, ps, buf⟩ := S'
    simp only at hS1 hres; subst hS1
    unfold parse
    simp only [reduceCtorEq, ↓reduceIte]
    unfold parseFirst
    have hst2 : (fresh (x ++ b)).stage = .first := rfl
    simp only [hst2, ↓reduceIte]
    rw [hres]
  · have hfa : firstLine cfg (fresh (x ++ b)) = ({ S1 with buf := S1.buf ++ b }, rc) :=
      firstLine_append (S := fresh x) b rfl hf hrc
    by_cases hneg : rc < 0
    · simp only [hneg, ↓reduceIte] at h
      injection h with h1 h2; subst h1
      simp at hs'
    · simp only [hneg, ↓reduceIte] at h
      have hpos : rc > 0 := by omega
      simp only [hpos, decide_true, Bool.true_and] at h
      have hrhs : parseFirst cfg (fresh (x ++ b)) =
          parseMime cfg (if S1.stage = .first then { S1 with stage := .mime, buf := S1.buf ++ b } else { S1 with buf := S1.buf ++ b }) := by
        unfold parseFirst
        have hst2 : (fresh (x ++ b)).stage = .first := rfl
        simp only [hst2, ↓reduceIte]
        rw [hfa]
        simp only [hpos, decide_true, Bool.true_and, hneg, ↓reduceIte]
        by_cases hq : S1.stage = .first <;> simp [hq]
      rw [hrhs]
      obtain ⟨hS, _⟩ := parseMime_pending h hs'
      by_cases hS1 : S1.stage = .first
      · simp only [hS1, ↓reduceIte] at hS ⊢
        subst hS
        unfold parse parseFirst
        simp
      · simp only [hS1, ↓reduceIte] at hS ⊢
        subst hS
        -- the stage is DONE here (HTTP/0.9), contradicting hs'
        rcases hfr.2.1 with h1 | h1
        · exact absurd (by rw [h1]; rfl) hS1
        · exact absurd h1.2 hs'

/-! ### the too-large verdict ends the parse -/

theorem grabMimeBlock_tooLarge_done {cfg : Cfg} {S S' : State} {ok : Bool} (h : grabMimeBlock cfg S = (S', ok))
    (hp : S.parseStatus ≠ scHeaderTooLarge) (hl : S'.parseStatus = scHeaderTooLarge) : S'.stage = .done := by
  unfold grabMimeBlock at h
  simp only at h
  split at h
  · generalize headersEnd S.buf = he at h
    obtain ⟨n, f⟩ := he
    simp only at h
    split at h
    · split at h <;> (injection h with h1 h2; subst h1; rfl)
    · split at h
      · injection h with h1 h2; subst h1; rfl
      · injection h with h1 h2; subst h1; exact absurd hl hp
  · injection h with h1 h2; subst h1; rfl

theorem parseFirst_tooLarge_done {cfg : Cfg} {x : Bytes} {S' : State} {ok : Bool}
    (h : parseFirst cfg (fresh x) = (S', ok)) (hl : S'.parseStatus = scHeaderTooLarge) : S'.stage = .done := by
  unfold parseFirst at h
  have hst : (fresh x).stage = .first := rfl
  simp only [hst, ↓reduceIte] at h
  generalize hf : firstLine cfg (fresh x) = fl at h
  obtain ⟨S1, rc⟩ := fl
  have hfr := firstLine_frame hf
  have hps : S1.parseStatus ≠ scHeaderTooLarge := by rw [hfr.2.2]; simp [fresh, init, scNone, scHeaderTooLarge]
  simp only at h
  split at h
  · injection h with h1 h2; subst h1; rfl
  · generalize hS2 : (if (decide (rc > 0) && decide (S1.stage = Stage.first)) = true then { S1 with stage := Stage.mime } else S1) = S2 at h
    have hps2 : S2.parseStatus ≠ scHeaderTooLarge := by
      rw [← hS2]; split <;> exact hps
    unfold parseMime at h
    split at h
    · generalize hg : grabMimeBlock cfg S2 = g at h
      obtain ⟨S3, ok3⟩ := g
      have hS3 : S3 = S' := by cases ok3 <;> (simp only at h; injection h)
      subst hS3
      exact grabMimeBlock_tooLarge_done hg hps2 hl
    · injection h with h1 h2; subst h1; exact absurd hl hps2

/-! ### feeding segments -/

theorem oneShot_nil (cfg : Cfg) : oneShot cfg [] = Feed.init := by
  simp [oneShot, feedStep, Feed.init, init]

theorem oneShot_ne {cfg : Cfg} {x : Bytes} (hx : x ≠ []) :
    oneShot cfg x = ⟨(parseFirst cfg (fresh x)).1, (parseFirst cfg (fresh x)).2⟩ := by
  have hxe : x.isEmpty = false := by cases x with | nil => exact absurd rfl hx | cons _ _ => rfl
  have h1 : oneShot cfg x = ⟨(parse cfg init x).1, (parse cfg init x).2⟩ := by
    unfold oneShot feedStep
    simp only [Feed.init, init, List.nil_append, reduceCtorEq, ↓reduceIte, hxe, Bool.false_eq_true]
  rw [h1, parse_init hx]

/-- once the parser is done, later reads only accumulate in the I/O buffer -/
theorem feed_done {cfg : Cfg} (F : Feed) (segs : List Bytes) (hd : F.st.stage = .done) :
    feed cfg F segs = { F with st := { F.st with buf := F.st.buf ++ segs.flatten } } := by
  induction segs generalizing F with
  | nil => simp [feed]
  | cons s segs ih =>
    have hstep : feedStep cfg F s = { F with st := { F.st with buf := F.st.buf ++ s } } := by
      unfold feedStep; simp [hd]
    show feed cfg (feedStep cfg F s) segs = _
    rw [hstep]
    have := ih { F with st := { F.st with buf := F.st.buf ++ s } } hd
    rw [this]
    simp [List.append_assoc]

/-- one more read after a one-shot parse of `pre` = a one-shot parse of `pre ++ s`
    (unless the parse of `pre` already ended with the header-too-large error) -/
theorem feedStep_oneShot {cfg : Cfg} (pre s : Bytes) (hl : (oneShot cfg pre).st.parseStatus ≠ scHeaderTooLarge) :
    feedStep cfg (oneShot cfg pre) s = oneShot cfg (pre ++ s) := by
  by_cases hpre : pre = []
  · subst hpre; rw [oneShot_nil]; rfl
  · have hne : pre ++ s ≠ [] := by simp [hpre]
    rw [oneShot_ne hpre] at hl ⊢
    rw [oneShot_ne hne]
    generalize hp : parseFirst cfg (fresh pre) = p at hl
    obtain ⟨S', ok⟩ := p
    simp only at hl ⊢
    unfold feedStep
    simp only
    by_cases hd : S'.stage = .done
    · rw [if_pos hd, parseFirst_done_append s hp hd hl]
    · rw [if_neg hd]
      by_cases he : (S'.buf ++ s).isEmpty = true
      · rw [if_pos he]
        have hs : s = [] := by
          simp only [List.isEmpty_iff, List.append_eq_nil_iff] at he; exact he.2
        subst hs
        simp only [List.append_nil]
        rw [hp]
      · rw [if_neg he, parse_resume s hp hd]

theorem oneShot_tooLarge_append {cfg : Cfg} (pre b : Bytes) (hl : (oneShot cfg pre).st.parseStatus = scHeaderTooLarge) :
    (oneShot cfg pre).st.stage = .done ∧ (oneShot cfg pre).ok = false ∧
    ∃ r, oneShot cfg (pre ++ b) = ⟨{ (oneShot cfg pre).st with buf := r }, false⟩ := by
  by_cases hpre : pre = []
  · subst hpre; rw [oneShot_nil] at hl; simp [Feed.init, init, scNone, scHeaderTooLarge] at hl
  · have hne : pre ++ b ≠ [] := by simp [hpre]
    rw [oneShot_ne hpre] at hl ⊢
    rw [oneShot_ne hne]
    generalize hp : parseFirst cfg (fresh pre) = p at hl
    obtain ⟨S', ok⟩ := p
    simp only at hl ⊢
    obtain ⟨hok, r, hr⟩ := parseFirst_tooLarge_append b hp hl
    exact ⟨parseFirst_tooLarge_done hp hl, hok, r, by rw [hr]⟩

/-- segmentation independence, reported outcome -/
theorem feed_report_eq (cfg : Cfg) (segs : List Bytes) (pre : Bytes) :
    (feed cfg (oneShot cfg pre) segs).report = (oneShot cfg (pre ++ segs.flatten)).report := by
  induction segs generalizing pre with
  | nil => simp [feed]
  | cons s segs ih =>
    by_cases hl : (oneShot cfg pre).st.parseStatus = scHeaderTooLarge
    · obtain ⟨hd, hok, r, hr⟩ := oneShot_tooLarge_append pre (s :: segs).flatten hl
      rw [feed_done _ _ hd, hr]
      generalize oneShot cfg pre = F at hl hok
      obtain ⟨S, ok⟩ := F
      simp only at hl hok
      subst hok
      simp [Feed.report, hl]
    · show (feed cfg (feedStep cfg (oneShot cfg pre) s) segs).report = _
      rw [feedStep_oneShot pre s hl, ih (pre ++ s)]
      simp [List.append_assoc]

/-- segmentation independence, exact (state and unparsed rest) -/
theorem feed_eq (cfg : Cfg) (segs : List Bytes) (pre : Bytes)
    (hl : (oneShot cfg (pre ++ segs.flatten)).st.parseStatus ≠ scHeaderTooLarge) :
    feed cfg (oneShot cfg pre) segs = oneShot cfg (pre ++ segs.flatten) := by
  induction segs generalizing pre with
  | nil => simp [feed]
  | cons s segs ih =>
    have hpre : (oneShot cfg pre).st.parseStatus ≠ scHeaderTooLarge := by
      intro h
      obtain ⟨_, _, r, hr⟩ := oneShot_tooLarge_append pre (s :: segs).flatten h
      rw [hr] at hl
      exact hl h
    show feed cfg (feedStep cfg (oneShot cfg pre) s) segs = _
    rw [feedStep_oneShot pre s hpre]
    have := ih (pre ++ s) (by simpa [List.append_assoc] using hl)
    rw [this]
    simp [List.append_assoc]

end SquidModel.Http1Resp
