/-
Model of `Http::One::ResponseParser` (src/http/one/ResponseParser.cc) with the parts of its base class
`Http::One::Parser` (src/http/one/Parser.cc) and `headersEnd` (src/mime_header.cc) it runs, function by function.

The parser object is the record `State`; `parse` is one call of `ResponseParser::parse(aBuf)`; `feed` drives it the way
`HttpStateData::processReplyHeader` does (`inBuf.append(data); if (inBuf.length()) { hp->parse(inBuf); inBuf = hp->remaining(); }`).
Constants, magic strings and delimiter sets come from `Gen.Http1Resp` (regenerated from the staged tree).
-/
import SquidModel.Http1Resp.Tok
import SquidModel.Gen.CharSets
import SquidModel.Gen.Http1Resp

namespace SquidModel.Http1Resp
open SquidModel.Gen.Http1Resp

/-- `Config.onoff.relaxed_header_parser` (non-zero = relaxed) and `Config.maxReplyHeaderSize` -/
structure Cfg where
  relaxed : Bool
  limit : Nat
  deriving Repr, DecidableEq

/-- `Http1::ParseState` values a response parser can be in -/
inductive Stage where
  | none | first | mime | done
  deriving Repr, DecidableEq

/-- `AnyP::ProtocolType` values a response parser can assign -/
inductive Proto where
  | none | http | icy
  deriving Repr, DecidableEq

/-- `AnyP::ProtocolVersion` -/
structure Version where
  proto : Proto
  major : Nat
  minor : Nat
  deriving Repr, DecidableEq

/-- the data members of `Http1::ResponseParser` -/
structure State where
  stage : Stage             -- parsingStage_
  ver : Version             -- msgProtocol_
  completedStatus : Bool    -- completedStatus_
  status : Nat              -- statusCode_
  reason : Bytes            -- reasonPhrase_
  mime : Bytes              -- mimeHeaderBlock_
  parseStatus : Nat         -- parseStatusCode
  buf : Bytes               -- buf_ (remaining()); between calls also the caller's inBuf
  deriving Repr, DecidableEq

/-- a default-constructed parser -/
def init : State :=
  { stage := .none, ver := ⟨.none, 0, 0⟩, completedStatus := false, status := scNone, reason := [], mime := [],
    parseStatus := scNone, buf := [] }

/-- `Parser::DelimiterCharacters()` -/
def delims (cfg : Cfg) : CharSet := if cfg.relaxed then delimRelaxed else delimStrict

/-- `Parser::skipLineTerminator` -/
def skipLineTerminator (cfg : Cfg) (tok : Bytes) : Res Bytes :=
  match (if cfg.relaxed then skipOne Gen.CharSets.LF tok else none) with
  | some r => .ok r
  | none => skipRequired crlf tok

/-- `ResponseParser::ParseResponseStatus(tok, code)`: the result and the value left in `code`
    (`code` is written before the range checks throw) -/
def parseResponseStatus (cfg : Cfg) (tok : Bytes) (code : Nat) : Res Bytes × Nat :=
  match int64 statusDigits tok with
  | some (v, t1) =>
    match skipOne (delims cfg) t1 with
    | some t2 =>
      if v ≤ tooShortMax then (.invalid, v)          -- status-code too short
      else if v ≥ invalidMin then (.invalid, v)      -- invalid response class
      else (.ok t2, v)
    | none => if t1.isEmpty then (.insufficient, code) else (.invalid, code)
  | none => if tok.isEmpty then (.insufficient, code) else (.invalid, code)

/-- second half of `parseResponseStatusAndReason`: the optional reason phrase and the line terminator
    ("if we got here we are still looking for reason-phrase bytes") -/
def reasonAndTerminator (cfg : Cfg) (S1 : State) (tok1 : Bytes) : State × Int :=
  -- (void)tok.prefix(reasonPhrase_, phraseChars); // optional, no error if missing
  let (S2, tok2) :=
    match tokPrefix phraseChars tok1 with
    | some (p, r) => ({ S1 with reason := p }, r)
    | none => (S1, tok1)
  -- skipLineTerminator(tok); buf_ = tok.remaining(); return 1;
  match skipLineTerminator cfg tok2 with
  | .ok r => ({ S2 with buf := r }, 1)
  | .insufficient => ({ S2 with reason := [] }, 0)     -- catch (InsufficientInput): reasonPhrase_.clear(); return 0
  | .invalid => (S2, -1)                                -- catch (std::exception): return -1

/-- `ResponseParser::parseResponseStatusAndReason(tok)`: new state and the int result (1, 0, -1) -/
def statusAndReason (cfg : Cfg) (S : State) (tok : Bytes) : State × Int :=
  if !S.completedStatus then
    -- ParseResponseStatus(tok, statusCode_); buf_ = tok.remaining(); completedStatus_ = true;
    match parseResponseStatus cfg tok S.status with
    | (.ok r, code) => reasonAndTerminator cfg { S with status := code, buf := r, completedStatus := true } r
    | (.insufficient, code) => ({ S with status := code, reason := [] }, 0)
    | (.invalid, code) => ({ S with status := code }, -1)
  else reasonAndTerminator cfg S tok

/-- `ResponseParser::parseResponseFirstLine()` (the tokenizer starts at `buf_`) -/
def firstLine (cfg : Cfg) (S : State) : State × Int :=
  if S.ver.proto ≠ .none then
    statusAndReason cfg S S.buf                                 -- continue incremental parse
  else
    match skip http1magic S.buf with
    | some t1 =>
      match int64 minorDigits t1 with
      | some (v, t2) =>
        match skipOne (delims cfg) t2 with
        | some t3 => statusAndReason cfg { S with ver := ⟨.http, 1, v⟩, buf := t3 } t3
        | none => if t2.isEmpty then (S, 0) else (S, -1)
      | none => if t1.isEmpty then (S, 0) else (S, -1)
    | none =>
      match skip icyMagic S.buf with
      | some t1 => statusAndReason cfg { S with ver := { S.ver with proto := .icy }, buf := t1 } t1
      | none =>
        if S.buf.length < http1magic.length && S.buf.isPrefixOf http1magic then (S, 0)
        else if S.buf.length < icyMagic.length && S.buf.isPrefixOf icyMagic then (S, 0)
        else
          -- HTTP/0.9: gateway it into HTTP/1.1
          ({ S with ver := ⟨.http, gatewayMajor, gatewayMinor⟩, status := scOkay, reason := gatewayPhrase,
                    mime := fakeMimeBlock, stage := .done }, 1)

/-- `ResponseParser::firstLineSize()` -/
def firstLineSize (S : State) : Nat :=
  let tail := (if S.ver.minor > 9 then 2 else 1) + flsMiddle + S.reason.length + flsTerminator
  match S.ver.proto with
  | .http => http1magic.length + tail
  | .icy => icyMagic.length + tail
  | .none => 0

/-- states of the scanner in `headersEnd` (src/mime_header.cc) -/
inductive HState where
  | s0 | s1 | s2 | s3
  deriving Repr, DecidableEq

/-- the `while (e < l && state < 3)` loop of `headersEnd`: (state, e, containsObsFold) -/
def headersEndLoop : Bytes → HState → Nat → Bool → HState × Nat × Bool
  | [], s, e, f => (s, e, f)
  | c :: r, s, e, f =>
    match s with
    | .s3 => (s, e, f)
    | .s0 => headersEndLoop r (if c = 10 then .s1 else .s0) (e + 1) f
    | .s1 =>
      if c = 13 then headersEndLoop r .s2 (e + 1) f
      else if c = 10 then headersEndLoop r .s3 (e + 1) f
      else if c = 32 || c = 9 then headersEndLoop r .s0 (e + 1) true
      else headersEndLoop r .s0 (e + 1) f
    | .s2 => headersEndLoop r (if c = 10 then .s3 else .s0) (e + 1) f

/-- `headersEnd(buf, containsObsFold)`: size of the header block incl. the empty line (0 = not found) -/
def headersEnd (m : Bytes) : Nat × Bool :=
  match headersEndLoop m .s1 0 false with
  | (.s3, e, f) => (e, f)
  | (_, _, f) => (0, f)

/-- `LineCharacters()`, and `nonCRLF` of unfoldMime -/
def lineChars : CharSet := Gen.CharSets.LF.complement
def nonCRLF : CharSet := (Gen.CharSets.CR + Gen.CharSets.LF).complement

/-- the loop of `Parser::cleanMimePrefix` (fuel: each round consumes at least one octet) -/
def cleanLoop : Nat → Bytes → Bytes
  | 0, t => t
  | f + 1, t =>
    match skipOne delimRelaxed t with       -- RelaxedDelimiterCharacters(), whatever the configuration
    | some t1 =>
      let t2 := (skipAll lineChars t1).2
      let t3 := (skipOne Gen.CharSets.LF t2).getD t2
      cleanLoop f t3
    | none => t

/-- `Parser::cleanMimePrefix` -/
def cleanMimePrefix (m : Bytes) : Bytes :=
  let t := cleanLoop m.length m
  if t.isEmpty then crlf else t

/-- the loop of `Parser::unfoldMime` (fuel: each round consumes at least one octet) -/
def unfoldLoop : Nat → Bytes → Bytes → Bytes
  | 0, _, out => out
  | f + 1, t, out =>
    if t.isEmpty then out
    else
      let (blobLen, t1) := skipAll nonCRLF t
      let (crLen, t2) := skipAll Gen.CharSets.CR t1
      let (lfLen, t3) := match skipOne Gen.CharSets.LF t2 with
        | some r => (1, r)
        | none => (0, t2)
      let (w, t4) := skipAll Gen.CharSets.WSP t3
      if lfLen ≠ 0 && w ≠ 0 then unfoldLoop f t4 (out ++ t.take blobLen ++ [32])     -- obs-fold
      else unfoldLoop f t3 (out ++ t.take (blobLen + crLen + lfLen))

/-- `Parser::unfoldMime` -/
def unfoldMime (m : Bytes) : Bytes := unfoldLoop (m.length + 1) m []

/-- `Parser::grabMimeBlock("Response", limit)`; `hackExpectsMime_` is false for response parsers -/
def grabMimeBlock (cfg : Cfg) (S : State) : State × Bool :=
  let expectMime := (S.ver.proto = .http && S.ver.major = 1) || S.ver.proto = .icy
  if expectMime then
    let (mimeHeaderBytes, containsObsFold) := headersEnd S.buf
    if mimeHeaderBytes ≠ 0 then
      if firstLineSize S + mimeHeaderBytes ≥ cfg.limit then
        ({ S with parseStatus := scHeaderTooLarge, buf := S.buf.drop mimeHeaderBytes, stage := .done }, false)
      else
        let block := cleanMimePrefix (S.buf.take mimeHeaderBytes)
        let block := if containsObsFold then unfoldMime block else block
        ({ S with mime := block, buf := S.buf.drop mimeHeaderBytes, stage := .done }, true)
    else
      if S.buf.length + firstLineSize S ≥ cfg.limit then
        ({ S with parseStatus := scHeaderTooLarge, stage := .done }, false)
      else (S, false)
  else ({ S with stage := .done }, true)

/-- stage 3 of `ResponseParser::parse`: locate the mime header block; then `return !needsMoreData()` -/
def parseMime (cfg : Cfg) (S : State) : State × Bool :=
  if S.stage = .mime then
    match grabMimeBlock cfg S with
    | (S', false) => (S', false)
    | (S', true) => (S', S'.stage = .done)
  else (S, S.stage = .done)

/-- stage 2 of `ResponseParser::parse`: parse the status-line -/
def parseFirst (cfg : Cfg) (S : State) : State × Bool :=
  if S.stage = .first then
    let (S', retcode) := firstLine cfg S
    let S' := if retcode > 0 && S'.stage = .first then { S' with stage := .mime } else S'
    if retcode < 0 then
      ({ S' with stage := .done, parseStatus := scInvalidHeader }, false)     -- syntax errors already
    else parseMime cfg S'
  else parseMime cfg S

/-- `ResponseParser::parse(aBuf)` -/
def parse (cfg : Cfg) (S : State) (aBuf : Bytes) : State × Bool :=
  let S := { S with buf := aBuf }
  -- stage 1: locate the status-line
  if S.stage = .none then
    if !S.buf.isEmpty then parseFirst cfg { S with stage := .first }
    else (S, false)
  else parseFirst cfg S

/-- what the caller holds between two reads: the parser and the result of its last `parse()` -/
structure Feed where
  st : State
  ok : Bool
  deriving Repr, DecidableEq

def Feed.init : Feed := ⟨Http1Resp.init, false⟩

/-- one network read handled as in `HttpStateData::processReplyHeader`: append to inBuf (kept in `st.buf`, since
    `inBuf = hp->remaining()` after every call); no parser call when the headers are already done or nothing is buffered -/
def feedStep (cfg : Cfg) (F : Feed) (seg : Bytes) : Feed :=
  let inBuf := F.st.buf ++ seg
  if F.st.stage = .done then { F with st := { F.st with buf := inBuf } }
  else if inBuf.isEmpty then F
  else
    let (S, ok) := parse cfg F.st inBuf
    ⟨S, ok⟩

/-- a whole delivery history -/
def feed (cfg : Cfg) (F : Feed) (segs : List Bytes) : Feed := segs.foldl (feedStep cfg) F

/-- one-shot parse of the same bytes -/
def oneShot (cfg : Cfg) (bytes : Bytes) : Feed := feedStep cfg Feed.init bytes

/-- what the caller can act on: everything, except that after the fatal header-too-large error (an error reply is
    generated and the connection closed) the bytes left in the I/O buffer are irrelevant -/
def Feed.report (F : Feed) : Feed :=
  if F.st.parseStatus = scHeaderTooLarge then { F with st := { F.st with buf := [] } } else F

end SquidModel.Http1Resp
