/-
Specification side of C23: the status-line grammar, written with literal octets from RFC 9112 section 4
(status-line = HTTP-version SP status-code SP [ reason-phrase ] CRLF) plus the tolerances Squid documents
(ICY responses; in relaxed mode any of SP HTAB VT FF CR as the single delimiter and a bare LF as terminator).
Nothing here refers to the parser model or to the regenerated constants.
-/
import SquidModel.Base.Bytes

namespace SquidModel.Http1Resp.Grammar

/-- "HTTP/1." -/
def httpMagic : Bytes := [72, 84, 84, 80, 47, 49, 46]
/-- "ICY " -/
def icyMagic : Bytes := [73, 67, 89, 32]

def IsDigit (c : UInt8) : Prop := 48 ≤ c.toNat ∧ c.toNat ≤ 57

/-- the single delimiter between the fields: SP; relaxed: SP / HTAB / VT / FF / CR -/
def IsDelim (relaxed : Bool) (c : UInt8) : Prop :=
  c = 32 ∨ (relaxed = true ∧ (c = 9 ∨ c = 11 ∨ c = 12 ∨ c = 13))

/-- reason-phrase octets: HTAB / SP / VCHAR / obs-text -/
def IsPhraseChar (c : UInt8) : Prop :=
  c = 9 ∨ c = 32 ∨ (33 ≤ c.toNat ∧ c.toNat ≤ 126) ∨ 128 ≤ c.toNat

/-- CRLF; relaxed: also a bare LF -/
def IsTerminator (relaxed : Bool) (t : Bytes) : Prop :=
  t = [13, 10] ∨ (relaxed = true ∧ t = [10])

instance : DecidablePred IsDigit := fun c => by unfold IsDigit; infer_instance
instance (relaxed : Bool) : DecidablePred (IsDelim relaxed) := fun c => by unfold IsDelim; infer_instance
instance : DecidablePred IsPhraseChar := fun c => by unfold IsPhraseChar; infer_instance
instance (relaxed : Bool) : DecidablePred (IsTerminator relaxed) := fun t => by unfold IsTerminator; infer_instance

/-- value of three decimal digits -/
def val3 (d1 d2 d3 : UInt8) : Nat := (d1.toNat - 48) * 100 + (d2.toNat - 48) * 10 + (d3.toNat - 48)

/-- protocol label of a status line -/
inductive Label where
  | http (minor : Nat)      -- HTTP/1.<minor>
  | icy
  deriving Repr, DecidableEq

/-- the fields of a status line -/
structure Fields where
  label : Label
  status : Nat
  reason : Bytes
  deriving Repr, DecidableEq

/-- `StatusLine relaxed line f`: `line` is a complete status line (terminator included) with fields `f` -/
inductive StatusLine (relaxed : Bool) : Bytes → Fields → Prop where
  | http (d dl1 d1 d2 d3 dl2 : UInt8) (reason term : Bytes) :
      IsDigit d → IsDelim relaxed dl1 → IsDigit d1 → IsDigit d2 → IsDigit d3 → IsDelim relaxed dl2 →
      100 ≤ val3 d1 d2 d3 → val3 d1 d2 d3 ≤ 599 → (∀ c ∈ reason, IsPhraseChar c) → IsTerminator relaxed term →
      StatusLine relaxed (httpMagic ++ d :: dl1 :: d1 :: d2 :: d3 :: dl2 :: (reason ++ term))
        ⟨.http (d.toNat - 48), val3 d1 d2 d3, reason⟩
  | icy (d1 d2 d3 dl2 : UInt8) (reason term : Bytes) :
      IsDigit d1 → IsDigit d2 → IsDigit d3 → IsDelim relaxed dl2 →
      100 ≤ val3 d1 d2 d3 → val3 d1 d2 d3 ≤ 599 → (∀ c ∈ reason, IsPhraseChar c) → IsTerminator relaxed term →
      StatusLine relaxed (icyMagic ++ d1 :: d2 :: d3 :: dl2 :: (reason ++ term))
        ⟨.icy, val3 d1 d2 d3, reason⟩

/-- the input can neither be nor become a message with an HTTP/1 or ICY prefix -/
def NoMagic (x : Bytes) : Prop :=
  ¬ httpMagic <+: x ∧ ¬ icyMagic <+: x ∧ ¬ (x.length < 7 ∧ x <+: httpMagic) ∧ ¬ (x.length < 4 ∧ x <+: icyMagic)

end SquidModel.Http1Resp.Grammar
