/-
Vocabulary of the error-page macro model: the value sources and conditions that occur in the `case 'X':` blocks of
`ErrorState::compileLegacyCode` (src/errorpage.cc), and the statement AST into which translate/error_macros.py
turns those blocks (`SquidModel.Gen.ErrorMacros`).

A constructor stands for one C++ expression; the mapping text -> constructor is the `SRC` / `ATOM` registry of the
translator. Expressions the registry does not know become `.other n`.
-/
import SquidModel.Base.Bytes

namespace SquidModel.ErrPage

/-- where a macro takes its text from (one constructor per C++ expression) -/
inductive SrcKey
  | username | listenAddr | myPort | ftpUrl | pageName | detailCompiled | xerrno | strerror | ftpRequest | ftpReply
  | ftpListing | ftpServerMsg | myHostname | hierHost | urlHost | srcAddr | serverAddr | stylesheet | errHtmlText
  | denyMessage | method | extaclMessage | externalAclMessage | urlPort | scheme | absolutePath | packedRequest
  | effectiveUri | urlField | appName | signatureCompiled | timeHttpd | timeRfc1123 | canonicalUrl | adminEmail
  | dump | detailBrief | dnsError | ftpCwdMsg | errMsg
  | other (n : Nat)
  deriving DecidableEq, Repr

/-- opaque conditions tested by the blocks -/
inductive Atom
  | deny | allowRecursion | notSignature | pSet | mbNonEmpty | letterNotSemicolon
  | request | reqAuthUser | listenAddrKnown | detail | xerrnoNonZero | ftpRequest | ftpReply | ftpListing | ftpServerMsg
  | ftpCwdMsg | hierHostSet | tcpServer | errHtmlText | errAuthUser | urlPortKnown | urlField | adminEmail | emailErrData
  | dnsError | errMsg
  | other (n : Nat)
  deriving DecidableEq, Repr

inductive Cond
  | atom (a : Atom)
  | not (c : Cond)
  | and (a b : Cond)
  | or (a b : Cond)
  deriving Repr

inductive Src
  | lit (b : Bytes)        -- a string literal of the C++ text
  | expr (k : SrcKey)      -- the value of an expression
  | input2                 -- `build.input, 2`: the `%` and the letter themselves
  deriving Repr

inductive Stmt
  | skip
  | seq (a b : Stmt)
  | ite (c : Cond) (t e : Stmt)
  | setP (s : Src)          -- p = ...
  | append (s : Src)        -- mb.append / appendf / a callee writing into mb
  | setQuote (v : Bool)     -- do_quote = v
  | setNoEsc (v : Bool)     -- no_urlescape = v
  | resetMb                 -- mb.reset()
  | brk
  | unknown (n : Nat)       -- a statement the translator does not understand
  deriving Repr

def SrcKey.names : List (String × SrcKey) := [
  ("username", .username), ("listenAddr", .listenAddr), ("myPort", .myPort), ("ftpUrl", .ftpUrl), ("pageName", .pageName),
  ("detailCompiled", .detailCompiled), ("xerrno", .xerrno), ("strerror", .strerror), ("ftpRequest", .ftpRequest),
  ("ftpReply", .ftpReply), ("ftpListing", .ftpListing), ("ftpServerMsg", .ftpServerMsg), ("myHostname", .myHostname),
  ("hierHost", .hierHost), ("urlHost", .urlHost), ("srcAddr", .srcAddr), ("serverAddr", .serverAddr), ("stylesheet", .stylesheet),
  ("errHtmlText", .errHtmlText), ("denyMessage", .denyMessage), ("method", .method), ("extaclMessage", .extaclMessage),
  ("externalAclMessage", .externalAclMessage), ("urlPort", .urlPort), ("scheme", .scheme), ("absolutePath", .absolutePath),
  ("packedRequest", .packedRequest), ("effectiveUri", .effectiveUri), ("urlField", .urlField), ("appName", .appName),
  ("signatureCompiled", .signatureCompiled), ("timeHttpd", .timeHttpd), ("timeRfc1123", .timeRfc1123),
  ("canonicalUrl", .canonicalUrl), ("adminEmail", .adminEmail), ("dump", .dump), ("detailBrief", .detailBrief),
  ("dnsError", .dnsError), ("ftpCwdMsg", .ftpCwdMsg), ("errMsg", .errMsg)]

def Atom.names : List (String × Atom) := [
  ("request", .request), ("reqAuthUser", .reqAuthUser), ("listenAddrKnown", .listenAddrKnown), ("detail", .detail),
  ("xerrnoNonZero", .xerrnoNonZero), ("ftpRequest", .ftpRequest), ("ftpReply", .ftpReply), ("ftpListing", .ftpListing),
  ("ftpServerMsg", .ftpServerMsg), ("ftpCwdMsg", .ftpCwdMsg), ("hierHostSet", .hierHostSet), ("tcpServer", .tcpServer),
  ("errHtmlText", .errHtmlText), ("errAuthUser", .errAuthUser), ("urlPortKnown", .urlPortKnown), ("urlField", .urlField),
  ("adminEmail", .adminEmail), ("emailErrData", .emailErrData), ("dnsError", .dnsError), ("errMsg", .errMsg)]

end SquidModel.ErrPage
