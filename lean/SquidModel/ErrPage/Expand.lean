/-
Model of error page / deny_info compilation: `ErrorState::compile` (the template walker) and
`ErrorState::compileLegacyCode` (one `%X` macro), src/errorpage.cc.

The macro blocks are not written here: they are the statement ASTs regenerated from the C++ text
(`Gen.ErrorMacros.cases`), interpreted by `exec`. The text a macro produces is kept symbolic: a list of `Piece`s,
each either literal bytes or a *hole* standing for the value of a source that is not under the administrator's
control, together with the transformations (`html_quote`, `rfc1738_escape_part`) applied to it so far.
The interpreter receives a `Shape` only: conditions, admin-controlled bytes, and of each other source merely whether
it is null / empty. The page is the rendering of the pieces with the actual source values (`render`).
-/
import SquidModel.ErrPage.Ast
import SquidModel.Gen.ErrorMacros
import SquidModel.Html.Quote

namespace SquidModel.ErrPage

/-- who controls the bytes of a source -/
inductive SrcClass
  | client        -- the client or a remote peer: request line, headers, user name, FTP/DNS answers, and everything not listed below
  | config        -- the administrator: squid.conf strings, files, external ACL helper messages
  | callee        -- produced by another function that does its own encoding (FTP listing HTML, URL-encoded mailto data)
  | recDetail     -- the error detail template compiled by this very function (`compileBody(detail->verbose(), false)`)
  | recSignature  -- the signature template compiled by this very function (`buildBody()` with ERR_SQUID_SIGNATURE)
  deriving DecidableEq, Repr

/-- reviewed classification: everything is hostile unless listed -/
def classOf : SrcKey → SrcClass
  | .stylesheet | .errHtmlText | .extaclMessage | .externalAclMessage => .config
  | .ftpListing | .dump => .callee
  | .detailCompiled => .recDetail
  | .signatureCompiled => .recSignature
  | _ => .client

inductive Xf
  | html   -- html_quote
  | esc    -- rfc1738_escape_part
  deriving DecidableEq, Repr

inductive Piece
  | lit (b : Bytes)
  | hole (k : SrcKey) (xf : List Xf)   -- transformations in application order
  deriving Repr, DecidableEq

abbrev Pieces := List Piece

/-- what the interpreter may look at -/
structure Shape where
  atom : Atom → Bool
  cfg : SrcKey → Bytes          -- bytes of `config` sources
  present : SrcKey → Bool       -- the pointer is not null
  nonEmpty : SrcKey → Bool      -- the value has at least one byte
  detailTmpl : Bytes            -- `detail->verbose(request)`
  sigTmpl : Bytes               -- `error_text[ERR_SQUID_SIGNATURE]`

/-- a shape for examples: the listed conditions hold, every source is present and non-empty -/
def Shape.example (atoms : List Atom) (detailTmpl sigTmpl : Bytes) : Shape :=
  { atom := fun a => atoms.contains a, cfg := fun _ => [], present := fun _ => true, nonEmpty := fun _ => true,
    detailTmpl := detailTmpl, sigTmpl := sigTmpl }

structure Ctx where
  deny : Bool          -- building_deny_info_url
  allowRec : Bool      -- build.allowRecursion
  inSig : Bool         -- page_id == ERR_SQUID_SIGNATURE
  letter : UInt8 := 0

structure St where
  p : Option Pieces := none
  mb : Pieces := []
  doQuote : Bool
  noEsc : Bool
  broke : Bool := false

/-! ### byte-level transformations -/

def escByte (b : UInt8) : Bytes :=
  let e := Gen.ErrorMacros.escapePartTable.getD b.toNat []
  if e.isEmpty then [b] else e

/-- `rfc1738_escape_part` -/
def escapePart (s : Bytes) : Bytes := s.flatMap escByte

def applyXf : Xf → Bytes → Bytes
  | .html, s => Html.quote s
  | .esc, s => escapePart s

def applyXfs (xf : List Xf) (s : Bytes) : Bytes := xf.foldl (fun acc x => applyXf x acc) s

/-! ### symbolic values -/

def pieceNonEmpty (sh : Shape) : Piece → Bool
  | .lit b => !b.isEmpty
  | .hole k _ => sh.nonEmpty k

def piecesNonEmpty (sh : Shape) (v : Pieces) : Bool := v.any (pieceNonEmpty sh)

def xfPiece (x : Xf) : Piece → Piece
  | .lit b => .lit (applyXf x b)
  | .hole k xf => .hole k (xf ++ [x])

def xfPieces (x : Xf) (v : Pieces) : Pieces := v.map (xfPiece x)

/-- A nested compilation (`%D`, `%S`): given the current content of the function-static `mb`, the compiled text and the
content of `mb` afterwards. -/
abbrev Rec := SrcKey → Pieces → Pieces × Pieces

/-- value of a source and the content of `mb` after evaluating it; `none` is the null pointer -/
def srcVal (sh : Shape) (ctx : Ctx) (rec : Rec) (mb : Pieces) : Src → Option Pieces × Pieces
  | .lit b => (some [.lit b], mb)
  | .input2 => (some [.lit [37, ctx.letter]], mb)
  | .expr k =>
    match classOf k with
    | .config => (if sh.present k then some [.lit (sh.cfg k)] else none, mb)
    | .client => (if sh.present k then some [.hole k []] else none, mb)
    | .callee => (if sh.present k then some [.hole k []] else none, mb)
    | .recDetail => let r := rec k mb; (some r.1, r.2)
    | .recSignature => let r := rec k mb; (some r.1, r.2)

def evalAtom (sh : Shape) (ctx : Ctx) (s : St) : Atom → Bool
  | .deny => ctx.deny
  | .allowRecursion => ctx.allowRec
  | .notSignature => !ctx.inSig
  | .pSet => s.p.isSome
  | .mbNonEmpty => piecesNonEmpty sh s.mb
  | .letterNotSemicolon => ctx.letter != 59
  | a => sh.atom a

def evalCond (sh : Shape) (ctx : Ctx) (s : St) : Cond → Bool
  | .atom a => evalAtom sh ctx s a
  | .not c => !(evalCond sh ctx s c)
  | .and a b => evalCond sh ctx s a && evalCond sh ctx s b
  | .or a b => evalCond sh ctx s a || evalCond sh ctx s b

/-- one block of the switch; `broke` models `break`. A nested compilation works on the same static `mb`:
what it leaves there is what the outer block then appends to. -/
def exec (sh : Shape) (ctx : Ctx) (rec : Rec) : Stmt → St → St
  | .skip, s => s
  | .seq a b, s =>
    let s' := exec sh ctx rec a s
    if s'.broke then s' else exec sh ctx rec b s'
  | .ite c t e, s => if evalCond sh ctx s c then exec sh ctx rec t s else exec sh ctx rec e s
  | .setP src, s => let r := srcVal sh ctx rec s.mb src; { s with p := r.1, mb := r.2 }
  | .append src, s => let r := srcVal sh ctx rec s.mb src; { s with mb := r.2 ++ r.1.getD [] }
  | .setQuote v, s => { s with doQuote := v }
  | .setNoEsc v, s => { s with noEsc := v }
  | .resetMb, s => { s with mb := [] }
  | .brk, s => { s with broke := true }
  | .unknown _, s => s

/-- the statements after the switch: `if (!p) p = mb.buf; if (do_quote) p = html_quote(p);
if (building_deny_info_url && !no_urlescape) p = rfc1738_escape_part(p); build.output.append(p, strlen(p))` -/
def finish (ctx : Ctx) (s : St) : Pieces :=
  let v := s.p.getD s.mb
  let v := if s.doQuote then xfPieces .html v else v
  if ctx.deny && !s.noEsc then xfPieces .esc v else v

def bodyOf (letter : UInt8) : Stmt :=
  match Gen.ErrorMacros.cases.lookup letter with
  | some b => b
  | none => Gen.ErrorMacros.defaultCase

/-- state at the `switch`: the flags as initialised, `mb` after the prologue -/
def initSt (mbIn : Pieces) : St :=
  { doQuote := Gen.ErrorMacros.initDoQuote, noEsc := Gen.ErrorMacros.initNoUrlEscape,
    mb := if Gen.ErrorMacros.staticMb && !Gen.ErrorMacros.prologueResetsMb then mbIn else [] }

/-- `compileLegacyCode` for the letter after `%` (0 = the terminating NUL): the text appended to the output and the
content of the static `mb` afterwards -/
def expand (sh : Shape) (ctx : Ctx) (rec : Rec) (letter : UInt8) (mbIn : Pieces) : Pieces × Pieces :=
  let ctx := { ctx with letter := letter }
  let s := exec sh ctx (if Gen.ErrorMacros.staticMb then rec else fun k mb => ((rec k mb).1, mb)) (bodyOf letter) (initSt mbIn)
  (finish ctx s, if Gen.ErrorMacros.staticMb then s.mb else mbIn)

/-- the walker of `ErrorState::compile`: literal text is copied, `%X` is expanded; a `%` at the very end is the `'\0'` case -/
def compileAux (exp : UInt8 → Pieces → Pieces × Pieces) : Bytes → Pieces → Pieces × Pieces
  | [], mb => ([], mb)
  | [37], mb => exp 0 mb
  | 37 :: c :: rest, mb =>
    let r1 := exp c mb
    let r2 := compileAux exp rest r1.2
    (r1.1 ++ r2.1, r2.2)
  | b :: rest, mb =>
    let r := compileAux exp rest mb
    (.lit [b] :: r.1, r.2)

/-- `ErrorState::compile(input, deny, allowRecursion)`; `fuel` bounds the nesting of `%D` / `%S`
(the real nesting is at most 3: `%D` clears allowRecursion, `%S` sets page_id to the signature) -/
def compile : Nat → Shape → Ctx → Bytes → Pieces → Pieces × Pieces
  | 0, _, _, _, mb => ([], mb)
  | fuel + 1, sh, ctx, t, mb =>
    compileAux (expand sh ctx (fun k mb' =>
      match classOf k with
      | .recDetail => compile fuel sh { deny := false, allowRec := false, inSig := ctx.inSig } sh.detailTmpl mb'
      | .recSignature => compile fuel sh { deny := false, allowRec := true, inSig := true } sh.sigTmpl mb'
      | _ => ([], mb'))) t mb

/-! ### rendering with the actual values -/

def renderPiece (val : SrcKey → Bytes) : Piece → Bytes
  | .lit b => b
  | .hole k xf => applyXfs xf (val k)

def render (val : SrcKey → Bytes) (v : Pieces) : Bytes := v.flatMap (renderPiece val)

/-- a concrete transaction: every source with its value (`none` = null pointer) -/
structure Env where
  atom : Atom → Bool
  val : SrcKey → Option Bytes
  detailTmpl : Bytes
  sigTmpl : Bytes

def Env.bytes (e : Env) (k : SrcKey) : Bytes := (e.val k).getD []

def shapeOf (e : Env) : Shape where
  atom := e.atom
  cfg := fun k => if classOf k = .config then e.bytes k else []
  present := fun k => (e.val k).isSome
  nonEmpty := fun k => !(e.bytes k).isEmpty
  detailTmpl := e.detailTmpl
  sigTmpl := e.sigTmpl

def nestingFuel : Nat := 5

/-- the text `ErrorState::compile(tmpl, deny, allowRecursion)` returns -/
def page (e : Env) (ctx : Ctx) (tmpl : Bytes) : Bytes :=
  render e.bytes (compile nestingFuel (shapeOf e) ctx tmpl []).1

end SquidModel.ErrPage
