/-
A checker for the regenerated macro blocks and its soundness with respect to the interpreter
(`exec`/`finish`/`compile` of SquidModel.ErrPage.Expand).

`absExec` runs a block on an abstract state. It knows the mode (`building_deny_info_url`) and follows *both* branches of
every other condition. The abstract state records whether a hostile source may sit in `p` / in `mb` without any
transformation (`pBare`, `mbBare`) and the value of `do_quote`. A block is accepted (`stmtOk`) when on every path
`pBare ∨ mbBare → do_quote` and no statement is unknown to the translator. `exec_sound`: whatever the conditions
evaluate to, the real run is covered by one of the paths.

Nested compilations (`%D`, `%S`) share the function-static `mb`: what the last macro of the nested template leaves in it
is prepended to the nested result by the outer block. `mbClean` says a block never leaves hostile bytes in `mb`;
`cleanTail t` says the last macro of template `t` is such a block.
-/
import SquidModel.ErrPage.Expand

namespace SquidModel.ErrPage

/-- a hole of a hostile source must carry at least one transformation -/
def Piece.safe : Piece → Prop
  | .lit _ => True
  | .hole k xf => classOf k = .client → xf ≠ []

def AllSafe (v : Pieces) : Prop := ∀ p ∈ v, p.safe

theorem allSafe_nil : AllSafe [] := by intro p hp; cases hp

theorem allSafe_append {a b : Pieces} (ha : AllSafe a) (hb : AllSafe b) : AllSafe (a ++ b) := by
  intro p hp
  rcases List.mem_append.mp hp with h | h
  · exact ha p h
  · exact hb p h

theorem allSafe_cons {p : Piece} {v : Pieces} (hp : p.safe) (hv : AllSafe v) : AllSafe (p :: v) := by
  intro q hq
  rcases List.mem_cons.mp hq with h | h
  · subst h; exact hp
  · exact hv q h

structure Abs where
  pBare : Bool
  mbBare : Bool
  doQuote : Bool
  broke : Bool
  bad : Bool
  deriving DecidableEq, Repr

def srcBare : Src → Bool
  | .expr k => classOf k == .client
  | _ => false

/-- three-valued evaluation: only the mode is known -/
def absCond (deny : Bool) : Cond → Option Bool
  | .atom .deny => some deny
  | .atom _ => none
  | .not c => (absCond deny c).map (!·)
  | .and a b =>
    match absCond deny a, absCond deny b with
    | some false, _ => some false
    | _, some false => some false
    | some true, some true => some true
    | _, _ => none
  | .or a b =>
    match absCond deny a, absCond deny b with
    | some true, _ => some true
    | _, some true => some true
    | some false, some false => some false
    | _, _ => none

def absExec (deny : Bool) : Stmt → Abs → List Abs
  | .skip, a => [a]
  | .seq x y, a => (absExec deny x a).flatMap fun a' => if a'.broke then [a'] else absExec deny y a'
  | .ite c t e, a =>
    match absCond deny c with
    | some true => absExec deny t a
    | some false => absExec deny e a
    | none => absExec deny t a ++ absExec deny e a
  | .setP s, a => [{ a with pBare := srcBare s }]
  | .append s, a => [{ a with mbBare := a.mbBare || srcBare s }]
  | .setQuote v, a => [{ a with doQuote := v }]
  | .setNoEsc _, a => [a]
  | .resetMb, a => [{ a with mbBare := false }]
  | .brk, a => [{ a with broke := true }]
  | .unknown _, a => [{ a with bad := true }]

def absOk (a : Abs) : Bool := !a.bad && ((!a.pBare && !a.mbBare) || a.doQuote)

def absInit : Abs := { pBare := false, mbBare := false, doQuote := Gen.ErrorMacros.initDoQuote, broke := false, bad := false }

def stmtOk (s : Stmt) : Bool := (absExec true s absInit).all absOk && (absExec false s absInit).all absOk

/-- the whole regenerated table passes, and every invocation starts from an empty `mb` -/
def tableOk : Bool :=
  Gen.ErrorMacros.cases.all (fun c => stmtOk c.2) && stmtOk Gen.ErrorMacros.defaultCase &&
  (Gen.ErrorMacros.prologueResetsMb || !Gen.ErrorMacros.staticMb)

/-- in page mode the block never leaves an untransformed hostile source in `mb` -/
def mbClean (letter : UInt8) : Bool := (absExec false (bodyOf letter) absInit).all fun a => !a.mbBare && !a.bad

/-- the macro letter expanded last by the template walker -/
def lastMacro : Bytes → Option UInt8
  | [] => none
  | [37] => some 0
  | 37 :: c :: rest =>
    match lastMacro rest with
    | some l => some l
    | none => some c
  | _ :: rest => lastMacro rest

/-- the last macro of the template (if any) leaves nothing hostile in the static buffer -/
def cleanTail (t : Bytes) : Bool :=
  match lastMacro t with
  | none => true
  | some l => mbClean l

/-! ### soundness -/

def optSafe : Option Pieces → Prop
  | none => True
  | some v => AllSafe v

structure Cov (a : Abs) (s : St) : Prop where
  broke : s.broke = a.broke
  quote : s.doQuote = a.doQuote
  psafe : a.pBare = false → optSafe s.p
  mbsafe : a.mbBare = false → AllSafe s.mb

/-- what is assumed of nested compilations: from a safe buffer they produce safe text and leave a safe buffer -/
def RecSafe (rec : Rec) : Prop := ∀ k mb, AllSafe mb → AllSafe (rec k mb).1 ∧ AllSafe (rec k mb).2

/-- ... and safe text from any buffer -/
def RecOutSafe (rec : Rec) : Prop := ∀ k mb, AllSafe (rec k mb).1

theorem srcVal_safe (sh : Shape) (ctx : Ctx) (rec : Rec) (hout : RecOutSafe rec) (mb : Pieces) (src : Src)
    (h : srcBare src = false) : optSafe (srcVal sh ctx rec mb src).1 := by
  cases src with
  | lit b => intro p hp; simp [srcVal] at hp; subst hp; trivial
  | input2 => intro p hp; simp [srcVal] at hp; subst hp; trivial
  | expr k =>
    simp only [srcBare, beq_eq_false_iff_ne, ne_eq] at h
    simp only [srcVal]
    split
    · simp only
      split
      · intro p hp; simp at hp; subst hp; trivial
      · trivial
    · rename_i hc; exact absurd hc h
    · rename_i hc
      simp only
      split
      · intro p hp; simp at hp; subst hp; intro hcl; rw [hc] at hcl; cases hcl
      · trivial
    · exact hout k mb
    · exact hout k mb

theorem srcVal_mb_safe (sh : Shape) (ctx : Ctx) (rec : Rec) (hrec : RecSafe rec) (mb : Pieces) (hmb : AllSafe mb) (src : Src) :
    AllSafe (srcVal sh ctx rec mb src).2 := by
  cases src with
  | lit b => exact hmb
  | input2 => exact hmb
  | expr k =>
    simp only [srcVal]
    split <;> first | exact hmb | exact (hrec k mb hmb).2

theorem optSafe_getD {o : Option Pieces} (h : optSafe o) : AllSafe (o.getD []) := by
  cases o with
  | none => exact allSafe_nil
  | some v => exact h

theorem absCond_sound (sh : Shape) (ctx : Ctx) (s : St) (c : Cond) :
    ∀ b, absCond ctx.deny c = some b → evalCond sh ctx s c = b := by
  induction c with
  | atom a =>
    intro b h
    cases a <;> simp_all [absCond, evalCond, evalAtom]
  | not c ih =>
    intro b h
    simp only [absCond, Option.map_eq_some_iff] at h
    obtain ⟨b', hb', rfl⟩ := h
    simp [evalCond, ih b' hb']
  | and x y ihx ihy =>
    intro b h
    simp only [absCond] at h
    simp only [evalCond]
    split at h
    · rename_i hx; injection h with h; subst h; simp [ihx _ hx]
    · rename_i hy _; injection h with h; subst h; simp [ihy _ hy]
    · rename_i hx hy; injection h with h; subst h; simp [ihx _ hx, ihy _ hy]
    · cases h
  | or x y ihx ihy =>
    intro b h
    simp only [absCond] at h
    simp only [evalCond]
    split at h
    · rename_i hx; injection h with h; subst h; simp [ihx _ hx]
    · rename_i hy _; injection h with h; subst h; simp [ihy _ hy]
    · rename_i hx hy; injection h with h; subst h; simp [ihx _ hx, ihy _ hy]
    · cases h

theorem exec_sound (sh : Shape) (ctx : Ctx) (rec : Rec) (hrec : RecSafe rec) (hout : RecOutSafe rec) (stmt : Stmt) :
    ∀ (a : Abs) (s : St), Cov a s → ∃ a' ∈ absExec ctx.deny stmt a, Cov a' (exec sh ctx rec stmt s) := by
  induction stmt with
  | skip => intro a s h; exact ⟨a, by simp [absExec], h⟩
  | seq x y ihx ihy =>
    intro a s h
    obtain ⟨a1, hm1, h1⟩ := ihx a s h
    simp only [exec]
    by_cases hb : (exec sh ctx rec x s).broke = true
    · refine ⟨a1, ?_, by simpa [hb] using h1⟩
      simp only [absExec, List.mem_flatMap]
      refine ⟨a1, hm1, ?_⟩
      have : a1.broke = true := by rw [← h1.broke]; exact hb
      simp [this]
    · obtain ⟨a2, hm2, h2⟩ := ihy a1 _ h1
      refine ⟨a2, ?_, by simpa [hb] using h2⟩
      simp only [absExec, List.mem_flatMap]
      refine ⟨a1, hm1, ?_⟩
      have : a1.broke = false := by
        rw [← h1.broke]; simpa using hb
      simpa [this] using hm2
  | ite c t e iht ihe =>
    intro a s h
    simp only [exec, absExec]
    by_cases hc : evalCond sh ctx s c = true
    · obtain ⟨a', hm, h'⟩ := iht a s h
      refine ⟨a', ?_, by simpa [hc] using h'⟩
      split
      · exact hm
      · rename_i hab; have := absCond_sound sh ctx s c _ hab; rw [hc] at this; cases this
      · exact List.mem_append_left _ hm
    · obtain ⟨a', hm, h'⟩ := ihe a s h
      refine ⟨a', ?_, by simpa [hc] using h'⟩
      split
      · rename_i hab; have := absCond_sound sh ctx s c _ hab; exact absurd this hc
      · exact hm
      · exact List.mem_append_right _ hm
  | setP src =>
    intro a s h
    refine ⟨{ a with pBare := srcBare src }, by simp [absExec], ?_⟩
    refine ⟨h.broke, h.quote, ?_, ?_⟩
    · intro hb; exact srcVal_safe sh ctx rec hout s.mb src hb
    · intro hb; exact srcVal_mb_safe sh ctx rec hrec s.mb (h.mbsafe hb) src
  | append src =>
    intro a s h
    refine ⟨{ a with mbBare := a.mbBare || srcBare src }, by simp [absExec], ?_⟩
    refine ⟨h.broke, h.quote, h.psafe, ?_⟩
    intro hb
    simp only [Bool.or_eq_false_iff] at hb
    exact allSafe_append (srcVal_mb_safe sh ctx rec hrec s.mb (h.mbsafe hb.1) src)
      (optSafe_getD (srcVal_safe sh ctx rec hout s.mb src hb.2))
  | setQuote v => intro a s h; exact ⟨{ a with doQuote := v }, by simp [absExec], ⟨h.broke, rfl, h.psafe, h.mbsafe⟩⟩
  | setNoEsc v => intro a s h; exact ⟨a, by simp [absExec], ⟨h.broke, h.quote, h.psafe, h.mbsafe⟩⟩
  | resetMb => intro a s h; exact ⟨{ a with mbBare := false }, by simp [absExec], ⟨h.broke, h.quote, h.psafe, fun _ => allSafe_nil⟩⟩
  | brk => intro a s h; exact ⟨{ a with broke := true }, by simp [absExec], ⟨rfl, h.quote, h.psafe, h.mbsafe⟩⟩
  | unknown n => intro a s h; exact ⟨{ a with bad := true }, by simp [absExec], ⟨h.broke, h.quote, h.psafe, h.mbsafe⟩⟩

theorem xfPieces_safe (x : Xf) (v : Pieces) : AllSafe (xfPieces x v) := by
  intro p hp
  simp only [xfPieces, List.mem_map] at hp
  obtain ⟨q, hq, rfl⟩ := hp
  cases q with
  | lit b => trivial
  | hole k xf => intro _; simp [xfPiece]

theorem finish_safe (ctx : Ctx) {a : Abs} {s : St} (h : Cov a s) (hok : absOk a = true) : AllSafe (finish ctx s) := by
  have hv : s.doQuote = true ∨ AllSafe (s.p.getD s.mb) := by
    simp only [absOk, Bool.and_eq_true, Bool.not_eq_true', Bool.or_eq_true] at hok
    rcases hok.2 with hb | hq
    · right
      cases hp : s.p with
      | none => simpa [hp] using h.mbsafe hb.2
      | some v => have h1 := h.psafe hb.1; rw [hp] at h1; simp only [Option.getD_some]; exact h1
    · left; rw [h.quote]; exact hq
  unfold finish
  simp only
  have h1 : AllSafe (if s.doQuote = true then xfPieces .html (s.p.getD s.mb) else s.p.getD s.mb) := by
    rcases hv with hq | hs
    · simp only [hq, if_true]; exact xfPieces_safe _ _
    · split
      · exact xfPieces_safe _ _
      · exact hs
  split
  · exact xfPieces_safe _ _
  · exact h1

theorem lookup_mem {α β} [BEq α] [LawfulBEq α] (k : α) (v : β) : ∀ (l : List (α × β)), l.lookup k = some v → (k, v) ∈ l
  | [], h => by simp at h
  | (k', v') :: l, h => by
    simp only [List.lookup] at h
    split at h
    · rename_i heq
      have : k = k' := by simpa using heq
      subst this
      injection h with h; subst h
      exact List.mem_cons_self ..
    · exact List.mem_cons_of_mem _ (lookup_mem k v l h)

theorem bodyOf_ok (htab : tableOk = true) (letter : UInt8) : stmtOk (bodyOf letter) = true := by
  simp only [tableOk, Bool.and_eq_true, List.all_eq_true] at htab
  unfold bodyOf
  split
  · rename_i b hb
    exact htab.1.1 _ (lookup_mem _ _ _ hb)
  · exact htab.1.2

theorem initSt_mb (htab : tableOk = true) (mbIn : Pieces) : (initSt mbIn).mb = [] := by
  simp only [tableOk, Bool.and_eq_true, Bool.or_eq_true, Bool.not_eq_true'] at htab
  unfold initSt
  rcases htab.2 with h | h <;> simp [h]

theorem cov_init (htab : tableOk = true) (mbIn : Pieces) : Cov absInit (initSt mbIn) :=
  ⟨rfl, rfl, fun _ => trivial, fun _ => by rw [initSt_mb htab]; exact allSafe_nil⟩

/-- the nested compilations as seen by `exec` when `mb` is not static -/
theorem recSafe_local {rec : Rec} (hout : RecOutSafe rec) : RecSafe (fun k mb => ((rec k mb).1, mb)) ∧ RecOutSafe (fun k mb => ((rec k mb).1, mb)) :=
  ⟨fun k mb hmb => ⟨hout k mb, hmb⟩, fun k mb => hout k mb⟩

theorem allSafe_all_of_mem {deny : Bool} {b : Stmt} {a' : Abs} (hok : stmtOk b = true) (hm : a' ∈ absExec deny b absInit) : absOk a' = true := by
  simp only [stmtOk, Bool.and_eq_true, List.all_eq_true] at hok
  cases deny
  · exact hok.2 a' hm
  · exact hok.1 a' hm

theorem expand_safe (htab : tableOk = true) (sh : Shape) (ctx : Ctx) (rec : Rec) (hrec : RecSafe rec) (hout : RecOutSafe rec)
    (letter : UInt8) (mbIn : Pieces) : AllSafe (expand sh ctx rec letter mbIn).1 := by
  unfold expand
  simp only
  split
  · obtain ⟨a', hm, hc⟩ := exec_sound sh { ctx with letter := letter } rec hrec hout (bodyOf letter) absInit (initSt mbIn) (cov_init htab mbIn)
    exact finish_safe _ hc (allSafe_all_of_mem (bodyOf_ok htab letter) hm)
  · obtain ⟨a', hm, hc⟩ := exec_sound sh { ctx with letter := letter } _ (recSafe_local hout).1 (recSafe_local hout).2 (bodyOf letter) absInit (initSt mbIn) (cov_init htab mbIn)
    exact finish_safe _ hc (allSafe_all_of_mem (bodyOf_ok htab letter) hm)

/-- in page mode a clean block leaves a safe buffer -/
theorem expand_mb_safe (htab : tableOk = true) (sh : Shape) (ctx : Ctx) (hdeny : ctx.deny = false) (rec : Rec) (hrec : RecSafe rec)
    (hout : RecOutSafe rec) (letter : UInt8) (hclean : mbClean letter = true) (mbIn : Pieces) :
    Gen.ErrorMacros.staticMb = true → AllSafe (expand sh ctx rec letter mbIn).2 := by
  intro hst
  unfold expand
  simp only [hst, if_true]
  obtain ⟨a', hm, hc⟩ := exec_sound sh { ctx with letter := letter } rec hrec hout (bodyOf letter) absInit (initSt mbIn) (cov_init htab mbIn)
  simp only [hdeny] at hm
  simp only [mbClean, List.all_eq_true, Bool.and_eq_true, Bool.not_eq_true'] at hclean
  exact hc.mbsafe (hclean a' hm).1

theorem expand_mb_local (sh : Shape) (ctx : Ctx) (rec : Rec) (letter : UInt8) (mbIn : Pieces)
    (hst : Gen.ErrorMacros.staticMb = false) : (expand sh ctx rec letter mbIn).2 = mbIn := by
  unfold expand
  simp [hst]

theorem compileAux_other (exp : UInt8 → Pieces → Pieces × Pieces) (b : UInt8) (rest : Bytes) (mb : Pieces) (hb : b ≠ 37) :
    compileAux exp (b :: rest) mb = (.lit [b] :: (compileAux exp rest mb).1, (compileAux exp rest mb).2) := by
  rw [compileAux]
  · intro h; exact absurd h hb
  · intro c r h; exact absurd h hb

theorem lastMacro_other (b : UInt8) (rest : Bytes) (hb : b ≠ 37) : lastMacro (b :: rest) = lastMacro rest := by
  rw [lastMacro]
  · intro h; exact absurd h hb
  · intro c r h; exact absurd h hb

theorem compileAux_safe (exp : UInt8 → Pieces → Pieces × Pieces) (hexp : ∀ c mb, AllSafe (exp c mb).1) :
    ∀ (n : Nat) (t : Bytes) (mb : Pieces), t.length ≤ n → AllSafe (compileAux exp t mb).1 := by
  intro n
  induction n with
  | zero =>
    intro t mb ht
    have : t = [] := List.length_eq_zero_iff.mp (Nat.le_zero.mp ht)
    subst this; rw [compileAux]; exact allSafe_nil
  | succ n ih =>
    intro t mb ht
    match t with
    | [] => rw [compileAux]; exact allSafe_nil
    | [b] =>
      by_cases hb : b = 37
      · subst hb; rw [compileAux]; exact hexp 0 mb
      · rw [compileAux_other _ _ _ _ hb]
        exact allSafe_cons trivial (by rw [compileAux]; exact allSafe_nil)
    | b :: c :: rest =>
      by_cases hb : b = 37
      · subst hb
        rw [compileAux]
        exact allSafe_append (hexp c mb) (ih rest _ (by simp at ht; omega))
      · rw [compileAux_other _ _ _ _ hb]
        exact allSafe_cons trivial (ih _ _ (by simp at ht ⊢; omega))

/-- the buffer a template leaves behind: that of its last macro, or the incoming one when it has no macro -/
theorem compileAux_mb_safe (exp : UInt8 → Pieces → Pieces × Pieces) (clean : UInt8 → Bool)
    (hexp : ∀ c mb, clean c = true → AllSafe (exp c mb).2) :
    ∀ (n : Nat) (t : Bytes) (mb : Pieces), t.length ≤ n → (lastMacro t = none → AllSafe mb) →
      (∀ l, lastMacro t = some l → clean l = true) → AllSafe (compileAux exp t mb).2 := by
  intro n
  induction n with
  | zero =>
    intro t mb ht hnone _
    have : t = [] := List.length_eq_zero_iff.mp (Nat.le_zero.mp ht)
    subst this; rw [compileAux]; exact hnone (by rw [lastMacro])
  | succ n ih =>
    intro t mb ht hnone hlast
    match t with
    | [] => rw [compileAux]; exact hnone (by rw [lastMacro])
    | [b] =>
      by_cases hb : b = 37
      · subst hb; rw [compileAux]; exact hexp 0 mb (hlast 0 (by rw [lastMacro]))
      · rw [compileAux_other _ _ _ _ hb]
        simp only
        rw [compileAux]
        exact hnone (by rw [lastMacro_other _ _ hb, lastMacro])
    | b :: c :: rest =>
      by_cases hb : b = 37
      · subst hb
        rw [compileAux]
        simp only
        apply ih rest _ (by simp at ht; omega)
        · intro hr
          exact hexp c mb (hlast c (by rw [lastMacro, hr]))
        · intro l hl
          exact hlast l (by rw [lastMacro, hl])
      · rw [compileAux_other _ _ _ _ hb]
        simp only
        apply ih _ _ (by simp at ht ⊢; omega)
        · intro hr; exact hnone (by rw [lastMacro_other _ _ hb]; exact hr)
        · intro l hl; exact hlast l (by rw [lastMacro_other _ _ hb]; exact hl)

theorem compileAux_mb_id (exp : UInt8 → Pieces → Pieces × Pieces) (hexp : ∀ c mb, (exp c mb).2 = mb) :
    ∀ (n : Nat) (t : Bytes) (mb : Pieces), t.length ≤ n → (compileAux exp t mb).2 = mb := by
  intro n
  induction n with
  | zero =>
    intro t mb ht
    have : t = [] := List.length_eq_zero_iff.mp (Nat.le_zero.mp ht)
    subst this; rw [compileAux]
  | succ n ih =>
    intro t mb ht
    match t with
    | [] => rw [compileAux]
    | [b] =>
      by_cases hb : b = 37
      · subst hb; rw [compileAux]; exact hexp 0 mb
      · rw [compileAux_other _ _ _ _ hb]; simp only; rw [compileAux]
    | b :: c :: rest =>
      by_cases hb : b = 37
      · subst hb
        rw [compileAux]
        simp only
        rw [ih rest _ (by simp at ht; omega), hexp]
      · rw [compileAux_other _ _ _ _ hb]
        simp only
        exact ih _ _ (by simp at ht ⊢; omega)

/-- Main invariant. With an accepted table and nested templates whose last macro is clean: every compilation yields safe text,
and a page-mode compilation of a clean-tailed template leaves a safe buffer when it was given one. -/
theorem compile_safe (htab : tableOk = true) (sh : Shape) (hd : cleanTail sh.detailTmpl = true) (hs : cleanTail sh.sigTmpl = true) :
    ∀ (fuel : Nat) (ctx : Ctx) (t : Bytes) (mb : Pieces),
      AllSafe (compile fuel sh ctx t mb).1 ∧
      (ctx.deny = false → cleanTail t = true → AllSafe mb → AllSafe (compile fuel sh ctx t mb).2) := by
  intro fuel
  induction fuel with
  | zero => intro ctx t mb; simp only [compile]; exact ⟨allSafe_nil, fun _ _ h => h⟩
  | succ fuel ih =>
    intro ctx t mb
    have hrec : RecSafe (fun k mb' =>
        match classOf k with
        | .recDetail => compile fuel sh { deny := false, allowRec := false, inSig := ctx.inSig } sh.detailTmpl mb'
        | .recSignature => compile fuel sh { deny := false, allowRec := true, inSig := true } sh.sigTmpl mb'
        | _ => ([], mb')) := by
      intro k mb' hmb'
      simp only
      split
      · exact ⟨(ih _ _ _).1, (ih _ _ _).2 rfl hd hmb'⟩
      · exact ⟨(ih _ _ _).1, (ih _ _ _).2 rfl hs hmb'⟩
      · exact ⟨allSafe_nil, hmb'⟩
    have hout : RecOutSafe (fun k mb' =>
        match classOf k with
        | .recDetail => compile fuel sh { deny := false, allowRec := false, inSig := ctx.inSig } sh.detailTmpl mb'
        | .recSignature => compile fuel sh { deny := false, allowRec := true, inSig := true } sh.sigTmpl mb'
        | _ => ([], mb')) := by
      intro k mb'
      simp only
      split
      · exact (ih _ _ _).1
      · exact (ih _ _ _).1
      · exact allSafe_nil
    simp only [compile]
    refine ⟨compileAux_safe _ (fun c mb' => expand_safe htab sh ctx _ hrec hout c mb') t.length t mb (Nat.le_refl _), ?_⟩
    intro hdeny hct hmb
    by_cases hst : Gen.ErrorMacros.staticMb = true
    · apply compileAux_mb_safe _ mbClean (fun c mb' hc => expand_mb_safe htab sh ctx hdeny _ hrec hout c hc mb' hst) t.length t mb (Nat.le_refl _)
      · intro _; exact hmb
      · intro l hl
        simp only [cleanTail, hl] at hct
        exact hct
    · have hst' : Gen.ErrorMacros.staticMb = false := by simpa using hst
      -- a local buffer: nothing survives an invocation
      rw [compileAux_mb_id _ (fun c mb' => expand_mb_local sh ctx _ c mb' hst') t.length t mb (Nat.le_refl _)]
      exact hmb

/-- With a local (non-static) `mb` nothing survives an invocation: every compilation yields safe text and hands the
buffer back unchanged, for every template (no condition on the nested templates). -/
theorem compile_safe_local (htab : tableOk = true) (hst : Gen.ErrorMacros.staticMb = false) (sh : Shape) :
    ∀ (fuel : Nat) (ctx : Ctx) (t : Bytes) (mb : Pieces),
      AllSafe (compile fuel sh ctx t mb).1 ∧ (compile fuel sh ctx t mb).2 = mb := by
  intro fuel
  induction fuel with
  | zero => intro ctx t mb; exact ⟨by simp only [compile]; exact allSafe_nil, by simp only [compile]⟩
  | succ fuel ih =>
    intro ctx t mb
    have hrec : RecSafe (fun k mb' =>
        match classOf k with
        | .recDetail => compile fuel sh { deny := false, allowRec := false, inSig := ctx.inSig } sh.detailTmpl mb'
        | .recSignature => compile fuel sh { deny := false, allowRec := true, inSig := true } sh.sigTmpl mb'
        | _ => ([], mb')) := by
      intro k mb' hmb'
      simp only
      split
      · exact ⟨(ih _ _ _).1, by rw [(ih _ _ _).2]; exact hmb'⟩
      · exact ⟨(ih _ _ _).1, by rw [(ih _ _ _).2]; exact hmb'⟩
      · exact ⟨allSafe_nil, hmb'⟩
    have hout : RecOutSafe (fun k mb' =>
        match classOf k with
        | .recDetail => compile fuel sh { deny := false, allowRec := false, inSig := ctx.inSig } sh.detailTmpl mb'
        | .recSignature => compile fuel sh { deny := false, allowRec := true, inSig := true } sh.sigTmpl mb'
        | _ => ([], mb')) := by
      intro k mb'
      simp only
      split
      · exact (ih _ _ _).1
      · exact (ih _ _ _).1
      · exact allSafe_nil
    simp only [compile]
    exact ⟨compileAux_safe _ (fun c mb' => expand_safe htab sh ctx _ hrec hout c mb') t.length t mb (Nat.le_refl _),
           compileAux_mb_id _ (fun c mb' => expand_mb_local sh ctx _ c mb' hst) t.length t mb (Nat.le_refl _)⟩

end SquidModel.ErrPage
