/-
What a transformed hole looks like once rendered: whatever bytes the source holds, a value that went through
`html_quote` or `rfc1738_escape_part` last contains no raw markup character (`Html.wellQuoted`).
-/
import SquidModel.ErrPage.Check
import SquidModel.Html.Lemmas
import SquidModel.Base.Finite

namespace SquidModel.ErrPage
open SquidModel.Html

theorem wellQuotedAux_plain : ∀ (s : Bytes) (f : Nat), (∀ b ∈ s, isMeta b = false) → s.length ≤ f → wellQuotedAux f s = true := by
  intro s
  induction s with
  | nil => intro f _ _; cases f <;> simp [wellQuotedAux]
  | cons c r ih =>
    intro f hp hf
    cases f with
    | zero => simp at hf
    | succ f =>
      have hc := hp c (List.mem_cons_self ..)
      have hne : c ≠ 38 := not_amp_of_not_meta hc
      simp only [wellQuotedAux, hne, ↓reduceIte, hc, Bool.false_eq_true]
      exact ih f (fun b hb => hp b (List.mem_cons_of_mem _ hb)) (by simpa using hf)

/-- every byte `rfc1738_escape_part` can emit is neither `<`, `>`, `"`, `'` nor `&` (re-decided against the dumped table) -/
theorem escByte_plain : ∀ b : UInt8, (escByte b).all (fun x => !isMeta x) = true :=
  forall_octet (fun b => (escByte b).all (fun x => !isMeta x)) (by decide +kernel)

theorem escapePart_plain (s : Bytes) : ∀ x ∈ escapePart s, isMeta x = false := by
  intro x hx
  simp only [escapePart, List.mem_flatMap] at hx
  obtain ⟨b, _, hxb⟩ := hx
  have := escByte_plain b
  simp only [List.all_eq_true, Bool.not_eq_true'] at this
  exact this x hxb

theorem wellQuoted_escapePart (s : Bytes) : wellQuoted (escapePart s) = true :=
  wellQuotedAux_plain _ _ (escapePart_plain s) (Nat.le_refl _)

theorem wellQuoted_quote (s : Bytes) : wellQuoted (Html.quote s) = true :=
  wellQuotedAux_quote s _ (Nat.le_refl _)

theorem wellQuoted_applyXf (x : Xf) (s : Bytes) : wellQuoted (applyXf x s) = true := by
  cases x
  · exact wellQuoted_quote s
  · exact wellQuoted_escapePart s

theorem applyXfs_concat (xf : List Xf) (x : Xf) (s : Bytes) : applyXfs (xf ++ [x]) s = applyXf x (applyXfs xf s) := by
  simp [applyXfs, List.foldl_append]

/-- a hole that carries at least one transformation renders without raw markup, whatever the source holds -/
theorem wellQuoted_applyXfs (xf : List Xf) (h : xf ≠ []) (s : Bytes) : wellQuoted (applyXfs xf s) = true := by
  rw [← List.dropLast_concat_getLast h, applyXfs_concat]
  exact wellQuoted_applyXf _ _

theorem render_append (val : SrcKey → Bytes) (a b : Pieces) : render val (a ++ b) = render val a ++ render val b := by
  simp [render]

end SquidModel.ErrPage
