/-
The invariant that links the ghost protocol state of a ufs cache_dir to its disk, preserved by every allowed event.
-/
import SquidModel.Ufs.CrashModel

namespace SquidModel.Ufs.Crash
open SquidModel.Gen.C16Consts

/-! ### replay, one record at a time -/

theorem replay_snoc (log : List Rec) (r : Rec) : replay (log ++ [r]) = replayStep (replay log) r := by
  simp [replay, List.foldl_append]

theorem setKey_same (ix : Key → Option Entry) (k : Key) (v : Option Entry) : setKey ix k v k = v := by simp [setKey]

theorem setKey_other (ix : Key → Option Entry) (k x : Key) (v : Option Entry) (h : x ≠ k) : setKey ix k v x = ix x := by
  simp [setKey, h]

/-- whatever a record does to the index, an entry that is there afterwards was there before or is the record's own -/
theorem replayStep_index (st : Ix) (r : Rec) (k : Key) (e : Entry) (h : (replayStep st r).index k = some e) :
    st.index k = some e ∨
    (r.sane = true ∧ r.op = swapLogAdd ∧ r.key = k ∧ e = { key := r.key, fileno := r.fileno % filenoMask, size := r.size, lastref := r.lastref, store := r.store }) := by
  unfold replayStep at h
  split at h
  · exact Or.inl h
  · rename_i hs
    simp only [Bool.not_eq_true] at hs
    have hsane : r.sane = true := by cases hr : r.sane <;> simp_all
    simp only at h
    split at h
    · rename_i hop
      split at h
      · exact Or.inl h
      · split at h
        · exact Or.inl h
        · split at h
          · exact Or.inl h
          · split at h
            · exact Or.inl h
            · rename_i ix hev
              simp only at h
              by_cases hk : k = r.key
              · subst hk
                rw [setKey_same] at h
                exact Or.inr ⟨hsane, hop, rfl, (Option.some.inj h).symm⟩
              · rw [setKey_other _ _ _ _ hk] at h
                -- ix comes from evictStale: the old index, possibly without the entry of r.key
                unfold evictStale at hev
                split at hev
                · cases hev; exact Or.inl h
                · split at hev
                  · cases hev
                  · cases hev
                    rw [setKey_other _ _ _ _ hk] at h
                    exact Or.inl h
    · split at h
      · split at h
        · exact Or.inl h
        · rename_i ix hev
          simp only at h
          unfold evictStale at hev
          split at hev
          · cases hev; exact Or.inl h
          · split at hev
            · cases hev
            · cases hev
              by_cases hk : k = r.key
              · subst hk; rw [setKey_same] at h; cases h
              · rw [setKey_other _ _ _ _ hk] at h; exact Or.inl h
      · exact Or.inl h

/-- a sane DEL record removes the entry of its key unless that entry was referenced later than the record says -/
theorem replayStep_del (st : Ix) (r : Rec) (hs : r.sane = true) (hop : r.op = swapLogDel) (e : Entry)
    (he : st.index r.key = some e) (hl : e.lastref ≤ r.lastref) : (replayStep st r).index r.key = none := by
  unfold replayStep
  have hne : swapLogDel ≠ swapLogAdd := by decide
  simp only [hs, Bool.not_true, Bool.false_eq_true, if_false, hop, hne, if_true]
  unfold evictStale
  rw [he]
  have : ¬ (r.lastref + 1 ≤ e.lastref) := by omega
  simp only [this, if_false]
  exact setKey_same _ _ _

/-! ### ghost state lemmas -/

theorem mem_setPhase {g : Ghost} {s : Nat} {p : Phase} {o : Out} (h : o ∈ setPhase g s p) :
    (o ∈ g ∧ o.id ≠ s) ∨ (∃ o0 ∈ g, o0.id = s ∧ o = { o0 with phase := p }) := by
  unfold setPhase at h
  rw [List.mem_map] at h
  obtain ⟨o0, hm, heq⟩ := h
  by_cases hid : o0.id = s
  · rw [if_pos hid] at heq
    exact Or.inr ⟨o0, hm, hid, heq.symm⟩
  · rw [if_neg hid] at heq
    subst heq
    exact Or.inl ⟨hm, hid⟩

theorem setPhase_ids (g : Ghost) (s : Nat) (p : Phase) : (setPhase g s p).map (·.id) = g.map (·.id) := by
  unfold setPhase
  rw [List.map_map]
  apply List.map_congr_left
  intro o _
  by_cases h : o.id = s <;> simp [h]

/-- the invariant -/
structure UInv (g : Ghost) (d : Disk) : Prop where
  /-- swap-out ids are unique -/
  ids : (g.map (·.id)).Nodup
  /-- file numbers of holders are unique and below the mask -/
  holders : ∀ o ∈ g, ∀ o' ∈ g, o.holds = true → o'.holds = true → o.fileno = o'.fileno → o.id = o'.id
  range : ∀ o ∈ g, 0 ≤ o.fileno ∧ o.fileno < filenoMask
  /-- at most one public entry per key -/
  keys : ∀ o ∈ g, ∀ o' ∈ g, o.isAdded = true → o'.isAdded = true → o.key = o'.key → o.id = o'.id
  /-- what the rebuild would index is a public, completely written entry -/
  index : ∀ k e, (replay d.log).index k = some e →
    ∃ o ∈ g, o.phase = .added e.lastref ∧ o.id = e.store ∧ o.key = k ∧ o.fileno = e.fileno ∧ o.total = e.size
  /-- the file of a holder is its own (or gone) and has exactly the bytes written so far -/
  files : ∀ o ∈ g, o.holds = true → ∀ fl, d.files o.fileno = some fl →
    fl.store = o.id ∧ fl.key = o.key ∧ (∀ b, o.phase = .writing b → fl.bytes = b) ∧ (∀ lr, o.phase = .added lr → fl.bytes = o.total)

theorem uinv_empty : UInv [] Disk.empty := by
  refine ⟨by simp, ?_, ?_, ?_, ?_, ?_⟩
  · intro o ho; cases ho
  · intro o ho; cases ho
  · intro o ho; cases ho
  · intro k e h; simp [replay, Disk.empty, Ix.empty] at h
  · intro o ho; cases ho

theorem find_some_mem {g : Ghost} {p : Out → Bool} {o : Out} (h : g.find? p = some o) : o ∈ g ∧ p o = true :=
  ⟨List.mem_of_find?_eq_some h, List.find?_some h⟩

theorem id_unique {g : Ghost} (hn : (g.map (·.id)).Nodup) {a b : Out} (ha : a ∈ g) (hb : b ∈ g) (h : a.id = b.id) : a = b := by
  induction g with
  | nil => cases ha
  | cons x xs ih =>
    rw [List.map_cons, List.nodup_cons] at hn
    rcases List.mem_cons.mp ha with rfl | ha'
    · rcases List.mem_cons.mp hb with rfl | hb'
      · rfl
      · exact absurd (List.mem_map.mpr ⟨b, hb', h.symm⟩) hn.1
    · rcases List.mem_cons.mp hb with rfl | hb'
      · exact absurd (List.mem_map.mpr ⟨a, ha', h⟩) hn.1
      · exact ih hn.2 ha' hb'


theorem setPhase_cases {g : Ghost} (hn : (g.map (·.id)).Nodup) {o : Out} (ho : o ∈ g) {p : Phase} {x : Out}
    (hx : x ∈ setPhase g o.id p) : (x ∈ g ∧ x.id ≠ o.id) ∨ x = { o with phase := p } := by
  rcases mem_setPhase hx with h | ⟨o0, hm, hid, heq⟩
  · exact Or.inl h
  · have : o0 = o := id_unique hn hm ho hid
    subst this
    exact Or.inr heq

theorem mem_setPhase_new {g : Ghost} {o : Out} (ho : o ∈ g) (p : Phase) : { o with phase := p } ∈ setPhase g o.id p := by
  unfold setPhase
  rw [List.mem_map]
  exact ⟨o, ho, by simp⟩

theorem mem_setPhase_old {g : Ghost} {s : Nat} {p : Phase} {x : Out} (hx : x ∈ g) (hid : x.id ≠ s) : x ∈ setPhase g s p := by
  unfold setPhase
  rw [List.mem_map]
  exact ⟨x, hx, by simp [hid]⟩

/-- a phase change of one swap-out that does not make it a holder or public if it was not: the structural clauses survive -/
theorem structural_setPhase {g : Ghost} {d : Disk} (h : UInv g d) {o : Out} (ho : o ∈ g) (p : Phase)
    (hholds : ({ o with phase := p } : Out).holds = true → o.holds = true)
    (hadded : ({ o with phase := p } : Out).isAdded = true →
      ∀ o' ∈ g, o'.isAdded = true → o'.key = o.key → o'.id = o.id) :
    ((setPhase g o.id p).map (·.id)).Nodup ∧
    (∀ a ∈ setPhase g o.id p, ∀ b ∈ setPhase g o.id p, a.holds = true → b.holds = true → a.fileno = b.fileno → a.id = b.id) ∧
    (∀ a ∈ setPhase g o.id p, 0 ≤ a.fileno ∧ a.fileno < filenoMask) ∧
    (∀ a ∈ setPhase g o.id p, ∀ b ∈ setPhase g o.id p, a.isAdded = true → b.isAdded = true → a.key = b.key → a.id = b.id) := by
  refine ⟨by rw [setPhase_ids]; exact h.ids, ?_, ?_, ?_⟩
  · intro a ha b hb hah hbh hf
    rcases setPhase_cases h.ids ho ha with ⟨ha', _⟩ | rfl <;> rcases setPhase_cases h.ids ho hb with ⟨hb', _⟩ | rfl
    · exact h.holders a ha' b hb' hah hbh hf
    · exact h.holders a ha' o ho hah (hholds hbh) hf
    · exact h.holders o ho b hb' (hholds hah) hbh hf
    · rfl
  · intro a ha
    rcases setPhase_cases h.ids ho ha with ⟨ha', _⟩ | rfl
    · exact h.range a ha'
    · exact h.range o ho
  · intro a ha b hb haa hba hk
    rcases setPhase_cases h.ids ho ha with ⟨ha', _⟩ | rfl <;> rcases setPhase_cases h.ids ho hb with ⟨hb', _⟩ | rfl
    · exact h.keys a ha' b hb' haa hba hk
    · exact hadded hba a ha' haa hk
    · exact (hadded haa b hb' hba hk.symm).symm
    · rfl

theorem emod_mask {f : Int} (h0 : 0 ≤ f) (h1 : f < filenoMask) : f % filenoMask = f := Int.emod_eq_of_lt h0 h1

/-- every allowed event preserves the invariant -/
theorem uinv_step {g g' : Ghost} {d : Disk} {ev : Ev} (h : UInv g d) (hw : wfStep g ev = some g') : UInv g' (applyEv d ev) := by
  cases ev with
  | create f s k total hdr =>
    simp only [wfStep] at hw
    split at hw
    · cases hw
    · rename_i hc
      cases hw
      simp only [Bool.or_eq_true, List.any_eq_true, beq_iff_eq, Bool.and_eq_true, decide_eq_true_eq, not_or, not_exists, not_and] at hc
      obtain ⟨⟨⟨⟨⟨hid, hhold⟩, hf0⟩, hf1⟩, _⟩, _⟩ := hc
      refine ⟨?_, ?_, ?_, ?_, ?_, ?_⟩
      · rw [List.map_cons, List.nodup_cons]
        refine ⟨?_, h.ids⟩
        intro hm
        obtain ⟨o, ho, hoid⟩ := List.mem_map.mp hm
        exact hid o ho hoid
      · intro a ha b hb hah hbh hfe
        rcases List.mem_cons.mp ha with rfl | ha' <;> rcases List.mem_cons.mp hb with rfl | hb'
        · rfl
        · exact absurd hfe.symm (hhold b hb' hbh)
        · exact absurd hfe (hhold a ha' hah)
        · exact h.holders a ha' b hb' hah hbh hfe
      · intro a ha
        rcases List.mem_cons.mp ha with rfl | ha'
        · exact ⟨by simpa using hf0, by simpa using hf1⟩
        · exact h.range a ha'
      · intro a ha b hb haa hba hk
        rcases List.mem_cons.mp ha with rfl | ha'
        · simp [Out.isAdded] at haa
        · rcases List.mem_cons.mp hb with rfl | hb'
          · simp [Out.isAdded] at hba
          · exact h.keys a ha' b hb' haa hba hk
      · intro k' e he
        obtain ⟨o, ho, hrest⟩ := h.index k' e he
        exact ⟨o, List.mem_cons_of_mem _ ho, hrest⟩
      · intro a ha hah fl hfl
        simp only [applyEv] at hfl
        rcases List.mem_cons.mp ha with rfl | ha'
        · simp only [setFile, if_true] at hfl
          cases hfl
          refine ⟨rfl, rfl, ?_, ?_⟩
          · intro b hb; cases hb; rfl
          · intro lr hlr; cases hlr
        · have hne : a.fileno ≠ f := hhold a ha' hah
          simp only [setFile, hne, if_false] at hfl
          exact h.files a ha' hah fl hfl
  | append f n =>
    simp only [wfStep] at hw
    split at hw
    · rename_i o hfind
      obtain ⟨ho, hp⟩ := find_some_mem hfind
      simp only [Bool.and_eq_true, beq_iff_eq] at hp
      split at hw
      · rename_i b hph
        split at hw
        · cases hw
          obtain ⟨s1, s2, s3, s4⟩ := structural_setPhase h ho (.writing (b + n)) (fun _ => hp.1) (by intro hx; simp [Out.isAdded] at hx)
          refine ⟨s1, s2, s3, s4, ?_, ?_⟩
          · intro k e he
            simp only [applyEv] at he
            have he' : (replay d.log).index k = some e := by
              cases hdf : d.files f <;> simp only [hdf] at he <;> exact he
            obtain ⟨o2, ho2, hph2, hrest⟩ := h.index k e he'
            have hne : o2.id ≠ o.id := by
              intro heq
              have : o2 = o := id_unique h.ids ho2 ho heq
              subst this
              rw [hph] at hph2; cases hph2
            exact ⟨o2, mem_setPhase_old ho2 hne, hph2, hrest⟩
          · intro a ha hah fl hfl
            rcases setPhase_cases h.ids ho ha with ⟨ha', hne⟩ | rfl
            · have hfne : a.fileno ≠ f := by
                intro heq
                exact hne (h.holders a ha' o ho hah hp.1 (heq.trans hp.2.symm))
              simp only [applyEv] at hfl
              cases hdf : d.files f with
              | none => simp only [hdf] at hfl; exact h.files a ha' hah fl hfl
              | some fl0 =>
                simp only [hdf, setFile, hfne, if_false] at hfl
                exact h.files a ha' hah fl hfl
            · simp only [applyEv] at hfl
              cases hdf : d.files f with
              | none =>
                simp only [hdf] at hfl
                rw [hp.2, hdf] at hfl
                cases hfl
              | some fl0 =>
                simp only [hdf, setFile] at hfl
                rw [if_pos hp.2] at hfl
                cases hfl
                obtain ⟨a1, a2, a3, _⟩ := h.files o ho hp.1 fl0 (by rw [hp.2]; exact hdf)
                refine ⟨a1, a2, ?_, ?_⟩
                · intro b' hb'
                  cases hb'
                  simp only
                  rw [a3 b hph]
                · intro lr hlr; cases hlr
        · cases hw
      · cases hw
    · cases hw
  | log r =>
    simp only [wfStep] at hw
    split at hw
    · cases hw
    · rename_i o hfind
      obtain ⟨ho, hp⟩ := find_some_mem hfind
      simp only [beq_iff_eq] at hp
      split at hw
      · rename_i hop
        -- ADD
        split at hw
        · rename_i b hph
          split at hw
          · rename_i hc
            cases hw
            obtain ⟨hb, hk, hf, hsz, hsane, _, hall⟩ := hc
            have holds : o.holds = true := by simp [Out.holds, hph]
            have huniq : ∀ o' ∈ g, o'.isAdded = true → o'.key = o.key → o'.id = o.id := by
              intro o' ho' ha' hk'
              rw [List.all_eq_true] at hall
              have := hall o' ho'
              simp [ha', hk'] at this
            obtain ⟨s1, s2, s3, s4⟩ := structural_setPhase h ho (.added r.lastref) (fun _ => holds) (fun _ => huniq)
            refine ⟨s1, s2, s3, s4, ?_, ?_⟩
            · intro k e he
              simp only [applyEv] at he
              rw [replay_snoc] at he
              rcases replayStep_index _ _ _ _ he with hold | ⟨_, _, hkk, hee⟩
              · obtain ⟨o2, ho2, hph2, hrest⟩ := h.index k e hold
                have hne : o2.id ≠ o.id := by
                  intro heq
                  have : o2 = o := id_unique h.ids ho2 ho heq
                  subst this
                  rw [hph] at hph2; cases hph2
                exact ⟨o2, mem_setPhase_old ho2 hne, hph2, hrest⟩
              · refine ⟨{ o with phase := .added r.lastref }, mem_setPhase_new ho _, ?_, ?_, ?_, ?_, ?_⟩
                · rw [hee]
                · rw [hee]; exact hp
                · simp only; rw [← hkk, hk]
                · rw [hee]; simp only
                  rw [hf, emod_mask (h.range o ho).1 (h.range o ho).2]
                · rw [hee]; simp only; exact hsz.symm
            · intro a ha hah fl hfl
              simp only [applyEv] at hfl
              rcases setPhase_cases h.ids ho ha with ⟨ha', _⟩ | rfl
              · exact h.files a ha' hah fl hfl
              · obtain ⟨a1, a2, a3, _⟩ := h.files o ho holds fl hfl
                refine ⟨a1, a2, ?_, ?_⟩
                · intro b' hb'; cases hb'
                · intro lr _
                  simp only
                  rw [a3 b hph, hb]
          · cases hw
        · cases hw
      · split at hw
        · rename_i hop
          -- DEL
          split at hw
          · rename_i lr hph
            split at hw
            · rename_i hc
              cases hw
              obtain ⟨hk, hf, hsz, hsane, hlr⟩ := hc
              obtain ⟨s1, s2, s3, s4⟩ := structural_setPhase h ho .released (by intro hx; simp [Out.holds] at hx) (by intro hx; simp [Out.isAdded] at hx)
              refine ⟨s1, s2, s3, s4, ?_, ?_⟩
              · intro k e he
                simp only [applyEv] at he
                rw [replay_snoc] at he
                rcases replayStep_index _ _ _ _ he with hold | ⟨_, hadd, _, _⟩
                · obtain ⟨o2, ho2, hph2, hid2, hk2, hrest⟩ := h.index k e hold
                  have hne : o2.id ≠ o.id := by
                    intro heq
                    have : o2 = o := id_unique h.ids ho2 ho heq
                    subst this
                    rw [hph] at hph2
                    cases hph2
                    -- the record removes exactly this entry
                    have hkk : r.key = k := by rw [hk, hk2]
                    subst hkk
                    rw [replayStep_del _ r hsane hop e hold hlr] at he
                    cases he
                  exact ⟨o2, mem_setPhase_old ho2 hne, hph2, hid2, hk2, hrest⟩
                · rw [hop] at hadd
                  exact absurd hadd (by decide)
              · intro a ha hah fl hfl
                simp only [applyEv] at hfl
                rcases setPhase_cases h.ids ho ha with ⟨ha', _⟩ | rfl
                · exact h.files a ha' hah fl hfl
                · simp [Out.holds] at hah
            · cases hw
          · cases hw
        · cases hw
  | unlink f =>
    simp only [wfStep] at hw
    split at hw
    · cases hw
      refine ⟨h.ids, h.holders, h.range, h.keys, ?_, ?_⟩
      · intro k e he; exact h.index k e he
      · intro a ha hah fl hfl
        simp only [applyEv, setFile] at hfl
        split at hfl
        · cases hfl
        · exact h.files a ha hah fl hfl
    · cases hw
  | abort s =>
    simp only [wfStep] at hw
    split at hw
    · rename_i o hfind
      obtain ⟨ho, hp⟩ := find_some_mem hfind
      simp only [beq_iff_eq] at hp
      split at hw
      · rename_i b hph
        cases hw
        subst hp
        obtain ⟨s1, s2, s3, s4⟩ := structural_setPhase h ho .released (by intro hx; simp [Out.holds] at hx) (by intro hx; simp [Out.isAdded] at hx)
        refine ⟨s1, s2, s3, s4, ?_, ?_⟩
        · intro k e he
          obtain ⟨o2, ho2, hph2, hrest⟩ := h.index k e he
          have hne : o2.id ≠ o.id := by
            intro heq
            have : o2 = o := id_unique h.ids ho2 ho heq
            subst this
            rw [hph] at hph2; cases hph2
          exact ⟨o2, mem_setPhase_old ho2 hne, hph2, hrest⟩
        · intro a ha hah fl hfl
          rcases setPhase_cases h.ids ho ha with ⟨ha', _⟩ | rfl
          · exact h.files a ha' hah fl hfl
          · simp [Out.holds] at hah
      · cases hw
    · cases hw

theorem uinv_run {evs : List Ev} : ∀ {g g' : Ghost} {d : Disk}, UInv g d → wfRun g evs = some g' → UInv g' (applyAll d evs) := by
  induction evs with
  | nil => intro g g' d h hw; simp only [wfRun] at hw; cases hw; exact h
  | cons e rest ih =>
    intro g g' d h hw
    simp only [wfRun] at hw
    split at hw
    · cases hw
    · rename_i g1 h1
      simp only [applyAll, List.foldl_cons]
      exact ih (uinv_step h h1) hw

/-- the protocol is prefix closed: a crash leaves an allowed history behind -/
theorem wfRun_prefix {a b : List Ev} : ∀ {g : Ghost}, (wfRun g (a ++ b)).isSome → (wfRun g a).isSome := by
  induction a with
  | nil => intro g _; simp [wfRun]
  | cons e rest ih =>
    intro g h
    simp only [List.cons_append, wfRun] at h ⊢
    split at h
    · simp at h
    · exact ih h


/-- what a consistent disk serves is a completely written, logged, unreleased object of the requested key -/
theorem serve_complete {g : Ghost} {d : Disk} (hinv : UInv g d) (k : Key) (sv : Served) (hs : serve d k = some sv) :
    ∃ o ∈ g, o.id = sv.store ∧ o.key = k ∧ o.isAdded = true ∧ sv.served = o.total ∧ sv.promised = o.total := by
  unfold serve at hs
  split at hs
  · cases hs
  · rename_i e he
    split at hs
    · cases hs
    · rename_i fl hfl
      split at hs
      · cases hs
      · split at hs
        · cases hs
        · rename_i _ hkey
          cases hs
          obtain ⟨o, ho, hph, hid, hk, hf, ht⟩ := hinv.index k e he
          have holds : o.holds = true := by simp [Out.holds, hph]
          obtain ⟨a1, _, _, a4⟩ := hinv.files o ho holds fl (by rw [hf]; exact hfl)
          refine ⟨o, ho, a1.symm, hk, by simp [Out.isAdded, hph], ?_, ht.symm⟩
          simp only
          rw [a4 _ hph, ht]
          exact Nat.min_self _


theorem wfRun_snoc (g : Ghost) (pre : List Ev) (e : Ev) :
    wfRun g (pre ++ [e]) = (wfRun g pre).bind (fun g' => wfStep g' e) := by
  induction pre generalizing g with
  | nil => simp only [List.nil_append, wfRun, Option.bind]; cases wfStep g e <;> rfl
  | cons x rest ih =>
    simp only [List.cons_append, wfRun]
    cases wfStep g x with
    | none => rfl
    | some g1 => exact ih g1

theorem wfStep_shorter_append (g g1 : Ghost) (f : Int) (n n' : Nat) (hn : n' ≤ n) (h : wfStep g (.append f n) = some g1) :
    (wfStep g (.append f n')).isSome = true := by
  simp only [wfStep] at h ⊢
  cases hfind : g.find? (fun o => o.holds && o.fileno == f) with
  | none => rw [hfind] at h; cases h
  | some o =>
    rw [hfind] at h
    simp only at h ⊢
    cases hph : o.phase with
    | writing b =>
      rw [hph] at h
      simp only at h ⊢
      split at h
      · rename_i hle
        have : b + n' ≤ o.total := by omega
        simp [this]
      · cases h
    | added lr => rw [hph] at h; cases h
    | released => rw [hph] at h; cases h


end SquidModel.Ufs.Crash
