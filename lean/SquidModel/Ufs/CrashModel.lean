/-
C16 (ufs half): what a ufs/aufs cache_dir looks like after squid was killed while writing, and what the restarted squid
serves from it.

* the disk -- `swap.state` (a sequence of complete 72-byte `StoreSwapLogData` records; a torn tail is never read:
  `UFSSwapLogParser_v2::ReadRecord` needs a whole record) and one file per object (swap metadata with the key, reply, body).
* the run time, as the sequence of disk-changing events it emits (`Ev`): a swap-out creates its file
  (`open(O_CREAT|O_TRUNC)`, the file number comes from `UFSSwapDir::mapBitAllocate`), appends to it, and only after the
  close logs `SWAP_LOG_ADD` (`storeSwapOutFileClosed`); when the entry stops being public `Store::Disks::evictCached`
  logs `SWAP_LOG_DEL` *before* `UFSSwapDir::evictCached` gives the file number back and queues the unlink (which
  unlinkd / an I/O thread may execute much later).  `Wf` is that protocol; the check validates the real event trace
  against it.
* the rebuild -- `Fs::Ufs::RebuildState::rebuildFromSwapLog / addIfFresh / evictStaleAndContinue`
  (src/fs/ufs/RebuildState.cc), `StoreSwapLogData::sane` (src/StoreSwapLogData.cc), `UFSSwapDir::addDiskRestore`,
  and `StoreEntry::release` during a rebuild (the entry stays locked until the rebuild is over, so its file number stays
  taken: a later ADD for the same number is a "clash" and is skipped).
* the hit -- index lookup, open the file, `Store::UnpackHitSwapMeta` compares the key in the file with the requested one,
  `swap_file_sz` bytes are served.
-/
import SquidModel.Gen.C16Consts

namespace SquidModel.Ufs.Crash
open SquidModel.Gen.C16Consts

abbrev Key := Nat

/-- `StoreSwapLogData` as read back from swap.state -/
structure Rec where
  /-- `swap_log_op` -/
  op : Nat
  fileno : Int
  /-- `swap_file_sz` -/
  size : Nat
  key : Key
  lastref : Int
  flags : Nat
  /-- the stored `SwapChecksum24` equals the one computed from `swap_filen` and `swap_file_sz` -/
  csumOk : Bool
  /-- timestamp, lastref, expires, lastmod are all >= -2 -/
  timesOk : Bool
  /-- ghost: the swap-out that logged the record (not on disk; nothing below depends on it except proofs) -/
  store : Nat := 0
deriving DecidableEq, Repr

/-- `StoreSwapLogData::sane` -/
def Rec.sane (r : Rec) : Bool :=
  r.csumOk && decide (swapLogNop < r.op) && decide (r.op < swapLogMax) && decide (0 ≤ r.fileno) && r.timesOk && decide (0 < r.size)

/-- what the index knows about an entry restored from the log (`addDiskRestore`) -/
structure Entry where
  key : Key
  fileno : Int
  size : Nat
  lastref : Int
  store : Nat
deriving DecidableEq, Repr

/-- the state of `rebuildFromSwapLog`: the store index (a hash table: one entry per key) and the file map bits.
    Bits are only ever set during the rebuild: `release()` of a disk entry is postponed until the rebuild is over. -/
structure Ix where
  index : Key → Option Entry
  bits : List Int

def Ix.empty : Ix := { index := fun _ => none, bits := [] }

def setKey (ix : Key → Option Entry) (k : Key) (v : Option Entry) : Key → Option Entry :=
  fun x => if x = k then v else ix x

/-- `evictStaleAndContinue(key, maxRef)`: `none` = the indexed entry is at least as fresh, the caller gives up;
    otherwise the index without the stale entry -/
def evictStale (ix : Key → Option Entry) (k : Key) (maxRef : Int) : Option (Key → Option Entry) :=
  match ix k with
  | none => some ix
  | some e => if maxRef ≤ e.lastref then none else some (setKey ix k none)

def testBit (n bit : Nat) : Bool := (n / 2 ^ bit) % 2 == 1

/-- `rebuildFromSwapLog` for one record -/
def replayStep (st : Ix) (r : Rec) : Ix :=
  if !r.sane then st                                                      -- ++counts.invalid
  else
    let f := r.fileno % filenoMask                                        -- swap_filen &= 0x00FFFFFF
    if r.op = swapLogAdd then
      if f < 0 then st                                                    -- validFileno(filn, 0)
      else if testBit r.flags keyPrivateBit then st                       -- ++counts.badflags
      else if f ∈ st.bits then st                                         -- mapBitTest: ++counts.clashcount
      else match evictStale st.index r.key r.lastref with                 -- addIfFresh
        | none => st
        | some ix => { index := setKey ix r.key (some { key := r.key, fileno := f, size := r.size, lastref := r.lastref, store := r.store }),
                       bits := f :: st.bits }
    else if r.op = swapLogDel then
      match evictStale st.index r.key (r.lastref + 1) with
      | none => st
      | some ix => { st with index := ix }
    else st                                                               -- ++counts.bad_log_op

def replay (log : List Rec) : Ix := log.foldl replayStep Ix.empty

/-- an object file: whose swap-out made it, the key in its swap metadata, how many bytes are there -/
structure FileSt where
  store : Nat
  key : Key
  /-- `swap_hdr_sz`: the key can be read only when the whole swap metadata is there -/
  hdr : Nat
  bytes : Nat
deriving DecidableEq, Repr

structure Disk where
  /-- the complete records of swap.state -/
  log : List Rec
  files : Int → Option FileSt

def Disk.empty : Disk := { log := [], files := fun _ => none }

def setFile (fs : Int → Option FileSt) (f : Int) (v : Option FileSt) : Int → Option FileSt :=
  fun x => if x = f then v else fs x

/-- what a hit delivers: the bytes `[0, served)` of the file made by swap-out `store` -/
structure Served where
  store : Nat
  served : Nat
  /-- `swap_file_sz` of the index entry: what squid promises to deliver -/
  promised : Nat
deriving DecidableEq, Repr

/-- a request for `k` after the rebuild: index lookup, open, `UnpackHitSwapMeta` (needs the whole swap metadata and the
    same key), then `swap_file_sz` bytes or as many as the file has -/
def serve (d : Disk) (k : Key) : Option Served :=
  match (replay d.log).index k with
  | none => none
  | some e =>
    match d.files e.fileno with
    | none => none                                                        -- open fails: swap-in failure, a miss
    | some fl =>
      if fl.bytes < fl.hdr then none                                     -- metadata incomplete: unpacking throws
      else if fl.key ≠ k then none                                        -- CheckSwapMetaKey
      else some { store := fl.store, served := min fl.bytes e.size, promised := e.size }

/-! ### the events a running squid applies to the cache_dir -/

inductive Ev where
  /-- `open(O_WRONLY|O_CREAT|O_TRUNC)` of file `f` for swap-out `s` of key `k`, whose object has `total` bytes,
      the first `hdr` of them swap metadata -/
  | create (f : Int) (s : Nat) (k : Key) (total : Nat) (hdr : Nat)
  /-- `n` more bytes of its object are appended to file `f` (a torn write is an append of fewer bytes) -/
  | append (f : Int) (n : Nat)
  /-- one complete record reaches swap.state (a torn record is never read back: no event) -/
  | log (r : Rec)
  | unlink (f : Int)
  /-- a swap-out is abandoned, its file number is free again (nothing reaches the disk) -/
  | abort (s : Nat)
deriving Repr

def applyEv (d : Disk) : Ev → Disk
  | .create f s k _ hdr => { d with files := setFile d.files f (some { store := s, key := k, hdr := hdr, bytes := 0 }) }
  | .append f n => match d.files f with
    | none => d
    | some fl => { d with files := setFile d.files f (some { fl with bytes := fl.bytes + n }) }
  | .log r => { d with log := d.log ++ [r] }
  | .unlink f => { d with files := setFile d.files f none }
  | .abort _ => d

def applyAll (d : Disk) (evs : List Ev) : Disk := evs.foldl applyEv d

/-! ### the protocol the run time follows (ghost state) -/

inductive Phase where
  | writing (bytes : Nat)
  | added (lastref : Int)
  | released
deriving DecidableEq, Repr

structure Out where
  id : Nat
  key : Key
  fileno : Int
  total : Nat
  phase : Phase
deriving DecidableEq, Repr

def Out.holds (o : Out) : Bool := match o.phase with | .released => false | _ => true

def Out.isAdded (o : Out) : Bool := match o.phase with | .added _ => true | _ => false

abbrev Ghost := List Out

def setPhase (g : Ghost) (s : Nat) (p : Phase) : Ghost := g.map (fun o => if o.id = s then { o with phase := p } else o)

/-- one event is allowed in ghost state `g`; `none` = the run time never does that -/
def wfStep (g : Ghost) : Ev → Option Ghost
  | .create f s k total hdr =>
    -- mapBitAllocate hands out a number nobody holds; the object has at least its swap metadata
    if g.any (fun o => o.id == s) || g.any (fun o => o.holds && o.fileno == f) || decide (f < 0) || decide (filenoMask ≤ f) || decide (total < hdr) || decide (hdr = 0) then none
    else some ({ id := s, key := k, fileno := f, total := total, phase := .writing 0 } :: g)
  | .append f n =>
    match g.find? (fun o => o.holds && o.fileno == f) with
    | some o => match o.phase with
      | .writing b => if b + n ≤ o.total then some (setPhase g o.id (.writing (b + n))) else none
      | _ => none
    | none => none
  | .log r =>
    match g.find? (fun o => o.id == r.store) with
    | none => none
    | some o =>
      if r.op = swapLogAdd then
        -- storeSwapOutFileClosed: the file is complete and closed, the entry is public and nobody else has its key
        match o.phase with
        | .writing b =>
          if b = o.total ∧ r.key = o.key ∧ r.fileno = o.fileno ∧ r.size = o.total ∧ r.sane = true ∧ testBit r.flags keyPrivateBit = false
             ∧ g.all (fun o' => !(o'.isAdded && o'.key == o.key)) = true
          then some (setPhase g o.id (.added r.lastref)) else none
        | _ => none
      else if r.op = swapLogDel then
        -- Store::Disks::evictCached: logged while the entry is still public, with its current lastref
        match o.phase with
        | .added lr =>
          if r.key = o.key ∧ r.fileno = o.fileno ∧ r.size = o.total ∧ r.sane = true ∧ lr ≤ r.lastref
          then some (setPhase g o.id .released) else none
        | _ => none
      else none
  | .unlink f =>
    -- queued by evictCached after the number was given back; may run at any later time
    if g.any (fun o => !o.holds && o.fileno == f) then some g else none
  | .abort s =>
    match g.find? (fun o => o.id == s) with
    | some o => match o.phase with
      | .writing _ => some (setPhase g s .released)
      | _ => none
    | none => none

/-- a whole history is allowed (from an empty cache_dir) -/
def wfRun : Ghost → List Ev → Option Ghost
  | g, [] => some g
  | g, e :: rest => match wfStep g e with
    | none => none
    | some g' => wfRun g' rest

def Wf (evs : List Ev) : Prop := (wfRun [] evs).isSome

end SquidModel.Ufs.Crash
