/-
Lemmas about the packing state machine of SquidModel/RangePack/Stream.lean (no model definitions here).
-/
import SquidModel.RangePack.Stream

namespace SquidModel.RangePack
open SquidModel.Gen

/-! ### slices -/

theorem slice_length (body : Bytes) (off len : Nat) (h : off + len ≤ body.length) : (slice body off len).length = len := by
  simp [slice, List.length_take, List.length_drop]; omega

theorem slice_zero (body : Bytes) (off : Nat) : slice body off 0 = [] := by simp [slice]

theorem slice_take (body : Bytes) (off len k : Nat) (h : k ≤ len) : (slice body off len).take k = slice body off k := by
  simp [slice, List.take_take, Nat.min_eq_left h]

theorem slice_drop (body : Bytes) (off len k : Nat) : (slice body off len).drop k = slice body (off + k) (len - k) := by
  simp [slice, List.drop_take, List.drop_drop]

theorem slice_append (body : Bytes) (off a b : Nat) : slice body off (a + b) = slice body off a ++ slice body (off + a) b := by
  simp only [slice]
  rw [List.take_add, List.drop_drop]

theorem slice_all (body : Bytes) : slice body 0 body.length = body := by simp [slice]

theorem slice_eq_nil_iff (body : Bytes) (off len : Nat) (h : off + len ≤ body.length) : slice body off len = [] ↔ len = 0 := by
  rw [← List.length_eq_zero_iff, slice_length body off len h]

/-! ### well-formed canonical spec lists: inside the object, non-empty, in strong order -/

/-- `Chain n lo specs`: every spec is non-empty, ends within `n`, and starts at or after the end of its predecessor (`lo`) -/
def Chain (n : Nat) : Nat → List CSpec → Prop
  | _, [] => True
  | lo, c :: rest => lo ≤ c.off ∧ 0 < c.len ∧ c.off + c.len ≤ n ∧ Chain n (c.off + c.len) rest

def sumLen : List CSpec → Nat
  | [] => 0
  | c :: rest => c.len + sumLen rest

/-- bytes of range data still to be sent -/
def remBytes (it : It) : Nat :=
  match it.rem with
  | [] => 0
  | _ :: rest => it.debt + sumLen rest

/-- the iterator between deliveries of a multi-range response: inside the current spec, `out.offset` at the next wanted byte -/
def Inv (n : Nat) (it : It) : Prop :=
  match it.rem with
  | [] => it.debt = 0
  | c :: rest => 0 < it.debt ∧ it.debt ≤ c.len ∧ it.out + it.debt = c.off + c.len ∧ c.off + c.len ≤ n ∧ Chain n (c.off + c.len) rest

/-- what is still to be written for a multi-range response in state `it` -/
def todo (hdrOf : CSpec → Bytes) (term : Bytes) (body : Bytes) (it : It) : Bytes :=
  match it.rem with
  | [] => []
  | c :: rest =>
    (if it.debt = c.len then hdrOf c else []) ++ slice body it.out it.debt ++ (partsWire hdrOf body rest ++ term)

/-! ### evaluation of the helpers under the invariant -/

theorem canPack_pos (it : It) (c : CSpec) (rest : List CSpec) (hr : it.rem = c :: rest) (hd : 0 < it.debt) :
    canPackMoreRanges it = .ok (it, true) := by
  unfold canPackMoreRanges
  have h0 : ¬ it.debt = 0 := by omega
  simp [h0, hr]

theorem canPack_next (it : It) (c c' : CSpec) (rest : List CSpec) (hr : it.rem = c :: c' :: rest) (hd : it.debt = 0) (hl : 0 < c'.len) :
    canPackMoreRanges it = .ok ({ it with rem := c' :: rest, debt := c'.len }, true) := by
  unfold canPackMoreRanges
  have h0 : ¬ c'.len = 0 := by omega
  simp [hd, hr, h0]

theorem canPack_last (it : It) (c : CSpec) (hr : it.rem = [c]) (hd : it.debt = 0) :
    canPackMoreRanges it = .ok ({ it with rem := [], debt := 0 }, false) := by
  unfold canPackMoreRanges
  simp [hd, hr]

theorem canPack_nil (it : It) (hr : it.rem = []) (hd : it.debt = 0) :
    canPackMoreRanges it = .ok ({ it with rem := [], debt := 0 }, false) := by
  unfold canPackMoreRanges
  simp [hd, hr]

theorem getNext_pos (it : It) (c : CSpec) (rest : List CSpec) (hr : it.rem = c :: rest) (hd : 0 < it.debt)
    (ho : it.out + it.debt ≤ c.off + c.len) :
    getNextRangeOffset it = .ok (it, c.off + c.len - it.debt) := by
  unfold getNextRangeOffset
  rw [canPack_pos it c rest hr hd]
  simp only [Bool.not_true, Bool.false_eq_true, if_false, hr]
  have h1 : ¬ ((it.out : Int) > (c.off : Int) + c.len - it.debt) := by omega
  simp only [h1, if_false]
  congr 2
  omega

theorem lengthToSend_pos (it : It) (c : CSpec) (rest : List CSpec) (hr : it.rem = c :: rest) (hd : 0 < it.debt) (s size : Nat) :
    lengthToSend it s size = .ok (it, if s < c.off then 0 else min it.debt size) := by
  unfold lengthToSend
  rw [canPack_pos it c rest hr hd]
  have h0 : ¬ it.debt = 0 := by omega
  simp only [Bool.not_true, Bool.false_eq_true, if_false, h0, hr]
  split <;> rfl

/-! ### `packRange` -/

theorem it_out_eta (it : It) (x : Nat) (h : x = it.out) : { it with out := x } = it := by
  subst h; cases it; rfl

/-- a delivery labelled with an offset before the current range (which has not started): nothing is sent, nothing changes -/
theorem packRange_before (hdrOf : CSpec → Bytes) (term : Bytes) (n fuel : Nat) (it : It) (s : Nat) (data : Bytes)
    (c : CSpec) (rest : List CSpec) (hr : it.rem = c :: rest) (hinv : Inv n it)
    (hs : s < c.off) (hd : it.debt = c.len) (hne : data ≠ []) :
    packRange hdrOf term (fuel + 1) it s data = .ok (it, []) := by
  have hI := hinv
  simp only [Inv, hr] at hI
  obtain ⟨hpos, hle, hout, hn, hch⟩ := hI
  have hdne : data.isEmpty = false := by cases data with | nil => exact absurd rfl hne | cons _ _ => rfl
  have hlen : ¬ data.length ≤ 0 := by cases data with | nil => exact absurd rfl hne | cons _ _ => simp
  simp only [packRange, hr, List.isEmpty_cons, hdne, Bool.or_self, Bool.false_eq_true, if_false]
  rw [lengthToSend_pos it c rest hr hpos]
  simp only [hs, if_true, Nat.add_zero, List.drop_zero]
  rw [canPack_pos it c rest hr hpos]
  simp only [Bool.not_true, Bool.false_eq_true, if_false]
  rw [getNext_pos it c rest hr hpos (by omega)]
  have hnext : c.off + c.len - it.debt = it.out := by omega
  simp only [hnext, Nat.lt_irrefl, if_false, Nat.sub_self, hlen]


theorem inv_cons (n : Nat) (it : It) (c : CSpec) (rest : List CSpec) (hr : it.rem = c :: rest) :
    Inv n it ↔ (0 < it.debt ∧ it.debt ≤ c.len ∧ it.out + it.debt = c.off + c.len ∧ c.off + c.len ≤ n ∧ Chain n (c.off + c.len) rest) := by
  simp [Inv, hr]

theorem todo_cons (hdrOf : CSpec → Bytes) (term body : Bytes) (it : It) (c : CSpec) (rest : List CSpec) (hr : it.rem = c :: rest) :
    todo hdrOf term body it = (if it.debt = c.len then hdrOf c else []) ++ slice body it.out it.debt ++ (partsWire hdrOf body rest ++ term) := by
  simp [todo, hr]

/-- a delivery that starts at the next wanted byte: what `packRange` appends is a prefix of what is still to be written,
the state afterwards is again between deliveries, and at least one body byte was consumed -/
theorem packRange_at (hdrOf : CSpec → Bytes) (term body : Bytes) :
    ∀ (fuel : Nat) (it : It) (data : Bytes) (c : CSpec) (rest : List CSpec),
      it.multi = true → it.rem = c :: rest → Inv body.length it →
      data = slice body it.out data.length → it.out + data.length ≤ body.length → data ≠ [] → data.length < fuel →
      ∃ it' em, packRange hdrOf term fuel it it.out data = .ok (it', em) ∧
        em ++ todo hdrOf term body it' = todo hdrOf term body it ∧ Inv body.length it' ∧ it'.multi = true ∧
        remBytes it' < remBytes it := by
  intro fuel
  induction fuel with
  | zero => intro it data c rest _ _ _ _ _ _ hf; omega
  | succ fuel ih =>
    intro it data c rest hm hr hinv hdata hfit hne hf
    obtain ⟨rem0, debt0, out0, multi0⟩ := it
    simp only at hm hr hdata hfit
    subst hm hr
    have hr : ({ rem := c :: rest, debt := debt0, out := out0, multi := true } : It).rem = c :: rest := rfl
    have hI := hinv
    simp only [Inv] at hI
    obtain ⟨hpos, hle, hout, hn, hch⟩ := hI
    have hdne : data.isEmpty = false := by cases data with | nil => exact absurd rfl hne | cons _ _ => rfl
    have hlen : 0 < data.length := by cases data with | nil => exact absurd rfl hne | cons _ _ => simp
    have hoff : ¬ out0 < c.off := by omega
    simp only [packRange, List.isEmpty_cons, hdne, Bool.or_self, Bool.false_eq_true, if_false]
    rw [lengthToSend_pos _ c rest rfl hpos]
    simp only [hoff, if_false]
    have hk : ¬ min debt0 data.length = 0 := by omega
    simp only [hk, if_false]
    -- copyStep
    have h1 : (out0 < c.off + c.len) := by omega
    have h2 : (out0 + data.length > c.off) := by omega
    have h3 : ¬ (min debt0 data.length > debt0) := by omega
    simp only [copyStep, h1, h2, decide_true, Bool.not_true, Bool.false_eq_true, if_false, noteSent, h3, Bool.true_and, beq_iff_eq]
    by_cases hfin : debt0 ≤ data.length
    · -- the current range is completed by this delivery
      have hmin : min debt0 data.length = debt0 := by omega
      simp only [hmin, Nat.sub_self]
      cases rest with
      | nil =>
        rw [canPack_last _ c rfl rfl]
        simp only [Bool.not_false, if_true]
        refine ⟨_, _, rfl, ?_, ?_, rfl, ?_⟩
        · rw [todo_cons hdrOf term body ⟨[c], debt0, out0, true⟩ c [] rfl]
          simp only [todo, partsWire, List.append_nil, List.nil_append]
          rw [hdata, slice_take _ _ _ _ hfin]
        · simp [Inv]
        · simp [remBytes]; omega
      | cons c' rest' =>
        simp only [Chain] at hch
        obtain ⟨hlo, hl', hn', hch'⟩ := hch
        rw [canPack_next _ c c' rest' rfl rfl hl']
        simp only [Bool.not_true, Bool.false_eq_true, if_false]
        rw [getNext_pos _ c' rest' rfl (by simpa using hl') (by simp; omega)]
        simp only [Nat.add_sub_cancel]
        have hnl : ¬ c'.off < out0 + debt0 := by omega
        simp only [hnl, if_false]
        by_cases hshort : (data.drop debt0).length ≤ c'.off - (out0 + debt0)
        · simp only [hshort, if_true]
          refine ⟨_, _, rfl, ?_, ?_, rfl, ?_⟩
          · rw [todo_cons hdrOf term body ⟨c :: c' :: rest', debt0, out0, true⟩ c (c' :: rest') rfl]
            simp only [todo, partsWire, if_true]
            rw [hdata, slice_take _ _ _ _ hfin]
            simp [List.append_assoc]
          · exact (inv_cons _ _ c' rest' rfl).2 ⟨hl', Nat.le_refl _, rfl, hn', hch'⟩
          · simp [remBytes, sumLen]; omega
        · simp only [hshort, if_false]
          -- recursive call on the rest of the delivery, positioned at the next range
          have hdl : (data.drop debt0).length = data.length - debt0 := by simp
          let it5 : It := { rem := c' :: rest', debt := c'.len, out := c'.off, multi := true }
          have hrec := ih it5 ((data.drop debt0).drop (c'.off - (out0 + debt0))) c' rest' rfl rfl
            ((inv_cons _ _ c' rest' rfl).2 ⟨hl', Nat.le_refl _, rfl, hn', hch'⟩)
            (by
              simp only [it5, List.length_drop]
              rw [hdata]
              simp only [slice_drop, slice_length body out0 data.length hfit]
              congr 1 <;> omega)
            (by simp only [it5, List.length_drop]; omega)
            (by
              intro h
              have := congrArg List.length h
              simp at this; omega)
            (by simp only [List.length_drop]; omega)
          obtain ⟨it6, em2, hrun, hwire, hinv6, hm6, hrem6⟩ := hrec
          have hs : out0 + debt0 + (c'.off - (out0 + debt0)) = c'.off := by omega
          simp only [hs]
          simp only [it5] at hrun
          rw [hrun]
          refine ⟨it6, _, rfl, ?_, hinv6, hm6, ?_⟩
          · rw [List.append_assoc, hwire, todo_cons hdrOf term body ⟨c :: c' :: rest', debt0, out0, true⟩ c (c' :: rest') rfl]
            simp only [todo, partsWire, if_true, it5]
            rw [hdata, slice_take _ _ _ _ hfin]
            simp [List.append_assoc]
          · simp only [remBytes, it5, sumLen] at hrem6 ⊢; omega
    · -- the delivery ends inside the current range
      have hmin : min debt0 data.length = data.length := by omega
      simp only [hmin]
      have hpos2 : 0 < debt0 - data.length := by omega
      rw [canPack_pos _ c rest rfl hpos2]
      simp only [Bool.not_true, Bool.false_eq_true, if_false]
      rw [getNext_pos _ c rest rfl hpos2 (by simp; omega)]
      have hnx : c.off + c.len - (debt0 - data.length) = out0 + data.length := by omega
      simp only [hnx, Nat.lt_irrefl, if_false, Nat.sub_self, List.length_drop, Nat.le_refl, if_true]
      refine ⟨_, _, rfl, ?_, ?_, rfl, ?_⟩
      · rw [todo_cons hdrOf term body ⟨c :: rest, debt0, out0, true⟩ c rest rfl]
        simp only [todo]
        have hnh : ¬ debt0 - data.length = c.len := by omega
        simp only [hnh, if_false, List.nil_append, List.take_length]
        have hs : slice body out0 debt0 = data ++ slice body (out0 + data.length) (debt0 - data.length) := by
          have hsplit : debt0 = data.length + (debt0 - data.length) := by omega
          conv => lhs; rw [hsplit, slice_append]
          rw [← hdata]
        rw [hs]
        simp [List.append_assoc]
      · exact (inv_cons _ _ c rest rfl).2 ⟨hpos2, by simp; omega, by simp; omega, hn, hch⟩
      · simp [remBytes]; omega

/-! ### the pull loop -/

theorem slice_min (body : Bytes) (off k : Nat) : slice body off k = slice body off (min k (body.length - off)) := by
  simp only [slice]
  rw [List.take_eq_take_iff]
  simp [List.length_drop]

theorem reqBufSz_pos : 0 < RangePackConsts.reqBufSz := by decide

/-- the store adversary returns a non-empty piece of the object at the requested offset -/
theorem storeRead_spec (body : Bytes) (sched : Nat → Nat) (i off : Nat) (h : off < body.length) :
    storeRead body sched i off = slice body off (storeRead body sched i off).length ∧
    off + (storeRead body sched i off).length ≤ body.length ∧ storeRead body sched i off ≠ [] := by
  have hp := reqBufSz_pos
  have hlen : (storeRead body sched i off).length = min (min (max 1 (sched i)) RangePackConsts.reqBufSz) (body.length - off) := by
    simp [storeRead, slice, List.length_take, List.length_drop]
  refine ⟨?_, ?_, ?_⟩
  · rw [hlen]; exact slice_min body off _
  · rw [hlen]; omega
  · intro h0
    have := congrArg List.length h0
    rw [hlen] at this
    simp at this
    omega

theorem sumLen_le_of_chain (n : Nat) : ∀ (specs : List CSpec) (lo : Nat), Chain n lo specs → specs ≠ [] → lo + sumLen specs ≤ n := by
  intro specs
  induction specs with
  | nil => intro lo _ h; exact absurd rfl h
  | cons c rest ih =>
    intro lo hch _
    simp only [Chain] at hch
    obtain ⟨h1, h2, h3, h4⟩ := hch
    cases rest with
    | nil => simp [sumLen]; omega
    | cons c' rest' =>
      have := ih (c.off + c.len) h4 (by simp)
      simp only [sumLen] at this ⊢
      omega

/-- pulls of a multi-range response: from any between-deliveries state, the rest of the body is written, whatever the store
delivers, and the stream ends -/
theorem pump_multi (hdrOf : CSpec → Bytes) (term body : Bytes) (sched : Nat → Nat) :
    ∀ (fuel i : Nat) (it : It), it.multi = true → Inv body.length it → remBytes it < fuel →
      pump hdrOf term body sched fuel i it = .ok (todo hdrOf term body it) := by
  intro fuel
  induction fuel with
  | zero => intro i it _ _ h; omega
  | succ fuel ih =>
    intro i it hm hinv hf
    obtain ⟨rem0, debt0, out0, multi0⟩ := it
    simp only at hm
    subst hm
    cases rem0 with
    | nil =>
      simp only [Inv] at hinv
      subst hinv
      simp only [pump, todo]
      split
      · rfl
      · rw [canPack_nil _ rfl rfl]
        simp
    | cons c rest =>
      have hI := hinv
      simp only [Inv] at hI
      obtain ⟨hpos, hle, hout, hn, hch⟩ := hI
      have hlt : ¬ out0 ≥ body.length := by omega
      simp only [pump, hlt, if_false]
      rw [canPack_pos _ c rest rfl hpos]
      simp only [Bool.not_true, Bool.false_eq_true, if_false]
      rw [getNext_pos _ c rest rfl hpos (by simp; omega)]
      have hoff : c.off + c.len - debt0 = out0 := by omega
      simp only [hoff]
      obtain ⟨hd1, hd2, hd3⟩ := storeRead_spec body sched i out0 (by omega)
      have hdne : (storeRead body sched i out0).isEmpty = false := by
        cases h : storeRead body sched i out0 with
        | nil => exact absurd h hd3
        | cons _ _ => rfl
      simp only [hdne, Bool.false_eq_true, if_false, deliver, if_true]
      obtain ⟨it', em, hrun, hwire, hinv', hm', hrem'⟩ :=
        packRange_at hdrOf term body ((storeRead body sched i out0).length + 1) ⟨c :: rest, debt0, out0, true⟩
          (storeRead body sched i out0) c rest rfl rfl hinv hd1 hd2 hd3 (Nat.lt_succ_self _)
      simp only at hrun
      rw [hrun]
      simp only
      rw [ih (i + 1) it' hm' hinv' (by omega)]
      simp only
      rw [hwire]

/-! ### the whole body of a 206 -/

theorem take_of_slice (data body : Bytes) (off k : Nat) (h : data = slice body off data.length) (hk : k ≤ data.length) :
    data.take k = slice body off k := by
  conv => lhs; rw [h]
  exact slice_take _ _ _ _ hk

/-- pulls of a single-range response -/
theorem pump_single (hdrOf : CSpec → Bytes) (term body : Bytes) (sched : Nat → Nat) (c : CSpec) (hn : c.off + c.len ≤ body.length) :
    ∀ (fuel i debt out : Nat), out + debt = c.off + c.len → debt ≤ c.len → debt < fuel →
      pump hdrOf term body sched fuel i ⟨[c], debt, out, false⟩ = .ok (slice body out debt) := by
  intro fuel
  induction fuel with
  | zero => intro i debt out _ _ h; omega
  | succ fuel ih =>
    intro i debt out hout hle hf
    by_cases hd : debt = 0
    · subst hd
      simp only [pump, slice_zero]
      split
      · rfl
      · rw [canPack_last _ c rfl rfl]
        simp
    · have hpos : 0 < debt := by omega
      have hlt : ¬ out ≥ body.length := by omega
      simp only [pump, hlt, if_false]
      rw [canPack_pos _ c [] rfl hpos]
      simp only [Bool.not_true, Bool.false_eq_true, if_false]
      rw [getNext_pos _ c [] rfl hpos (by simp; omega)]
      have hoff : c.off + c.len - debt = out := by omega
      simp only [hoff]
      obtain ⟨hd1, hd2, hd3⟩ := storeRead_spec body sched i out (by omega)
      have hdne : (storeRead body sched i out).isEmpty = false := by
        cases h : storeRead body sched i out with
        | nil => exact absurd h hd3
        | cons _ _ => rfl
      have hlen : 0 < (storeRead body sched i out).length := by
        cases h : storeRead body sched i out with
        | nil => exact absurd h hd3
        | cons _ _ => simp
      simp only [hdne, Bool.false_eq_true, if_false, deliver]
      rw [lengthToSend_pos _ c [] rfl hpos]
      have hno : ¬ out < c.off := by omega
      simp only [hno, if_false, noteSent]
      have hk : ¬ min debt (storeRead body sched i out).length > debt := by omega
      simp only [hk, if_false]
      rw [ih (i + 1) _ _ (by omega) (by omega) (by omega)]
      simp only
      congr 1
      have hs : debt = min debt (storeRead body sched i out).length + (debt - min debt (storeRead body sched i out).length) := by omega
      conv => rhs; rw [hs, slice_append]
      congr 1
      exact take_of_slice _ body out _ hd1 (Nat.min_le_right _ _)

theorem firstBuffer_zero (body : Bytes) (m : Nat) : firstBuffer body m = slice body 0 (min m body.length) := by
  simp only [firstBuffer, slice, List.drop_zero]
  rw [List.take_eq_take_iff]
  simp

theorem inv_prep (n : Nat) (c : CSpec) (rest : List CSpec) (hch : Chain n 0 (c :: rest)) : Inv n (prep (c :: rest)) := by
  simp only [Chain] at hch
  obtain ⟨_, h2, h3, h4⟩ := hch
  exact (inv_cons _ _ c rest rfl).2 ⟨h2, Nat.le_refl _, rfl, h3, h4⟩

/-- **The body of a 206 is exactly the requested slices.** For canonical specs that are non-empty, inside the object and in
strong order (what `canonize` + `!isComplex` guarantee), for every first delivery (`m` body bytes with the headers) and every store delivery
schedule, the iterator machine runs without assertion failure, terminates, and writes exactly `expectedWire`. -/
theorem runHonoured_exact (hdrOf : CSpec → Bytes) (term body : Bytes) (specs : List CSpec) (m : Nat) (sched : Nat → Nat)
    (hne : specs ≠ []) (hch : Chain body.length 0 specs) :
    runHonoured hdrOf term body specs m sched = .ok (expectedWire hdrOf term body specs) := by
  cases specs with
  | nil => exact absurd rfl hne
  | cons c rest =>
    have hsum := sumLen_le_of_chain body.length (c :: rest) 0 hch (by simp)
    have hinv := inv_prep body.length c rest hch
    have hch' := hch
    simp only [Chain] at hch'
    obtain ⟨_, hlen, hn, hrest⟩ := hch'
    -- the first delivery
    have hfirst : ∃ it' em,
        (if (firstBuffer body m).isEmpty then Except.ok (prep (c :: rest), ([] : Bytes)) else deliver hdrOf term (prep (c :: rest)) 0 (firstBuffer body m)) = .ok (it', em) ∧
        ((rest ≠ [] ∧ it'.multi = true ∧ Inv body.length it' ∧ remBytes it' ≤ remBytes (prep (c :: rest)) ∧
            em ++ todo hdrOf term body it' = todo hdrOf term body (prep (c :: rest))) ∨
         (rest = [] ∧ ∃ d o, it' = ⟨[c], d, o, false⟩ ∧ o + d = c.off + c.len ∧ d ≤ c.len ∧ em ++ slice body o d = slice body c.off c.len)) := by
      by_cases hemp : (firstBuffer body m).isEmpty = true
      · simp only [hemp, if_true]
        refine ⟨_, _, rfl, ?_⟩
        cases rest with
        | nil => exact Or.inr ⟨rfl, c.len, c.off, rfl, rfl, Nat.le_refl _, rfl⟩
        | cons c' rest' => exact Or.inl ⟨by simp, by simp [prep], hinv, Nat.le_refl _, rfl⟩
      · simp only [hemp, Bool.false_eq_true, if_false]
        have hfne : firstBuffer body m ≠ [] := by
          intro h; rw [h] at hemp; simp at hemp
        by_cases hoff : 0 < c.off
        · -- labelled before the first range: nothing is used
          cases rest with
          | nil =>
            have hrun : deliver hdrOf term (prep [c]) 0 (firstBuffer body m) = .ok (⟨[c], c.len, c.off, false⟩, []) := by
              simp only [deliver, prep, List.length_singleton, Nat.lt_irrefl, decide_false, Bool.false_eq_true, if_false]
              rw [lengthToSend_pos _ c [] rfl hlen]
              simp only [hoff, if_true, noteSent, Nat.not_lt_zero, if_false, Nat.add_zero, Nat.sub_zero, List.take_zero]
            exact ⟨_, _, hrun, Or.inr ⟨rfl, c.len, c.off, rfl, rfl, Nat.le_refl _, rfl⟩⟩
          | cons c' rest' =>
            have hmul : (prep (c :: c' :: rest')).multi = true := by simp [prep]
            simp only [deliver, hmul, if_true]
            rw [packRange_before hdrOf term body.length _ (prep (c :: c' :: rest')) 0 _ c (c' :: rest') rfl hinv hoff rfl hfne]
            exact ⟨_, _, rfl, Or.inl ⟨by simp, hmul, hinv, Nat.le_refl _, rfl⟩⟩
        · -- the first range starts at 0 and the buffer is the beginning of the object
          have hc0 : c.off = 0 := by omega
          have hfb := firstBuffer_zero body m
          have hfl : (firstBuffer body m).length = min m body.length := by
            rw [hfb, slice_length]; omega
          have hdat : firstBuffer body m = slice body 0 (firstBuffer body m).length := by rw [hfl]; exact hfb
          cases rest with
          | nil =>
            have hrun : deliver hdrOf term (prep [c]) 0 (firstBuffer body m) =
                .ok (⟨[c], c.len - min c.len (firstBuffer body m).length, c.off + min c.len (firstBuffer body m).length, false⟩,
                     (firstBuffer body m).take (min c.len (firstBuffer body m).length)) := by
              simp only [deliver, prep, List.length_singleton, Nat.lt_irrefl, decide_false, Bool.false_eq_true, if_false]
              rw [lengthToSend_pos _ c [] rfl hlen]
              have hno : ¬ 0 < c.off := hoff
              simp only [hno, if_false, noteSent]
              have hk : ¬ min c.len (firstBuffer body m).length > c.len := by omega
              simp only [hk, if_false]
            refine ⟨_, _, hrun, Or.inr ⟨rfl, _, _, rfl, by omega, by omega, ?_⟩⟩
            have hs : c.len = min c.len (firstBuffer body m).length + (c.len - min c.len (firstBuffer body m).length) := by omega
            conv => rhs; rw [hs, slice_append]
            congr 1
            rw [hc0]
            exact take_of_slice _ body 0 _ hdat (Nat.min_le_right _ _)
          | cons c' rest' =>
            have hmul : (prep (c :: c' :: rest')).multi = true := by simp [prep]
            simp only [deliver, hmul, if_true]
            have hout : (prep (c :: c' :: rest')).out = 0 := by simp [prep, hc0]
            obtain ⟨it', em, hrun, hwire, hinv', hm', hrem'⟩ :=
              packRange_at hdrOf term body ((firstBuffer body m).length + 1) (prep (c :: c' :: rest'))
                (firstBuffer body m) c (c' :: rest') hmul rfl hinv (by rw [hout]; exact hdat) (by rw [hout, hfl]; omega) hfne (Nat.lt_succ_self _)
            rw [hout] at hrun
            exact ⟨it', em, hrun, Or.inl ⟨by simp, hm', hinv', Nat.le_of_lt hrem', hwire⟩⟩
    obtain ⟨it', em, hrun, hcases⟩ := hfirst
    simp only [runHonoured]
    rw [hrun]
    simp only
    rcases hcases with ⟨hrne, hm', hinv', hrem', hwire⟩ | ⟨hr, d, o, hit, hod, hdl, hwire⟩
    · rw [pump_multi hdrOf term body sched _ 0 it' hm' hinv' (by
        have : remBytes (prep (c :: rest)) = sumLen (c :: rest) := by simp [remBytes, prep, sumLen]
        omega)]
      simp only
      rw [hwire]
      cases rest with
      | nil => exact absurd rfl hrne
      | cons c' rest' => simp [todo, prep, expectedWire, partsWire, List.append_assoc]
    · subst hr hit
      rw [pump_single hdrOf term body sched c hn _ 0 d o hod hdl (by omega)]
      simp only [expectedWire]
      rw [hwire]

/-! ### the body of a 200 after the ranges were dropped -/

/-- pulls of a response without ranges: everything from `out` to the end of the object -/
theorem pumpPlain_spec (body : Bytes) (sched : Nat → Nat) :
    ∀ (fuel i out : Nat), body.length - out < fuel → pumpPlain body sched fuel i out = .ok (body.drop out) := by
  intro fuel
  induction fuel with
  | zero => intro i out h; omega
  | succ fuel ih =>
    intro i out hf
    simp only [pumpPlain]
    by_cases hdone : out ≥ body.length
    · simp only [hdone, if_true]
      rw [List.drop_eq_nil_of_le hdone]
    · simp only [hdone, if_false]
      obtain ⟨hd1, hd2, hd3⟩ := storeRead_spec body sched i out (by omega)
      have hdne : (storeRead body sched i out).isEmpty = false := by
        cases h : storeRead body sched i out with
        | nil => exact absurd h hd3
        | cons _ _ => rfl
      have hlen : 0 < (storeRead body sched i out).length := by
        cases h : storeRead body sched i out with
        | nil => exact absurd h hd3
        | cons _ _ => simp
      simp only [hdne, Bool.false_eq_true, if_false]
      rw [ih (i + 1) _ (by omega)]
      simp only
      congr 1
      have h2 : body.drop (out + (storeRead body sched i out).length) = (body.drop out).drop (storeRead body sched i out).length := by
        simp [List.drop_drop]
      have h3 : storeRead body sched i out = (body.drop out).take (storeRead body sched i out).length := hd1
      rw [h2]
      conv => lhs; arg 1; rw [h3]
      exact List.take_append_drop _ _

/-- the body of a 200 sent after the ranges were dropped, for every first delivery and delivery schedule: the complete object -/
theorem runIgnored_full (body : Bytes) (m : Nat) (sched : Nat → Nat) : runIgnored body m sched = .ok body := by
  simp only [runIgnored]
  rw [pumpPlain_spec body sched _ 0 _ (by omega)]
  simp only [firstBuffer, List.length_take]
  have h2 : body.drop (min m body.length) = body.drop m := by
    by_cases hm : m ≤ body.length
    · rw [Nat.min_eq_left hm]
    · rw [Nat.min_eq_right (by omega), List.drop_eq_nil_of_le (Nat.le_refl _), List.drop_eq_nil_of_le (by omega)]
  rw [h2, List.take_append_drop]

/-- PRE-FIX VARIANT: what was sent after the ranges were dropped, before commit f9db419 -/
theorem runIgnoredPreFix_eq (body : Bytes) (L m : Nat) (sched : Nat → Nat) :
    runIgnoredPreFix body L m sched = .ok (firstBufferPreFix body L m ++ body.drop (firstBufferPreFix body L m).length) := by
  simp only [runIgnoredPreFix]
  rw [pumpPlain_spec body sched _ 0 _ (by omega)]

theorem firstBufferPreFix_prefix (body : Bytes) (L m : Nat) (h : L = 0 ∨ m ≤ L) :
    firstBufferPreFix body L m ++ body.drop (firstBufferPreFix body L m).length = body := by
  rcases h with h | h
  · subst h
    simp only [firstBufferPreFix, Nat.lt_irrefl, if_false]
    have : (body.take m).length = min m body.length := by simp
    rw [this]
    have h2 : body.drop (min m body.length) = body.drop m := by
      by_cases hm : m ≤ body.length
      · rw [Nat.min_eq_left hm]
      · rw [Nat.min_eq_right (by omega), List.drop_eq_nil_of_le (Nat.le_refl _), List.drop_eq_nil_of_le (by omega)]
    rw [h2]
    exact List.take_append_drop _ _
  · by_cases hL : L > 0
    · simp only [firstBufferPreFix, hL, if_true]
      by_cases hlt : m < L
      · simp [hlt]
      · have hme : m = L := by omega
        subst hme
        simp only [Nat.lt_irrefl, if_false]
        have : (body.take m).drop m = [] := by
          apply List.drop_eq_nil_of_le
          simp
          omega
        rw [this]
        simp
    · have : L = 0 := by omega
      subst this
      have : m = 0 := by omega
      subst this
      simp [firstBufferPreFix]

end SquidModel.RangePack
