/-
C15 model, part 4: the whole exchange of one scenario of the end-to-end rig (props/C15.py), assembled from the pieces.

* request side (`clientInterpretRequestHeaders`, src/client_side_request.cc): `request->range = getRange()`
  (`readBuffer.offset = range->lowestOffset(0)` no longer influences the reply body since fix f9db419)
* server side (`HttpStateData::httpBuildRequestHeader`/`decideIfWeDoRanges`, src/http.cc): Range/If-Range are passed to the
  origin only when Squid does not do the ranges itself; a multi-range request that is passed on is turned into a plain one
* reply side: `buildRangeHeader` decision, then the 206 (Content-Range or multipart Content-Type, replaced Content-Length,
  packed body) or the untouched reply with the stored object as body
* the rig's origin (trusted stub, modelled here): serves a single satisfiable range with 206, an unsatisfiable one with 416,
  everything else with the complete object
-/
import SquidModel.RangePack.Stream

namespace SquidModel.RangePack

inductive Mode | miss | mem | disk | fwd
  deriving DecidableEq, Repr

structure Scenario where
  mode : Mode
  isHead : Bool
  n : Nat
  seed : Nat
  ctype : Option Bytes
  lenKnown : Bool               -- the origin frames the object with Content-Length (otherwise chunked)
  range : Option Bytes          -- Range header value
  ifRange : Option ETag
  deriving Repr

def lcgBytes : Nat → UInt32 → Bytes → Bytes
  | 0, _, acc => acc.reverse
  | k + 1, x, acc => let x' := x * 1664525 + 1013904223; lcgBytes k x' ((x' >>> 24).toUInt8 :: acc)

/-- the rig's object: the high bytes of an LCG stream -/
def objBody (n seed : Nat) : Bytes := lcgBytes n (UInt32.ofNat seed * 2654435761 + 12345) []

def objTag : ETag := ⟨false, [118, 49]⟩

/-- what the client gets, in the terms the rig observes -/
structure Reply where
  status : Nat
  contRange : Option Bytes      -- Content-Range value
  contentLength : Option Nat    -- Content-Length value
  chunked : Bool
  closeDelimited : Bool         -- neither Content-Length nor chunked: the body ends with the connection
  ctype : Option Bytes          -- Content-Type value
  multi : Bool                  -- Content-Type is multipart/byteranges with Squid's boundary
  body : Bytes                  -- de-chunked message body
  parts : List CSpec            -- parts of a 206 (one for a single range)
  originSaw : Option (Option Bytes)   -- none: no request reached the origin; some r: one request, with that Range header
  deriving Repr

def rangeOffsetLimit : Mode → Int
  | .fwd => 0        -- default: never fetch more than the client requested
  | _ => -1          -- range_offset_limit none

def isHit : Mode → Bool
  | .mem => true | .disk => true | _ => false

/-- `clientBuildReplyHeader`: an object of unknown length is sent chunked to an HTTP/1.1 client, unless the request is (still) a
multi-range request (`maySendChunkedReply`): then the connection is closed after the body -/
def plainReply (sc : Scenario) (body : Bytes) (saw : Option (Option Bytes)) (multiReq : Bool := false) : Reply :=
  { status := 200, contRange := none
    contentLength := if sc.lenKnown then some body.length else none
    chunked := !sc.lenKnown && !sc.isHead && !multiReq
    closeDelimited := !sc.lenKnown && !sc.isHead && multiReq
    ctype := sc.ctype, multi := false
    body := if sc.isHead then [] else body
    parts := [], originSaw := saw }

/-- a reply built by Squid from a stored 200 (modes miss, mem, disk, and fwd when the origin answered 200) -/
def serveStored (sc : Scenario) (key : Bytes) (m : Nat) (sched : Nat → Nat) (saw : Option (Option Bytes)) : Except String Reply :=
  let body := objBody sc.n sc.seed
  match sc.range.bind parseRange with
  | none => .ok (plainReply sc body saw)             -- no request->range
  | some raw =>
    if sc.mode == .fwd && raw.length > 1 then             -- http.cc: "want to request the whole object"
      .ok (plainReply sc body saw)
    else
      let clen : Int := if sc.lenKnown then body.length else -1
      let ctx : Ctx := { isHit := isHit sc.mode, ifRange := sc.ifRange, repTag := some objTag, roffLimit := rangeOffsetLimit sc.mode,
                         status := 200, hasContentRange := false, contentLength := clen, baseLength := clen }
      let m' := if sc.isHead then 0 else m
      match buildRangeHeader ctx raw with
      | .error _ =>
        match runIgnored body m' sched with                 -- the untouched stored reply, body as the stream delivers it
        | .error e => .error e
        | .ok wire => .ok { plainReply sc body saw (decide (raw.length > 1)) with body := if sc.isHead then [] else wire }
      | .ok cs =>
        let specs := cs.map RSpec.toC
        let bnd := boundary key
        let hdrOf := partHdr bnd sc.ctype body.length
        let term := termBound bnd
        let multi := decide (specs.length > 1)
        match (if sc.isHead then Except.ok [] else runHonoured hdrOf term body specs m' sched) with
        | .error e => .error e
        | .ok wire =>
          .ok { status := 206
                contRange := match specs with | [c] => some (contRange c body.length) | _ => none
                contentLength := some (actualCLen bnd sc.ctype body.length specs)
                chunked := false, closeDelimited := false
                ctype := if multi then some (multipartCType bnd) else sc.ctype
                multi := multi
                body := wire, parts := specs, originSaw := saw }

/-- the rig's origin for a request that carries a Range header (fwd mode) -/
def originAnswer (sc : Scenario) : Except String Reply :=
  let body := objBody sc.n sc.seed
  let saw := some sc.range
  let honour := match sc.ifRange with | none => true | some t => t == objTag
  match (if honour then sc.range.bind parseRange else none) with
  | some [s] =>
    match rfcPart sc.n s with
    | some c =>
      .ok { status := 206, contRange := some (contRange c sc.n), contentLength := some c.len, chunked := false, closeDelimited := false, ctype := sc.ctype, multi := false
            body := slice body c.off c.len, parts := [c], originSaw := saw }
    | none =>
      .ok { status := 416, contRange := some ([98, 121, 116, 101, 115, 32, 42, 47] ++ dec sc.n), contentLength := some 14, chunked := false, closeDelimited := false, ctype := none,
            multi := false, body := [117, 110, 115, 97, 116, 105, 115, 102, 105, 97, 98, 108, 101, 10], parts := [], originSaw := saw }
  | _ => serveStored sc [] 0 (fun _ => 0) saw

/-- one scenario -/
def respond (sc : Scenario) (key : Bytes) (m : Nat) (sched : Nat → Nat) : Except String Reply :=
  match sc.mode with
  | .fwd => originAnswer sc               -- Squid relays a 206/416 (`buildRangeHeader`: "too complex response"/"wrong status code")
  | .miss =>
    -- an unparsable Range header is passed to the origin (which ignores it); a parsed one is served by Squid
    serveStored sc key 0 sched (some (match sc.range.bind parseRange with | none => sc.range | some _ => none))
  | .mem => serveStored sc key 0 sched none
  | .disk => serveStored sc key m sched none

end SquidModel.RangePack
