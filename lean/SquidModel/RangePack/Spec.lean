/-
C15 model, part 1: range specs as the response side sees them.

* `HttpHdrRangeSpec` (src/HttpHeaderRange.h): `offset`, `length`, `UnknownPosition = -1`, `known_spec(s) = s > -1`.
* `HttpHdrRangeSpec::parseInit` / `HttpHdrRange::parseInit` (src/HttpHdrRange.cc) on the *clean* grammar only
  (`bytes=` then items `first-last | first- | -suffix` of at most 18 digits, separated by commas with optional SP/HTAB);
  anything else is `none` here. The laxness of the real parser (strtoll) is C28's subject; the C15 generators stay inside
  the region where this parser and the real one agree.
* `HttpHdrRangeSpec::canonize(clen)` through `Range<int64_t>::intersection/size` (src/base/Range.h),
  `HttpHdrRange::getCanonizedSpecs`, `merge` (the identity: `mergeWith` returns false unless MERGING_BREAKS_NOTHING),
  `HttpHdrRange::canonize`, `isComplex`, `firstOffset`, `lowestOffset`, `offsetLimitExceeded`.
* `Http::Stream::buildRangeHeader` guard chain (src/http/Stream.cc) with `clientIfRangeMatch` for entity tags.
-/
import SquidModel.Base.Bytes
import SquidModel.Gen.RangePackConsts

deriving instance DecidableEq for Except

namespace SquidModel.RangePack

/-- `HttpHdrRangeSpec`; `-1` = `UnknownPosition` -/
structure RSpec where
  offset : Int
  length : Int
  deriving DecidableEq, Repr

/-- `known_spec(s)` -/
def known (x : Int) : Bool := decide (x > -1)

/-- `Range<int64_t>::size()` of `[s, e)` -/
def rsize (s e : Int) : Int := if e > s then e - s else 0

/-! ### parsing (clean grammar) -/

def isDigit (b : UInt8) : Bool := 48 ≤ b && b ≤ 57

def digitsVal : Bytes → Nat → Nat
  | [], acc => acc
  | d :: ds, acc => digitsVal ds (acc * 10 + (d.toNat - 48))

/-- a non-empty run of at most 18 digits -/
def parseNum (b : Bytes) : Option Int :=
  if b.isEmpty || b.length > 18 || !b.all isDigit then none else some (digitsVal b 0 : Nat)

/-- `HttpHdrRangeSpec::parseInit(field, flen)` -/
def parseSpec (item : Bytes) : Option RSpec :=
  if item.length < 2 then none
  else match item with
    | 45 :: rest =>                                   -- suffix-byte-range-spec
      match parseNum rest with
      | some n => some ⟨-1, n⟩
      | none => none
    | _ =>
      let first := item.takeWhile (· != 45)
      let after := item.dropWhile (· != 45)
      match after with
      | [] => none                                    -- must have a '-' somewhere in this field
      | _ :: last =>
        match parseNum first with
        | none => none
        | some off =>
          if last.isEmpty then some ⟨off, -1⟩         -- no last-pos: "trailer"
          else match parseNum last with
            | none => none
            | some lp =>
              if lp < off then none                   -- last-byte-pos < first-byte-pos
              else some ⟨off, rsize off (lp + 1)⟩

def isWsp (b : UInt8) : Bool := b == 32 || b == 9

def trimWsp (b : Bytes) : Bytes := ((b.dropWhile isWsp).reverse.dropWhile isWsp).reverse

def splitComma : Bytes → Bytes → List Bytes
  | [], cur => [cur.reverse]
  | 44 :: rest, cur => cur.reverse :: splitComma rest []
  | c :: rest, cur => splitComma rest (c :: cur)

def lower (b : UInt8) : UInt8 := if 65 ≤ b && b ≤ 90 then b + 32 else b

/-- every item must parse (one invalid byte-range-spec makes the whole header invalid) -/
def parseAll : List Bytes → Option (List RSpec)
  | [] => some []
  | i :: rest =>
    match parseSpec i, parseAll rest with
    | some s, some r => some (s :: r)
    | _, _ => none

/-- `HttpHdrRange::parseInit`: `none` when the header is not "bytes=", any spec is invalid, or no spec is present -/
def parseRange (v : Bytes) : Option (List RSpec) :=
  if (v.take 6).map lower != [98, 121, 116, 101, 115, 61] then none
  else
    let items := ((splitComma (v.drop 6) []).map trimWsp).filter (fun i => !i.isEmpty)
    match parseAll items with
    | none => none
    | some [] => none
    | some specs => some specs

/-! ### canonisation -/

/-- `HttpHdrRangeSpec::canonize(clen)`: the canonical spec and "still valid" -/
def RSpec.canonize (s : RSpec) (clen : Int) : RSpec × Bool :=
  let s1 : RSpec :=
    if !known s.offset then                                   -- suffix
      ⟨max 0 (clen - s.length), s.length⟩                     -- object.intersection(HttpRange(clen - length, clen)).start
    else if !known s.length then                              -- trailer
      ⟨s.offset, rsize (max 0 s.offset) (min clen clen)⟩
    else s
  let len := rsize (max 0 s1.offset) (min clen (s1.offset + s1.length))
  (⟨s1.offset, len⟩, decide (len > 0))

/-- `HttpHdrRange::getCanonizedSpecs` followed by `merge` (the identity while `mergeWith` is compiled out) -/
def canonize (specs : List RSpec) (clen : Int) : List RSpec :=
  specs.filterMap fun s => let r := s.canonize clen; if r.2 then some r.1 else none

def isComplexAux : Int → List RSpec → Bool
  | _, [] => false
  | off, s :: rest => if s.offset < off then true else isComplexAux (s.offset + s.length) rest

/-- `HttpHdrRange::isComplex` (on canonised specs) -/
def isComplex (specs : List RSpec) : Bool := isComplexAux 0 specs

/-- `HttpHdrRange::firstOffset` -/
def firstOffset (specs : List RSpec) : Int :=
  specs.foldl (fun off s => if s.offset < off || !known off then s.offset else off) (-1)

def lowestOffsetAux (size : Int) : Int → List RSpec → Int
  | off, [] => if known off then off else 0
  | off, s :: rest =>
    if !known s.offset then
      if s.length > size || !known s.length then 0            -- Unknown. Assume start of file
      else
        let cur := size - s.length
        lowestOffsetAux size (if cur < off || !known off then cur else off) rest
    else lowestOffsetAux size (if s.offset < off || !known off then s.offset else off) rest

/-- `HttpHdrRange::lowestOffset(size)` -/
def lowestOffset (specs : List RSpec) (size : Int) : Int := lowestOffsetAux size (-1) specs

/-- `HttpHdrRange::offsetLimitExceeded(limit)` -/
def offsetLimitExceeded (specs : List RSpec) (limit : Int) : Bool :=
  if limit == 0 then true
  else if limit == -1 then false
  else if firstOffset specs == -1 then true
  else if limit ≥ firstOffset specs then false
  else true

/-! ### buildRangeHeader -/

/-- entity tag: weak flag and opaque text -/
structure ETag where
  weak : Bool
  str : Bytes
  deriving DecidableEq, Repr

/-- `clientIfRangeMatch` for an If-Range that parsed as an entity tag -/
def ifRangeMatch (spec : ETag) (repTag : Option ETag) : Bool :=
  match repTag with
  | none => false                                             -- entity has no etag to compare with
  | some t => if spec.weak || t.weak then false else t.str == spec.str

/-- what `buildRangeHeader` looks at -/
structure Ctx where
  isHit : Bool                -- http->loggingTags().isTcpHit()
  ifRange : Option ETag       -- request If-Range (entity-tag form)
  repTag : Option ETag        -- reply ETag
  roffLimit : Int             -- request->getRangeOffsetLimit()
  status : Nat                -- rep->sline.status()
  hasContentRange : Bool      -- hdr->has(CONTENT_RANGE)
  contentLength : Int         -- rep->content_length, -1 = unknown
  baseLength : Int            -- storeEntry()->mem().baseReply().content_length
  deriving Repr

inductive RangeErr
  | wrongStatus | tooComplexResponse | meaningless | unknownLength | inconsistentLength
  | ifRangeFailed | canonFailed | tooComplexRange | outsideLimit
  deriving DecidableEq, Repr

/-- `Http::Stream::buildRangeHeader`: either `range_err` (the range is ignored) or the canonical specs to serve -/
def buildRangeHeader (ctx : Ctx) (specs : List RSpec) : Except RangeErr (List RSpec) :=
  if ctx.status != 200 && ctx.status != 206 then .error .wrongStatus
  else if ctx.status == 206 then .error .tooComplexResponse
  else if ctx.hasContentRange then .error .meaningless
  else if ctx.contentLength < 0 then .error .unknownLength
  else if ctx.contentLength != ctx.baseLength then .error .inconsistentLength
  else if ctx.isHit && ctx.ifRange.isSome && !(match ctx.ifRange with | some t => ifRangeMatch t ctx.repTag | none => true) then .error .ifRangeFailed
  else
    let cs := canonize specs ctx.contentLength
    if cs.isEmpty then .error .canonFailed
    else if isComplex cs then .error .tooComplexRange
    else if !ctx.isHit && offsetLimitExceeded cs ctx.roffLimit then .error .outsideLimit
    else .ok cs

/-- `HttpStateData::decideIfWeDoRanges` (src/http.cc) for a cachable request without connection auth -/
def decideIfWeDoRanges (range : Option (List RSpec)) (roffLimit : Int) : Bool :=
  match range with
  | none => false
  | some specs => !offsetLimitExceeded specs roffLimit

end SquidModel.RangePack
