/-
C15 model, part 2: what is written around the body bytes.

* `httpHdrRangeRespSpecPackInto` / `httpHdrContRangePackInto` (src/HttpHdrContRange.cc): `bytes first-last/length`
* `clientPackRangeHdr`, `clientPackTermBound`, `ClientHttpRequest::mRangeCLen`, `rangeBoundaryStr` (src/client_side.cc)
* the multipart Content-Type and the replaced Content-Length of `Http::Stream::buildRangeHeader` (src/http/Stream.cc)
* `ClientHttpRequest::prepPartialResponseGeneration` return value (src/client_side_request.cc)
The literal pieces come from `Gen.RangePackConsts` (regenerated from the sources).
-/
import SquidModel.RangePack.Spec

namespace SquidModel.RangePack
open SquidModel.Gen

/-- canonical spec with natural-number fields (after `canonize` both are known and non-negative) -/
structure CSpec where
  off : Nat
  len : Nat
  deriving DecidableEq, Repr

def RSpec.toC (s : RSpec) : CSpec := ⟨s.offset.toNat, s.length.toNat⟩

/-- RFC 9110 14.1.2: the satisfiable part of one byte-range-spec over `n` bytes (independent of the canonisation code) -/
def rfcPart (n : Nat) (s : RSpec) : Option CSpec :=
  if s.offset < 0 then                                   -- suffix: the last `length` bytes
    if s.length ≤ 0 || n = 0 then none
    else some ⟨n - min n s.length.toNat, min n s.length.toNat⟩
  else if s.offset.toNat ≥ n then none
  else if s.length < 0 then some ⟨s.offset.toNat, n - s.offset.toNat⟩      -- to the end
  else if s.length = 0 then none
  else some ⟨s.offset.toNat, min s.length.toNat (n - s.offset.toNat)⟩

/-- `%` PRId64 of a non-negative number -/
def decDigits : Nat → Nat → List UInt8
  | 0, _ => []
  | fuel + 1, n => if n < 10 then [UInt8.ofNat (48 + n)] else decDigits fuel (n / 10) ++ [UInt8.ofNat (48 + n % 10)]

def dec (n : Nat) : Bytes := decDigits (n + 1) n

/-- bytes `[off, off+len)` of the object -/
def slice (body : Bytes) (off len : Nat) : Bytes := (body.drop off).take len

/-- Content-Range value: `bytes first-last/clen` -/
def contRange (c : CSpec) (clen : Nat) : Bytes :=
  RangePackConsts.crPre ++ dec c.off ++ RangePackConsts.crMid ++ dec (c.off + c.len - 1) ++ RangePackConsts.crLen ++ dec clen

def crlf : Bytes := [13, 10]
/-- "Content-Type: " and "Content-Range: " as `HttpHeader::packInto` writes them -/
def hdrContentType : Bytes := [67, 111, 110, 116, 101, 110, 116, 45, 84, 121, 112, 101, 58, 32]
def hdrContentRange : Bytes := [67, 111, 110, 116, 101, 110, 116, 45, 82, 97, 110, 103, 101, 58, 32]

/-- `rangeBoundaryStr`: application name, ":", the store key text -/
def boundary (key : Bytes) : Bytes := RangePackConsts.appName ++ [58] ++ key

/-- `clientPackRangeHdr`: delimiter line, Content-Type (when the stored reply has one), Content-Range, blank line -/
def partHdr (bnd : Bytes) (ctype : Option Bytes) (clen : Nat) (c : CSpec) : Bytes :=
  RangePackConsts.partPre ++ bnd ++ RangePackConsts.partPost ++
  (match ctype with
   | some ct => hdrContentType ++ ct ++ crlf
   | none => []) ++
  hdrContentRange ++ contRange c clen ++ crlf ++
  RangePackConsts.partEnd

/-- `clientPackTermBound` -/
def termBound (bnd : Bytes) : Bytes := RangePackConsts.termPre ++ bnd ++ RangePackConsts.termPost

/-- `mRangeCLen` -/
def mRangeCLen (bnd : Bytes) (ctype : Option Bytes) (clen : Nat) : List CSpec → Nat
  | [] => (termBound bnd).length
  | c :: rest => (partHdr bnd ctype clen c).length + c.len + mRangeCLen bnd ctype clen rest

/-- `prepPartialResponseGeneration`: the Content-Length of the 206 -/
def actualCLen (bnd : Bytes) (ctype : Option Bytes) (clen : Nat) (specs : List CSpec) : Nat :=
  match specs with
  | [c] => c.len
  | _ => mRangeCLen bnd ctype clen specs

/-- the multipart Content-Type value -/
def multipartCType (bnd : Bytes) : Bytes := RangePackConsts.mpCtPre ++ bnd ++ RangePackConsts.mpCtPost

/-! ### what a correct partial body looks like (the specification side) -/

/-- all parts, each with its header -/
def partsWire (hdrOf : CSpec → Bytes) (body : Bytes) : List CSpec → Bytes
  | [] => []
  | c :: rest => hdrOf c ++ slice body c.off c.len ++ partsWire hdrOf body rest

/-- the body of a correct 206: the slice itself for one range, framed parts and terminator for several -/
def expectedWire (hdrOf : CSpec → Bytes) (term : Bytes) (body : Bytes) (specs : List CSpec) : Bytes :=
  match specs with
  | [c] => slice body c.off c.len
  | _ => partsWire hdrOf body specs ++ term

end SquidModel.RangePack
