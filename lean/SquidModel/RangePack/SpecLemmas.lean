/-
Lemmas about range specs: canonisation against the RFC 9110 semantics, canonical lists form a chain, the lowest-offset bound.
-/
import SquidModel.RangePack.StreamLemmas

namespace SquidModel.RangePack

def RSpec.Valid (s : RSpec) : Prop :=
  (s.offset = -1 ∧ 0 ≤ s.length) ∨ (0 ≤ s.offset ∧ (s.length = -1 ∨ 0 < s.length))

theorem cspec_ext (a b : CSpec) (h1 : a.off = b.off) (h2 : a.len = b.len) : a = b := by
  cases a; cases b; simp_all

theorem canonize_spec_rfc (s : RSpec) (n : Nat) (hv : s.Valid) :
    (if (s.canonize n).2 then some (s.canonize n).1.toC else none) = rfcPart n s := by
  rcases s with ⟨o, l⟩
  unfold RSpec.Valid at hv
  simp only at hv
  simp only [RSpec.canonize, known, rsize, rfcPart, RSpec.toC, decide_eq_true_eq, Bool.not_eq_true', decide_eq_false_iff_not,
    Bool.or_eq_true]
  rcases hv with ⟨ho, hl⟩ | ⟨ho, hl | hl⟩
  · subst ho
    simp only [show ¬ ((-1 : Int) > -1) by omega, show ((-1:Int) < 0) by omega, if_true, not_false_eq_true]
    repeat' split
    all_goals first
      | omega
      | (simp only [Option.some.injEq, CSpec.mk.injEq, true_and] <;> omega)
  · subst hl
    simp only [show ¬ (o < 0) by omega, show (o > -1) by omega, show ¬ ((-1 : Int) > -1) by omega, if_false, if_true, not_true_eq_false, not_false_eq_true]
    repeat' split
    all_goals first
      | omega
      | (simp only [Option.some.injEq, CSpec.mk.injEq, true_and] <;> omega)
  · simp only [show ¬ (o < 0) by omega, show (o > -1) by omega, show (l > -1) by omega, if_false, if_true, not_true_eq_false]
    repeat' split
    all_goals first
      | omega
      | (simp only [Option.some.injEq, CSpec.mk.injEq, true_and] <;> omega)

/-- a canonical spec: known, non-empty, inside the object -/
def RSpec.Canonical (n : Nat) (s : RSpec) : Prop := 0 ≤ s.offset ∧ 0 < s.length ∧ s.offset + s.length ≤ n

theorem canonize_spec_canonical (s : RSpec) (n : Nat) (h : (s.canonize n).2 = true) : (s.canonize n).1.Canonical n := by
  rcases s with ⟨o, l⟩
  simp only [RSpec.canonize, known, rsize, decide_eq_true_eq, Bool.not_eq_true', decide_eq_false_iff_not] at h
  simp only [RSpec.Canonical, RSpec.canonize, known, rsize, decide_eq_true_eq, Bool.not_eq_true', decide_eq_false_iff_not]
  repeat' split at h
  all_goals (repeat' split)
  all_goals (try simp only [] at *)
  all_goals omega

/-- canonisation keeps the first-byte-pos of every spec that has one -/
theorem canonize_spec_offset (s : RSpec) (n : Nat) (h : 0 ≤ s.offset) : (s.canonize n).1.offset = s.offset := by
  rcases s with ⟨o, l⟩
  simp only at h
  simp only [RSpec.canonize, known, decide_eq_true_eq, Bool.not_eq_true', decide_eq_false_iff_not]
  have : o > -1 := by omega
  simp only [this, not_true_eq_false, if_false]
  split <;> rfl

theorem canonize_nil (n : Int) : canonize [] n = [] := rfl

theorem canonize_cons (s : RSpec) (rest : List RSpec) (n : Int) :
    canonize (s :: rest) n = (if (s.canonize n).2 then [(s.canonize n).1] else []) ++ canonize rest n := by
  simp only [canonize, List.filterMap_cons]
  split <;> simp_all

/-- **Canonisation is the RFC.** The specs Squid serves are, in request order, exactly the satisfiable parts of the requested
byte-range-specs as RFC 9110 §14.1.2 defines them; the unsatisfiable ones are dropped. -/
theorem canonize_eq_rfc (specs : List RSpec) (n : Nat) (hv : ∀ s ∈ specs, s.Valid) :
    (canonize specs n).map RSpec.toC = specs.filterMap (rfcPart n) := by
  induction specs with
  | nil => rfl
  | cons s rest ih =>
    have h1 := canonize_spec_rfc s n (hv s (by simp))
    have h2 := ih (fun t ht => hv t (by simp [ht]))
    rw [canonize_cons, List.map_append, h2, List.filterMap_cons, ← h1]
    split <;> simp_all

theorem canonize_all_canonical (specs : List RSpec) (n : Nat) : ∀ c ∈ canonize specs n, c.Canonical n := by
  induction specs with
  | nil => intro c hc; simp [canonize_nil] at hc
  | cons s rest ih =>
    intro c hc
    rw [canonize_cons] at hc
    simp only [List.mem_append] at hc
    rcases hc with hc | hc
    · split at hc
      · rename_i h
        simp only [List.mem_singleton] at hc
        subst hc
        exact canonize_spec_canonical s n h
      · simp at hc
    · exact ih c hc

/-- canonical + `!isComplex` = the chain the packing theorems need -/
theorem chain_of_not_complex (n : Nat) : ∀ (cs : List RSpec) (lo : Nat), (∀ c ∈ cs, c.Canonical n) → isComplexAux lo cs = false →
    Chain n lo (cs.map RSpec.toC) := by
  intro cs
  induction cs with
  | nil => intro lo _ _; trivial
  | cons c rest ih =>
    intro lo hc hx
    have hcc := hc c (by simp)
    unfold RSpec.Canonical at hcc
    obtain ⟨h1, h2, h3⟩ := hcc
    simp only [isComplexAux] at hx
    split at hx
    · cases hx
    · rename_i hlo
      simp only [List.map_cons, Chain, RSpec.toC]
      refine ⟨by omega, by omega, by omega, ?_⟩
      have := ih (c.offset + c.length).toNat (fun t ht => hc t (by simp [ht])) (by
        have : ((c.offset + c.length).toNat : Int) = c.offset + c.length := by omega
        rw [this]; exact hx)
      have he : (c.offset + c.length).toNat = c.offset.toNat + c.length.toNat := by omega
      rw [he] at this
      exact this

theorem lowestAux_inv : ∀ (specs : List RSpec) (acc : Int), -1 ≤ acc → (∀ s ∈ specs, s.Valid) →
    0 ≤ lowestOffsetAux 0 acc specs ∧ (0 ≤ acc → lowestOffsetAux 0 acc specs ≤ acc) ∧
    (lowestOffsetAux 0 acc specs = 0 ∨ ∀ s ∈ specs, 0 ≤ s.offset ∧ lowestOffsetAux 0 acc specs ≤ s.offset) := by
  intro specs
  induction specs with
  | nil =>
    intro acc ha _
    simp only [lowestOffsetAux, known, decide_eq_true_eq]
    split
    · exact ⟨by omega, fun _ => Int.le_refl _, Or.inr (by simp)⟩
    · exact ⟨by omega, fun h => by omega, Or.inl rfl⟩
  | cons s rest ih =>
    intro acc ha hv
    have hs := hv s (by simp)
    have hrest : ∀ t ∈ rest, t.Valid := fun t ht => hv t (by simp [ht])
    unfold RSpec.Valid at hs
    simp only [lowestOffsetAux, known, decide_eq_true_eq, Bool.not_eq_true', decide_eq_false_iff_not, Bool.or_eq_true]
    rcases hs with ⟨ho, hl⟩ | ⟨ho, hl⟩
    · have h1 : ¬ s.offset > -1 := by omega
      simp only [h1, not_false_eq_true, if_true]
      by_cases hl0 : s.length > 0
      · simp only [hl0, true_or, if_true]
        exact ⟨Int.le_refl _, fun h => h, trivial⟩
      · have hl1 : s.length = 0 := by omega
        have h2 : ¬ (s.length > 0 ∨ ¬ s.length > -1) := by omega
        simp only [h2, if_false, hl1, Int.sub_zero]
        have hacc' : (if (0 : Int) < acc ∨ ¬ acc > -1 then (0 : Int) else acc) = 0 := by
          split
          · rfl
          · omega
        rw [hacc']
        obtain ⟨i1, i2, i3⟩ := ih 0 (by omega) hrest
        have i2' := i2 (by omega)
        exact ⟨i1, fun h => by omega, Or.inl (by omega)⟩
    · have h1 : s.offset > -1 := by omega
      simp only [h1, not_true_eq_false, if_false]
      have hacc : -1 ≤ (if s.offset < acc ∨ ¬ acc > -1 then s.offset else acc) := by split <;> omega
      obtain ⟨i1, i2, i3⟩ := ih _ hacc hrest
      have hle : 0 ≤ (if s.offset < acc ∨ ¬ acc > -1 then s.offset else acc) ∧ (if s.offset < acc ∨ ¬ acc > -1 then s.offset else acc) ≤ s.offset ∧
          (0 ≤ acc → (if s.offset < acc ∨ ¬ acc > -1 then s.offset else acc) ≤ acc) := by
        split <;> omega
      have i2' := i2 hle.1
      refine ⟨i1, fun h => by have := hle.2.2 h; omega, ?_⟩
      rcases i3 with i3 | i3
      · exact Or.inl i3
      · refine Or.inr ?_
        intro t ht
        simp only [List.mem_cons] at ht
        rcases ht with ht | ht
        · subst ht; exact ⟨ho, by omega⟩
        · exact i3 t ht

theorem mem_canonize (specs : List RSpec) (n : Int) (c : RSpec) (hc : c ∈ canonize specs n) :
    ∃ s ∈ specs, (s.canonize n).2 = true ∧ c = (s.canonize n).1 := by
  simp only [canonize, List.mem_filterMap] at hc
  obtain ⟨s, hs, h⟩ := hc
  split at h
  · rename_i hb
    exact ⟨s, hs, hb, by simpa using h.symm⟩
  · cases h

/-- the request-time read offset (`lowestOffset(0)`) is 0 or at most the first byte of every part that is served -/
theorem lowestOffset_bound (raw : List RSpec) (n : Nat) (hv : ∀ s ∈ raw, s.Valid) :
    (lowestOffset raw 0).toNat = 0 ∨ ∀ c ∈ (canonize raw n).map RSpec.toC, (lowestOffset raw 0).toNat ≤ c.off := by
  obtain ⟨i1, _, i3⟩ := lowestAux_inv raw (-1) (by omega) hv
  simp only [lowestOffset]
  rcases i3 with i3 | i3
  · exact Or.inl (by omega)
  · refine Or.inr ?_
    intro c hc
    simp only [List.mem_map] at hc
    obtain ⟨r, hr, rfl⟩ := hc
    obtain ⟨s, hs, _, rfl⟩ := mem_canonize raw n r hr
    obtain ⟨h0, hle⟩ := i3 s hs
    simp only [RSpec.toC, canonize_spec_offset s n h0]
    omega

theorem parseNum_nonneg (b : Bytes) (x : Int) (h : parseNum b = some x) : 0 ≤ x := by
  simp only [parseNum] at h
  split at h
  · cases h
  · injection h with h; omega

theorem parseSpec_valid (item : Bytes) (s : RSpec) (h : parseSpec item = some s) : s.Valid := by
  simp only [parseSpec] at h
  split at h
  · cases h
  · split at h
    · split at h
      · rename_i n hn
        injection h with h; subst h
        exact Or.inl ⟨rfl, parseNum_nonneg _ _ hn⟩
      · cases h
    · split at h
      · cases h
      · split at h
        · cases h
        · rename_i off hoff
          have ho := parseNum_nonneg _ _ hoff
          split at h
          · injection h with h; subst h
            exact Or.inr ⟨ho, Or.inl rfl⟩
          · split at h
            · cases h
            · rename_i lp hlp
              split at h
              · cases h
              · injection h with h; subst h
                refine Or.inr ⟨ho, Or.inr ?_⟩
                simp only [rsize]
                split <;> omega

theorem parseAll_valid : ∀ (items : List Bytes) (r : List RSpec), parseAll items = some r → ∀ s ∈ r, s.Valid := by
  intro items
  induction items with
  | nil => intro r h s hs; simp only [parseAll] at h; injection h with h; subst h; simp at hs
  | cons a rest ih =>
    intro r h s hs
    simp only [parseAll] at h
    split at h
    · rename_i x xs hx hxs
      injection h with h; subst h
      simp only [List.mem_cons] at hs
      rcases hs with hs | hs
      · subst hs; exact parseSpec_valid a _ hx
      · exact ih xs hxs s hs
    · cases h

/-- everything the (clean-grammar) parser returns is a valid spec list -/
theorem parseRange_valid (v : Bytes) (specs : List RSpec) (h : parseRange v = some specs) : ∀ s ∈ specs, s.Valid := by
  simp only [parseRange] at h
  split at h
  · cases h
  · split at h
    · cases h
    · cases h
    · rename_i sp hm
      injection h with h; subst h
      exact parseAll_valid _ _ hm

end SquidModel.RangePack
