/-
C15 model, part 3: the range iterator and the packing of store deliveries into the response body.

* `HttpHdrRangeIter` (`pos`/`end` = `rem`, `debt_size` = `debt`), `updateSpec` (src/HttpHdrRange.cc)
* `ClientHttpRequest::prepPartialResponseGeneration` (src/client_side_request.cc): `prep`
* `Http::Stream::canPackMoreRanges`, `getNextRangeOffset`, `lengthToSend`, `noteSentBodyBytes`, `packRange`,
  `sendStartOfMessage` (body part), `sendBody`, `writeComplete`/`socketState`/`pullData` (src/http/Stream.cc)
* `clientReplyContext::processReplyAccessResult` first body buffer (`firstBuffer`; `firstBufferPreFix` = before fix f9db419),
  `checkTransferDone` (`out.offset >= body size`) (src/client_side_reply.cc)
* the store is an adversary: every pull at offset `o` returns between 1 and HTTP_REQBUF_SZ bytes of the object starting at
  `o` (`sched i` picks the size of the i-th delivery); the first delivery (with the headers) carries the first `m` body bytes
  (`m = 0` for memory/in-transit objects, up to one disk page for swapped-in objects).
C++ `assert`s are outcomes (`.error "assert: …"`); the theorems show they do not fire.
-/
import SquidModel.RangePack.Frame

namespace SquidModel.RangePack
open SquidModel.Gen

/-- `http->range_iter` plus `http->out.offset` -/
structure It where
  rem : List CSpec      -- specs from `pos` to `end`; head = `currentSpec()`
  debt : Nat            -- `debt_size`
  out : Nat             -- `http->out.offset`
  multi : Bool          -- `multipartRangeRequest()`
  deriving Repr

/-- `prepPartialResponseGeneration`: iterator at the first spec, `out.offset` = its offset -/
def prep (specs : List CSpec) : It :=
  { rem := specs
    debt := match specs with | [] => 0 | c :: _ => c.len       -- updateSpec()
    out := match specs with | [] => 0 | c :: _ => c.off
    multi := decide (specs.length > 1) }

/-- `canPackMoreRanges` (it moves the iterator) -/
def canPackMoreRanges (it : It) : Except String (It × Bool) :=
  let it1 : It :=
    if it.debt = 0 then
      let rem' := it.rem.tail                                   -- if (pos != end) ++pos
      { it with rem := rem', debt := match rem' with | [] => 0 | c :: _ => c.len }   -- updateSpec()
    else it
  if decide (it1.debt = 0) != it1.rem.isEmpty then .error "assert: !debt() == !currentSpec()"
  else .ok (it1, !it1.rem.isEmpty)

/-- `getNextRangeOffset` for a request with ranges -/
def getNextRangeOffset (it : It) : Except String (It × Nat) :=
  match canPackMoreRanges it with
  | .error e => .error e
  | .ok (it1, more) =>
    if !more then .error "assert: canPackMoreRanges()"
    else match it1.rem with
      | [] => .error "assert: currentSpec()"
      | c :: _ =>
        let start : Int := (c.off : Int) + c.len - it1.debt
        if (it1.out : Int) > start then .error "assert: out.offset <= start"   -- we did not miss it
        else .ok (it1, start.toNat)

/-- `lengthToSend(available)` for a request with ranges (`debt == -1` cannot occur: canonical lengths are known) -/
def lengthToSend (it : It) (start size : Nat) : Except String (It × Nat) :=
  match canPackMoreRanges it with
  | .error e => .error e
  | .ok (it1, more) =>
    if !more then .error "assert: canPackMoreRanges()"
    else if it1.debt = 0 then .error "assert: debt() > 0"
    else match it1.rem with
      | [] => .error "assert: currentSpec()"
      | c :: _ => if start < c.off then .ok (it1, 0) else .ok (it1, min it1.debt size)

/-- `noteSentBodyBytes` -/
def noteSent (it : It) (n : Nat) : Except String It :=
  if n > it.debt then .error "assert: debt() >= 0"
  else .ok { it with out := it.out + n, debt := it.debt - n }

/-- the `if (copy_sz)` block of `packRange` -/
def copyStep (hdrOf : CSpec → Bytes) (it : It) (data : Bytes) (copy : Nat) : Except String (It × Bytes) :=
  match it.rem with
  | [] => .error "assert: currentSpec()"
  | c :: _ =>
    if !(it.out < c.off + c.len) then .error "assert: out.offset < offset + length"
    else if !(it.out + data.length > c.off) then .error "assert: out.offset + available.size() > offset"
    else
      let hdr := if it.multi && it.debt == c.len then hdrOf c else []      -- boundary and headers at the beginning of a range
      match noteSent it copy with
      | .error e => .error e
      | .ok it1 => .ok (it1, hdr ++ data.take copy)

/-- `packRange(source, mb)`: returns the iterator and what was appended to `mb` -/
def packRange (hdrOf : CSpec → Bytes) (term : Bytes) : Nat → It → Nat → Bytes → Except String (It × Bytes)
  | 0, _, _, _ => .error "fuel"
  | fuel + 1, it, start, data =>
    if it.rem.isEmpty || data.isEmpty then .ok (it, [])                    -- while (currentSpec() && available.size())
    else match lengthToSend it start data.length with
      | .error e => .error e
      | .ok (it1, copy) =>
        match (if copy = 0 then Except.ok (it1, []) else copyStep hdrOf it1 data copy) with
        | .error e => .error e
        | .ok (it2, em) =>
          let start2 := start + copy
          let data2 := data.drop copy
          match canPackMoreRanges it2 with
          | .error e => .error e
          | .ok (it3, more) =>
            if !more then .ok (it3, em ++ (if it3.debt = 0 then term else []))   -- terminating boundary
            else match getNextRangeOffset it3 with
              | .error e => .error e
              | .ok (it4, next) =>
                if next < it4.out then .error "assert: nextOffset >= out.offset"
                else
                  let skip := next - it4.out
                  let it5 := { it4 with out := next }                       -- adjust for not to be transmitted bytes
                  if data2.length ≤ skip then .ok (it5, em)
                  else if copy = 0 then .ok (it5, em)
                  else match packRange hdrOf term fuel it5 (start2 + skip) (data2.drop skip) with
                    | .error e => .error e
                    | .ok (it6, em2) => .ok (it6, em ++ em2)

/-- one delivery to the socket side: `sendBody` / the body part of `sendStartOfMessage` -/
def deliver (hdrOf : CSpec → Bytes) (term : Bytes) (it : It) (start : Nat) (data : Bytes) : Except String (It × Bytes) :=
  if it.multi then packRange hdrOf term (data.length + 1) it start data
  else match lengthToSend it start data.length with
    | .error e => .error e
    | .ok (it1, len) =>
      match noteSent it1 len with
      | .error e => .error e
      | .ok it2 => .ok (it2, data.take len)

/-- what the store returns for a pull at `off` when asked by the `i`-th pull: 1..HTTP_REQBUF_SZ bytes, never past the end -/
def storeRead (body : Bytes) (sched : Nat → Nat) (i off : Nat) : Bytes :=
  slice body off (min (max 1 (sched i)) RangePackConsts.reqBufSz)

/-- `processReplyAccessResult` (since fix f9db419): the body bytes handed down with the headers are the body bytes `[0, m)` the
stream buffer holds, labelled offset 0; `next()->readBuffer.offset` (= `range->lowestOffset(0)`) no longer cuts into them. -/
def firstBuffer (body : Bytes) (m : Nat) : Bytes := body.take m

/-- PRE-FIX VARIANT (the tree before commit f9db419), kept only for the regression theorem: with
`next()->readBuffer.offset = L > 0` the first `L` buffered body bytes were skipped (none passed when fewer than `L` were buffered),
the rest still labelled offset 0. -/
def firstBufferPreFix (body : Bytes) (L m : Nat) : Bytes :=
  let got := body.take m
  if L > 0 then (if m < L then [] else got.drop L) else got

/-- `writeComplete` → `socketState` → `pullData` → `sendBody` until the stream is complete -/
def pump (hdrOf : CSpec → Bytes) (term : Bytes) (body : Bytes) (sched : Nat → Nat) : Nat → Nat → It → Except String Bytes
  | 0, _, _ => .error "fuel"
  | fuel + 1, i, it =>
    if it.out ≥ body.length then .ok []                           -- checkTransferDone: STREAM_COMPLETE
    else match canPackMoreRanges it with                          -- STREAM_NONE and request->range
      | .error e => .error e
      | .ok (it1, more) =>
        if !more then .ok []                                      -- end of returnable range sequence: STREAM_COMPLETE
        else match getNextRangeOffset it1 with                    -- pullData: readBuffer.offset
          | .error e => .error e
          | .ok (it2, off) =>
            let data := storeRead body sched i off
            if data.isEmpty then .error "store: nothing at the requested offset"
            else match deliver hdrOf term it2 off data with
              | .error e => .error e
              | .ok (it3, em) =>
                match pump hdrOf term body sched fuel (i + 1) it3 with
                | .error e => .error e
                | .ok rest => .ok (em ++ rest)

/-- the body of a 206 as written to the client: first delivery (with the headers), then pulls -/
def runHonoured (hdrOf : CSpec → Bytes) (term : Bytes) (body : Bytes) (specs : List CSpec) (m : Nat) (sched : Nat → Nat) :
    Except String Bytes :=
  let it := prep specs
  let first := firstBuffer body m
  match (if first.isEmpty then Except.ok (it, []) else deliver hdrOf term it 0 first) with
  | .error e => .error e
  | .ok (it1, em) =>
    match pump hdrOf term body sched (body.length + 2) 0 it1 with
    | .error e => .error e
    | .ok rest => .ok (em ++ rest)

/-- pulls of a response without ranges: read at `out.offset`, send everything -/
def pumpPlain (body : Bytes) (sched : Nat → Nat) : Nat → Nat → Nat → Except String Bytes
  | 0, _, _ => .error "fuel"
  | fuel + 1, i, out =>
    if out ≥ body.length then .ok []
    else
      let data := storeRead body sched i out
      if data.isEmpty then .error "store: nothing at the requested offset"
      else match pumpPlain body sched fuel (i + 1) (out + data.length) with
        | .error e => .error e
        | .ok rest => .ok (data ++ rest)

/-- the body of a 200 sent after `buildRangeHeader` dropped the ranges -/
def runIgnored (body : Bytes) (m : Nat) (sched : Nat → Nat) : Except String Bytes :=
  let first := firstBuffer body m
  match pumpPlain body sched (body.length + 2) 0 first.length with
  | .error e => .error e
  | .ok rest => .ok (first ++ rest)

/-- PRE-FIX VARIANT of `runIgnored` (before commit f9db419; `L` = the offset set when the request was parsed) -/
def runIgnoredPreFix (body : Bytes) (L m : Nat) (sched : Nat → Nat) : Except String Bytes :=
  let first := firstBufferPreFix body L m
  match pumpPlain body sched (body.length + 2) 0 first.length with
  | .error e => .error e
  | .ok rest => .ok (first ++ rest)

end SquidModel.RangePack
