/-
Lemmas that connect the decision (`buildRangeHeader`), the framing and the scenario-level model (no model definitions here).
-/
import SquidModel.RangePack.SpecLemmas
import SquidModel.RangePack.Respond
namespace SquidModel.RangePack
open SquidModel.Gen

/-- what a successful `buildRangeHeader` establishes -/
theorem buildRangeHeader_ok (ctx : Ctx) (raw cs : List RSpec) (h : buildRangeHeader ctx raw = .ok cs) :
    ctx.status = 200 ∧ 0 ≤ ctx.contentLength ∧ cs = canonize raw ctx.contentLength ∧ cs ≠ [] ∧ isComplex cs = false ∧
    (ctx.isHit = false → offsetLimitExceeded cs ctx.roffLimit = false) := by
  simp only [buildRangeHeader] at h
  repeat' split at h
  all_goals first
    | (injection h with h; subst h)
    | cases h
  all_goals
    refine ⟨?_, by omega, rfl, ?_, ?_, ?_⟩
    · by_cases h200 : ctx.status = 200 <;> simp_all
    · intro he; simp_all
    · simp_all
    · intro hh; simp_all

theorem lcgBytes_length : ∀ (k : Nat) (x : UInt32) (acc : Bytes), (lcgBytes k x acc).length = k + acc.length := by
  intro k
  induction k with
  | zero => intro x acc; simp [lcgBytes]
  | succ k ih => intro x acc; simp only [lcgBytes]; rw [ih]; simp; omega

theorem objBody_length (n seed : Nat) : (objBody n seed).length = n := by
  simp [objBody, lcgBytes_length]

theorem partsWire_length (hdrOf : CSpec → Bytes) (body : Bytes) : ∀ (specs : List CSpec) (lo : Nat), Chain body.length lo specs →
    (partsWire hdrOf body specs).length = (specs.map fun c => (hdrOf c).length + c.len).sum := by
  intro specs
  induction specs with
  | nil => intro lo _; rfl
  | cons c rest ih =>
    intro lo hch
    simp only [Chain] at hch
    obtain ⟨_, _, h3, h4⟩ := hch
    simp only [partsWire, List.length_append, List.map_cons, List.sum_cons, slice_length body c.off c.len h3, ih _ h4]

theorem mRangeCLen_eq (bnd : Bytes) (ctype : Option Bytes) (clen : Nat) : ∀ (specs : List CSpec),
    mRangeCLen bnd ctype clen specs = (specs.map fun c => (partHdr bnd ctype clen c).length + c.len).sum + (termBound bnd).length := by
  intro specs
  induction specs with
  | nil => simp [mRangeCLen]
  | cons c rest ih => simp only [mRangeCLen, ih, List.map_cons, List.sum_cons]; omega

theorem ite_none_eq_some {α : Type} (c : Prop) [Decidable c] (x : Option α) (y : α) (h : (if c then x else none) = some y) : x = some y := by
  split at h
  · exact h
  · cases h

end SquidModel.RangePack
