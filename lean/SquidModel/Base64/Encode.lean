/-
Encoder lemmas: the streaming encoder (any chunking into update calls, then final) produces
exactly encode_raw of the whole input; output sizes.
-/
import SquidModel.Base64.Steps

namespace SquidModel.Base64

/-- the relation between the bytes of the current incomplete group and the context -/
def EncRel : Bytes → EncCtx → Prop
  | [], ctx => ctx.bits = 0
  | [a], ctx => ctx.bits = 2 ∧ ctx.word % 4 = a.toNat % 4
  | [_, b], ctx => ctx.bits = 4 ∧ ctx.word % 16 = b.toNat % 16
  | _, _ => False

/-- characters already emitted for an incomplete group -/
def emitted : Bytes → Bytes
  | [a] => [alpha (a.toNat >>> 2)]
  | [a, b] => [alpha (a.toNat >>> 2), alpha ((a.toNat <<< 4) ||| (b.toNat >>> 4))]
  | _ => []

/-- characters emitted after consuming the bytes from a fresh context (no padding) -/
def streamOut : Bytes → Bytes
  | a :: b :: c :: rest => encodeRaw [a, b, c] ++ streamOut rest
  | q => emitted q

/-- bytes of the incomplete last group -/
def pendingOf : Bytes → Bytes
  | _ :: _ :: _ :: rest => pendingOf rest
  | q => q

theorem pendingOf_length (x : Bytes) : (pendingOf x).length < 3 := by
  induction x using pendingOf.induct with
  | case1 a b c rest ih => simpa [pendingOf] using ih
  | case2 q hq =>
    rw [pendingOf]
    · match q, hq with
      | [], _ => simp
      | [_], _ => simp
      | [_, _], _ => simp
      | a :: b :: c :: r, hq => exact absurd rfl (hq a b c r)
    · exact hq

theorem or_a4_b4 (a b : UInt8) : (a.toNat <<< 4) ||| (b.toNat >>> 4) = a.toNat * 16 + b.toNat / 16 := by
  have hb := b.toNat_lt
  have := shl_or (k := 4) (d := b.toNat >>> 4) a.toNat (by rw [Nat.shiftRight_eq_div_pow]; omega)
  simpa [Nat.shiftRight_eq_div_pow] using this

theorem or_b2_c6 (b c : UInt8) : (b.toNat <<< 2) ||| (c.toNat >>> 6) = b.toNat * 4 + c.toNat / 64 := by
  have hc := c.toNat_lt
  have := shl_or (k := 2) (d := c.toNat >>> 6) b.toNat (by rw [Nat.shiftRight_eq_div_pow]; omega)
  simpa [Nat.shiftRight_eq_div_pow] using this

/-- one base64_encode_single call in each of the three positions -/
theorem single_rel0 (ctx : EncCtx) (a : UInt8) (h : EncRel [] ctx) :
    (encodeSingle ctx a).2 = [alpha (a.toNat >>> 2)] ∧ EncRel [a] (encodeSingle ctx a).1 := by
  obtain ⟨w, b⟩ := ctx
  simp only [EncRel] at h
  subst h
  have ha := a.toNat_lt
  rw [encodeSingle_8]
  refine ⟨?_, ?_⟩
  · simp only [List.cons.injEq, and_true]
    apply alpha_congr
    rw [Nat.shiftRight_eq_div_pow]; omega
  · simp only [EncRel, true_and]; omega

theorem single_rel1 (ctx : EncCtx) (a b : UInt8) (h : EncRel [a] ctx) :
    (encodeSingle ctx b).2 = [alpha ((a.toNat <<< 4) ||| (b.toNat >>> 4))] ∧ EncRel [a, b] (encodeSingle ctx b).1 := by
  obtain ⟨w, bits⟩ := ctx
  simp only [EncRel] at h
  obtain ⟨rfl, hw⟩ := h
  have ha := a.toNat_lt
  have hb := b.toNat_lt
  rw [encodeSingle_10]
  refine ⟨?_, ?_⟩
  · simp only [List.cons.injEq, and_true]
    apply alpha_congr
    rw [or_a4_b4]; omega
  · simp only [EncRel, true_and]; omega

theorem single_rel2 (ctx : EncCtx) (a b c : UInt8) (h : EncRel [a, b] ctx) :
    (encodeSingle ctx c).2 = [alpha ((b.toNat <<< 2) ||| (c.toNat >>> 6)), alpha c.toNat] ∧ EncRel [] (encodeSingle ctx c).1 := by
  obtain ⟨w, bits⟩ := ctx
  simp only [EncRel] at h
  obtain ⟨rfl, hw⟩ := h
  have hb := b.toNat_lt
  have hc := c.toNat_lt
  rw [encodeSingle_12]
  refine ⟨?_, ?_⟩
  · simp only [List.cons.injEq, and_true]
    refine ⟨?_, ?_⟩
    · apply alpha_congr
      rw [or_b2_c6]; omega
    · apply alpha_congr
      omega
  · simp only [EncRel]

theorem encodeSingles_cons (ctx : EncCtx) (b : UInt8) (bs : Bytes) :
    encodeSingles ctx (b :: bs) =
      ((encodeSingles (encodeSingle ctx b).1 bs).1, (encodeSingle ctx b).2 ++ (encodeSingles (encodeSingle ctx b).1 bs).2) := by
  rw [encodeSingles]

/-- a run of single calls from a context related to the pending bytes `q` -/
theorem singles_rel (s : Bytes) : ∀ (q : Bytes) (ctx : EncCtx), EncRel q ctx →
    emitted q ++ (encodeSingles ctx s).2 = streamOut (q ++ s) ∧ EncRel (pendingOf (q ++ s)) (encodeSingles ctx s).1 := by
  induction s with
  | nil =>
    intro q ctx h
    match q, h with
    | [], h => simpa [encodeSingles, streamOut, emitted, pendingOf] using h
    | [a], h => simpa [encodeSingles, streamOut, emitted, pendingOf] using h
    | [a, b], h => simpa [encodeSingles, streamOut, emitted, pendingOf] using h
  | cons x xs ih =>
    intro q ctx h
    rw [encodeSingles_cons]
    match q, h with
    | [], h =>
      obtain ⟨ho, hr⟩ := single_rel0 ctx x h
      have := ih [x] _ hr
      simp only [emitted, List.nil_append, List.singleton_append, ho] at this ⊢
      exact this
    | [a], h =>
      obtain ⟨ho, hr⟩ := single_rel1 ctx a x h
      have := ih [a, x] _ hr
      simp only [emitted, List.cons_append, List.nil_append, ho] at this ⊢
      exact this
    | [a, b], h =>
      obtain ⟨ho, hr⟩ := single_rel2 ctx a b x h
      have := ih [] _ hr
      simp only [emitted, List.cons_append, List.nil_append, ho, streamOut, pendingOf, encodeRaw] at this ⊢
      refine ⟨?_, this.2⟩
      rw [← this.1]

/-- the drain loop is a run of single calls over the bytes that complete the current group -/
theorem drain_spec (s : Bytes) : ∀ (q : Bytes) (ctx : EncCtx), EncRel q ctx →
    ∃ s1 rest, s = s1 ++ rest ∧ encodeDrain ctx s = ((encodeSingles ctx s1).1, (encodeSingles ctx s1).2, rest) ∧
      (rest = [] ∨ pendingOf (q ++ s1) = []) ∧ (q ++ s1).length ≤ 3 := by
  induction s with
  | nil =>
    intro q ctx h
    refine ⟨[], [], rfl, by simp [encodeDrain, encodeSingles], Or.inl rfl, ?_⟩
    match q, h with
    | [], _ => simp
    | [_], _ => simp
    | [_, _], _ => simp
  | cons x xs ih =>
    intro q ctx h
    match q, h with
    | [], h =>
      simp only [EncRel] at h
      exact ⟨[], x :: xs, rfl, by simp [encodeDrain, h, encodeSingles], Or.inr (by simp [pendingOf]), by simp⟩
    | [a], h =>
      have hb : ctx.bits ≠ 0 := by simp only [EncRel] at h; omega
      obtain ⟨_, hr⟩ := single_rel1 ctx a x h
      obtain ⟨s1, rest, e, hd, hp, hl⟩ := ih [a, x] _ hr
      refine ⟨x :: s1, rest, by simp [e], ?_, by simpa using hp, by simpa using hl⟩
      rw [encodeDrain]
      simp only [hb, ne_eq, not_false_eq_true, ↓reduceIte, hd, encodeSingles_cons]
    | [a, b], h =>
      have hb : ctx.bits ≠ 0 := by simp only [EncRel] at h; omega
      obtain ⟨_, hr⟩ := single_rel2 ctx a b x h
      simp only [EncRel] at hr
      refine ⟨[x], xs, rfl, ?_, Or.inr (by simp [pendingOf]), by simp⟩
      rw [encodeDrain]
      simp only [hb, ne_eq, not_false_eq_true, ↓reduceIte, encodeSingles, List.append_nil]
      cases xs with
      | nil => simp [encodeDrain]
      | cons y ys => simp [encodeDrain, hr]

theorem streamOut_group (a b c : UInt8) (rest : Bytes) : streamOut (a :: b :: c :: rest) = encodeRaw [a, b, c] ++ streamOut rest := by
  rw [streamOut]

/-- split at the last multiple of three -/
theorem streamOut_bulk (y : Bytes) :
    streamOut y = encodeRaw (y.take (y.length - y.length % 3)) ++ streamOut (y.drop (y.length - y.length % 3)) ∧
    pendingOf y = pendingOf (y.drop (y.length - y.length % 3)) ∧ (y.drop (y.length - y.length % 3)).length < 3 := by
  induction y using streamOut.induct with
  | case1 a b c rest ih =>
    have e : (a :: b :: c :: rest).length - (a :: b :: c :: rest).length % 3 = (rest.length - rest.length % 3) + 3 := by
      simp only [List.length_cons]; omega
    rw [e]
    simp only [List.take_succ_cons, List.drop_succ_cons, streamOut_group, pendingOf]
    obtain ⟨i1, i2, i3⟩ := ih
    refine ⟨?_, i2, i3⟩
    rw [i1]
    simp [encodeRaw]
  | case2 q hq =>
    have hl : q.length < 3 := by
      match q, hq with
      | [], _ => simp
      | [_], _ => simp
      | [_, _], _ => simp
      | a :: b :: c :: r, hq => exact absurd rfl (hq a b c r)
    have e : q.length - q.length % 3 = 0 := by omega
    rw [e]
    simp [encodeRaw, hl]

/-- `base64_encode_update` from a context related to the pending bytes `q` -/
theorem update_rel (s : Bytes) (q : Bytes) (ctx : EncCtx) (h : EncRel q ctx) :
    emitted q ++ (encodeUpdate ctx s).2 = streamOut (q ++ s) ∧ EncRel (pendingOf (q ++ s)) (encodeUpdate ctx s).1 := by
  obtain ⟨s1, rest, e, hd, hp, hl⟩ := drain_spec s q ctx h
  obtain ⟨o1, r1⟩ := singles_rel s1 q ctx h
  simp only [encodeUpdate, hd]
  rcases hp with hrest | hpend
  · subst hrest
    simp only [List.append_nil] at e
    subst e
    simp only [List.length_nil, Nat.zero_mod, Nat.sub_self, ne_eq, not_true_eq_false, ↓reduceIte, List.drop_nil, encodeSingles,
      List.append_nil]
    exact ⟨o1, r1⟩
  · -- the group is complete: q ++ s1 is empty or one full group
    rw [hpend] at r1
    obtain ⟨o3, r3⟩ := singles_rel (rest.drop (rest.length - rest.length % 3)) [] _ r1
    obtain ⟨b1, b2, b3⟩ := streamOut_bulk rest
    have hraw : (if rest.length - rest.length % 3 ≠ 0 then encodeRaw (rest.take (rest.length - rest.length % 3)) else []) =
        encodeRaw (rest.take (rest.length - rest.length % 3)) := by
      by_cases hz : rest.length - rest.length % 3 = 0
      · simp [hz, encodeRaw]
      · simp [hz]
    rw [hraw]
    simp only [emitted, List.nil_append] at o3 r3
    have key : streamOut (q ++ s) = streamOut (q ++ s1) ++ streamOut rest ∧ pendingOf (q ++ s) = pendingOf rest := by
      rw [e, ← List.append_assoc]
      generalize q ++ s1 = g at hpend hl
      match g, hpend, hl with
      | [], _, _ => simp [streamOut, emitted]
      | [_], hpend, _ => simp [pendingOf] at hpend
      | [_, _], hpend, _ => simp [pendingOf] at hpend
      | [a, b, c], _, _ => simp [streamOut, emitted, pendingOf, encodeRaw]
      | _ :: _ :: _ :: _ :: _, _, hl => simp at hl
    rw [key.1, key.2, ← o1, b1, b2, o3]
    refine ⟨by simp [List.append_assoc], ?_⟩
    have : pendingOf (rest.drop (rest.length - rest.length % 3)) = rest.drop (rest.length - rest.length % 3) := by
      generalize rest.drop (rest.length - rest.length % 3) = d at b3
      match d, b3 with
      | [], _ => rfl
      | [_], _ => rfl
      | [_, _], _ => rfl
      | _ :: _ :: _ :: _, b3 => simp at b3; omega
    rw [this] at r3 ⊢
    simpa using r3

/-- `base64_encode_final` completes the incomplete group with padding -/
theorem final_rel (q : Bytes) (ctx : EncCtx) (h : EncRel q ctx) : emitted q ++ (encodeFinal ctx).2 = encodeRaw q := by
  match q, h with
  | [], h =>
    simp only [EncRel] at h
    simp [encodeFinal, h, emitted, encodeRaw]
  | [a], h =>
    simp only [EncRel] at h
    obtain ⟨hb, hw⟩ := h
    simp [encodeFinal, hb, emitted, encodeRaw, padLoop]
    apply alpha_congr
    rw [Nat.shiftLeft_eq, Nat.shiftLeft_eq]; omega
  | [a, b], h =>
    simp only [EncRel] at h
    obtain ⟨hb, hw⟩ := h
    simp [encodeFinal, hb, emitted, encodeRaw, padLoop]
    apply alpha_congr
    rw [Nat.shiftLeft_eq, Nat.shiftLeft_eq]; omega

/-- completing a stream: `streamOut y` followed by the encoding of the pending group with more input -/
theorem streamOut_complete (y : Bytes) : ∀ z Z, emitted (pendingOf y) ++ Z = encodeRaw (pendingOf y ++ z) →
    streamOut y ++ Z = encodeRaw (y ++ z) := by
  induction y using streamOut.induct with
  | case1 a b c rest ih =>
    intro z Z h
    simp only [pendingOf] at h
    rw [streamOut_group, List.append_assoc, ih z Z h]
    simp [encodeRaw]
  | case2 q hq =>
    intro z Z h
    have hp : pendingOf q = q := by rw [pendingOf]; exact hq
    rw [hp] at h
    rw [streamOut]
    · exact h
    · exact hq

/-- any chunking: updates then final give encode_raw of the concatenation -/
theorem chunks_rel (chunks : List Bytes) : ∀ (q : Bytes) (ctx : EncCtx), EncRel q ctx → q.length < 3 →
    emitted q ++ encodeChunksFrom ctx chunks = encodeRaw (q ++ chunks.flatten) := by
  induction chunks with
  | nil =>
    intro q ctx h _
    simp only [encodeChunksFrom, List.flatten_nil, List.append_nil]
    exact final_rel q ctx h
  | cons s rest ih =>
    intro q ctx h hl
    obtain ⟨o, r⟩ := update_rel s q ctx h
    have := ih (pendingOf (q ++ s)) _ r (pendingOf_length _)
    simp only [encodeChunksFrom, List.flatten_cons]
    rw [← List.append_assoc, o, ← List.append_assoc]
    exact streamOut_complete (q ++ s) rest.flatten _ this

/-! ### sizes -/

theorem encodeRaw_length (x : Bytes) : (encodeRaw x).length = ((x.length + 2) / 3) * 4 := by
  induction x using encodeRaw.induct with
  | case1 a b c rest ih => simp only [encodeRaw, List.length_cons, ih]; omega
  | case2 a b => simp [encodeRaw]
  | case3 a => simp [encodeRaw]
  | case4 => simp [encodeRaw]

/-- reachable encoder contexts -/
def EInv (ctx : EncCtx) : Prop := ctx.bits = 0 ∨ ctx.bits = 2 ∨ ctx.bits = 4

theorem single_size (ctx : EncCtx) (a : UInt8) (h : EInv ctx) :
    EInv (encodeSingle ctx a).1 ∧ 6 * (encodeSingle ctx a).2.length + (encodeSingle ctx a).1.bits = ctx.bits + 8 := by
  obtain ⟨w, b⟩ := ctx
  rcases h with h | h | h <;> simp only at h <;> subst h
  · rw [encodeSingle_8]; simp [EInv]
  · rw [encodeSingle_10]; simp [EInv]
  · rw [encodeSingle_12]; simp [EInv]

theorem singles_size (s : Bytes) : ∀ ctx, EInv ctx →
    EInv (encodeSingles ctx s).1 ∧ 6 * (encodeSingles ctx s).2.length + (encodeSingles ctx s).1.bits = ctx.bits + 8 * s.length := by
  induction s with
  | nil => intro ctx h; simp [encodeSingles, h]
  | cons x xs ih =>
    intro ctx h
    obtain ⟨i1, i2⟩ := single_size ctx x h
    obtain ⟨j1, j2⟩ := ih _ i1
    rw [encodeSingles_cons]
    refine ⟨j1, ?_⟩
    simp only [List.length_append, List.length_cons]
    omega

theorem drain_size (s : Bytes) : ∀ ctx, EInv ctx →
    EInv (encodeDrain ctx s).1 ∧
    6 * (encodeDrain ctx s).2.1.length + (encodeDrain ctx s).1.bits + 8 * (encodeDrain ctx s).2.2.length = ctx.bits + 8 * s.length ∧
    ((encodeDrain ctx s).2.2 ≠ [] → (encodeDrain ctx s).1.bits = 0) := by
  induction s with
  | nil => intro ctx h; simp [encodeDrain, h]
  | cons x xs ih =>
    intro ctx h
    rw [encodeDrain]
    by_cases hb : ctx.bits ≠ 0
    · obtain ⟨i1, i2⟩ := single_size ctx x h
      obtain ⟨j1, j2, j3⟩ := ih _ i1
      rw [if_pos hb]
      refine ⟨j1, ?_, j3⟩
      simp only [List.length_append, List.length_cons]
      omega
    · rw [if_neg hb]
      refine ⟨h, by simp, fun _ => by simp only; omega⟩

/-- `base64_encode_update`: exact output size -/
theorem update_size (s : Bytes) (ctx : EncCtx) (h : EInv ctx) :
    EInv (encodeUpdate ctx s).1 ∧ 6 * (encodeUpdate ctx s).2.length + (encodeUpdate ctx s).1.bits = ctx.bits + 8 * s.length := by
  obtain ⟨d1, d2, d3⟩ := drain_size s ctx h
  simp only [encodeUpdate]
  generalize encodeDrain ctx s = d at d1 d2 d3
  obtain ⟨c1, o1, rest⟩ := d
  simp only at d1 d2 d3 ⊢
  obtain ⟨t1, t2⟩ := singles_size (rest.drop (rest.length - rest.length % 3)) c1 d1
  refine ⟨t1, ?_⟩
  simp only [List.length_append, List.length_drop] at t2 ⊢
  by_cases hz : rest.length - rest.length % 3 = 0
  · simp only [hz, ne_eq, not_true_eq_false, ↓reduceIte, List.length_nil]
    rw [hz] at t2
    omega
  · have hne : rest ≠ [] := by intro h0; simp [h0] at hz
    have hb := d3 hne
    simp only [hz, ne_eq, not_false_eq_true, ↓reduceIte, encodeRaw_length, List.length_take]
    omega

theorem final_size (ctx : EncCtx) (h : EInv ctx) : (encodeFinal ctx).2.length ≤ 3 := by
  rcases h with h | h | h <;> simp [encodeFinal, h, padLoop]

def encodeCtxAfter (ctx : EncCtx) : List Bytes → EncCtx
  | [] => ctx
  | s :: rest => encodeCtxAfter (encodeUpdate ctx s).1 rest

theorem einv_after (chunks : List Bytes) : ∀ ctx, EInv ctx → EInv (encodeCtxAfter ctx chunks) := by
  induction chunks with
  | nil => intro ctx h; exact h
  | cons s rest ih => intro ctx h; exact ih _ (update_size s ctx h).1

/-- `base64_encode_group` on the 24-bit group of three bytes is `encode_raw` of those bytes -/
theorem encodeGroup_raw (a b c : UInt8) (hi : Nat) :
    encodeGroup (hi * 16777216 + a.toNat * 65536 + b.toNat * 256 + c.toNat) = encodeRaw [a, b, c] := by
  have ha := a.toNat_lt
  have hb := b.toNat_lt
  have hc := c.toNat_lt
  simp only [encodeGroup, encodeRaw, List.cons.injEq, and_true]
  refine ⟨?_, ?_, ?_, ?_⟩
  · apply alpha_congr; simp only [Nat.shiftRight_eq_div_pow]; omega
  · apply alpha_congr; rw [or_a4_b4]; simp only [Nat.shiftRight_eq_div_pow]; omega
  · apply alpha_congr; rw [or_b2_c6]; simp only [Nat.shiftRight_eq_div_pow]; omega
  · apply alpha_congr; omega

end SquidModel.Base64
