/-
Arithmetic normal forms of the C bit operators and of the single-character steps.
-/
import SquidModel.Base64.Shape

namespace SquidModel.Base64

theorem shl_or {d k : Nat} (w : Nat) (h : d < 2 ^ k) : (w <<< k) ||| d = w * 2 ^ k + d := by
  rw [← Nat.shiftLeft_add_eq_or_of_lt h, Nat.shiftLeft_eq]

theorem and63 (x : Nat) : 0x3F &&& x = x % 64 := by
  rw [Nat.and_comm]; exact Nat.and_two_pow_sub_one_eq_mod x 6

theorem and_mask (w k : Nat) : w &&& ((1 <<< k) - 1) = w % 2 ^ k := by
  rw [Nat.one_shiftLeft]; exact Nat.and_two_pow_sub_one_eq_mod w k

theorem alpha_eq (x : Nat) : alpha x = alphaAt (x % 64) := by
  simp [alpha, alphaAt, and63]

theorem alpha_congr {x y : Nat} (h : x % 64 = y % 64) : alpha x = alpha y := by
  rw [alpha_eq, alpha_eq, h]

theorem ofNat_eq_iff (n : Nat) (a : UInt8) : UInt8.ofNat n = a ↔ n % 256 = a.toNat := by
  rw [← UInt8.toNat_inj, UInt8.toNat_ofNat']

/-! ### base64_decode_single by class of the character -/

theorem single_invalid {c : UInt8} (h : tableAt c = -1) (lim : Nat) (ctx : DecCtx) : decodeSingle lim ctx c = (ctx, .err) := by
  simp [decodeSingle, h]

theorem single_ws {c : UInt8} (h : tableAt c = -2) (lim : Nat) (ctx : DecCtx) : decodeSingle lim ctx c = (ctx, .none) := by
  simp [decodeSingle, h]

theorem single_pad {c : UInt8} (h : tableAt c = -3) (lim : Nat) (ctx : DecCtx) :
    decodeSingle lim ctx c =
      if ctx.bits = 0 ∨ ctx.padding ≥ lim then (ctx, .err)
      else if ctx.word % 2 ^ ctx.bits ≠ 0 then (ctx, .err)
      else ({ ctx with padding := (ctx.padding + 1) % 256, bits := (ctx.bits + 256 - 2) % 256 }, .none) := by
  simp [decodeSingle, h, and_mask]

theorem single_data {c : UInt8} {v : Nat} (h : tableAt c = (v : Int)) (hv : v < 64) (lim : Nat) (ctx : DecCtx) :
    decodeSingle lim ctx c =
      if ctx.padding ≠ 0 then (ctx, .err)
      else if (ctx.bits + 6) % 256 ≥ 8 then
        ({ ctx with word := (ctx.word * 64 + v) % 65536, bits := (ctx.bits + 6) % 256 - 8 },
          .byte (UInt8.ofNat (((ctx.word * 64 + v) % 65536) / 2 ^ ((ctx.bits + 6) % 256 - 8))))
      else ({ ctx with word := (ctx.word * 64 + v) % 65536, bits := (ctx.bits + 6) % 256 }, .none) := by
  have h1 : ¬ ((v : Int) = -1) := by omega
  have h2 : ¬ ((v : Int) = -2) := by omega
  have h3 : ¬ ((v : Int) = -3) := by omega
  have h4 : ¬ ((v : Int) < 0 ∨ (v : Int) ≥ 64) := by omega
  have hs : (ctx.word <<< 6) ||| v = ctx.word * 64 + v := by
    have := shl_or (k := 6) ctx.word (by simpa using hv); simpa using this
  simp only [decodeSingle, h, h1, h2, h3, h4, ↓reduceIte, Int.toNat_natCast, hs, Nat.shiftRight_eq_div_pow]

/-- the three cases in one statement, for case analysis on an arbitrary character -/
theorem char_cases (c : UInt8) :
    tableAt c = -1 ∨ tableAt c = -2 ∨ tableAt c = -3 ∨ ∃ v : Nat, v < 64 ∧ tableAt c = (v : Int) := by
  rcases table_class c with h | h | h | ⟨h0, h1⟩
  · exact Or.inl h
  · exact Or.inr (Or.inl h)
  · exact Or.inr (Or.inr (Or.inl h))
  · refine Or.inr (Or.inr (Or.inr ⟨(tableAt c).toNat, ?_, ?_⟩)) <;> omega

theorem alpha_of_data {c : UInt8} {v x : Nat} (h : tableAt c = (v : Int)) (hx : x % 64 = v) : alpha x = c := by
  rw [alpha_eq, hx]
  have := alphaAt_table (c := c) (by omega)
  rw [h] at this
  simpa using this

theorem table_alpha (x : Nat) : tableAt (alpha x) = ((x % 64 : Nat) : Int) := by
  rw [alpha_eq]; exact table_alphaAt (Nat.mod_lt _ (by decide))

/-! ### base64_encode_single -/

theorem encLoop_spec (word : Nat) : ∀ (f bits : Nat), bits / 6 ≤ f →
    (encLoop word f bits).2 = bits % 6 ∧ (encLoop word f bits).1.length = bits / 6 := by
  intro f
  induction f with
  | zero => intro bits h; simp [encLoop]; omega
  | succ f ih =>
    intro bits h
    by_cases hb : bits ≥ 6
    · have := ih (bits - 6) (by omega)
      simp only [encLoop, hb, ↓reduceIte, this, List.length_cons]
      omega
    · simp only [encLoop, hb, ↓reduceIte, List.length_nil]
      omega

theorem encodeSingle_8 (w : Nat) (a : UInt8) :
    encodeSingle ⟨w, 0⟩ a = (⟨(w * 256 + a.toNat) % 4294967296 % 65536, 2⟩, [alpha ((w * 256 + a.toNat) % 4294967296 / 4)]) := by
  have hs : (w <<< 8) ||| a.toNat = w * 256 + a.toNat := by
    have := shl_or (k := 8) w (by simpa using a.toNat_lt); simpa using this
  simp [encodeSingle, encLoop, hs, Nat.shiftRight_eq_div_pow]

theorem encodeSingle_10 (w : Nat) (a : UInt8) :
    encodeSingle ⟨w, 2⟩ a = (⟨(w * 256 + a.toNat) % 4294967296 % 65536, 4⟩, [alpha ((w * 256 + a.toNat) % 4294967296 / 16)]) := by
  have hs : (w <<< 8) ||| a.toNat = w * 256 + a.toNat := by
    have := shl_or (k := 8) w (by simpa using a.toNat_lt); simpa using this
  simp [encodeSingle, encLoop, hs, Nat.shiftRight_eq_div_pow]

theorem encodeSingle_12 (w : Nat) (a : UInt8) :
    encodeSingle ⟨w, 4⟩ a = (⟨(w * 256 + a.toNat) % 4294967296 % 65536, 0⟩,
      [alpha ((w * 256 + a.toNat) % 4294967296 / 64), alpha ((w * 256 + a.toNat) % 4294967296)]) := by
  have hs : (w <<< 8) ||| a.toNat = w * 256 + a.toNat := by
    have := shl_or (k := 8) w (by simpa using a.toNat_lt); simpa using this
  simp [encodeSingle, encLoop, hs, Nat.shiftRight_eq_div_pow]

end SquidModel.Base64
