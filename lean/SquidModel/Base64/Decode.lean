/-
Decoder lemmas: invariant of the context, the BASE64_DECODE_LENGTH bound, white space, and the
round trip decode (encode_raw x) = x.
-/
import SquidModel.Base64.Steps

namespace SquidModel.Base64

/-- contexts reachable from base64_decode_init: bits ∈ {0,2,4,6} -/
def DInv (ctx : DecCtx) : Prop := ctx.bits % 2 = 0 ∧ ctx.bits ≤ 6

theorem dinv_init : DInv decodeInit := by simp [DInv, decodeInit]

/-- one character: the invariant is kept and `8 * (bytes stored) + bits'` does not exceed `bits + 6` -/
theorem single_inv (ctx : DecCtx) (c : UInt8) (h : DInv ctx) :
    DInv (decodeSingle ctx c).1 ∧
    (match (decodeSingle ctx c).2 with
     | .byte _ => (decodeSingle ctx c).1.bits + 8 ≤ ctx.bits + 6
     | _ => (decodeSingle ctx c).1.bits ≤ ctx.bits + 6) := by
  obtain ⟨h2, h6⟩ := h
  rcases char_cases c with hc | hc | hc | ⟨v, hv, hc⟩
  · simp [single_invalid hc, DInv, h2, h6]
  · simp [single_ws hc, DInv, h2, h6]
  · rw [single_pad hc]
    split
    · simp [DInv, h2, h6]
    · split
      · simp [DInv, h2, h6]
      · rename_i hb _
        simp only [DInv]
        have : ctx.bits ≠ 0 := by intro h0; exact hb (Or.inl h0)
        omega
  · rw [single_data hc hv]
    split
    · simp [DInv, h2, h6]
    · split
      · simp only [DInv]; omega
      · simp only [DInv]; omega

/-- `base64_decode_update` from an invariant context: invariant kept, and the number of bytes stored
(also when it fails part-way) obeys `8 * stored + bits' ≤ bits + 6 * length` -/
theorem update_inv (s : Bytes) : ∀ ctx, DInv ctx →
    DInv (decodeUpdate ctx s).1 ∧
    8 * (decodeUpdate ctx s).2.1.length + (decodeUpdate ctx s).1.bits ≤ ctx.bits + 6 * s.length := by
  induction s with
  | nil => intro ctx h; simp [decodeUpdate, h]
  | cons c cs ih =>
    intro ctx h
    have hs := single_inv ctx c h
    unfold decodeUpdate
    generalize hd : decodeSingle ctx c = r at hs
    obtain ⟨ctx', st⟩ := r
    cases st with
    | err => simp only at hs ⊢; refine ⟨hs.1, ?_⟩; simp; omega
    | assertFail => simp only at hs ⊢; refine ⟨hs.1, ?_⟩; simp; omega
    | none =>
      simp only at hs ⊢
      have := ih ctx' hs.1
      refine ⟨this.1, ?_⟩
      simp only [List.length_cons]; omega
    | byte b =>
      simp only at hs ⊢
      have := ih ctx' hs.1
      refine ⟨this.1, ?_⟩
      simp only [List.length_cons]; omega

/-- the assert of base64_decode_single never fires -/
theorem single_no_assert (ctx : DecCtx) (c : UInt8) : (decodeSingle ctx c).2 ≠ .assertFail := by
  rcases char_cases c with hc | hc | hc | ⟨v, hv, hc⟩
  · simp [single_invalid hc]
  · simp [single_ws hc]
  · rw [single_pad hc]
    split
    · simp
    · split <;> simp
  · rw [single_data hc hv]
    split
    · simp
    · split <;> simp

theorem update_no_assert (s : Bytes) : ∀ ctx, (decodeUpdate ctx s).2.2 ≠ .assertFail := by
  induction s with
  | nil => intro ctx; simp [decodeUpdate]
  | cons c cs ih =>
    intro ctx
    have hs := single_no_assert ctx c
    unfold decodeUpdate
    generalize decodeSingle ctx c = r at hs
    obtain ⟨ctx', st⟩ := r
    cases st with
    | err => simp
    | assertFail => simp at hs
    | none => exact ih ctx'
    | byte b => exact ih ctx'

/-- context after a sequence of update calls (whatever they returned) -/
def decodeCtxAfter (ctx : DecCtx) : List Bytes → DecCtx
  | [] => ctx
  | s :: rest => decodeCtxAfter (decodeUpdate ctx s).1 rest

theorem dinv_after (chunks : List Bytes) : ∀ ctx, DInv ctx → DInv (decodeCtxAfter ctx chunks) := by
  induction chunks with
  | nil => intro ctx h; exact h
  | cons s rest ih => intro ctx h; exact ih _ (update_inv s ctx h).1

/-! ### white space -/

theorem update_strip (s : Bytes) : ∀ ctx, decodeUpdate ctx (strip s) = decodeUpdate ctx s := by
  induction s with
  | nil => intro ctx; rfl
  | cons c cs ih =>
    intro ctx
    by_cases hw : isWs c = true
    · have hc : tableAt c = -2 := by simpa [isWs] using hw
      have : strip (c :: cs) = strip cs := by simp [strip, hw]
      rw [this, ih]
      conv => rhs; unfold decodeUpdate
      simp [single_ws hc]
    · have : strip (c :: cs) = c :: strip cs := by simp [strip, hw]
      rw [this]
      unfold decodeUpdate
      simp only [ih]

theorem decodeUpdate_cons (ctx : DecCtx) (c : UInt8) (cs : Bytes) :
    decodeUpdate ctx (c :: cs) =
      match decodeSingle ctx c with
      | (ctx', .err) => (ctx', [], .bad)
      | (ctx', .assertFail) => (ctx', [], .assertFail)
      | (ctx', .none) => decodeUpdate ctx' cs
      | (ctx', .byte b) => ((decodeUpdate ctx' cs).1, b :: (decodeUpdate ctx' cs).2.1, (decodeUpdate ctx' cs).2.2) := by
  rw [decodeUpdate]
  rfl

theorem update_append_ok (s t : Bytes) : ∀ ctx ctx' out, decodeUpdate ctx s = (ctx', out, .ok) →
    decodeUpdate ctx (s ++ t) = ((decodeUpdate ctx' t).1, out ++ (decodeUpdate ctx' t).2.1, (decodeUpdate ctx' t).2.2) := by
  induction s with
  | nil => intro ctx ctx' out h; simp [decodeUpdate] at h; obtain ⟨rfl, rfl⟩ := h; simp
  | cons c cs ih =>
    intro ctx ctx' out h
    simp only [List.cons_append, decodeUpdate_cons] at h ⊢
    generalize decodeSingle ctx c = r at h ⊢
    obtain ⟨c1, st⟩ := r
    cases st with
    | err => simp at h
    | assertFail => simp at h
    | none => simp only at h ⊢; exact ih c1 ctx' out h
    | byte b =>
      simp only at h ⊢
      generalize hr : decodeUpdate c1 cs = r2 at h
      obtain ⟨c2, o2, k2⟩ := r2
      simp only [Prod.mk.injEq] at h
      obtain ⟨rfl, rfl, rfl⟩ := h
      rw [ih c1 c2 o2 hr]
      simp

theorem update_append_fail (s t : Bytes) : ∀ ctx ctx' out k, decodeUpdate ctx s = (ctx', out, k) → k ≠ .ok →
    decodeUpdate ctx (s ++ t) = (ctx', out, k) := by
  induction s with
  | nil => intro ctx ctx' out k h hk; simp [decodeUpdate] at h; exact absurd h.2.2.symm hk
  | cons c cs ih =>
    intro ctx ctx' out k h hk
    simp only [List.cons_append, decodeUpdate_cons] at h ⊢
    generalize decodeSingle ctx c = r at h ⊢
    obtain ⟨c1, st⟩ := r
    cases st with
    | err => simpa using h
    | assertFail => simpa using h
    | none => simp only at h ⊢; exact ih c1 ctx' out k h hk
    | byte b =>
      simp only at h ⊢
      generalize hr : decodeUpdate c1 cs = r2 at h
      obtain ⟨c2, o2, k2⟩ := r2
      simp only [Prod.mk.injEq] at h
      obtain ⟨rfl, rfl, rfl⟩ := h
      rw [ih c1 c2 o2 k2 hr hk]

/-! ### decoding what encode_raw produces -/

end SquidModel.Base64
