/-
Decoder lemmas: invariant of the context, the BASE64_DECODE_LENGTH bound, white space, and the
round trip decode (encode_raw x) = x.
-/
import SquidModel.Base64.Steps

namespace SquidModel.Base64

/-- contexts reachable from base64_decode_init: bits ∈ {0,2,4,6} -/
def DInv (ctx : DecCtx) : Prop := ctx.bits % 2 = 0 ∧ ctx.bits ≤ 6

theorem dinv_init : DInv decodeInit := by simp [DInv, decodeInit]

/-- one character: the invariant is kept and `8 * (bytes stored) + bits'` does not exceed `bits + 6` -/
theorem single_inv (lim : Nat) (ctx : DecCtx) (c : UInt8) (h : DInv ctx) :
    DInv (decodeSingle lim ctx c).1 ∧
    (match (decodeSingle lim ctx c).2 with
     | .byte _ => (decodeSingle lim ctx c).1.bits + 8 ≤ ctx.bits + 6
     | _ => (decodeSingle lim ctx c).1.bits ≤ ctx.bits + 6) := by
  obtain ⟨h2, h6⟩ := h
  rcases char_cases c with hc | hc | hc | ⟨v, hv, hc⟩
  · simp [single_invalid hc, DInv, h2, h6]
  · simp [single_ws hc, DInv, h2, h6]
  · rw [single_pad hc]
    split
    · simp [DInv, h2, h6]
    · split
      · simp [DInv, h2, h6]
      · rename_i hb _
        simp only [DInv]
        have : ctx.bits ≠ 0 := by intro h0; exact hb (Or.inl h0)
        omega
  · rw [single_data hc hv]
    split
    · simp [DInv, h2, h6]
    · split
      · simp only [DInv]; omega
      · simp only [DInv]; omega

/-- `base64_decode_update` from an invariant context: invariant kept, and the number of bytes stored
(also when it fails part-way) obeys `8 * stored + bits' ≤ bits + 6 * length` -/
theorem update_inv (lim : Nat) (s : Bytes) : ∀ ctx, DInv ctx →
    DInv (decodeUpdate lim ctx s).1 ∧
    8 * (decodeUpdate lim ctx s).2.1.length + (decodeUpdate lim ctx s).1.bits ≤ ctx.bits + 6 * s.length := by
  induction s with
  | nil => intro ctx h; simp [decodeUpdate, h]
  | cons c cs ih =>
    intro ctx h
    have hs := single_inv lim ctx c h
    unfold decodeUpdate
    generalize hd : decodeSingle lim ctx c = r at hs
    obtain ⟨ctx', st⟩ := r
    cases st with
    | err => simp only at hs ⊢; refine ⟨hs.1, ?_⟩; simp; omega
    | assertFail => simp only at hs ⊢; refine ⟨hs.1, ?_⟩; simp; omega
    | none =>
      simp only at hs ⊢
      have := ih ctx' hs.1
      refine ⟨this.1, ?_⟩
      simp only [List.length_cons]; omega
    | byte b =>
      simp only at hs ⊢
      have := ih ctx' hs.1
      refine ⟨this.1, ?_⟩
      simp only [List.length_cons]; omega

/-- the assert of base64_decode_single never fires -/
theorem single_no_assert (lim : Nat) (ctx : DecCtx) (c : UInt8) : (decodeSingle lim ctx c).2 ≠ .assertFail := by
  rcases char_cases c with hc | hc | hc | ⟨v, hv, hc⟩
  · simp [single_invalid hc]
  · simp [single_ws hc]
  · rw [single_pad hc]
    split
    · simp
    · split <;> simp
  · rw [single_data hc hv]
    split
    · simp
    · split <;> simp

theorem update_no_assert (lim : Nat) (s : Bytes) : ∀ ctx, (decodeUpdate lim ctx s).2.2 ≠ .assertFail := by
  induction s with
  | nil => intro ctx; simp [decodeUpdate]
  | cons c cs ih =>
    intro ctx
    have hs := single_no_assert lim ctx c
    unfold decodeUpdate
    generalize decodeSingle lim ctx c = r at hs
    obtain ⟨ctx', st⟩ := r
    cases st with
    | err => simp
    | assertFail => simp at hs
    | none => exact ih ctx'
    | byte b => exact ih ctx'

/-- context after a sequence of update calls (whatever they returned) -/
def decodeCtxAfter (lim : Nat) (ctx : DecCtx) : List Bytes → DecCtx
  | [] => ctx
  | s :: rest => decodeCtxAfter lim (decodeUpdate lim ctx s).1 rest

theorem dinv_after (lim : Nat) (chunks : List Bytes) : ∀ ctx, DInv ctx → DInv (decodeCtxAfter lim ctx chunks) := by
  induction chunks with
  | nil => intro ctx h; exact h
  | cons s rest ih => intro ctx h; exact ih _ (update_inv lim s ctx h).1

/-! ### white space -/

theorem update_strip (lim : Nat) (s : Bytes) : ∀ ctx, decodeUpdate lim ctx (strip s) = decodeUpdate lim ctx s := by
  induction s with
  | nil => intro ctx; rfl
  | cons c cs ih =>
    intro ctx
    by_cases hw : isWs c = true
    · have hc : tableAt c = -2 := by simpa [isWs] using hw
      have : strip (c :: cs) = strip cs := by simp [strip, hw]
      rw [this, ih]
      conv => rhs; unfold decodeUpdate
      simp [single_ws hc]
    · have : strip (c :: cs) = c :: strip cs := by simp [strip, hw]
      rw [this]
      unfold decodeUpdate
      simp only [ih]

theorem decodeUpdate_cons (lim : Nat) (ctx : DecCtx) (c : UInt8) (cs : Bytes) :
    decodeUpdate lim ctx (c :: cs) =
      match decodeSingle lim ctx c with
      | (ctx', .err) => (ctx', [], .bad)
      | (ctx', .assertFail) => (ctx', [], .assertFail)
      | (ctx', .none) => decodeUpdate lim ctx' cs
      | (ctx', .byte b) => ((decodeUpdate lim ctx' cs).1, b :: (decodeUpdate lim ctx' cs).2.1, (decodeUpdate lim ctx' cs).2.2) := by
  rw [decodeUpdate]
  rfl

theorem update_append_ok (lim : Nat) (s t : Bytes) : ∀ ctx ctx' out, decodeUpdate lim ctx s = (ctx', out, .ok) →
    decodeUpdate lim ctx (s ++ t) = ((decodeUpdate lim ctx' t).1, out ++ (decodeUpdate lim ctx' t).2.1, (decodeUpdate lim ctx' t).2.2) := by
  induction s with
  | nil => intro ctx ctx' out h; simp [decodeUpdate] at h; obtain ⟨rfl, rfl⟩ := h; simp
  | cons c cs ih =>
    intro ctx ctx' out h
    simp only [List.cons_append, decodeUpdate_cons] at h ⊢
    generalize decodeSingle lim ctx c = r at h ⊢
    obtain ⟨c1, st⟩ := r
    cases st with
    | err => simp at h
    | assertFail => simp at h
    | none => simp only at h ⊢; exact ih c1 ctx' out h
    | byte b =>
      simp only at h ⊢
      generalize hr : decodeUpdate lim c1 cs = r2 at h
      obtain ⟨c2, o2, k2⟩ := r2
      simp only [Prod.mk.injEq] at h
      obtain ⟨rfl, rfl, rfl⟩ := h
      rw [ih c1 c2 o2 hr]
      simp

theorem update_append_fail (lim : Nat) (s t : Bytes) : ∀ ctx ctx' out k, decodeUpdate lim ctx s = (ctx', out, k) → k ≠ .ok →
    decodeUpdate lim ctx (s ++ t) = (ctx', out, k) := by
  induction s with
  | nil => intro ctx ctx' out k h hk; simp [decodeUpdate] at h; exact absurd h.2.2.symm hk
  | cons c cs ih =>
    intro ctx ctx' out k h hk
    simp only [List.cons_append, decodeUpdate_cons] at h ⊢
    generalize decodeSingle lim ctx c = r at h ⊢
    obtain ⟨c1, st⟩ := r
    cases st with
    | err => simpa using h
    | assertFail => simpa using h
    | none => simp only at h ⊢; exact ih c1 ctx' out k h hk
    | byte b =>
      simp only at h ⊢
      generalize hr : decodeUpdate lim c1 cs = r2 at h
      obtain ⟨c2, o2, k2⟩ := r2
      simp only [Prod.mk.injEq] at h
      obtain ⟨rfl, rfl, rfl⟩ := h
      rw [ih c1 c2 o2 k2 hr hk]

/-! ### decoding what encode_raw produces -/

/-- `ctx->word = ctx->word << 6 | data` -/
def wstep (w v : Nat) : Nat := (w * 64 + v) % 65536

theorem step0 {c : UInt8} {v : Nat} (h : tableAt c = (v : Int)) (hv : v < 64) (lim w : Nat) :
    decodeSingle lim ⟨w, 0, 0⟩ c = (⟨wstep w v, 6, 0⟩, .none) := by
  rw [single_data h hv]; simp [wstep]

theorem step6 {c : UInt8} {v : Nat} (h : tableAt c = (v : Int)) (hv : v < 64) (lim w : Nat) :
    decodeSingle lim ⟨w, 6, 0⟩ c = (⟨wstep w v, 4, 0⟩, .byte (UInt8.ofNat (wstep w v / 16))) := by
  rw [single_data h hv]; simp [wstep]

theorem step4 {c : UInt8} {v : Nat} (h : tableAt c = (v : Int)) (hv : v < 64) (lim w : Nat) :
    decodeSingle lim ⟨w, 4, 0⟩ c = (⟨wstep w v, 2, 0⟩, .byte (UInt8.ofNat (wstep w v / 4))) := by
  rw [single_data h hv]; simp [wstep]

theorem step2 {c : UInt8} {v : Nat} (h : tableAt c = (v : Int)) (hv : v < 64) (lim w : Nat) :
    decodeSingle lim ⟨w, 2, 0⟩ c = (⟨wstep w v, 0, 0⟩, .byte (UInt8.ofNat (wstep w v))) := by
  rw [single_data h hv]; simp [wstep]

/-- four data characters from bits = 0 -/
theorem decode_quad {c1 c2 c3 c4 : UInt8} {v1 v2 v3 v4 : Nat}
    (h1 : tableAt c1 = (v1 : Int)) (h2 : tableAt c2 = (v2 : Int)) (h3 : tableAt c3 = (v3 : Int)) (h4 : tableAt c4 = (v4 : Int))
    (l1 : v1 < 64) (l2 : v2 < 64) (l3 : v3 < 64) (l4 : v4 < 64) (lim w : Nat) (rest : Bytes) :
    decodeUpdate lim ⟨w, 0, 0⟩ (c1 :: c2 :: c3 :: c4 :: rest) =
      ((decodeUpdate lim ⟨wstep (wstep (wstep (wstep w v1) v2) v3) v4, 0, 0⟩ rest).1,
       UInt8.ofNat (wstep (wstep w v1) v2 / 16) :: UInt8.ofNat (wstep (wstep (wstep w v1) v2) v3 / 4) ::
         UInt8.ofNat (wstep (wstep (wstep (wstep w v1) v2) v3) v4) ::
         (decodeUpdate lim ⟨wstep (wstep (wstep (wstep w v1) v2) v3) v4, 0, 0⟩ rest).2.1,
       (decodeUpdate lim ⟨wstep (wstep (wstep (wstep w v1) v2) v3) v4, 0, 0⟩ rest).2.2) := by
  rw [decodeUpdate_cons, step0 h1 l1]
  simp only
  rw [decodeUpdate_cons, step6 h2 l2]
  simp only
  rw [decodeUpdate_cons, step4 h3 l3]
  simp only
  rw [decodeUpdate_cons, step2 h4 l4]

/-- the bytes recovered from the sextets of a group -/
theorem quad_bytes (w : Nat) (a b c : Nat) (ha : a < 256) (hb : b < 256) (hc : c < 256) :
    let v1 := (a / 4) % 64
    let v2 := (a * 16 + b / 16) % 64
    let v3 := (b * 4 + c / 64) % 64
    let v4 := c % 64
    (wstep (wstep w v1) v2 / 16) % 256 = a ∧ (wstep (wstep (wstep w v1) v2) v3 / 4) % 256 = b ∧
    (wstep (wstep (wstep (wstep w v1) v2) v3) v4) % 256 = c := by
  simp only [wstep]
  omega

theorem enc_or1 (a b : UInt8) : (a.toNat <<< 4) ||| (b.toNat >>> 4) = a.toNat * 16 + b.toNat / 16 := by
  have hb := b.toNat_lt
  have := shl_or (k := 4) (d := b.toNat >>> 4) a.toNat (by rw [Nat.shiftRight_eq_div_pow]; omega)
  simpa [Nat.shiftRight_eq_div_pow] using this

theorem enc_or2 (b c : UInt8) : (b.toNat <<< 2) ||| (c.toNat >>> 6) = b.toNat * 4 + c.toNat / 64 := by
  have hc := c.toNat_lt
  have := shl_or (k := 2) (d := c.toNat >>> 6) b.toNat (by rw [Nat.shiftRight_eq_div_pow]; omega)
  simpa [Nat.shiftRight_eq_div_pow] using this

/-- a full group: four characters give back the three bytes and leave bits = 0 -/
theorem decode_group (lim w : Nat) (a b c : UInt8) (rest : Bytes) :
    ∃ w', decodeUpdate lim ⟨w, 0, 0⟩ (encodeRaw [a, b, c] ++ rest) =
      ((decodeUpdate lim ⟨w', 0, 0⟩ rest).1, a :: b :: c :: (decodeUpdate lim ⟨w', 0, 0⟩ rest).2.1, (decodeUpdate lim ⟨w', 0, 0⟩ rest).2.2) := by
  have ha := a.toNat_lt
  have hb := b.toNat_lt
  have hc := c.toNat_lt
  simp only [Nat.reducePow] at ha hb hc
  have m := fun x => Nat.mod_lt x (show 64 > 0 by decide)
  have q := quad_bytes w a.toNat b.toNat c.toNat ha hb hc
  simp only at q
  refine ⟨wstep (wstep (wstep (wstep w (a.toNat / 4 % 64)) ((a.toNat * 16 + b.toNat / 16) % 64)) ((b.toNat * 4 + c.toNat / 64) % 64)) (c.toNat % 64), ?_⟩
  simp only [encodeRaw, List.cons_append, List.nil_append]
  rw [decode_quad (table_alpha _) (table_alpha _) (table_alpha _) (table_alpha _) (m _) (m _) (m _) (m _)]
  rw [enc_or1, enc_or2, Nat.shiftRight_eq_div_pow]
  have b0 := (ofNat_eq_iff _ a).mpr q.1
  have b1 := (ofNat_eq_iff _ b).mpr q.2.1
  have b2 := (ofNat_eq_iff _ c).mpr q.2.2
  simp only [Nat.reducePow] at b0 b1 b2 ⊢
  rw [b0, b1, b2]

theorem table_61 : tableAt 61 = -3 := by decide

/-- an acceptable pad character -/
theorem padstep (lim w b p : Nat) (hb : 2 ≤ b) (hb6 : b ≤ 6) (hp : p < lim) (hp2 : p ≤ 254) (hw : w % 2 ^ b = 0) :
    decodeSingle lim ⟨w, b, p⟩ 61 = (⟨w, b - 2, p + 1⟩, .none) := by
  rw [single_pad table_61]
  have h1 : ¬ (b = 0 ∨ p ≥ lim) := by omega
  simp only [h1, ↓reduceIte, hw, ne_eq, not_true_eq_false]
  have e1 : (p + 1) % 256 = p + 1 := by omega
  have e2 : (b + 256 - 2) % 256 = b - 2 := by omega
  rw [e1, e2]

theorem decode_tail1 (lim w : Nat) (hlim : 2 ≤ lim) (a : UInt8) :
    ∃ ctx', decodeUpdate lim ⟨w, 0, 0⟩ (encodeRaw [a]) = (ctx', [a], .ok) ∧ ctx'.bits = 0 ∧ ctx'.padding = 2 := by
  have ha := a.toNat_lt
  simp only [Nat.reducePow] at ha
  have m := fun x => Nat.mod_lt x (show 64 > 0 by decide)
  simp only [encodeRaw]
  rw [decodeUpdate_cons, step0 (table_alpha _) (m _)]
  simp only
  rw [decodeUpdate_cons, step6 (table_alpha _) (m _)]
  simp only
  rw [Nat.shiftRight_eq_div_pow, Nat.shiftLeft_eq]
  have hz : wstep (wstep w (a.toNat / 2 ^ 2 % 64)) (a.toNat * 2 ^ 4 % 64) % 2 ^ 4 = 0 := by
    simp only [wstep]; omega
  have hz2 : wstep (wstep w (a.toNat / 2 ^ 2 % 64)) (a.toNat * 2 ^ 4 % 64) % 2 ^ 2 = 0 := by
    simp only [wstep]; omega
  rw [decodeUpdate_cons, padstep lim _ 4 0 (by decide) (by decide) (by omega) (by decide) hz]
  simp only
  rw [decodeUpdate_cons, padstep lim _ 2 1 (by decide) (by decide) (by omega) (by decide) hz2]
  simp only [decodeUpdate]
  have b0 : UInt8.ofNat (wstep (wstep w (a.toNat / 2 ^ 2 % 64)) (a.toNat * 2 ^ 4 % 64) / 16) = a := by
    rw [ofNat_eq_iff]; simp only [wstep]; omega
  rw [b0]
  exact ⟨_, rfl, rfl, rfl⟩

theorem decode_tail2 (lim w : Nat) (hlim : 2 ≤ lim) (a b : UInt8) :
    ∃ ctx', decodeUpdate lim ⟨w, 0, 0⟩ (encodeRaw [a, b]) = (ctx', [a, b], .ok) ∧ ctx'.bits = 0 ∧ ctx'.padding = 1 := by
  have ha := a.toNat_lt
  have hb := b.toNat_lt
  simp only [Nat.reducePow] at ha hb
  have m := fun x => Nat.mod_lt x (show 64 > 0 by decide)
  simp only [encodeRaw]
  rw [decodeUpdate_cons, step0 (table_alpha _) (m _)]
  simp only
  rw [decodeUpdate_cons, step6 (table_alpha _) (m _)]
  simp only
  rw [decodeUpdate_cons, step4 (table_alpha _) (m _)]
  simp only
  rw [enc_or1, Nat.shiftRight_eq_div_pow, Nat.shiftLeft_eq]
  have hz : wstep (wstep (wstep w (a.toNat / 2 ^ 2 % 64)) ((a.toNat * 16 + b.toNat / 16) % 64)) (b.toNat * 2 ^ 2 % 64) % 2 ^ 2 = 0 := by
    simp only [wstep]; omega
  rw [decodeUpdate_cons, padstep lim _ 2 0 (by decide) (by decide) (by omega) (by decide) hz]
  simp only [decodeUpdate]
  have b0 : UInt8.ofNat (wstep (wstep w (a.toNat / 2 ^ 2 % 64)) ((a.toNat * 16 + b.toNat / 16) % 64) / 16) = a := by
    rw [ofNat_eq_iff]; simp only [wstep]; omega
  have b1 : UInt8.ofNat (wstep (wstep (wstep w (a.toNat / 2 ^ 2 % 64)) ((a.toNat * 16 + b.toNat / 16) % 64)) (b.toNat * 2 ^ 2 % 64) / 4) = b := by
    rw [ofNat_eq_iff]; simp only [wstep]; omega
  rw [b0, b1]
  exact ⟨_, rfl, rfl, rfl⟩

/-- decoding the output of encode_raw, from any context with bits = 0 and no padding seen -/
theorem decode_encodeRaw (lim : Nat) (hlim : 2 ≤ lim) (x : Bytes) : ∀ w, ∃ ctx', decodeUpdate lim ⟨w, 0, 0⟩ (encodeRaw x) = (ctx', x, .ok) ∧
    ctx'.bits = 0 ∧ ctx'.padding ≤ 2 := by
  induction x using encodeRaw.induct with
  | case1 a b c rest ih =>
    intro w
    obtain ⟨w', hg⟩ := decode_group lim w a b c (encodeRaw rest)
    obtain ⟨ctx', h, hb, hp⟩ := ih w'
    refine ⟨ctx', ?_, hb, hp⟩
    have : encodeRaw (a :: b :: c :: rest) = encodeRaw [a, b, c] ++ encodeRaw rest := by simp [encodeRaw]
    rw [this, hg, h]
  | case2 a b =>
    intro w
    obtain ⟨ctx', h, hb, hp⟩ := decode_tail2 lim w hlim a b
    exact ⟨ctx', h, hb, by omega⟩
  | case3 a =>
    intro w
    obtain ⟨ctx', h, hb, hp⟩ := decode_tail1 lim w hlim a
    exact ⟨ctx', h, hb, by omega⟩
  | case4 => intro w; exact ⟨_, rfl, rfl, Nat.zero_le _⟩

end SquidModel.Base64
