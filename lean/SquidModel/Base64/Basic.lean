/-
Model of the Basic credentials path of src/auth/basic/Config.cc:
`Auth::Basic::Config::decodeCleartext` (header trimming, strtok at LF, buffer of
BASE64_DECODE_LENGTH(srcLen)+1 bytes, base64 decode, NUL terminator, CR/LF rejection) and the
credential split of `Auth::Basic::Config::decode` (first colon, Tolower of the user name when
`casesensitive` is off, missing / empty password).  `utf8` is off (the default); the name-cache
lookup that follows the split is C46's subject.
-/
import SquidModel.Base64.Codec

namespace SquidModel.Base64.Basic
open SquidModel.Base64

/-- `xisgraph` in the C locale -/
def isGraph (c : UInt8) : Bool := 0x21 ≤ c && c ≤ 0x7e
/-- `xisspace` in the C locale -/
def isSpace (c : UInt8) : Bool := (9 ≤ c && c ≤ 13) || c == 32
/-- `xtolower` in the C locale -/
def toLower (c : UInt8) : UInt8 := if 65 ≤ c && c ≤ 90 then c + 32 else c

/-- what C string functions see of a buffer: the bytes before the first NUL -/
def cstr (s : Bytes) : Bytes := s.takeWhile (· ≠ 0)

/-- contents of `eek` (as a C string) after `strtok(eek, "\n")`: strtok skips leading delimiters
to find the token start and writes a NUL over the first delimiter after the token; `eek` itself
is not moved. -/
def strtokLF (s : Bytes) : Bytes :=
  let lead := s.takeWhile (· == 10)
  let rest := s.dropWhile (· == 10)
  match rest with
  | [] => s
  | _ => lead ++ rest.takeWhile (· ≠ 10)

/-- the memory side of decodeCleartext: size of the `cleartext` allocation, number of bytes the
decoder stored into it, and the index of the terminating NUL when one is written -/
structure ClearMem where
  size : Nat
  written : Nat
  nulAt : Option Nat
deriving DecidableEq, Repr

/-- trimming done before decoding: skip the scheme token, then white space, then cut at LF -/
def payload (hdr : Bytes) : Bytes := strtokLF ((hdr.dropWhile isGraph).dropWhile isSpace)

def clearMem (lim : Nat) (hdr : Bytes) : ClearMem :=
  let eek := payload hdr
  let r := decodeUpdate lim decodeInit eek
  { size := decodeLength eek.length + Gen.Base64.cleartextExtra
    written := r.2.1.length
    nulAt := if r.2.2 = .ok ∧ decodeFinal r.1 then some r.2.1.length else none }

/-- `decodeCleartext`: the returned C string, `none` = nullptr.  (`hdr` is a C string: NUL free) -/
def decodeCleartext (lim : Nat) (hdr : Bytes) : Option Bytes :=
  let eek := payload hdr
  let r := decodeUpdate lim decodeInit eek
  if r.2.2 = .ok ∧ decodeFinal r.1 then
    if r.2.1.contains 0 then none else   -- memchr(cleartext, '\0', dstLen): embedded NUL refused
    let clear := cstr r.2.1            -- cleartext[dstLen] = '\0'; everything below uses C string functions
    -- utf8 is off: no transcoding
    if clear.any (fun c => c == 13 || c == 10) then none   -- strcspn(cleartext, "\r\n") != strlen(cleartext)
    else some clear
  else none

inductive Deny where
  | none
  | noPassword     -- "no password was present in the HTTP [proxy-]authorization header..."
  | emptyPassword  -- "Request denied because you provided an empty password..."
deriving DecidableEq, Repr

/-- what `decode` leaves in the user object -/
structure Creds where
  user : Bytes
  pass : Option Bytes   -- `passwd`, none = nullptr
  deny : Deny
  valid : Bool          -- `local_basic->valid()`: otherwise auth_type = AUTH_BROKEN
deriving DecidableEq, Repr

/-- the credential split of `Auth::Basic::Config::decode`; `none` = no user attached to the request -/
def decode (lim : Nat) (caseSensitive : Bool) (hdr : Bytes) : Option Creds :=
  match decodeCleartext lim hdr with
  | none => none
  | some clear =>
    -- separator = strchr(cleartext, ':')
    let hasSep := clear.contains 58
    let user0 := clear.takeWhile (· ≠ 58)                    -- *separator = '\0'
    let pass0 : Option Bytes := if hasSep then some ((clear.dropWhile (· ≠ 58)).drop 1) else none
    let user := if caseSensitive then user0 else user0.map toLower   -- Tolower(cleartext)
    match pass0 with
    | none => some ⟨user, none, .noPassword, false⟩
    | some [] => some ⟨user, none, .emptyPassword, false⟩   -- safe_free(passwd)
    | some p => some ⟨user, some p, .none, true⟩

end SquidModel.Base64.Basic
