/-
Model of lib/base64.cc (the nettle 3.4 copy squid carries; the system libnettle the binary
links has the same API and is tied to the same model by the correspondence run).

Every public function of the file is modelled, branch by branch, with the C integer types made
explicit: `unsigned short word` is a Nat reduced mod 65536 at every store, `unsigned char
bits/padding` mod 256, the `unsigned` locals of base64_encode_single mod 2^32.  Bit operators
are the C ones (`<<< ||| &&& >>>` on Nat).  The two lookup tables come from the running code
(`Gen.Base64`).
-/
import SquidModel.Base.Bytes
import SquidModel.Gen.Base64Tables

namespace SquidModel.Base64

/-! ## sizes promised by include/base64.h (constants regenerated from the header text) -/

/-- `BASE64_DECODE_LENGTH(length)` -/
def decodeLength (n : Nat) : Nat := ((n + Gen.Base64.decLenAdd) * Gen.Base64.decLenMul) / Gen.Base64.decLenDiv
/-- `BASE64_ENCODE_LENGTH(length)` -/
def encodeLength (n : Nat) : Nat := (n * Gen.Base64.encLenMul + Gen.Base64.encLenAdd) / Gen.Base64.encLenDiv
/-- `BASE64_ENCODE_FINAL_LENGTH` -/
def encodeFinalLength : Nat := Gen.Base64.encFinalLength
/-- `BASE64_ENCODE_RAW_LENGTH(length)` -/
def encodeRawLength (n : Nat) : Nat := ((n + Gen.Base64.rawLenAdd) / Gen.Base64.rawLenDiv) * Gen.Base64.rawLenMul

/-! ## decoding -/

/-- `struct base64_decode_ctx` without the table pointer -/
structure DecCtx where
  word : Nat      -- unsigned short
  bits : Nat      -- unsigned char
  padding : Nat   -- unsigned char
deriving DecidableEq, Repr

/-- `base64_decode_init` -/
def decodeInit : DecCtx := ⟨0, 0, 0⟩

/-- `ctx->table[(uint8_t) src]` -/
def tableAt (c : UInt8) : Int := Gen.Base64.decodeTable.getD c.toNat (-1)

/-- result of `base64_decode_single`: -1, 0, 1 (with the byte stored in dst[0]), or the
`assert(data >= 0 && data < 0x40)` firing -/
inductive Step where
  | err
  | none
  | byte (b : UInt8)
  | assertFail
deriving DecidableEq, Repr

/-- `base64_decode_single`.  `lim` is the number of pad characters after which another one is
refused: the test reads `ctx->padding >= 2` in lib/base64.cc (lim = 2) and `ctx->padding > 2` in
libnettle 3.8 (lim = 3); both values are probed from the running code (`Gen.Base64.*PadLimit`). -/
def decodeSingle (lim : Nat) (ctx : DecCtx) (c : UInt8) : DecCtx × Step :=
  let data := tableAt c
  if data = -1 then (ctx, .err)                                   -- TABLE_INVALID
  else if data = -2 then (ctx, .none)                             -- TABLE_SPACE
  else if data = -3 then                                          -- TABLE_END
    if ctx.bits = 0 ∨ ctx.padding ≥ lim then (ctx, .err)
    else if ctx.word &&& ((1 <<< ctx.bits) - 1) ≠ 0 then (ctx, .err)
    else ({ ctx with padding := (ctx.padding + 1) % 256, bits := (ctx.bits + 256 - 2) % 256 }, .none)
  else if data < 0 ∨ data ≥ 64 then (ctx, .assertFail)            -- default: assert
  else if ctx.padding ≠ 0 then (ctx, .err)
  else
    let word := ((ctx.word <<< 6) ||| data.toNat) % 65536
    let bits := (ctx.bits + 6) % 256
    if bits ≥ 8 then
      let bits := bits - 8
      ({ ctx with word := word, bits := bits }, .byte (UInt8.ofNat (word >>> bits)))
    else ({ ctx with word := word, bits := bits }, .none)

/-- outcome of `base64_decode_update` -/
inductive UpdRes where
  | ok          -- returned 1, *dst_length = number of bytes written
  | bad         -- returned 0 (bytes may have been written before the bad character)
  | assertFail
deriving DecidableEq, Repr

/-- `base64_decode_update`: final context, the bytes stored into `dst` (in order, also on the
failing path: they are written before the bad character is seen), and the outcome. -/
def decodeUpdate (lim : Nat) (ctx : DecCtx) : Bytes → DecCtx × Bytes × UpdRes
  | [] => (ctx, [], .ok)
  | c :: cs =>
    match decodeSingle lim ctx c with
    | (ctx', .err) => (ctx', [], .bad)
    | (ctx', .assertFail) => (ctx', [], .assertFail)
    | (ctx', .none) => decodeUpdate lim ctx' cs
    | (ctx', .byte b) =>
      let r := decodeUpdate lim ctx' cs
      (r.1, b :: r.2.1, r.2.2)

/-- `base64_decode_final` -/
def decodeFinal (ctx : DecCtx) : Bool := ctx.bits == 0

/-- init; one update per chunk (stopping at the first failing one); final.
`some bytes` = every update returned 1 and final returned 1. -/
def decodeChunksFrom (lim : Nat) (ctx : DecCtx) : List Bytes → Option Bytes
  | [] => if decodeFinal ctx then some [] else none
  | s :: rest =>
    match decodeUpdate lim ctx s with
    | (ctx', out, .ok) => (decodeChunksFrom lim ctx' rest).map (out ++ ·)
    | _ => none

def decodeChunks (lim : Nat) (chunks : List Bytes) : Option Bytes := decodeChunksFrom lim decodeInit chunks

/-- one-shot use (what squid's callers do): init, one update, final -/
def decodeAll (lim : Nat) (s : Bytes) : Option Bytes := decodeChunks lim [s]

/-! ## encoding -/

/-- `struct base64_encode_ctx` without the alphabet pointer -/
structure EncCtx where
  word : Nat   -- unsigned short
  bits : Nat   -- unsigned char
deriving DecidableEq, Repr

/-- `base64_encode_init` -/
def encodeInit : EncCtx := ⟨0, 0⟩

/-- `ENCODE(alphabet, x)` = `alphabet[0x3F & x]` -/
def alpha (x : Nat) : UInt8 := Gen.Base64.encodeTable.getD (0x3F &&& x) 0

/-- the `while (bits >= 6)` loop of base64_encode_single (fuel = an upper bound of the trip count) -/
def encLoop (word : Nat) : Nat → Nat → Bytes × Nat
  | 0, bits => ([], bits)
  | f + 1, bits =>
    if bits ≥ 6 then
      let r := encLoop word f (bits - 6)
      (alpha (word >>> (bits - 6)) :: r.1, r.2)
    else ([], bits)

/-- `base64_encode_single` -/
def encodeSingle (ctx : EncCtx) (src : UInt8) : EncCtx × Bytes :=
  let word := ((ctx.word <<< 8) ||| src.toNat) % 4294967296
  let bits := ctx.bits + 8
  let r := encLoop word bits bits
  (⟨word % 65536, r.2 % 256⟩, r.1)

/-- a run of `base64_encode_single` calls -/
def encodeSingles (ctx : EncCtx) : Bytes → EncCtx × Bytes
  | [] => (ctx, [])
  | b :: bs =>
    let r := encodeSingle ctx b
    let r' := encodeSingles r.1 bs
    (r'.1, r.2 ++ r'.2)

/-- `encode_raw` / `base64_encode_raw`: the per-group expressions of the C code; the C loop
walks the groups from the last to the first (to allow in-place use), the result is the same
sequence. -/
def encodeRaw : Bytes → Bytes
  | a :: b :: c :: rest =>
    alpha (a.toNat >>> 2) :: alpha ((a.toNat <<< 4) ||| (b.toNat >>> 4)) ::
    alpha ((b.toNat <<< 2) ||| (c.toNat >>> 6)) :: alpha c.toNat :: encodeRaw rest
  | [a, b] => [alpha (a.toNat >>> 2), alpha ((a.toNat <<< 4) ||| (b.toNat >>> 4)), alpha (b.toNat <<< 2), 61]
  | [a] => [alpha (a.toNat >>> 2), alpha (a.toNat <<< 4), 61, 61]
  | [] => []

/-- `base64_encode_group` -/
def encodeGroup (group : Nat) : Bytes :=
  [alpha (group >>> 18), alpha (group >>> 12), alpha (group >>> 6), alpha group]

/-- first loop of base64_encode_update: `while (ctx->bits && left)` -/
def encodeDrain (ctx : EncCtx) : Bytes → EncCtx × Bytes × Bytes
  | [] => (ctx, [], [])
  | b :: bs =>
    if ctx.bits ≠ 0 then
      let r := encodeSingle ctx b
      let r' := encodeDrain r.1 bs
      (r'.1, r.2 ++ r'.2.1, r'.2.2)
    else (ctx, [], b :: bs)

/-- `base64_encode_update` -/
def encodeUpdate (ctx : EncCtx) (src : Bytes) : EncCtx × Bytes :=
  let d := encodeDrain ctx src
  let rest := d.2.2
  let leftOver := rest.length % 3
  let bulk := rest.length - leftOver
  let out2 := if bulk ≠ 0 then encodeRaw (rest.take bulk) else []
  let t := encodeSingles d.1 (rest.drop bulk)
  (t.1, d.2.1 ++ out2 ++ t.2)

/-- the padding loop of base64_encode_final: `for (; bits < 6; bits += 2) dst[done++] = '='` -/
def padLoop : Nat → Nat → Bytes
  | 0, _ => []
  | f + 1, bits => if bits < 6 then 61 :: padLoop f (bits + 2) else []

/-- `base64_encode_final` -/
def encodeFinal (ctx : EncCtx) : EncCtx × Bytes :=
  if ctx.bits ≠ 0 then
    ({ ctx with bits := 0 }, alpha (ctx.word <<< (6 - ctx.bits)) :: padLoop 3 ctx.bits)
  else (ctx, [])

/-- init; one update per chunk; final: all output concatenated -/
def encodeChunksFrom (ctx : EncCtx) : List Bytes → Bytes
  | [] => (encodeFinal ctx).2
  | s :: rest =>
    let r := encodeUpdate ctx s
    r.2 ++ encodeChunksFrom r.1 rest

def encodeChunks (chunks : List Bytes) : Bytes := encodeChunksFrom encodeInit chunks

/-! ## specification-side notions -/

/-- the six characters the decode table marks as white space -/
def isWs (c : UInt8) : Bool := tableAt c == -2

/-- input with the white space removed -/
def strip (s : Bytes) : Bytes := s.filter (fun c => !isWs c)

end SquidModel.Base64
